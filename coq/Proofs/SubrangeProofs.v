(* C11: parsing a contiguous sub-range of a compact share sequence out of context.

   shs = compact_spec_ix ns 0 txs (the closed-form share encoding of the stream
   S = stream txs of length-prefixed transactions).  For every lo <= hi <= length shs

     parse_txs (firstn (hi - lo) (skipn lo shs))
       = Ok [ tx_k | coff lo <= start_k  /\  end_k <= min (coff hi) (length S) ]

   Three parts:
   A. parse_raw_data on (a cut of) a stream of units followed by zero fill returns
      exactly the units that are complete (varint canonicity, truncated delimiters);
   B. extract_raw_data over shares lo..hi-1 skips the shares without a unit start and
      returns the stream from the first unit start u >= coff lo up to coff hi, zero filled;
   C. glue: the first unit start found by the reserved bytes is a unit boundary. *)
From Coq Require Import List Arith NArith ZArith Lia Bool.
From Coq Require Import ZifyN ZifyNat ZifyBool.
From GS.Model Require Import Base Varint Namespace ShareFmt Compact.
From GS.Spec Require Import ShareSpec CompactSpec.
From GS.Proofs Require Import BaseLemmas VarintProofs.
Import ListNotations.

Open Scope nat_scope.

(* ------------------------------------------------------------------------- *)
(* The characterisation: transactions whose unit starts at or after [a] and    *)
(* ends at or before [b]; [off] is the stream offset of the first unit.        *)
(* ------------------------------------------------------------------------- *)
Definition in_range (a b : nat) (p : bytes * nat) : bool :=
  Nat.leb a (snd p) && Nat.leb (snd p + length (marshal_delimited (fst p))) b.
Definition sel_txs (a b off : nat) (txs : list bytes) : list bytes :=
  map fst (filter (in_range a b) (combine txs (ustarts off (units txs)))).
Definition sub_expected (lo hi : nat) (txs : list bytes) : list bytes :=
  sel_txs (coff lo) (Nat.min (coff hi) (length (stream txs))) 0 txs.

Definition sr_tx_ok (tx : bytes) : Prop := 0 < length tx /\ (lenN tx < 2 ^ 64)%N.

Lemma sr_stream_cons tx tl : stream (tx :: tl) = marshal_delimited tx ++ stream tl.
Proof. reflexivity. Qed.

Lemma sr_stream_app t1 t2 : stream (t1 ++ t2) = stream t1 ++ stream t2.
Proof. unfold stream, units. rewrite map_app, concat_app. reflexivity. Qed.

Lemma length_md_pos tx : 1 <= length (marshal_delimited tx).
Proof.
  unfold marshal_delimited. rewrite app_length.
  pose proof (put_uvarint_length (lenN tx)). lia.
Qed.

Lemma sel_cons a b off tx tl :
  sel_txs a b off (tx :: tl) =
  if in_range a b (tx, off) then tx :: sel_txs a b (off + length (marshal_delimited tx)) tl
  else sel_txs a b (off + length (marshal_delimited tx)) tl.
Proof.
  unfold sel_txs. cbn [units map ustarts combine filter].
  destruct (in_range a b (tx, off)); reflexivity.
Qed.

Lemma sel_nil : forall txs a b off, b <= off -> sel_txs a b off txs = [].
Proof.
  induction txs as [|tx tl IH]; intros a b off H; [reflexivity|].
  rewrite sel_cons. pose proof (length_md_pos tx) as Hp.
  replace (in_range a b (tx, off)) with false
    by (unfold in_range; cbn [fst snd]; lia).
  apply IH. lia.
Qed.

(* ------------------------------------------------------------------------- *)
(* Part A: varint canonicity, truncated delimiters, parse_raw_data             *)
(* ------------------------------------------------------------------------- *)

(* every byte of an encoding but the last is a continuation byte *)
Lemma put_uvarint_fuel_init : forall fuel n k, k < length (put_uvarint_fuel fuel n) ->
  Forall (fun b => 128 <= b2n b)%N (firstn k (put_uvarint_fuel fuel n)).
Proof.
  induction fuel as [|f IH]; intros n k Hk; cbn [put_uvarint_fuel] in *.
  - cbn [length] in Hk. lia.
  - destruct (n <? 128)%N eqn:E.
    + cbn [length] in Hk. replace k with 0 by lia. rewrite firstn_O. constructor.
    + destruct k as [|k]; [rewrite firstn_O; constructor|].
      rewrite firstn_cons. constructor.
      * rewrite b2n_n2b by lia. lia.
      * apply IH. cbn [length] in Hk. lia.
Qed.

(* ... and the last one is not *)
Lemma put_uvarint_fuel_last : forall fuel n, 0 < fuel -> (n < 2 ^ (7 * N.of_nat fuel))%N ->
  exists init last, put_uvarint_fuel fuel n = init ++ [last] /\
    Forall (fun b => 128 <= b2n b)%N init /\ (b2n last < 128)%N.
Proof.
  induction fuel as [|f IH]; intros n Hf Hn; [lia|].
  cbn [put_uvarint_fuel]. destruct (n <? 128)%N eqn:E.
  - exists [], (n2b n). split; [reflexivity|]. split; [constructor|]. rewrite b2n_n2b by lia. lia.
  - destruct f as [|f].
    + change (7 * N.of_nat 1)%N with 7%N in Hn. change (2 ^ 7)%N with 128%N in Hn. lia.
    + destruct (IH (n / 128)%N ltac:(lia)) as (init & last & Heq & Hinit & Hlast).
      { replace (7 * N.of_nat (S (S f)))%N with (7 + 7 * N.of_nat (S f))%N in Hn by lia.
        rewrite pow2_7 in Hn. apply N.div_lt_upper_bound; lia. }
      exists (n2b (128 + n mod 128) :: init), last. rewrite Heq. split; [reflexivity|].
      split; [|exact Hlast]. constructor; [|exact Hinit]. rewrite b2n_n2b by lia. lia.
Qed.

Theorem put_uvarint_canonical n : (n < 2 ^ 64)%N ->
  exists init last, put_uvarint n = init ++ [last] /\
    Forall (fun b => 128 <= b2n b)%N init /\ (b2n last < 128)%N.
Proof.
  intros H. apply put_uvarint_fuel_last; [lia|].
  change (7 * N.of_nat 10)%N with 70%N.
  assert (2 ^ 64 <= 2 ^ 70)%N by (apply N.pow_le_mono_r; lia). lia.
Qed.

(* a buffer of fewer than ten continuation bytes ends inside the varint *)
Lemma uvarint_go_short : forall l i shift acc,
  Forall (fun b => 128 <= b2n b)%N l -> i + length l <= 10 ->
  uvarint_go i l shift acc = UvShort.
Proof.
  induction l as [|b l IH]; intros i shift acc HF Hl; [reflexivity|].
  inversion HF as [|? ? Hb HF']; subst. cbn [length] in Hl.
  cbn [uvarint_go]. replace (Nat.eqb i 10) with false by lia.
  replace (b2n b <? 128)%N with false by lia.
  apply IH; [exact HF'|lia].
Qed.

(* a delimiter cut by the end of the input is reported as incomplete *)
Lemma parse_delimiter_cut n k : 0 < k < length (put_uvarint n) ->
  parse_delimiter (firstn k (put_uvarint n)) = DelimIncomplete.
Proof.
  intros Hk. pose proof (put_uvarint_length n) as Hl.
  assert (Hlen : length (firstn k (put_uvarint n)) = k) by (rewrite firstn_length; lia).
  unfold parse_delimiter.
  destruct (firstn k (put_uvarint n)) as [|x l] eqn:E; [cbn [length] in Hlen; lia|].
  rewrite <- E in Hlen |- *. rewrite (@firstn_all2 _ 10) by lia.
  unfold uvarint. rewrite uvarint_go_short.
  - rewrite Hlen. replace (Nat.ltb k 10) with true by lia. reflexivity.
  - apply put_uvarint_fuel_init. unfold put_uvarint in Hk. lia.
  - rewrite Hlen. lia.
Qed.

Lemma parse_raw_zeros fuel z : parse_raw_data (S fuel) (zeros z) = Ok [].
Proof.
  destruct z as [|z]; [reflexivity|].
  change (zeros (S z)) with (Byte.x00 :: zeros z).
  cbn [parse_raw_data]. rewrite parse_delimiter_zero. reflexivity.
Qed.

(* a proper prefix of a delimited non-empty transaction yields nothing *)
Lemma parse_raw_cut fuel tx k : sr_tx_ok tx -> k < length (marshal_delimited tx) ->
  parse_raw_data (S fuel) (firstn k (marshal_delimited tx)) = Ok [].
Proof.
  intros [Hne Hlt] Hk. unfold marshal_delimited in *. rewrite app_length in Hk.
  destruct (Nat.eq_dec k 0) as [->|Hk0]; [reflexivity|].
  destruct (Nat.lt_ge_cases k (length (put_uvarint (lenN tx)))) as [Hc|Hc].
  - rewrite firstn_app. replace (k - length (put_uvarint (lenN tx))) with 0 by lia.
    rewrite firstn_O, app_nil_r.
    cbn [parse_raw_data]. rewrite parse_delimiter_cut by lia. reflexivity.
  - rewrite firstn_app. rewrite (@firstn_all2 _ _ (put_uvarint (lenN tx))) by lia.
    cbn [parse_raw_data]. rewrite parse_delimiter_put by exact Hlt.
    replace (lenN tx =? 0)%N with false by (unfold lenN; lia).
    replace (lenN (firstn (k - length (put_uvarint (lenN tx))) tx) <? lenN tx)%N with true;
      [reflexivity|].
    unfold lenN in *. rewrite firstn_length. lia.
Qed.

(* one complete unit is consumed *)
Lemma parse_raw_unit fuel tx rest : sr_tx_ok tx ->
  parse_raw_data (S fuel) (marshal_delimited tx ++ rest) =
  do r <- parse_raw_data fuel rest; Ok (tx :: r).
Proof.
  intros [Hne Hlt]. unfold marshal_delimited. rewrite <- app_assoc.
  cbn [parse_raw_data]. rewrite parse_delimiter_put by exact Hlt.
  replace (lenN tx =? 0)%N with false by (unfold lenN; lia).
  replace (lenN (tx ++ rest) <? lenN tx)%N with false
    by (unfold lenN; rewrite app_length; lia).
  unfold dropN, takeN, lenN. rewrite Nat2N.id.
  rewrite skipn_app, skipn_all, Nat.sub_diag, skipn_O.
  rewrite firstn_app, firstn_all, Nat.sub_diag, firstn_O, app_nil_r. reflexivity.
Qed.

(* Step 2 in full generality: the raw data is the stream of [txs] (first unit at
   stream offset [off]) cut at stream offset [b] and followed by [z] zero bytes,
   where zero fill only follows the complete stream.  The parser returns exactly
   the units that end at or before [b]. *)
Theorem parse_raw_sel : forall txs off a b z fuel,
  Forall sr_tx_ok txs -> a <= off -> (z = 0 \/ off + length (stream txs) <= b) ->
  length (firstn (b - off) (stream txs) ++ zeros z) < fuel ->
  parse_raw_data fuel (firstn (b - off) (stream txs) ++ zeros z) = Ok (sel_txs a b off txs).
Proof.
  induction txs as [|tx tl IH]; intros off a b z fuel Hok Ha Hz Hfuel.
  - destruct fuel as [|fuel]; [lia|].
    change (stream []) with (@nil byte). rewrite firstn_nil. cbn [app].
    rewrite parse_raw_zeros. reflexivity.
  - inversion Hok as [|? ? Htx Htl]; subst.
    destruct fuel as [|fuel]; [lia|].
    rewrite sr_stream_cons in *. rewrite sel_cons. rewrite app_length in Hz.
    set (md := marshal_delimited tx) in *.
    pose proof (length_md_pos tx) as Hp. fold md in Hp.
    destruct (Nat.le_gt_cases (off + length md) b) as [Hle|Hgt].
    + replace (in_range a b (tx, off)) with true
        by (unfold in_range; cbn [fst snd]; fold md; lia).
      rewrite firstn_app in *. rewrite (@firstn_all2 _ _ md) in * by lia.
      rewrite <- app_assoc in *. unfold md at 1. rewrite parse_raw_unit by exact Htx.
      replace (b - off - length md) with (b - (off + length md)) in * by lia.
      rewrite (IH (off + length md) a b z fuel); [reflexivity|exact Htl|lia|lia|].
      rewrite app_length in Hfuel. lia.
    + replace (in_range a b (tx, off)) with false
        by (unfold in_range; cbn [fst snd]; fold md; lia).
      rewrite sel_nil by lia.
      assert (z = 0) by lia. subst z. rewrite zeros_0, app_nil_r.
      rewrite firstn_app. replace (b - off - length md) with 0 by lia.
      rewrite firstn_O, app_nil_r.
      unfold md. apply parse_raw_cut; [exact Htx|fold md; lia].
Qed.

(* ------------------------------------------------------------------------- *)
(* Part B: the raw data of a sub-range                                         *)
(* ------------------------------------------------------------------------- *)

Lemma sr_skipn_add {A} : forall a b (l : list A), skipn (a + b) l = skipn b (skipn a l).
Proof.
  induction a as [|a IH]; intros b l; [rewrite skipn_O; reflexivity|].
  destruct l as [|x l]; [rewrite !skipn_nil; reflexivity|].
  cbn [Nat.add]. rewrite !skipn_cons. apply IH.
Qed.

Lemma skipn_app_l {A} d (l1 l2 : list A) :
  d <= length l1 -> skipn d l1 ++ l2 = skipn d (l1 ++ l2).
Proof.
  intros H. rewrite skipn_app. replace (d - length l1) with 0 by lia.
  rewrite skipn_O. reflexivity.
Qed.

Lemma sr_firstn_add {A} : forall a b (l : list A),
  firstn (a + b) l = firstn a l ++ firstn b (skipn a l).
Proof.
  induction a as [|a IH]; intros b l; [rewrite firstn_O, skipn_O; reflexivity|].
  destruct l as [|x l]; [rewrite skipn_nil, !firstn_nil; reflexivity|].
  cbn [Nat.add]. rewrite !firstn_cons, skipn_cons, IH. reflexivity.
Qed.

(* [w] bytes of the stream from offset [a], zero filled *)
Definition padded (a w : nat) (s : bytes) : bytes := pad_to w (firstn w (skipn a s)).

Lemma length_padded a w s : length (padded a w s) = w.
Proof. unfold padded. apply length_pad_to. rewrite firstn_length. lia. Qed.

Lemma padded_0 a s : padded a 0 s = [].
Proof. unfold padded, pad_to. rewrite firstn_O. reflexivity. Qed.

Lemma padded_split a w1 w2 s : padded a (w1 + w2) s = padded a w1 s ++ padded (a + w1) w2 s.
Proof.
  unfold padded, pad_to. rewrite sr_skipn_add, sr_firstn_add.
  set (t := skipn a s).
  destruct (Nat.le_gt_cases w1 (length t)) as [Hle|Hgt].
  - assert (H1 : length (firstn w1 t) = w1) by (rewrite firstn_length; lia).
    rewrite app_length, H1, Nat.sub_diag, zeros_0, app_nil_r, <- app_assoc.
    do 3 f_equal. lia.
  - rewrite (skipn_all2 (n := w1)) by lia. rewrite firstn_nil, app_nil_r.
    cbn [length app]. rewrite <- app_assoc, zeros_app. do 2 f_equal.
    rewrite firstn_length. lia.
Qed.

Lemma skipn_padded d a w s : d <= w -> skipn d (padded a w s) = padded (a + d) (w - d) s.
Proof.
  intros H. replace w with (d + (w - d)) at 1 by lia. rewrite padded_split.
  rewrite skipn_app, length_padded, Nat.sub_diag, skipn_O.
  rewrite skipn_all2 by (rewrite length_padded; lia). reflexivity.
Qed.

Lemma padded_cut u c s : u <= c ->
  padded u (c - u) s =
  firstn (Nat.min c (length s) - u) (skipn u s) ++ zeros (c - Nat.max u (Nat.min c (length s))).
Proof.
  intros H. unfold padded, pad_to.
  assert (E : firstn (c - u) (skipn u s) = firstn (Nat.min c (length s) - u) (skipn u s)).
  { destruct (Nat.le_gt_cases c (length s)) as [Hle|Hgt].
    - rewrite Nat.min_l by lia. reflexivity.
    - rewrite Nat.min_r by lia. rewrite !firstn_all2 by (rewrite skipn_length; lia). reflexivity. }
  rewrite E. do 2 f_equal. rewrite firstn_length, skipn_length. lia.
Qed.

(* accessors on a compact share of version 0 given by its parts *)
Definition cshape (ns : bytes) (total : N) (st : bool) (r : nat) (pc : bytes) : bytes :=
  ns ++ [info_of 0 st] ++ ((if st then be32 total else []) ++ be32 (N.of_nat r) ++ pc).

Lemma cshape_version ns total (st : bool) r pc : length ns = 29 -> sh_version (cshape ns total st r pc) = 0%N.
Proof.
  intros Hns. unfold sh_version, cshape. rewrite hdr_info by exact Hns.
  apply info_of_version. lia.
Qed.

Lemma cshape_start ns total (st : bool) r pc : length ns = 29 -> sh_start (cshape ns total st r pc) = st.
Proof.
  intros Hns. unfold sh_start, cshape. rewrite hdr_info by exact Hns.
  apply info_of_start. lia.
Qed.

Lemma cshape_compact ns total (st : bool) r pc : length ns = 29 -> is_compact_ns ns = true ->
  sh_is_compact (cshape ns total st r pc) = true.
Proof.
  intros Hns Hc. unfold sh_is_compact, cshape. rewrite hdr_ns by exact Hns. exact Hc.
Qed.

Lemma cshape_length ns total (st : bool) r pc : length ns = 29 ->
  length pc = (if st then 474 else 478) -> length (cshape ns total st r pc) = 512.
Proof.
  intros Hns Hpc. unfold cshape. rewrite hdr_length by exact Hns.
  destruct st; rewrite !app_length, Hpc, ?length_be32; cbn [length]; lia.
Qed.

Lemma cshape_raw_data ns total (st : bool) r pc : length ns = 29 -> is_compact_ns ns = true ->
  sh_raw_data (cshape ns total st r pc) = pc.
Proof.
  intros Hns Hc. unfold sh_raw_data, raw_data_start.
  rewrite cshape_start, cshape_compact, cshape_version by assumption.
  unfold cshape. destruct st.
  - change (30 + addif true 4 + addif true 4 + addif (true && (0 =? 1)%N) 20) with 38.
    rewrite hdr_skip38 by exact Hns. reflexivity.
  - change (30 + addif false 4 + addif true 4 + addif (false && (0 =? 1)%N) 20) with 34.
    rewrite hdr_skip34 by exact Hns. reflexivity.
Qed.

Lemma cshape_raw_reserved ns total (st : bool) r pc : length ns = 29 -> is_compact_ns ns = true ->
  length pc = (if st then 474 else 478) ->
  r = 0 \/ ((if st then 38 else 34) <= r < 512) ->
  sh_raw_data_using_reserved (cshape ns total st r pc) =
  Ok (if Nat.eqb r 0 then [] else skipn (r - (if st then 38 else 34)) pc).
Proof.
  intros Hns Hc Hpc Hr.
  pose proof (cshape_length ns total st r pc Hns Hpc) as Hlen.
  unfold sh_raw_data_using_reserved. cbv zeta.
  rewrite cshape_start, cshape_compact, cshape_version by assumption.
  assert (Hres : firstn 4 (skipn (30 + addif st 4 + addif (st && (0 =? 1)%N) 20)
                                 (cshape ns total st r pc))
                 = be32 (N.of_nat r)).
  { unfold cshape. destruct st.
    - change (30 + addif true 4 + addif (true && (0 =? 1)%N) 20) with 34.
      rewrite hdr_skip34 by exact Hns. reflexivity.
    - change (30 + addif false 4 + addif (false && (0 =? 1)%N) 20) with 30.
      rewrite hdr_skip30 by exact Hns. reflexivity. }
  rewrite Hres. unfold parse_reserved_bytes. rewrite length_be32.
  change (negb (Nat.eqb 4 4)) with false. cbv iota.
  assert (Hr512 : r < 512) by (destruct st; lia).
  rewrite rd32_be32 by lia.
  replace (512 <=? N.of_nat r)%N with false by lia.
  cbn [bind].
  destruct (Nat.eqb r 0) eqn:E0.
  - replace (N.of_nat r =? 0)%N with true by lia. reflexivity.
  - replace (N.of_nat r =? 0)%N with false by lia.
    unfold slice_from, dropN, lenN. rewrite Hlen, Nat2N.id.
    replace (N.of_nat 512 <? N.of_nat r)%N with false by lia.
    replace (N.of_nat r <=? N.of_nat 512)%N with true by lia.
    f_equal. unfold cshape. destruct st.
    + replace r with (30 + (8 + (r - 38))) at 1 by lia.
      rewrite hdr_skip by exact Hns. rewrite sr_skipn_add. reflexivity.
    + replace r with (30 + (4 + (r - 34))) at 1 by lia.
      rewrite hdr_skip by exact Hns. rewrite sr_skipn_add. reflexivity.
Qed.

(* the closed-form share j in terms of its parts *)
Lemma sr_coff_S j : coff (S j) = coff j + ccap j.
Proof. destruct j; unfold coff, ccap; lia. Qed.

Lemma sr_coff_mono j k : j <= k -> coff j <= coff k.
Proof. intros H. destruct j, k; unfold coff; lia. Qed.

Lemma sr_length_cchunk j s : length (cchunk j s) = Nat.min (ccap j) (length s - coff j).
Proof. unfold cchunk. rewrite firstn_length, skipn_length. reflexivity. Qed.

Lemma cshare_cshape ns total j s sts :
  cshare ns 0 total j s sts =
  cshape ns total (Nat.eqb j 0) (cres j s sts) (padded (coff j) (ccap j) s).
Proof. reflexivity. Qed.

Lemma sr_cres_cases j s sts :
  cres j s sts =
  match find (fun u => Nat.leb (coff j) u) sts with
  | Some u => if Nat.ltb u (Nat.min (coff (S j)) (length s)) then chdr j + (u - coff j) else 0
  | None => 0
  end.
Proof.
  unfold cres. destruct (find _ sts) as [u|] eqn:E; [|reflexivity].
  apply find_some in E. destruct E as [_ E]. apply Nat.leb_le in E.
  rewrite sr_length_cchunk, sr_coff_S.
  destruct (Nat.ltb_spec u (coff j + Nat.min (ccap j) (length s - coff j)));
    destruct (Nat.ltb_spec u (Nat.min (coff j + ccap j) (length s))); try reflexivity; lia.
Qed.

Section Range.
  Variables (ns : namespace) (total : N) (s : bytes) (sts : list nat).
  Hypothesis Hns : length ns = 29.
  Hypothesis Hc : is_compact_ns ns = true.
  Hypothesis Hsts : Forall (fun u => u < length s) sts.

  Let f := fun j => cshare ns 0 total j s sts.

  Lemma sr_cshare_version j : sh_version (f j) = 0%N.
  Proof. unfold f. rewrite cshare_cshape. apply cshape_version. exact Hns. Qed.

  Lemma sr_cshare_raw_data j : sh_raw_data (f j) = padded (coff j) (ccap j) s.
  Proof. unfold f. rewrite cshare_cshape. apply cshape_raw_data; assumption. Qed.

  Lemma sr_cshare_raw_reserved j :
    sh_raw_data_using_reserved (f j) =
    Ok (match find (fun u => Nat.leb (coff j) u) sts with
        | Some u => if Nat.ltb u (Nat.min (coff (S j)) (length s))
                    then skipn (u - coff j) (padded (coff j) (ccap j) s) else []
        | None => []
        end).
  Proof.
    unfold f. rewrite cshare_cshape. rewrite cshape_raw_reserved; try assumption.
    - rewrite sr_cres_cases. destruct (find _ sts) as [u|] eqn:E; [|reflexivity].
      destruct (Nat.ltb u (Nat.min (coff (S j)) (length s))) eqn:T; [|reflexivity].
      destruct j as [|j]; cbn [chdr Nat.eqb Nat.add]; do 2 f_equal; lia.
    - rewrite length_padded. destruct j; reflexivity.
    - rewrite sr_cres_cases. destruct (find _ sts) as [u|] eqn:E; [|left; reflexivity].
      destruct (Nat.ltb_spec u (Nat.min (coff (S j)) (length s))) as [T|T]; [|left; reflexivity].
      right. apply find_some in E. destruct E as [_ E]. apply Nat.leb_le in E.
      rewrite sr_coff_S in T. destruct j as [|j]; cbn [chdr ccap Nat.eqb] in *; lia.
  Qed.

  (* after a unit start has been found every share contributes its whole payload *)
  Lemma extract_true : forall m j,
    extract_raw_data true (map f (seq j m)) = Ok (padded (coff j) (coff (j + m) - coff j) s).
  Proof.
    induction m as [|m IH]; intros j.
    - rewrite Nat.add_0_r, Nat.sub_diag, padded_0. reflexivity.
    - cbn [seq map extract_raw_data]. rewrite IH. cbn [bind]. rewrite sr_cshare_raw_data.
      f_equal. pose proof (sr_coff_mono (S j) (S j + m) ltac:(lia)) as Hm.
      replace (j + S m) with (S j + m) by lia.
      replace (coff (S j + m) - coff j) with (ccap j + (coff (S j + m) - coff (S j)))
        by (rewrite sr_coff_S in *; lia).
      rewrite padded_split, <- sr_coff_S. reflexivity.
  Qed.

  Lemma find_shift : forall (l : list nat) a a' u,
    find (fun x => Nat.leb a x) l = Some u -> a <= a' <= u ->
    find (fun x => Nat.leb a' x) l = Some u.
  Proof.
    induction l as [|x l IH]; intros a a' u H Ha; [discriminate|].
    cbn [find] in *. destruct (Nat.leb_spec a x) as [Hx|Hx].
    - inversion H; subst. replace (Nat.leb a' u) with true by lia. reflexivity.
    - replace (Nat.leb a' x) with false by lia. eapply IH; eassumption.
  Qed.

  Lemma find_shift_none : forall (l : list nat) a a',
    find (fun x => Nat.leb a x) l = None -> a <= a' ->
    find (fun x => Nat.leb a' x) l = None.
  Proof.
    induction l as [|x l IH]; intros a a' H Ha; [reflexivity|].
    cbn [find] in *. destruct (Nat.leb_spec a x) as [Hx|Hx]; [discriminate|].
    replace (Nat.leb a' x) with false by lia. eapply IH; eassumption.
  Qed.

  (* Step 1: shares without a unit start are skipped; from the first unit start u at or
     after the first payload byte of share j the raw data is the zero-filled stream up
     to the end of share j + m - 1 *)
  Theorem extract_false : forall m j,
    extract_raw_data false (map f (seq j m)) =
    Ok (match find (fun u => Nat.leb (coff j) u) sts with
        | Some u => if Nat.ltb u (Nat.min (coff (j + m)) (length s))
                    then padded u (coff (j + m) - u) s else []
        | None => []
        end).
  Proof.
    induction m as [|m IH]; intros j.
    - cbn [seq map extract_raw_data]. destruct (find _ sts) as [u|] eqn:E; [|reflexivity].
      apply find_some in E. destruct E as [_ E]. apply Nat.leb_le in E.
      rewrite Nat.add_0_r. replace (Nat.ltb u (Nat.min (coff j) (length s))) with false by lia.
      reflexivity.
    - cbn [seq map extract_raw_data]. rewrite sr_cshare_raw_reserved. cbn [bind].
      replace (j + S m) with (S j + m) by lia.
      pose proof (sr_coff_mono (S j) (S j + m) ltac:(lia)) as Hm.
      pose proof (sr_coff_S j) as HS.
      destruct (find (fun u => Nat.leb (coff j) u) sts) as [u|] eqn:E.
      + pose proof (find_some _ _ E) as [Hin Hu]. apply Nat.leb_le in Hu.
        assert (HuL : u < length s) by (rewrite Forall_forall in Hsts; apply Hsts; exact Hin).
        destruct (Nat.ltb_spec u (Nat.min (coff (S j)) (length s))) as [T|T].
        * assert (Hd : u - coff j < ccap j) by (rewrite sr_coff_S in T; lia).
          replace (Nat.eqb (length (skipn (u - coff j) (padded (coff j) (ccap j) s))) 0)
            with false by (rewrite skipn_length, length_padded; lia).
          cbn [negb]. rewrite extract_true. cbn [bind].
          replace (Nat.ltb u (Nat.min (coff (S j + m)) (length s))) with true by lia.
          f_equal.
          rewrite skipn_app_l by (rewrite length_padded; lia).
          rewrite HS, <- padded_split, skipn_padded by lia.
          f_equal; lia.
        * replace (Nat.eqb (@length byte []) 0) with true by reflexivity. cbn [negb app].
          rewrite IH. rewrite (find_shift _ _ _ _ E) by lia. reflexivity.
      + replace (Nat.eqb (@length byte []) 0) with true by reflexivity. cbn [negb app].
        rewrite IH. rewrite (find_shift_none _ _ _ E) by lia. reflexivity.
  Qed.
End Range.

(* ------------------------------------------------------------------------- *)
(* Part C: the first unit start at or after [a] is a unit boundary             *)
(* ------------------------------------------------------------------------- *)

Lemma ustarts_bound : forall txs off,
  Forall (fun u => u < off + length (stream txs)) (ustarts off (units txs)).
Proof.
  induction txs as [|tx tl IH]; intros off; [constructor|].
  cbn [units map ustarts]. fold (units tl). rewrite sr_stream_cons, app_length.
  pose proof (length_md_pos tx) as Hp. constructor; [lia|].
  eapply Forall_impl; [|apply IH]. cbn beta. intros u Hu. lia.
Qed.

Lemma sel_empty_range : forall txs a b off, b <= a -> sel_txs a b off txs = [].
Proof.
  induction txs as [|tx tl IH]; intros a b off H; [reflexivity|].
  rewrite sel_cons. pose proof (length_md_pos tx) as Hp.
  replace (in_range a b (tx, off)) with false
    by (unfold in_range; cbn [fst snd]; lia).
  apply IH. exact H.
Qed.

Lemma find_start_some : forall txs off a u,
  find (fun x => Nat.leb a x) (ustarts off (units txs)) = Some u ->
  a <= u /\ exists t1 t2, txs = t1 ++ t2 /\ u = off + length (stream t1) /\
    forall b, sel_txs a b off txs = sel_txs a b u t2.
Proof.
  induction txs as [|tx tl IH]; intros off a u H; [discriminate|].
  cbn [units map ustarts find] in H. fold (units tl) in H.
  destruct (Nat.leb_spec a off) as [Hle|Hgt].
  - inversion H; subst u. split; [exact Hle|].
    exists [], (tx :: tl). split; [reflexivity|]. split; [cbn [stream units map concat length]; lia|].
    intros b. reflexivity.
  - apply IH in H. destruct H as [Hau (t1 & t2 & Htl & Hu & Hsel)].
    split; [exact Hau|]. exists (tx :: t1), t2. split; [rewrite Htl; reflexivity|].
    split; [rewrite sr_stream_cons, app_length; lia|].
    intros b. rewrite sel_cons.
    replace (in_range a b (tx, off)) with false by (unfold in_range; cbn [fst snd]; lia).
    apply Hsel.
Qed.

Lemma find_start_none : forall txs off a b,
  find (fun x => Nat.leb a x) (ustarts off (units txs)) = None -> sel_txs a b off txs = [].
Proof.
  induction txs as [|tx tl IH]; intros off a b H; [reflexivity|].
  cbn [units map ustarts find] in H. fold (units tl) in H.
  destruct (Nat.leb_spec a off) as [Hle|Hgt]; [discriminate|].
  rewrite sel_cons.
  replace (in_range a b (tx, off)) with false by (unfold in_range; cbn [fst snd]; lia).
  apply IH. exact H.
Qed.

(* ------------------------------------------------------------------------- *)
(* The main theorem                                                            *)
(* ------------------------------------------------------------------------- *)

Lemma sub_seq n lo hi : lo <= hi <= n ->
  firstn (hi - lo) (skipn lo (seq 0 n)) = seq lo (hi - lo).
Proof.
  intros H. replace n with (lo + ((hi - lo) + (n - hi))) by lia.
  rewrite !seq_app. cbn [Nat.add].
  rewrite skipn_app, seq_length, Nat.sub_diag, skipn_O.
  rewrite skipn_all2 by (rewrite seq_length; lia). cbn [app].
  rewrite firstn_app, seq_length, Nat.sub_diag, firstn_O, app_nil_r.
  apply firstn_all2. rewrite seq_length. lia.
Qed.

Lemma parse_txs_cons sh shs :
  parse_txs (sh :: shs) =
  if negb (forallb (fun s => (sh_version s =? 0)%N) (sh :: shs)) then Err else
  do raw <- extract_raw_data false (sh :: shs);
  parse_raw_data (S (length raw)) raw.
Proof. reflexivity. Qed.

(* any [n] shares of the closed form, any sequence-length field *)
Theorem parse_subrange_gen ns total txs n lo hi :
  length ns = 29 -> is_compact_ns ns = true -> Forall sr_tx_ok txs ->
  lo <= hi <= n ->
  parse_txs (firstn (hi - lo) (skipn lo
     (map (fun j => cshare ns 0 total j (stream txs) (ustarts 0 (units txs))) (seq 0 n))))
  = Ok (sub_expected lo hi txs).
Proof.
  intros Hns Hc Hok Hr. rewrite skipn_map, firstn_map, sub_seq by exact Hr.
  unfold sub_expected.
  set (f := fun j => cshare ns 0 total j (stream txs) (ustarts 0 (units txs))).
  destruct (hi - lo) as [|m] eqn:Em.
  { cbn [seq map parse_txs]. rewrite sel_empty_range; [reflexivity|].
    replace hi with lo by lia. lia. }
  pose proof (ustarts_bound txs 0) as Hb. cbn [Nat.add] in Hb.
  assert (Hver : forallb (fun sh => (sh_version sh =? 0)%N) (map f (seq lo (S m))) = true).
  { apply forallb_forall. intros sh Hin. apply in_map_iff in Hin.
    destruct Hin as (j & <- & _). unfold f. rewrite sr_cshare_version by assumption. reflexivity. }
  pose proof (extract_false ns total (stream txs) (ustarts 0 (units txs)) Hns Hc Hb (S m) lo) as Hex.
  fold f in Hex. replace (lo + S m) with hi in Hex by lia.
  cbn [seq map] in Hver, Hex |- *. rewrite parse_txs_cons, Hver, Hex. cbn [negb bind].
  destruct (find (fun u => Nat.leb (coff lo) u) (ustarts 0 (units txs))) as [u|] eqn:E.
  - apply find_start_some in E. destruct E as [Hau (t1 & t2 & Htxs & Hu & Hsel)].
    cbn [Nat.add] in Hu. rewrite Hsel.
    destruct (Nat.ltb_spec u (Nat.min (coff hi) (length (stream txs)))) as [T|T].
    + rewrite padded_cut by lia.
      assert (Hskip : skipn u (stream txs) = stream t2).
      { rewrite Htxs, sr_stream_app, Hu, skipn_app, Nat.sub_diag, skipn_O.
        rewrite skipn_all2 by lia. reflexivity. }
      assert (HL : length (stream txs) = u + length (stream t2)).
      { rewrite Htxs, sr_stream_app, app_length. lia. }
      rewrite Hskip. apply parse_raw_sel.
      * rewrite Htxs in Hok. apply Forall_app in Hok. apply Hok.
      * exact Hau.
      * lia.
      * lia.
    + rewrite sel_nil by lia. reflexivity.
  - rewrite (find_start_none _ _ _ _ E). reflexivity.
Qed.

Lemma tx_ok_of_bound txs : Forall (fun t => t <> []) txs ->
  (lenN (stream txs) < 4294967296)%N -> Forall sr_tx_ok txs.
Proof.
  induction 1 as [|t txs Ht _ IH]; intros Hb; [constructor|].
  rewrite sr_stream_cons in Hb. unfold marshal_delimited, lenN in Hb. rewrite !app_length in Hb.
  constructor.
  - split; [destruct t; [congruence|cbn [length]; lia]|].
    unfold lenN. change (2 ^ 64)%N with 18446744073709551616%N. lia.
  - apply IH. unfold lenN. lia.
Qed.

(* C11, on the closed form of an exported sequence *)
Theorem parse_subrange_unbounded ns txs lo hi :
  length ns = 29 -> is_compact_ns ns = true -> Forall sr_tx_ok txs ->
  lo <= hi <= length (compact_spec_ix ns 0 txs) ->
  parse_txs (firstn (hi - lo) (skipn lo (compact_spec_ix ns 0 txs))) = Ok (sub_expected lo hi txs).
Proof.
  intros Hns Hc Hok Hr. unfold compact_spec_ix in *. cbv zeta in *.
  rewrite map_length, seq_length in Hr.
  apply parse_subrange_gen; assumption.
Qed.

Theorem parse_subrange ns txs lo hi :
  length ns = 29 -> is_compact_ns ns = true -> Forall (fun t => t <> []) txs ->
  (lenN (stream txs) < 4294967296)%N ->
  lo <= hi <= length (compact_spec_ix ns 0 txs) ->
  parse_txs (firstn (hi - lo) (skipn lo (compact_spec_ix ns 0 txs))) = Ok (sub_expected lo hi txs).
Proof.
  intros Hns Hc Hne Hb Hr. apply parse_subrange_unbounded; try assumption.
  apply tx_ok_of_bound; assumption.
Qed.

(* ------------------------------------------------------------------------- *)
(* Consequences of the characterisation                                        *)
(* ------------------------------------------------------------------------- *)

(* past the lower bound the selection is a prefix *)
Lemma sel_prefix : forall txs a b off, a <= off ->
  exists post, txs = sel_txs a b off txs ++ post.
Proof.
  induction txs as [|tx tl IH]; intros a b off Ha; [exists []; reflexivity|].
  rewrite sel_cons. destruct (in_range a b (tx, off)) eqn:E.
  - destruct (IH a b (off + length (marshal_delimited tx)) ltac:(lia)) as (post & Hp).
    exists post. cbn [app]. rewrite <- Hp. reflexivity.
  - rewrite sel_nil; [exists (tx :: tl); reflexivity|].
    unfold in_range in E. cbn [fst snd] in E. lia.
Qed.

(* the selected transactions are a contiguous run of the written ones, in order *)
Theorem sel_contiguous : forall txs a b off,
  exists pre post, txs = pre ++ sel_txs a b off txs ++ post.
Proof.
  induction txs as [|tx tl IH]; intros a b off; [exists [], []; reflexivity|].
  destruct (Nat.le_gt_cases a off) as [Hle|Hgt].
  - destruct (sel_prefix (tx :: tl) a b off Hle) as (post & Hp). exists [], post. exact Hp.
  - rewrite sel_cons.
    replace (in_range a b (tx, off)) with false by (unfold in_range; cbn [fst snd]; lia).
    destruct (IH a b (off + length (marshal_delimited tx))) as (pre & post & Hp).
    exists (tx :: pre), post. cbn [app]. rewrite <- Hp. reflexivity.
Qed.

Theorem sub_expected_contiguous lo hi txs :
  exists pre post, txs = pre ++ sub_expected lo hi txs ++ post.
Proof. apply sel_contiguous. Qed.

(* "never returns a transaction that was not written" *)
Theorem parse_subrange_sublist ns txs lo hi res :
  length ns = 29 -> is_compact_ns ns = true -> Forall (fun t => t <> []) txs ->
  (lenN (stream txs) < 4294967296)%N ->
  lo <= hi <= length (compact_spec_ix ns 0 txs) ->
  parse_txs (firstn (hi - lo) (skipn lo (compact_spec_ix ns 0 txs))) = Ok res ->
  exists pre post, txs = pre ++ res ++ post.
Proof.
  intros Hns Hc Hne Hb Hr H. rewrite parse_subrange in H by assumption.
  injection H as <-. apply sub_expected_contiguous.
Qed.

(* the whole sequence is the sub-range that selects everything (C09 as a special case) *)
Lemma sel_all : forall txs off b, off + length (stream txs) <= b -> sel_txs 0 b off txs = txs.
Proof.
  induction txs as [|tx tl IH]; intros off b H; [reflexivity|].
  rewrite sr_stream_cons, app_length in H. rewrite sel_cons.
  replace (in_range 0 b (tx, off)) with true by (unfold in_range; cbn [fst snd]; lia).
  f_equal. apply IH. lia.
Qed.

Lemma coff_cneeded len : len <= coff (cneeded len).
Proof.
  unfold cneeded. destruct (Nat.eqb_spec len 0) as [->|H0]; [cbn [coff]; lia|].
  destruct (Nat.leb_spec len 474) as [H1|H1]; [cbn [coff]; lia|].
  cbn [Nat.add coff]. lia.
Qed.

Theorem sub_expected_full txs :
  sub_expected 0 (cneeded (length (stream txs))) txs = txs.
Proof.
  unfold sub_expected. cbn [coff]. apply sel_all.
  pose proof (coff_cneeded (length (stream txs))). lia.
Qed.

(* a range that lies wholly inside one transaction yields nothing: no unit starts at or
   after coff lo and ends by coff hi *)
Theorem sub_expected_inside lo hi t1 tx t2 :
  length (stream t1) < coff lo ->
  coff hi < length (stream t1) + length (marshal_delimited tx) ->
  sub_expected lo hi (t1 ++ tx :: t2) = [].
Proof.
  intros H1 H2. unfold sub_expected.
  set (b := Nat.min (coff hi) (length (stream (t1 ++ tx :: t2)))).
  assert (Hb : b <= coff hi) by (unfold b; lia). clearbody b.
  assert (G : forall l off, off + length (stream l) < coff lo ->
     sel_txs (coff lo) b off (l ++ tx :: t2) =
     sel_txs (coff lo) b (off + length (stream l)) (tx :: t2)).
  { induction l as [|x l IH]; intros off Hl.
    - cbn [app stream units map concat length]. rewrite Nat.add_0_r. reflexivity.
    - rewrite sr_stream_cons, app_length in Hl. cbn [app]. rewrite sel_cons.
      pose proof (length_md_pos x) as Hp.
      replace (in_range (coff lo) b (x, off)) with false
        by (unfold in_range; cbn [fst snd]; lia).
      rewrite IH by lia. rewrite sr_stream_cons, app_length. f_equal. lia. }
  rewrite G by (cbn [Nat.add]; exact H1). cbn [Nat.add].
  rewrite sel_cons.
  replace (in_range (coff lo) b (tx, length (stream t1))) with false
    by (unfold in_range; cbn [fst snd]; lia).
  apply sel_nil. lia.
Qed.
