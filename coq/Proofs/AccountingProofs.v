(* C06 (accounting part): the builder's running size estimate over arbitrary append
   histories.  Proved here:
     (a) estimate = size(tx counter) + size(pfb counter) + sum of per-blob reservations,
     (b) estimate <= max^2,
     (c) an append is refused exactly when the estimate would exceed max^2, and a refused
         append leaves the builder observably unchanged,
     (d) the side used by Export is the least power of two covering the estimate, <= max,
     (e) the per-blob reservation covers the worst-case alignment gap,
     (f) the blob loop of Export never trips its padding check and ends at or before
         start + sum of reservations.
   NOT proved here: that Export as a whole never fails (needs: the compact writers produce
   exactly counter_size shares; the real wrapped PFB is no longer than the worst-case one). *)
From Coq Require Import List NArith ZArith Lia Bool Permutation.
From Coq Require Import ZifyN ZifyNat ZifyBool.
From GS.Model Require Import Base Varint Namespace ShareFmt Blob Sparse Compact Counter Arith Proto Builder.
From GS.Proofs Require Import ArithProofs CounterProofs.
Import ListNotations.

(* ====================================================================== *)
(* counters                                                               *)
(* ====================================================================== *)
Open Scope Z_scope.

(* the current fields of the counter encode a delimited stream of L bytes *)
Definition cenc_at (c : counter) (L : Z) : Prop :=
  0 <= L /\ c_shares c = enc_shares L /\ c_rem c = enc_rem L.

Lemma cenc_at_new : cenc_at new_counter 0.
Proof. split; [lia|]. split; reflexivity. Qed.

Lemma needed_z_nonneg L : 0 <= needed_z L.
Proof.
  destruct (Z.le_gt_cases 0 L) as [H|H].
  - pose proof (needed_z_mono 0 L) as M. change (needed_z 0) with 0 in M. apply M. lia.
  - unfold needed_z. replace (L <=? 0) with true by lia. lia.
Qed.

Lemma needed_z_pos L : 1 <= L -> 1 <= needed_z L.
Proof.
  intros H. pose proof (needed_z_mono 1 L) as M. change (needed_z 1) with 1 in M. apply M. lia.
Qed.

Lemma cenc_at_size c L : cenc_at c L ->
  counter_size c = needed_z L /\ counter_remainder c = enc_rem L.
Proof.
  intros (HL & Hs & Hr). unfold counter_size, counter_remainder. rewrite Hs, Hr.
  split; [apply needed_z_enc; exact HL|reflexivity].
Qed.

Lemma counter_size_nonneg c L : cenc_at c L -> 0 <= counter_size c.
Proof. intros H. destruct (cenc_at_size c L H) as [-> _]. apply needed_z_nonneg. Qed.

Lemma delim_len_pos n : (1 <= delim_len n)%N.
Proof.
  unfold delim_len, put_uvarint, lenN.
  change (put_uvarint_fuel 10 n) with
    (if (n <? 128)%N then [n2b n] else n2b (128 + n mod 128) :: put_uvarint_fuel 9 (n / 128)).
  destruct (n <? 128)%N; cbn [length]; lia.
Qed.

(* Add remembers the previous fields (unconditionally) *)
Lemma counter_add_last c n :
  c_last_shares (fst (counter_add c n)) = c_shares c /\
  c_last_rem (fst (counter_add c n)) = c_rem c.
Proof.
  unfold counter_add.
  repeat (match goal with |- context [if ?b then _ else _] => destruct b end; cbn beta iota zeta);
    split; reflexivity.
Qed.

(* hence Add followed by Revert restores size and remainder (unconditionally) *)
Lemma counter_revert_add c n :
  counter_size (counter_revert (fst (counter_add c n))) = counter_size c /\
  counter_remainder (counter_revert (fst (counter_add c n))) = counter_remainder c.
Proof.
  destruct (counter_add_last c n) as [A B].
  unfold counter_size, counter_remainder, counter_revert. cbn [c_shares c_rem].
  rewrite A, B. split; reflexivity.
Qed.

Lemma counter_revert_add_at c L n : cenc_at c L -> cenc_at (counter_revert (fst (counter_add c n))) L.
Proof.
  intros (HL & Hs & Hr). destruct (counter_add_last c n) as [A B].
  unfold cenc_at, counter_revert. cbn [c_shares c_rem]. rewrite A, B. auto.
Qed.

(* on a well-formed counter the diff returned by Add is the change of Size *)
Lemma counter_add_at c L n : 0 <= n -> cenc_at c L ->
  cenc_at (fst (counter_add c n)) (L + (n + Z.of_N (delim_len (Z.to_N n)))) /\
  counter_size (fst (counter_add c n)) = counter_size c + snd (counter_add c n) /\
  0 <= snd (counter_add c n) /\
  1 <= counter_size (fst (counter_add c n)).
Proof.
  intros Hn (HL & Hs & Hr).
  destruct (counter_add_enc c L n HL Hn Hs Hr) as (A & B & _ & _ & E). cbn zeta in A, B, E.
  pose proof (delim_len_pos (Z.to_N n)) as Hd.
  set (d := n + Z.of_N (delim_len (Z.to_N n))) in *.
  assert (Hd1 : 1 <= d) by lia. clearbody d.
  assert (S1 : counter_size (fst (counter_add c n)) = needed_z (L + d)).
  { unfold counter_size. rewrite A, B. apply needed_z_enc. lia. }
  assert (S0 : counter_size c = needed_z L).
  { unfold counter_size. rewrite Hs, Hr. apply needed_z_enc. lia. }
  split; [split; [lia|split; assumption]|].
  rewrite S1, S0, E.
  pose proof (needed_z_mono L (L + d)). pose proof (needed_z_pos (L + d)).
  split; [lia|]. split; lia.
Qed.

(* total length of a stream of length-delimited units *)
Definition stream_len (sizes : list N) : N :=
  fold_right (fun n acc => (n + delim_len n + acc)%N) 0%N sizes.

Lemma stream_len_snoc l n : stream_len (l ++ [n]) = (stream_len l + (n + delim_len n))%N.
Proof.
  induction l as [|x tl IH]; cbn [app stream_len fold_right]; [lia|].
  fold (stream_len (tl ++ [n])). fold (stream_len tl). lia.
Qed.

(* ====================================================================== *)
(* sums of reservations                                                   *)
(* ====================================================================== *)
Open Scope N_scope.

Definition sum_offsets (els : list element) : N :=
  fold_right (fun e acc => max_share_offset e + acc) 0 els.

Lemma fold_offsets els : forall a,
  fold_left (fun acc e => acc + max_share_offset e) els a = a + sum_offsets els.
Proof.
  induction els as [|e tl IH]; intros a; cbn [fold_left sum_offsets fold_right]; [lia|].
  rewrite IH. fold (sum_offsets tl). lia.
Qed.

Lemma sum_offsets_app l1 l2 : sum_offsets (l1 ++ l2) = sum_offsets l1 + sum_offsets l2.
Proof.
  induction l1 as [|e tl IH]; [reflexivity|].
  cbn [app sum_offsets fold_right]. fold (sum_offsets (tl ++ l2)). fold (sum_offsets tl). lia.
Qed.

Lemma sum_offsets_perm l1 l2 : Permutation l1 l2 -> sum_offsets l1 = sum_offsets l2.
Proof.
  induction 1 as [|x l l' _ IH|x y l|l l' l'' _ IH1 _ IH2].
  - reflexivity.
  - cbn [sum_offsets fold_right]. fold (sum_offsets l). fold (sum_offsets l'). lia.
  - cbn [sum_offsets fold_right]. lia.
  - lia.
Qed.

Lemma insert_el_perm' e l : Permutation (insert_el e l) (e :: l).
Proof.
  induction l as [|x tl IH]; [apply Permutation_refl|].
  cbn [insert_el]. destruct (bytes_cmp (b_ns (e_blob e)) (b_ns (e_blob x))); try apply Permutation_refl.
  eapply perm_trans; [apply perm_skip, IH|apply perm_swap].
Qed.

Lemma sort_elements_perm' l : Permutation (sort_elements l) l.
Proof.
  induction l as [|e tl IH]; [apply Permutation_refl|].
  unfold sort_elements. cbn [fold_right]. fold (sort_elements tl).
  eapply perm_trans; [apply insert_el_perm'|apply perm_skip, IH].
Qed.

Lemma sum_offsets_sort l : sum_offsets (sort_elements l) = sum_offsets l.
Proof. apply sum_offsets_perm, sort_elements_perm'. Qed.

(* ====================================================================== *)
(* (e) the reservation of one element                                     *)
(* ====================================================================== *)

(* an element reserves its share count plus (subtree width - 1) shares of padding *)
Definition el_wf (thr : N) (e : element) : Prop :=
  e_max_padding e = subtree_width (e_num_shares e) thr - 1.

Lemma new_element_wf bl pi bi thr : el_wf thr (new_element bl pi bi thr).
Proof. reflexivity. Qed.

Lemma elements_of_wf thr blobs : forall pi bi, Forall (el_wf thr) (elements_of blobs pi bi thr).
Proof.
  induction blobs as [|bl tl IH]; intros pi bi; cbn [elements_of]; constructor.
  - apply new_element_wf.
  - apply IH.
Qed.

(* the alignment gap in front of a blob of n shares is at most subtree_width - 1,
   whatever the cursor *)
Lemma alignment_gap c n thr : 1 <= thr ->
  c <= next_share_index c n thr /\
  next_share_index c n thr - c <= subtree_width n thr - 1.
Proof.
  intros Ht. destruct (next_share_index_spec c n thr Ht) as (_ & H1 & H2).
  pose proof (subtree_width_pos n thr Ht). lia.
Qed.

Lemma alignment_gap_el thr e c : 1 <= thr -> el_wf thr e ->
  next_share_index c (e_num_shares e) thr - c <= e_max_padding e /\
  next_share_index c (e_num_shares e) thr + e_num_shares e <= c + max_share_offset e.
Proof.
  intros Ht He. red in He. destruct (alignment_gap c (e_num_shares e) thr Ht) as [H1 H2].
  pose proof (subtree_width_pos (e_num_shares e) thr Ht).
  unfold max_share_offset. rewrite He. lia.
Qed.

(* ====================================================================== *)
(* append histories and the accounting invariant                          *)
(* ====================================================================== *)

Inductive aop := ATx (tx : bytes) | ABlobTx (t : blob_tx).

Definition astep (b : builder) (op : aop) : builder :=
  match op with
  | ATx tx => fst (append_tx b tx)
  | ABlobTx t => fst (append_blob_tx b t)
  end.

Definition reach (max thr : N) (ops : list aop) : builder :=
  fold_left astep ops (empty_builder max thr).

(* the length of the wrapped PFB as counted (before Export: with worst-case indexes) *)
Definition pfb_wire_size (p : pfb) : N := index_wrapper_size (pfb_tx p) (pfb_idx p).

Record acc_inv (max thr : N) (b : builder) : Prop := mk_acc_inv {
  inv_max : bd_max b = max;
  inv_thr : bd_thr b = thr;
  inv_txc : cenc_at (bd_txc b) (Z.of_N (stream_len (map lenN (bd_txs b))));
  inv_pfbc : cenc_at (bd_pfbc b) (Z.of_N (stream_len (map pfb_wire_size (bd_pfbs b))));
  inv_cur : bd_cur b =
    (counter_size (bd_txc b) + counter_size (bd_pfbc b) + Z.of_N (sum_offsets (bd_blobs b)))%Z;
  inv_cap : (bd_cur b <= Z.of_N (max * max))%Z;
  inv_els : Forall (el_wf thr) (bd_blobs b);
  inv_noblobs : counter_size (bd_pfbc b) = 0%Z -> bd_blobs b = []
}.

Lemma acc_inv_empty max thr : acc_inv max thr (empty_builder max thr).
Proof.
  constructor; cbn [empty_builder bd_max bd_thr bd_txc bd_pfbc bd_cur bd_blobs];
    try reflexivity; try apply cenc_at_new; try constructor. lia.
Qed.

(* the quantities compared with the capacity *)
Definition tx_diff (b : builder) (tx : bytes) : Z :=
  snd (counter_add (bd_txc b) (Z.of_N (lenN tx))).

Definition blob_tx_worst_size (t : blob_tx) : N :=
  index_wrapper_size (btx_tx t) (worst_case_share_indexes (length (btx_blobs t))).
Definition blob_tx_els (b : builder) (t : blob_tx) : list element :=
  elements_of (btx_blobs t) (lenN (bd_pfbs b)) 0 (bd_thr b).
Definition blob_tx_diff (b : builder) (t : blob_tx) : Z :=
  (snd (counter_add (bd_pfbc b) (Z.of_N (blob_tx_worst_size t)))
   + Z.of_N (sum_offsets (blob_tx_els b t)))%Z.

Definition capacity (b : builder) : Z := Z.of_N (bd_max b * bd_max b).

(* case analysis of the two appends *)
Lemma append_tx_unfold b tx :
  append_tx b tx =
  if (bd_cur b + tx_diff b tx <=? capacity b)%Z then
    (mk_bd (bd_max b) (bd_thr b) (bd_cur b + tx_diff b tx)%Z (bd_txs b ++ [tx]) (bd_pfbs b) (bd_blobs b)
           (fst (counter_add (bd_txc b) (Z.of_N (lenN tx)))) (bd_pfbc b) false, true)
  else
    (mk_bd (bd_max b) (bd_thr b) (bd_cur b) (bd_txs b) (bd_pfbs b) (bd_blobs b)
           (counter_revert (fst (counter_add (bd_txc b) (Z.of_N (lenN tx))))) (bd_pfbc b) (bd_done b), false).
Proof.
  unfold append_tx, tx_diff, capacity, can_fit.
  destruct (counter_add (bd_txc b) (Z.of_N (lenN tx))) as [c' diff]. reflexivity.
Qed.

Lemma append_blob_tx_unfold b t :
  append_blob_tx b t =
  if (bd_cur b + blob_tx_diff b t <=? capacity b)%Z then
    (mk_bd (bd_max b) (bd_thr b) (bd_cur b + blob_tx_diff b t)%Z (bd_txs b)
           (bd_pfbs b ++ [mk_pfb (btx_tx t) (worst_case_share_indexes (length (btx_blobs t)))])
           (bd_blobs b ++ blob_tx_els b t)
           (bd_txc b) (fst (counter_add (bd_pfbc b) (Z.of_N (blob_tx_worst_size t)))) false, true)
  else
    (mk_bd (bd_max b) (bd_thr b) (bd_cur b) (bd_txs b) (bd_pfbs b) (bd_blobs b)
           (bd_txc b) (counter_revert (fst (counter_add (bd_pfbc b) (Z.of_N (blob_tx_worst_size t)))))
           (bd_done b), false).
Proof.
  unfold append_blob_tx, blob_tx_diff, blob_tx_els, blob_tx_worst_size, capacity, can_fit.
  destruct (counter_add (bd_pfbc b) _) as [c' diff]. cbn [fst snd].
  rewrite fold_offsets, N.add_0_l. reflexivity.
Qed.

Lemma append_tx_inv max thr b tx : acc_inv max thr b -> acc_inv max thr (fst (append_tx b tx)).
Proof.
  intros I. destruct I as [Imax Ithr Itxc Ipfbc Icur Icap Iels Inob].
  rewrite append_tx_unfold.
  assert (Hn : (0 <= Z.of_N (lenN tx))%Z) by lia.
  destruct (counter_add_at _ _ _ Hn Itxc) as (W & S & D & _).
  rewrite N2Z.id in W.
  destruct (counter_revert_add (bd_txc b) (Z.of_N (lenN tx))) as [R _].
  pose proof (counter_revert_add_at (bd_txc b) _ (Z.of_N (lenN tx)) Itxc) as RW.
  unfold tx_diff, capacity. rewrite Imax.
  destruct (bd_cur b + snd (counter_add (bd_txc b) (Z.of_N (lenN tx))) <=? Z.of_N (max * max))%Z eqn:F;
    cbn [fst]; constructor; cbn [bd_max bd_thr bd_txc bd_pfbc bd_cur bd_blobs bd_txs bd_pfbs];
    try assumption; try lia.
  rewrite map_app. change (map lenN [tx]) with [lenN tx]. rewrite stream_len_snoc.
  rewrite !N2Z.inj_add.
  exact W.
Qed.

Lemma append_blob_tx_inv max thr b t : acc_inv max thr b -> acc_inv max thr (fst (append_blob_tx b t)).
Proof.
  intros I. destruct I as [Imax Ithr Itxc Ipfbc Icur Icap Iels Inob].
  rewrite append_blob_tx_unfold.
  assert (Hn : (0 <= Z.of_N (blob_tx_worst_size t))%Z) by lia.
  destruct (counter_add_at _ _ _ Hn Ipfbc) as (W & S & D & P).
  rewrite N2Z.id in W.
  destruct (counter_revert_add (bd_pfbc b) (Z.of_N (blob_tx_worst_size t))) as [R _].
  pose proof (counter_revert_add_at (bd_pfbc b) _ (Z.of_N (blob_tx_worst_size t)) Ipfbc) as RW.
  unfold blob_tx_diff, capacity. rewrite Imax.
  match goal with |- context [if ?c then _ else _] => destruct c eqn:F end;
    cbn [fst]; constructor; cbn [bd_max bd_thr bd_txc bd_pfbc bd_cur bd_blobs bd_txs bd_pfbs];
    try assumption; try lia.
  - rewrite map_app.
    change (map pfb_wire_size [mk_pfb (btx_tx t) (worst_case_share_indexes (length (btx_blobs t)))])
      with [blob_tx_worst_size t].
    rewrite stream_len_snoc.
    rewrite !N2Z.inj_add.
    exact W.
  - rewrite sum_offsets_app. lia.
  - apply Forall_app. split; [assumption|]. unfold blob_tx_els. rewrite Ithr. apply elements_of_wf.
  - rewrite R. exact Inob.
Qed.

Lemma astep_inv max thr b op : acc_inv max thr b -> acc_inv max thr (astep b op).
Proof. destruct op; [apply append_tx_inv|apply append_blob_tx_inv]. Qed.

Theorem reach_inv max thr ops : acc_inv max thr (reach max thr ops).
Proof.
  unfold reach. generalize (acc_inv_empty max thr). generalize (empty_builder max thr).
  induction ops as [|op tl IH]; intros b I; [exact I|].
  cbn [fold_left]. apply IH, astep_inv, I.
Qed.

(* ---------- (a) the accounting identity ---------- *)
Theorem accounting_identity max thr ops :
  let b := reach max thr ops in
  (bd_cur b = counter_size (bd_txc b) + counter_size (bd_pfbc b) + Z.of_N (sum_offsets (bd_blobs b))
   /\ 0 <= counter_size (bd_txc b) /\ 0 <= counter_size (bd_pfbc b) /\ 0 <= bd_cur b)%Z.
Proof.
  cbn zeta. destruct (reach_inv max thr ops) as [_ _ Itxc Ipfbc Icur _ _ _].
  pose proof (counter_size_nonneg _ _ Itxc). pose proof (counter_size_nonneg _ _ Ipfbc).
  split; [exact Icur|]. lia.
Qed.

(* the two counter sizes in closed form: CompactSharesNeeded of the total delimited length
   of the accepted transactions / of the accepted wrapped PFBs as counted *)
Theorem counters_closed_form max thr ops :
  let b := reach max thr ops in
  counter_size (bd_txc b) = Z.of_N (compact_shares_needed (stream_len (map lenN (bd_txs b)))) /\
  counter_size (bd_pfbc b) = Z.of_N (compact_shares_needed (stream_len (map pfb_wire_size (bd_pfbs b)))).
Proof.
  cbn zeta. destruct (reach_inv max thr ops) as [_ _ Itxc Ipfbc _ _ _ _].
  destruct (cenc_at_size _ _ Itxc) as [-> _]. destruct (cenc_at_size _ _ Ipfbc) as [-> _].
  rewrite !needed_z_compact. split; reflexivity.
Qed.

Theorem estimate_closed_form max thr ops :
  let b := reach max thr ops in
  bd_cur b = Z.of_N (compact_shares_needed (stream_len (map lenN (bd_txs b)))
                     + compact_shares_needed (stream_len (map pfb_wire_size (bd_pfbs b)))
                     + sum_offsets (bd_blobs b)).
Proof.
  cbn zeta. destruct (accounting_identity max thr ops) as (E & _). cbn zeta in E.
  destruct (counters_closed_form max thr ops) as [A B]. cbn zeta in A, B.
  rewrite E, A, B. lia.
Qed.

(* ---------- (b) capacity ---------- *)
Theorem estimate_within_capacity max thr ops :
  let b := reach max thr ops in
  bd_max b = max /\ bd_thr b = thr /\ (bd_cur b <= Z.of_N (max * max))%Z.
Proof. cbn zeta. destruct (reach_inv max thr ops) as [A B _ _ _ C _ _]. auto. Qed.

(* the builder is empty (Export's test) exactly when the estimate is zero *)
Theorem empty_iff_zero_estimate max thr ops :
  let b := reach max thr ops in
  builder_is_empty b = true <-> bd_cur b = 0%Z.
Proof.
  cbn zeta. destruct (reach_inv max thr ops) as [_ _ Itxc Ipfbc Icur _ _ Inob].
  pose proof (counter_size_nonneg _ _ Itxc). pose proof (counter_size_nonneg _ _ Ipfbc).
  unfold builder_is_empty. rewrite andb_true_iff, !Z.eqb_eq. split.
  - intros [A B]. rewrite Icur, (Inob B), A, B. reflexivity.
  - intros E. lia.
Qed.

(* ---------- (c) the refusal rule ---------- *)

Definition observable (b : builder) :=
  (bd_cur b, bd_txs b, bd_pfbs b, bd_blobs b,
   counter_size (bd_txc b), counter_remainder (bd_txc b),
   counter_size (bd_pfbc b), counter_remainder (bd_pfbc b)).

Theorem append_tx_refused_iff b tx :
  snd (append_tx b tx) = false <-> (bd_cur b + tx_diff b tx > capacity b)%Z.
Proof.
  rewrite append_tx_unfold.
  destruct (bd_cur b + tx_diff b tx <=? capacity b)%Z eqn:F; cbn [snd]; split; intros H; try lia; discriminate.
Qed.

Theorem append_blob_tx_refused_iff b t :
  snd (append_blob_tx b t) = false <-> (bd_cur b + blob_tx_diff b t > capacity b)%Z.
Proof.
  rewrite append_blob_tx_unfold.
  destruct (bd_cur b + blob_tx_diff b t <=? capacity b)%Z eqn:F; cbn [snd]; split; intros H; try lia; discriminate.
Qed.

Theorem append_tx_refused_unchanged b tx :
  snd (append_tx b tx) = false ->
  observable (fst (append_tx b tx)) = observable b /\
  bd_max (fst (append_tx b tx)) = bd_max b /\ bd_thr (fst (append_tx b tx)) = bd_thr b /\
  bd_done (fst (append_tx b tx)) = bd_done b.
Proof.
  rewrite append_tx_unfold.
  destruct (bd_cur b + tx_diff b tx <=? capacity b)%Z; cbn [fst snd]; [discriminate|]. intros _.
  destruct (counter_revert_add (bd_txc b) (Z.of_N (lenN tx))) as [R1 R2].
  unfold observable. cbn [bd_max bd_thr bd_txc bd_pfbc bd_cur bd_blobs bd_txs bd_pfbs bd_done].
  rewrite R1, R2. auto.
Qed.

Theorem append_blob_tx_refused_unchanged b t :
  snd (append_blob_tx b t) = false ->
  observable (fst (append_blob_tx b t)) = observable b /\
  bd_max (fst (append_blob_tx b t)) = bd_max b /\ bd_thr (fst (append_blob_tx b t)) = bd_thr b /\
  bd_done (fst (append_blob_tx b t)) = bd_done b.
Proof.
  rewrite append_blob_tx_unfold.
  destruct (bd_cur b + blob_tx_diff b t <=? capacity b)%Z; cbn [fst snd]; [discriminate|]. intros _.
  destruct (counter_revert_add (bd_pfbc b) (Z.of_N (blob_tx_worst_size t))) as [R1 R2].
  unfold observable. cbn [bd_max bd_thr bd_txc bd_pfbc bd_cur bd_blobs bd_txs bd_pfbs bd_done].
  rewrite R1, R2. auto.
Qed.

(* what an accepted append does *)
Theorem append_tx_accepted b tx :
  snd (append_tx b tx) = true ->
  let b' := fst (append_tx b tx) in
  bd_cur b' = (bd_cur b + tx_diff b tx)%Z /\ bd_txs b' = bd_txs b ++ [tx] /\
  bd_pfbs b' = bd_pfbs b /\ bd_blobs b' = bd_blobs b /\
  bd_txc b' = fst (counter_add (bd_txc b) (Z.of_N (lenN tx))) /\ bd_pfbc b' = bd_pfbc b.
Proof.
  rewrite append_tx_unfold.
  destruct (bd_cur b + tx_diff b tx <=? capacity b)%Z; cbn [fst snd]; [|discriminate]. intros _.
  cbn. auto 10.
Qed.

Theorem append_blob_tx_accepted b t :
  snd (append_blob_tx b t) = true ->
  let b' := fst (append_blob_tx b t) in
  bd_cur b' = (bd_cur b + blob_tx_diff b t)%Z /\ bd_txs b' = bd_txs b /\
  bd_pfbs b' = bd_pfbs b ++ [mk_pfb (btx_tx t) (worst_case_share_indexes (length (btx_blobs t)))] /\
  bd_blobs b' = bd_blobs b ++ blob_tx_els b t /\
  bd_txc b' = bd_txc b /\
  bd_pfbc b' = fst (counter_add (bd_pfbc b) (Z.of_N (blob_tx_worst_size t))).
Proof.
  rewrite append_blob_tx_unfold.
  destruct (bd_cur b + blob_tx_diff b t <=? capacity b)%Z; cbn [fst snd]; [|discriminate]. intros _.
  cbn. auto 10.
Qed.

(* the estimate the builder WOULD have after the append, by the accounting identity *)
Definition estimate_after_tx (b : builder) (tx : bytes) : Z :=
  (counter_size (fst (counter_add (bd_txc b) (Z.of_N (lenN tx)))) + counter_size (bd_pfbc b)
   + Z.of_N (sum_offsets (bd_blobs b)))%Z.
Definition estimate_after_blob_tx (b : builder) (t : blob_tx) : Z :=
  (counter_size (bd_txc b)
   + counter_size (fst (counter_add (bd_pfbc b) (Z.of_N (blob_tx_worst_size t))))
   + Z.of_N (sum_offsets (bd_blobs b ++ blob_tx_els b t)))%Z.

Lemma estimate_after_tx_eq max thr b tx : acc_inv max thr b ->
  estimate_after_tx b tx = (bd_cur b + tx_diff b tx)%Z /\ (0 <= tx_diff b tx)%Z.
Proof.
  intros [_ _ Itxc _ Icur _ _ _].
  assert (Hn : (0 <= Z.of_N (lenN tx))%Z) by lia.
  destruct (counter_add_at _ _ _ Hn Itxc) as (_ & S & D & _).
  unfold estimate_after_tx, tx_diff. lia.
Qed.

Lemma estimate_after_blob_tx_eq max thr b t : acc_inv max thr b ->
  estimate_after_blob_tx b t = (bd_cur b + blob_tx_diff b t)%Z /\ (0 <= blob_tx_diff b t)%Z.
Proof.
  intros [_ _ _ Ipfbc Icur _ _ _].
  assert (Hn : (0 <= Z.of_N (blob_tx_worst_size t))%Z) by lia.
  destruct (counter_add_at _ _ _ Hn Ipfbc) as (_ & S & D & _).
  unfold estimate_after_blob_tx, blob_tx_diff. rewrite sum_offsets_app. lia.
Qed.

(* for reachable builders: refused exactly when the estimate after the append would exceed
   max squared; the increment is never negative *)
Theorem refusal_rule_tx max thr ops tx :
  let b := reach max thr ops in
  (snd (append_tx b tx) = false <-> (estimate_after_tx b tx > Z.of_N (max * max))%Z) /\
  (snd (append_tx b tx) = true -> bd_cur (fst (append_tx b tx)) = estimate_after_tx b tx) /\
  (bd_cur b <= estimate_after_tx b tx)%Z.
Proof.
  cbn zeta. pose proof (reach_inv max thr ops) as I.
  destruct (estimate_after_tx_eq max thr _ tx I) as [E D]. rewrite E.
  split; [|split].
  - rewrite append_tx_refused_iff. unfold capacity. rewrite (inv_max _ _ _ I). reflexivity.
  - intros H. apply (append_tx_accepted _ _ H).
  - lia.
Qed.

Theorem refusal_rule_blob_tx max thr ops t :
  let b := reach max thr ops in
  (snd (append_blob_tx b t) = false <-> (estimate_after_blob_tx b t > Z.of_N (max * max))%Z) /\
  (snd (append_blob_tx b t) = true -> bd_cur (fst (append_blob_tx b t)) = estimate_after_blob_tx b t) /\
  (bd_cur b <= estimate_after_blob_tx b t)%Z.
Proof.
  cbn zeta. pose proof (reach_inv max thr ops) as I.
  destruct (estimate_after_blob_tx_eq max thr _ t I) as [E D]. rewrite E.
  split; [|split].
  - rewrite append_blob_tx_refused_iff. unfold capacity. rewrite (inv_max _ _ _ I). reflexivity.
  - intros H. apply (append_blob_tx_accepted _ _ H).
  - lia.
Qed.

(* ---------- (d) the side rule ---------- *)
Theorem side_rule max thr ops : pow2 max ->
  let b := reach max thr ops in
  let s := blob_min_square_size (Z.to_N (bd_cur b)) in
  pow2 s /\ (bd_cur b <= Z.of_N (s * s))%Z /\
  (forall w, pow2 w -> (bd_cur b <= Z.of_N (w * w))%Z -> s <= w) /\
  s <= max.
Proof.
  intros Hm. cbn zeta.
  destruct (accounting_identity max thr ops) as (_ & _ & _ & Hpos). cbn zeta in Hpos.
  destruct (estimate_within_capacity max thr ops) as (_ & _ & Hcap). cbn zeta in Hcap.
  destruct (blob_min_square_size_spec (Z.to_N (bd_cur (reach max thr ops)))) as (P & G & L).
  split; [exact P|]. split; [lia|]. split.
  - intros w Hw Hc. apply L; [exact Hw|lia].
  - apply L; [exact Hm|lia].
Qed.

(* ---------- (e) for reachable builders ---------- *)
Theorem reservation_covers_gap max thr ops : 1 <= thr ->
  let b := reach max thr ops in
  Forall (fun e =>
    e_max_padding e = subtree_width (e_num_shares e) thr - 1 /\
    max_share_offset e = e_num_shares e + e_max_padding e /\
    forall c, c <= next_share_index c (e_num_shares e) thr /\
              next_share_index c (e_num_shares e) thr - c <= e_max_padding e) (bd_blobs b).
Proof.
  intros Ht. cbn zeta. pose proof (inv_els _ _ _ (reach_inv max thr ops)) as H.
  eapply Forall_impl; [|exact H]. intros e He. split; [exact He|]. split; [reflexivity|].
  intros c. split.
  - apply (alignment_gap c (e_num_shares e) thr Ht).
  - apply (alignment_gap_el thr e c Ht He).
Qed.

(* ====================================================================== *)
(* (f) the blob loop of Export                                            *)
(* ====================================================================== *)

(* where the blob region ends: align, then skip the blob *)
Fixpoint blob_end (thr c : N) (els : list element) : N :=
  match els with
  | [] => c
  | e :: tl => blob_end thr (next_share_index c (e_num_shares e) thr + e_num_shares e) tl
  end.

Lemma blob_end_bound thr : 1 <= thr -> forall els c, Forall (el_wf thr) els ->
  c <= blob_end thr c els /\ blob_end thr c els <= c + sum_offsets els.
Proof.
  intros Ht. induction els as [|e tl IH]; intros c Hw; cbn [blob_end sum_offsets fold_right]; [lia|].
  inversion Hw as [|? ? He Htl]; subst.
  fold (sum_offsets tl).
  destruct (alignment_gap_el thr e c Ht He) as [_ G].
  destruct (alignment_gap c (e_num_shares e) thr Ht) as [G0 _].
  destruct (IH (next_share_index c (e_num_shares e) thr + e_num_shares e) Htl) as [A B]. lia.
Qed.

(* the blob loop without its defensive padding check *)
Fixpoint export_blobs_nochk (thr : N) (first : bool) (els : list element) (st : blob_loop_state)
  : outcome blob_loop_state :=
  match els with
  | [] => Ok st
  | e :: tl =>
    let cursor := next_share_index (bl_cursor st) (e_num_shares e) thr in
    let nrs := if first then cursor else bl_nrs st in
    let padding := cursor - bl_end_last st in
    do pfbs <- record_index (bl_pfbs st) (e_pfb_index e) (e_blob_index e) cursor;
    do shares1 <- (if first then Ok (bl_shares st)
                   else sparse_write_item (bl_shares st) (INsPad (N.to_nat padding)));
    do shares2 <- sparse_write_item shares1 (IBlob (e_blob e));
    let cursor' := cursor + e_num_shares e in
    export_blobs_nochk thr false tl (mk_bls cursor' cursor' nrs pfbs shares2)
  end.

(* the check `padding > MaxPadding` is dead code *)
Lemma export_blobs_check_dead thr : 1 <= thr -> forall els first st,
  Forall (el_wf thr) els -> bl_end_last st = bl_cursor st ->
  export_blobs thr first els st = export_blobs_nochk thr first els st.
Proof.
  intros Ht. induction els as [|e tl IH]; intros first st Hw Hc; [reflexivity|].
  inversion Hw as [|? ? He Htl]; subst.
  cbn [export_blobs export_blobs_nochk]. cbn beta zeta.
  destruct (alignment_gap_el thr e (bl_cursor st) Ht He) as [G _].
  rewrite Hc.
  replace (e_max_padding e <? next_share_index (bl_cursor st) (e_num_shares e) thr - bl_cursor st)
    with false by (symmetry; apply N.ltb_ge; exact G).
  destruct (record_index _ _ _ _) as [pfbs| |]; cbn [bind]; try reflexivity.
  match goal with |- bind ?o _ = _ => destruct o as [s1| |] end; cbn [bind]; try reflexivity.
  destruct (sparse_write_item s1 _) as [s2| |]; cbn [bind]; try reflexivity.
  apply IH; [exact Htl|reflexivity].
Qed.

(* whenever the loop finishes, it finishes at blob_end *)
Lemma export_blobs_cursor thr : forall els first st st',
  bl_end_last st = bl_cursor st ->
  export_blobs thr first els st = Ok st' ->
  bl_cursor st' = blob_end thr (bl_cursor st) els /\ bl_end_last st' = bl_cursor st'.
Proof.
  induction els as [|e tl IH]; intros first st st' Hc H.
  - cbn [export_blobs] in H. injection H as <-. cbn [blob_end]. auto.
  - cbn [export_blobs] in H. cbn beta zeta in H. cbn [blob_end].
    destruct (e_max_padding e <? _); [discriminate|].
    destruct (record_index _ _ _ _) as [pfbs| |]; cbn [bind] in H; try discriminate.
    match type of H with bind ?o _ = _ => destruct o as [s1| |] end; cbn [bind] in H; try discriminate.
    destruct (sparse_write_item s1 _) as [s2| |]; cbn [bind] in H; try discriminate.
    apply IH in H; [|reflexivity]. cbn [bl_cursor] in H. exact H.
Qed.

(* if the loop returns an error, the error comes from the share writer, not from
   the padding check *)
Lemma export_blobs_err_from_writer thr : 1 <= thr -> forall els first st,
  Forall (el_wf thr) els -> bl_end_last st = bl_cursor st ->
  export_blobs thr first els st = Err -> export_blobs_nochk thr first els st = Err.
Proof. intros Ht els first st Hw Hc H. rewrite <- (export_blobs_check_dead thr Ht els first st Hw Hc). exact H. Qed.

(* for reachable builders: Export's blob loop = the loop without the check, and the
   blob region [start, end) lies inside the estimate, hence inside max^2 *)
Theorem export_blob_region max thr ops : 1 <= thr ->
  let b := reach max thr ops in
  let sorted := sort_elements (bd_blobs b) in
  let start := Z.to_N (counter_size (bd_txc b) + counter_size (bd_pfbc b)) in
  let st0 := mk_bls start start start (bd_pfbs b) [] in
  export_blobs (bd_thr b) true sorted st0 = export_blobs_nochk (bd_thr b) true sorted st0 /\
  start <= blob_end thr start sorted /\
  (Z.of_N (blob_end thr start sorted) <= bd_cur b)%Z /\
  (bd_cur b <= Z.of_N (max * max))%Z /\
  (forall st, export_blobs (bd_thr b) true sorted st0 = Ok st ->
     bl_cursor st = blob_end thr start sorted).
Proof.
  intros Ht. cbn zeta. pose proof (reach_inv max thr ops) as I.
  destruct I as [Imax Ithr Itxc Ipfbc Icur Icap Iels Inob].
  pose proof (counter_size_nonneg _ _ Itxc). pose proof (counter_size_nonneg _ _ Ipfbc).
  set (b := reach max thr ops) in *. rewrite Ithr.
  set (start := Z.to_N (counter_size (bd_txc b) + counter_size (bd_pfbc b))).
  assert (Hw : Forall (el_wf thr) (sort_elements (bd_blobs b))).
  { apply Forall_forall. intros e He. rewrite Forall_forall in Iels. apply Iels.
    eapply Permutation_in; [apply sort_elements_perm'|exact He]. }
  destruct (blob_end_bound thr Ht _ start Hw) as [A B]. rewrite sum_offsets_sort in B.
  split; [apply export_blobs_check_dead; [exact Ht|exact Hw|reflexivity]|].
  split; [exact A|]. split; [unfold start in *; lia|]. split; [exact Icap|].
  intros st Hst. apply export_blobs_cursor in Hst; [|reflexivity]. cbn [bl_cursor] in Hst. apply Hst.
Qed.

(* ====================================================================== *)
(* non-vacuity                                                            *)
(* ====================================================================== *)

Definition ex_tx (n : nat) : bytes := repeat Byte.x01 n.

(* max 2 (4 shares): 1000 bytes take 3 shares, a second 1000 would make 5 (refused),
   300 more bytes still fit into the third share *)
Definition ex_ops : list aop := [ATx (ex_tx 1000); ATx (ex_tx 1000); ATx (ex_tx 300)].

Example ex_refused_then_accepted :
  snd (append_tx (reach 2 64 [ATx (ex_tx 1000)]) (ex_tx 1000)) = false /\
  observable (reach 2 64 [ATx (ex_tx 1000); ATx (ex_tx 1000)]) = observable (reach 2 64 [ATx (ex_tx 1000)]) /\
  snd (append_tx (reach 2 64 [ATx (ex_tx 1000); ATx (ex_tx 1000)]) (ex_tx 300)) = true.
Proof. vm_compute. auto. Qed.

Definition obs_short (b : builder) :=
  (bd_cur b, map (@length _) (bd_txs b), length (bd_pfbs b),
   map (fun e => (e_num_shares e, e_max_padding e)) (bd_blobs b),
   counter_size (bd_txc b), counter_remainder (bd_txc b),
   counter_size (bd_pfbc b), counter_remainder (bd_pfbc b)).

Example ex_observable :
  obs_short (reach 2 64 ex_ops) = (3%Z, [1000%nat; 300%nat], 0%nat, [], 3%Z, 352%Z, 0%Z, 0%Z).
Proof. vm_compute. reflexivity. Qed.

Example ex_estimates :
  tx_diff (reach 2 64 [ATx (ex_tx 1000)]) (ex_tx 1000) = 2%Z /\
  estimate_after_tx (reach 2 64 [ATx (ex_tx 1000)]) (ex_tx 1000) = 5%Z /\
  capacity (reach 2 64 [ATx (ex_tx 1000)]) = 4%Z /\
  blob_min_square_size (Z.to_N (bd_cur (reach 2 64 ex_ops))) = 2.
Proof. vm_compute. auto. Qed.

(* a blob transaction: one blob of 2000 bytes (5 shares; subtree width 4 with threshold 2,
   hence 3 shares of reserved padding) in a 4x4 builder after one ordinary transaction;
   a second copy would bring the estimate to 18 > 16 and is refused.  In Export the blob
   is placed at share 4 (gap 2 <= 3) and ends at 9 <= 10 = estimate. *)
Definition ex_ns : namespace := Byte.x00 :: repeat Byte.x00 18 ++ repeat Byte.x07 10.
Definition ex_blob : blob := mk_blob ex_ns (repeat Byte.x02 2000) 0 None.
Definition ex_btx : blob_tx := mk_btx (ex_tx 100) [ex_blob].
Definition ex_ops2 : list aop := [ATx (ex_tx 300); ABlobTx ex_btx; ABlobTx ex_btx].

Example ex_blob_history :
  let b1 := reach 4 2 [ATx (ex_tx 300); ABlobTx ex_btx] in
  let b := reach 4 2 ex_ops2 in
  snd (append_blob_tx b1 ex_btx) = false /\
  blob_tx_diff b1 ex_btx = 8%Z /\ estimate_after_blob_tx b1 ex_btx = 18%Z /\
  observable b = observable b1 /\
  obs_short b = (10%Z, [300%nat], 1%nat, [(5, 3)], 1%Z, 302%Z, 1%Z, 114%Z) /\
  builder_is_empty b = false /\
  blob_end 2 2 (sort_elements (bd_blobs b)) = 9 /\
  blob_min_square_size (Z.to_N (bd_cur b)) = 4 /\
  match export_blobs 2 true (sort_elements (bd_blobs b)) (mk_bls 2 2 2 (bd_pfbs b) []) with
  | Ok st => bl_cursor st = 9 /\ bl_nrs st = 4 /\ length (bl_shares st) = 5%nat
  | _ => False
  end.
Proof. vm_compute. repeat split; reflexivity. Qed.
