// Package sub: a second package, so that the selection names two directories and a call crosses
// a package boundary.
package sub

func Twice(x int) int     { return x * 2 }
func Low(y uint32) uint32 { return y & 0xffff }
