package main

// An independent reference implementation of the data-square-layout rules
// (C07), written from the rules and not from builder.go: no counters, no
// writers, no cursors in objects.  It reuses only the reference share
// encoders of props_share.go and its own protobuf encoder for the wrapper.

import (
	"bytes"
	"encoding/binary"
	"sort"

	"github.com/celestiaorg/go-square/v2/tx"
)

func uvarint(v uint64) []byte {
	var buf [10]byte
	n := binary.PutUvarint(buf[:], v)
	return append([]byte{}, buf[:n]...)
}

// refIndexWrapper: field 1 bytes tx, field 2 packed uint32 share_indexes, field 3 string "INDX"
func refIndexWrapper(inner []byte, idx []uint32) []byte {
	var out []byte
	if len(inner) > 0 {
		out = append(out, 0x0a)
		out = append(out, uvarint(uint64(len(inner)))...)
		out = append(out, inner...)
	}
	if len(idx) > 0 {
		var packed []byte
		for _, i := range idx {
			packed = append(packed, uvarint(uint64(i))...)
		}
		out = append(out, 0x12)
		out = append(out, uvarint(uint64(len(packed)))...)
		out = append(out, packed...)
	}
	out = append(out, 0x1a, 4, 'I', 'N', 'D', 'X')
	return out
}

func refCompactNeeded(n int) int {
	if n == 0 {
		return 0
	}
	if n <= 474 {
		return 1
	}
	return 1 + (n-474+477)/478
}

func refSparseNeeded(n int) int {
	if n == 0 {
		return 0
	}
	if n <= 478 {
		return 1
	}
	return 1 + (n-478+481)/482
}

func refMinSide(n int) int {
	s := 1
	for s*s < n {
		s *= 2
	}
	return s
}

func refSubtreeWidth(n, t int) int {
	w := 1
	for (n+w-1)/w > t {
		w *= 2
	}
	if ms := refMinSide(n); ms < w {
		w = ms
	}
	return w
}

type refBlob struct {
	g       genBlob
	pfb, j  int
	nShares int
	index   int
}

type refTx struct {
	raw    []byte
	inner  []byte
	blobs  []genBlob
	isBlob bool
}

func classify(raw []byte) refTx {
	bt, isBlob, err := tx.UnmarshalBlobTx(raw)
	if !isBlob || err != nil {
		return refTx{raw: raw}
	}
	r := refTx{raw: raw, inner: bt.Tx, isBlob: true}
	for _, b := range bt.Blobs {
		r.blobs = append(r.blobs, genBlob{ns: b.Namespace().Bytes(), ver: b.ShareVersion(), signer: b.Signer(), data: b.Data()})
	}
	return r
}

// estimate: worst-case share count of normals + pfbs (placeholder index 16384) + blobs (n + width - 1)
func refEstimate(normals [][]byte, pfbs []refTx, thr int) int {
	txBytes := 0
	for _, t := range normals {
		txBytes += len(refDelimited(t))
	}
	pfbBytes := 0
	blobShares := 0
	for _, p := range pfbs {
		worst := make([]uint32, len(p.blobs))
		for i := range worst {
			worst[i] = 16384
		}
		pfbBytes += len(refDelimited(refIndexWrapper(p.inner, worst)))
		for _, b := range p.blobs {
			n := refSparseNeeded(len(b.data) + len(b.signer))
			blobShares += n + refSubtreeWidth(n, thr) - 1
		}
	}
	return refCompactNeeded(txBytes) + refCompactNeeded(pfbBytes) + blobShares
}

// refKeep: greedy keep/refuse by the estimate alone (Build)
func refKeep(raws [][]byte, max, thr int) (normals [][]byte, pfbs []refTx) {
	for _, raw := range raws {
		t := classify(raw)
		if t.isBlob {
			if refEstimate(normals, append(append([]refTx{}, pfbs...), t), thr) <= max*max {
				pfbs = append(pfbs, t)
			}
		} else {
			if refEstimate(append(append([][]byte{}, normals...), raw), pfbs, thr) <= max*max {
				normals = append(normals, raw)
			}
		}
	}
	return
}

// refLayout: the square for exactly these normals and blob txs (already accepted).
func refLayout(normals [][]byte, pfbs []refTx, thr int) [][]byte {
	if len(normals) == 0 && len(pfbs) == 0 {
		return [][]byte{refPadding(tailNs, 0)}
	}
	side := refMinSide(refEstimate(normals, pfbs, thr))
	txShares, _ := refCompact(txNs, normals)
	// compact share count of the pfb sequence with worst-case indexes fixes where blobs may start
	worstBytes := 0
	var blobs []*refBlob
	for pi, p := range pfbs {
		worst := make([]uint32, len(p.blobs))
		for i := range worst {
			worst[i] = 16384
		}
		worstBytes += len(refDelimited(refIndexWrapper(p.inner, worst)))
		for j, b := range p.blobs {
			blobs = append(blobs, &refBlob{g: b, pfb: pi, j: j, nShares: refSparseNeeded(len(b.data) + len(b.signer))})
		}
	}
	sorted := append([]*refBlob{}, blobs...)
	sort.SliceStable(sorted, func(a, b int) bool { return bytes.Compare(sorted[a].g.ns, sorted[b].g.ns) < 0 })
	cursor := len(txShares) + refCompactNeeded(worstBytes)
	for _, b := range sorted {
		w := refSubtreeWidth(b.nShares, thr)
		cursor = (cursor + w - 1) / w * w
		b.index = cursor
		cursor += b.nShares
	}
	var wrapped [][]byte
	k := 0
	for _, p := range pfbs {
		idx := make([]uint32, len(p.blobs))
		for j := range p.blobs {
			idx[j] = uint32(blobs[k+j].index)
		}
		k += len(p.blobs)
		wrapped = append(wrapped, refIndexWrapper(p.inner, idx))
	}
	pfbShares, _ := refCompact(pfbNs, wrapped)
	sq := append([][]byte{}, txShares...)
	sq = append(sq, pfbShares...)
	for i, b := range sorted {
		padNs, padVer := prpNs, uint8(0)
		if i > 0 {
			padNs, padVer = sorted[i-1].g.ns, sorted[i-1].g.ver
		}
		for len(sq) < b.index {
			sq = append(sq, refPadding(padNs, padVer))
		}
		sq = append(sq, refSparse(b.g.ns, b.g.ver, b.g.signer, b.g.data)...)
	}
	for len(sq) < side*side {
		sq = append(sq, refPadding(tailNs, 0))
	}
	return sq
}
