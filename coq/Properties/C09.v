(* C09 - Transactions survive the compact-share encoding round trip.
   Statements only.  The share sequence is the closed form of Spec/CompactSpec.v
   ([compact_spec_ix]: share j is a function of the stream of length-prefixed
   transactions, the unit start offsets and j); the writer-side theorems connect
   CompactShareSplitter.WriteTx / Export to it. *)
From Coq Require Import List NArith ZArith.
From GS.Model Require Import Base Varint Namespace ShareFmt Compact.
From GS.Spec Require Import ShareSpec CompactSpec.
From GS.Proofs Require Import CompactParseProofs.
Import ListNotations.

(* ---- reader side ---- *)

(* ParseTxs on the share sequence of a non-empty list of non-empty transactions (whose
   length-prefixed bytes fit the 32-bit sequence length) returns exactly the list, in order,
   for any compact namespace (transactions, pay-for-blobs). *)
Theorem C09_parse_round_trip : forall ns txs,
  length ns = 29%nat -> is_compact_ns ns = true -> txs <> [] -> Forall (fun t => t <> []) txs ->
  (lenN (stream txs) < 4294967296)%N ->
  parse_txs (compact_spec_ix ns 0 txs) = Ok txs.
Proof. exact parse_txs_compact_spec. Qed.
Print Assumptions C09_parse_round_trip.

(* the empty list: no shares, and no shares parse to no transactions *)
Theorem C09_empty_spec : forall ns ver, compact_spec_ix ns ver [] = [].
Proof. exact compact_spec_ix_nil. Qed.
Print Assumptions C09_empty_spec.

Theorem C09_empty_parse : parse_txs [] = Ok [].
Proof. exact parse_txs_nil. Qed.
Print Assumptions C09_empty_parse.

(* The 32-bit bound is only about the sequence-length field, which the parser does not read:
   transactions shorter than 2^64 bytes ([tx_ok t] is  t <> [] /\ lenN t < 2^64) suffice. *)
Theorem C09_parse_round_trip_unbounded : forall ns txs,
  length ns = 29%nat -> is_compact_ns ns = true -> txs <> [] -> Forall tx_ok txs ->
  parse_txs (compact_spec_ix ns 0 txs) = Ok txs.
Proof. exact parse_txs_compact_spec_unbounded. Qed.
Print Assumptions C09_parse_round_trip_unbounded.

(* Generalisation: the sequence-length field [total] is arbitrary; the sequence may have more
   shares than needed (the further ones carry zero fill only); and it may be followed by any
   shares of version 0 whose payload is zero fill ([zero_share], e.g. padding shares).
   Trailing zero padding never yields a transaction and never loses one. *)
Theorem C09_parse_ignores_total_and_zero_padding : forall ns total txs n extra,
  length ns = 29%nat -> is_compact_ns ns = true -> txs <> [] -> Forall tx_ok txs ->
  (cneeded (length (stream txs)) <= n)%nat -> Forall zero_share extra ->
  parse_txs (map (fun j => cshare ns 0 total j (stream txs) (ustarts 0 (units txs))) (seq 0 n) ++ extra)
  = Ok txs.
Proof. exact parse_txs_cshares. Qed.
Print Assumptions C09_parse_ignores_total_and_zero_padding.

(* padding shares of a non-compact namespace are such zero shares *)
Theorem C09_padding_is_zero_share : forall ns, length ns = 29%nat -> is_compact_ns ns = false ->
  zero_share (padding_spec ns 0).
Proof. exact padding_spec_zero_share. Qed.
Print Assumptions C09_padding_is_zero_share.

(* parseRawData alone: the stream of length-prefixed transactions followed by any amount of
   zero fill splits into exactly the transactions *)
Theorem C09_parse_raw_data_padded : forall txs k, Forall tx_ok txs ->
  parse_raw_data (S (length (stream txs ++ zeros k))) (stream txs ++ zeros k) = Ok txs.
Proof. exact parse_raw_data_stream_padded. Qed.
Print Assumptions C09_parse_raw_data_padded.

(* the raw data the parser sees: the payloads tile the stream, only the tail is zero fill *)
Theorem C09_payloads_tile_stream : forall s n, (length s <= 474 + 478 * n)%nat ->
  concat (map (cpayload s) (seq 0 (S n))) = s ++ zeros (474 + 478 * n - length s).
Proof. exact cpayloads_tile. Qed.
Print Assumptions C09_payloads_tile_stream.

(* ---- writer side ----
   PLACE FOR THE WRITER-SIDE THEOREMS (Proofs/CompactWriterProofs.v):
     - new_csplitter ns 0 = Ok c0 -> write_txs c0 txs = Ok c ->
         exists c', cs_export c = Ok (c', compact_spec_ix ns 0 txs)
       and with C09_parse_round_trip: parse_txs of the exported shares = Ok txs;
     - the sequence-length field of the first exported share = total number of
       length-prefixed transaction bytes  (sh_seq_len = lenN (stream txs));
     - the number of exported shares is minimal (= cneeded (length (stream txs)),
       = compact_shares_needed).
   ---- *)

(* ---- non-vacuity ---- *)
Definition c09_txs1 : list bytes := [repeat Byte.x01 472; repeat Byte.x02 10; repeat Byte.x03 1000].
(* first unit = 2 + 471 bytes, so the 2-byte length prefix of the second unit occupies
   stream offsets 473 and 474: it straddles the boundary between share 0 and share 1 *)
Definition c09_txs2 : list bytes := [repeat Byte.x01 471; repeat Byte.x02 200].

Example C09_example_hyps :
  length tx_ns = 29%nat /\ is_compact_ns tx_ns = true /\ is_compact_ns pfb_ns = true /\
  c09_txs1 <> [] /\ Forall (fun t => t <> []) c09_txs1 /\ (lenN (stream c09_txs1) < 4294967296)%N.
Proof.
  repeat split; try (vm_compute; reflexivity); try discriminate.
  repeat constructor; discriminate.
Qed.

Example C09_example_three_txs :
  length (compact_spec_ix tx_ns 0 c09_txs1) = 4%nat /\
  parse_txs (compact_spec_ix tx_ns 0 c09_txs1) = Ok c09_txs1.
Proof. split; vm_compute; reflexivity. Qed.

Example C09_example_straddling_prefix :
  ustarts 0 (units c09_txs2) = [0; 473]%nat /\
  length (put_uvarint (lenN (repeat Byte.x02 200))) = 2%nat /\
  length (compact_spec_ix pfb_ns 0 c09_txs2) = 2%nat /\
  parse_txs (compact_spec_ix pfb_ns 0 c09_txs2) = Ok c09_txs2.
Proof. repeat split; vm_compute; reflexivity. Qed.

(* wrong sequence length, one superfluous share and two tail padding shares: same result *)
Example C09_example_padding :
  parse_txs (map (fun j => cshare tx_ns 0 12345 j (stream c09_txs2) (ustarts 0 (units c09_txs2))) (seq 0 3)
             ++ [padding_spec tail_padding_ns 0; padding_spec tail_padding_ns 0]) = Ok c09_txs2.
Proof. vm_compute; reflexivity. Qed.
