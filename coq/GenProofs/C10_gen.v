(* C10 at code level: the info-byte functions of share/info_byte.go as printed into the REGENERATED
   GoLite program (Gen/Generated.v, from the Go source on every run) compute what the hand-written
   model computes (ShareFmt.new_info_byte / info_version / info_start, Helpers.parse_info_byte).
   Statements only; proofs in GenMoreBase GenMoreC10.v.

   Encoding: a Go byte / uint8 is the integer 0..255 (byte_Z i = Z.of_N (b2n i) for a model byte),
   bool is 0/1, error is 0 (nil) / 1 (non-nil). *)
From Coq Require Import List ZArith NArith String.
From GS.Model Require Import Base ShareFmt Helpers GoLite.
From GS.Gen Require Import Generated.
From GS.GenProofs Require Import GenLink GenMoreBase GenMoreC10.
Open Scope string_scope. Open Scope Z_scope.

(* share.NewInfoByte(version uint8, isSequenceStart bool) (InfoByte, error): every uint8 and both flags *)
Theorem gen_new_info_byte : forall fuel v b, (1 <= fuel)%nat -> 0 <= v < 256 -> b = 0 \/ b = 1 ->
  gen_call fuel "share.NewInfoByte" I64 [v; b] =
  match new_info_byte (Z.to_N v) (b =? 1) with
  | Ok i => Val [Z.of_N (b2n i); 0]
  | _ => Val [0; 1]
  end.
Proof. exact new_info_byte_gen. Qed.
Print Assumptions gen_new_info_byte.

(* the two cases explicitly: up to MaxShareVersion = 127 the byte 2*version + flag and a nil error;
   above it (0, error) whatever the flag *)
Theorem gen_new_info_byte_cases : forall fuel v b, (1 <= fuel)%nat ->
  (0 <= v <= 127 -> b = 0 \/ b = 1 -> gen_call fuel "share.NewInfoByte" I64 [v; b] = Val [2 * v + b; 0]) /\
  (127 < v -> gen_call fuel "share.NewInfoByte" I64 [v; b] = Val [0; 1]).
Proof. exact new_info_byte_gen_cases. Qed.
Print Assumptions gen_new_info_byte_cases.

(* InfoByte.Version() uint8 and InfoByte.IsSequenceStart() bool: every byte value *)
Theorem gen_info_byte_version : forall fuel i, (1 <= fuel)%nat -> 0 <= i < 256 ->
  gen_call fuel "share.InfoByte.Version" I64 [i] = Val [Z.of_N (info_version (n2b (Z.to_N i)))] /\
  Z.of_N (info_version (n2b (Z.to_N i))) = i / 2.
Proof. exact info_byte_version_full. Qed.
Print Assumptions gen_info_byte_version.

Theorem gen_info_byte_is_sequence_start : forall fuel i, (1 <= fuel)%nat -> 0 <= i < 256 ->
  gen_call fuel "share.InfoByte.IsSequenceStart" I64 [i] = Val [b2z (info_start (n2b (Z.to_N i)))] /\
  info_start (n2b (Z.to_N i)) = (i mod 2 =? 1).
Proof. exact info_byte_is_sequence_start_full. Qed.
Print Assumptions gen_info_byte_is_sequence_start.

(* the same, quantified over the model's bytes *)
Theorem gen_info_byte_accessors : forall fuel (i : byte), (1 <= fuel)%nat ->
  gen_call fuel "share.InfoByte.Version" I64 [byte_Z i] = Val [Z.of_N (info_version i)] /\
  gen_call fuel "share.InfoByte.IsSequenceStart" I64 [byte_Z i] = Val [b2z (info_start i)].
Proof. exact info_byte_accessors_byte. Qed.
Print Assumptions gen_info_byte_accessors.

(* share.ParseInfoByte(i byte) (InfoByte, error): total on bytes, returns its argument (it calls
   NewInfoByte, hence fuel 2) *)
Theorem gen_parse_info_byte : forall fuel i, (2 <= fuel)%nat -> 0 <= i < 256 ->
  gen_call fuel "share.ParseInfoByte" I64 [i] = Val [i; 0] /\
  gen_call fuel "share.ParseInfoByte" I64 [i] =
    match parse_info_byte (n2b (Z.to_N i)) with
    | Ok j => Val [Z.of_N (b2n j); 0]
    | _ => Val [0; 1]
    end /\
  parse_info_byte (n2b (Z.to_N i)) = Ok (n2b (Z.to_N i)).
Proof. exact parse_info_byte_full. Qed.
Print Assumptions gen_parse_info_byte.

Example gen_info_byte_ex :
  gen_call 1 "share.NewInfoByte" I64 [1; 1] = Val [3; 0] /\
  new_info_byte 1 true = Ok (n2b 3) /\
  gen_call 1 "share.NewInfoByte" I64 [127; 0] = Val [254; 0] /\
  gen_call 1 "share.NewInfoByte" I64 [128; 1] = Val [0; 1] /\
  new_info_byte 128 true = Err /\
  gen_call 1 "share.InfoByte.Version" I64 [255] = Val [127] /\
  gen_call 1 "share.InfoByte.IsSequenceStart" I64 [255] = Val [1] /\
  gen_call 1 "share.InfoByte.IsSequenceStart" I64 [254] = Val [0] /\
  gen_call 2 "share.ParseInfoByte" I64 [255] = Val [255; 0] /\
  gen_call 2 "share.ParseInfoByte" I64 [2] = Val [2; 0] /\
  gen_call 1 "share.ParseInfoByte" I64 [2] = Fuel /\
  byte_Z (n2b 200) = 200.
Proof. vm_compute. repeat split; reflexivity. Qed.
