(* GoLiteL: GoLite (Model/GoLite.v) with slices of integers.

   A separate embedding: GoLite.v and the theorems about it are untouched.  The integer types,
   the wrap-around of fixed-width arithmetic, the operators, the comparison operators and the
   outcome type are GoLite's ([ity], [wrap], [binop], [cmpop], [eval_bin], [eval_cmp], [res]).

   Values are a scalar (an integer, as in GoLite: bool is 0/1, an error is 0 = nil / 1) or a
   slice value, which is the LIST of its elements.  A nil slice and an empty slice are both the
   empty list: they are NOT distinguished (Go code in the fragment cannot tell them apart
   except by comparing with nil, and the translator refuses a comparison of a slice with nil
   because a slice type is outside the scalar expression fragment).  Capacity is not modelled.

   Slice values are lists, so a variable holds its own copy: the semantics is BY VALUE.  It
   agrees with Go only for programs without aliasing between slice variables; the translator
   (go2coq, selection table selectedL) therefore refuses every construct that could create an
   alias: y := x of slices, slicing x[a:b], append to anything but the variable itself,
   copy, slices in struct fields, the same slice passed to two parameters, any assignment to,
   store into, append onto or return of a slice PARAMETER (parameters are read-only, hence a
   slice result of a call is always fresh), and a change of the ranged slice inside the body of a
   `for i, v := range` (with a value variable).

   New expressions:  len(x), x[i] (index out of range = [Flt], a Go panic), nil (the empty slice).
   New statements:   x = append(x, e);  x = make([]T, n) (zero filled; negative n = [Flt]);
                     x[i] = e (out of range = [Flt]);  for k, v := range xs { body } (the slice is
                     read once, before the first iteration, as in Go; an absent or blank variable is
                     "_", which is never read).  `var x []T` is the assignment x = nil.
   A dynamic type confusion (a slice where a scalar is needed or the reverse) is [Flt]; the
   translator only prints well-typed terms, so this never happens for generated code.

   Calls: a function of the GoLiteL program runs here; any other function name runs in GoLite
   ([callf] on the scalar program, all arguments must be scalars), so that the theorems about the
   scalar functions can be reused as they are.
   Memory is not modelled: make and append always succeed (make([]T, n) is the list of n zeros for
   every n >= 0, where Go would stop with "len out of range" or run out of memory for a huge n).
   Fuel bounds the call depth and, per for statement, the number of iterations; a range
   statement needs no fuel (it is structural on the list).  Definitions only. *)
From GS.Model Require Export GoLite.
Open Scope Z_scope.

Inductive value := VZ (z : Z) | VL (l : list Z).

Inductive lexpr :=
| LConst (z : Z)
| LVar (x : string)
| LNil
| LBin (t : ity) (o : binop) (a b : lexpr)
| LCmp (o : cmpop) (a b : lexpr)
| LNot (a : lexpr)
| LAndAlso (a b : lexpr)
| LOrElse (a b : lexpr)
| LConv (t : ity) (a : lexpr)
| LCall (f : string) (targ : ity) (args : list lexpr)
| LLen (x : string)
| LIndex (x : string) (i : lexpr).

Inductive lstmt :=
| LSSkip
| LSSeq (s1 s2 : lstmt)
| LSAssign (x : string) (e : lexpr)
| LSCall (xs : list string) (f : string) (targ : ity) (args : list lexpr)
| LSIf (c : lexpr) (s1 s2 : lstmt)
| LSFor (c : lexpr) (body : lstmt)
| LSReturn (es : list lexpr)
| LSAppend (x : string) (e : lexpr)              (* x = append(x, e) *)
| LSMake (x : string) (n : lexpr)                (* x = make([]T, n) *)
| LSStore (x : string) (i e : lexpr)             (* x[i] = e *)
| LSRange (k v xs : string) (body : lstmt).      (* for k, v := range xs { body } *)

Record lfundef := { lparams : list string; lbody : lstmt }.
Definition lprogram := list (string * lfundef).

Definition lenv := list (string * value).
Fixpoint llookup (e : lenv) (x : string) : value :=
  match e with
  | [] => VZ 0
  | (y, v) :: tl => if String.eqb x y then v else llookup tl x
  end.
Definition lupdate (e : lenv) (x : string) (v : value) : lenv := (x, v) :: e.
Fixpoint lbind_params (ps : list string) (vs : list value) : lenv :=
  match ps, vs with
  | p :: ps', v :: vs' => (p, v) :: lbind_params ps' vs'
  | _, _ => []
  end.
Fixpoint lupdate_all (e : lenv) (xs : list string) (vs : list value) : lenv :=
  match xs, vs with
  | x :: xs', v :: vs' => lupdate_all (lupdate e x v) xs' vs'
  | _, _ => e
  end.

Definition as_z (v : value) : res Z := match v with VZ z => Val z | VL _ => Flt end.
Definition as_l (v : value) : res (list Z) := match v with VL l => Val l | VZ _ => Flt end.
Definition vz (r : res Z) : res value := rbind r (fun z => Val (VZ z)).

Definition in_range (i : Z) (l : list Z) : bool := (0 <=? i) && (i <? Z.of_nat (length l)).

(* l with element number n replaced by v (n < length l) *)
Fixpoint set_nth (n : nat) (l : list Z) (v : Z) : list Z :=
  match l, n with
  | [], _ => []
  | _ :: tl, O => v :: tl
  | a :: tl, S n' => a :: set_nth n' tl v
  end.

(* all arguments scalars? *)
Fixpoint scalars (vs : list value) : option (list Z) :=
  match vs with
  | [] => Some []
  | VZ z :: tl => match scalars tl with Some zs => Some (z :: zs) | None => None end
  | VL _ :: _ => None
  end.

Definition lcaller := string -> ity -> list value -> res (list value).

Section LEval.
  Variable call : lcaller.
  Variable tp : ity.

  Fixpoint leval (en : lenv) (e : lexpr) : res value :=
    match e with
    | LConst z => Val (VZ z)
    | LVar x => Val (llookup en x)
    | LNil => Val (VL [])
    | LBin t o a b =>
      rbind (rbind (leval en a) as_z) (fun va =>
      rbind (rbind (leval en b) as_z) (fun vb => vz (eval_bin (resolve tp t) o va vb)))
    | LCmp o a b =>
      rbind (rbind (leval en a) as_z) (fun va =>
      rbind (rbind (leval en b) as_z) (fun vb => Val (VZ (eval_cmp o va vb))))
    | LNot a => rbind (rbind (leval en a) as_z) (fun va => Val (VZ (b2z (va =? 0))))
    | LAndAlso a b =>
      rbind (rbind (leval en a) as_z) (fun va =>
        if va =? 0 then Val (VZ 0) else vz (rbind (leval en b) as_z))
    | LOrElse a b =>
      rbind (rbind (leval en a) as_z) (fun va =>
        if va =? 0 then vz (rbind (leval en b) as_z) else Val (VZ 1))
    | LConv t a => rbind (rbind (leval en a) as_z) (fun va => Val (VZ (wrap (resolve tp t) va)))
    | LCall f targ args =>
      rbind ((fix evals (l : list lexpr) : res (list value) :=
                match l with
                | [] => Val []
                | x :: tl => rbind (leval en x) (fun v => rbind (evals tl) (fun vs => Val (v :: vs)))
                end) args)
            (fun vs => rbind (call f (resolve tp targ) vs)
                             (fun rs => match rs with r :: _ => Val r | [] => Flt end))
    | LLen x => rbind (as_l (llookup en x)) (fun l => Val (VZ (Z.of_nat (length l))))
    | LIndex x i =>
      rbind (as_l (llookup en x)) (fun l =>
      rbind (rbind (leval en i) as_z) (fun vi =>
        if in_range vi l then Val (VZ (nth (Z.to_nat vi) l 0)) else Flt))
    end.

  Fixpoint levals (en : lenv) (l : list lexpr) : res (list value) :=
    match l with
    | [] => Val []
    | x :: tl => rbind (leval en x) (fun v => rbind (levals en tl) (fun vs => Val (v :: vs)))
    end.

  Definition levalz (en : lenv) (e : lexpr) : res Z := rbind (leval en e) as_z.

  (* statement outcome: fall through with an environment, or return values *)
  Inductive lsres := LNormal (en : lenv) | LRet (vs : list value) (en : lenv) | LFlt | LFuel.

  Definition lift_env (r : res lenv) : lsres :=
    match r with Val en => LNormal en | Flt => LFlt | Fuel => LFuel end.

  (* [lf]: the number of iterations any single for statement may take *)
  Fixpoint lexec (lf : nat) (s : lstmt) (en : lenv) : lsres :=
    match s with
    | LSSkip => LNormal en
    | LSSeq s1 s2 =>
      match lexec lf s1 en with
      | LNormal en' => lexec lf s2 en'
      | r => r
      end
    | LSAssign x e => lift_env (rbind (leval en e) (fun v => Val (lupdate en x v)))
    | LSCall xs f targ args =>
      lift_env (rbind (levals en args) (fun vs =>
                rbind (call f (resolve tp targ) vs) (fun rs => Val (lupdate_all en xs rs))))
    | LSIf c s1 s2 =>
      match levalz en c with
      | Val v => if v =? 0 then lexec lf s2 en else lexec lf s1 en
      | Flt => LFlt | Fuel => LFuel
      end
    | LSFor c body =>
      (fix loop (n : nat) (en : lenv) : lsres :=
         match n with
         | O => LFuel
         | S n' =>
           match levalz en c with
           | Val v =>
             if v =? 0 then LNormal en else
             match lexec lf body en with
             | LNormal en' => loop n' en'
             | r => r
             end
           | Flt => LFlt | Fuel => LFuel
           end
         end) lf en
    | LSReturn es =>
      match levals en es with
      | Val vs => LRet vs en
      | Flt => LFlt | Fuel => LFuel
      end
    | LSAppend x e =>
      lift_env (rbind (as_l (llookup en x)) (fun l =>
                rbind (levalz en e) (fun v => Val (lupdate en x (VL (l ++ [v]))))))
    | LSMake x n =>
      lift_env (rbind (levalz en n) (fun vn =>
                if vn <? 0 then Flt else Val (lupdate en x (VL (repeat 0 (Z.to_nat vn))))))
    | LSStore x i e =>
      (* Go: the index and the right-hand side are evaluated first, then the store is checked *)
      lift_env (rbind (levalz en i) (fun vi =>
                rbind (levalz en e) (fun v =>
                rbind (as_l (llookup en x)) (fun l =>
                  if in_range vi l then Val (lupdate en x (VL (set_nth (Z.to_nat vi) l v))) else Flt))))
    | LSRange k v xs body =>
      match as_l (llookup en xs) with
      | Val l =>
        (fix go (l : list Z) (i : Z) (en : lenv) : lsres :=
           match l with
           | [] => LNormal en
           | a :: tl =>
             match lexec lf body (lupdate (lupdate en k (VZ i)) v (VZ a)) with
             | LNormal en' => go tl (i + 1) en'
             | r => r
             end
           end) l 0 en
      | Flt => LFlt | Fuel => LFuel
      end
    end.
End LEval.

Fixpoint find_lfun (p : lprogram) (f : string) : option lfundef :=
  match p with
  | [] => None
  | (g, d) :: tl => if String.eqb f g then Some d else find_lfun tl f
  end.

(* a call of a scalar function: GoLite's [callf] on the scalar program *)
Definition scalar_call (ext : externals) (sp : program) (fuel : nat) (f : string) (targ : ity)
  (args : list value) : res (list value) :=
  match scalars args with
  | Some zs => rbind (callf ext sp fuel f targ zs) (fun rs => Val (map VZ rs))
  | None => Flt
  end.

(* [callfl ext sp p fuel f targ args]: run function f.  If f is a function of the GoLiteL program p
   it runs here (one unit of fuel per call level, [fuel] iterations per for statement); otherwise
   it is a scalar function: [callf ext sp fuel f targ args] with the same fuel. *)
Fixpoint callfl (ext : externals) (sp : program) (p : lprogram) (fuel : nat) (f : string) (targ : ity)
  (args : list value) : res (list value) :=
  match find_lfun p f with
  | Some d =>
    match fuel with
    | O => Fuel
    | S n =>
      match lexec (callfl ext sp p n) targ fuel (lbody d) (lbind_params (lparams d) args) with
      | LRet vs _ => Val vs
      | LNormal _ => Val []
      | LFlt => Flt
      | LFuel => Fuel
      end
    end
  | None => scalar_call ext sp fuel f targ args
  end.
