package fn

import "math"

// ---- comparisons (signed / unsigned), && || ! with short circuit

func CmpI(a, b int) (bool, bool, bool, bool, bool, bool) {
	return a < b, a <= b, a > b, a >= b, a == b, a != b
}
func CmpU64(a, b uint64) (bool, bool, bool, bool, bool, bool) {
	return a < b, a <= b, a > b, a >= b, a == b, a != b
}
func CmpU32(a, b uint32) (bool, bool, bool) { return a < b, a >= b, a-b > a }
func CmpU8(a, b uint8) (bool, bool, bool)   { return a <= b, a > b, a+b < a }
func CmpMixed(a int64, b uint64) (bool, bool) {
	return uint64(a) < b, a < int64(b)
}
func CmpBool(p, q bool) (bool, bool, bool, bool) {
	return p == q, p != q, !p, p == true
}

// the right operand would panic: it must not be evaluated
func GuardAnd(a, b int) bool { return b != 0 && a/b > 1 }
func GuardOr(a, b int) bool  { return b == 0 || a%b == 0 }
func GuardNot(a, b int) bool { return !(b == 0) && !(a/b < 0) }
func GuardNested(a, b, c int) bool {
	return (b != 0 && c != 0 && a/b/c >= 0) || (b == 0 && (c == 0 || a/c > 3))
}

// and here the right operand is evaluated: a panic for b == 0 exactly when a > 0
func UnguardedAnd(a, b int) bool { return a > 0 && a/b > 1 }
func UnguardedOr(a, b int) bool  { return a > 0 || a/b > 1 }
func BoolVars(a, b int) bool {
	p := a < b
	q := !p
	var r bool
	r = p || q
	if r != true {
		return false
	}
	return (p && !q) == (a < b)
}
func CmpConstU64(x uint64, y int64) (bool, bool, bool) {
	return x < 1<<63, x >= math.MaxUint64, y > math.MinInt64
}
