(* Sparse (blob) shares: the writer model equals the closed-form specification
   (C10), the parser inverts it for any sequence of blobs and padding (C08),
   and the number of shares is the predicted one (C13). *)
From Coq Require Import List Arith NArith ZArith Lia Bool.
From Coq Require Import ZifyN ZifyNat ZifyBool.
From GS.Model Require Import Base Varint Namespace ShareFmt Blob Sparse Counter.
From GS.Spec Require Import ShareSpec.
From GS.Proofs Require Import BaseLemmas.
Import ListNotations.

Ltac Zify.zify_post_hook ::= Z.div_mod_to_equations.
Open Scope nat_scope.

(* A blob as NewBlob accepts it, in a namespace that is not one of the protocol's
   own (implied by ValidateForBlob, see NamespaceProofs), shorter than 4 GiB. *)
Definition blob_ok (b : blob) : Prop :=
  length (b_ns b) = 29 /\
  is_compact_ns (b_ns b) = false /\ is_tail_padding (b_ns b) = false /\
  is_primary_reserved_padding (b_ns b) = false /\ ns_version (b_ns b) = 0%N /\
  b_data b <> [] /\ (lenN (b_data b) < 4294967296)%N /\
  ((b_ver b = 0%N /\ b_signer b = None) \/
   (b_ver b = 1%N /\ exists s, b_signer b = Some s /\ length s = 20)).

(* the signer bytes written to the first share *)
Definition spec_signer (b : blob) : bytes := if (b_ver b =? 1)%N then signer_bytes b else [].

Lemma blob_ok_ver b : blob_ok b -> (b_ver b <= 127)%N /\ ((b_ver b =? 0) || (b_ver b =? 1))%N = true.
Proof. intros (_ & _ & _ & _ & _ & _ & _ & [[-> _]|[-> _]]); split; (lia || reflexivity). Qed.

Lemma blob_ok_signer b : blob_ok b ->
  (b_ver b = 0%N /\ spec_signer b = [] /\ b_signer b = None) \/
  (b_ver b = 1%N /\ length (spec_signer b) = 20 /\ b_signer b = Some (spec_signer b)).
Proof.
  intros (_ & _ & _ & _ & _ & _ & _ & [[Hv Hs]|[Hv (s & Hs & Hl)]]); unfold spec_signer, signer_bytes; rewrite Hv, Hs; cbn.
  - left. auto.
  - right. auto.
Qed.

(* ---------- share builder steps ---------- *)
Lemma sb_add_data_fit b d : length (sb_raw b) + length d <= 512 ->
  sb_add_data b d = (sb_with_raw b (sb_raw b ++ d), None).
Proof.
  intros H. unfold sb_add_data, sb_available, share_size.
  replace (Nat.leb (length d) (512 - length (sb_raw b))) with true by lia. reflexivity.
Qed.

Lemma sb_add_data_over b d : length (sb_raw b) <= 512 -> 512 < length (sb_raw b) + length d ->
  sb_add_data b d = (sb_with_raw b (sb_raw b ++ firstn (512 - length (sb_raw b)) d),
                     Some (skipn (512 - length (sb_raw b)) d)).
Proof.
  intros H1 H2. unfold sb_add_data, sb_available, share_size.
  replace (Nat.leb (length d) (512 - length (sb_raw b))) with false by lia. reflexivity.
Qed.

Lemma pad_to_hdr h n hdr c : length hdr = h -> pad_to (h + n) (hdr ++ c) = hdr ++ pad_to n c.
Proof.
  intros H. unfold pad_to. rewrite app_length, H, <- app_assoc.
  replace (h + n - (h + length c)) with (n - length c) by lia. reflexivity.
Qed.

Lemma sb_raw_with b r : sb_raw (sb_with_raw b r) = r.
Proof. reflexivity. Qed.

Lemma sb_build_ok b : length (sb_raw b) = 512 -> sb_build b = Ok (sb_raw b).
Proof. intros H. unfold sb_build, wf_shareb, share_size. rewrite H. reflexivity. Qed.

Lemma new_builder_sparse ns ver first : (ver <= 127)%N -> is_compact_ns ns = false ->
  new_builder ns ver first =
  Ok (mk_sb ns ver first false (ns ++ [info_of ver first] ++ (if first then zeros 4 else []))).
Proof.
  intros Hv Hc. unfold new_builder. rewrite new_info_byte_ok by exact Hv. cbn [bind]. rewrite Hc.
  rewrite app_nil_r. reflexivity.
Qed.

(* the continuation shares of a sparse sequence *)
Definition cont_share (ns : namespace) (ver : N) (c : bytes) : share :=
  ns ++ [info_of ver false] ++ pad_to 482 c.

Lemma sparse_write_loop_spec : forall fuel ns ver b data acc,
  length ns = 29 -> (ver <= 127)%N -> is_compact_ns ns = false ->
  length (sb_raw b) < 512 ->
  length data < fuel ->
  let cap := 512 - length (sb_raw b) in
  sparse_write_loop fuel ns ver b data acc =
  Ok (acc ++ (sb_raw b ++ pad_to cap (firstn cap data))
          :: map (cont_share ns ver) (chunks 482 (skipn cap data))).
Proof.
  induction fuel as [|f IH]; intros ns ver b data acc Hns Hv Hc Hraw Hfuel cap; [lia|].
  cbn [sparse_write_loop].
  destruct (Nat.le_gt_cases (length data) cap) as [Hfit|Hover].
  - rewrite sb_add_data_fit by (unfold cap in Hfit; lia).
    unfold sb_zero_pad, share_size. cbn [fst]. rewrite !sb_raw_with.
    rewrite sb_build_ok; rewrite ?sb_raw_with.
    2:{ rewrite !app_length, length_zeros. unfold cap in Hfit. lia. }
    cbn [bind]. rewrite firstn_all2 by lia. rewrite skipn_all2 by lia. rewrite chunks_nil. cbn [map].
    do 3 f_equal. unfold pad_to. rewrite <- app_assoc. do 2 f_equal. unfold zeros. f_equal. rewrite app_length. unfold cap. lia.
  - rewrite sb_add_data_over by (unfold cap in Hover; lia). fold cap.
    rewrite sb_build_ok; rewrite ?sb_raw_with.
    2:{ rewrite app_length, firstn_length. unfold cap in *. lia. }
    cbn [bind].
    rewrite new_builder_sparse by assumption. cbn [bind].
    assert (Hrest : skipn cap data <> []).
    { intros E. apply (f_equal (@length _)) in E. rewrite skipn_length in E. cbn [length] in E. unfold cap in *. lia. }
    rewrite IH; try assumption.
    2:{ cbn [sb_raw]. rewrite !app_length, Hns. cbn. lia. }
    2:{ rewrite skipn_length. unfold cap in *. lia. }
    cbn [sb_raw]. rewrite app_nil_r.
    replace (512 - length (ns ++ [info_of ver false])) with 482 by (rewrite app_length, Hns; cbn; lia).
    rewrite (chunks_cons 482 (skipn cap data)) by (lia || assumption). cbn [map].
    rewrite <- app_assoc. cbn [app]. do 3 f_equal.
    + rewrite pad_to_full by (rewrite firstn_length; lia). reflexivity.
    + unfold cont_share. rewrite <- app_assoc. reflexivity.
Qed.

Lemma set_at_header_tail ns i (v tail : bytes) : length ns = 29 -> length v = 4 ->
  set_at 30 v (ns ++ [i] ++ zeros 4 ++ tail) = ns ++ [i] ++ v ++ tail.
Proof.
  intros Hns Hv. unfold set_at. rewrite Hv.
  assert (Hl : length (ns ++ [i]) = 30) by (rewrite app_length, Hns; reflexivity).
  replace (ns ++ [i] ++ zeros 4 ++ tail) with ((ns ++ [i]) ++ zeros 4 ++ tail) by (rewrite <- app_assoc; reflexivity).
  rewrite firstn_app, Hl, Nat.sub_diag, firstn_O, app_nil_r. rewrite firstn_all2 by lia.
  rewrite skipn_app, Hl. rewrite (skipn_all2 (ns ++ [i])) by lia. cbn [app].
  replace (30 + 4 - 30) with 4 by lia.
  rewrite skipn_app, length_zeros, Nat.sub_diag, skipn_O. rewrite skipn_all2 by (rewrite length_zeros; lia).
  cbn [app]. rewrite <- app_assoc. reflexivity.
Qed.

Lemma set_at_header ns i (v : bytes) : length ns = 29 -> length v = 4 ->
  set_at 30 v (ns ++ [i] ++ zeros 4) = ns ++ [i] ++ v.
Proof.
  intros Hns Hv. pose proof (set_at_header_tail ns i v [] Hns Hv) as H.
  rewrite !app_nil_r in H. exact H.
Qed.

(* C10, sparse half: the blob writer produces exactly the specified encoding *)
Theorem sparse_write_spec b : blob_ok b -> sparse_write b = Ok (blob_spec b).
Proof.
  intros Hok. pose proof Hok as (Hns & Hc & _ & _ & _ & Hd & Hlen & _).
  destruct (blob_ok_ver b Hok) as [Hv Hsup].
  unfold sparse_write. rewrite Hsup. cbn [negb].
  rewrite new_builder_sparse by assumption. cbn [bind].
  unfold sb_write_seq_len. cbn [sb_first sb_raw negb].
  replace (Nat.ltb (length (b_ns b ++ [info_of (b_ver b) true] ++ zeros 4)) 34) with false
    by (rewrite !app_length, Hns, length_zeros; cbn; lia).
  cbn [bind sb_with_raw sb_ns sb_ver sb_first sb_compact].
  rewrite set_at_header by (exact Hns || reflexivity).
  rewrite u32_small by exact Hlen.
  unfold blob_spec, sparse_spec. fold (spec_signer b).
  set (hdr := b_ns b ++ [info_of (b_ver b) true] ++ be32 (lenN (b_data b))).
  assert (Hhdr : length hdr = 34) by (unfold hdr; rewrite !app_length, Hns; cbn; lia).
  destruct (blob_ok_signer b Hok) as [(Hv0 & Hs0 & _)|(Hv1 & Hs1 & Hsg)].
  - rewrite Hv0 in *. cbn [N.eqb]. change ((0 =? 1)%N) with false. cbv iota.
    rewrite sparse_write_loop_spec; rewrite ?sb_raw_with; try assumption; try lia.
    rewrite Hhdr, Hs0. cbn [length app].
    replace (512 - 34) with 478 by lia. replace (478 - 0) with 478 by lia.
    unfold hdr, cont_share. rewrite ?Hv0, <- !app_assoc. reflexivity.
  - rewrite Hv1 in *. change ((1 =? 1)%N) with true. cbv iota.
    unfold sb_write_signer. cbn [sb_with_raw sb_ns sb_ver sb_first sb_compact sb_raw].
    change (negb true || negb (1 =? 1)%N) with false. cbv iota.
    assert (Hsb : signer_bytes b = spec_signer b) by (unfold spec_signer; rewrite Hv1; reflexivity).
    rewrite Hsb.
    rewrite sparse_write_loop_spec; rewrite ?sb_raw_with; try assumption; try lia.
    2:{ rewrite app_length, Hs1. lia. }
    rewrite app_length, Hhdr, Hs1.
    replace (512 - (34 + 20)) with 458 by lia. replace (478 - 20) with 458 by lia.
    cbn [app]. unfold hdr, cont_share. rewrite ?Hv1, <- !app_assoc. reflexivity.
Qed.

(* C13: the number of shares of a blob is the closed-form prediction over data + signer *)
Theorem blob_spec_length b : blob_ok b ->
  lenN (blob_spec b) = sparse_shares_needed (lenN (b_data b) + signer_len b).
Proof.
  intros Hok. pose proof Hok as (_ & _ & _ & _ & _ & Hd & _ & _).
  assert (Hpos : 0 < length (b_data b)) by (destruct (b_data b); [congruence|cbn; lia]).
  unfold blob_spec, sparse_spec. fold (spec_signer b). unfold lenN. cbn [length].
  rewrite map_length, length_chunks by lia. rewrite skipn_length.
  unfold sparse_shares_needed, signer_len.
  destruct (blob_ok_signer b Hok) as [(Hv0 & Hs0 & Hn)|(Hv1 & Hs1 & Hsg)].
  - rewrite Hs0, Hn. cbn [length]. set (n := length (b_data b)) in *.
    replace (N.of_nat n + 0 =? 0)%N with false by lia.
    destruct (N.of_nat n + 0 <? 478)%N eqn:E.
    + replace (n - (478 - 0)) with 0 by lia. cbn. lia.
    + assert (H : (n - (478 - 0) + 482 - 1) / 482 = N.to_nat ((N.of_nat n + 0 - 478) / 482 + (if 0 <? (N.of_nat n + 0 - 478) mod 482 then 1 else 0))%N).
      { destruct (0 <? (N.of_nat n + 0 - 478) mod 482)%N eqn:E2; lia. }
      rewrite H. lia.
  - rewrite Hs1, Hsg. unfold lenN. rewrite Hs1. set (n := length (b_data b)) in *.
    replace (N.of_nat n + N.of_nat 20 =? 0)%N with false by lia.
    destruct (N.of_nat n + N.of_nat 20 <? 478)%N eqn:E.
    + replace (n - (478 - 20)) with 0 by lia. cbn. lia.
    + assert (H : (n - (478 - 20) + 482 - 1) / 482 = N.to_nat ((N.of_nat n + N.of_nat 20 - 478) / 482 + (if 0 <? (N.of_nat n + N.of_nat 20 - 478) mod 482 then 1 else 0))%N).
      { destruct (0 <? (N.of_nat n + N.of_nat 20 - 478) mod 482)%N eqn:E2; lia. }
      rewrite H. lia.
Qed.

(* every share of the specified encoding is 512 bytes *)
Lemma blob_spec_wf b : blob_ok b -> Forall (fun s => length s = 512) (blob_spec b).
Proof.
  intros Hok. pose proof Hok as (Hns & _).
  unfold blob_spec, sparse_spec. fold (spec_signer b).
  assert (Hsl : length (spec_signer b) <= 20) by (destruct (blob_ok_signer b Hok) as [(_ & -> & _)|(_ & -> & _)]; cbn; lia).
  constructor.
  - rewrite !app_length, Hns, length_be32, length_pad_to by (rewrite firstn_length; lia). cbn [length]. lia.
  - apply Forall_forall. intros s Hs. apply in_map_iff in Hs. destruct Hs as (c & <- & Hc).
    pose proof (chunks_bound 482 (skipn (478 - length (spec_signer b)) (b_data b))) as Hb.
    rewrite Forall_forall in Hb. specialize (Hb ltac:(lia) c Hc).
    rewrite !app_length, Hns, length_pad_to by lia. cbn [length]. lia.
Qed.

(* ---------- padding shares ---------- *)
Lemma be32_0 : be32 0 = zeros 4.
Proof. reflexivity. Qed.

Theorem namespace_padding_share_spec ns ver : length ns = 29 -> (ver <= 127)%N ->
  namespace_padding_share ns ver = Ok (padding_spec ns ver).
Proof.
  intros Hns Hv. unfold namespace_padding_share, new_builder. rewrite new_info_byte_ok by exact Hv. cbn [bind].
  unfold sb_write_seq_len. cbn [sb_first sb_raw negb].
  destruct (is_compact_ns ns) eqn:Hc.
  - (* a compact namespace: 8 header bytes, 474 of the 478 zero bytes fit *)
    replace (Nat.ltb (length (ns ++ [info_of ver true] ++ zeros 4 ++ zeros 4)) 34) with false
      by (rewrite !app_length, Hns, !length_zeros; cbn; lia).
    cbn [bind sb_with_raw sb_ns sb_ver sb_first sb_compact].
    set (raw := set_at 30 (be32 (u32 0)) (ns ++ [info_of ver true] ++ zeros 4 ++ zeros 4)).
    assert (Hraw : raw = ns ++ [info_of ver true] ++ zeros 8).
    { unfold raw. rewrite set_at_header_tail by (exact Hns || reflexivity). reflexivity. }
    rewrite sb_add_data_over; cbn [sb_raw sb_with_raw]; rewrite Hraw.
    2:{ rewrite !app_length, Hns, length_zeros. cbn. lia. }
    2:{ rewrite !app_length, Hns, !length_zeros. cbn. lia. }
    cbn [sb_raw sb_with_raw]. rewrite sb_build_ok.
    2:{ cbn [sb_raw sb_with_raw]. rewrite !app_length, Hns, firstn_length, !length_zeros. cbn. lia. }
    cbn [sb_raw sb_with_raw]. unfold padding_spec. f_equal.
    rewrite <- !app_assoc. do 2 f_equal.
    replace (512 - length (ns ++ [info_of ver true] ++ zeros 8)) with 474 by (rewrite !app_length, Hns, length_zeros; cbn; lia).
    reflexivity.
  - replace (Nat.ltb (length (ns ++ [info_of ver true] ++ zeros 4 ++ [])) 34) with false
      by (rewrite !app_length, Hns, !length_zeros; cbn; lia).
    cbn [bind sb_with_raw sb_ns sb_ver sb_first sb_compact]. rewrite app_nil_r.
    rewrite set_at_header by (exact Hns || reflexivity).
    rewrite sb_add_data_fit.
    2:{ cbn [sb_raw sb_with_raw]. rewrite !app_length, Hns, length_zeros. cbn. lia. }
    cbn [sb_raw sb_with_raw]. rewrite sb_build_ok.
    2:{ cbn [sb_raw sb_with_raw]. rewrite !app_length, Hns, length_zeros. cbn. lia. }
    cbn [sb_raw sb_with_raw]. unfold padding_spec. f_equal. rewrite <- !app_assoc. reflexivity.
Qed.

Lemma namespace_padding_shares_spec ns ver n : length ns = 29 -> (ver <= 127)%N ->
  namespace_padding_shares ns ver n = Ok (repeat (padding_spec ns ver) n).
Proof.
  intros Hns Hv. induction n as [|n IH]; [reflexivity|].
  cbn [namespace_padding_shares]. rewrite namespace_padding_share_spec, IH by assumption. reflexivity.
Qed.

Lemma padding_spec_length ns ver : length ns = 29 -> length (padding_spec ns ver) = 512.
Proof. intros H. unfold padding_spec. rewrite !app_length, H, length_zeros. reflexivity. Qed.

(* ---------- accessors on specified shares ---------- *)
Section Accessors.
  Variables (ns : namespace) (ver : N) (st : bool) (body : bytes).
  Hypothesis Hns : length ns = 29.
  Hypothesis Hver : (ver <= 127)%N.
  Let s := ns ++ [info_of ver st] ++ body.

  Lemma acc_ns : sh_ns s = ns.
  Proof using Hns. apply hdr_ns, Hns. Qed.
  Lemma acc_version : sh_version s = ver.
  Proof using Hns Hver. unfold sh_version, s. rewrite hdr_info by exact Hns. apply info_of_version, Hver. Qed.
  Lemma acc_start : sh_start s = st.
  Proof using Hns Hver. unfold sh_start, s. rewrite hdr_info by exact Hns. apply info_of_start, Hver. Qed.
  Lemma acc_compact : sh_is_compact s = is_compact_ns ns.
  Proof using Hns. unfold sh_is_compact, is_compact_ns. rewrite acc_ns. reflexivity. Qed.
  Lemma acc_seq_len : sh_seq_len s = if st then rd32 (firstn 4 body) else 0%N.
  Proof using Hns Hver.
    unfold sh_seq_len. rewrite acc_start. destruct st; [|reflexivity].
    unfold s. rewrite (hdr_skip ns body _ Hns 0). reflexivity.
  Qed.
End Accessors.

(* ---------- parsing ---------- *)
Lemma parse_sparse_loop_app a : forall b seqs,
  parse_sparse_loop (a ++ b) seqs = bind (parse_sparse_loop a seqs) (parse_sparse_loop b).
Proof.
  induction a as [|s a IH]; intros b seqs; [reflexivity|].
  cbn [app parse_sparse_loop].
  destruct (negb (sh_version_supported s)); [reflexivity|].
  destruct (sh_is_padding s); [apply IH|].
  destruct (sh_start s); [apply IH|].
  destruct seqs as [|q older]; [reflexivity|apply IH].
Qed.

(* a padding share of a supported version is skipped *)
Lemma parse_padding ns ver rest seqs : length ns = 29 -> (ver = 0 \/ ver = 1)%N ->
  parse_sparse_loop (padding_spec ns ver :: rest) seqs = parse_sparse_loop rest seqs.
Proof.
  intros Hns Hv. assert (Hv' : (ver <= 127)%N) by lia.
  cbn [parse_sparse_loop]. unfold padding_spec, sh_version_supported, sh_is_padding.
  rewrite acc_version, acc_start, acc_seq_len by assumption.
  replace ((ver =? 0) || (ver =? 1))%N with true by (destruct Hv; subst; reflexivity).
  cbn [negb]. change (rd32 (firstn 4 (zeros 482))) with 0%N. reflexivity.
Qed.

Lemma parse_paddings ns ver n rest seqs : length ns = 29 -> (ver = 0 \/ ver = 1)%N ->
  parse_sparse_loop (repeat (padding_spec ns ver) n ++ rest) seqs = parse_sparse_loop rest seqs.
Proof.
  intros Hns Hv. induction n as [|n IH]; [reflexivity|].
  change (repeat (padding_spec ns ver) (S n) ++ rest) with (padding_spec ns ver :: (repeat (padding_spec ns ver) n ++ rest)).
  rewrite parse_padding by assumption. exact IH.
Qed.

(* continuation shares extend the newest sequence *)
Lemma parse_cont_step ns ver c rest q older : length ns = 29 -> (ver = 0 \/ ver = 1)%N ->
  is_compact_ns ns = false ->
  is_tail_padding ns = false -> is_primary_reserved_padding ns = false ->
  parse_sparse_loop (cont_share ns ver c :: rest) (q :: older) =
  parse_sparse_loop rest
    (mk_pseq (q_ns q) (q_ver q) (q_data q ++ pad_to 482 c) (q_len q) (q_signer q) :: older).
Proof.
  intros Hns Hv Hc Ht Hp. assert (Hv' : (ver <= 127)%N) by lia.
  cbn [parse_sparse_loop]. unfold cont_share.
  unfold sh_version_supported, sh_is_padding, sh_raw_data, raw_data_start.
  rewrite !acc_version, !acc_start, !acc_ns, !acc_compact by assumption.
  replace ((ver =? 0) || (ver =? 1))%N with true by (destruct Hv; subst; reflexivity).
  rewrite Ht, Hp, Hc. cbn [negb andb orb addif Nat.add].
  rewrite (hdr_skip30 ns _ _ Hns). reflexivity.
Qed.

Lemma parse_conts ns ver : length ns = 29 -> (ver = 0 \/ ver = 1)%N ->
  is_compact_ns ns = false ->
  is_tail_padding ns = false -> is_primary_reserved_padding ns = false ->
  forall cs rest q older,
  parse_sparse_loop (map (cont_share ns ver) cs ++ rest) (q :: older) =
  parse_sparse_loop rest
    (mk_pseq (q_ns q) (q_ver q) (q_data q ++ concat (map (pad_to 482) cs)) (q_len q) (q_signer q) :: older).
Proof.
  intros Hns Hv Hc Ht Hp.
  induction cs as [|c cs IH]; intros rest q older.
  - cbn [map concat app]. rewrite app_nil_r. destruct q; reflexivity.
  - cbn [map app]. rewrite parse_cont_step by assumption. rewrite IH.
    cbn [q_ns q_ver q_data q_len q_signer concat]. rewrite <- app_assoc. reflexivity.
Qed.

(* the parser state after all shares of a blob: its data followed by zero fill *)
Definition complete (b : blob) (z : nat) : pseq :=
  mk_pseq (b_ns b) (b_ver b) (b_data b ++ zeros z) (lenN (b_data b)) (b_signer b).

Lemma payload_concat cap d : 
  exists z, pad_to cap (firstn cap d) ++ concat (map (pad_to 482) (chunks 482 (skipn cap d))) = d ++ zeros z.
Proof.
  destruct (Nat.le_gt_cases (length d) cap) as [Hfit|Hover].
  - exists (cap - length d). rewrite firstn_all2 by lia. rewrite skipn_all2 by lia.
    rewrite chunks_nil. cbn [map concat]. rewrite app_nil_r. reflexivity.
  - destruct (concat_padded_chunks 482 (skipn cap d) ltac:(lia)) as (z & Hz & _).
    exists z. rewrite Hz. rewrite pad_to_full by (rewrite firstn_length; lia).
    rewrite app_assoc, firstn_skipn. reflexivity.
Qed.

Lemma parse_blob_spec b rest seqs : blob_ok b ->
  exists z, parse_sparse_loop (blob_spec b ++ rest) seqs = parse_sparse_loop rest (complete b z :: seqs).
Proof.
  intros Hok. pose proof Hok as (Hns & Hc & Ht & Hp & _ & Hd & Hlen & _).
  destruct (blob_ok_ver b Hok) as [Hv Hsup].
  assert (Hv01 : (b_ver b = 0 \/ b_ver b = 1)%N).
  { destruct (blob_ok_signer b Hok) as [(H & _)|(H & _)]; auto. }
  assert (Hlen0 : (lenN (b_data b) =? 0)%N = false).
  { apply N.eqb_neq. unfold lenN. destruct (b_data b); [congruence|cbn; lia]. }
  unfold blob_spec, sparse_spec. fold (spec_signer b).
  set (cap := 478 - length (spec_signer b)).
  set (P := pad_to cap (firstn cap (b_data b))).
  set (body := be32 (lenN (b_data b)) ++ spec_signer b ++ P).
  destruct (payload_concat cap (b_data b)) as (z & Hz). fold P in Hz.
  exists z.
  fold (cont_share (b_ns b) (b_ver b)).
  rewrite <- app_comm_cons. cbn [parse_sparse_loop].
  unfold sh_version_supported, sh_is_padding.
  rewrite !acc_version, !acc_start, !acc_ns, !acc_seq_len by assumption.
  rewrite Hsup, Ht, Hp. cbn [negb].
  assert (Hf4 : firstn 4 body = be32 (lenN (b_data b))).
  { unfold body. rewrite firstn_app, length_be32, Nat.sub_diag, firstn_O, app_nil_r.
    apply firstn_all2. rewrite length_be32. lia. }
  rewrite Hf4, rd32_be32 by exact Hlen. rewrite Hlen0. cbn [andb orb].
  rewrite parse_conts by assumption.
  cbn [q_ns q_ver q_data q_len q_signer]. f_equal. unfold complete. f_equal.
  (* the new sequence record *)
  unfold sh_raw_data, raw_data_start, sh_signer.
  rewrite !acc_version, !acc_start, !acc_compact by assumption. rewrite Hc.
  assert (Hs4 : skipn 4 body = spec_signer b ++ P).
  { unfold body. rewrite skipn_app, length_be32, Nat.sub_diag, skipn_O.
    rewrite skipn_all2 by (rewrite length_be32; lia). reflexivity. }
  destruct (blob_ok_signer b Hok) as [(Hv0 & Hs0 & Hn)|(Hv1 & Hs1 & Hsg)].
  - rewrite Hv0, Hn. change ((0 =? 1)%N) with false. cbn [andb addif Nat.add].
    rewrite (hdr_skip34 (b_ns b) body _ Hns), Hs4, Hs0. cbn [app].
    rewrite Hz. reflexivity.
  - rewrite Hv1, Hsg. change ((1 =? 1)%N) with true. cbn [andb addif Nat.add].
    rewrite (hdr_skip54 (b_ns b) body _ Hns), (hdr_skip34 (b_ns b) body _ Hns), Hs4.
    rewrite firstn_app, Hs1, Nat.sub_diag, firstn_O, app_nil_r. rewrite firstn_all2 by lia.
    assert (Hs24 : skipn 24 body = P).
    { unfold body. rewrite skipn_app, length_be32. rewrite skipn_all2 by (rewrite length_be32; lia).
      cbn [app Nat.sub].
      rewrite skipn_app, Hs1, Nat.sub_diag, skipn_O. rewrite skipn_all2 by lia. reflexivity. }
    rewrite Hs24, Hz. reflexivity.
Qed.

(* trimming the collected payload to the declared length and rebuilding the blob *)
Lemma finish_complete b z : blob_ok b -> finish_pseq (complete b z) = Ok b.
Proof.
  intros Hok. pose proof Hok as (Hns & _ & _ & _ & Hnv & Hd & Hlen & Hvs).
  unfold finish_pseq, complete. cbn [q_data q_len q_ns q_ver q_signer].
  replace (lenN (b_data b ++ zeros z) <? lenN (b_data b))%N with false by (rewrite lenN_app; lia).
  unfold slice_to. replace (lenN (b_data b) <=? lenN (b_data b ++ zeros z))%N with true by (rewrite lenN_app; lia).
  cbn [bind]. unfold takeN, lenN. rewrite Nnat.Nat2N.id.
  rewrite firstn_app, Nat.sub_diag, firstn_O, app_nil_r, firstn_all.
  unfold new_blob. destruct (b_data b) as [|d0 dtl] eqn:Ed; [congruence|].
  destruct (b_ns b) as [|n0 ntl] eqn:En; [cbn in Hns; lia|].
  rewrite Hnv. cbn [N.eqb negb].
  destruct b as [bns bdata bver bsig]. cbn [b_ns b_data b_ver b_signer] in *. subst bns bdata.
  destruct Hvs as [[-> ->]|[-> (s & -> & Hl)]]; cbn.
  - reflexivity.
  - unfold signer_size. rewrite Hl. reflexivity.
Qed.

(* ---------- item lists (C08) ---------- *)
Fixpoint blobs_of (items : list sparse_item) : list blob :=
  match items with
  | [] => []
  | IBlob b :: tl => b :: blobs_of tl
  | _ :: tl => blobs_of tl
  end.

Definition item_ok (it : sparse_item) : Prop :=
  match it with IBlob b => blob_ok b | _ => True end.

(* what the parser has collected after the shares written so far *)
Definition collected (acc : list share) (bs : list blob) : Prop :=
  Forall (fun s => length s = 512) acc /\
  exists seqs, parse_sparse_loop acc [] = Ok seqs /\
               Forall2 (fun q b => exists z, q = complete b z) seqs (rev bs).

Lemma version_of_parsed : forall acc seqs0 seqs, parse_sparse_loop acc seqs0 = Ok seqs ->
  Forall (fun s => sh_version_supported s = true) acc.
Proof.
  induction acc as [|s acc IH]; intros seqs0 seqs H; [constructor|].
  cbn [parse_sparse_loop] in H.
  destruct (sh_version_supported s) eqn:Ev; cbn [negb] in H; [|discriminate].
  constructor; [exact Ev|].
  destruct (sh_is_padding s); [eapply IH; exact H|].
  destruct (sh_start s); [eapply IH; exact H|].
  destruct seqs0; [discriminate|eapply IH; exact H].
Qed.

Lemma collected_step acc bs it acc' : item_ok it -> collected acc bs ->
  sparse_write_item acc it = Ok acc' ->
  collected acc' (bs ++ blobs_of [it]).
Proof.
  intros Hit (Hwf & seqs & Hparse & Hall) Hw.
  destruct it as [b|count|count|count]; cbn [item_ok blobs_of] in *.
  - (* a blob *)
    cbn [sparse_write_item] in Hw.
    rewrite sparse_write_spec in Hw by exact Hit. cbn [bind] in Hw. inversion Hw; subst acc'. clear Hw.
    split; [apply Forall_app; split; [exact Hwf|apply blob_spec_wf, Hit]|].
    destruct (parse_blob_spec b [] seqs Hit) as (z & Hz).
    exists (complete b z :: seqs). split.
    + rewrite parse_sparse_loop_app, Hparse. cbn [bind].
      rewrite <- (app_nil_r (blob_spec b)), Hz. reflexivity.
    + rewrite rev_app_distr. cbn [rev app]. constructor; [exists z; reflexivity|exact Hall].
  - (* namespace padding *)
    rewrite app_nil_r.
    destruct count as [|k]; [inversion Hw; subst; split; [exact Hwf|exists seqs; auto]|].
    cbn [sparse_write_item] in Hw.
    destruct (rev acc) as [|lst racc] eqn:Er; [discriminate|].
    assert (Hin : In lst acc) by (apply in_rev; rewrite Er; left; reflexivity).
    assert (Hl512 : length lst = 512) by (rewrite Forall_forall in Hwf; apply Hwf, Hin).
    assert (Hlns : length (sh_ns lst) = 29) by (unfold sh_ns; rewrite firstn_length; lia).
    pose proof (version_of_parsed _ _ _ Hparse) as Hvers. rewrite Forall_forall in Hvers.
    specialize (Hvers lst Hin). unfold sh_version_supported in Hvers.
    assert (Hv01 : (sh_version lst = 0 \/ sh_version lst = 1)%N) by lia.
    rewrite namespace_padding_shares_spec in Hw by (assumption || lia). cbn [bind] in Hw.
    inversion Hw; subst acc'. clear Hw.
    split.
    + apply Forall_app; split; [exact Hwf|]. apply Forall_forall. intros x Hx.
      apply repeat_spec in Hx. subst x. apply padding_spec_length, Hlns.
    + exists seqs. split; [|exact Hall].
      rewrite parse_sparse_loop_app, Hparse. cbn [bind].
      rewrite <- (app_nil_r (repeat _ _)). rewrite parse_paddings by assumption. reflexivity.
  - (* reserved padding *)
    rewrite app_nil_r. cbn [sparse_write_item] in Hw. unfold reserved_padding_shares in Hw.
    rewrite namespace_padding_shares_spec in Hw by (reflexivity || lia). cbn [bind] in Hw.
    inversion Hw; subst acc'. clear Hw. split.
    + apply Forall_app; split; [exact Hwf|]. apply Forall_forall. intros x Hx.
      apply repeat_spec in Hx. subst x. reflexivity.
    + exists seqs. split; [|exact Hall].
      rewrite parse_sparse_loop_app, Hparse. cbn [bind].
      rewrite <- (app_nil_r (repeat _ _)). rewrite parse_paddings by (reflexivity || auto). reflexivity.
  - (* tail padding *)
    rewrite app_nil_r. cbn [sparse_write_item] in Hw. unfold tail_padding_shares in Hw.
    rewrite namespace_padding_shares_spec in Hw by (reflexivity || lia). cbn [bind] in Hw.
    inversion Hw; subst acc'. clear Hw. split.
    + apply Forall_app; split; [exact Hwf|]. apply Forall_forall. intros x Hx.
      apply repeat_spec in Hx. subst x. reflexivity.
    + exists seqs. split; [|exact Hall].
      rewrite parse_sparse_loop_app, Hparse. cbn [bind].
      rewrite <- (app_nil_r (repeat _ _)). rewrite parse_paddings by (reflexivity || auto). reflexivity.
Qed.

Lemma blobs_of_app a b : blobs_of (a ++ b) = blobs_of a ++ blobs_of b.
Proof.
  induction a as [|x a IH]; [reflexivity|]. destruct x; cbn [app blobs_of]; rewrite IH; reflexivity.
Qed.

Lemma collected_items : forall items acc bs shs, Forall item_ok items -> collected acc bs ->
  sparse_write_items acc items = Ok shs -> collected shs (bs ++ blobs_of items).
Proof.
  induction items as [|it items IH]; intros acc bs shs Hok Hc Hw.
  - cbn in Hw. inversion Hw; subst. rewrite app_nil_r. exact Hc.
  - cbn [sparse_write_items] in Hw. destruct (sparse_write_item acc it) as [acc'| |] eqn:E; try discriminate.
    cbn [bind] in Hw. inversion Hok; subst.
    change (it :: items) with ([it] ++ items). rewrite blobs_of_app, app_assoc.
    eapply IH; [eassumption| |exact Hw]. eapply collected_step; eassumption.
Qed.

Lemma map_outcome_complete : forall seqs bs,
  Forall2 (fun q b => exists z, q = complete b z) seqs bs -> Forall blob_ok bs ->
  map_outcome finish_pseq seqs = Ok bs.
Proof.
  induction seqs as [|q seqs IH]; intros bs H Hok; inversion H; subst; [reflexivity|].
  inversion Hok; subst. destruct H2 as (z & ->). cbn [map_outcome].
  rewrite finish_complete by assumption. cbn [bind]. rewrite (IH l'); [reflexivity|assumption|assumption].
Qed.

Lemma blobs_of_ok items : Forall item_ok items -> Forall blob_ok (blobs_of items).
Proof.
  induction items as [|it items IH]; intros H; [constructor|]. inversion H; subst.
  destruct it; cbn [blobs_of]; [constructor; [assumption|apply IH; assumption]| | |]; apply IH; assumption.
Qed.

Lemma Forall2_rev_intro {A B} (R : A -> B -> Prop) l1 l2 :
  Forall2 R l1 l2 -> Forall2 R (rev l1) (rev l2).
Proof.
  induction 1; cbn [rev]; [constructor|]. apply Forall2_app; [assumption|]. constructor; [assumption|constructor].
Qed.

(* C08: parsing what the writers rendered returns exactly the blobs written, in order *)
Theorem sparse_round_trip items shs : Forall item_ok items ->
  sparse_write_items [] items = Ok shs ->
  parse_blobs shs = Ok (blobs_of items).
Proof.
  intros Hok Hw.
  assert (Hc0 : collected [] []) by (split; [constructor|exists []; split; [reflexivity|constructor]]).
  destruct (collected_items items [] [] shs Hok Hc0 Hw) as (_ & seqs & Hparse & Hall).
  unfold parse_blobs. rewrite Hparse. cbn [bind app] in *.
  apply map_outcome_complete; [|apply blobs_of_ok, Hok].
  apply Forall2_rev_intro in Hall. rewrite rev_involutive in Hall. exact Hall.
Qed.
