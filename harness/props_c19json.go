package main

// C19, JSON text layer: Blob / Share / Namespace MarshalJSON and UnmarshalJSON against the
// Gallina model coq/Model/Json.v (base64, decimal numbers, the JSON subset documented there).
//
// Requests (also understood by runner/driver.ml; JSON texts travel as hex):
//   blobjson     <ns:ver:signer:data>   json.Marshal(*share.Blob)            hex of the text
//   blobunjson   <text>                 json.Unmarshal into a share.Blob     ok:<blob> | err
//   sharejson    <512 bytes | ->        json.Marshal(share.Share)            hex of the text
//   shareunjson  <text>                 json.Unmarshal into a share.Share    ok:<bytes> | err
//   nsjson       <29 bytes | ->         json.Marshal(share.Namespace)        hex of the text
//   nsunjson     <text>                 json.Unmarshal into a share.Namespace ok:<bytes> | err
//   jsonsubset   <text>                 the subset predicate of Model/Json.v  1 | 0
//   b64enc       <bytes>                base64.StdEncoding.EncodeToString     hex of the text
//   b64dec       <text>                 base64.StdEncoding.DecodeString       ok:<bytes> | err
//
// Every text sent to an un-marshalling request lies inside the subset (ASCII, no backslash, no
// '[' / ']' and at most one '{' outside string literals); texts outside it are sent to
// jsonsubset only.  b64dec texts contain no CR / LF (a JSON string cannot hold them unescaped).

import (
	"bytes"
	"encoding/base64"
	"encoding/json"
	"fmt"
	"strconv"
	"strings"

	"github.com/celestiaorg/go-square/v2/share"
)

func init() {
	generators["C19J"] = genC19J
	extraOps["blobjson"] = func(a []string) string {
		out, err := json.Marshal(blobOfString(a[0]))
		if err != nil {
			return "err"
		}
		return hx(out)
	}
	extraOps["blobunjson"] = func(a []string) string {
		var b share.Blob
		if err := json.Unmarshal(unhx(a[0]), &b); err != nil {
			return "err"
		}
		return "ok:" + showBlob(&b)
	}
	extraOps["sharejson"] = func(a []string) string {
		var sh share.Share
		if raw := unhx(a[0]); len(raw) != 0 {
			sh = sharesOf([][]byte{raw})[0]
		}
		out, err := json.Marshal(sh)
		if err != nil {
			return "err"
		}
		return hx(out)
	}
	extraOps["shareunjson"] = func(a []string) string {
		var sh share.Share
		if err := json.Unmarshal(unhx(a[0]), &sh); err != nil {
			return "err"
		}
		return "ok:" + hx(sh.ToBytes())
	}
	extraOps["nsjson"] = func(a []string) string {
		out, err := json.Marshal(nsOf(unhx(a[0])))
		if err != nil {
			return "err"
		}
		return hx(out)
	}
	extraOps["nsunjson"] = func(a []string) string {
		var ns share.Namespace
		if err := json.Unmarshal(unhx(a[0]), &ns); err != nil {
			return "err"
		}
		return "ok:" + hx(ns.Bytes())
	}
	extraOps["jsonsubset"] = func(a []string) string { return showBool(jsonInSubset(unhx(a[0]))) }
	extraOps["b64enc"] = func(a []string) string { return hx([]byte(base64.StdEncoding.EncodeToString(unhx(a[0])))) }
	extraOps["b64dec"] = func(a []string) string {
		out, err := base64.StdEncoding.DecodeString(string(unhx(a[0])))
		if err != nil {
			return "err"
		}
		return "ok:" + hx(out)
	}
}

// jsonInSubset mirrors Model/Json.v json_in_subset.
func jsonInSubset(t []byte) bool {
	inStr, braces := false, 0
	for _, c := range t {
		switch {
		case c >= 0x80 || c == '\\':
			return false
		case inStr:
			inStr = c != '"'
		case c == '"':
			inStr = true
		case c == '[' || c == ']':
			return false
		case c == '{':
			if braces != 0 {
				return false
			}
			braces = 1
		}
	}
	return true
}

// ---- JSON text construction ----

type jMember struct{ k, v string } // v is the raw text of the value

func b64q(b []byte) string { return `"` + base64.StdEncoding.EncodeToString(b) + `"` }

var jsonSpaces = []string{"", "", "", " ", "  ", "\t", "\n", "\r", "\r\n", " \t\n\r "}

func renderMembers(ms []jMember, ws func() string) string {
	var sb strings.Builder
	sb.WriteString(ws() + "{" + ws())
	for i, m := range ms {
		if i > 0 {
			sb.WriteString("," + ws())
		}
		sb.WriteString(`"` + m.k + `"` + ws() + ":" + ws() + m.v + ws())
	}
	sb.WriteString("}" + ws())
	return sb.String()
}

func noSpace() string { return "" }

// the members json.Marshal emits for a valid blob
func blobMembers(g genBlob) []jMember {
	ms := []jMember{{"namespace_id", b64q(g.ns[1:])}, {"data", b64q(g.data)}}
	if g.ver != 0 {
		ms = append(ms, jMember{"share_version", strconv.Itoa(int(g.ver))})
	}
	if g.signer != nil {
		ms = append(ms, jMember{"signer", b64q(g.signer)})
	}
	return ms
}

func foldCase(r *Rng, k string) string {
	b := []byte(k)
	for i, c := range b {
		if c >= 'a' && c <= 'z' && r.Bool(50) {
			b[i] = c - 32
		}
	}
	return string(b)
}

// scalar values in every syntactic form of the subset
var jsonNumberForms = []string{"0", "1", "7", "127", "128", "255", "256", "65536", "4294967295", "4294967296",
	"18446744073709551615", "18446744073709551616", "340282366920938463463374607431768211456",
	"-0", "-1", "-128", "0.0", "1.0", "1.5", "0.5", "1e0", "1E0", "1e+0", "1e-0", "0e0", "2E2", "1.25e3", "-1.5E-7", "10", "100", "9"}
var jsonBadNumbers = []string{"01", "00", "+1", "1.", ".5", "1e", "1e+", "1E-", "-", "--1", "1..2", "1e1.5", "0x10", "1_0", "1a", "Infinity", "NaN", "1e1e1"}

func unknownValue(r *Rng) string {
	switch r.Intn(6) {
	case 0:
		return "null"
	case 1:
		return "true"
	case 2:
		return "false"
	case 3:
		return pick(r, jsonNumberForms)
	case 4:
		return `"` + plainString(r, r.Intn(12)) + `"`
	default:
		return b64q(r.Bytes(r.Intn(9)))
	}
}

// printable ASCII without the double quote and the backslash (0x7f included: the scanner accepts it)
func plainString(r *Rng, n int) string {
	b := make([]byte, n)
	for i := range b {
		for {
			c := byte(0x20 + r.Intn(0x60))
			if c != '"' && c != '\\' {
				b[i] = c
				break
			}
		}
	}
	return string(b)
}

var unknownKeys = []string{"", "x", "id", "namespace", "namespaceid", "namespaceId", "namespace-id", "namespace_id ", " data", "dat", "data2",
	"shareVersion", "share version", "signers", "signer_", "blob", "DATA_", "Namespace_Version_", "type_id", "{", "}", "[1]", ":", ","}

// ---- bad base64 ----

func corruptBase64(r *Rng, b []byte) (text string, stillSame bool) {
	s := []byte(base64.StdEncoding.EncodeToString(b))
	switch r.Intn(12) {
	case 0: // a character outside the alphabet
		if len(s) > 0 {
			s[r.Intn(len(s))] = pick(r, []byte(" !#$%&'()*,-.:;<>?@[]^_`{|}~\x7f"))
		}
	case 1: // url-safe alphabet
		s = append(s, []byte("-_8=")...)
	case 2: // padding removed
		s = bytes.TrimRight(s, "=")
		if len(s)%4 == 0 {
			s = append(s, 'A')
		}
	case 3: // one '=' too many
		s = append(s, '=')
	case 4: // a complete quantum of padding appended
		s = append(s, []byte("====")...)
	case 5: // data after the padding
		s = append(append([]byte("AQ=="), s...), []byte("AQID")...)
	case 6: // '=' in the middle of a quantum
		s = append([]byte("A=ID"), s...)
	case 7: // '=' as the third character with a non-'=' fourth
		s = append(s, []byte("AQ=A")...)
	case 8: // white space inside
		pos := r.Intn(len(s) + 1)
		s = append(s[:pos:pos], append([]byte{' '}, s[pos:]...)...)
	case 9: // one character dropped
		if len(s) > 0 {
			pos := r.Intn(len(s))
			s = append(s[:pos:pos], s[pos+1:]...)
		}
	case 10: // a single character / two characters
		s = []byte(pick(r, []string{"A", "AQ", "AQI", "=", "==", "===", "====", "A===", "AQ=", "AQI=A", "AQ==AQ==", "AQ==="}))
	case 11: // non-zero unused bits in a padded final quantum: accepted (not strict), same bytes
		if len(b)%3 != 0 && len(s) >= 4 {
			i := len(s) - 2
			if len(b)%3 == 1 {
				i = len(s) - 3
			}
			const alpha = "ABCDEFGHIJKLMNOPQRSTUVWXYZabcdefghijklmnopqrstuvwxyz0123456789+/"
			v := strings.IndexByte(alpha, s[i])
			mask := 3
			if len(b)%3 == 1 {
				mask = 15
			}
			nv := v&^mask | (1 + r.Intn(mask))
			s[i] = alpha[nv]
			return `"` + string(s) + `"`, true
		}
		s = append(s, '*')
	}
	return `"` + string(s) + `"`, false
}

// ---- generator ----

func jsonTrailingGarbage() []string { return []string{"}", ",", " 1", "{}", "null", " x", "]", "\n{\"data\":\"AQ==\"}"} }

func genC19J(c *Ctx) {
	c.rule = "JSON text layer against the model (exact bytes of json.Marshal; outcome and value of json.Unmarshal): valid blobs v0/v1 with data lengths in all three base64 padding classes, shares and namespaces; the acceptance product {namespace version} x {id} x {data} x {share version} x {signer absent / null / empty / 19 / 20 / 21} as JSON texts; texts inside the model's subset with reordered members, unknown members, white space, folded key case, null values, duplicate keys, malformed base64, every number form, type confusion, structural errors, truncation and single-byte mutation; non-trivial = distinct (family, expectation, outcome) or distinct acceptance tuple"
	r := c.rng
	nss := blobNamespaces(r, 4)
	accepted, rejected := 0, 0

	// sendBlobText: one text for Blob.UnmarshalJSON.  want: "same" (must decode to g), "reject", "any"
	sendBlobText := func(family, text, want string, g *genBlob) {
		t := []byte(text)
		{
			// the method called DIRECTLY (encoding/json validates the whole text before it calls the method; a
			// direct caller has no such filter) must accept and refuse the same texts, with the same value
			var viaJSON, direct share.Blob
			jerr := json.Unmarshal(t, &viaJSON)
			derr := direct.UnmarshalJSON(t)
			c.check((derr == nil) == (jerr == nil) && (jerr != nil || showBlob(&direct) == showBlob(&viaJSON)), "Blob.UnmarshalJSON",
				"called directly it does not accept exactly what json.Unmarshal accepts", map[string]any{"family": family, "text_md5": digestList([][]byte{t})})
		}
		c.add("jsonsubset", hx(t))
		if !jsonInSubset(t) {
			if want != "any" {
				panic("harness: generated a JSON text outside the subset: " + text)
			}
			c.count("outside_subset_skipped")
			return
		}
		c.add("blobunjson", hx(t))
		var back share.Blob
		err := json.Unmarshal(t, &back)
		if err == nil {
			accepted++
		} else {
			rejected++
		}
		wit := map[string]any{"family": family, "text_md5": digestList([][]byte{t})}
		if len(text) < 300 {
			wit["text"] = text
		}
		switch want {
		case "same":
			c.check(err == nil && showBlob(&back) == g.spec(), "Blob.UnmarshalJSON", "a benign variation of a valid text is not decoded to the same blob", wit)
		case "reject":
			c.check(err != nil, "Blob.UnmarshalJSON", "accepted a text that must be rejected", wit)
		}
		c.count("family:" + family)
		c.mark(fmt.Sprint(family, want, err == nil))
	}

	// 1. round trips, exact bytes
	for i := 0; i < 150*c.scale; i++ {
		g := randBlob(r, nss, 2000)
		// force every padding class of the data
		if i < 30 {
			g.data = patterned(r, 1+i)
		} else if i%5 == 0 {
			g.data = patterned(r, 1998+i%3)
		}
		b := g.blob()
		wit := map[string]any{"blob": fmt.Sprintf("v%d len %d", g.ver, len(g.data))}
		c.count(fmt.Sprintf("datalen_mod3:%d", len(g.data)%3))
		c.count(fmt.Sprintf("share_version:%d", g.ver))
		c.add("blobjson", g.spec())
		js, err := json.Marshal(b)
		if c.check(err == nil, "Blob.MarshalJSON", "error", wit) {
			want := renderMembers(blobMembers(g), noSpace)
			c.check(string(js) == want, "Blob.MarshalJSON", "text differs from the hand-rendered object", wit)
			sendBlobText("canonical", string(js), "same", &g)
			if i%5 == 0 {
				// a complete valid object followed by more bytes is not a JSON document
				for _, tail := range jsonTrailingGarbage() {
					sendBlobText("trailing_bytes", string(js)+tail, "any", &g)
				}
			}
		}
		c.add("b64enc", hx(g.data))
		c.add("b64dec", hx([]byte(base64.StdEncoding.EncodeToString(g.data))))
		// share and namespace
		shs, _ := b.ToShares()
		raw := shs[r.Intn(len(shs))].ToBytes()
		c.add("sharejson", hx(raw))
		sj, err := json.Marshal(shs[0])
		var sback share.Share
		c.check(err == nil && json.Unmarshal(sj, &sback) == nil && bytes.Equal(sback.ToBytes(), shs[0].ToBytes()), "Share JSON", "round trip differs", wit)
		sj2, _ := json.Marshal(sharesOf([][]byte{raw})[0])
		c.add("shareunjson", hx(sj2))
		c.add("nsjson", hx(g.ns))
		nj, err := json.Marshal(b.Namespace())
		var nback share.Namespace
		c.check(err == nil && json.Unmarshal(nj, &nback) == nil && bytes.Equal(nback.Bytes(), g.ns), "Namespace JSON", "round trip differs", wit)
		c.add("nsunjson", hx(nj))
		c.mark("rt:" + g.spec()[:60])
	}
	// zero values and the reserved / version 255 namespaces
	c.add("sharejson", "-")
	c.add("nsjson", "-")
	for _, ns := range [][]byte{txNs, pfbNs, prpNs, tailNs, share.ParitySharesNamespace.Bytes(), share.IntermediateStateRootsNamespace.Bytes(), share.MinSecondaryReservedNamespace.Bytes()} {
		c.add("nsjson", hx(ns))
		nj, _ := json.Marshal(nsOf(ns))
		c.add("nsunjson", hx(nj))
		var nback share.Namespace
		c.check(json.Unmarshal(nj, &nback) == nil && bytes.Equal(nback.Bytes(), ns), "Namespace JSON", "round trip of a reserved namespace differs", map[string]any{"ns": hx(ns)})
	}

	// 2. the acceptance product as JSON texts
	goodID := append(make([]byte, 18), r.Bytes(10)...)
	badPrefix := append([]byte{}, goodID...)
	badPrefix[3] = 1
	type idCase struct {
		name string
		id   []byte
	}
	ids := []idCase{{"good", goodID}, {"len0", nil}, {"len27", goodID[:27]}, {"len29", append(append([]byte{}, goodID...), 1)}, {"badprefix", badPrefix}}
	for _, nsv := range []uint64{0, 1, 255, 256} {
		for _, id := range ids {
			for _, dl := range []int{0, 1} {
				for _, sv := range []uint64{0, 1, 2, 127, 128, 255, 256, 1<<32 - 1} {
					for _, sg := range []string{"absent", "null", "empty", "19", "20", "21"} {
						var ms []jMember
						switch {
						case id.id != nil:
							ms = append(ms, jMember{"namespace_id", b64q(id.id)})
						case r.Bool(30):
							ms = append(ms, jMember{"namespace_id", pick(r, []string{`""`, "null"})})
						}
						switch {
						case dl > 0:
							ms = append(ms, jMember{"data", b64q(bytes.Repeat([]byte{7}, dl))})
						case r.Bool(50):
							ms = append(ms, jMember{"data", pick(r, []string{`""`, "null"})})
						}
						if sv != 0 || r.Bool(50) {
							ms = append(ms, jMember{"share_version", strconv.FormatUint(sv, 10)})
						}
						if nsv != 0 || r.Bool(50) {
							ms = append(ms, jMember{"namespace_version", strconv.FormatUint(nsv, 10)})
						}
						signerOK := false
						switch sg {
						case "absent":
							signerOK = sv == 0
						case "null":
							ms = append(ms, jMember{"signer", "null"})
							signerOK = sv == 0
						case "empty":
							ms = append(ms, jMember{"signer", `""`})
						default:
							n, _ := strconv.Atoi(sg)
							ms = append(ms, jMember{"signer", b64q(bytes.Repeat([]byte{5}, n))})
							signerOK = sv == 1 && n == 20
						}
						want := nsv == 0 && id.name == "good" && dl == 1 && signerOK
						text := renderMembers(ms, noSpace)
						c.add("blobunjson", hx([]byte(text)))
						if !jsonInSubset([]byte(text)) {
							panic("harness: product text outside the subset")
						}
						var back share.Blob
						err := json.Unmarshal([]byte(text), &back)
						if err == nil {
							accepted++
						} else {
							rejected++
						}
						c.mark(fmt.Sprint("product", nsv, id.name, dl, sv, sg))
						c.count("family:product")
						c.check((err == nil) == want, "Blob.UnmarshalJSON", "does not accept exactly the valid combinations",
							map[string]any{"ns_version": nsv, "id": id.name, "data_len": dl, "share_version": sv, "signer": sg})
					}
				}
			}
		}
	}

	// 3. variations of valid texts, inside the subset
	for i := 0; i < 700*c.scale; i++ {
		g := randBlob(r, nss, 300)
		if r.Bool(10) {
			g = randBlob(r, nss, 2000)
		}
		ms := blobMembers(g)
		ws := noSpace
		if r.Bool(50) {
			ws = func() string { return pick(r, jsonSpaces) }
		}
		shuffle := func() {
			for k := len(ms) - 1; k > 0; k-- {
				j := r.Intn(k + 1)
				ms[k], ms[j] = ms[j], ms[k]
			}
		}
		insertAt := func(pos int, m jMember) {
			ms = append(ms[:pos:pos], append([]jMember{m}, ms[pos:]...)...)
		}
		find := func(k string) int {
			for j, m := range ms {
				if m.k == k {
					return j
				}
			}
			return -1
		}
		bytesKeys := []string{"namespace_id", "data"}
		if g.signer != nil {
			bytesKeys = append(bytesKeys, "signer")
		}
		fam := r.Intn(16)
		switch fam {
		case 0: // benign: order, white space, key case, unknown members, explicit zeros, null signer
			if r.Bool(60) {
				insertAt(r.Intn(len(ms)+1), jMember{"namespace_version", "0"})
			}
			if g.ver == 0 && r.Bool(60) {
				insertAt(r.Intn(len(ms)+1), jMember{"share_version", "0"})
			}
			if g.ver == 0 && r.Bool(60) {
				insertAt(r.Intn(len(ms)+1), jMember{"signer", "null"})
			}
			for k := r.Intn(4); k > 0; k-- {
				insertAt(r.Intn(len(ms)+1), jMember{pick(r, unknownKeys), unknownValue(r)})
			}
			shuffle()
			for j := range ms {
				if r.Bool(40) && find(ms[j].k) == j {
					ms[j].k = foldCase(r, ms[j].k)
				}
			}
			sendBlobText("benign", renderMembers(ms, ws), "same", &g)
		case 1: // duplicate key, an earlier valid value is overwritten
			k := pick(r, bytesKeys)
			j := find(k)
			insertAt(r.Intn(j+1), jMember{foldCase(r, k), pick(r, []string{b64q(r.Bytes(1 + r.Intn(40))), `""`, "null"})})
			sendBlobText("dup_overwritten", renderMembers(ms, ws), "same", &g)
		case 2: // duplicate number key: null after the value leaves it, a number before is overwritten
			if g.ver == 1 {
				j := find("share_version")
				if r.Bool(50) {
					insertAt(j+1+r.Intn(len(ms)-j), jMember{"share_version", "null"})
				} else {
					insertAt(r.Intn(j+1), jMember{"Share_Version", pick(r, []string{"0", "7", "4294967295", "null"})})
				}
				sendBlobText("dup_number", renderMembers(ms, ws), "same", &g)
			} else {
				insertAt(0, jMember{"share_version", "1"})
				ms = append(ms, jMember{"share_version", "null"}) // stays 1: no signer, rejected
				sendBlobText("dup_number", renderMembers(ms, ws), "reject", &g)
			}
		case 3: // a later null resets a byte field to nil
			k := pick(r, bytesKeys)
			ms = append(ms, jMember{k, "null"})
			sendBlobText("null_reset", renderMembers(ms, ws), "reject", &g)
		case 4: // malformed base64 (or harmless spare bits) in one byte field
			k := pick(r, bytesKeys)
			j := find(k)
			var raw []byte
			switch k {
			case "namespace_id":
				raw = g.ns[1:]
			case "data":
				raw = g.data
			default:
				raw = g.signer
			}
			txt, same := corruptBase64(r, raw)
			ms[j].v = txt
			if same {
				sendBlobText("base64_spare_bits", renderMembers(ms, ws), "same", &g)
			} else {
				sendBlobText("base64_bad", renderMembers(ms, ws), "reject", &g)
			}
		case 5: // malformed base64 in an EARLIER duplicate: still an error
			k := pick(r, bytesKeys)
			txt, same := corruptBase64(r, r.Bytes(1+r.Intn(10)))
			insertAt(0, jMember{k, txt})
			if same {
				sendBlobText("dup_overwritten", renderMembers(ms, ws), "same", &g)
			} else {
				sendBlobText("base64_bad_dup", renderMembers(ms, ws), "reject", &g)
			}
		case 6: // type confusion on a known key (also under a folded name)
			k := pick(r, []string{"namespace_id", "data", "signer", "share_version", "namespace_version"})
			var v string
			if k == "share_version" || k == "namespace_version" {
				v = pick(r, []string{`"0"`, `"1"`, `""`, "true", "false"})
			} else {
				v = pick(r, []string{"0", "1", "true", "false", "12.5"})
			}
			insertAt(r.Intn(len(ms)+1), jMember{foldCase(r, k), v})
			sendBlobText("type_confusion", renderMembers(ms, ws), "reject", &g)
		case 7: // every number form on a version field
			k := pick(r, []string{"share_version", "namespace_version"})
			v := pick(r, jsonNumberForms)
			if j := find(k); j >= 0 {
				ms = append(ms[:j:j], ms[j+1:]...)
			}
			ms = append(ms, jMember{k, v})
			want := "reject"
			if (k == "share_version" && v == strconv.Itoa(int(g.ver))) || (k == "namespace_version" && v == "0") {
				want = "same"
			}
			sendBlobText("number_form", renderMembers(ms, ws), want, &g)
		case 8: // tokens that are not numbers
			k := pick(r, []string{"share_version", "namespace_version", "x"})
			ms = append(ms, jMember{k, pick(r, jsonBadNumbers)})
			shuffle()
			sendBlobText("number_syntax", renderMembers(ms, ws), "reject", &g)
		case 9: // empty non-nil signer
			if j := find("signer"); j >= 0 {
				ms[j].v = `""`
			} else {
				insertAt(r.Intn(len(ms)+1), jMember{"signer", `""`})
			}
			sendBlobText("signer_empty", renderMembers(ms, ws), "reject", &g)
		case 10: // structural errors
			t := renderMembers(ms, ws)
			core := strings.TrimRight(t, " \t\r\n")
			switch r.Intn(14) {
			case 0:
				t = core[:len(core)-1] + ",}"
			case 1:
				t = strings.Replace(t, ":", " ", 1)
			case 2:
				t = strings.Replace(t, ",", " ", 1)
			case 3:
				t = core[:len(core)-1]
			case 4:
				t = strings.Replace(t, ",", ",,", 1)
			case 5:
				t = strings.Replace(t, "{", "{,", 1)
			case 6:
				t = strings.Replace(t, `"data"`, `data`, 1)
			case 7:
				t = strings.Replace(t, `"data"`, `'data'`, 1)
			case 8:
				t = core + pick(r, []string{"x", "}", ",", "null", `""`, "0", ":"})
			case 9:
				t = pick(r, []string{"", " ", "\n\t", "}", ":", ",", `"`, `{"`, `{"data"`, `{"data":`, `{"data":"`, "nul", "NULL", "True", "tru", "falsee", "nulll"})
			case 10:
				t = strings.Replace(t, `"data"`, "\"da\tta\"", 1) // raw control byte inside a string
			case 11:
				t = strings.Replace(t, ":", "::", 1)
			case 12:
				t = strings.Replace(t, `"data"`, `"data" "data"`, 1)
			case 13:
				t = core + pick(r, []string{"\x00", "\x0b", "\x0c", "\x1f", "\x7f", "#", "/", "'"})
			}
			sendBlobText("structure", t, "reject", &g)
		case 11: // truncation
			t := strings.TrimRight(renderMembers(ms, ws), " \t\r\n")
			sendBlobText("truncated", t[:r.Intn(len(t))], "reject", &g)
		case 12: // one byte replaced by a random ASCII byte
			t := []byte(renderMembers(ms, ws))
			t[r.Intn(len(t))] = byte(r.Intn(128))
			sendBlobText("mutated", string(t), "any", &g)
		case 13: // one byte inserted / deleted
			t := []byte(renderMembers(ms, ws))
			pos := r.Intn(len(t))
			if r.Bool(50) {
				t = append(t[:pos:pos], append([]byte{pick(r, []byte("\"{}:, =Aa0-.eE+ntf\x7f\t"))}, t[pos:]...)...)
			} else {
				t = append(t[:pos:pos], t[pos+1:]...)
			}
			sendBlobText("mutated", string(t), "any", &g)
		case 14: // known key under a folded name with a malformed value: the folded name is matched
			k := pick(r, bytesKeys)
			ms = append(ms, jMember{strings.ToUpper(k), `"!"`})
			sendBlobText("folded_key_bad_value", renderMembers(ms, ws), "reject", &g)
		case 15: // near-miss keys with values that would be fatal under the real key
			ms = append(ms, jMember{pick(r, unknownKeys), pick(r, []string{`"!"`, "1.5", "true", `"="`, "4294967296"})})
			shuffle()
			sendBlobText("near_miss_key", renderMembers(ms, ws), "same", &g)
		}
	}
	// top-level scalars into a Blob
	for _, t := range []string{"null", " null ", "true", "false", "0", "12", "-1.5e3", `""`, `"abc"`, `"AQID"`, "{}", " { } ", "{}x", "nul", "{\"data\":null}"} {
		g := genBlob{}
		sendBlobText("top_level", t, "reject", &g)
	}

	// 4. shares and namespaces
	sendBytesText := func(op, family, text string, wantOK bool, checkWant bool) {
		t := []byte(text)
		c.add("jsonsubset", hx(t))
		if !jsonInSubset(t) {
			if checkWant {
				panic("harness: generated a JSON text outside the subset: " + text)
			}
			c.count("outside_subset_skipped")
			return
		}
		c.add(op, hx(t))
		got := safeExec(op, []string{hx(t)})
		if strings.HasPrefix(got, "ok:") {
			accepted++
		} else {
			rejected++
		}
		c.count("family:" + op + "/" + family)
		c.mark(fmt.Sprint(op, family, strings.HasPrefix(got, "ok:")))
		if checkWant {
			c.check(strings.HasPrefix(got, "ok:") == wantOK, op, "acceptance differs from the expectation for this family", map[string]any{"family": family, "text_md5": digestList([][]byte{t})})
		}
	}
	wsAround := func(s string) string { return pick(r, jsonSpaces) + s + pick(r, jsonSpaces) }
	for i := 0; i < 60*c.scale; i++ {
		raw := r.Bytes(512)
		sendBytesText("shareunjson", "valid", wsAround(b64q(raw)), true, true)
		sendBytesText("shareunjson", "length", b64q(r.Bytes(pick(r, []int{0, 1, 2, 3, 29, 510, 511, 513, 514, 1024}))), false, true)
		txt, same := corruptBase64(r, raw)
		sendBytesText("shareunjson", "base64", txt, same, true)
		sendBytesText("shareunjson", "scalar", wsAround(pick(r, []string{"null", "true", "false", "0", "512", "1.5", "{}", `{"data":null}`, `""`})), false, true)
		mt := []byte(b64q(raw))
		mt[r.Intn(len(mt))] = byte(r.Intn(128))
		sendBytesText("shareunjson", "mutated", string(mt), false, false)

		ns := pick(r, [][]byte{pick(r, nss), txNs, pfbNs, tailNs, share.ParitySharesNamespace.Bytes()})
		sendBytesText("nsunjson", "valid", wsAround(b64q(ns)), true, true)
		bad := append([]byte{}, ns...)
		wantNs := false
		switch r.Intn(6) {
		case 0:
			bad[0] = byte(1 + r.Intn(254)) // unsupported version
		case 1:
			bad = bad[:28]
		case 2:
			bad = append(bad, 0)
		case 3:
			bad = append([]byte{0}, append(bytes.Repeat([]byte{0}, 17), r.Bytes(11)...)...)
			bad[1+r.Intn(18)] = 1 // version 0 with a non-zero prefix byte
		case 4:
			bad = append([]byte{255}, r.Bytes(28)...) // version 255: any id
			wantNs = true
		case 5:
			bad = nil
		}
		sendBytesText("nsunjson", "invalid", b64q(bad), wantNs, true)
		txt, same = corruptBase64(r, ns)
		sendBytesText("nsunjson", "base64", txt, same, true)
		sendBytesText("nsunjson", "scalar", wsAround(pick(r, []string{"null", "true", "false", "0", "29", "{}", `""`})), false, true)
		mt = []byte(b64q(ns))
		mt[r.Intn(len(mt))] = byte(r.Intn(128))
		sendBytesText("nsunjson", "mutated", string(mt), false, false)
	}

	// 5. base64 alone, on printable texts (no CR / LF)
	for i := 0; i < 200*c.scale; i++ {
		b := r.Bytes(r.Intn(40))
		c.add("b64enc", hx(b))
		txt, _ := corruptBase64(r, b)
		c.add("b64dec", hx([]byte(strings.Trim(txt, `"`))))
		c.add("b64dec", hx([]byte(plainString(r, 4*r.Intn(4)))))
	}

	// 6. the subset predicate itself on texts outside the subset (not sent to the decoders)
	for _, t := range []string{`{"data":"\` + `u0041"}`, `"\n"`, `[1,2]`, `{"x":[1]}`, `{"x":{}}`, `{"x":{"y":1}}`, "{\"d\xc3\xa4ta\":1}", `"["`, `"{"`, `{"{":"{"}`, `{}{}`, `]`, "\"\x80\"", `{"a":"]"}`} {
		c.add("jsonsubset", hx([]byte(t)))
	}
	c.dist["texts_accepted_by_go"] = accepted
	c.dist["texts_rejected_by_go"] = rejected
}
