(* C09 (code model) - Transactions survive the compact-share encoding round trip.
   Statements only; proofs in Proofs/CompactE2EProofs.v.

   End-to-end statement about the code model: writer (CompactWriterProofs: NewCompactShareSplitter,
   WriteTx, Export and Count of Model/Compact.v never fail and export the closed form
   [compact_spec_ix]; SplitterHistoryProofs: the same after any history of writes, exports and
   counts) + parser (CompactParseProofs.parse_txs_compact_spec: ParseTxs on the closed form).
   C09.v / C10.v state the two halves with the closed form in the middle; here the closed form
   has been eliminated: the statements mention only

     new_csplitter ns 0        NewCompactShareSplitter(ns, 0)
     write_txs c0 txs          WriteTx(tx) for each tx of txs, in order   (Model/Builder.v)
     run c0 ops                a history over {WriteTx, Export, Count}    (SplitterHistoryProofs)
     cs_export c, cs_count c   Export(), Count()
     parse_txs shs             share.ParseTxs(shs)
     sh_start, sh_seq_len      Share.IsSequenceStart, Share.SequenceLen
     available_compact k       AvailableBytesFromCompactShares(k)         (Model/Counter.v)
     compact_shares_needed n   CompactSharesNeeded(n)

   and [stream txs], the concatenation of the length-prefixed transactions
   (marshal_delimited tx = uvarint(len tx) ++ tx).

   Conditions: any 29-byte compact namespace (there are two: transactions, pay-for-blobs);
   every transaction non-empty (an empty one is written as the single byte 00, which the
   parser reads as the end of the data); the length-prefixed bytes fit the 32-bit sequence
   length field.  The empty list is included (no shares; no shares parse to no transactions). *)
From Coq Require Import List Arith NArith ZArith.
From GS.Model Require Import Base Varint Namespace ShareFmt Compact Counter Builder.
From GS.Spec Require Import ShareSpec CompactSpec.
From GS.Proofs Require Import SplitterHistoryProofs CompactE2EProofs.
Import ListNotations.
Open Scope nat_scope.

(* The property: construction, the writes and the export succeed; parsing the exported shares
   returns exactly the transactions, in order; the first share is the only sequence start and
   its sequence-length field is the total number of length-prefixed transaction bytes; the
   number of shares is Count() and it is the minimum that holds those bytes:
     available (n - 1) < bytes <= available n,  no k with bytes <= available k is below n,
     and n = CompactSharesNeeded(bytes). *)
Theorem C09_code_round_trip : forall ns txs,
  length ns = 29 -> is_compact_ns ns = true -> Forall (fun t => t <> []) txs ->
  (lenN (stream txs) < 4294967296)%N ->
  exists c0 c c' shs,
    new_csplitter ns 0 = Ok c0 /\ write_txs c0 txs = Ok c /\ cs_export c = Ok (c', shs) /\
    parse_txs shs = Ok txs /\
    (forall sh rest, shs = sh :: rest ->
       sh_start sh = true /\ sh_seq_len sh = lenN (stream txs) /\
       Forall (fun x => sh_start x = false /\ sh_seq_len x = 0%N) rest) /\
    lenN shs = cs_count c /\
    ((Z.of_nat (length (stream txs)) <= available_compact (Z.of_nat (length shs)))%Z /\
     (0 < length shs ->
        (available_compact (Z.of_nat (length shs) - 1) < Z.of_nat (length (stream txs)))%Z) /\
     (forall k : nat, (Z.of_nat (length (stream txs)) <= available_compact (Z.of_nat k))%Z ->
        length shs <= k) /\
     N.of_nat (length shs) = compact_shares_needed (N.of_nat (length (stream txs)))).
Proof. exact compact_round_trip_code_total. Qed.
Print Assumptions C09_code_round_trip.

(* the last conjunct above is [min_share_count (length shs) (length (stream txs))] *)
Theorem C09_code_min_share_count_def : forall n len,
  min_share_count n len <->
  ((Z.of_nat len <= available_compact (Z.of_nat n))%Z /\
   (0 < n -> (available_compact (Z.of_nat n - 1) < Z.of_nat len)%Z) /\
   (forall k : nat, (Z.of_nat len <= available_compact (Z.of_nat k))%Z -> n <= k) /\
   N.of_nat n = compact_shares_needed (N.of_nat len)).
Proof. exact (fun n len => iff_refl _). Qed.
Print Assumptions C09_code_min_share_count_def.

(* the same in the form "whatever the writer returned" *)
Theorem C09_code_round_trip_any : forall ns txs c0 c c' shs,
  length ns = 29 -> is_compact_ns ns = true -> Forall (fun t => t <> []) txs ->
  (lenN (stream txs) < 4294967296)%N ->
  new_csplitter ns 0 = Ok c0 -> write_txs c0 txs = Ok c -> cs_export c = Ok (c', shs) ->
  parse_txs shs = Ok txs /\
  (forall sh rest, shs = sh :: rest ->
     sh_start sh = true /\ sh_seq_len sh = lenN (stream txs) /\
     Forall (fun x => sh_start x = false /\ sh_seq_len x = 0%N) rest) /\
  lenN shs = cs_count c /\
  min_share_count (length shs) (length (stream txs)).
Proof. exact compact_round_trip_code. Qed.
Print Assumptions C09_code_round_trip_any.

(* After ANY history of WriteTx / Export / Count on a fresh splitter ([writes_of ops] are the
   transactions written, in order): the history and a final Export succeed, and the final
   export parses back to exactly the written transactions, with the same sequence length,
   count and minimality.  Exports and counts in between change nothing. *)
Theorem C09_code_history : forall ns ops,
  length ns = 29 -> is_compact_ns ns = true -> Forall (fun t => t <> []) (writes_of ops) ->
  (lenN (stream (writes_of ops)) < 4294967296)%N ->
  exists c0 c1 x1 shs,
    new_csplitter ns 0 = Ok c0 /\ run c0 ops = Ok c1 /\ cs_export c1 = Ok (x1, shs) /\
    parse_txs shs = Ok (writes_of ops) /\
    (forall sh rest, shs = sh :: rest ->
       sh_start sh = true /\ sh_seq_len sh = lenN (stream (writes_of ops)) /\
       Forall (fun x => sh_start x = false /\ sh_seq_len x = 0%N) rest) /\
    lenN shs = cs_count c1 /\
    min_share_count (length shs) (length (stream (writes_of ops))).
Proof. exact compact_round_trip_history_total. Qed.
Print Assumptions C09_code_history.

Theorem C09_code_history_any : forall ns ops c0 c1 x1 shs,
  length ns = 29 -> is_compact_ns ns = true -> Forall (fun t => t <> []) (writes_of ops) ->
  (lenN (stream (writes_of ops)) < 4294967296)%N ->
  new_csplitter ns 0 = Ok c0 -> run c0 ops = Ok c1 -> cs_export c1 = Ok (x1, shs) ->
  parse_txs shs = Ok (writes_of ops) /\
  (forall sh rest, shs = sh :: rest ->
     sh_start sh = true /\ sh_seq_len sh = lenN (stream (writes_of ops)) /\
     Forall (fun x => sh_start x = false /\ sh_seq_len x = 0%N) rest) /\
  lenN shs = cs_count c1 /\
  min_share_count (length shs) (length (stream (writes_of ops))).
Proof. exact compact_round_trip_history. Qed.
Print Assumptions C09_code_history_any.

(* write_txs is the history that consists of the writes only *)
Theorem C09_code_writes_are_a_history : forall txs c,
  run c (map SWrite txs) = write_txs c txs.
Proof. exact run_writes. Qed.
Print Assumptions C09_code_writes_are_a_history.

(* ---- non-vacuity: concrete lists through the writer model, by computation ---- *)

(* Count() before the export, and the exported shares *)
Definition code_run (ns : namespace) (txs : list bytes) : outcome (N * list share) :=
  do c0 <- new_csplitter ns 0; do c <- write_txs c0 txs; do r <- cs_export c;
  Ok (cs_count c, snd r).
Definition code_run_ops (ns : namespace) (ops : list sop) : outcome (N * list share) :=
  do c0 <- new_csplitter ns 0; do c <- run c0 ops; do r <- cs_export c;
  Ok (cs_count c, snd r).

(* a unit ending exactly at the end of the first share (474 stream bytes), a unit whose
   length prefix starts the second share, and a unit spanning three shares *)
Definition c09c_txs1 : list bytes := [repeat Byte.x01 472; repeat Byte.x02 10; repeat Byte.x03 1000].
(* the 2-byte length prefix of the second unit straddles shares 0 and 1 *)
Definition c09c_txs2 : list bytes := [repeat Byte.x01 471; repeat Byte.x02 200].
(* the D3 witness of C11: a 2000-byte transaction spanning shares 0..4 *)
Definition c09c_txs3 : list bytes := [repeat Byte.x03 10; repeat Byte.x03 2000; repeat Byte.x03 20].

Example C09_code_example_hyps :
  length tx_ns = 29 /\ is_compact_ns tx_ns = true /\
  length pfb_ns = 29 /\ is_compact_ns pfb_ns = true /\
  Forall (fun t => t <> []) c09c_txs1 /\ (lenN (stream c09c_txs1) < 4294967296)%N.
Proof.
  repeat split; try (vm_compute; reflexivity).
  repeat constructor; discriminate.
Qed.

Example C09_code_example_three_txs :
  match code_run tx_ns c09c_txs1 with
  | Ok (cnt, shs) =>
      parse_txs shs = Ok c09c_txs1 /\ cnt = 4%N /\ length shs = 4 /\
      lenN (stream c09c_txs1) = 1487%N /\ map sh_seq_len shs = [1487; 0; 0; 0]%N /\
      map sh_start shs = [true; false; false; false] /\
      available_compact 3 = 1430%Z /\ available_compact 4 = 1908%Z
  | _ => False
  end.
Proof. vm_compute. repeat split. Qed.

Example C09_code_example_straddling_prefix :
  match code_run pfb_ns c09c_txs2 with
  | Ok (cnt, shs) =>
      parse_txs shs = Ok c09c_txs2 /\ cnt = 2%N /\ length shs = 2 /\
      map sh_seq_len shs = [675; 0]%N /\ lenN (stream c09c_txs2) = 675%N
  | _ => False
  end.
Proof. vm_compute. repeat split. Qed.

Example C09_code_example_d3_list :
  match code_run tx_ns c09c_txs3 with
  | Ok (cnt, shs) =>
      parse_txs shs = Ok c09c_txs3 /\ cnt = 5%N /\ length shs = 5 /\
      map sh_seq_len shs = [2034; 0; 0; 0; 0]%N /\ lenN (stream c09c_txs3) = 2034%N
  | _ => False
  end.
Proof. vm_compute. repeat split. Qed.

(* exact fill (474 stream bytes: one share, no empty trailing share) and the empty list *)
Example C09_code_example_exact_fill_and_empty :
  match code_run tx_ns [repeat Byte.x01 472], code_run pfb_ns [] with
  | Ok (cnt, shs), Ok (cnt0, shs0) =>
      parse_txs shs = Ok [repeat Byte.x01 472] /\ cnt = 1%N /\ length shs = 1 /\
      map sh_seq_len shs = [474%N] /\ available_compact 1 = 474%Z /\
      shs0 = [] /\ cnt0 = 0%N /\ parse_txs shs0 = Ok []
  | _, _ => False
  end.
Proof. vm_compute. repeat split. Qed.

(* a history with counts and (repeated) exports between the writes: same outcome *)
Definition c09c_ops : list sop :=
  [SCount; SExport; SWrite (repeat Byte.x01 472); SExport; SExport; SWrite (repeat Byte.x02 10);
   SCount; SExport; SWrite (repeat Byte.x03 1000); SExport; SCount].
Example C09_code_example_history :
  writes_of c09c_ops = c09c_txs1 /\
  match code_run_ops tx_ns c09c_ops, code_run tx_ns c09c_txs1 with
  | Ok (cnt, shs), Ok (cnt', shs') =>
      parse_txs shs = Ok c09c_txs1 /\ cnt = 4%N /\ map sh_seq_len shs = [1487; 0; 0; 0]%N /\
      shs = shs'
  | _, _ => False
  end.
Proof. vm_compute. repeat split. Qed.
