(* More straight-line functions of the regenerated GoLite program (Gen/Generated.v) against the
   hand-written model: the info byte (ShareFmt / Helpers), the builder's capacity test and getters
   (Builder), share ranges (Helpers) and rawTxSize (Varint.delim_len). *)
From Coq Require Import Lia ZArith NArith List String ZifyN ZifyNat ZifyBool.
From GS.Model Require Import Base Varint ShareFmt Counter Arith Builder Helpers GoLite.
From GS.Proofs Require Import BaseLemmas VarintProofs HelpersProofs GoLiteLemmas.
From GS.Gen Require Import Generated.
From GS.GenProofs Require Import GenLink.
Open Scope string_scope. Open Scope Z_scope.

(* Z.eqb / Z.ltb are [simpl never] (GoLiteLemmas); decide the tests on literals that symbolic
   execution leaves behind *)
Ltac kz :=
  repeat first [ progress change (0 =? 0) with true
               | progress change (1 =? 0) with false
               | progress change (2 =? 0) with false
               | progress change (1 <? 0) with false ];
  cbn.


(* int64 range and wrap (shared by the builder and range lemmas) *)
Definition in_i64 (z : Z) : Prop := - 2^63 <= z < 2^63.

Lemma in_i64_wrap z : in_i64 z -> wrap I64 z = z.
Proof. intros H. apply wrap_I64_small. exact H. Qed.

