(* C17 - Read-only operations do not modify their inputs and are race-free.
   Statements only.

   What is proved here, on the explicit-memory model (Model/Mem.v: heap of blocks,
   slices = (block, offset, len, cap), in-place append within capacity, access log):
     - ParseBlobs, Sequence.RawData, extractRawData, parseDelimiter (in the context it
       is called from) and ParseTxs leave every pre-existing block unchanged and write
       only to blocks they allocated - for EVERY heap, EVERY list of views (any blocks,
       offsets, capacities, overlapping or adjacent), every allocator growth policy;
     - ParseBlobs, Sequence.RawData, extractRawData, parseDelimiter and ParseTxs on
       512-byte views return what the pure models (Model/Sparse.v, Square.v, Compact.v,
       Varint.v) return on the bytes the views denote;
     - the code before the repair of defect D7 does overwrite its input (witness);
     - threads that keep the discipline "write only what you allocated" never conflict,
       leave the shared blocks unchanged and compute their solo results, under ANY
       interleaving of their atomic steps; N concurrent ParseBlobs calls are such threads.
   Not proved (partial): the Go memory model and scheduler are not formalised; for all
   other read paths the Gallina model is pure by construction and the tie is the arena /
   race-detector oracle of the correspondence check. *)
From Coq Require Import List NArith.
From GS.Model Require Import Base Varint Namespace ShareFmt Blob Sparse Compact Square Mem.
From GS.Proofs Require Import MemProofs.
Import ListNotations.
Open Scope nat_scope.

(* [run_read_only m h] : started in heap h with an empty log, the final heap restricted to
   the initial block ids equals h, and every W entry of the log targets a block id that
   did not exist in h. *)

Theorem C17_parse_blobs_mem_readonly : forall g h views,
  run_read_only (parse_blobs_mem g views) h /\
  (Forall (view_ok h) views ->
   snd (parse_blobs_mem g views (mk_st h [])) = parse_blobs (map (mread_bytes h) views)).
Proof. exact parse_blobs_mem_readonly. Qed.
Print Assumptions C17_parse_blobs_mem_readonly.

(* Sequence.RawData: read-only, and = the pure sequence_raw_data (Model/Square.v) *)
Theorem C17_sequence_raw_data_mem_correct : forall g h ns views,
  run_read_only (sequence_raw_data_mem g views) h /\
  (Forall (view_ok h) views ->
   snd (sequence_raw_data_mem g views (mk_st h [])) =
   sequence_raw_data (mk_seq ns (map (mread_bytes h) views))).
Proof. exact sequence_raw_data_mem_correct. Qed.
Print Assumptions C17_sequence_raw_data_mem_correct.

(* extractRawData: read-only, and the buffer it returns holds the pure extract_raw_data *)
Theorem C17_extract_raw_data_mem_readonly : forall g h views,
  run_read_only (extract_raw_data_mem g false views nil_slice) h.
Proof. exact extract_raw_data_mem_readonly. Qed.
Print Assumptions C17_extract_raw_data_mem_readonly.

Theorem C17_extract_raw_data_mem_refines : forall g h views,
  Forall (view_ok h) views ->
  outcome_rel (fun acc' rest =>
      mread_bytes (st_heap (fst (extract_raw_data_mem g false views nil_slice (mk_st h [])))) acc' = rest)
    (snd (extract_raw_data_mem g false views nil_slice (mk_st h [])))
    (extract_raw_data false (map (mread_bytes h) views)).
Proof. exact extract_raw_data_mem_refines. Qed.
Print Assumptions C17_extract_raw_data_mem_refines.

(* parseDelimiter writes zero padding behind input[:l]; harmless whenever the input lives
   in a block that did not exist initially (or has no capacity) ... *)
Theorem C17_parse_delimiter_mem_readonly : forall g n0 input st,
  n0 <= length (st_heap st) -> safe n0 input -> Forall (wfresh n0) (st_log st) ->
  firstn n0 (st_heap (fst (parse_delimiter_mem g input st))) = firstn n0 (st_heap st) /\
  Forall (wfresh n0) (st_log (fst (parse_delimiter_mem g input st))).
Proof. exact parse_delimiter_mem_readonly. Qed.
Print Assumptions C17_parse_delimiter_mem_readonly.

(* parseDelimiter on a buffer slice (nil, or inside a block, in a block >= n0 or without
   capacity): the first n0 blocks are unchanged, no block shrinks, every byte of an existing
   block in front of the END of the input is unchanged (the padding lands behind it), and the
   result is the pure parse_delimiter (Model/Varint.v) of the bytes of the input *)
Theorem C17_parse_delimiter_mem_refines : forall n0 g input st,
  n0 <= length (st_heap st) -> safe n0 input -> acc_ok (st_heap st) input ->
  forall r, r = parse_delimiter_mem g input st ->
  firstn n0 (st_heap (fst r)) = firstn n0 (st_heap st) /\
  length (st_heap st) <= length (st_heap (fst r)) /\
  stable_below (st_heap st) (st_heap (fst r)) input /\
  noshrink (st_heap st) (st_heap (fst r)) /\
  delim_rel (st_heap st) n0 input (snd r) (parse_delimiter (mread_bytes (st_heap st) input)).
Proof. exact parse_delimiter_mem_refines. Qed.
Print Assumptions C17_parse_delimiter_mem_refines.

(* ... which is the case in ParseTxs: its input is the buffer built by extractRawData.
   ParseTxs: read-only, and = the pure parse_txs (Model/Compact.v) *)
Theorem C17_parse_txs_mem_correct : forall g h views,
  run_read_only (parse_txs_mem g views) h /\
  (Forall (view_ok h) views ->
   snd (parse_txs_mem g views (mk_st h [])) = parse_txs (map (mread_bytes h) views)).
Proof. exact parse_txs_mem_correct. Qed.
Print Assumptions C17_parse_txs_mem_correct.

(* the model can express the defect: the pre-fix parser changes a pre-existing block *)
Theorem C17_parse_blobs_mem_legacy_refuted :
  exists (h : heap) (views : list slice),
    Forall (view_ok h) views /\
    (exists v1 v2, In v1 views /\ In v2 views /\ sl_blk v1 = sl_blk v2 /\ sl_off v2 = sl_off v1 + sl_len v1) /\
    let st' := fst (parse_blobs_mem_legacy grow_double views (mk_st h [])) in
    first_diff 0 (hblock h 0) (hblock (st_heap st') 0) = Some 512 /\
    firstn (length h) (st_heap st') <> h /\
    log_writes_below (length h) (st_log st') = true /\
    firstn (length h) (st_heap (fst (parse_blobs_mem grow_double views (mk_st h [])))) = h.
Proof. exact parse_blobs_mem_legacy_refuted. Qed.
Print Assumptions C17_parse_blobs_mem_legacy_refuted.

(* any interleaving of disciplined threads *)
Theorem C17_read_only_interleave :
  forall (L : Type) (Inv : L -> Prop) (h0 : heap) (ths : list (list (@tstep L) * @tconf L)) (sched : list nat),
    Forall (thread_ok Inv (length h0)) ths ->
    let final := run_sched (length h0) sched (h0, ths) in
    fst final = h0 /\
    length (snd final) = length ths /\
    (forall i rest c, nth_error (snd final) i = Some (rest, c) ->
       exists steps c0 done, nth_error ths i = Some (steps, c0) /\ steps = done ++ rest /\
         run_alone (length h0) h0 done c0 = (h0, c)) /\
    (forall i j ri ci rj cj a b,
       nth_error (snd final) i = Some (ri, ci) -> nth_error (snd final) j = Some (rj, cj) ->
       In a (tc_log ci) -> In b (tc_log cj) -> ~ conflict (length h0) i a j b).
Proof. intros L Inv. exact (read_only_interleave Inv). Qed.
Print Assumptions C17_read_only_interleave.

Theorem C17_read_only_interleave_complete :
  forall (L : Type) (Inv : L -> Prop) h0 (ths : list (list (@tstep L) * @tconf L)) sched i steps c0 c,
    Forall (thread_ok Inv (length h0)) ths ->
    nth_error ths i = Some (steps, c0) ->
    nth_error (snd (run_sched (length h0) sched (h0, ths))) i = Some ([], c) ->
    run_alone (length h0) h0 steps c0 = (h0, c).
Proof. intros L Inv. exact (read_only_interleave_complete Inv). Qed.
Print Assumptions C17_read_only_interleave_complete.

(* N concurrent ParseBlobs calls, one atomic step per share *)
Theorem C17_parse_blobs_concurrent : forall g h0 views n sched,
  Forall (view_ok h0) views ->
  let final := run_sched (length h0) sched (h0, repeat (pb_thread g views, pb_start) n) in
  fst final = h0 /\
  (forall i c, nth_error (snd final) i = Some ([], c) ->
     tc_loc c = PBDone (parse_blobs (map (mread_bytes h0) views))) /\
  (forall i j ri ci rj cj a b,
     nth_error (snd final) i = Some (ri, ci) -> nth_error (snd final) j = Some (rj, cj) ->
     In a (tc_log ci) -> In b (tc_log cj) -> ~ conflict (length h0) i a j b).
Proof. exact parse_blobs_concurrent. Qed.
Print Assumptions C17_parse_blobs_concurrent.

(* non-vacuity *)
Example C17_witness_repaired :
  let r := parse_blobs_mem grow_double d7_views (mk_st [d7_arena] []) in
  st_heap (fst r) <> [d7_arena] /\
  firstn 1 (st_heap (fst r)) = [d7_arena] /\
  snd r = Ok [d7_blob] /\
  log_writes_below 1 (st_log (fst r)) = false /\
  existsb (fun a => match a_kind a with AW => true | AR => false end) (st_log (fst r)) = true.
Proof. exact parse_blobs_mem_witness. Qed.

Example C17_witness_views :
  Forall (view_ok [d7_arena]) d7_views /\ parse_blobs (map (mread_bytes [d7_arena]) d7_views) = Ok [d7_blob].
Proof. exact parse_blobs_refines_witness. Qed.

Example C17_witness_concurrent :
  let ths := repeat (pb_thread grow_double d7_views, pb_start) 3 in
  let final := run_sched 1 [0;1;2;2;1;0;0;0;1;2;2;1] ([d7_arena], ths) in
  fst final = [d7_arena] /\
  map (fun th => (length (fst th), tc_loc (snd th))) (snd final) = repeat (0, PBDone (Ok [d7_blob])) 3 /\
  map (fun th => length (tc_priv (snd th))) (snd final) = [3; 3; 3].
Proof. exact parse_blobs_concurrent_witness. Qed.

Example C17_witness_legacy_not_disciplined :
  ~ disciplined (fun _ : unit => True) 1
      (fun s => (fst (parse_blobs_mem_legacy grow_double d7_views (fst s)), tt)).
Proof. exact legacy_step_not_disciplined. Qed.

Example C17_witness_sequence_raw_data :
  snd (sequence_raw_data_mem grow_double d7_views (mk_st [d7_arena] [])) = Ok (b_data d7_blob).
Proof. exact sequence_raw_data_mem_witness. Qed.

(* ParseTxs on three compact shares in one block: the zero padding of parseDelimiter is an
   in-place write at offset 1430 of the private buffer (block 3); block 0 is untouched *)
Example C17_witness_parse_txs :
  let r := parse_txs_mem grow_double txw_views (mk_st [txw_arena] []) in
  Forall (view_ok [txw_arena]) txw_views /\
  map (mread_bytes [txw_arena]) txw_views = txw_shares /\
  snd r = Ok [txw_tx] /\
  firstn 1 (st_heap (fst r)) = [txw_arena] /\
  map (@length byte) (st_heap (fst r)) = [1536; 474; 952; 1904] /\
  existsb (fun a => match a_kind a with
                    | AW => Nat.eqb (a_blk a) 3 && Nat.eqb (a_off a) 1430 && Nat.eqb (a_len a) 6
                    | AR => false
                    end) (st_log (fst r)) = true.
Proof. exact parse_txs_mem_witness. Qed.
