//go:build race

package main

// raceEnabled reports whether this binary was built with the race detector.
const raceEnabled = true
