(* GoLite: a deep embedding of the integer fragment of Go that the pure arithmetic
   functions of go-square are written in, with an executable fuel-indexed semantics.

   bin/go2coq (a translator written with go/ast + go/types) prints the bodies of the
   selected functions of /repo as values of type [fundef]; it does that again on every
   run of a check, so the theorems of GenProofs/ are re-checked against what the source
   says now.  This file is the semantics those theorems are about; it is written by hand
   and is part of the trusted base (section 4 of DESIGN.md): it says what +, /, <<, a
   conversion, an if, a for and a call mean for Go's fixed-width integers.

   Values are integers (Z).  Every arithmetic node carries the Go type it was checked
   at, and its result is wrapped to that type (two's complement).  bool is 0/1, an
   error value is 0 (nil) / 1 (non-nil).  A division by zero or a negative shift count
   is the outcome [Flt] (a Go panic).  Running out of fuel is [Fuel], never a value.
   Definitions only. *)
From Coq Require Export String ZArith List.
Export ListNotations.
Open Scope Z_scope.

Inductive ity := I64 | U64 | U32 | U8 | IBool | IErr | IParam.

(* [tp] is the instantiation of the type parameter of the generic function being run *)
Definition resolve (tp t : ity) : ity := match t with IParam => tp | _ => t end.

Definition wrap (t : ity) (z : Z) : Z :=
  match t with
  | I64 => (z + 9223372036854775808) mod 18446744073709551616 - 9223372036854775808
  | U64 => z mod 18446744073709551616
  | U32 => z mod 4294967296
  | U8 => z mod 256
  | IBool | IErr | IParam => z
  end.

Inductive binop := OAdd | OSub | OMul | OQuo | ORem | OShl | OShr | OAnd | OOr | OXor.
Inductive cmpop := CLt | CLe | CGt | CGe | CEq | CNe.

Inductive expr :=
| EConst (z : Z)
| EVar (x : string)
| EBin (t : ity) (o : binop) (a b : expr)
| ECmp (o : cmpop) (a b : expr)
| ENot (a : expr)
| EAndAlso (a b : expr)
| EOrElse (a b : expr)
| EConv (t : ity) (a : expr)
| ECall (f : string) (targ : ity) (args : list expr).

Inductive stmt :=
| SSkip
| SSeq (s1 s2 : stmt)
| SAssign (x : string) (e : expr)
| SCall (xs : list string) (f : string) (targ : ity) (args : list expr)
| SIf (c : expr) (s1 s2 : stmt)
| SFor (c : expr) (body : stmt)
| SReturn (es : list expr).

(* fparams: parameter names (for a method: the receiver's fields first, named "c.field");
   fouts: variables whose final values are appended to the results (the receiver's fields of a
   pointer-receiver method: the caller sees the mutated struct) *)
Record fundef := { fparams : list string; fouts : list string; fbody : stmt }.
Definition program := list (string * fundef).

Inductive res (A : Type) := Val (a : A) | Flt | Fuel.
Arguments Val {A} a. Arguments Flt {A}. Arguments Fuel {A}.

Definition rbind {A B} (r : res A) (f : A -> res B) : res B :=
  match r with Val a => f a | Flt => Flt | Fuel => Fuel end.

Definition env := list (string * Z).
Fixpoint lookup (e : env) (x : string) : Z :=
  match e with
  | [] => 0
  | (y, v) :: tl => if String.eqb x y then v else lookup tl x
  end.
Definition update (e : env) (x : string) (v : Z) : env := (x, v) :: e.
Fixpoint bind_params (ps : list string) (vs : list Z) : env :=
  match ps, vs with
  | p :: ps', v :: vs' => (p, v) :: bind_params ps' vs'
  | _, _ => []
  end.
Fixpoint update_all (e : env) (xs : list string) (vs : list Z) : env :=
  match xs, vs with
  | x :: xs', v :: vs' => update_all (update e x v) xs' vs'
  | _, _ => e
  end.

Definition b2z (b : bool) : Z := if b then 1 else 0.

Definition eval_bin (t : ity) (o : binop) (a b : Z) : res Z :=
  match o with
  | OAdd => Val (wrap t (a + b))
  | OSub => Val (wrap t (a - b))
  | OMul => Val (wrap t (a * b))
  | OQuo => if b =? 0 then Flt else Val (wrap t (Z.quot a b))
  | ORem => if b =? 0 then Flt else Val (wrap t (Z.rem a b))
  | OShl => if b <? 0 then Flt else Val (wrap t (a * 2 ^ b))
  | OShr => if b <? 0 then Flt else Val (wrap t (Z.shiftr a b))
  | OAnd => Val (wrap t (Z.land a b))
  | OOr => Val (wrap t (Z.lor a b))
  | OXor => Val (wrap t (Z.lxor a b))
  end.

Definition eval_cmp (o : cmpop) (a b : Z) : Z :=
  b2z match o with
      | CLt => a <? b | CLe => a <=? b | CGt => b <? a | CGe => b <=? a
      | CEq => a =? b | CNe => negb (a =? b)
      end.

(* the call oracle: function name, type argument, arguments -> results *)
Definition caller := string -> ity -> list Z -> res (list Z).

Section Eval.
  Variable call : caller.
  Variable tp : ity.

  Fixpoint eval (en : env) (e : expr) : res Z :=
    match e with
    | EConst z => Val z
    | EVar x => Val (lookup en x)
    | EBin t o a b =>
      rbind (eval en a) (fun va => rbind (eval en b) (fun vb => eval_bin (resolve tp t) o va vb))
    | ECmp o a b =>
      rbind (eval en a) (fun va => rbind (eval en b) (fun vb => Val (eval_cmp o va vb)))
    | ENot a => rbind (eval en a) (fun va => Val (b2z (va =? 0)))
    | EAndAlso a b => rbind (eval en a) (fun va => if va =? 0 then Val 0 else eval en b)
    | EOrElse a b => rbind (eval en a) (fun va => if va =? 0 then eval en b else Val 1)
    | EConv t a => rbind (eval en a) (fun va => Val (wrap (resolve tp t) va))
    | ECall f targ args =>
      rbind ((fix evals (l : list expr) : res (list Z) :=
                match l with
                | [] => Val []
                | x :: tl => rbind (eval en x) (fun v => rbind (evals tl) (fun vs => Val (v :: vs)))
                end) args)
            (fun vs => rbind (call f (resolve tp targ) vs)
                             (fun rs => match rs with r :: _ => Val r | [] => Flt end))
    end.

  Fixpoint evals (en : env) (l : list expr) : res (list Z) :=
    match l with
    | [] => Val []
    | x :: tl => rbind (eval en x) (fun v => rbind (evals en tl) (fun vs => Val (v :: vs)))
    end.

  (* statement outcome: fall through with an environment, or return values *)
  Inductive sres := SNormal (en : env) | SRet (vs : list Z) (en : env) | SFlt | SFuel.

  (* [lf]: the number of loop iterations any single for statement may take *)
  Fixpoint exec (lf : nat) (s : stmt) (en : env) : sres :=
    match s with
    | SSkip => SNormal en
    | SSeq s1 s2 =>
      match exec lf s1 en with
      | SNormal en' => exec lf s2 en'
      | r => r
      end
    | SAssign x e =>
      match eval en e with
      | Val v => SNormal (update en x v)
      | Flt => SFlt | Fuel => SFuel
      end
    | SCall xs f targ args =>
      match evals en args with
      | Val vs =>
        match call f (resolve tp targ) vs with
        | Val rs => SNormal (update_all en xs rs)
        | Flt => SFlt | Fuel => SFuel
        end
      | Flt => SFlt | Fuel => SFuel
      end
    | SIf c s1 s2 =>
      match eval en c with
      | Val v => if v =? 0 then exec lf s2 en else exec lf s1 en
      | Flt => SFlt | Fuel => SFuel
      end
    | SFor c body =>
      (fix loop (n : nat) (en : env) : sres :=
         match n with
         | O => SFuel
         | S n' =>
           match eval en c with
           | Val v =>
             if v =? 0 then SNormal en else
             match exec lf body en with
             | SNormal en' => loop n' en'
             | r => r
             end
           | Flt => SFlt | Fuel => SFuel
           end
         end) lf en
    | SReturn es =>
      match evals en es with
      | Val vs => SRet vs en
      | Flt => SFlt | Fuel => SFuel
      end
    end.
End Eval.

Fixpoint find_fun (p : program) (f : string) : option fundef :=
  match p with
  | [] => None
  | (g, d) :: tl => if String.eqb f g then Some d else find_fun tl f
  end.

(* externals: functions the translator does not translate (floating point, byte buffers);
   they are given by the hand-written model and named in the trusted base *)
Definition externals := string -> option (list Z -> res (list Z)).

(* [callf ext p fuel f targ args]: run function f of program p.  Fuel bounds the call depth
   and, per for statement, the number of iterations. *)
Fixpoint callf (ext : externals) (p : program) (fuel : nat) (f : string) (targ : ity) (args : list Z)
  : res (list Z) :=
  match fuel with
  | O => Fuel
  | S n =>
    match find_fun p f with
    | Some d =>
      match exec (callf ext p n) targ fuel (fbody d) (bind_params (fparams d) args) with
      | SRet vs en => Val (vs ++ map (lookup en) (fouts d))
      | SNormal en => Val (map (lookup en) (fouts d))
      | SFlt => Flt
      | SFuel => Fuel
      end
    | None =>
      match ext f with
      | Some g => g args
      | None => Flt
      end
    end
  end.
