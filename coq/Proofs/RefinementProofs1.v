(* C07, part 1: the builder state in correspondence with the pair of lists
   (ordinary transactions, blob transactions) it has accepted; AppendTx /
   AppendBlobTx accept exactly when the worst-case estimate of the extended
   lists fits into max * max; hence the loop of Construct is [split_ordered]
   followed by the capacity test, and the loop of Build is [keep].

   Part 2 (RefinementProofs2.v): Export of a builder in correspondence is the
   rule-based [layout].  Part 3 (RefinementProofs3.v): construct = layout_construct
   and build = layout_build. *)
From Coq Require Import List Arith NArith ZArith Lia Bool Sorted Permutation.
From Coq Require Import ZifyN ZifyNat ZifyBool.
From GS.Model Require Import Base Varint Namespace ShareFmt Blob Sparse Compact Counter Arith Proto Builder.
From GS.Spec Require Import ShareSpec CompactSpec LayoutSpec.
From GS.Proofs Require Import BaseLemmas VarintProofs SparseProofs ArithProofs CounterProofs
  CompactWriterProofs AccountingProofs BlobLayoutProofs LayoutShapeProofs.
Import ListNotations.
Open Scope N_scope.

(* ================================================================== *)
(* Conditions on the input                                             *)
(* ================================================================== *)

(* a blob as NewBlob accepts it, in a namespace ValidateForBlob accepts, whose data
   and signer together stay below 4 GiB (the sequence length is a uint32) *)
Definition c07_blob_ok (b : blob) : Prop :=
  lay_blob_ok b /\ lenN (b_data b) + signer_len b < 4294967296.
Definition c07_btx_ok (t : blob_tx) : Prop := Forall c07_blob_ok (btx_blobs t).
(* every blob transaction that decodes carries such blobs *)
Definition c07_raw_ok (r : bytes) : Prop := forall t, unmarshal_blob_tx r = UbtOk t -> c07_btx_ok t.
Definition c07_raws_ok (raws : list bytes) : Prop := Forall c07_raw_ok raws.

Lemma c07_btx_lay t : c07_btx_ok t -> lay_btx_ok t.
Proof. intros H. unfold lay_btx_ok. eapply Forall_impl; [|exact H]. intros b [Hb _]. exact Hb. Qed.

Lemma c07_btxs_lay btxs : Forall c07_btx_ok btxs -> Forall lay_btx_ok btxs.
Proof. intros H. eapply Forall_impl; [|exact H]. intros t. apply c07_btx_lay. Qed.

(* ================================================================== *)
(* Closed forms: the counters count the two streams                    *)
(* ================================================================== *)

Lemma stream_length txs : N.of_nat (length (stream txs)) = stream_len (map lenN txs).
Proof.
  induction txs as [|t l IH]; [reflexivity|].
  unfold stream, units in *. cbn [map concat]. unfold stream_len. cbn [fold_right].
  fold (stream_len (map lenN l)). rewrite <- IH.
  unfold marshal_delimited. rewrite !app_length. unfold delim_len, lenN. lia.
Qed.

Lemma compact_count_csn txs : compact_count txs = compact_shares_needed (stream_len (map lenN txs)).
Proof. unfold compact_count. rewrite cneeded_compact, stream_length. reflexivity. Qed.

Lemma compact_count_nil : compact_count [] = 0.
Proof. reflexivity. Qed.

Lemma stream_snoc l t : stream (l ++ [t]) = stream l ++ marshal_delimited t.
Proof. unfold stream, units. rewrite map_app, concat_app. cbn [map concat]. rewrite app_nil_r. reflexivity. Qed.

Lemma compact_count_snoc_le l t : compact_count l <= compact_count (l ++ [t]).
Proof.
  unfold compact_count. rewrite stream_snoc, app_length.
  assert (Hle : (length (stream l) <= length (stream l) + length (marshal_delimited t))%nat) by lia.
  pose proof (cneeded_mono _ _ Hle). lia.
Qed.

(* a non-empty list of transactions needs at least one share *)
Lemma compact_count_pos t l : 1 <= compact_count (t :: l).
Proof.
  unfold compact_count, stream, units. cbn [map concat]. rewrite app_length.
  assert (Hp : (1 <= length (marshal_delimited t))%nat).
  { unfold marshal_delimited. rewrite app_length. pose proof (put_uvarint_length (lenN t)). lia. }
  set (n := (length (marshal_delimited t) + length (concat (map marshal_delimited l)))%nat).
  assert (Hn : (1 <= n)%nat) by (unfold n; lia).
  pose proof (cneeded_mono 1 n Hn) as Hm. change (cneeded 1) with 1%nat in Hm. lia.
Qed.

(* ================================================================== *)
(* The builder's lists as functions of the accepted transactions        *)
(* ================================================================== *)

Definition worst_pfb (t : blob_tx) : pfb :=
  mk_pfb (btx_tx t) (worst_case_share_indexes (length (btx_blobs t))).

(* the elements in input order: transaction by transaction, blob by blob *)
Fixpoint all_els (thr pi : N) (btxs : list blob_tx) : list element :=
  match btxs with
  | [] => []
  | t :: tl => elements_of (btx_blobs t) pi 0 thr ++ all_els thr (pi + 1) tl
  end.

Lemma all_els_app thr : forall l1 l2 pi,
  all_els thr pi (l1 ++ l2) = all_els thr pi l1 ++ all_els thr (pi + lenN l1) l2.
Proof.
  induction l1 as [|t l1 IH]; intros l2 pi; cbn [app all_els].
  - rewrite lenN_nil, N.add_0_r. reflexivity.
  - rewrite IH, <- app_assoc. rewrite lenN_cons.
    replace (pi + 1 + lenN l1) with (pi + (lenN l1 + 1)) by lia. reflexivity.
Qed.

Lemma worst_pfb_size t : pfb_wire_size (worst_pfb t) = lenN (worst_wrapper t).
Proof. reflexivity. Qed.

Lemma worst_pfbs_sizes btxs : map pfb_wire_size (map worst_pfb btxs) = map lenN (map worst_wrapper btxs).
Proof. rewrite !map_map. apply map_ext. intros t. apply worst_pfb_size. Qed.

Lemma new_element_count b pi bi thr : lenN (b_data b) + signer_len b < 4294967296 ->
  e_num_shares (new_element b pi bi thr) = blob_share_count b.
Proof. intros H. unfold new_element, blob_share_count. cbn [e_num_shares]. rewrite u32_small by exact H. reflexivity. Qed.

Lemma new_element_offset b pi bi thr : 1 <= thr -> lenN (b_data b) + signer_len b < 4294967296 ->
  max_share_offset (new_element b pi bi thr) = blob_reservation thr b.
Proof.
  intros Ht H. unfold max_share_offset, blob_reservation.
  rewrite (new_element_count b pi bi thr H). unfold new_element. cbn [e_max_padding].
  rewrite u32_small by exact H. fold (blob_share_count b).
  pose proof (subtree_width_pos (blob_share_count b) thr Ht). lia.
Qed.

Lemma sum_offsets_elements_of thr : 1 <= thr -> forall bs pi bi, Forall c07_blob_ok bs ->
  sum_offsets (elements_of bs pi bi thr) = sumN_map (blob_reservation thr) bs.
Proof.
  intros Ht. induction bs as [|b bs IH]; intros pi bi H; [reflexivity|].
  apply Forall_cons_iff in H as [[_ Hb] H].
  cbn [elements_of sumN_map]. unfold sum_offsets. cbn [fold_right]. fold (sum_offsets (elements_of bs pi (bi + 1) thr)).
  rewrite IH by exact H. rewrite new_element_offset by assumption. reflexivity.
Qed.

Lemma sum_offsets_all_els thr : 1 <= thr -> forall btxs pi, Forall c07_btx_ok btxs ->
  sum_offsets (all_els thr pi btxs) = sumN_map (fun t => sumN_map (blob_reservation thr) (btx_blobs t)) btxs.
Proof.
  intros Ht. induction btxs as [|t tl IH]; intros pi H; [reflexivity|].
  apply Forall_cons_iff in H as [Hh H]. cbn [all_els sumN_map].
  rewrite sum_offsets_app, sum_offsets_elements_of, IH by assumption. reflexivity.
Qed.

(* ================================================================== *)
(* The correspondence                                                  *)
(* ================================================================== *)

Record corr (max thr : N) (b : builder) (normals : list bytes) (btxs : list blob_tx) : Prop := mk_corr {
  co_acc : acc_inv max thr b;
  co_binv : binv b;
  co_txs : bd_txs b = normals;
  co_pfbs : bd_pfbs b = map worst_pfb btxs;
  co_blobs : bd_blobs b = all_els thr 0 btxs;
  co_ok : Forall c07_btx_ok btxs
}.

Lemma corr_empty max thr : corr max thr (empty_builder max thr) [] [].
Proof.
  constructor; try reflexivity; [apply acc_inv_empty|apply binv_empty|constructor].
Qed.

Lemma corr_counters max thr b normals btxs : corr max thr b normals btxs ->
  counter_size (bd_txc b) = Z.of_N (compact_count normals) /\
  counter_size (bd_pfbc b) = Z.of_N (compact_count (map worst_wrapper btxs)).
Proof.
  intros C. pose proof (co_acc _ _ _ _ _ C) as I.
  destruct (cenc_at_size _ _ (inv_txc _ _ _ I)) as [-> _].
  destruct (cenc_at_size _ _ (inv_pfbc _ _ _ I)) as [-> _].
  rewrite !needed_z_compact, (co_txs _ _ _ _ _ C), (co_pfbs _ _ _ _ _ C), worst_pfbs_sizes, <- !compact_count_csn.
  split; reflexivity.
Qed.

(* the running estimate is the closed-form estimate of the accepted lists *)
Lemma corr_cur max thr b normals btxs : 1 <= thr -> corr max thr b normals btxs ->
  bd_cur b = Z.of_N (estimate thr normals btxs).
Proof.
  intros Ht C. pose proof (co_acc _ _ _ _ _ C) as I. destruct (corr_counters _ _ _ _ _ C) as [H1 H2].
  rewrite (inv_cur _ _ _ I), H1, H2, (co_blobs _ _ _ _ _ C), (sum_offsets_all_els thr Ht _ _ (co_ok _ _ _ _ _ C)).
  unfold estimate. lia.
Qed.

Lemma corr_fits max thr b normals btxs : 1 <= thr -> corr max thr b normals btxs ->
  estimate thr normals btxs <= max * max.
Proof.
  intros Ht C. pose proof (inv_cap _ _ _ (co_acc _ _ _ _ _ C)) as H. rewrite (corr_cur _ _ _ _ _ Ht C) in H. lia.
Qed.

(* ================================================================== *)
(* One append                                                          *)
(* ================================================================== *)

(* what AppendTx compares with the capacity is the estimate of the extended list *)
Lemma est_after_tx max thr b normals btxs t : 1 <= thr -> corr max thr b normals btxs ->
  (bd_cur b + tx_diff b t)%Z = Z.of_N (estimate thr (normals ++ [t]) btxs).
Proof.
  intros Ht C. pose proof (co_acc _ _ _ _ _ C) as I.
  destruct (estimate_after_tx_eq max thr b t I) as [<- _]. unfold estimate_after_tx.
  assert (Hn : (0 <= Z.of_N (lenN t))%Z) by lia.
  destruct (counter_add_at _ _ _ Hn (inv_txc _ _ _ I)) as (W & _). rewrite N2Z.id in W.
  destruct (cenc_at_size _ _ W) as [-> _].
  destruct (corr_counters _ _ _ _ _ C) as [_ ->].
  rewrite (co_blobs _ _ _ _ _ C), (sum_offsets_all_els thr Ht _ _ (co_ok _ _ _ _ _ C)), (co_txs _ _ _ _ _ C).
  replace (Z.of_N (stream_len (map lenN normals)) + (Z.of_N (lenN t) + Z.of_N (delim_len (lenN t))))%Z
    with (Z.of_N (stream_len (map lenN (normals ++ [t]))))
    by (rewrite map_app; cbn [map]; rewrite stream_len_snoc, !N2Z.inj_add; reflexivity).
  rewrite needed_z_compact, <- compact_count_csn. unfold estimate. lia.
Qed.

Lemma est_after_blob_tx max thr b normals btxs t : 1 <= thr -> corr max thr b normals btxs -> c07_btx_ok t ->
  (bd_cur b + blob_tx_diff b t)%Z = Z.of_N (estimate thr normals (btxs ++ [t])).
Proof.
  intros Ht C Hok. pose proof (co_acc _ _ _ _ _ C) as I.
  destruct (estimate_after_blob_tx_eq max thr b t I) as [<- _]. unfold estimate_after_blob_tx.
  assert (Hn : (0 <= Z.of_N (blob_tx_worst_size t))%Z) by lia.
  destruct (counter_add_at _ _ _ Hn (inv_pfbc _ _ _ I)) as (W & _). rewrite N2Z.id in W.
  destruct (cenc_at_size _ _ W) as [-> _].
  destruct (corr_counters _ _ _ _ _ C) as [-> _].
  assert (Hels : bd_blobs b ++ blob_tx_els b t = all_els thr 0 (btxs ++ [t])).
  { rewrite all_els_app. cbn [all_els]. rewrite app_nil_r, (co_blobs _ _ _ _ _ C). unfold blob_tx_els.
    rewrite (co_pfbs _ _ _ _ _ C), (inv_thr _ _ _ I). unfold lenN. rewrite map_length, N.add_0_l. reflexivity. }
  assert (Hok' : Forall c07_btx_ok (btxs ++ [t])).
  { apply Forall_app. split; [exact (co_ok _ _ _ _ _ C)|]. constructor; [exact Hok|constructor]. }
  rewrite Hels, (sum_offsets_all_els thr Ht _ _ Hok'), (co_pfbs _ _ _ _ _ C).
  replace (Z.of_N (stream_len (map pfb_wire_size (map worst_pfb btxs)))
           + (Z.of_N (blob_tx_worst_size t) + Z.of_N (delim_len (blob_tx_worst_size t))))%Z
    with (Z.of_N (stream_len (map lenN (map worst_wrapper (btxs ++ [t]))))).
  2:{ rewrite worst_pfbs_sizes, !map_app. cbn [map]. rewrite stream_len_snoc.
      change (lenN (worst_wrapper t)) with (blob_tx_worst_size t). rewrite !N2Z.inj_add. reflexivity. }
  rewrite needed_z_compact, <- compact_count_csn. unfold estimate. lia.
Qed.

Theorem step_tx max thr b normals btxs t : 1 <= thr -> corr max thr b normals btxs ->
  snd (append_tx b t) = (estimate thr (normals ++ [t]) btxs <=? max * max) /\
  (snd (append_tx b t) = true -> corr max thr (fst (append_tx b t)) (normals ++ [t]) btxs) /\
  (snd (append_tx b t) = false -> corr max thr (fst (append_tx b t)) normals btxs).
Proof.
  intros Ht C. pose proof (co_acc _ _ _ _ _ C) as I.
  pose proof (est_after_tx _ _ _ _ _ t Ht C) as E.
  pose proof (AccountingProofs.append_tx_inv max thr b t I) as I'.
  destruct (BlobLayoutProofs.append_tx_inv b t (co_binv _ _ _ _ _ C)) as [B' _].
  rewrite append_tx_unfold in *. unfold capacity in *. rewrite (inv_max _ _ _ I) in *. rewrite E in *.
  destruct (Z.of_N (estimate thr (normals ++ [t]) btxs) <=? Z.of_N (max * max))%Z eqn:F; cbn [fst snd] in *.
  - split; [symmetry; apply N.leb_le; lia|]. split; [intros _|discriminate].
    constructor; cbn [bd_txs bd_pfbs bd_blobs]; try assumption.
    + rewrite (co_txs _ _ _ _ _ C). reflexivity.
    + apply (co_pfbs _ _ _ _ _ C).
    + apply (co_blobs _ _ _ _ _ C).
    + apply (co_ok _ _ _ _ _ C).
  - split; [symmetry; apply N.leb_gt; lia|]. split; [discriminate|intros _].
    constructor; cbn [bd_txs bd_pfbs bd_blobs]; try assumption.
    + apply (co_txs _ _ _ _ _ C).
    + apply (co_pfbs _ _ _ _ _ C).
    + apply (co_blobs _ _ _ _ _ C).
    + apply (co_ok _ _ _ _ _ C).
Qed.

Theorem step_blob_tx max thr b normals btxs t : 1 <= thr -> corr max thr b normals btxs -> c07_btx_ok t ->
  snd (append_blob_tx b t) = (estimate thr normals (btxs ++ [t]) <=? max * max) /\
  (snd (append_blob_tx b t) = true -> corr max thr (fst (append_blob_tx b t)) normals (btxs ++ [t])) /\
  (snd (append_blob_tx b t) = false -> corr max thr (fst (append_blob_tx b t)) normals btxs).
Proof.
  intros Ht C Hok. pose proof (co_acc _ _ _ _ _ C) as I.
  pose proof (est_after_blob_tx _ _ _ _ _ t Ht C Hok) as E.
  pose proof (AccountingProofs.append_blob_tx_inv max thr b t I) as I'.
  destruct (BlobLayoutProofs.append_blob_tx_inv b t (co_binv _ _ _ _ _ C)) as [B' _].
  rewrite append_blob_tx_unfold in *. unfold capacity in *. rewrite (inv_max _ _ _ I) in *. rewrite E in *.
  destruct (Z.of_N (estimate thr normals (btxs ++ [t])) <=? Z.of_N (max * max))%Z eqn:F; cbn [fst snd] in *.
  - split; [symmetry; apply N.leb_le; lia|]. split; [intros _|discriminate].
    constructor; cbn [bd_txs bd_pfbs bd_blobs]; try assumption.
    + apply (co_txs _ _ _ _ _ C).
    + rewrite (co_pfbs _ _ _ _ _ C), map_app. reflexivity.
    + rewrite all_els_app. cbn [all_els]. rewrite app_nil_r, (co_blobs _ _ _ _ _ C). unfold blob_tx_els.
      rewrite (co_pfbs _ _ _ _ _ C), (inv_thr _ _ _ I). unfold lenN. rewrite map_length, N.add_0_l. reflexivity.
    + apply Forall_app. split; [exact (co_ok _ _ _ _ _ C)|]. constructor; [exact Hok|constructor].
  - split; [symmetry; apply N.leb_gt; lia|]. split; [discriminate|intros _].
    constructor; cbn [bd_txs bd_pfbs bd_blobs]; try assumption.
    + apply (co_txs _ _ _ _ _ C).
    + apply (co_pfbs _ _ _ _ _ C).
    + apply (co_blobs _ _ _ _ _ C).
    + apply (co_ok _ _ _ _ _ C).
Qed.

(* ================================================================== *)
(* The estimate only grows                                             *)
(* ================================================================== *)

Lemma estimate_snoc_tx thr normals btxs t : estimate thr normals btxs <= estimate thr (normals ++ [t]) btxs.
Proof. unfold estimate. pose proof (compact_count_snoc_le normals t). lia. Qed.

Lemma estimate_snoc_btx thr normals btxs t : estimate thr normals btxs <= estimate thr normals (btxs ++ [t]).
Proof.
  unfold estimate. rewrite map_app, sumN_map_app. cbn [map].
  pose proof (compact_count_snoc_le (map worst_wrapper btxs) (worst_wrapper t)). lia.
Qed.

Lemma split_ordered_mono thr : forall raws seen normals btxs n' b',
  split_ordered seen raws normals btxs = Some (n', b') -> estimate thr normals btxs <= estimate thr n' b'.
Proof.
  induction raws as [|r tl IH]; intros seen normals btxs n' b' H; cbn [split_ordered] in H.
  - injection H as <- <-. lia.
  - destruct (classify r) as [raw|raw t|]; [| |discriminate].
    + destruct seen; [discriminate|]. apply IH in H. pose proof (estimate_snoc_tx thr normals btxs r). lia.
    + apply IH in H. pose proof (estimate_snoc_btx thr normals btxs t). lia.
Qed.

(* ================================================================== *)
(* The loop of Construct                                               *)
(* ================================================================== *)

Theorem construct_loop_spec max thr : 1 <= thr -> forall raws b seen normals btxs,
  corr max thr b normals btxs -> c07_raws_ok raws ->
  match split_ordered seen raws normals btxs with
  | None => construct_loop b seen raws = Err
  | Some (n', bt') =>
    if estimate thr n' bt' <=? max * max
    then exists b', construct_loop b seen raws = Ok b' /\ corr max thr b' n' bt'
    else construct_loop b seen raws = Err
  end.
Proof.
  intros Ht. induction raws as [|r tl IH]; intros b seen normals btxs C Hraws.
  - cbn [split_ordered construct_loop]. pose proof (corr_fits _ _ _ _ _ Ht C) as Hf.
    replace (estimate thr normals btxs <=? max * max) with true by lia. exists b. split; [reflexivity|exact C].
  - apply Forall_cons_iff in Hraws as [Hr Hraws]. cbn [split_ordered construct_loop]. unfold classify.
    destruct (unmarshal_blob_tx r) as [| |t] eqn:Eu.
    + destruct seen; [reflexivity|].
      destruct (step_tx max thr b normals btxs r Ht C) as (Hok & Hacc & Hrej).
      destruct (append_tx b r) as [b1 ok]. cbn [fst snd] in *. destruct ok.
      * apply IH; [apply Hacc; reflexivity|exact Hraws].
      * destruct (split_ordered false tl (normals ++ [r]) btxs) as [[n' bt']|] eqn:Es; [|reflexivity].
        pose proof (split_ordered_mono thr _ _ _ _ _ _ Es).
        replace (estimate thr n' bt' <=? max * max) with false by lia. reflexivity.
    + reflexivity.
    + destruct (step_blob_tx max thr b normals btxs t Ht C (Hr t Eu)) as (Hok & Hacc & Hrej).
      destruct (append_blob_tx b t) as [b1 ok]. cbn [fst snd] in *. destruct ok.
      * apply IH; [apply Hacc; reflexivity|exact Hraws].
      * destruct (split_ordered true tl normals (btxs ++ [t])) as [[n' bt']|] eqn:Es; [|reflexivity].
        pose proof (split_ordered_mono thr _ _ _ _ _ _ Es).
        replace (estimate thr n' bt' <=? max * max) with false by lia. reflexivity.
Qed.

(* ================================================================== *)
(* The loop of Build                                                   *)
(* ================================================================== *)

Theorem build_loop_spec max thr : 1 <= thr -> forall raws b normals btxs kn kb,
  corr max thr b normals btxs -> c07_raws_ok raws ->
  match keep (max * max) thr raws normals btxs kn kb with
  | None => build_loop b raws kn kb = Err
  | Some (n', bt', kept) =>
    exists b' kn' kb', build_loop b raws kn kb = Ok (b', kn', kb') /\ kept = kn' ++ kb' /\
                       corr max thr b' n' bt'
  end.
Proof.
  intros Ht. induction raws as [|r tl IH]; intros b normals btxs kn kb C Hraws.
  - cbn [keep build_loop]. exists b, kn, kb. split; [reflexivity|]. split; [reflexivity|exact C].
  - apply Forall_cons_iff in Hraws as [Hr Hraws]. cbn [keep build_loop]. unfold classify.
    destruct (unmarshal_blob_tx r) as [| |t] eqn:Eu.
    + destruct (step_tx max thr b normals btxs r Ht C) as (Hok & Hacc & Hrej).
      destruct (append_tx b r) as [b1 ok]. cbn [fst snd] in *. rewrite <- Hok. destruct ok.
      * apply IH; [apply Hacc; reflexivity|exact Hraws].
      * apply IH; [apply Hrej; reflexivity|exact Hraws].
    + reflexivity.
    + destruct (step_blob_tx max thr b normals btxs t Ht C (Hr t Eu)) as (Hok & Hacc & Hrej).
      destruct (append_blob_tx b t) as [b1 ok]. cbn [fst snd] in *. rewrite <- Hok. destruct ok.
      * apply IH; [apply Hacc; reflexivity|exact Hraws].
      * apply IH; [apply Hrej; reflexivity|exact Hraws].
Qed.
