(* C02: deconstructing the rule-based square layout (Spec/LayoutSpec.v) returns the
   transactions it was made from.

     deconstruct dec (layout thr normals btxs)
       = Ok (normals ++ map blob_tx_bytes btxs)                     (deconstruct_layout)

   for non-empty ordinary transactions, blob transactions with at least one blob each,
   blob-valid blobs (share version 0 or 1), a decoder that reports the blobs' data sizes,
   and an estimate below 2^21 shares (side <= 1024).  blob_tx_bytes t is what
   marshal_blob_tx returns for the parts of t (marshal_blob_tx_bytes).  The inner
   transaction of a blob transaction is arbitrary (it may even be empty).

   Through raw bytes (deconstruct_layout_construct): if raws is a list of non-empty
   transactions that are not blob transactions followed by canonical blob transaction
   encodings and layout_construct accepts it, deconstruct returns raws.

   The statements are about the spec side; they transfer to Construct through the
   refinement construct = layout_construct (C07). *)
From Coq Require Import List Arith NArith ZArith Lia Bool Sorted Permutation.
From Coq Require Import ZifyN ZifyNat ZifyBool.
From GS.Model Require Import Base Varint Namespace ShareFmt Blob Sparse Compact Counter Arith Proto Builder Square.
From GS.Spec Require Import ShareSpec CompactSpec LayoutSpec.
From GS.Proofs Require Import BaseLemmas VarintProofs SparseProofs ArithProofs NamespaceProofs
  RangeProofs ProtoProofs CompactParseProofs LayoutShapeProofs.
Import ListNotations.
Open Scope N_scope.

(* ================================================================== *)
(* One blob: its shares parse back to exactly that blob                *)
(* ================================================================== *)

Lemma parse_blobs_blob_spec b : blob_ok b -> parse_blobs (blob_spec b) = Ok [b].
Proof.
  intros Hok. destruct (parse_blob_spec b [] [] Hok) as (z & Hz). rewrite app_nil_r in Hz.
  unfold parse_blobs. rewrite Hz. cbn [parse_sparse_loop bind rev app map_outcome].
  rewrite (finish_complete b z Hok). reflexivity.
Qed.

(* the first share of a blob carries the signer Deconstruct adds to the declared size *)
Lemma blob_spec_first b : blob_ok b ->
  exists first rest, blob_spec b = first :: rest /\
    (match sh_signer first with Some g => lenN g | None => 0 end) = signer_len b.
Proof.
  intros Hok. pose proof Hok as (Hns & _). destruct (blob_ok_ver b Hok) as [Hv _].
  pose proof (blob_spec_wf b Hok) as Hwf.
  unfold blob_spec, sparse_spec in *. fold (spec_signer b) in *.
  eexists _, _. split; [reflexivity|].
  apply Forall_cons_iff in Hwf as [Hlen _].
  unfold sh_signer. rewrite acc_version, acc_start by assumption.
  destruct (blob_ok_signer b Hok) as [(Hv0 & _ & Hn)|(Hv1 & Hs1 & Hsg)].
  - rewrite Hv0. cbn [N.eqb andb]. unfold signer_len. rewrite Hn. reflexivity.
  - rewrite Hv1. cbn [N.eqb Pos.eqb andb]. unfold signer_len. rewrite Hsg.
    unfold lenN. rewrite firstn_length, skipn_length, Hlen, Hs1. reflexivity.
Qed.

Lemma slice_mid {A} (pre mid post : list A) :
  slice_list (lenN pre) (lenN pre + lenN mid) (pre ++ mid ++ post) = Ok mid.
Proof.
  unfold slice_list. rewrite !lenN_app.
  replace ((lenN pre <=? lenN pre + lenN mid) && (lenN pre + lenN mid <=? lenN pre + (lenN mid + lenN post)))
    with true by lia.
  f_equal. unfold takeN, dropN, lenN.
  rewrite Nnat.Nat2N.id.
  replace (N.to_nat (N.of_nat (length pre) + N.of_nat (length mid) - N.of_nat (length pre))) with (length mid) by lia.
  rewrite skipn_app, Nat.sub_diag, skipn_O, skipn_all. cbn [app].
  rewrite firstn_app, Nat.sub_diag, firstn_O, app_nil_r, firstn_all. reflexivity.
Qed.

(* the shares of blob [b] sit at square index [i] *)
Definition blob_at (s : list share) (i : N) (b : blob) : Prop :=
  exists pre post, s = pre ++ blob_spec b ++ post /\ lenN pre = i.

Definition blob_small (b : blob) : Prop := lenN (b_data b) + signer_len b <= 4294967295.

(* the inner loop of Deconstruct: every blob is read back from its recorded index *)
Lemma decon_blobs_ok s : forall idxs bs,
  Forall2 (fun i b => blob_at s i b /\ blob_ok b /\ blob_small b) idxs bs ->
  decon_blobs s idxs (map (fun b => lenN (b_data b)) bs) = Ok bs.
Proof.
  induction 1 as [|i b idxs bs Hb _ IH]; [reflexivity|].
  destruct Hb as ((pre & post & Hs & Hpre) & Hok & Hsmall). unfold blob_small in Hsmall.
  destruct (blob_spec_first b Hok) as (first & rest & Hbs & Hsig).
  pose proof (blob_spec_length b Hok) as Hn.
  assert (Hlen : lenN s = i + lenN (blob_spec b) + lenN post) by (rewrite Hs, !lenN_app; lia).
  assert (Hpos : 1 <= lenN (blob_spec b)) by (rewrite Hbs, lenN_cons; lia).
  cbn [map decon_blobs].
  replace (lenN s <=? i) with false by lia.
  assert (Hnth : nth_error s (N.to_nat i) = Some first).
  { rewrite Hs, nth_error_app2 by (unfold lenN in Hpre; lia).
    replace (N.to_nat i - length pre)%nat with 0%nat by (unfold lenN in Hpre; lia).
    rewrite Hbs. reflexivity. }
  rewrite Hnth, Hsig.
  replace (4294967295 <? lenN (b_data b) + signer_len b) with false by lia.
  rewrite <- Hn.
  replace (lenN s <? i + lenN (blob_spec b)) with false by lia.
  assert (Hsl : slice_list i (i + lenN (blob_spec b)) s = Ok (blob_spec b)).
  { rewrite <- Hpre, Hs. apply slice_mid. }
  rewrite Hsl. cbn [bind]. rewrite (parse_blobs_blob_spec b Hok). cbn [bind].
  rewrite IH. reflexivity.
Qed.
