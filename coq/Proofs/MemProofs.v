(* C17: the modelled read paths do not modify pre-existing memory, write only to
   blocks they allocated, compute what the pure model computes; the pre-fix
   ParseBlobs does modify its input; read-only threads do not conflict. *)
From Coq Require Import List Arith NArith Lia Bool.
From GS.Model Require Import Base Varint Namespace ShareFmt Blob Sparse Compact Square Mem.
From GS.Proofs Require Import BaseLemmas.
Import ListNotations.
Open Scope nat_scope.

(* ================================================================== *)
(* 1. The read-only discipline                                         *)
(* ================================================================== *)

(* a log entry respects the discipline for the first [n0] blocks: it is a read,
   or a write to a block with id >= n0 *)
Definition wfresh (n0 : nat) (a : access) : Prop := a_kind a = AW -> n0 <= a_blk a.

(* [st'] extends [st] without touching the first n0 blocks *)
Definition ext (n0 : nat) (st st' : mstate) : Prop :=
  firstn n0 (st_heap st') = firstn n0 (st_heap st) /\
  length (st_heap st) <= length (st_heap st') /\
  (Forall (wfresh n0) (st_log st) -> Forall (wfresh n0) (st_log st')).

(* a slice that may be appended to: no capacity at all, or in a block >= n0 *)
Definition safe (n0 : nat) (s : slice) : Prop := sl_cap s = 0 \/ n0 <= sl_blk s.

(* a computation respects the discipline and its result satisfies P *)
Definition ro (n0 : nat) {A} (P : A -> Prop) (m : M A) : Prop :=
  forall st, n0 <= length (st_heap st) ->
    ext n0 st (fst (m st)) /\ forall a, snd (m st) = Ok a -> P a.

Lemma ext_refl n0 st : ext n0 st st.
Proof. repeat split; auto. Qed.

Lemma ext_trans n0 a b c : ext n0 a b -> ext n0 b c -> ext n0 a c.
Proof.
  intros (H1 & H2 & H3) (K1 & K2 & K3). repeat split.
  - congruence.
  - lia.
  - auto.
Qed.

Lemma ext_len n0 st st' : n0 <= length (st_heap st) -> ext n0 st st' -> n0 <= length (st_heap st').
Proof. intros H (_ & L & _). lia. Qed.

Lemma ext_log_read n0 s st : ext n0 st (log_read s st).
Proof.
  repeat split; auto. intros H. cbn. constructor; auto. intros K; discriminate K.
Qed.

Lemma length_upd_nth {A} (f : A -> A) : forall l n, length (upd_nth n f l) = length l.
Proof. induction l as [|x l IH]; intros [|n]; cbn; auto. Qed.

Lemma firstn_cons_S {A} (x : A) n l : firstn (S n) (x :: l) = x :: firstn n l.
Proof. reflexivity. Qed.

Lemma firstn_upd_nth_ge {A} (f : A -> A) : forall l n b, n <= b -> firstn n (upd_nth b f l) = firstn n l.
Proof.
  induction l as [|x l IH]; intros n b H.
  - destruct b; reflexivity.
  - destruct n as [|n].
    + rewrite !firstn_O. reflexivity.
    + destruct b as [|b]; [lia|]. cbn [upd_nth]. rewrite !firstn_cons_S. f_equal. apply IH. lia.
Qed.

Lemma firstn_app_le {A} (l x : list A) n : n <= length l -> firstn n (l ++ x) = firstn n l.
Proof.
  intros H. rewrite firstn_app. replace (n - length l) with 0 by lia.
  rewrite firstn_O. apply app_nil_r.
Qed.

Lemma safe_nil n0 : safe n0 nil_slice.
Proof. left; reflexivity. Qed.

Lemma safe_mslice2 n0 s lo hi r : safe n0 s -> mslice2 s lo hi = Ok r -> safe n0 r.
Proof.
  unfold mslice2. intros H. destruct (_ && _); intros K; inversion K; subst; clear K.
  destruct H as [H|H]; [left|right]; cbn; auto. rewrite H. reflexivity.
Qed.

(* append respects the discipline when the destination is safe *)
Lemma mappend_lit_ext n0 g dst data st :
  n0 <= length (st_heap st) -> safe n0 dst ->
  ext n0 st (fst (mappend_lit g dst data st)) /\ safe n0 (snd (mappend_lit g dst data st)).
Proof.
  intros L S. unfold mappend_lit. destruct data as [|d0 data].
  - cbn. split; [apply ext_refl|assumption].
  - set (dd := d0 :: data).
    destruct (Nat.leb (sl_len dst + length dd) (sl_cap dst)) eqn:E.
    + apply Nat.leb_le in E. assert (LD : 1 <= length dd) by (cbn; lia).
      destruct S as [S|S]; [lia|].
      cbn [fst snd]. split.
      * repeat split; cbn.
        -- unfold hwrite. apply firstn_upd_nth_ge. assumption.
        -- unfold hwrite. rewrite length_upd_nth. lia.
        -- intros H. constructor; auto. intros _. cbn. assumption.
      * right. cbn. assumption.
    + cbn [fst snd]. split.
      * repeat split; cbn.
        -- apply firstn_app_le. assumption.
        -- rewrite app_length. lia.
        -- intros H. constructor; [intros _; cbn; assumption|].
           constructor; auto. intros K; discriminate K.
      * right. cbn. assumption.
Qed.

Lemma ro_ret n0 {A} (P : A -> Prop) a : P a -> ro n0 P (mret a).
Proof. intros H st L. cbn. split; [apply ext_refl|]. intros b K. inversion K; subst; auto. Qed.

Lemma ro_lift n0 {A} (P : A -> Prop) o : (forall a, o = Ok a -> P a) -> ro n0 P (mlift o).
Proof. intros H st L. cbn. split; [apply ext_refl|assumption]. Qed.

Lemma ro_err n0 {A} (P : A -> Prop) : ro n0 P (mlift Err).
Proof. apply ro_lift. intros a K; discriminate K. Qed.

Lemma ro_bind n0 {A B} (P : A -> Prop) (Q : B -> Prop) (m : M A) (f : A -> M B) :
  ro n0 P m -> (forall a, P a -> ro n0 Q (f a)) -> ro n0 Q (mbind m f).
Proof.
  intros Hm Hf st L. unfold mbind. specialize (Hm st L).
  destruct (m st) as [st1 o]. cbn [fst snd] in Hm. destruct Hm as [E Pa].
  destruct o as [a| |].
  - specialize (Hf a (Pa a eq_refl) st1 (ext_len _ _ _ L E)). destruct Hf as [E2 Qb].
    split; [eapply ext_trans; eassumption|assumption].
  - cbn. split; [assumption|]. intros b K; discriminate K.
  - cbn. split; [assumption|]. intros b K; discriminate K.
Qed.

Lemma ro_weaken n0 {A} (P Q : A -> Prop) (m : M A) :
  ro n0 P m -> (forall a, P a -> Q a) -> ro n0 Q m.
Proof. intros H W st L. destruct (H st L) as [E Pa]. split; auto. Qed.

Lemma ro_mread n0 s : ro n0 (fun _ => True) (mread s).
Proof. intros st L. cbn. split; [apply ext_log_read|auto]. Qed.

Lemma ro_mappend n0 g dst src : safe n0 dst -> ro n0 (safe n0) (mappend g dst src).
Proof.
  intros S st L. unfold mappend.
  pose proof (mappend_lit_ext n0 g dst (mread_bytes (st_heap st) src) (log_read src st) L S) as [E S'].
  destruct (mappend_lit g dst _ _) as [st' d]. cbn [fst snd] in *. split.
  - eapply ext_trans; [apply ext_log_read|exact E].
  - intros a K. inversion K; subst. assumption.
Qed.

Lemma ro_mcopy_fresh n0 g s : ro n0 (safe n0) (mcopy_fresh g s).
Proof. apply ro_mappend. apply safe_nil. Qed.

Lemma ro_mmap n0 {A B} (P : B -> Prop) (f : A -> M B) l :
  (forall x, ro n0 P (f x)) -> ro n0 (Forall P) (mmap f l).
Proof.
  intros H. induction l as [|x l IH]; cbn [mmap].
  - apply ro_ret. constructor.
  - eapply ro_bind; [apply H|]. intros y Py.
    eapply ro_bind; [apply IH|]. intros ys Pys. apply ro_ret. constructor; assumption.
Qed.

(* what [ro] gives for a run that starts in a heap [h] with an empty log *)
Lemma ro_run {A} (P : A -> Prop) (m : M A) h :
  ro (length h) P m ->
  firstn (length h) (st_heap (fst (m (mk_st h [])))) = h /\
  Forall (wfresh (length h)) (st_log (fst (m (mk_st h [])))).
Proof.
  intros H. destruct (H (mk_st h []) (le_n _)) as [(E & _ & W) _]. cbn in E, W. split.
  - rewrite E. apply firstn_all.
  - apply W. constructor.
Qed.

(* ---- ParseBlobs ---- *)

Definition seqs_safe n0 (seqs : list mseq) : Prop := Forall (fun q => safe n0 (m_data q)) seqs.

Lemma ro_parse_sparse_step n0 g v seqs :
  seqs_safe n0 seqs -> ro n0 (seqs_safe n0) (parse_sparse_step g true v seqs).
Proof.
  intros S. unfold parse_sparse_step.
  eapply ro_bind; [apply ro_mread|]. intros sh _.
  destruct (negb (sh_version_supported sh)); [apply ro_err|].
  destruct (sh_is_padding sh); [apply ro_ret; assumption|].
  eapply ro_bind; [apply ro_lift with (P := fun _ => True); auto|]. intros raw _.
  destruct (sh_start sh).
  - eapply ro_bind; [apply ro_lift with (P := fun _ => True); auto|]. intros nsv _.
    eapply ro_bind; [apply ro_lift with (P := fun _ => True); auto|]. intros sg _.
    eapply ro_bind; [apply ro_mcopy_fresh|]. intros data Sd.
    apply ro_ret. constructor; assumption.
  - destruct seqs as [|q older]; [apply ro_err|].
    inversion S; subst.
    eapply ro_bind; [apply ro_mappend; assumption|]. intros d Sd.
    apply ro_ret. constructor; assumption.
Qed.

Lemma ro_parse_sparse_loop n0 g : forall views seqs,
  seqs_safe n0 seqs -> ro n0 (seqs_safe n0) (parse_sparse_loop_mem g true views seqs).
Proof.
  induction views as [|v tl IH]; intros seqs S; cbn [parse_sparse_loop_mem].
  - apply ro_ret. assumption.
  - eapply ro_bind; [apply ro_parse_sparse_step; assumption|]. intros s' S'. apply IH. assumption.
Qed.

Lemma ro_mread_opt n0 o : ro n0 (fun _ => True) (mread_opt o).
Proof.
  destruct o as [s|]; cbn [mread_opt].
  - eapply ro_bind; [apply ro_mread|]. intros b _. apply ro_ret. exact I.
  - apply ro_ret. exact I.
Qed.

Lemma ro_finish_mseq n0 q : ro n0 (fun _ => True) (finish_mseq q).
Proof.
  unfold finish_mseq. destruct (N.ltb _ _); [apply ro_err|].
  eapply ro_bind; [apply ro_lift with (P := fun _ => True); auto|]. intros d _.
  eapply ro_bind; [apply ro_mread|]. intros nsb _.
  eapply ro_bind; [apply ro_mread|]. intros db _.
  eapply ro_bind; [apply ro_mread_opt|]. intros sgb _.
  apply ro_lift. auto.
Qed.

Lemma ro_parse_blobs_mem n0 g views : ro n0 (fun _ => True) (parse_blobs_mem g views).
Proof.
  unfold parse_blobs_mem, parse_blobs_gen.
  eapply ro_bind; [apply ro_parse_sparse_loop; constructor|]. intros seqs _.
  eapply ro_weaken; [apply ro_mmap with (P := fun _ => True); intros q; apply ro_finish_mseq|auto].
Qed.

(* ---- Sequence.RawData ---- *)

Lemma ro_seq_accumulate n0 g : forall views acc,
  safe n0 acc -> ro n0 (safe n0) (seq_accumulate g views acc).
Proof.
  induction views as [|v tl IH]; intros acc S; cbn [seq_accumulate].
  - apply ro_ret. assumption.
  - eapply ro_bind; [apply ro_mread|]. intros sh _.
    eapply ro_bind; [apply ro_lift with (P := fun _ => True); auto|]. intros raw _.
    eapply ro_bind; [apply ro_mappend; assumption|]. intros acc' S'. apply IH. assumption.
Qed.

Lemma ro_sequence_raw_data_mem n0 g views : ro n0 (fun _ => True) (sequence_raw_data_mem g views).
Proof.
  unfold sequence_raw_data_mem.
  eapply ro_bind; [apply ro_seq_accumulate; apply safe_nil|]. intros data _.
  destruct views as [|first tl]; [apply ro_err|].
  eapply ro_bind; [apply ro_mread|]. intros fsh _.
  destruct (N.ltb _ _); [apply ro_err|].
  eapply ro_bind; [apply ro_lift with (P := fun _ => True); auto|]. intros d _.
  apply ro_mread.
Qed.

(* ---- extractRawData ---- *)

Lemma ro_extract_raw_data_mem n0 g : forall views found acc,
  safe n0 acc -> ro n0 (safe n0) (extract_raw_data_mem g found views acc).
Proof.
  induction views as [|v tl IH]; intros found acc S; cbn [extract_raw_data_mem].
  - apply ro_ret. assumption.
  - eapply ro_bind; [apply ro_mread|]. intros sh _.
    destruct found.
    + eapply ro_bind; [apply ro_lift with (P := fun _ => True); auto|]. intros raw _.
      eapply ro_bind; [apply ro_mappend; assumption|]. intros acc' S'. apply IH. assumption.
    + eapply ro_bind; [apply ro_lift with (P := fun _ => True); auto|]. intros raw _.
      eapply ro_bind; [apply ro_mappend; assumption|]. intros acc' S'. apply IH. assumption.
Qed.

(* ---- parseDelimiter: the zero padding lands in a block >= n0 when the input is safe ---- *)

Lemma parse_delimiter_mem_ext n0 g input st :
  n0 <= length (st_heap st) -> safe n0 input ->
  ext n0 st (fst (parse_delimiter_mem g input st)) /\
  forall rest ul, snd (parse_delimiter_mem g input st) = MDelimOk rest ul -> safe n0 rest.
Proof.
  intros L S. unfold parse_delimiter_mem.
  destruct (Nat.eqb (sl_len input) 0).
  { cbn. split; [apply ext_refl|]. intros rest ul K. inversion K; subst. assumption. }
  set (l := Nat.min 10 (sl_len input)).
  destruct (mslice2 input 0 l) as [head| |] eqn:EH;
    try (cbn; split; [apply ext_refl|intros rest ul K; discriminate K]).
  assert (SH : safe n0 head) by (eapply safe_mslice2; eassumption).
  set (st1 := log_read head st).
  assert (E1 : ext n0 st st1) by apply ext_log_read.
  assert (L1 : n0 <= length (st_heap st1)) by exact L.
  destruct (match uvarint (mread_bytes (st_heap st) head) with UvShort => Nat.ltb l 10 | _ => false end).
  { cbn. split; [assumption|]. intros rest ul K; discriminate K. }
  assert (P2 : exists st2 delim,
     (if Nat.leb 10 l then (st1, head) else mappend_lit g head (zeros (10 - l)) st1) = (st2, delim)
     /\ ext n0 st st2).
  { destruct (Nat.leb 10 l).
    - exists st1, head. split; auto.
    - pose proof (mappend_lit_ext n0 g head (zeros (10 - l)) st1 L1 SH) as [E2 _].
      destruct (mappend_lit g head (zeros (10 - l)) st1) as [st2 delim]. exists st2, delim.
      split; auto. eapply ext_trans; eassumption. }
  destruct P2 as (st2 & delim & EQ & E2). rewrite EQ.
  set (st3 := log_read delim st2).
  assert (E3 : ext n0 st st3) by (eapply ext_trans; [exact E2|apply ext_log_read]).
  destruct (read_uvarint (mread_bytes (st_heap st2) delim)) as [[dl rest0]| |];
    try (cbn; split; [assumption|intros rest ul K; discriminate K]).
  destruct (mslice2 input (length (put_uvarint dl)) (sl_len input)) as [rest| |] eqn:ER;
    try (cbn; split; [assumption|intros rest' ul K; discriminate K]).
  cbn. split; [assumption|]. intros rest' ul K. inversion K; subst.
  eapply safe_mslice2; [exact S|exact ER].
Qed.

(* ---- parseRawData ---- *)

Lemma ro_parse_raw_data_mem n0 g : forall fuel raw,
  safe n0 raw -> ro n0 (fun _ => True) (parse_raw_data_mem g fuel raw).
Proof.
  induction fuel as [|f IH]; intros raw S st L; cbn [parse_raw_data_mem].
  - cbn. split; [apply ext_refl|auto].
  - pose proof (parse_delimiter_mem_ext n0 g raw st L S) as [E SR].
    destruct (parse_delimiter_mem g raw st) as [st1 [actual ul| | |]]; cbn [fst snd] in *;
      try solve [split; [assumption|auto]].
    destruct (N.eqb ul 0); [cbn; split; [assumption|auto]|].
    destruct (N.ltb _ _); [cbn; split; [assumption|auto]|].
    destruct (mslice2 actual (N.to_nat ul) (sl_len actual)) as [rest| |] eqn:ER;
      try solve [cbn; split; [assumption|auto]].
    destruct (mslice2 actual 0 (N.to_nat ul)) as [unit| |] eqn:EU;
      try solve [cbn; split; [assumption|auto]].
    assert (SA : safe n0 actual) by (eapply SR; reflexivity).
    assert (SRest : safe n0 rest) by (eapply safe_mslice2; eassumption).
    assert (R : ro n0 (fun _ : list slice => True)
                  (mdo us <- parse_raw_data_mem g f rest; mret (unit :: us))).
    { eapply ro_bind; [apply IH; assumption|]. intros us _. apply ro_ret. exact I. }
    destruct (R st1 (ext_len _ _ _ L E)) as [E2 _]. split; [exact (ext_trans _ _ _ _ E E2)|auto].
Qed.

(* ---- ParseTxs ---- *)

Lemma ro_parse_txs_mem n0 g views : ro n0 (fun _ => True) (parse_txs_mem g views).
Proof.
  unfold parse_txs_mem. destruct views as [|v0 tl]; [apply ro_ret; exact I|].
  eapply ro_bind; [apply ro_mmap with (P := fun _ => True); intros x; apply ro_mread|]. intros shs _.
  destruct (negb _); [apply ro_err|].
  eapply ro_bind; [apply ro_extract_raw_data_mem; apply safe_nil|]. intros raw S.
  eapply ro_bind; [apply ro_parse_raw_data_mem; exact S|]. intros units _.
  eapply ro_weaken; [apply ro_mmap with (P := fun _ => True); intros x; apply ro_mread|auto].
Qed.

(* ---- the statements: heap unchanged, writes only to fresh blocks ---- *)

(* final heap restricted to the initial block ids = initial heap;
   every W entry of the log targets a block allocated by the run *)
Definition run_read_only {A} (m : M A) (h : heap) : Prop :=
  firstn (length h) (st_heap (fst (m (mk_st h [])))) = h /\
  Forall (fun a => a_kind a = AW -> length h <= a_blk a) (st_log (fst (m (mk_st h [])))).

Theorem parse_blobs_mem_heap_unchanged : forall g h views, run_read_only (parse_blobs_mem g views) h.
Proof. intros. exact (ro_run _ _ h (ro_parse_blobs_mem (length h) g views)). Qed.

Theorem sequence_raw_data_mem_readonly : forall g h views, run_read_only (sequence_raw_data_mem g views) h.
Proof. intros. exact (ro_run _ _ h (ro_sequence_raw_data_mem (length h) g views)). Qed.

Theorem extract_raw_data_mem_readonly : forall g h views,
  run_read_only (extract_raw_data_mem g false views nil_slice) h.
Proof. intros. exact (ro_run _ _ h (ro_extract_raw_data_mem (length h) g views false nil_slice (safe_nil _))). Qed.

Theorem parse_txs_mem_readonly : forall g h views, run_read_only (parse_txs_mem g views) h.
Proof. intros. exact (ro_run _ _ h (ro_parse_txs_mem (length h) g views)). Qed.

(* parseDelimiter appends zero padding to input[:l].  Whenever its input lives
   in a block that did not exist in [h0] (as the buffer built by extractRawData
   does), or has no capacity, the first [length h0] blocks are unchanged and the
   write is logged against a block >= length h0; this holds from every state. *)
Theorem parse_delimiter_mem_readonly : forall g n0 input st,
  n0 <= length (st_heap st) -> safe n0 input -> Forall (wfresh n0) (st_log st) ->
  firstn n0 (st_heap (fst (parse_delimiter_mem g input st))) = firstn n0 (st_heap st) /\
  Forall (wfresh n0) (st_log (fst (parse_delimiter_mem g input st))).
Proof.
  intros g n0 input st L S W.
  destruct (parse_delimiter_mem_ext n0 g input st L S) as [(E & _ & K) _]. auto.
Qed.

(* ================================================================== *)
(* 2. Refinement: ParseBlobs on views computes the pure parse_blobs    *)
(* ================================================================== *)

(* a Go slice inside an allocated block *)
Definition wf_slice (h : heap) (s : slice) : Prop :=
  sl_blk s < length h /\ sl_len s <= sl_cap s /\
  sl_off s + sl_cap s <= length (hblock h (sl_blk s)).

(* a share view: 512 bytes inside a block of the heap, any capacity behind it *)
Definition view_ok (h : heap) (v : slice) : Prop := wf_slice h v /\ sl_len v = 512.

Lemma mem_skipn_skipn {A} : forall a b (l : list A), skipn a (skipn b l) = skipn (b + a) l.
Proof.
  intros a b. revert a. induction b as [|b IH]; intros a l.
  - rewrite skipn_O. reflexivity.
  - destruct l as [|x l].
    + rewrite !skipn_nil. reflexivity.
    + cbn [Nat.add]. change (skipn (S b) (x :: l)) with (skipn b l).
      change (skipn (S (b + a)) (x :: l)) with (skipn (b + a) l). apply IH.
Qed.

Lemma length_mread h s : wf_slice h s -> length (mread_bytes h s) = sl_len s.
Proof.
  intros (_ & L & B). unfold mread_bytes. apply firstn_length_le. rewrite skipn_length. lia.
Qed.

Lemma length_mread_le h s : length (mread_bytes h s) <= sl_len s.
Proof. unfold mread_bytes. apply firstn_le_length. Qed.

Lemma nth_firstn_lt {A} (d : A) : forall n l i, i < n -> nth i (firstn n l) d = nth i l d.
Proof.
  induction n as [|n IH]; intros l i H; [lia|].
  destruct l as [|x l]; [rewrite firstn_nil; reflexivity|].
  rewrite firstn_cons_S. destruct i as [|i]; cbn [nth]; auto. apply IH. lia.
Qed.

Lemma hblock_firstn n0 h h' b : firstn n0 h' = firstn n0 h -> b < n0 -> hblock h' b = hblock h b.
Proof.
  intros E L. unfold hblock.
  transitivity (nth b (firstn n0 h') (@nil byte)).
  - symmetry. apply nth_firstn_lt. assumption.
  - rewrite E. apply nth_firstn_lt. assumption.
Qed.

Lemma mread_same_block h h' s : hblock h' (sl_blk s) = hblock h (sl_blk s) -> mread_bytes h' s = mread_bytes h s.
Proof. unfold mread_bytes. intros ->. reflexivity. Qed.

Lemma wf_same_block h h' s :
  length h <= length h' -> hblock h' (sl_blk s) = hblock h (sl_blk s) -> wf_slice h s -> wf_slice h' s.
Proof. intros L E (A & B & C). unfold wf_slice. rewrite E. repeat split; auto. lia. Qed.

Lemma hblock_app_old h x b : b < length h -> hblock (h ++ [x]) b = hblock h b.
Proof. intros L. unfold hblock. apply app_nth1. assumption. Qed.

Lemma hblock_app_new h x : hblock (h ++ [x]) (length h) = x.
Proof. unfold hblock. apply nth_middle. Qed.

Lemma nth_upd_nth_other {A} (f : A -> A) (d : A) : forall l b b', b' <> b -> nth b' (upd_nth b f l) d = nth b' l d.
Proof.
  induction l as [|x l IH]; intros b b' H.
  - destruct b; reflexivity.
  - destruct b as [|b], b' as [|b']; cbn [upd_nth nth]; auto; try lia.
Qed.

Lemma nth_upd_nth_same {A} (f : A -> A) (d : A) : forall l b, b < length l -> nth b (upd_nth b f l) d = f (nth b l d).
Proof.
  induction l as [|x l IH]; intros b H; cbn [length] in H; [lia|].
  destruct b as [|b]; cbn [upd_nth nth]; auto. apply IH. lia.
Qed.

(* sub-slices denote sub-lists *)
Lemma mread_mslice2 h s lo hi r :
  mslice2 s lo hi = Ok r -> hi <= sl_len s ->
  mread_bytes h r = firstn (hi - lo) (skipn lo (mread_bytes h s)).
Proof.
  unfold mslice2. destruct (_ && _) eqn:E; intros K; inversion K; subst; clear K. intros H.
  apply andb_true_iff in E. destruct E as [E1 E2]. apply Nat.leb_le in E1.
  unfold mread_bytes. cbn [sl_blk sl_off sl_len].
  rewrite skipn_firstn_comm, firstn_firstn, mem_skipn_skipn.
  rewrite Nat.min_l by lia. reflexivity.
Qed.

(* s[k:len(s)] denotes skipn k *)
Lemma mread_mslice2_from h s k r :
  mslice2 s k (sl_len s) = Ok r -> mread_bytes h r = skipn k (mread_bytes h s).
Proof.
  intros K. rewrite (mread_mslice2 h s k (sl_len s) r K (le_n _)).
  apply firstn_all2. rewrite skipn_length. pose proof (length_mread_le h s). lia.
Qed.

Lemma mslice2_ok s lo hi : lo <= hi -> hi <= sl_cap s ->
  mslice2 s lo hi = Ok (mk_slice (sl_blk s) (sl_off s + lo) (hi - lo) (sl_cap s - lo)).
Proof.
  intros A B. unfold mslice2.
  rewrite (proj2 (Nat.leb_le lo hi) A), (proj2 (Nat.leb_le hi (sl_cap s)) B). reflexivity.
Qed.

(* what append does, for a destination that is nil-like or inside a block *)
Lemma mappend_lit_spec g dst data st :
  (sl_cap dst = 0 /\ sl_len dst = 0 \/ wf_slice (st_heap st) dst) ->
  data <> [] ->
  exists st' d, mappend_lit g dst data st = (st', d) /\
    length (st_heap st) <= length (st_heap st') /\
    (forall b, b < length (st_heap st) -> b <> sl_blk d -> hblock (st_heap st') b = hblock (st_heap st) b) /\
    mread_bytes (st_heap st') d = mread_bytes (st_heap st) dst ++ data /\
    wf_slice (st_heap st') d /\
    (sl_blk d = length (st_heap st) \/ (sl_blk d = sl_blk dst /\ 0 < sl_cap dst)) /\
    (* the bytes of an existing block in front of the end of dst are not touched *)
    (forall s, sl_blk s < length (st_heap st) ->
       (sl_blk s = sl_blk dst -> sl_off s + sl_len s <= sl_off dst + sl_len dst) ->
       mread_bytes (st_heap st') s = mread_bytes (st_heap st) s) /\
    (* existing blocks do not shrink *)
    (forall b, b < length (st_heap st) -> length (hblock (st_heap st) b) <= length (hblock (st_heap st') b)).
Proof.
  intros HD NE.
  set (h := st_heap st) in *.
  unfold mappend_lit. destruct data as [|d0 data'] eqn:ED; [congruence|].
  rewrite <- ED. assert (LD : 1 <= length data) by (rewrite ED; cbn; lia). clear ED NE.
  fold h.
  destruct (Nat.leb (sl_len dst + length data) (sl_cap dst)) eqn:E.
  - (* in place *)
    apply Nat.leb_le in E. destruct HD as [[C0 _]|(WB & WL & WC)]; [lia|].
    eexists _, _. split; [reflexivity|]. cbn [st_heap log_acc sl_blk sl_off sl_len sl_cap].
    set (B := hblock h (sl_blk dst)) in *.
    assert (HB : hblock (hwrite h (sl_blk dst) (sl_off dst + sl_len dst) data) (sl_blk dst)
                 = set_at (sl_off dst + sl_len dst) data B).
    { unfold hblock, hwrite. apply nth_upd_nth_same. assumption. }
    assert (HO : forall b, b <> sl_blk dst ->
                 hblock (hwrite h (sl_blk dst) (sl_off dst + sl_len dst) data) b = hblock h b).
    { intros b Hb. unfold hblock, hwrite. apply nth_upd_nth_other. assumption. }
    split; [unfold hwrite; rewrite length_upd_nth; lia|].
    split; [intros b _ Hb; apply HO; assumption|].
    split.
    { unfold mread_bytes at 1. cbn [sl_blk sl_off sl_len]. rewrite HB. unfold set_at.
      rewrite skipn_app.
      rewrite firstn_length_le by lia.
      replace (sl_off dst - (sl_off dst + sl_len dst)) with 0 by lia. rewrite skipn_O.
      rewrite <- firstn_skipn_comm. fold (mread_bytes h dst).
      assert (LM : length (mread_bytes h dst) = sl_len dst) by (apply length_mread; repeat split; auto).
      rewrite <- LM at 1. rewrite firstn_app_2. f_equal.
      replace (length data) with (length data + 0) at 1 by lia.
      rewrite firstn_app_2, firstn_O. apply app_nil_r. }
    split.
    { repeat split; cbn [sl_blk sl_off sl_len sl_cap].
      - unfold hwrite. rewrite length_upd_nth. assumption.
      - assumption.
      - rewrite HB. unfold set_at. rewrite !app_length, firstn_length_le, skipn_length by lia. lia. }
    split; [right; split; [reflexivity|lia]|].
    split.
    2:{ intros b Hb. destruct (Nat.eq_dec b (sl_blk dst)) as [EQ|NEQ].
        - subst b. rewrite HB. fold B. unfold set_at.
          rewrite !app_length, firstn_length_le, skipn_length by lia. lia.
        - rewrite HO by assumption. lia. }
    intros s SB SBelow.
    destruct (Nat.eq_dec (sl_blk s) (sl_blk dst)) as [EQ|NEQ].
    + specialize (SBelow EQ). unfold mread_bytes. rewrite EQ, HB. fold B. unfold set_at.
      rewrite skipn_app, firstn_app.
      rewrite firstn_length_le by lia.
      rewrite skipn_length, firstn_length_le by lia.
      replace (sl_len s - (sl_off dst + sl_len dst - sl_off s)) with 0 by lia.
      rewrite firstn_O, app_nil_r.
      rewrite skipn_firstn_comm, firstn_firstn. rewrite Nat.min_l by lia. reflexivity.
    + apply mread_same_block. apply HO. assumption.
  - (* grow *)
    apply Nat.leb_gt in E.
    eexists _, _. split; [reflexivity|]. cbn [st_heap log_read log_acc sl_blk sl_off sl_len sl_cap]. fold h.
    assert (LM : length (mread_bytes h dst) = sl_len dst).
    { destruct HD as [[C0 L0]|W]; [|apply length_mread; assumption].
      pose proof (length_mread_le h dst). lia. }
    set (n := sl_len dst + length data) in *.
    split; [rewrite app_length; lia|].
    split; [intros b Hb _; apply hblock_app_old; assumption|].
    split.
    { unfold mread_bytes at 1. cbn [sl_blk sl_off sl_len]. rewrite hblock_app_new, skipn_O.
      rewrite app_assoc. replace n with (length (mread_bytes h dst ++ data) + 0)
        by (rewrite app_length; lia).
      rewrite firstn_app_2, firstn_O. apply app_nil_r. }
    split.
    { repeat split; cbn [sl_blk sl_off sl_len sl_cap].
      - rewrite app_length. cbn. lia.
      - unfold new_cap. lia.
      - rewrite hblock_app_new, !app_length, length_zeros. unfold new_cap. lia. }
    split; [left; reflexivity|].
    split.
    + intros s SB _. apply mread_same_block. apply hblock_app_old. assumption.
    + intros b Hb. rewrite hblock_app_old by assumption. lia.
Qed.

Lemma mappend_spec g dst src st :
  (sl_cap dst = 0 /\ sl_len dst = 0 \/ wf_slice (st_heap st) dst) ->
  mread_bytes (st_heap st) src <> [] ->
  exists st' d, mappend g dst src st = (st', Ok d) /\
    length (st_heap st) <= length (st_heap st') /\
    (forall b, b < length (st_heap st) -> b <> sl_blk d -> hblock (st_heap st') b = hblock (st_heap st) b) /\
    mread_bytes (st_heap st') d = mread_bytes (st_heap st) dst ++ mread_bytes (st_heap st) src /\
    wf_slice (st_heap st') d /\
    (sl_blk d = length (st_heap st) \/ (sl_blk d = sl_blk dst /\ 0 < sl_cap dst)).
Proof.
  intros HD NE. unfold mappend.
  destruct (mappend_lit_spec g dst (mread_bytes (st_heap st) src) (log_read src st) HD NE)
    as (st' & d & EQ & A & B & C & D & E & _ & _).
  rewrite EQ. exists st', d. cbn [log_read log_acc st_heap] in *.
  split; [reflexivity|]. split; [exact A|]. split; [exact B|]. split; [exact C|]. split; [exact D|exact E].
Qed.

(* one iteration of the pure parser *)
Definition pure_step (s : share) (seqs : list pseq) : outcome (list pseq) :=
  if negb (sh_version_supported s) then Err else
  if sh_is_padding s then Ok seqs else
  if sh_start s then
    Ok (mk_pseq (sh_ns s) (sh_version s) (sh_raw_data s) (sh_seq_len s) (sh_signer s) :: seqs)
  else
    match seqs with
    | [] => Err
    | q :: older =>
      Ok (mk_pseq (q_ns q) (q_ver q) (q_data q ++ sh_raw_data s) (q_len q) (q_signer q) :: older)
    end.

Lemma parse_sparse_loop_cons s tl seqs :
  parse_sparse_loop (s :: tl) seqs = bind (pure_step s seqs) (parse_sparse_loop tl).
Proof.
  cbn [parse_sparse_loop]. unfold pure_step.
  destruct (negb (sh_version_supported s)); [reflexivity|].
  destruct (sh_is_padding s); [reflexivity|].
  destruct (sh_start s); [reflexivity|].
  destruct seqs; reflexivity.
Qed.

(* a sequence of the memory-level parser represents a sequence of the pure one:
   namespace and signer are views of pre-existing blocks (read in the initial heap),
   the data is a private buffer (read in the current heap) *)
Record seq_rel (n0 : nat) (h0 h : heap) (q : mseq) (p : pseq) : Prop := mk_seq_rel {
  sr_ns_blk : sl_blk (m_ns q) < n0;
  sr_ns : mread_bytes h0 (m_ns q) = q_ns p;
  sr_ver : m_ver q = q_ver p;
  sr_len : m_len q = q_len p;
  sr_sg : match m_signer q, q_signer p with
          | Some s, Some b => sl_blk s < n0 /\ mread_bytes h0 s = b
          | None, None => True
          | _, _ => False
          end;
  sr_wf : wf_slice h (m_data q);
  sr_fresh : n0 <= sl_blk (m_data q);
  sr_data : mread_bytes h (m_data q) = q_data p
}.

Definition dblk (q : mseq) : nat := sl_blk (m_data q).

Lemma seq_rel_frame n0 h0 h h' q p :
  length h <= length h' -> hblock h' (dblk q) = hblock h (dblk q) ->
  seq_rel n0 h0 h q p -> seq_rel n0 h0 h' q p.
Proof.
  intros L E [A B C D F G H I]. constructor; auto.
  - eapply wf_same_block; eassumption.
  - rewrite <- I. apply mread_same_block. assumption.
Qed.

Lemma raw_data_start_le s : raw_data_start s <= 58.
Proof.
  unfold raw_data_start, addif.
  destruct (sh_start s), (sh_is_compact s), (N.eqb (sh_version s) 1); cbn; lia.
Qed.

Lemma seqs_rel_safe n0 h0 h seqs pseqs : Forall2 (seq_rel n0 h0 h) seqs pseqs -> seqs_safe n0 seqs.
Proof.
  induction 1; constructor; auto. right. apply (sr_fresh _ _ _ _ _ H).
Qed.

Lemma Forall2_dblk_lt n0 h0 h seqs pseqs :
  Forall2 (seq_rel n0 h0 h) seqs pseqs -> Forall (fun b => b < length h) (map dblk seqs).
Proof.
  induction 1; cbn [map]; constructor; auto. apply (sr_wf _ _ _ _ _ H).
Qed.

Lemma Forall2_frame n0 h0 h h' seqs pseqs :
  length h <= length h' ->
  (forall b, In b (map dblk seqs) -> hblock h' b = hblock h b) ->
  Forall2 (seq_rel n0 h0 h) seqs pseqs -> Forall2 (seq_rel n0 h0 h') seqs pseqs.
Proof.
  intros L E F. induction F; constructor.
  - eapply seq_rel_frame; try eassumption. apply E. left. reflexivity.
  - apply IHF. intros b Hb. apply E. right. assumption.
Qed.

(* the state after one iteration, related to the pure iteration *)
Definition step_rel (n0 : nat) (h0 : heap) (st' : mstate) (o : outcome (list mseq))
           (po : outcome (list pseq)) : Prop :=
  match o, po with
  | Ok seqs', Ok pseqs' =>
    Forall2 (seq_rel n0 h0 (st_heap st')) seqs' pseqs' /\ NoDup (map dblk seqs')
  | Err, Err => True
  | Fault, Fault => True
  | _, _ => False
  end.

Lemma parse_sparse_step_refines g h0 st v seqs pseqs :
  firstn (length h0) (st_heap st) = h0 ->
  view_ok h0 v ->
  Forall2 (seq_rel (length h0) h0 (st_heap st)) seqs pseqs -> NoDup (map dblk seqs) ->
  step_rel (length h0) h0 (fst (parse_sparse_step g true v seqs st))
           (snd (parse_sparse_step g true v seqs st)) (pure_step (mread_bytes h0 v) pseqs).
Proof.
  intros EH [(VB & VL & VC) V512] F ND.
  assert (LN : length h0 <= length (st_heap st)).
  { rewrite <- EH at 1. rewrite firstn_length. lia. }
  set (n0 := length h0) in *.
  assert (EH' : firstn n0 (st_heap st) = firstn n0 h0) by (rewrite EH; symmetry; apply firstn_all).
  assert (SH : mread_bytes (st_heap st) v = mread_bytes h0 v).
  { apply mread_same_block. eapply hblock_firstn; eassumption. }
  assert (LSH : length (mread_bytes h0 v) = 512).
  { rewrite <- V512. apply length_mread. repeat split; assumption. }
  unfold parse_sparse_step, mbind, mread. cbn [fst snd]. rewrite SH.
  set (sh := mread_bytes h0 v) in *. unfold pure_step.
  destruct (negb (sh_version_supported sh)); [cbn; exact I|].
  destruct (sh_is_padding sh).
  { cbn. split; assumption. }
  pose proof (raw_data_start_le sh) as RS.
  unfold raw_data_view, mlift.
  rewrite (mslice2_ok v (raw_data_start sh) (sl_len v)) by lia.
  set (raw := mk_slice (sl_blk v) (sl_off v + raw_data_start sh) (sl_len v - raw_data_start sh)
                       (sl_cap v - raw_data_start sh)).
  assert (RAW : mread_bytes (st_heap st) raw = sh_raw_data sh).
  { unfold sh_raw_data.
    transitivity (skipn (raw_data_start sh) (mread_bytes (st_heap st) v)); [|rewrite SH; reflexivity].
    apply mread_mslice2_from. apply mslice2_ok; lia. }
  assert (RAWNE : mread_bytes (st_heap (log_read v st)) raw <> []).
  { cbn [log_read log_acc st_heap]. rewrite RAW. unfold sh_raw_data. intros K.
    apply (f_equal (@length byte)) in K. rewrite skipn_length in K. cbn [length] in K. lia. }
  destruct (sh_start sh) eqn:START.
  - (* sequence start: copy into a fresh buffer *)
    rewrite (mslice2_ok v 0 29) by lia.
    unfold signer_view. rewrite START.
    assert (SG : exists sg, (if (N.eqb (sh_version sh) 1) && true
                    then do s <- mslice2 v 34 54; Ok (Some s) else Ok None) = Ok sg /\
                 match sg, sh_signer sh with
                 | Some s, Some b => sl_blk s < n0 /\ mread_bytes h0 s = b
                 | None, None => True
                 | _, _ => False
                 end).
    { unfold sh_signer. rewrite START. destruct (N.eqb (sh_version sh) 1); cbn [andb].
      - rewrite (mslice2_ok v 34 54) by lia. cbn [bind]. eexists. split; [reflexivity|].
        split; [exact VB|]. fold sh.
        rewrite (mread_mslice2 h0 v 34 54 _ (mslice2_ok v 34 54 ltac:(lia) ltac:(lia))) by lia.
        reflexivity.
      - eexists. split; [reflexivity|]. exact I. }
    destruct SG as (sg & -> & SGR).
    unfold mcopy_fresh.
    destruct (mappend_spec g nil_slice raw (log_read v st)) as (st2 & d & EQ & L2 & FR & RD & WF & BLK).
    { left. split; reflexivity. }
    { exact RAWNE. }
    rewrite EQ. cbn [fst snd mret]. cbn [log_read log_acc st_heap] in *.
    destruct BLK as [BLK|[_ BLK]]; [|cbn in BLK; lia].
    pose proof (Forall2_dblk_lt _ _ _ _ _ F) as LT.
    split.
    + constructor.
      * constructor; cbn [m_ns m_ver m_data m_len m_signer q_ns q_ver q_data q_len q_signer]; auto.
        -- fold sh.
           rewrite (mread_mslice2 h0 v 0 29 _ (mslice2_ok v 0 29 ltac:(lia) ltac:(lia))) by lia.
           rewrite skipn_O. reflexivity.
        -- rewrite BLK. exact LN.
        -- rewrite RD, RAW. reflexivity.
      * eapply Forall2_frame; [exact L2| |exact F].
        intros b Hb. apply FR.
        -- rewrite Forall_forall in LT. apply LT. assumption.
        -- rewrite Forall_forall in LT. specialize (LT b Hb). lia.
    + cbn [map]. constructor; [|assumption]. unfold dblk at 1. cbn [m_data].
      rewrite Forall_forall in LT. intros K. specialize (LT _ K). lia.
  - (* continuation: append to the newest sequence *)
    destruct F as [|q p older polder QP F]; [cbn; exact I|].
    destruct (mappend_spec g (m_data q) raw (log_read v st)) as (st2 & d & EQ & L2 & FR & RD & WF & BLK).
    { right. exact (sr_wf _ _ _ _ _ QP). }
    { exact RAWNE. }
    rewrite EQ. cbn [fst snd mret]. cbn [log_read log_acc st_heap] in *.
    pose proof (Forall2_dblk_lt _ _ _ _ _ F) as LT. rewrite Forall_forall in LT.
    cbn [map] in ND. apply NoDup_cons_iff in ND. destruct ND as [NI ND'].
    assert (DNEW : forall b, In b (map dblk older) -> b <> sl_blk d).
    { intros b Hb. destruct BLK as [BLK|[BLK _]].
      - specialize (LT b Hb). lia.
      - intros K. apply NI. unfold dblk at 1. rewrite <- BLK, <- K. assumption. }
    split.
    + constructor.
      * destruct QP as [A B C D E' G H I0].
        constructor; cbn [m_ns m_ver m_data m_len m_signer q_ns q_ver q_data q_len q_signer]; auto.
        -- destruct BLK as [BLK|[BLK _]]; rewrite BLK; [exact LN|assumption].
        -- rewrite RD, RAW, I0. reflexivity.
      * eapply Forall2_frame; [exact L2| |exact F].
        intros b Hb. apply FR; [apply LT; assumption|apply DNEW; assumption].
    + cbn [map]. constructor; [|assumption]. unfold dblk at 1. cbn [m_data].
      intros K. apply (DNEW _ K). reflexivity.
Qed.

Lemma parse_sparse_loop_refines g h0 : forall views st seqs pseqs,
  firstn (length h0) (st_heap st) = h0 ->
  Forall (view_ok h0) views ->
  Forall2 (seq_rel (length h0) h0 (st_heap st)) seqs pseqs -> NoDup (map dblk seqs) ->
  firstn (length h0) (st_heap (fst (parse_sparse_loop_mem g true views seqs st))) = h0 /\
  step_rel (length h0) h0 (fst (parse_sparse_loop_mem g true views seqs st))
           (snd (parse_sparse_loop_mem g true views seqs st))
           (parse_sparse_loop (map (mread_bytes h0) views) pseqs).
Proof.
  induction views as [|v tl IH]; intros st seqs pseqs EH FV F ND.
  - cbn. repeat split; assumption.
  - cbn [parse_sparse_loop_mem map]. rewrite parse_sparse_loop_cons. unfold mbind.
    inversion FV as [|v' tl' VOK FV']; subst.
    pose proof (parse_sparse_step_refines g h0 st v seqs pseqs EH VOK F ND) as SR.
    assert (LN : length h0 <= length (st_heap st)).
    { rewrite <- EH at 1. rewrite firstn_length. lia. }
    pose proof (ro_parse_sparse_step (length h0) g v seqs (seqs_rel_safe _ _ _ _ _ F) st LN) as [E _].
    destruct (parse_sparse_step g true v seqs st) as [st1 o]. cbn [fst snd] in *.
    assert (EH1 : firstn (length h0) (st_heap st1) = h0).
    { destruct E as [E1 _]. rewrite E1. exact EH. }
    destruct o as [seqs'| |], (pure_step (mread_bytes h0 v) pseqs) as [pseqs'| |];
      cbn [step_rel] in SR; try contradiction; cbn [bind fst snd].
    + destruct SR as [F' ND']. apply IH; assumption.
    + split; [assumption|exact I].
    + split; [assumption|exact I].
Qed.

Lemma finish_mseq_refines h0 st q p :
  firstn (length h0) (st_heap st) = h0 ->
  seq_rel (length h0) h0 (st_heap st) q p ->
  st_heap (fst (finish_mseq q st)) = st_heap st /\ snd (finish_mseq q st) = finish_pseq p.
Proof.
  intros EH [NB NS VER LEN SG WF FR DATA].
  assert (EH' : firstn (length h0) (st_heap st) = firstn (length h0) h0)
    by (rewrite EH; symmetry; apply firstn_all).
  unfold finish_mseq, finish_pseq.
  assert (LD : lenN (q_data p) = N.of_nat (sl_len (m_data q))).
  { unfold lenN. rewrite <- DATA, length_mread by assumption. reflexivity. }
  rewrite LD, <- LEN.
  destruct (N.ltb (N.of_nat (sl_len (m_data q))) (m_len q)) eqn:LT.
  { cbn. split; reflexivity. }
  apply N.ltb_ge in LT.
  assert (LE : N.to_nat (m_len q) <= sl_len (m_data q)) by lia.
  destruct WF as (WB & WL & WC).
  unfold mbind, mlift. rewrite (mslice2_ok (m_data q) 0 (N.to_nat (m_len q))) by lia.
  set (d := mk_slice _ _ _ _).
  unfold slice_to. rewrite LD. rewrite (proj2 (N.leb_le _ _) LT). cbn [bind].
  assert (RNS : mread_bytes (st_heap st) (m_ns q) = q_ns p).
  { rewrite <- NS. apply mread_same_block. eapply hblock_firstn; eassumption. }
  assert (RD : mread_bytes (st_heap st) d = takeN (m_len q) (q_data p)).
  { rewrite (mread_mslice2 (st_heap st) (m_data q) 0 (N.to_nat (m_len q)) d) by (try apply mslice2_ok; lia).
    rewrite skipn_O, Nat.sub_0_r, DATA. reflexivity. }
  clearbody d.
  destruct (m_signer q) as [s|], (q_signer p) as [b|]; try contradiction; cbn [mread_opt].
  - destruct SG as [SB SR].
    assert (RS : mread_bytes (st_heap st) s = b).
    { rewrite <- SR. apply mread_same_block. eapply hblock_firstn; eassumption. }
    unfold mbind, mread, mret. cbn [fst snd log_read log_acc st_heap].
    rewrite RNS, RD, RS, VER. split; reflexivity.
  - unfold mbind, mread, mret. cbn [fst snd log_read log_acc st_heap].
    rewrite RNS, RD, VER. split; reflexivity.
Qed.

Lemma mmap_finish_refines h0 : forall seqs pseqs st,
  firstn (length h0) (st_heap st) = h0 ->
  Forall2 (seq_rel (length h0) h0 (st_heap st)) seqs pseqs ->
  st_heap (fst (mmap finish_mseq seqs st)) = st_heap st /\
  snd (mmap finish_mseq seqs st) = map_outcome finish_pseq pseqs.
Proof.
  induction seqs as [|q seqs IH]; intros pseqs st EH F; inversion F as [|q' p seqs' pseqs' QP F']; subst.
  - cbn. split; reflexivity.
  - cbn [mmap map_outcome]. unfold mbind.
    destruct (finish_mseq_refines h0 st q p EH QP) as [H1 R1].
    destruct (finish_mseq q st) as [st1 o1]. cbn [fst snd] in *. rewrite <- R1.
    destruct o1 as [b| |]; cbn [bind]; try (split; [assumption|reflexivity]).
    destruct (IH pseqs' st1) as [H2 R2].
    { rewrite H1. assumption. }
    { rewrite H1. assumption. }
    destruct (mmap finish_mseq seqs st1) as [st2 o2]. cbn [fst snd] in *. rewrite <- R2.
    destruct o2 as [bs| |]; cbn [bind mret fst snd]; (split; [congruence|reflexivity]).
Qed.

Lemma Forall2_rev_ {A B} (R : A -> B -> Prop) l l' : Forall2 R l l' -> Forall2 R (rev l) (rev l').
Proof.
  induction 1; cbn [rev]; [constructor|]. apply Forall2_app; auto.
Qed.

(* the result of ParseBlobs on views = the pure parser on the bytes the views denote *)
Theorem parse_blobs_mem_refines : forall g h views,
  Forall (view_ok h) views ->
  snd (parse_blobs_mem g views (mk_st h [])) = parse_blobs (map (mread_bytes h) views).
Proof.
  intros g h views FV. unfold parse_blobs_mem, parse_blobs_gen, parse_blobs, mbind.
  destruct (parse_sparse_loop_refines g h views (mk_st h []) [] [] (firstn_all h) FV
              (Forall2_nil _) (NoDup_nil _)) as [EH SR].
  destruct (parse_sparse_loop_mem g true views [] (mk_st h [])) as [st1 o]. cbn [fst snd] in *.
  destruct o as [seqs| |], (parse_sparse_loop (map (mread_bytes h) views) []) as [pseqs| |];
    cbn [step_rel] in SR; try contradiction; cbn [bind snd]; try reflexivity.
  destruct SR as [F _].
  destruct (mmap_finish_refines h (rev seqs) (rev pseqs) st1 EH (Forall2_rev_ _ _ _ F)) as [_ R].
  exact R.
Qed.

(* heap unchanged, writes only to fresh blocks, result = pure model *)
Theorem parse_blobs_mem_readonly : forall g h views,
  run_read_only (parse_blobs_mem g views) h /\
  (Forall (view_ok h) views ->
   snd (parse_blobs_mem g views (mk_st h [])) = parse_blobs (map (mread_bytes h) views)).
Proof.
  intros. split; [apply parse_blobs_mem_heap_unchanged|apply parse_blobs_mem_refines].
Qed.

(* ================================================================== *)
(* 3. The code before the repair of defect D7 modifies its input       *)
(* ================================================================== *)

(* a 1200-byte blob = 3 shares, laid out back to back in ONE 1536-byte block;
   the three share views have the whole rest of the block as capacity *)
Definition d7_ns : bytes := zeros 28 ++ [Byte.x07].
Definition d7_blob : blob := mk_blob d7_ns (repeat Byte.x41 1200) 0%N None.
Definition d7_shares : list share := match blob_to_shares d7_blob with Ok l => l | _ => [] end.
Definition d7_arena : bytes := concat d7_shares.
Definition d7_views : list slice :=
  [mk_slice 0 0 512 1536; mk_slice 0 512 512 1024; mk_slice 0 1024 512 512].

Lemma first_diff_refl : forall a i, first_diff i a a = None.
Proof. induction a as [|x a IH]; intros i; cbn [first_diff]; auto. rewrite byte_eqb_refl. apply IH. Qed.

(* decidable form of view_ok, for concrete instances *)
Definition view_okb (h : heap) (v : slice) : bool :=
  Nat.ltb (sl_blk v) (length h) && Nat.leb (sl_len v) (sl_cap v) &&
  Nat.leb (sl_off v + sl_cap v) (length (hblock h (sl_blk v))) && Nat.eqb (sl_len v) 512.

Lemma views_okb_ok h views : forallb (view_okb h) views = true -> Forall (view_ok h) views.
Proof.
  intros H. apply Forall_forall. intros v Hv. rewrite forallb_forall in H. specialize (H v Hv).
  unfold view_okb in H. rewrite !andb_true_iff in H. destruct H as [[[A B] C] D].
  apply Nat.ltb_lt in A. apply Nat.leb_le in B, C. apply Nat.eqb_eq in D.
  repeat split; assumption.
Qed.

Lemma d7_views_ok : Forall (view_ok [d7_arena]) d7_views.
Proof. apply views_okb_ok. vm_compute. reflexivity. Qed.

(* the views denote exactly the shares of the blob *)
Lemma d7_views_denote : map (mread_bytes [d7_arena]) d7_views = d7_shares.
Proof. vm_compute. reflexivity. Qed.

Theorem parse_blobs_mem_legacy_refuted :
  exists (h : heap) (views : list slice),
    Forall (view_ok h) views /\
    (* adjacent views of one block *)
    (exists v1 v2, In v1 views /\ In v2 views /\ sl_blk v1 = sl_blk v2 /\ sl_off v2 = sl_off v1 + sl_len v1) /\
    let st' := fst (parse_blobs_mem_legacy grow_double views (mk_st h [])) in
    (* byte 512 of the pre-existing block (the first byte of the second share) is overwritten *)
    first_diff 0 (hblock h 0) (hblock (st_heap st') 0) = Some 512 /\
    firstn (length h) (st_heap st') <> h /\
    (* and the log shows the write into block 0 *)
    log_writes_below (length h) (st_log st') = true /\
    (* while the repaired parser leaves it alone on the same input *)
    firstn (length h) (st_heap (fst (parse_blobs_mem grow_double views (mk_st h [])))) = h.
Proof.
  exists [d7_arena], d7_views. split; [exact d7_views_ok|]. split.
  { exists (mk_slice 0 0 512 1536), (mk_slice 0 512 512 1024).
    repeat split; cbn; auto. }
  cbv zeta.
  set (h' := st_heap (fst (parse_blobs_mem_legacy grow_double d7_views (mk_st [d7_arena] [])))).
  assert (D : first_diff 0 (hblock [d7_arena] 0) (hblock h' 0) = Some 512) by (vm_compute; reflexivity).
  split; [exact D|]. split; [|split].
  - intros K. rewrite (hblock_firstn 1 [d7_arena] h' 0) in D.
    + rewrite first_diff_refl in D. discriminate D.
    + cbn [length] in K. rewrite K. reflexivity.
    + auto.
  - vm_compute. reflexivity.
  - apply parse_blobs_mem_heap_unchanged.
Qed.

(* ================================================================== *)
(* 4. Concurrent readers                                               *)
(* ================================================================== *)

(* Threads run atomic steps over a heap whose first [n0] blocks are SHARED and
   pre-existing.  Modelling assumption (Go: memory a goroutine allocates is
   unreachable from other goroutines until it is published, and none of the
   modelled functions publishes): each thread allocates in its own address
   space, so the heap a step of thread t sees is  shared ++ private_t .  A step
   is an ARBITRARY function on that view and on the thread's locals; whatever it
   returns as the first n0 blocks is written back to the shared memory.  The
   discipline - "reads anything it can see, writes only blocks it allocated" -
   is a hypothesis on the steps ([disciplined]), not built into their type. *)
Section Interleave.
  Context {L : Type}.
  (* an invariant of the thread-local state that the steps maintain (e.g. "the
     accumulation buffers held in local variables are private") *)
  Context (Inv : L -> Prop).

  Definition tstep : Type := mstate * L -> mstate * L.
  Record tconf : Type := mk_tconf { tc_priv : heap; tc_log : list access; tc_loc : L }.

  Definition exec_step (n0 : nat) (shared : heap) (f : tstep) (c : tconf) : heap * tconf :=
    let r := f (mk_st (shared ++ tc_priv c) (tc_log c), tc_loc c) in
    (firstn n0 (st_heap (fst r)),
     mk_tconf (skipn n0 (st_heap (fst r))) (st_log (fst r)) (snd r)).

  (* a thread: its remaining steps and its configuration *)
  Definition gstate : Type := (heap * list (list tstep * tconf))%type.

  (* scheduling thread i runs its next step (nothing happens if it has finished) *)
  Definition sched_step (n0 : nat) (gs : gstate) (i : nat) : gstate :=
    match nth_error (snd gs) i with
    | Some (f :: rest, c) =>
      let r := exec_step n0 (fst gs) f c in
      (fst r, upd_nth i (fun _ => (rest, snd r)) (snd gs))
    | _ => gs
    end.

  (* an interleaving = a schedule = the order in which the threads' steps are merged *)
  Definition run_sched (n0 : nat) (sched : list nat) (gs : gstate) : gstate :=
    fold_left (sched_step n0) sched gs.

  (* a thread running alone on the heap [h0] (the shared part is threaded too) *)
  Definition run_alone (n0 : nat) (h0 : heap) (steps : list tstep) (c : tconf) : heap * tconf :=
    fold_left (fun s f => exec_step n0 (fst s) f (snd s)) steps (h0, c).

  (* the discipline: a step leaves the first n0 blocks alone and logs every write
     against a block it owns (id >= n0) - whenever the local invariant holds,
     which it re-establishes *)
  Definition disciplined (n0 : nat) (f : tstep) : Prop :=
    forall st l, n0 <= length (st_heap st) -> Inv l ->
      ext n0 st (fst (f (st, l))) /\ Inv (snd (f (st, l))).

  (* global identity of the block an access of thread t touches *)
  Inductive gblock := GShared (b : nat) | GPrivate (t b : nat).
  Definition gblock_of (n0 t : nat) (a : access) : gblock :=
    if Nat.ltb (a_blk a) n0 then GShared (a_blk a) else GPrivate t (a_blk a).

  (* two accesses of different threads to the same block, at least one a write *)
  Definition conflict (n0 t1 : nat) (a1 : access) (t2 : nat) (a2 : access) : Prop :=
    t1 <> t2 /\ gblock_of n0 t1 a1 = gblock_of n0 t2 a2 /\ (a_kind a1 = AW \/ a_kind a2 = AW).

  Lemma wfresh_no_conflict n0 t1 a1 t2 a2 :
    wfresh n0 a1 -> wfresh n0 a2 -> ~ conflict n0 t1 a1 t2 a2.
  Proof.
    intros W1 W2 (NE & G & K). unfold gblock_of in G.
    destruct (Nat.ltb (a_blk a1) n0) eqn:E1, (Nat.ltb (a_blk a2) n0) eqn:E2;
      try discriminate G.
    - apply Nat.ltb_lt in E1, E2. destruct K as [K|K]; [specialize (W1 K)|specialize (W2 K)]; lia.
    - inversion G. contradiction.
  Qed.

  Definition thread_ok (n0 : nat) (th : list tstep * tconf) : Prop :=
    Forall (disciplined n0) (fst th) /\ Forall (wfresh n0) (tc_log (snd th)) /\ Inv (tc_loc (snd th)).

  Lemma exec_step_disciplined h0 f c :
    disciplined (length h0) f -> Forall (wfresh (length h0)) (tc_log c) -> Inv (tc_loc c) ->
    fst (exec_step (length h0) h0 f c) = h0 /\
    Forall (wfresh (length h0)) (tc_log (snd (exec_step (length h0) h0 f c))) /\
    Inv (tc_loc (snd (exec_step (length h0) h0 f c))).
  Proof.
    intros D W I0. unfold exec_step. cbn [fst snd tc_log tc_loc].
    specialize (D (mk_st (h0 ++ tc_priv c) (tc_log c)) (tc_loc c)).
    cbn [st_heap st_log] in D. rewrite app_length in D.
    destruct (D ltac:(lia) I0) as ((E & _ & K) & I1). cbn [st_heap st_log] in E, K. split; [|split].
    - rewrite E. rewrite firstn_app_le by lia. apply firstn_all.
    - apply K. assumption.
    - assumption.
  Qed.

  (* relation between a thread as given and the same thread at some point of a run *)
  Definition thread_rel (h0 : heap) (th0 th : list tstep * tconf) : Prop :=
    Forall (disciplined (length h0)) (fst th0) /\
    Forall (wfresh (length h0)) (tc_log (snd th)) /\
    Inv (tc_loc (snd th)) /\
    exists done, fst th0 = done ++ fst th /\ run_alone (length h0) h0 done (snd th0) = (h0, snd th).

  Lemma Forall2_len {A B} (R : A -> B -> Prop) l l' : Forall2 R l l' -> length l = length l'.
  Proof. induction 1; cbn [length]; congruence. Qed.

  Lemma Forall2_nth_error {A B} (R : A -> B -> Prop) : forall l l' i x',
    Forall2 R l l' -> nth_error l' i = Some x' -> exists x, nth_error l i = Some x /\ R x x'.
  Proof.
    induction l as [|a l IH]; intros l' i x' F N; inversion F; subst.
    - destruct i; discriminate N.
    - destruct i as [|i]; cbn [nth_error] in *.
      + inversion N; subst. eexists; split; [reflexivity|assumption].
      + eapply IH; eassumption.
  Qed.

  Lemma Forall2_upd_nth {A B} (R : A -> B -> Prop) (y : B) : forall l l' i x,
    Forall2 R l l' -> nth_error l i = Some x -> R x y -> Forall2 R l (upd_nth i (fun _ => y) l').
  Proof.
    induction l as [|a l IH]; intros l' i x F N Rxy; inversion F; subst.
    - destruct i; discriminate N.
    - destruct i as [|i]; cbn [nth_error upd_nth] in *.
      + inversion N; subst. constructor; assumption.
      + constructor; [assumption|]. eapply IH; eassumption.
  Qed.

  Lemma run_alone_snoc n0 h0 done f c :
    run_alone n0 h0 (done ++ [f]) c =
    exec_step n0 (fst (run_alone n0 h0 done c)) f (snd (run_alone n0 h0 done c)).
  Proof. unfold run_alone. rewrite fold_left_app. reflexivity. Qed.

  Lemma sched_step_invariant h0 ths0 ths i :
    Forall2 (thread_rel h0) ths0 ths ->
    fst (sched_step (length h0) (h0, ths) i) = h0 /\
    Forall2 (thread_rel h0) ths0 (snd (sched_step (length h0) (h0, ths) i)).
  Proof.
    intros F. unfold sched_step. cbn [fst snd].
    destruct (nth_error ths i) as [[[|f rest] c]|] eqn:N; cbn [fst snd]; auto.
    destruct (Forall2_nth_error _ _ _ _ _ F N) as ([steps0 c0] & N0 & (D & W & I0 & done & SPLIT & RA)).
    cbn [fst snd] in *.
    assert (Df : disciplined (length h0) f).
    { rewrite Forall_forall in D. apply D. rewrite SPLIT. apply in_or_app. right. left. reflexivity. }
    destruct (exec_step_disciplined h0 f c Df W I0) as (SH & WL & I1).
    split; [assumption|].
    eapply Forall2_upd_nth; [exact F|exact N0|].
    split; [exact D|]. split; [exact WL|]. split; [exact I1|]. cbn [fst snd].
    exists (done ++ [f]). split.
    - rewrite SPLIT, <- app_assoc. reflexivity.
    - rewrite run_alone_snoc, RA. cbn [fst snd].
      destruct (exec_step (length h0) h0 f c) as [sh c']. cbn [fst snd] in SH |- *.
      rewrite SH. reflexivity.
  Qed.

  Lemma run_sched_invariant h0 ths0 : forall sched ths,
    Forall2 (thread_rel h0) ths0 ths ->
    fst (run_sched (length h0) sched (h0, ths)) = h0 /\
    Forall2 (thread_rel h0) ths0 (snd (run_sched (length h0) sched (h0, ths))).
  Proof.
    induction sched as [|i sched IH]; intros ths F; cbn [run_sched fold_left].
    - split; [reflexivity|assumption].
    - destruct (sched_step_invariant h0 ths0 ths i F) as [SH F'].
      destruct (sched_step (length h0) (h0, ths) i) as [sh ths']. cbn [fst snd] in *. subst sh.
      apply IH. assumption.
  Qed.

  Lemma thread_rel_init h0 ths : Forall (thread_ok (length h0)) ths -> Forall2 (thread_rel h0) ths ths.
  Proof.
    induction 1 as [|th ths (D & W & I0) _ IH]; constructor; auto.
    split; [exact D|]. split; [exact W|]. split; [exact I0|]. exists []. split; [reflexivity|].
    destruct th as [steps c]. reflexivity.
  Qed.

  (* For ANY schedule: the shared blocks are unchanged; every thread is where it
     would be had it run the same steps alone (so once it has finished, its
     result - locals, private blocks, log - is its solo result); and no two
     accesses of different threads conflict. *)
  Theorem read_only_interleave : forall (h0 : heap) (ths : list (list tstep * tconf)) (sched : list nat),
    Forall (thread_ok (length h0)) ths ->
    let final := run_sched (length h0) sched (h0, ths) in
    fst final = h0 /\
    length (snd final) = length ths /\
    (forall i rest c, nth_error (snd final) i = Some (rest, c) ->
       exists steps c0 done, nth_error ths i = Some (steps, c0) /\ steps = done ++ rest /\
         run_alone (length h0) h0 done c0 = (h0, c)) /\
    (forall i j ri ci rj cj a b,
       nth_error (snd final) i = Some (ri, ci) -> nth_error (snd final) j = Some (rj, cj) ->
       In a (tc_log ci) -> In b (tc_log cj) -> ~ conflict (length h0) i a j b).
  Proof.
    intros h0 ths sched H final.
    destruct (run_sched_invariant h0 ths sched ths (thread_rel_init h0 ths H)) as [SH F].
    fold final in SH, F. split; [exact SH|]. split; [|split].
    - symmetry. eapply Forall2_len. exact F.
    - intros i rest c N.
      destruct (Forall2_nth_error _ _ _ _ _ F N) as ([steps c0] & N0 & (_ & _ & _ & done & SPLIT & RA)).
      exists steps, c0, done. cbn [fst snd] in *. auto.
    - intros i j ri ci rj cj a b Ni Nj Ia Ib.
      destruct (Forall2_nth_error _ _ _ _ _ F Ni) as (_ & _ & (_ & Wi & _)).
      destruct (Forall2_nth_error _ _ _ _ _ F Nj) as (_ & _ & (_ & Wj & _)).
      cbn [snd] in Wi, Wj. rewrite Forall_forall in Wi, Wj.
      apply wfresh_no_conflict; auto.
  Qed.

  (* complete schedules: a thread that has no step left has its solo result *)
  Corollary read_only_interleave_complete : forall h0 ths sched i steps c0 c,
    Forall (thread_ok (length h0)) ths ->
    nth_error ths i = Some (steps, c0) ->
    nth_error (snd (run_sched (length h0) sched (h0, ths))) i = Some ([], c) ->
    run_alone (length h0) h0 steps c0 = (h0, c).
  Proof.
    intros h0 ths sched i steps c0 c H N0 N.
    destruct (read_only_interleave h0 ths sched H) as (_ & _ & R & _).
    destruct (R i [] c N) as (steps' & c0' & done & N0' & SPLIT & RA).
    rewrite N0 in N0'. inversion N0'; subst. rewrite app_nil_r. exact RA.
  Qed.

  (* running alone = running the steps one after the other on ONE heap: the
     splitting into shared and private blocks is invisible to a disciplined thread *)
  Definition fold_steps (steps : list tstep) (s : mstate * L) : mstate * L :=
    fold_left (fun s f => f s) steps s.

  Lemma run_alone_direct h0 : forall steps priv log l,
    Forall (disciplined (length h0)) steps -> Inv l ->
    run_alone (length h0) h0 steps (mk_tconf priv log l) =
    (h0, let r := fold_steps steps (mk_st (h0 ++ priv) log, l) in
         mk_tconf (skipn (length h0) (st_heap (fst r))) (st_log (fst r)) (snd r)).
  Proof.
    induction steps as [|f steps IH]; intros priv log l D I0.
    - cbn. rewrite skipn_app, skipn_all, Nat.sub_diag, skipn_O. reflexivity.
    - inversion D as [|f' steps' Df D']; subst.
      unfold run_alone, fold_steps. cbn [fold_left fst snd].
      unfold exec_step at 2. cbn [tc_priv tc_log tc_loc].
      specialize (Df (mk_st (h0 ++ priv) log) l). cbn [st_heap] in Df. rewrite app_length in Df.
      destruct (Df ltac:(lia) I0) as ((E & _ & _) & I1). cbn [st_heap] in E.
      destruct (f (mk_st (h0 ++ priv) log, l)) as [[heap1 log1] l1]. cbn [fst snd st_heap st_log] in *.
      assert (E1 : firstn (length h0) heap1 = h0).
      { rewrite E, firstn_app_le by lia. apply firstn_all. }
      rewrite E1.
      assert (E2 : h0 ++ skipn (length h0) heap1 = heap1).
      { rewrite <- E1 at 1. apply firstn_skipn. }
      etransitivity; [exact (IH (skipn (length h0) heap1) log1 l1 D' I1)|].
      rewrite E2. reflexivity.
  Qed.
End Interleave.

(* ---- ParseBlobs as a thread: one atomic step per share, then the finishing loop ---- *)

Inductive pb_local :=
| PBLoop (o : outcome (list mseq))   (* inside the loop over the shares: `sequences` *)
| PBDone (o : outcome (list blob)).  (* returned *)

Definition pb_inv (n0 : nat) (l : pb_local) : Prop :=
  match l with PBLoop (Ok seqs) => seqs_safe n0 seqs | _ => True end.

Definition pb_loop_step (g : nat -> nat -> nat) (v : slice) : @tstep pb_local := fun s =>
  match snd s with
  | PBLoop (Ok seqs) =>
    let r := parse_sparse_step g true v seqs (fst s) in (fst r, PBLoop (snd r))
  | _ => s
  end.

Definition pb_finish_step : @tstep pb_local := fun s =>
  match snd s with
  | PBLoop (Ok seqs) => let r := mmap finish_mseq (rev seqs) (fst s) in (fst r, PBDone (snd r))
  | PBLoop Err => (fst s, PBDone Err)
  | PBLoop Fault => (fst s, PBDone Fault)
  | PBDone _ => s
  end.

Definition pb_thread (g : nat -> nat -> nat) (views : list slice) : list (@tstep pb_local) :=
  map (pb_loop_step g) views ++ [pb_finish_step].

Definition pb_start : @tconf pb_local := mk_tconf [] [] (PBLoop (Ok [])).

Lemma pb_loop_step_disciplined n0 g v : disciplined (pb_inv n0) n0 (pb_loop_step g v).
Proof.
  intros st l LN I0. unfold pb_loop_step. cbn [fst snd].
  destruct l as [[seqs| |]|o]; try (split; [apply ext_refl|exact I0]).
  destruct (ro_parse_sparse_step n0 g v seqs I0 st LN) as [E P]. cbn [fst snd]. split; [exact E|].
  destruct (snd (parse_sparse_step g true v seqs st)) as [seqs'| |]; cbn [pb_inv]; auto.
Qed.

Lemma pb_finish_step_disciplined n0 : disciplined (pb_inv n0) n0 pb_finish_step.
Proof.
  intros st l LN I0. unfold pb_finish_step. cbn [fst snd].
  destruct l as [[seqs| |]|o]; try (split; [apply ext_refl|exact I]).
  assert (R : ro n0 (Forall (fun _ : blob => True)) (mmap finish_mseq (rev seqs))).
  { apply ro_mmap. intros q. apply ro_finish_mseq. }
  destruct (R st LN) as [E _]. split; [exact E|exact I].
Qed.

Lemma pb_thread_disciplined n0 g views : Forall (disciplined (pb_inv n0) n0) (pb_thread g views).
Proof.
  unfold pb_thread. apply Forall_app. split.
  - apply Forall_forall. intros f Hf. apply in_map_iff in Hf. destruct Hf as (v & <- & _).
    apply pb_loop_step_disciplined.
  - constructor; [apply pb_finish_step_disciplined|constructor].
Qed.

Lemma pb_thread_ok n0 g views : thread_ok (pb_inv n0) n0 (pb_thread g views, pb_start).
Proof.
  split; [apply pb_thread_disciplined|]. split; constructor.
Qed.

Lemma fold_loop_steps_stuck g : forall views st l,
  (forall seqs, l <> PBLoop (Ok seqs)) ->
  fold_steps (map (pb_loop_step g) views) (st, l) = (st, l).
Proof.
  induction views as [|v tl IH]; intros st l H; [reflexivity|].
  unfold fold_steps in *. cbn [map fold_left]. unfold pb_loop_step at 2. cbn [fst snd].
  destruct l as [[seqs| |]|o]; try (apply IH; assumption). exfalso. apply (H seqs). reflexivity.
Qed.

Lemma fold_loop_steps g : forall views st seqs,
  fold_steps (map (pb_loop_step g) views) (st, PBLoop (Ok seqs)) =
  (fst (parse_sparse_loop_mem g true views seqs st), PBLoop (snd (parse_sparse_loop_mem g true views seqs st))).
Proof.
  induction views as [|v tl IH]; intros st seqs; [reflexivity|].
  unfold fold_steps in *. cbn [map fold_left parse_sparse_loop_mem]. unfold pb_loop_step at 2. cbn [fst snd].
  unfold mbind. destruct (parse_sparse_step g true v seqs st) as [st1 [seqs'| |]]; cbn [fst snd].
  - apply IH.
  - apply (fold_loop_steps_stuck g tl st1 (PBLoop Err)). intros s K; discriminate K.
  - apply (fold_loop_steps_stuck g tl st1 (PBLoop Fault)). intros s K; discriminate K.
Qed.

(* the thread computes exactly parse_blobs_mem *)
Lemma fold_pb_thread g views st :
  fold_steps (pb_thread g views) (st, PBLoop (Ok [])) =
  (fst (parse_blobs_mem g views st), PBDone (snd (parse_blobs_mem g views st))).
Proof.
  unfold pb_thread.
  assert (X : fold_steps (map (pb_loop_step g) views ++ [pb_finish_step]) (st, PBLoop (Ok [])) =
              pb_finish_step (fold_steps (map (pb_loop_step g) views) (st, PBLoop (Ok [])))).
  { unfold fold_steps. rewrite fold_left_app. reflexivity. }
  rewrite X, fold_loop_steps. clear X.
  unfold pb_finish_step, parse_blobs_mem, parse_blobs_gen, mbind. cbn [fst snd].
  destruct (parse_sparse_loop_mem g true views [] st) as [st1 [seqs| |]]; cbn [fst snd]; reflexivity.
Qed.

(* N concurrent ParseBlobs calls over the same share views, ANY interleaving of
   their per-share steps: the shared memory is unchanged, no two accesses of
   different calls conflict, and every call that has returned has returned what
   the pure parser returns on the bytes of the views. *)
Theorem parse_blobs_concurrent : forall g h0 views n sched,
  Forall (view_ok h0) views ->
  let final := run_sched (length h0) sched (h0, repeat (pb_thread g views, pb_start) n) in
  fst final = h0 /\
  (forall i c, nth_error (snd final) i = Some ([], c) ->
     tc_loc c = PBDone (parse_blobs (map (mread_bytes h0) views))) /\
  (forall i j ri ci rj cj a b,
     nth_error (snd final) i = Some (ri, ci) -> nth_error (snd final) j = Some (rj, cj) ->
     In a (tc_log ci) -> In b (tc_log cj) -> ~ conflict (length h0) i a j b).
Proof.
  intros g h0 views n sched FV final.
  set (ths := repeat (pb_thread g views, pb_start) n) in *.
  assert (OK : Forall (thread_ok (pb_inv (length h0)) (length h0)) ths).
  { apply Forall_forall. intros th Hth. apply repeat_spec in Hth. subst th. apply pb_thread_ok. }
  destruct (read_only_interleave (pb_inv (length h0)) h0 ths sched OK) as (SH & LEN & _ & NC).
  fold final in SH, LEN, NC. split; [exact SH|]. split; [|exact NC].
  intros i c N.
  assert (N0 : nth_error ths i = Some (pb_thread g views, pb_start)).
  { assert (LT : i < length ths).
    { rewrite <- LEN. apply nth_error_Some. rewrite N. discriminate. }
    destruct (nth_error ths i) as [th|] eqn:E.
    - apply nth_error_In in E. apply repeat_spec in E. subst th. reflexivity.
    - apply nth_error_None in E. lia. }
  pose proof (read_only_interleave_complete (pb_inv (length h0)) h0 ths sched i _ _ c OK N0 N) as RA.
  unfold pb_start in RA.
  rewrite (run_alone_direct (pb_inv (length h0)) h0 (pb_thread g views) [] [] (PBLoop (Ok []))
             (pb_thread_disciplined _ g views)) in RA by constructor.
  rewrite app_nil_r, fold_pb_thread in RA. cbv zeta in RA. cbn [fst snd] in RA.
  inversion RA as [K]. cbn [tc_loc]. f_equal. apply parse_blobs_mem_refines. assumption.
Qed.

(* ================================================================== *)
(* 5. Non-vacuity                                                      *)
(* ================================================================== *)

(* the repaired parser on the three-share witness: heap unchanged, the blob is returned *)
Example parse_blobs_mem_witness :
  let r := parse_blobs_mem grow_double d7_views (mk_st [d7_arena] []) in
  st_heap (fst r) <> [d7_arena] (* it did allocate *) /\
  firstn 1 (st_heap (fst r)) = [d7_arena] /\
  snd r = Ok [d7_blob] /\
  log_writes_below 1 (st_log (fst r)) = false /\
  existsb (fun a => match a_kind a with AW => true | AR => false end) (st_log (fst r)) = true.
Proof.
  cbv zeta. split; [|split; [|split; [|split]]].
  - intros K. apply (f_equal (@length bytes)) in K. vm_compute in K. discriminate K.
  - apply (parse_blobs_mem_heap_unchanged grow_double [d7_arena] d7_views).
  - vm_compute. reflexivity.
  - vm_compute. reflexivity.
  - vm_compute. reflexivity.
Qed.

(* the pure parser agrees on the witness (hypotheses of the refinement are satisfiable) *)
Example parse_blobs_refines_witness :
  Forall (view_ok [d7_arena]) d7_views /\ parse_blobs (map (mread_bytes [d7_arena]) d7_views) = Ok [d7_blob].
Proof. split; [exact d7_views_ok|]. vm_compute. reflexivity. Qed.

(* three concurrent ParseBlobs calls, steps interleaved round-robin and then unevenly:
   all finish, shared block unchanged, each returns the blob *)
Example parse_blobs_concurrent_witness :
  let ths := repeat (pb_thread grow_double d7_views, pb_start) 3 in
  let final := run_sched 1 [0;1;2;2;1;0;0;0;1;2;2;1] ([d7_arena], ths) in
  fst final = [d7_arena] /\
  map (fun th => (length (fst th), tc_loc (snd th))) (snd final) =
    repeat (0, PBDone (Ok [d7_blob])) 3 /\
  map (fun th => length (tc_priv (snd th))) (snd final) = [3; 3; 3].
Proof. vm_compute. repeat split; reflexivity. Qed.

(* a thread that is NOT disciplined (the pre-fix parser) is rejected by the hypothesis:
   its single step changes the shared block *)
Example legacy_step_not_disciplined :
  ~ disciplined (fun _ : unit => True) 1
      (fun s => (fst (parse_blobs_mem_legacy grow_double d7_views (fst s)), tt)).
Proof.
  intros D. destruct (D (mk_st [d7_arena] []) tt (le_n _) I) as [(E & _) _].
  cbn [fst snd] in E.
  assert (K : first_diff 0 (hblock [d7_arena] 0)
               (hblock (st_heap (fst (parse_blobs_mem_legacy grow_double d7_views (mk_st [d7_arena] [])))) 0)
              = Some 512) by (vm_compute; reflexivity).
  rewrite (hblock_firstn 1 [d7_arena] _ 0 E) in K by auto.
  rewrite first_diff_refl in K. discriminate K.
Qed.

(* ================================================================== *)
(* 6. Refinement of the other read paths                               *)
(* ================================================================== *)

(* an accumulation buffer: still nil, or a slice inside a block *)
Definition acc_ok (h : heap) (acc : slice) : Prop :=
  (sl_cap acc = 0 /\ sl_len acc = 0) \/ wf_slice h acc.

Lemma acc_ok_len h acc : acc_ok h acc -> length (mread_bytes h acc) = sl_len acc.
Proof.
  intros [[_ L0]|W]; [|apply length_mread; assumption].
  pose proof (length_mread_le h acc). lia.
Qed.

Lemma mread_nil h : mread_bytes h nil_slice = [].
Proof. unfold mread_bytes, nil_slice. cbn [sl_len]. apply firstn_O. Qed.

Lemma mappend_acc n0 g acc raw st :
  n0 <= length (st_heap st) -> safe n0 acc -> acc_ok (st_heap st) acc ->
  exists st' acc', mappend g acc raw st = (st', Ok acc') /\
    firstn n0 (st_heap st') = firstn n0 (st_heap st) /\
    length (st_heap st) <= length (st_heap st') /\
    safe n0 acc' /\ acc_ok (st_heap st') acc' /\
    mread_bytes (st_heap st') acc' = mread_bytes (st_heap st) acc ++ mread_bytes (st_heap st) raw.
Proof.
  intros LN S A.
  destruct (ro_mappend n0 g acc raw S st LN) as [(E1 & E2 & _) SF].
  destruct (mread_bytes (st_heap st) raw) as [|b0 bs] eqn:ER.
  - unfold mappend in *. rewrite ER in *. cbn [mappend_lit fst snd] in *.
    eexists _, _. split; [reflexivity|]. cbn [log_read log_acc st_heap] in *.
    repeat split; auto. rewrite app_nil_r. reflexivity.
  - destruct (mappend_spec g acc raw st A) as (st' & d & EQ & L2 & FR & RD & WF & BLK).
    { rewrite ER. discriminate. }
    rewrite EQ in *. cbn [fst snd] in *. exists st', d.
    split; [reflexivity|]. split; [exact E1|]. split; [exact L2|].
    split; [apply SF; reflexivity|]. split; [right; exact WF|]. rewrite RD, ER. reflexivity.
Qed.

Lemma view_read h0 h v :
  view_ok h0 v -> firstn (length h0) h = h0 ->
  mread_bytes h v = mread_bytes h0 v /\ length (mread_bytes h0 v) = 512.
Proof.
  intros [(VB & VL & VC) V512] EH. split.
  - apply mread_same_block. eapply hblock_firstn; [|exact VB]. rewrite EH. symmetry. apply firstn_all.
  - rewrite <- V512. apply length_mread. repeat split; assumption.
Qed.

(* Share.RawData() of a view denotes the pure sh_raw_data *)
Lemma raw_data_view_refines h0 h v :
  view_ok h0 v -> firstn (length h0) h = h0 ->
  exists raw, raw_data_view v (mread_bytes h0 v) = Ok raw /\
    mread_bytes h raw = sh_raw_data (mread_bytes h0 v) /\
    sl_len raw = length (sh_raw_data (mread_bytes h0 v)).
Proof.
  intros VOK EH. destruct (view_read h0 h v VOK EH) as [SH L512].
  destruct VOK as [(VB & VL & VC) V512].
  pose proof (raw_data_start_le (mread_bytes h0 v)) as RS.
  unfold raw_data_view. rewrite (mslice2_ok v _ (sl_len v)) by lia.
  eexists. split; [reflexivity|]. split.
  - unfold sh_raw_data.
    transitivity (skipn (raw_data_start (mread_bytes h0 v)) (mread_bytes h v)); [|rewrite SH; reflexivity].
    apply mread_mslice2_from. apply mslice2_ok; lia.
  - cbn [sl_len]. unfold sh_raw_data. rewrite skipn_length. lia.
Qed.

(* ---- Sequence.RawData ---- *)

Lemma seq_accumulate_refines g h0 : forall views st acc,
  firstn (length h0) (st_heap st) = h0 -> Forall (view_ok h0) views ->
  safe (length h0) acc -> acc_ok (st_heap st) acc ->
  exists st' acc', seq_accumulate g views acc st = (st', Ok acc') /\
    firstn (length h0) (st_heap st') = h0 /\ safe (length h0) acc' /\ acc_ok (st_heap st') acc' /\
    mread_bytes (st_heap st') acc' =
      mread_bytes (st_heap st) acc ++ concat (map sh_raw_data (map (mread_bytes h0) views)).
Proof.
  induction views as [|v tl IH]; intros st acc EH FV S A.
  - exists st, acc. cbn. rewrite app_nil_r. auto.
  - inversion FV as [|v' tl' VOK FV']; subst.
    assert (LN : length h0 <= length (st_heap st)).
    { rewrite <- EH at 1. rewrite firstn_length. lia. }
    destruct (view_read h0 (st_heap st) v VOK EH) as [SH _].
    destruct (raw_data_view_refines h0 (st_heap st) v VOK EH) as (raw & RV & RR & _).
    cbn [seq_accumulate]. unfold mbind at 1. unfold mread at 1. cbn [fst snd]. rewrite SH.
    unfold mbind at 1. unfold mlift at 1. rewrite RV.
    destruct (mappend_acc (length h0) g acc raw (log_read v st) LN S A)
      as (st1 & acc1 & EQ & E1 & L1 & S1 & A1 & R1).
    unfold mbind at 1. rewrite EQ. cbn [log_read log_acc st_heap] in *.
    assert (EH1 : firstn (length h0) (st_heap st1) = h0) by (rewrite E1; exact EH).
    destruct (IH st1 acc1 EH1 FV' S1 A1) as (st' & acc' & EQ' & EH' & S' & A' & R').
    exists st', acc'. split; [exact EQ'|]. repeat split; auto.
    rewrite R', R1, RR. cbn [map concat]. rewrite app_assoc. reflexivity.
Qed.

Theorem sequence_raw_data_mem_refines : forall g h ns views,
  Forall (view_ok h) views ->
  snd (sequence_raw_data_mem g views (mk_st h [])) =
  sequence_raw_data (mk_seq ns (map (mread_bytes h) views)).
Proof.
  intros g h ns views FV. unfold sequence_raw_data_mem, sequence_raw_data. cbn [sq_shares].
  destruct (seq_accumulate_refines g h views (mk_st h []) nil_slice (firstn_all h) FV
              (safe_nil _) (or_introl (conj eq_refl eq_refl)))
    as (st' & data & EQ & EH & _ & A & RD).
  unfold mbind at 1. rewrite EQ. cbn [st_heap] in RD. rewrite mread_nil in RD. cbn [app] in RD.
  destruct views as [|first tl]; [reflexivity|].
  inversion FV as [|v' tl' VOK _]; subst.
  destruct (view_read h (st_heap st') first VOK EH) as [SH _].
  cbn [map]. unfold mbind at 1. unfold mread at 1. cbn [fst snd]. rewrite SH.
  set (sl := sh_seq_len (mread_bytes h first)).
  cbn [map] in RD. rewrite <- RD.
  assert (LD : lenN (mread_bytes (st_heap st') data) = N.of_nat (sl_len data)).
  { unfold lenN. rewrite acc_ok_len by assumption. reflexivity. }
  rewrite LD. destruct (N.ltb (N.of_nat (sl_len data)) sl) eqn:LT; [reflexivity|].
  apply N.ltb_ge in LT.
  assert (LC : sl_len data <= sl_cap data).
  { destruct A as [[C0 L0]|(_ & WL & _)]; lia. }
  clearbody sl.
  assert (LE : N.to_nat sl <= sl_len data) by lia.
  unfold mbind, mlift. rewrite (mslice2_ok data 0 (N.to_nat sl)) by lia.
  unfold mread. cbn [fst snd log_read log_acc st_heap].
  unfold slice_to. rewrite LD, (proj2 (N.leb_le _ _) LT). f_equal.
  rewrite (mread_mslice2 (st_heap st') data 0 (N.to_nat sl) _ (mslice2_ok data 0 _ (Nat.le_0_l _) (Nat.le_trans _ _ _ LE LC))) by exact LE.
  rewrite skipn_O, Nat.sub_0_r. reflexivity.
Qed.

Theorem sequence_raw_data_mem_correct : forall g h ns views,
  run_read_only (sequence_raw_data_mem g views) h /\
  (Forall (view_ok h) views ->
   snd (sequence_raw_data_mem g views (mk_st h [])) =
   sequence_raw_data (mk_seq ns (map (mread_bytes h) views))).
Proof.
  intros. split; [apply sequence_raw_data_mem_readonly|apply sequence_raw_data_mem_refines].
Qed.

(* ---- extractRawData ---- *)

Lemma wf_mslice2 h s lo hi r : wf_slice h s -> mslice2 s lo hi = Ok r -> wf_slice h r.
Proof.
  intros (WB & WL & WC). unfold mslice2. destruct (_ && _) eqn:E; intros K; inversion K; subst; clear K.
  apply andb_true_iff in E. destruct E as [E1 E2]. apply Nat.leb_le in E1, E2.
  repeat split; cbn [sl_blk sl_off sl_len sl_cap]; auto; lia.
Qed.

(* the three-valued agreement of a memory-level and a pure outcome *)
Definition outcome_rel {A B} (R : A -> B -> Prop) (o : outcome A) (p : outcome B) : Prop :=
  match o, p with
  | Ok a, Ok b => R a b
  | Err, Err => True
  | Fault, Fault => True
  | _, _ => False
  end.

Lemma raw_using_reserved_refines h0 h v :
  view_ok h0 v -> firstn (length h0) h = h0 ->
  outcome_rel (fun raw rb => mread_bytes h raw = rb /\ sl_len raw = length rb)
    (raw_using_reserved_view v (mread_bytes h0 v)) (sh_raw_data_using_reserved (mread_bytes h0 v)).
Proof.
  intros VOK EH. destruct (view_read h0 h v VOK EH) as [SH L512].
  destruct VOK as [(VB & VL & VC) V512].
  set (sh := mread_bytes h0 v) in *.
  unfold raw_using_reserved_view, sh_raw_data_using_reserved.
  set (index := 30 + addif (sh_start sh) 4 + addif (sh_start sh && (N.eqb (sh_version sh) 1)) 20).
  assert (IB : index <= 54).
  { unfold index, addif. destruct (sh_start sh), (N.eqb (sh_version sh) 1); cbn; lia. }
  change (Nat.add (Nat.add 30 (addif (sh_start sh) 4)) (addif (sh_start sh && (sh_version sh =? 1)%N) 20))
    with index.
  destruct (sh_is_compact sh).
  - destruct (parse_reserved_bytes (firstn 4 (skipn index sh))) as [r| |] eqn:PR; cbn [bind outcome_rel]; auto.
    assert (RB : (r < 512)%N).
    { unfold parse_reserved_bytes in PR. destruct (negb _); [discriminate PR|].
      destruct (512 <=? rd32 (firstn 4 (skipn index sh)))%N eqn:LE; [discriminate PR|].
      inversion PR; subst. apply N.leb_gt in LE. exact LE. }
    destruct (N.eqb r 0).
    + cbn [outcome_rel]. rewrite mread_nil. split; reflexivity.
    + assert (LS : lenN sh = N.of_nat (sl_len v)) by (unfold lenN; rewrite L512, V512; reflexivity).
      rewrite LS.
      destruct (N.ltb (N.of_nat (sl_len v)) r) eqn:LT; [exact I|].
      apply N.ltb_ge in LT. unfold slice_from. rewrite LS, (proj2 (N.leb_le _ _) LT).
      rewrite (mslice2_ok v (N.to_nat r) (sl_len v)) by lia. cbn [outcome_rel]. split.
      * unfold dropN.
        transitivity (skipn (N.to_nat r) (mread_bytes h v)); [|rewrite SH; reflexivity].
        apply mread_mslice2_from. apply mslice2_ok; lia.
      * cbn [sl_len]. unfold dropN. rewrite skipn_length. lia.
  - rewrite (mslice2_ok v index (sl_len v)) by lia. cbn [outcome_rel]. split.
    + transitivity (skipn index (mread_bytes h v)); [|rewrite SH; reflexivity].
      apply mread_mslice2_from. apply mslice2_ok; lia.
    + cbn [sl_len]. rewrite skipn_length. lia.
Qed.

Lemma extract_raw_data_mem_refines_gen g h0 : forall views found st acc,
  firstn (length h0) (st_heap st) = h0 -> Forall (view_ok h0) views ->
  safe (length h0) acc -> acc_ok (st_heap st) acc ->
  forall r, r = extract_raw_data_mem g found views acc st ->
  firstn (length h0) (st_heap (fst r)) = h0 /\
  outcome_rel (fun acc' rest =>
      safe (length h0) acc' /\ acc_ok (st_heap (fst r)) acc' /\
      mread_bytes (st_heap (fst r)) acc' = mread_bytes (st_heap st) acc ++ rest)
    (snd r) (extract_raw_data found (map (mread_bytes h0) views)).
Proof.
  induction views as [|v tl IH]; intros found st acc EH FV S A r RE.
  - subst r. cbn. rewrite app_nil_r. auto.
  - inversion FV as [|v' tl' VOK FV']; subst v' tl'.
    assert (LN : length h0 <= length (st_heap st)).
    { rewrite <- EH at 1. rewrite firstn_length. lia. }
    destruct (view_read h0 (st_heap st) v VOK EH) as [SH _].
    cbn [extract_raw_data_mem] in RE. unfold mbind at 1 in RE. unfold mread at 1 in RE.
    cbn [fst snd] in RE. rewrite SH in RE.
    cbn [map extract_raw_data].
    set (sh := mread_bytes h0 v) in *.
    destruct found.
    + destruct (raw_data_view_refines h0 (st_heap st) v VOK EH) as (raw & RV & RR & _). fold sh in RV, RR.
      unfold mbind at 1 in RE. unfold mlift at 1 in RE. rewrite RV in RE.
      destruct (mappend_acc (length h0) g acc raw (log_read v st) LN S A)
        as (st1 & acc1 & EQ & E1 & L1 & S1 & A1 & R1).
      unfold mbind at 1 in RE. rewrite EQ in RE. cbn [log_read log_acc st_heap] in *.
      assert (EH1 : firstn (length h0) (st_heap st1) = h0) by (rewrite E1; exact EH).
      destruct (IH true st1 acc1 EH1 FV' S1 A1 r RE) as [EH' REL].
      split; [exact EH'|].
      destruct (snd r) as [acc'| |], (extract_raw_data true (map (mread_bytes h0) tl)) as [rest| |];
        cbn [outcome_rel bind] in *; auto.
      destruct REL as (S' & A' & R'). repeat split; auto.
      rewrite R', R1, RR, app_assoc. reflexivity.
    + pose proof (raw_using_reserved_refines h0 (st_heap st) v VOK EH) as RU. fold sh in RU.
      unfold mbind at 1 in RE. unfold mlift at 1 in RE.
      destruct (raw_using_reserved_view v sh) as [raw| |], (sh_raw_data_using_reserved sh) as [rb| |];
        cbn [outcome_rel bind] in *; try contradiction;
        try (subst r; cbn [fst snd log_read log_acc st_heap outcome_rel]; split; [exact EH|exact I]).
      destruct RU as [RR RL].
      destruct (mappend_acc (length h0) g acc raw (log_read v st) LN S A)
        as (st1 & acc1 & EQ & E1 & L1 & S1 & A1 & R1).
      unfold mbind at 1 in RE. rewrite EQ in RE. cbn [log_read log_acc st_heap] in *.
      assert (EH1 : firstn (length h0) (st_heap st1) = h0) by (rewrite E1; exact EH).
      rewrite RL in RE.
      destruct (IH (negb (Nat.eqb (length rb) 0)) st1 acc1 EH1 FV' S1 A1 r RE) as [EH' REL].
      split; [exact EH'|].
      destruct (snd r) as [acc'| |],
               (extract_raw_data (negb (Nat.eqb (length rb) 0)) (map (mread_bytes h0) tl)) as [rest| |];
        cbn [outcome_rel bind] in *; auto.
      destruct REL as (S' & A' & R'). repeat split; auto.
      rewrite R', R1, RR, app_assoc. reflexivity.
Qed.

(* extractRawData on views = the pure extract_raw_data on the bytes of the views *)
Theorem extract_raw_data_mem_refines : forall g h views,
  Forall (view_ok h) views ->
  outcome_rel (fun acc' rest =>
      mread_bytes (st_heap (fst (extract_raw_data_mem g false views nil_slice (mk_st h [])))) acc' = rest)
    (snd (extract_raw_data_mem g false views nil_slice (mk_st h [])))
    (extract_raw_data false (map (mread_bytes h) views)).
Proof.
  intros g h views FV.
  destruct (extract_raw_data_mem_refines_gen g h views false (mk_st h []) nil_slice (firstn_all h) FV
              (safe_nil _) (or_introl (conj eq_refl eq_refl)) _ eq_refl) as [_ REL].
  destruct (snd (extract_raw_data_mem g false views nil_slice (mk_st h []))) as [acc'| |],
           (extract_raw_data false (map (mread_bytes h) views)) as [rest| |];
    cbn [outcome_rel] in *; auto.
  destruct REL as (_ & _ & R). rewrite R. cbn [st_heap]. rewrite mread_nil. reflexivity.
Qed.

(* ---- parseDelimiter ---- *)

(* bytes behind a complete (or overflowing) varint do not change what Uvarint returns *)
Lemma uvarint_go_app : forall a b i shift acc,
  uvarint_go i a shift acc <> UvShort -> uvarint_go i (a ++ b) shift acc = uvarint_go i a shift acc.
Proof.
  induction a as [|x a IH]; intros b i shift acc H.
  - cbn in H. congruence.
  - cbn [app uvarint_go] in *. destruct (Nat.eqb i 10); [reflexivity|].
    destruct (N.ltb (b2n x) 128); [reflexivity|]. apply IH. assumption.
Qed.

Lemma zeros_nonempty k : 0 < k -> zeros k <> [].
Proof.
  intros H K. apply (f_equal (@length byte)) in K. rewrite length_zeros in K. cbn in K. lia.
Qed.

(* the agreement of the two results; [E] is the end offset of the buffer *)
Definition delim_rel (h : heap) (n0 : nat) (input : slice) (m : mdelim) (p : delim_result) : Prop :=
  match m, p with
  | MDelimOk rest ul, DelimOk prest pul =>
    ul = pul /\ mread_bytes h rest = prest /\ sl_len rest = length prest /\
    safe n0 rest /\ acc_ok h rest /\
    (0 < sl_len input -> sl_blk rest = sl_blk input /\ sl_off rest + sl_len rest = sl_off input + sl_len input)
  | MDelimIncomplete, DelimIncomplete => True
  | MDelimErr, DelimErr => True
  | MDelimFault, DelimFault => True
  | _, _ => False
  end.

(* existing blocks do not shrink from h to h' *)
Definition noshrink (h h' : heap) : Prop :=
  forall b, b < length h -> length (hblock h b) <= length (hblock h' b).

Lemma noshrink_refl h : noshrink h h.
Proof. intros b _. lia. Qed.

Lemma wf_noshrink h h' s : length h <= length h' -> noshrink h h' -> wf_slice h s -> wf_slice h' s.
Proof.
  intros L NS (WB & WL & WC). repeat split; auto; try lia. specialize (NS _ WB). lia.
Qed.

(* bytes of existing blocks in front of the end of [input] are stable from h to h' *)
Definition stable_below (h h' : heap) (input : slice) : Prop :=
  forall s, sl_blk s < length h ->
    (0 < sl_len input -> sl_blk s = sl_blk input -> sl_off s + sl_len s <= sl_off input + sl_len input) ->
    mread_bytes h' s = mread_bytes h s.

Lemma parse_delimiter_mem_refines n0 g input st :
  n0 <= length (st_heap st) -> safe n0 input -> acc_ok (st_heap st) input ->
  forall r, r = parse_delimiter_mem g input st ->
  firstn n0 (st_heap (fst r)) = firstn n0 (st_heap st) /\
  length (st_heap st) <= length (st_heap (fst r)) /\
  stable_below (st_heap st) (st_heap (fst r)) input /\
  noshrink (st_heap st) (st_heap (fst r)) /\
  delim_rel (st_heap st) n0 input (snd r) (parse_delimiter (mread_bytes (st_heap st) input)).
Proof.
  intros LN S A r RE.
  pose proof (acc_ok_len _ _ A) as LI.
  unfold parse_delimiter_mem in RE.
  destruct (Nat.eqb (sl_len input) 0) eqn:Z.
  { apply Nat.eqb_eq in Z. subst r. cbn [fst snd].
    assert (NIL : mread_bytes (st_heap st) input = []).
    { apply length_zero_iff_nil. lia. }
    rewrite NIL. cbn [parse_delimiter delim_rel].
    split; [reflexivity|]. split; [lia|]. split; [intros s _ _; reflexivity|]. split; [apply noshrink_refl|].
    repeat split; auto; try lia; try (rewrite Z; reflexivity). }
  apply Nat.eqb_neq in Z.
  assert (W : wf_slice (st_heap st) input) by (destruct A as [[_ L0]|W]; [lia|exact W]).
  destruct W as (WB & WL & WC).
  set (h := st_heap st) in *. set (ib := mread_bytes h input) in *.
  set (l := Nat.min 10 (sl_len input)) in *.
  rewrite (mslice2_ok input 0 l) in RE by lia.
  set (head := mk_slice (sl_blk input) (sl_off input + 0) (l - 0) (sl_cap input - 0)) in *.
  assert (HB : mread_bytes h head = firstn 10 ib).
  { unfold head. rewrite (mread_mslice2 h input 0 l _ (mslice2_ok input 0 l ltac:(lia) ltac:(lia))) by lia.
    rewrite skipn_O, Nat.sub_0_r. fold ib. unfold l.
    destruct (Nat.le_gt_cases 10 (sl_len input)) as [GE|LT].
    - rewrite Nat.min_l by lia. reflexivity.
    - rewrite Nat.min_r by lia. rewrite !firstn_all2 by lia. reflexivity. }
  assert (LH : length (firstn 10 ib) = l).
  { rewrite firstn_length. unfold l. lia. }
  assert (INE : ib <> []).
  { intros K. rewrite K in LI. cbn in LI. lia. }
  assert (PD : parse_delimiter ib =
    match uvarint (firstn 10 ib) with
    | UvShort => if Nat.ltb (length (firstn 10 ib)) 10 then DelimIncomplete else DelimErr
    | UvOverflow => DelimErr
    | UvOk v _ =>
      if Nat.leb (length (put_uvarint (u64 v))) (length ib)
      then DelimOk (skipn (length (put_uvarint (u64 v))) ib) (u64 v) else DelimFault
    end).
  { unfold parse_delimiter. destruct ib; [congruence|reflexivity]. }
  rewrite PD. clear PD.
  rewrite HB in RE. rewrite LH.
  (* the padded delimiter *)
  assert (PAD : forall st1, st_heap st1 = h ->
     exists st2 delim,
       (if Nat.leb 10 l then (st1, head) else mappend_lit g head (zeros (10 - l)) st1) = (st2, delim) /\
       firstn n0 (st_heap st2) = firstn n0 h /\ length h <= length (st_heap st2) /\
       stable_below h (st_heap st2) input /\ noshrink h (st_heap st2) /\
       mread_bytes (st_heap st2) delim = firstn 10 ib ++ zeros (10 - l) /\
       (uvarint (firstn 10 ib) = UvShort -> Nat.ltb l 10 = false ->
        mread_bytes (st_heap st2) delim = firstn 10 ib)).
  { intros st1 H1. destruct (Nat.leb 10 l) eqn:E10.
    - apply Nat.leb_le in E10. exists st1, head. split; [reflexivity|]. rewrite H1.
      split; [reflexivity|]. split; [lia|]. split; [intros s _ _; reflexivity|]. split; [apply noshrink_refl|].
      replace (10 - l) with 0 by lia. rewrite zeros_0, app_nil_r. split; [exact HB|]. intros _ _. exact HB.
    - apply Nat.leb_gt in E10.
      assert (LL : l = sl_len input) by (unfold l; lia).
      assert (WH : wf_slice (st_heap st1) head).
      { rewrite H1. unfold head. repeat split; cbn [sl_blk sl_off sl_len sl_cap]; auto; lia. }
      destruct (mappend_lit_spec g head (zeros (10 - l)) st1 (or_intror WH) (zeros_nonempty (10 - l) ltac:(lia)))
        as (st2 & d & EQ & L2 & FR & RD & WF & BLK & BELOW & NOSH).
      assert (SH : safe n0 head) by (eapply safe_mslice2; [exact S|apply mslice2_ok; lia]).
      destruct (mappend_lit_ext n0 g head (zeros (10 - l)) st1 ltac:(rewrite H1; exact LN) SH) as [(E1 & _) _].
      rewrite EQ in E1. cbn [fst] in E1.
      exists st2, d. split; [exact EQ|]. rewrite H1 in *.
      split; [exact E1|]. split; [exact L2|]. split.
      + intros s SB SBelow. apply BELOW; [exact SB|].
        unfold head. cbn [sl_blk sl_off sl_len]. intros EQB. specialize (SBelow ltac:(lia) EQB). lia.
      + split; [exact NOSH|]. split; [rewrite RD, HB; reflexivity|].
        intros _ K. apply Nat.ltb_ge in K. lia. }
  destruct (uvarint (firstn 10 ib)) as [v c| |] eqn:UV.
  - (* a complete varint *)
    destruct (PAD (log_read head st) eq_refl) as (st2 & delim & EQ & E2 & L2 & SB2 & NS2 & RD & _).
    cbn [negb] in RE. rewrite EQ in RE. rewrite RD in RE.
    assert (RU : read_uvarint (firstn 10 ib ++ zeros (10 - l)) =
                 Ok (u64 v, skipn c (firstn 10 ib ++ zeros (10 - l)))).
    { unfold read_uvarint. rewrite firstn_all2 by (rewrite app_length, length_zeros, LH; lia).
      unfold uvarint in *. rewrite uvarint_go_app by (rewrite UV; discriminate). rewrite UV. reflexivity. }
    rewrite RU in RE. clear RU.
    set (n := length (put_uvarint (u64 v))) in *.
    destruct (Nat.leb n (length ib)) eqn:NL.
    + apply Nat.leb_le in NL. rewrite (mslice2_ok input n (sl_len input)) in RE by lia.
      subst r. cbn [fst snd log_read log_acc st_heap]. split; [exact E2|]. split; [exact L2|].
      split; [exact SB2|]. split; [exact NS2|]. cbn [delim_rel].
      set (rest := mk_slice _ _ _ _).
      assert (MR : mslice2 input n (sl_len input) = Ok rest) by (apply mslice2_ok; lia).
      split; [reflexivity|]. split; [apply (mread_mslice2_from h input n rest MR)|].
      split; [unfold rest; cbn [sl_len]; rewrite skipn_length; lia|].
      split; [eapply safe_mslice2; [exact S|exact MR]|].
      split; [right; eapply wf_mslice2; [|exact MR]; repeat split; assumption|].
      intros _. unfold rest. cbn [sl_blk sl_off sl_len]. split; [reflexivity|lia].
    + apply Nat.leb_gt in NL.
      assert (MF : mslice2 input n (sl_len input) = Fault).
      { unfold mslice2. rewrite (proj2 (Nat.leb_gt n (sl_len input))) by lia. reflexivity. }
      rewrite MF in RE. subst r. cbn [fst snd log_read log_acc st_heap].
      split; [exact E2|]. split; [exact L2|]. split; [exact SB2|]. split; [exact NS2|exact I].
  - (* the input ends inside the varint *)
    destruct (Nat.ltb l 10) eqn:L10.
    + subst r. cbn [fst snd log_read log_acc st_heap]. fold h.
      split; [reflexivity|]. split; [lia|]. split; [intros s _ _; reflexivity|]. split; [apply noshrink_refl|exact I].
    + destruct (PAD (log_read head st) eq_refl) as (st2 & delim & EQ & E2 & L2 & SB2 & NS2 & _ & RD).
      rewrite EQ in RE. rewrite (RD eq_refl eq_refl) in RE.
      assert (RU : read_uvarint (firstn 10 ib) = Err).
      { unfold read_uvarint. rewrite firstn_firstn, Nat.min_id, UV. reflexivity. }
      rewrite RU in RE. subst r. cbn [fst snd log_read log_acc st_heap].
      split; [exact E2|]. split; [exact L2|]. split; [exact SB2|]. split; [exact NS2|exact I].
  - (* overflow *)
    destruct (PAD (log_read head st) eq_refl) as (st2 & delim & EQ & E2 & L2 & SB2 & NS2 & RD & _).
    cbn [negb] in RE. rewrite EQ in RE. rewrite RD in RE.
    assert (RU : read_uvarint (firstn 10 ib ++ zeros (10 - l)) = Err).
    { unfold read_uvarint. rewrite firstn_all2 by (rewrite app_length, length_zeros, LH; lia).
      unfold uvarint in *. rewrite uvarint_go_app by (rewrite UV; discriminate). rewrite UV. reflexivity. }
    rewrite RU in RE. subst r. cbn [fst snd log_read log_acc st_heap].
    split; [exact E2|]. split; [exact L2|]. split; [exact SB2|]. split; [exact NS2|exact I].
Qed.

(* ---- parseRawData ---- *)

Lemma noshrink_trans a b c : length a <= length b -> noshrink a b -> noshrink b c -> noshrink a c.
Proof. intros L H1 H2 x Hx. specialize (H1 x Hx). specialize (H2 x ltac:(lia)). lia. Qed.

Lemma parse_raw_data_mem_refines n0 g : forall fuel raw st,
  n0 <= length (st_heap st) -> safe n0 raw -> acc_ok (st_heap st) raw ->
  forall r, r = parse_raw_data_mem g fuel raw st ->
  firstn n0 (st_heap (fst r)) = firstn n0 (st_heap st) /\
  length (st_heap st) <= length (st_heap (fst r)) /\
  stable_below (st_heap st) (st_heap (fst r)) raw /\
  noshrink (st_heap st) (st_heap (fst r)) /\
  outcome_rel (Forall2 (fun u pu => mread_bytes (st_heap (fst r)) u = pu)) (snd r)
              (parse_raw_data fuel (mread_bytes (st_heap st) raw)).
Proof.
  induction fuel as [|f IH]; intros raw st LN S A r RE.
  - subst r. cbn [parse_raw_data_mem parse_raw_data fst snd outcome_rel].
    split; [reflexivity|]. split; [lia|]. split; [intros s _ _; reflexivity|].
    split; [apply noshrink_refl|exact I].
  - cbn [parse_raw_data_mem parse_raw_data] in *.
    destruct (parse_delimiter_mem_refines n0 g raw st LN S A _ eq_refl) as (E1 & L1 & SB1 & NS1 & DR).
    set (h := st_heap st) in *. set (ib := mread_bytes h raw) in *.
    destruct (parse_delimiter_mem g raw st) as [st1 m]. cbn [fst snd] in *.
    destruct m as [actual ul| | |], (parse_delimiter ib) as [pactual pul| | |] eqn:PD;
      cbn [delim_rel] in DR; try contradiction;
      try (subst r; cbn [fst snd outcome_rel]; repeat split; auto; try constructor; fail).
    destruct DR as (-> & RA & LA & SA & AA & BE).
    destruct (N.eqb pul 0) eqn:Z0.
    { subst r. cbn [fst snd outcome_rel]. repeat split; auto; try constructor. }
    assert (LAN : lenN pactual = N.of_nat (sl_len actual)) by (unfold lenN; rewrite LA; reflexivity).
    rewrite LAN.
    destruct (N.ltb (N.of_nat (sl_len actual)) pul) eqn:LT.
    { subst r. cbn [fst snd outcome_rel]. repeat split; auto; try constructor. }
    apply N.ltb_ge in LT. apply N.eqb_neq in Z0.
    set (k := N.to_nat pul) in *.
    assert (KL : k <= sl_len actual) by (unfold k; lia).
    assert (KP : 0 < k) by (unfold k; lia).
    assert (WA : wf_slice h actual) by (destruct AA as [[_ L0]|W]; [lia|exact W]).
    assert (RAWPOS : 0 < sl_len raw).
    { destruct (Nat.eq_dec (sl_len raw) 0) as [E0|]; [|lia]. exfalso.
      assert (NIL : ib = []).
      { apply length_zero_iff_nil. unfold ib. rewrite acc_ok_len by assumption. exact E0. }
      rewrite NIL in PD. cbn in PD. inversion PD; subst. apply Z0. reflexivity. }
    destruct (BE RAWPOS) as [BB BO].
    destruct WA as (WAB & WAL & WAC).
    rewrite (mslice2_ok actual k (sl_len actual)) in RE by lia.
    rewrite (mslice2_ok actual 0 k) in RE by lia.
    set (rest := mk_slice (sl_blk actual) (sl_off actual + k) (sl_len actual - k) (sl_cap actual - k)) in *.
    set (unit := mk_slice (sl_blk actual) (sl_off actual + 0) (k - 0) (sl_cap actual - 0)) in *.
    assert (MR : mslice2 actual k (sl_len actual) = Ok rest) by (apply mslice2_ok; lia).
    assert (MU : mslice2 actual 0 k = Ok unit) by (apply mslice2_ok; lia).
    assert (LN1 : n0 <= length (st_heap st1)) by lia.
    assert (SR : safe n0 rest) by (eapply safe_mslice2; [exact SA|exact MR]).
    assert (WR : wf_slice h rest) by (eapply wf_mslice2; [|exact MR]; repeat split; assumption).
    assert (AR1 : acc_ok (st_heap st1) rest) by (right; eapply wf_noshrink; eassumption).
    (* reads of rest and unit are the same in h and in the heap after the delimiter *)
    assert (RR1 : mread_bytes (st_heap st1) rest = dropN pul pactual).
    { rewrite SB1.
      - unfold dropN. fold k. rewrite <- RA. apply (mread_mslice2_from h actual k rest MR).
      - exact WAB.
      - intros _ _. unfold rest. cbn [sl_blk sl_off sl_len]. lia. }
    assert (RU1 : mread_bytes (st_heap st1) unit = takeN pul pactual).
    { rewrite SB1.
      - unfold takeN. fold k. rewrite <- RA.
        rewrite (mread_mslice2 h actual 0 k unit MU KL). rewrite skipn_O, Nat.sub_0_r. reflexivity.
      - exact WAB.
      - intros _ _. unfold unit. cbn [sl_blk sl_off sl_len]. lia. }
    unfold mbind in RE.
    destruct (IH rest st1 LN1 SR AR1 _ eq_refl) as (E2 & L2 & SB2 & NS2 & REL).
    rewrite RR1 in REL.
    destruct (parse_raw_data_mem g f rest st1) as [st2 o]. cbn [fst snd] in *.
    assert (COMMON : firstn n0 (st_heap st2) = firstn n0 h /\ length h <= length (st_heap st2) /\
                     stable_below h (st_heap st2) raw /\ noshrink h (st_heap st2)).
    { split; [congruence|]. split; [lia|]. split.
      - intros s SBk SBelow. rewrite SB2.
        + apply SB1; assumption.
        + lia.
        + intros _ EQB. unfold rest in EQB |- *. cbn [sl_blk sl_off sl_len] in *.
          specialize (SBelow RAWPOS ltac:(congruence)). lia.
      - eapply noshrink_trans; eassumption. }
    destruct COMMON as (C1 & C2 & C3 & C4).
    destruct o as [us| |], (parse_raw_data f (dropN pul pactual)) as [pus| |];
      cbn [outcome_rel bind] in *; try contradiction;
      subst r; cbn [fst snd mret outcome_rel]; repeat split; auto.
    constructor; [|exact REL].
    rewrite SB2; [exact RU1|unfold unit; cbn [sl_blk]; lia|].
    intros _ _. unfold unit, rest. cbn [sl_blk sl_off sl_len]. lia.
Qed.

(* ---- ParseTxs ---- *)

Lemma mmap_mread_spec : forall l st,
  st_heap (fst (mmap mread l st)) = st_heap st /\
  snd (mmap mread l st) = Ok (map (mread_bytes (st_heap st)) l).
Proof.
  induction l as [|s l IH]; intros st; [split; reflexivity|].
  destruct (IH (log_read s st)) as [H1 R1]. cbn [log_read log_acc st_heap] in H1, R1.
  assert (E : mmap mread (s :: l) st =
              (fst (mmap mread l (log_read s st)),
               Ok (mread_bytes (st_heap st) s :: map (mread_bytes (st_heap st)) l))).
  { cbn [mmap]. unfold mbind.
    change (mread s st) with (log_read s st, Ok (mread_bytes (st_heap st) s)). cbv iota beta.
    destruct (mmap mread l (log_read s st)) as [st1 o]. cbn [fst snd] in *. subst o. reflexivity. }
  rewrite E. cbn [fst snd map]. split; [exact H1|reflexivity].
Qed.

Theorem parse_txs_mem_refines : forall g h views,
  Forall (view_ok h) views ->
  snd (parse_txs_mem g views (mk_st h [])) = parse_txs (map (mread_bytes h) views).
Proof.
  intros g h views FV. unfold parse_txs_mem, parse_txs.
  destruct views as [|v0 tl]; [reflexivity|].
  set (views := v0 :: tl) in *. cbn [map]. change (mread_bytes h v0 :: map (mread_bytes h) tl) with (map (mread_bytes h) views).
  destruct (mmap_mread_spec views (mk_st h [])) as [H1 R1]. cbn [st_heap] in *.
  unfold mbind at 1. destruct (mmap mread views (mk_st h [])) as [st1 o1]. cbn [fst snd] in *. subst o1.
  destruct (map (mread_bytes h) views) as [|s0 shs] eqn:EM; [discriminate EM|]. rewrite <- EM. clear EM s0 shs.
  destruct (negb (forallb (fun s => N.eqb (sh_version s) 0) (map (mread_bytes h) views))); [reflexivity|].
  assert (EH1 : firstn (length h) (st_heap st1) = h) by (rewrite H1; apply firstn_all).
  destruct (extract_raw_data_mem_refines_gen g h views false st1 nil_slice EH1 FV
              (safe_nil _) (or_introl (conj eq_refl eq_refl)) _ eq_refl) as [EH2 REL].
  unfold mbind at 1.
  destruct (extract_raw_data_mem g false views nil_slice st1) as [st2 o2]. cbn [fst snd] in *.
  destruct o2 as [raw| |], (extract_raw_data false (map (mread_bytes h) views)) as [pr| |];
    cbn [outcome_rel bind] in *; try contradiction; try reflexivity.
  destruct REL as (SR & AR & RR). rewrite mread_nil in RR. cbn [app] in RR.
  assert (LN2 : length h <= length (st_heap st2)).
  { rewrite <- EH2 at 1. rewrite firstn_length. lia. }
  destruct (parse_raw_data_mem_refines (length h) g (S (sl_len raw)) raw st2 LN2 SR AR _ eq_refl)
    as (_ & _ & _ & _ & REL).
  rewrite RR in REL. rewrite <- RR at 1. rewrite acc_ok_len by assumption.
  unfold mbind.
  destruct (parse_raw_data_mem g (S (sl_len raw)) raw st2) as [st3 o3]. cbn [fst snd] in *.
  destruct o3 as [units| |], (parse_raw_data (S (sl_len raw)) pr) as [punits| |];
    cbn [outcome_rel] in *; try contradiction; try reflexivity.
  destruct (mmap_mread_spec units st3) as [_ R3]. rewrite R3. f_equal.
  clear R3. induction REL as [|u pu us pus UR _ IHR]; cbn [map]; [reflexivity|]. rewrite UR, IHR. reflexivity.
Qed.

Theorem parse_txs_mem_correct : forall g h views,
  run_read_only (parse_txs_mem g views) h /\
  (Forall (view_ok h) views ->
   snd (parse_txs_mem g views (mk_st h [])) = parse_txs (map (mread_bytes h) views)).
Proof.
  intros. split; [apply parse_txs_mem_readonly|apply parse_txs_mem_refines].
Qed.

(* ---- non-vacuity of the refinements of section 6 ---- *)

(* Sequence.RawData on the three views of the D7 witness returns the 1200 data bytes *)
Example sequence_raw_data_mem_witness :
  snd (sequence_raw_data_mem grow_double d7_views (mk_st [d7_arena] [])) = Ok (b_data d7_blob).
Proof. vm_compute. reflexivity. Qed.

(* one 1424-byte transaction = three compact shares in ONE block, whose delimited
   length (1426) leaves 4 zero bytes at the end of the raw data: parseDelimiter is then
   called on a 4-byte input and appends 6 zero bytes IN PLACE - into the spare capacity
   of the private buffer (block 3), behind the raw data; the arena (block 0) is untouched *)
Definition txw_tx : bytes := repeat Byte.x42 1424.
Definition txw_shares : list share :=
  match bind (bind (new_csplitter tx_ns 0%N) (fun c => cs_write_tx c txw_tx)) cs_export with
  | Ok (_, shs) => shs
  | _ => []
  end.
Definition txw_arena : bytes := concat txw_shares.
Definition txw_views : list slice :=
  [mk_slice 0 0 512 1536; mk_slice 0 512 512 1024; mk_slice 0 1024 512 512].

Example parse_txs_mem_witness :
  let r := parse_txs_mem grow_double txw_views (mk_st [txw_arena] []) in
  Forall (view_ok [txw_arena]) txw_views /\
  map (mread_bytes [txw_arena]) txw_views = txw_shares /\
  snd r = Ok [txw_tx] /\
  firstn 1 (st_heap (fst r)) = [txw_arena] /\
  map (@length byte) (st_heap (fst r)) = [1536; 474; 952; 1904] /\
  existsb (fun a => match a_kind a with
                    | AW => Nat.eqb (a_blk a) 3 && Nat.eqb (a_off a) 1430 && Nat.eqb (a_len a) 6
                    | AR => false
                    end) (st_log (fst r)) = true.
Proof.
  cbv zeta. split; [apply views_okb_ok; vm_compute; reflexivity|].
  split; [vm_compute; reflexivity|]. split; [vm_compute; reflexivity|].
  split; [apply (parse_txs_mem_readonly grow_double [txw_arena] txw_views)|].
  split; vm_compute; reflexivity.
Qed.
