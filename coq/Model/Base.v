(* Base definitions shared by the whole model: bytes, big-endian words, checked
   slicing, the three-valued outcome of a Go call.  Definitions only. *)
From Coq Require Export List NArith ZArith Bool.
From Coq.Strings Require Export Byte.
Export ListNotations.
Open Scope N_scope.

Global Arguments firstn : simpl never.
Global Arguments skipn : simpl never.
Global Arguments repeat : simpl never.

Definition byte := Byte.byte.
Definition bytes := list byte.

Definition b2n (b : byte) : N := Byte.to_N b.
Definition n2b (n : N) : byte :=
  match Byte.of_N (n mod 256) with Some b => b | None => Byte.x00 end.

Definition zeros (n : nat) : bytes := repeat Byte.x00 n.
Definition lenN {A} (l : list A) : N := N.of_nat (length l).
Definition takeN {A} (n : N) (l : list A) : list A := firstn (N.to_nat n) l.
Definition dropN {A} (n : N) (l : list A) : list A := skipn (N.to_nat n) l.

(* big-endian fixed width words *)
Definition be32 (n : N) : bytes :=
  [n2b (n / 16777216); n2b (n / 65536); n2b (n / 256); n2b n].
Definition rd32 (l : bytes) : N :=
  match l with
  | [a; b; c; d] => b2n a * 16777216 + b2n b * 65536 + b2n c * 256 + b2n d
  | _ => 0
  end.
Definition be64 (n : N) : bytes :=
  [n2b (n / 72057594037927936); n2b (n / 281474976710656); n2b (n / 1099511627776);
   n2b (n / 4294967296); n2b (n / 16777216); n2b (n / 65536); n2b (n / 256); n2b n].

Definition u32 (n : N) : N := n mod 4294967296.
Definition u64 (n : N) : N := n mod 18446744073709551616.

(* equality and Go's bytes.Compare (lexicographic, shorter prefix first) *)
Definition byte_eqb (a b : byte) : bool := Byte.eqb a b.
Fixpoint bytes_eqb (a b : bytes) : bool :=
  match a, b with
  | [], [] => true
  | x :: a', y :: b' => byte_eqb x y && bytes_eqb a' b'
  | _, _ => false
  end.
Fixpoint bytes_cmp (a b : bytes) : comparison :=
  match a, b with
  | [], [] => Eq
  | [], _ :: _ => Lt
  | _ :: _, [] => Gt
  | x :: a', y :: b' =>
    match N.compare (b2n x) (b2n y) with
    | Eq => bytes_cmp a' b'
    | c => c
    end
  end.

Fixpoint has_prefix (p l : bytes) : bool :=
  match p, l with
  | [], _ => true
  | x :: p', y :: l' => byte_eqb x y && has_prefix p' l'
  | _ :: _, [] => false
  end.

(* Outcome of a modelled Go call: a value, a returned error, or a run-time
   fault (an index or slice expression out of range: a panic, or a silent read
   inside spare capacity). *)
Inductive outcome (A : Type) : Type :=
| Ok (a : A)
| Err
| Fault.
Arguments Ok {A} a.
Arguments Err {A}.
Arguments Fault {A}.

Definition bind {A B} (o : outcome A) (f : A -> outcome B) : outcome B :=
  match o with Ok a => f a | Err => Err | Fault => Fault end.
Notation "'do' x <- o ; k" := (bind o (fun x => k))
  (at level 200, x pattern, o at level 100, k at level 200, right associativity).

Definition is_ok {A} (o : outcome A) : bool := match o with Ok _ => true | _ => false end.

(* checked slicing: Go's s[n:] and s[:n] on a slice whose capacity equals its length *)
Definition slice_from (n : N) (l : bytes) : outcome bytes :=
  if n <=? lenN l then Ok (dropN n l) else Fault.
Definition slice_to (n : N) (l : bytes) : outcome bytes :=
  if n <=? lenN l then Ok (takeN n l) else Fault.
Definition slice_list {A} (lo hi : N) (l : list A) : outcome (list A) :=
  if (lo <=? hi) && (hi <=? lenN l) then Ok (takeN (hi - lo) (dropN lo l)) else Fault.

(* overwrite the bytes at offset [off] (inside the list) *)
Definition set_at (off : nat) (v : bytes) (l : bytes) : bytes :=
  firstn off l ++ v ++ skipn (off + length v) l.

(* map with early exit on error *)
Fixpoint map_outcome {A B} (f : A -> outcome B) (l : list A) : outcome (list B) :=
  match l with
  | [] => Ok []
  | x :: tl => do y <- f x; do ys <- map_outcome f tl; Ok (y :: ys)
  end.
