module verifharness

go 1.23.6

require (
	github.com/celestiaorg/go-square/v2 v2.0.0
	github.com/celestiaorg/nmt v0.22.2
	google.golang.org/protobuf v1.36.6
)

require (
	github.com/gogo/protobuf v1.3.2 // indirect
	golang.org/x/exp v0.0.0-20231206192017-f3f8817b8deb // indirect
)

replace github.com/celestiaorg/go-square/v2 => /repo
