package fn

// ---- one type parameter, instantiated at int, uint64, uint32, uint8

type Integer interface {
	~int | ~int64 | ~uint64 | ~uint32 | ~uint8 | ~uint
}

func GMax[T Integer](a, b T) T {
	if a > b {
		return a
	}
	return b
}
func GArith[T Integer](a, b T) (T, T, T) {
	return a + b*3, a - b, T(7) * a
}
func GQuoRem[T Integer](a, b T) (T, T) { return a / b, a % b }
func GShift[T Integer](a T, s int) (T, T) {
	l := a << s
	r := a >> s
	return l, r
}
func GRoundUpPow2[T Integer](x T) T {
	var r T = 1
	for r < x && r != 0 {
		r <<= 1
	}
	return r
}
func GConv[T Integer](x T, y int) (int, uint64, T, uint8) {
	var z T
	z--
	return int(x), uint64(x), T(y) + z, uint8(x + 1)
}

// generic calling generic (with the same type argument), and calling a plain function
func GClamp[T Integer](x, lo, hi T) T {
	m := GMax(x, lo)
	if GMax[T](m, hi) == m {
		return hi
	}
	return T(AddI(int(m), 0))
}

// plain functions calling generic ones at fixed instantiations
func UseGenerics(a int, b uint64, c uint32, d uint8) (int, uint64, uint32, uint8) {
	return GMax(a, 5), GMax(b, 1<<63), GMax[uint32](c, 77), GRoundUpPow2(d)
}
func UseGenericsNamed(c Celsius) Celsius { return GMax(c, freezing) + GRoundUpPow2(c) }
func GTriangle[T Integer](n T) T {
	n %= 20
	if n == 0 {
		return 0
	}
	return n + GTriangle(n-1)
}
func GUseQuoRem[T Integer](a, b T) T {
	q, r := GQuoRem(a, b+1)
	_, r2 := GQuoRem[uint8](uint8(q), 7)
	return q ^ r + T(r2)
}

// the type argument of a call differs from the caller's own: the callee must wrap at ITS width
func InstU8(d uint8) (uint8, uint8, uint8) {
	a, _, m := GArith(d, 3)      // statement call
	return a, m, GRoundUpPow2(d) // expression call
}
func InstU32(c uint32) (uint32, uint32) {
	_, s, _ := GArith[uint32](c, 77)
	return s, GRoundUpPow2(c) + GTriangle(c)
}
func InstU64(x int) (uint64, int) {
	a, s, _ := GArith(uint64(x), 1<<63)
	return a ^ s, int(GRoundUpPow2(uint8(x))) + GRoundUpPow2(x&1023)
}
func GNarrow[T Integer](x T) (uint8, uint32, T) {
	a, _, _ := GArith(uint8(x), 200)
	return a + GRoundUpPow2[uint8](uint8(x)), GRoundUpPow2(uint32(x)), GRoundUpPow2(x)
}

// statement call with the caller's own type parameter as the type argument; bare conversions to it
func GChain[T Integer](a, b T) (T, T) {
	s, d, m := GArith(a, b)
	return s ^ d, m
}
func GConvOnly[T Integer](y int, u uint64) (T, T, bool) {
	return T(y), T(u), T(y) < T(u)
}
func GRetCall[T Integer](a, b T) (T, T) { return GQuoRem(a+1, b) }
