(* C13 (and the small arithmetic helpers of C03/C15) at code level: the straight-line functions
   of the REGENERATED GoLite program (Gen/Generated.v, printed from the Go source on every run)
   compute what the hand-written model computes.  Statements only; proofs in GenStraightC13.v.

   Shape: for every fuel >= 1 and all arguments in the stated range,
   gen_call fuel "<pkg.Func>" <type argument> [args] = Val [model function args]. *)
From Coq Require Import List ZArith String.
From GS.Model Require Import Base Varint Arith Counter GoLite.
From GS.Gen Require Import Generated.
From GS.GenProofs Require Import GenLink GenStraightC13.
Open Scope string_scope. Open Scope Z_scope.

(* inclusion.RoundUpByMultipleOf(cursor, v int) *)
Theorem gen_compact_shares_needed : forall fuel n, (1 <= fuel)%nat -> 0 <= n < 2^32 ->
  gen_call fuel "share.CompactSharesNeeded" I64 [n] = Val [Z.of_N (compact_shares_needed (Z.to_N n))].
Proof. exact compact_shares_needed_gen. Qed.
Print Assumptions gen_compact_shares_needed.

(* share.SparseSharesNeeded(sequenceLen uint32) int: every uint32 *)
Theorem gen_sparse_shares_needed : forall fuel n, (1 <= fuel)%nat -> 0 <= n < 2^32 ->
  gen_call fuel "share.SparseSharesNeeded" I64 [n] = Val [Z.of_N (sparse_shares_needed (Z.to_N n))].
Proof. exact sparse_shares_needed_gen. Qed.
Print Assumptions gen_sparse_shares_needed.

Example gen_shares_needed_ex :
  gen_call 1 "share.CompactSharesNeeded" I64 [474] = Val [1] /\
  gen_call 1 "share.CompactSharesNeeded" I64 [475] = Val [2] /\
  gen_call 1 "share.CompactSharesNeeded" I64 [4294967295] = Val [8985288] /\
  compact_shares_needed 4294967295 = 8985288%N /\
  gen_call 1 "share.SparseSharesNeeded" I64 [478] = Val [1] /\
  gen_call 1 "share.SparseSharesNeeded" I64 [961] = Val [3] /\
  gen_call 1 "share.SparseSharesNeeded" I64 [4294967295] = Val [8910721] /\
  sparse_shares_needed 4294967295 = 8910721%N.
Proof. vm_compute. repeat split; reflexivity. Qed.

(* share.AvailableBytesFromCompactShares(n int) int: every n (negative ones included) whose
   result fits int64, i.e. n <= 19295757399277773 (sparse: 19135626632478787); in particular every n < 2^54 *)
Theorem gen_available_bytes_from_compact_shares : forall fuel n, (1 <= fuel)%nat ->
  (n - 1) * 478 + 474 < 2^63 ->
  gen_call fuel "share.AvailableBytesFromCompactShares" I64 [n] = Val [available_compact n].
Proof. exact available_compact_gen. Qed.
Print Assumptions gen_available_bytes_from_compact_shares.

(* share.AvailableBytesFromSparseShares(n int) int *)
Theorem gen_available_bytes_from_sparse_shares : forall fuel n, (1 <= fuel)%nat ->
  (n - 1) * 482 + 478 < 2^63 ->
  gen_call fuel "share.AvailableBytesFromSparseShares" I64 [n] = Val [available_sparse n].
Proof. exact available_sparse_gen. Qed.
Print Assumptions gen_available_bytes_from_sparse_shares.

Example gen_available_bytes_ex :
  gen_call 1 "share.AvailableBytesFromCompactShares" I64 [3] = Val [1430] /\
  gen_call 1 "share.AvailableBytesFromCompactShares" I64 [-5] = Val [0] /\
  gen_call 1 "share.AvailableBytesFromSparseShares" I64 [3] = Val [1442] /\
  (2^54 - 1) * 478 + 474 < 2^63 /\ (2^54 - 1) * 482 + 478 < 2^63.
Proof. vm_compute. repeat split; reflexivity. Qed.

(* beyond the range the int64 product wraps and the sides differ *)
Example gen_available_bytes_wraps :
  gen_call 1 "share.AvailableBytesFromCompactShares" I64 [2^55] = Val [-1224979098644774916] /\
  available_compact (2^55) = 17221764975064776700.
Proof. vm_compute. split; reflexivity. Qed.

(* square.IsPowerOfTwo[I constraints.Integer](input I) bool at int: every int64 except MinInt64 *)
Theorem gen_counter_size : forall fuel ls lr sh r, (1 <= fuel)%nat ->
  r = 0 \/ - 2^63 <= sh + 1 < 2^63 ->
  gen_call fuel "share.CompactShareCounter.Size" I64 [ls; lr; sh; r] =
  Val [counter_size (mk_counter ls lr sh r); ls; lr; sh; r].
Proof. exact counter_size_gen. Qed.
Print Assumptions gen_counter_size.

(* Remainder() int: unconditional *)
Theorem gen_counter_remainder : forall fuel ls lr sh r, (1 <= fuel)%nat ->
  gen_call fuel "share.CompactShareCounter.Remainder" I64 [ls; lr; sh; r] =
  Val [counter_remainder (mk_counter ls lr sh r); ls; lr; sh; r].
Proof. exact counter_remainder_gen. Qed.
Print Assumptions gen_counter_remainder.

(* Revert(): no result, the four fields of the reverted counter; unconditional *)
Theorem gen_counter_revert : forall fuel ls lr sh r, (1 <= fuel)%nat ->
  gen_call fuel "share.CompactShareCounter.Revert" I64 [ls; lr; sh; r] =
  let c := counter_revert (mk_counter ls lr sh r) in
  Val [c_last_shares c; c_last_rem c; c_shares c; c_rem c].
Proof. exact counter_revert_gen. Qed.
Print Assumptions gen_counter_revert.

Example gen_counter_ex :
  gen_call 1 "share.CompactShareCounter.Size" I64 [1; 20; 3; 100] = Val [4; 1; 20; 3; 100] /\
  gen_call 1 "share.CompactShareCounter.Size" I64 [1; 20; 3; 0] = Val [3; 1; 20; 3; 0] /\
  gen_call 1 "share.CompactShareCounter.Remainder" I64 [1; 20; 3; 100] = Val [100; 1; 20; 3; 100] /\
  gen_call 1 "share.CompactShareCounter.Revert" I64 [1; 20; 3; 100] = Val [1; 20; 1; 20].
Proof. vm_compute. repeat split; reflexivity. Qed.

