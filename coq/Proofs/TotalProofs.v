(* C16: the modelled decoders are total.  In the model every Go slice / index
   expression that can go out of range yields the outcome [Fault]; here it is
   shown that no input reaches [Fault] in any of the decoders (sparse and
   compact share parsing, ParseShares, Sequence.RawData, Deconstruct,
   WrappedPFBs, the protobuf wire decoders, NewBlob / NewBlobFromProto).
   None of the theorems needs the shares to be 512 bytes long: the model's
   accessors are total functions and every checked slice is guarded. *)
From Coq Require Import List Arith NArith ZArith Lia Bool.
From Coq Require Import ZifyN ZifyNat ZifyBool.
From GS.Model Require Import Base Varint Namespace ShareFmt Blob Sparse Compact Counter Arith Proto Builder Square.
From GS.Proofs Require Import BaseLemmas VarintProofs ProtoProofs.
Import ListNotations.
Open Scope N_scope.

(* ---------- generic: the outcome monad ---------- *)
Lemma ok_no_fault {A} (a : A) : Ok a <> Fault.
Proof. discriminate. Qed.
Lemma err_no_fault {A} : @Err A <> Fault.
Proof. discriminate. Qed.

(* the continuation only has to be fault free on the value actually produced *)
Lemma bind_no_fault_dep {A B} (o : outcome A) (f : A -> outcome B) :
  o <> Fault -> (forall a, o = Ok a -> f a <> Fault) -> bind o f <> Fault.
Proof.
  intros Ho Hf. destruct o as [a| |]; cbn [bind]; [apply Hf; reflexivity|discriminate|congruence].
Qed.

Lemma bind_no_fault {A B} (o : outcome A) (f : A -> outcome B) :
  o <> Fault -> (forall a, f a <> Fault) -> bind o f <> Fault.
Proof. intros Ho Hf. apply bind_no_fault_dep; [exact Ho|intros a _; apply Hf]. Qed.

Lemma map_outcome_no_fault_in {A B} (f : A -> outcome B) : forall l,
  (forall x, In x l -> f x <> Fault) -> map_outcome f l <> Fault.
Proof.
  induction l as [|x tl IH]; intros H; cbn [map_outcome]; [discriminate|].
  apply bind_no_fault; [apply H; left; reflexivity|]. intros y.
  apply bind_no_fault; [apply IH; intros z Hz; apply H; right; exact Hz|]. intros ys. discriminate.
Qed.

Lemma map_outcome_no_fault {A B} (f : A -> outcome B) l :
  (forall x, f x <> Fault) -> map_outcome f l <> Fault.
Proof. intros H. apply map_outcome_no_fault_in. intros x _. apply H. Qed.

(* folds whose accumulator is an outcome *)
Lemma fold_left_no_fault {A B} (step : outcome A -> B -> outcome A) :
  (forall acc x, acc <> Fault -> step acc x <> Fault) ->
  forall l acc, acc <> Fault -> fold_left step l acc <> Fault.
Proof.
  intros Hs. induction l as [|x tl IH]; intros acc Ha; cbn [fold_left]; [exact Ha|].
  apply IH. apply Hs. exact Ha.
Qed.

(* ---------- checked slices inside their guards ---------- *)
Lemma slice_to_no_fault n l : n <= lenN l -> slice_to n l <> Fault.
Proof. intros H. unfold slice_to. replace (n <=? lenN l) with true by lia. discriminate. Qed.

Lemma slice_from_no_fault n l : n <= lenN l -> slice_from n l <> Fault.
Proof. intros H. unfold slice_from. replace (n <=? lenN l) with true by lia. discriminate. Qed.

Lemma slice_list_no_fault {A} lo hi (l : list A) : lo <= hi -> hi <= lenN l -> slice_list lo hi l <> Fault.
Proof.
  intros H1 H2. unfold slice_list.
  replace (lo <=? hi) with true by lia. replace (hi <=? lenN l) with true by lia. discriminate.
Qed.

(* ---------- 1. sparse shares: ParseBlobs ---------- *)
Lemma parse_sparse_loop_no_fault : forall shs seqs, parse_sparse_loop shs seqs <> Fault.
Proof.
  induction shs as [|s tl IH]; intros seqs; cbn [parse_sparse_loop]; [discriminate|].
  destruct (negb (sh_version_supported s)); [discriminate|].
  destruct (sh_is_padding s); [apply IH|].
  destruct (sh_start s); [apply IH|].
  destruct seqs as [|q older]; [discriminate|apply IH].
Qed.

Lemma finish_pseq_no_fault q : finish_pseq q <> Fault.
Proof.
  unfold finish_pseq. destruct (lenN (q_data q) <? q_len q) eqn:E; [discriminate|].
  apply bind_no_fault; [apply slice_to_no_fault; lia|]. intros d. apply new_blob_no_fault.
Qed.

Theorem parse_blobs_no_fault shs : parse_blobs shs <> Fault.
Proof.
  unfold parse_blobs. apply bind_no_fault; [apply parse_sparse_loop_no_fault|].
  intros seqs. apply map_outcome_no_fault. exact finish_pseq_no_fault.
Qed.

(* ---------- 2. compact shares: ParseTxs ---------- *)
Lemma parse_reserved_bytes_no_fault b : parse_reserved_bytes b <> Fault.
Proof.
  unfold parse_reserved_bytes. destruct (negb (Nat.eqb (length b) 4)); [discriminate|].
  destruct (512 <=? rd32 b); discriminate.
Qed.

(* RawDataUsingReserved: s.data[index:] is guarded by len(s.data) < index *)
Theorem sh_raw_data_using_reserved_no_fault s : sh_raw_data_using_reserved s <> Fault.
Proof.
  unfold sh_raw_data_using_reserved. destruct (sh_is_compact s); [|discriminate].
  apply bind_no_fault; [apply parse_reserved_bytes_no_fault|]. intros r.
  destruct (r =? 0); [discriminate|].
  destruct (lenN s <? r) eqn:E; [discriminate|]. apply slice_from_no_fault. lia.
Qed.

Lemma extract_raw_data_no_fault : forall shs found, extract_raw_data found shs <> Fault.
Proof.
  induction shs as [|s tl IH]; intros found; cbn [extract_raw_data]; [discriminate|].
  destruct found.
  - apply bind_no_fault; [apply IH|]. intros rest. discriminate.
  - apply bind_no_fault; [apply sh_raw_data_using_reserved_no_fault|]. intros raw.
    apply bind_no_fault; [apply IH|]. intros rest. discriminate.
Qed.

Lemma parse_raw_data_no_fault : forall fuel raw, parse_raw_data fuel raw <> Fault.
Proof.
  induction fuel as [|f IH]; intros raw; cbn [parse_raw_data]; [discriminate|].
  pose proof (parse_delimiter_no_fault raw) as Hd.
  destruct (parse_delimiter raw) as [actual unit_len| | |]; try discriminate; [|congruence].
  destruct (unit_len =? 0); [discriminate|].
  destruct (lenN actual <? unit_len); [discriminate|].
  apply bind_no_fault; [apply IH|]. intros rest. discriminate.
Qed.

Theorem parse_txs_no_fault shs : parse_txs shs <> Fault.
Proof.
  unfold parse_txs. destruct shs as [|s tl]; [discriminate|].
  destruct (negb (forallb (fun s0 => sh_version s0 =? 0) (s :: tl))); [discriminate|].
  apply bind_no_fault; [apply extract_raw_data_no_fault|]. intros raw. apply parse_raw_data_no_fault.
Qed.

(* ---------- 3. ParseShares, Sequence.RawData ---------- *)
Lemma group_shares_no_fault : forall shs cur done, group_shares shs cur done <> Fault.
Proof.
  induction shs as [|sh tl IH]; intros cur done; cbn [group_shares]; [discriminate|].
  destruct (sh_start sh); [apply IH|].
  destruct (negb (bytes_eqb (sq_ns cur) (sh_ns sh))); [discriminate|apply IH].
Qed.

Theorem number_of_shares_needed_no_fault first : number_of_shares_needed first <> Fault.
Proof.
  unfold number_of_shares_needed. destruct (sh_is_compact first); [discriminate|].
  match goal with |- (if ?c then _ else _) <> _ => destruct c end; discriminate.
Qed.

Theorem valid_sequence_len_no_fault s : valid_sequence_len s <> Fault.
Proof.
  unfold valid_sequence_len. destruct (sq_shares s) as [|first rest]; [discriminate|].
  destruct (seq_is_padding s); [discriminate|].
  apply bind_no_fault; [apply number_of_shares_needed_no_fault|]. intros n.
  match goal with |- (if ?c then _ else _) <> _ => destruct c end; discriminate.
Qed.

Theorem parse_shares_no_fault shs ignore : parse_shares shs ignore <> Fault.
Proof.
  unfold parse_shares. apply bind_no_fault; [apply group_shares_no_fault|]. intros seqs.
  apply bind_no_fault; [apply map_outcome_no_fault; exact valid_sequence_len_no_fault|].
  intros u. discriminate.
Qed.

(* Sequence.RawData: data[:sequenceLen] is guarded *)
Theorem sequence_raw_data_no_fault s : sequence_raw_data s <> Fault.
Proof.
  unfold sequence_raw_data. destruct (sq_shares s) as [|first rest] eqn:Es; [discriminate|].
  match goal with |- (if ?a <? ?b then _ else _) <> _ => destruct (a <? b) eqn:E end; [discriminate|].
  apply slice_to_no_fault. lia.
Qed.

(* ---------- 4. Deconstruct, WrappedPFBs ---------- *)

(* GetShareRangeForNamespace returns a range inside the list *)
Lemma range_scan_bounds ns : forall shs i start a b,
  match start with Some st => st <= i | None => True end ->
  range_scan shs ns i start = (a, b) -> a <= b /\ b <= i + lenN shs.
Proof.
  induction shs as [|sh tl IH]; intros i start a b Hst H; cbn [range_scan] in H.
  - rewrite lenN_nil. destruct start as [st|]; inversion H; subst; lia.
  - rewrite lenN_cons. destruct start as [st|].
    + destruct (ns_gt (sh_ns sh) ns).
      * inversion H; subst. lia.
      * apply IH in H; [lia|cbn; lia].
    + destruct (ns_equals ns (sh_ns sh)).
      * apply IH in H; [lia|cbn; lia].
      * apply IH in H; [lia|exact I].
Qed.

Lemma share_range_bounds shs ns a b :
  get_share_range_for_namespace shs ns = (a, b) -> a <= b /\ b <= lenN shs.
Proof.
  unfold get_share_range_for_namespace. destruct shs as [|first rest].
  { intros H. inversion H; subst. unfold lenN. cbn [length]. lia. }
  set (shs := first :: rest).
  destruct (ns_lt ns (sh_ns first)); [intros H; inversion H; subst; lia|].
  destruct (ns_gt ns (sh_ns (last shs []))); [intros H; inversion H; subst; lia|].
  intros H. apply range_scan_bounds in H; [lia|exact I].
Qed.

Lemma nth_error_in_range {A} (l : list A) i : i < lenN l -> nth_error l (N.to_nat i) <> None.
Proof. intros H. apply nth_error_Some. unfold lenN in H. lia. Qed.

(* the inner loop: s[shareIndex], blobSizes[j], s[shareIndex:end] *)
Lemma decon_blobs_no_fault s : forall idxs sizes, length sizes = length idxs ->
  decon_blobs s idxs sizes <> Fault.
Proof.
  induction idxs as [|i itl IH]; intros sizes Hl; destruct sizes as [|sz stl]; cbn [decon_blobs];
    try discriminate.
  cbn [length] in Hl. injection Hl as Hl.
  destruct (lenN s <=? i) eqn:Ei; [discriminate|].
  pose proof (nth_error_in_range s i ltac:(lia)) as Hn.
  destruct (nth_error s (N.to_nat i)) as [first|]; [|congruence].
  match goal with |- (if 4294967295 <? ?t then _ else _) <> _ => set (blob_len := t); destruct (4294967295 <? blob_len) end;
    [discriminate|].
  destruct (lenN s <? i + sparse_shares_needed blob_len) eqn:Ee; [discriminate|].
  apply bind_no_fault; [apply slice_list_no_fault; lia|]. intros sub.
  apply bind_no_fault; [apply parse_blobs_no_fault|]. intros parsed.
  destruct parsed as [|b [|b2 more]]; try discriminate.
  apply bind_no_fault; [apply IH; exact Hl|]. intros rest. discriminate.
Qed.

Theorem marshal_blob_tx_no_fault tx blobs : marshal_blob_tx tx blobs <> Fault.
Proof.
  unfold marshal_blob_tx. destruct blobs as [|b tl]; [discriminate|].
  match goal with |- (if ?c then _ else _) <> _ => destruct c end; discriminate.
Qed.

Lemma decon_pfbs_no_fault decoder s : (forall b, decoder b <> Fault) ->
  forall wpfbs, decon_pfbs decoder s wpfbs <> Fault.
Proof.
  intros decoder_no_fault.
  induction wpfbs as [|w tl IH]; cbn [decon_pfbs]; [discriminate|].
  destruct (unmarshal_index_wrapper w) as [iw|]; [|discriminate].
  destruct (iw_idx iw) as [|i0 itl] eqn:Ei; [discriminate|]. rewrite <- Ei.
  apply bind_no_fault; [apply decoder_no_fault|]. intros sizes.
  destruct (Nat.eqb (length sizes) (length (iw_idx iw))) eqn:El; cbn [negb]; [|discriminate].
  apply Nat.eqb_eq in El.
  apply bind_no_fault; [apply decon_blobs_no_fault; exact El|]. intros blobs.
  apply bind_no_fault; [apply marshal_blob_tx_no_fault|]. intros txb.
  apply bind_no_fault; [apply IH|]. intros rest. discriminate.
Qed.

Theorem deconstruct_no_fault decoder s : (forall b, decoder b <> Fault) ->
  deconstruct decoder s <> Fault.
Proof.
  intros decoder_no_fault.
  unfold deconstruct. destruct (square_is_empty s); [discriminate|].
  destruct (get_share_range_for_namespace s tx_ns) as [ts te] eqn:Et.
  apply share_range_bounds in Et. destruct Et as [Et1 Et2].
  destruct (negb (ts =? 0)); [discriminate|].
  destruct (get_share_range_for_namespace (dropN te s) pfb_ns) as [ps pe] eqn:Ep.
  apply share_range_bounds in Ep. destruct Ep as [Ep1 Ep2].
  assert (Hd : lenN (dropN te s) = lenN s - te).
  { unfold lenN, dropN in *. rewrite skipn_length. lia. }
  destruct ((ps =? 0) && (pe =? 0)).
  - apply bind_no_fault; [apply slice_list_no_fault; lia|]. intros sub. apply parse_txs_no_fault.
  - destruct (negb (ps =? 0)); [discriminate|].
    apply bind_no_fault; [apply slice_list_no_fault; lia|]. intros subt.
    apply bind_no_fault; [apply parse_txs_no_fault|]. intros txs.
    apply bind_no_fault; [apply slice_list_no_fault; lia|]. intros subp.
    apply bind_no_fault; [apply parse_txs_no_fault|]. intros wpfbs.
    apply bind_no_fault; [apply decon_pfbs_no_fault; exact decoder_no_fault|]. intros btxs. discriminate.
Qed.

Theorem wrapped_pfbs_no_fault s : wrapped_pfbs s <> Fault.
Proof.
  unfold wrapped_pfbs.
  destruct (get_share_range_for_namespace s pfb_ns) as [ps pe] eqn:Ep.
  apply share_range_bounds in Ep. destruct Ep as [Ep1 Ep2].
  destruct ((ps =? 0) && (pe =? 0)); [discriminate|].
  apply bind_no_fault; [apply slice_list_no_fault; lia|]. intros sub. apply parse_txs_no_fault.
Qed.

(* the hypothesis of deconstruct_no_fault is satisfiable: the mock decoder of the
   repository's test helpers never faults *)
Theorem mock_pfb_decoder_no_fault pfb : mock_pfb_decoder pfb <> Fault.
Proof. unfold mock_pfb_decoder. destruct (Nat.ltb (length pfb) 333); discriminate. Qed.

Corollary deconstruct_mock_no_fault s : deconstruct mock_pfb_decoder s <> Fault.
Proof. apply deconstruct_no_fault. exact mock_pfb_decoder_no_fault. Qed.

(* ---------- 5. byte-string decoders ---------- *)
Lemma parse_fields_no_fault : forall fuel b, parse_fields fuel b <> Fault.
Proof.
  induction fuel as [|f IH]; intros b; destruct b as [|x l]; cbn [parse_fields]; try discriminate.
  destruct (consume_varint (x :: l)) as [[tag b1]|]; [|discriminate].
  match goal with |- (if ?c then _ else _) <> _ => destruct c end; [discriminate|].
  destruct (tag mod 8 =? 0).
  { destruct (consume_varint b1) as [[v b2]|]; [|discriminate].
    apply bind_no_fault; [apply IH|]. intros r. discriminate. }
  destruct (tag mod 8 =? 1).
  { destruct (consume_fixed 8 b1) as [[v b2]|]; [|discriminate].
    apply bind_no_fault; [apply IH|]. intros r. discriminate. }
  destruct (tag mod 8 =? 2).
  { destruct (consume_bytes b1) as [[v b2]|]; [|discriminate].
    apply bind_no_fault; [apply IH|]. intros r. discriminate. }
  destruct (tag mod 8 =? 3).
  { destruct (skip_group (length b1) [tag / 8] b1) as [b2|]; [|discriminate].
    apply bind_no_fault; [apply IH|]. intros r. discriminate. }
  destruct (tag mod 8 =? 5); [|discriminate].
  destruct (consume_fixed 4 b1) as [[v b2]|]; [|discriminate].
  apply bind_no_fault; [apply IH|]. intros r. discriminate.
Qed.

Theorem wire_fields_no_fault b : wire_fields b <> Fault.
Proof. apply parse_fields_no_fault. Qed.

Theorem unmarshal_blob_proto_no_fault b : unmarshal_blob_proto b <> Fault.
Proof.
  unfold unmarshal_blob_proto. apply bind_no_fault; [apply wire_fields_no_fault|]. intros fs. discriminate.
Qed.

Lemma new_namespace_no_fault v id : new_namespace v id <> Fault.
Proof. unfold new_namespace. destruct (ns_validate (n2b v :: id)); discriminate. Qed.

Theorem new_blob_from_proto_no_fault p : new_blob_from_proto p <> Fault.
Proof.
  unfold new_blob_from_proto. destruct (255 <? bp_ns_version p); [discriminate|].
  destruct (127 <? bp_share_version p); [discriminate|].
  apply bind_no_fault; [apply new_namespace_no_fault|]. intros ns. apply new_blob_no_fault.
Qed.

Theorem unmarshal_blob_no_fault b : unmarshal_blob b <> Fault.
Proof.
  unfold unmarshal_blob. apply bind_no_fault; [apply unmarshal_blob_proto_no_fault|].
  exact new_blob_from_proto_no_fault.
Qed.

Lemma btp_apply_no_fault acc f : acc <> Fault -> btp_apply acc f <> Fault.
Proof.
  intros Ha. unfold btp_apply. apply bind_no_fault; [exact Ha|]. intros p.
  destruct f as [num v].
  destruct v as [v|v|v|v|];
    repeat match goal with |- (match ?n with N0 => _ | Npos _ => _ end) <> _ => destruct n
                         | |- (match ?q with xH => _ | xO _ => _ | xI _ => _ end) <> _ => destruct q end;
    try discriminate; try (destruct (utf8_valid v); discriminate).
  apply bind_no_fault; [apply unmarshal_blob_proto_no_fault|]. intros bp. discriminate.
Qed.

Theorem unmarshal_blob_tx_proto_no_fault b : unmarshal_blob_tx_proto b <> Fault.
Proof.
  unfold unmarshal_blob_tx_proto. apply bind_no_fault; [apply wire_fields_no_fault|]. intros fs.
  apply fold_left_no_fault; [exact btp_apply_no_fault|discriminate].
Qed.

Lemma parse_packed_no_fault : forall fuel b, parse_packed fuel b <> Fault.
Proof.
  induction fuel as [|f IH]; intros b; destruct b as [|x l]; cbn [parse_packed]; try discriminate.
  destruct (consume_varint (x :: l)) as [[v rest]|]; [|discriminate].
  apply bind_no_fault; [apply IH|]. intros r. discriminate.
Qed.

Lemma iw_apply_no_fault acc f : acc <> Fault -> iw_apply acc f <> Fault.
Proof.
  intros Ha. unfold iw_apply. apply bind_no_fault; [exact Ha|]. intros p.
  destruct f as [num v].
  destruct v as [v|v|v|v|];
    repeat match goal with |- (match ?n with N0 => _ | Npos _ => _ end) <> _ => destruct n
                         | |- (match ?q with xH => _ | xO _ => _ | xI _ => _ end) <> _ => destruct q end;
    try discriminate; try (destruct (utf8_valid v); discriminate).
  apply bind_no_fault; [apply parse_packed_no_fault|]. intros vs. discriminate.
Qed.

Theorem unmarshal_index_wrapper_proto_no_fault b : unmarshal_index_wrapper_proto b <> Fault.
Proof.
  unfold unmarshal_index_wrapper_proto. apply bind_no_fault; [apply wire_fields_no_fault|]. intros fs.
  apply fold_left_no_fault; [exact iw_apply_no_fault|discriminate].
Qed.

(* [unmarshal_blob_tx : bytes -> ubt_result] and [unmarshal_index_wrapper :
   bytes -> option index_wrapper] return types without a fault constructor; a
   fault of the underlying proto decoder would be mapped to UbtNot / None.  That
   no fault is swallowed this way is exactly unmarshal_blob_tx_proto_no_fault,
   unmarshal_index_wrapper_proto_no_fault and new_blob_from_proto_no_fault. *)
Theorem unmarshal_blob_tx_swallows_no_fault b :
  unmarshal_blob_tx_proto b <> Fault /\
  forall p, unmarshal_blob_tx_proto b = Ok p -> map_outcome new_blob_from_proto (btp_blobs p) <> Fault.
Proof.
  split; [apply unmarshal_blob_tx_proto_no_fault|]. intros p _.
  apply map_outcome_no_fault. exact new_blob_from_proto_no_fault.
Qed.

(* ---------- the C16 statement of the design, in one piece ---------- *)
Theorem decoders_total :
  (forall shs b dec, (forall x, dec x <> Fault) ->
     parse_blobs shs <> Fault /\ parse_txs shs <> Fault /\ parse_shares shs b <> Fault /\
     (forall seqs, parse_shares shs b = Ok seqs ->
        Forall (fun q => sequence_raw_data q <> Fault /\ valid_sequence_len q <> Fault) seqs) /\
     deconstruct dec shs <> Fault /\ wrapped_pfbs shs <> Fault /\
     Forall (fun s => sh_raw_data_using_reserved s <> Fault) shs) /\
  (forall bs, wire_fields bs <> Fault /\ unmarshal_blob_proto bs <> Fault /\ unmarshal_blob bs <> Fault /\
     unmarshal_blob_tx_proto bs <> Fault /\ unmarshal_index_wrapper_proto bs <> Fault) /\
  (forall input, parse_delimiter input <> DelimFault).
Proof.
  split; [|split].
  - intros shs b dec Hdec.
    split; [apply parse_blobs_no_fault|]. split; [apply parse_txs_no_fault|].
    split; [apply parse_shares_no_fault|].
    split; [intros seqs _; apply Forall_forall; intros q _; split;
            [apply sequence_raw_data_no_fault|apply valid_sequence_len_no_fault]|].
    split; [apply deconstruct_no_fault; exact Hdec|]. split; [apply wrapped_pfbs_no_fault|].
    apply Forall_forall. intros s _. apply sh_raw_data_using_reserved_no_fault.
  - intros bs. repeat split.
    + apply wire_fields_no_fault.
    + apply unmarshal_blob_proto_no_fault.
    + apply unmarshal_blob_no_fault.
    + apply unmarshal_blob_tx_proto_no_fault.
    + apply unmarshal_index_wrapper_proto_no_fault.
  - exact parse_delimiter_no_fault.
Qed.

(* The same on the domain on which the model is claimed to mirror the Go code:
   lists of 512-byte shares (share.Share values built by NewShare).  The
   hypothesis is not needed by the proofs - the model's accessors are total
   functions - it delimits where "no Fault in the model" means "no panic in Go":
   on a zero-value share.Share{} the Go accessors index a nil slice. *)
Corollary sh_raw_data_using_reserved_wf_no_fault s : wf_share s -> sh_raw_data_using_reserved s <> Fault.
Proof. intros _. apply sh_raw_data_using_reserved_no_fault. Qed.

Corollary decoders_total_wf : forall shs b dec, Forall wf_share shs -> (forall x, dec x <> Fault) ->
  parse_blobs shs <> Fault /\ parse_txs shs <> Fault /\ parse_shares shs b <> Fault /\
  (forall seqs, parse_shares shs b = Ok seqs ->
     Forall (fun q => sequence_raw_data q <> Fault /\ valid_sequence_len q <> Fault) seqs) /\
  deconstruct dec shs <> Fault /\ wrapped_pfbs shs <> Fault /\
  Forall (fun s => sh_raw_data_using_reserved s <> Fault) shs.
Proof. intros shs b dec _ Hdec. apply (proj1 decoders_total); exact Hdec. Qed.
