(* C02 (code model) - Constructing then deconstructing a square returns the original
   transactions.  Statements only; proofs in Proofs/EndToEndProofs.v.

   End-to-end statement about the code model, by C07 refinement + deconstruct_layout_construct:
   [construct] is the model of square.Construct (Model/Builder.v: NewBuilder with the
   transactions, Export with its counters, share writers, cursor and WriteSquare copies),
   [deconstruct] the model of square.Deconstruct (Model/Square.v).  C02.v states the round
   trip for the rule-based layout; here the layout has been replaced by Construct itself
   through construct = layout_construct (RefinementProofs3.construct_eq_layout).

   Conditions: threshold >= 1; maximum side <= 1024 (any value: an invalid one makes
   Construct fail, and then there is nothing to deconstruct); ordinary transactions non-empty
   and not decodable as blob transactions; every blob transaction decodable (btx_ok) with
   blobs as NewBlob accepts them (share version 0, or 1 with a 20 byte signer) in namespaces
   ValidateForBlob accepts, data + signer below 4 GiB (c07_btx_ok, spelled out in
   C02_code_blob_condition); the application's PFB decoder reports the data sizes of the
   transaction's blobs.  blob_tx_bytes t is what MarshalBlobTx returns for the parts of t
   (C02_canonical_encoding in C02.v). *)
From Coq Require Import List NArith ZArith.
From GS.Model Require Import Base Varint Namespace ShareFmt Blob Sparse Compact Counter Arith Proto Builder Square.
From GS.Spec Require Import ShareSpec CompactSpec LayoutSpec.
From GS.Proofs Require Import SparseProofs ProtoProofs LayoutShapeProofs DeconstructProofs
  RefinementProofs1 RefinementProofs3 EndToEndProofs.
Import ListNotations.
Open Scope N_scope.

(* the round trip: whatever Construct returns for such a list deconstructs to the list *)
Theorem C02_code_construct_deconstruct : forall dec thr max normals btxs sq,
  1 <= thr -> (max <= 1024)%Z ->
  Forall (fun r => r <> [] /\ unmarshal_blob_tx r = UbtNot) normals ->
  Forall c07_btx_ok btxs ->
  Forall (fun t => btx_ok (btx_tx t) (btx_blobs t)) btxs ->
  Forall (fun t => dec (btx_tx t) = Ok (blob_sizes (btx_blobs t))) btxs ->
  construct (normals ++ map blob_tx_bytes btxs) max thr = Ok sq ->
  deconstruct dec sq = Ok (normals ++ map blob_tx_bytes btxs).
Proof. exact construct_deconstruct. Qed.
Print Assumptions C02_code_construct_deconstruct.

(* the same with the refinement's hypothesis stated on the raw list *)
Theorem C02_code_construct_deconstruct_raws : forall dec thr max normals btxs sq,
  1 <= thr -> (max <= 1024)%Z -> c07_raws_ok (normals ++ map blob_tx_bytes btxs) ->
  Forall (fun r => r <> [] /\ unmarshal_blob_tx r = UbtNot) normals ->
  Forall lay_btx_ok btxs ->
  Forall (fun t => btx_ok (btx_tx t) (btx_blobs t)) btxs ->
  Forall (fun t => dec (btx_tx t) = Ok (blob_sizes (btx_blobs t))) btxs ->
  construct (normals ++ map blob_tx_bytes btxs) max thr = Ok sq ->
  deconstruct dec sq = Ok (normals ++ map blob_tx_bytes btxs).
Proof. exact construct_deconstruct_raws. Qed.
Print Assumptions C02_code_construct_deconstruct_raws.

(* the empty list: for every valid maximum (a positive power of two, of any size) and every
   threshold, Construct returns EmptySquare, the single tail padding share, and Deconstruct
   of it returns the empty list *)
Theorem C02_code_empty : forall dec max thr, new_builder_ok max = true ->
  construct [] max thr = empty_square /\
  exists sq, construct [] max thr = Ok sq /\ sq = [padding_spec tail_padding_ns 0] /\
             deconstruct dec sq = Ok [].
Proof. exact construct_empty. Qed.
Print Assumptions C02_code_empty.

(* the condition on the blobs, spelled out *)
Theorem C02_code_blob_condition : forall t, c07_btx_ok t <->
  forall b, In b (btx_blobs t) ->
    blob_ok b /\ validate_for_blob (b_ns b) = true /\ lenN (b_data b) + signer_len b < 4294967296.
Proof. exact c07_btx_ok_iff. Qed.
Print Assumptions C02_code_blob_condition.

(* a list in canonical form satisfies the hypothesis of the refinement *)
Theorem C02_code_canonical_raws_ok : forall normals btxs,
  Forall (fun r => unmarshal_blob_tx r = UbtNot) normals ->
  Forall c07_btx_ok btxs -> Forall (fun t => btx_ok (btx_tx t) (btx_blobs t)) btxs ->
  c07_raws_ok (normals ++ map blob_tx_bytes btxs).
Proof. exact canonical_raws_ok. Qed.
Print Assumptions C02_code_canonical_raws_ok.

(* ---- non-vacuity ---- *)
(* the input of C02.v as raw bytes: two ordinary transactions; a blob transaction with two
   version 0 blobs given in descending namespace order (2000 and 600 bytes) and one with a
   version 1 blob of 459 bytes (with its 20 byte signer: two shares); the mock PFB decoder of
   the test helpers; maximum side 8, threshold 1.  The hypotheses hold and Construct succeeds. *)
Example C02_code_example_hyps :
  1 <= 1 /\ (8 <= 1024)%Z /\
  Forall (fun r => r <> [] /\ unmarshal_blob_tx r = UbtNot) ex_normals /\
  Forall c07_btx_ok ex_c02_btxs /\
  Forall (fun t => btx_ok (btx_tx t) (btx_blobs t)) ex_c02_btxs /\
  Forall (fun t => mock_pfb_decoder (btx_tx t) = Ok (blob_sizes (btx_blobs t))) ex_c02_btxs /\
  is_ok (construct (ex_normals ++ map blob_tx_bytes ex_c02_btxs) 8 1) = true.
Proof. exact e2e_c02_hyps. Qed.

(* by the theorem *)
Example C02_code_example_round_trip :
  exists sq, construct (ex_normals ++ map blob_tx_bytes ex_c02_btxs) 8 1 = Ok sq /\
             deconstruct mock_pfb_decoder sq = Ok (ex_normals ++ map blob_tx_bytes ex_c02_btxs).
Proof. exact e2e_c02_round_trip. Qed.

(* by evaluation of the two models: 64 shares, and back *)
Example C02_code_example_computed :
  match construct (ex_normals ++ map blob_tx_bytes ex_c02_btxs) 8 1 with
  | Ok sq => length sq = 64%nat /\
             deconstruct mock_pfb_decoder sq = Ok (ex_normals ++ map blob_tx_bytes ex_c02_btxs)
  | _ => False
  end.
Proof. vm_compute. split; reflexivity. Qed.

(* only ordinary transactions / the empty list *)
Example C02_code_example_only_normals :
  match construct ex_normals 8 64 with
  | Ok sq => deconstruct mock_pfb_decoder sq = Ok ex_normals
  | _ => False
  end.
Proof. vm_compute. reflexivity. Qed.

Example C02_code_example_empty :
  construct [] 8 64 = Ok [padding_spec tail_padding_ns 0] /\
  deconstruct mock_pfb_decoder [padding_spec tail_padding_ns 0] = Ok [].
Proof. split; vm_compute; reflexivity. Qed.
