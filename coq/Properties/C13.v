(* C13 - Share-count predictions equal what the encoders actually produce.
   Statements only. *)
From Coq Require Import List NArith ZArith.
From GS.Model Require Import Base Varint ShareFmt Blob Sparse Counter.
From GS.Spec Require Import ShareSpec.
From GS.Proofs Require Import CounterProofs SparseProofs.
Import ListNotations.

(* After ANY history of additions (of non-negative lengths) and single-step reverts the
   counter's size is the closed-form share count of the surviving delimited length and
   its remainder the in-share remainder.  [spec_step] defines "surviving": an add
   remembers the length before it, a revert returns to the remembered length (a revert
   that is not directly preceded by an add is a no-op). *)
Theorem C13_counter_history : forall ops, Forall op_ok ops ->
  let c := fold_left model_step ops new_counter in
  let s := fold_left spec_step ops (0, 0)%Z in
  (0 <= fst s)%Z /\
  counter_size c = needed_z (fst s) /\
  counter_remainder c = enc_rem (fst s).
Proof. exact counter_history. Qed.
Print Assumptions C13_counter_history.

(* every Add returns exactly the increment of the closed-form share count *)
Theorem C13_counter_increment : forall ops n, Forall op_ok ops -> (0 <= n)%Z ->
  let c := fold_left model_step ops new_counter in
  let s := fold_left spec_step ops (0, 0)%Z in
  snd (counter_add c n) = (needed_z (fst (spec_step s (CAdd n))) - needed_z (fst s))%Z.
Proof. exact counter_add_increment. Qed.
Print Assumptions C13_counter_increment.

(* needed_z is CompactSharesNeeded *)
Theorem C13_needed_z_is_compact_needed : forall n : N,
  needed_z (Z.of_N n) = Z.of_N (compact_shares_needed n).
Proof. exact needed_z_compact. Qed.
Print Assumptions C13_needed_z_is_compact_needed.

(* the needed/available functions are exact inverses (all lengths, unbounded) *)
Theorem C13_compact_needed_least : forall n,
  (Z.of_N n <= available_compact (Z.of_N (compact_shares_needed n)))%Z /\
  (compact_shares_needed n = 0%N \/ available_compact (Z.of_N (compact_shares_needed n) - 1) < Z.of_N n)%Z.
Proof. exact compact_needed_least. Qed.
Print Assumptions C13_compact_needed_least.

Theorem C13_sparse_needed_least : forall n,
  (Z.of_N n <= available_sparse (Z.of_N (sparse_shares_needed n)))%Z /\
  (sparse_shares_needed n = 0%N \/ available_sparse (Z.of_N (sparse_shares_needed n) - 1) < Z.of_N n)%Z.
Proof. exact sparse_needed_least. Qed.
Print Assumptions C13_sparse_needed_least.

Theorem C13_compact_available_exact : forall k, (1 <= k)%Z ->
  compact_shares_needed (Z.to_N (available_compact k)) = Z.to_N k /\
  compact_shares_needed (Z.to_N (available_compact k) + 1) = (Z.to_N k + 1)%N.
Proof. exact compact_available_exact. Qed.
Print Assumptions C13_compact_available_exact.

Theorem C13_sparse_available_exact : forall k, (1 <= k)%Z ->
  sparse_shares_needed (Z.to_N (available_sparse k)) = Z.to_N k /\
  sparse_shares_needed (Z.to_N (available_sparse k) + 1) = (Z.to_N k + 1)%N.
Proof. exact sparse_available_exact. Qed.
Print Assumptions C13_sparse_available_exact.

(* blobs: the shares actually produced number exactly the prediction over data + signer,
   for share versions 0 and 1 *)
Theorem C13_blob_share_count : forall b, blob_ok b ->
  exists shs, blob_to_shares b = Ok shs /\
              lenN shs = sparse_shares_needed (lenN (b_data b) + signer_len b).
Proof.
  intros b H. exists (blob_spec b). split; [exact (sparse_write_spec b H)|exact (blob_spec_length b H)].
Qed.
Print Assumptions C13_blob_share_count.
