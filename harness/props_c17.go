package main

// C17: read-only operations do not modify their inputs and are race-free.
//
// Three parts:
//
//  1. Arena oracle.  The inputs of the read-only operations (the transactions a
//     square is constructed from, the shares of the square, the wrapped PFBs, the
//     namespace / signer / data of the blobs) are laid out back to back as views
//     into ONE contiguous buffer each, every view being a two-index slice, i.e.
//     with the whole rest of the buffer as spare capacity.  Every operation runs on
//     the views; afterwards the buffers and the package-level values are compared
//     with snapshots, and the result is compared with the result of the same
//     operation on individually allocated deep copies of the inputs.
//
//  2. Correspondence.  Requests (also understood by runner/driver.ml, where the
//     explicit-memory Coq model Model/Mem.v predicts the same line):
//       memparseblobs        <arena> <off:cap,off:cap,...>   share.ParseBlobs on the views
//                                                            arena[off : off+512 : off+cap]
//       memparseblobslegacy  same request; the model side runs the pre-D7-fix parser
//       memparsetxs          <arena> <off:cap,...>           share.ParseTxs on the views
//       memcommitleaves      <arena> <off:cap,...> <thr>     share.ParseBlobs on the views, then
//                                                            inclusion.GenerateSubtreeRoots on every parsed blob
//       memsparsewrite       <arena> <off:cap,...>           share.ParseBlobs on the views, then
//                                                            SparseShareSplitter.Write of every parsed blob
//       (mem...legacy: same request; the model side runs the `append(view, ...)` variant)
//     answer:  <first modified arena offset | none> ; <result>
//
//  3. Concurrency.  `harness racecheck <seed> <tier>` runs 8 goroutines that perform
//     all operations of part 1 over the SAME views and compares every result with
//     the sequential result.  genC17 executes the sibling binary harness_race (the
//     same program built with -race) and turns a race report or a mismatch into a
//     finding.

import (
	"bytes"
	"context"
	"fmt"
	"os"
	"os/exec"
	"path/filepath"
	"regexp"
	"sort"
	"strconv"
	"strings"
	"sync"
	"time"

	square "github.com/celestiaorg/go-square/v2"
	"github.com/celestiaorg/go-square/v2/inclusion"
	"github.com/celestiaorg/go-square/v2/share"
	"github.com/celestiaorg/go-square/v2/tx"
)

func init() {
	generators["C17"] = genC17
	extraOps["memparseblobs"] = memParseBlobs
	extraOps["memparseblobslegacy"] = memParseBlobs
	extraOps["memparsetxs"] = memParseTxs
	extraCommands["racecheck"] = raceCheckCommand
}

// ---------------------------------------------------------------------------
// arenas
// ---------------------------------------------------------------------------

const c17Slack = 96 // spare bytes behind the last view of every arena

type arena struct {
	name string
	buf  []byte
	used int
	snap []byte
}

func newArena(name string, payload int, r *Rng) *arena {
	a := &arena{name: name, buf: make([]byte, payload+c17Slack)}
	// the slack is not zero: a write of zero padding into it must be visible
	copy(a.buf[payload:], r.Bytes(c17Slack))
	return a
}

// place copies b behind the previous view and returns the view: a two-index
// slice, so its capacity extends over everything placed later and the slack.
func (a *arena) place(b []byte) []byte {
	off := a.used
	if off+len(b) > len(a.buf)-c17Slack {
		panic("harness: arena too small")
	}
	copy(a.buf[off:], b)
	a.used += len(b)
	return a.buf[off : off+len(b)]
}

func (a *arena) snapshot() { a.snap = append([]byte(nil), a.buf...) }

// firstDiff returns the first offset at which the arena differs from its snapshot, or -1.
func (a *arena) firstDiff() int {
	if bytes.Equal(a.buf, a.snap) {
		return -1
	}
	for i := range a.buf {
		if a.buf[i] != a.snap[i] {
			return i
		}
	}
	return len(a.buf)
}

func (a *arena) restore() { copy(a.buf, a.snap) }

// package-level values of go-square that the operations could touch
type globalSnap struct {
	name string
	live []byte
	snap []byte
}

func snapGlobals() []globalSnap {
	gs := []globalSnap{
		{name: "share.TxNamespace", live: share.TxNamespace.Bytes()},
		{name: "share.IntermediateStateRootsNamespace", live: share.IntermediateStateRootsNamespace.Bytes()},
		{name: "share.PayForBlobNamespace", live: share.PayForBlobNamespace.Bytes()},
		{name: "share.PrimaryReservedPaddingNamespace", live: share.PrimaryReservedPaddingNamespace.Bytes()},
		{name: "share.MaxPrimaryReservedNamespace", live: share.MaxPrimaryReservedNamespace.Bytes()},
		{name: "share.MinSecondaryReservedNamespace", live: share.MinSecondaryReservedNamespace.Bytes()},
		{name: "share.TailPaddingNamespace", live: share.TailPaddingNamespace.Bytes()},
		{name: "share.ParitySharesNamespace", live: share.ParitySharesNamespace.Bytes()},
		{name: "share.SupportedShareVersions", live: share.SupportedShareVersions},
		{name: "share.SupportedBlobNamespaceVersions", live: share.SupportedBlobNamespaceVersions},
	}
	for i := range gs {
		// the snapshot covers the spare capacity too
		full := gs[i].live[:cap(gs[i].live)]
		gs[i].live = full
		gs[i].snap = append([]byte(nil), full...)
	}
	return gs
}

// ---------------------------------------------------------------------------
// inputs
// ---------------------------------------------------------------------------

// c17Raw: one generated case, as plain individually allocated values
type c17Raw struct {
	shape    string
	kept     [][]byte // ordered transactions accepted by Construct
	max, thr int
	sq       [][]byte // the shares of Construct(kept)
	wpfbs    [][]byte // the wrapped PFBs of the square
	blobs    []genBlob
	inners   [][]byte // the inner transaction of every blob tx
	marshals [][]byte // Blob.Marshal() of every blob
	nNormal  int
	places   []placement
}

type c17Blob struct {
	ns     share.Namespace
	data   []byte
	signer []byte
	ver    uint8
	blob   *share.Blob
}

// c17Input: what the operations see (views or copies)
type c17Input struct {
	kept     [][]byte
	max, thr int
	sq       []share.Share
	wpfbs    [][]byte
	blobs    []c17Blob
	inners   [][]byte
	marshals [][]byte
	nNormal  int
	places   []placement // only index / share counts are used
	queryNs  []share.Namespace
}

func c17Generate(c *Ctx, r *Rng) (*c17Raw, bool) {
	s := randSquareCase(c, r, true, r.Bool(40))
	_, kept, err := keptCase(s)
	if err != nil {
		return nil, false
	}
	sq, err := square.Construct(kept, s.max, s.thr)
	if err != nil {
		return nil, false
	}
	raw := &c17Raw{shape: s.shape(), kept: kept, max: s.max, thr: s.thr, sq: copyShares(sq)}
	wp, err := sq.WrappedPFBs()
	if err != nil {
		return nil, false
	}
	raw.wpfbs = wp
	pl, err := placements(sq, kept)
	if err != nil {
		return nil, false
	}
	raw.places = pl
	for _, k := range kept {
		bt, isBlob, err := tx.UnmarshalBlobTx(k)
		if !isBlob {
			raw.nNormal++
			continue
		}
		if err != nil {
			return nil, false
		}
		raw.inners = append(raw.inners, append([]byte(nil), bt.Tx...))
		for _, b := range bt.Blobs {
			g := genBlob{ns: append([]byte(nil), b.Namespace().Bytes()...), ver: b.ShareVersion(), data: append([]byte(nil), b.Data()...)}
			if b.Signer() != nil {
				g.signer = append([]byte(nil), b.Signer()...)
			}
			raw.blobs = append(raw.blobs, g)
			m, err := b.Marshal()
			if err != nil {
				return nil, false
			}
			raw.marshals = append(raw.marshals, m)
		}
	}
	return raw, true
}

func sumLens(l [][]byte) int {
	n := 0
	for _, b := range l {
		n += len(b)
	}
	return n
}

func c17QueryNamespaces(blobs []c17Blob) []share.Namespace {
	q := []share.Namespace{share.TxNamespace, share.PayForBlobNamespace, share.PrimaryReservedPaddingNamespace,
		share.TailPaddingNamespace, share.ParitySharesNamespace}
	for i, b := range blobs {
		if i < 4 {
			q = append(q, b.ns)
		}
	}
	return q
}

func mustBlob(ns share.Namespace, data []byte, ver uint8, signer []byte) *share.Blob {
	b, err := share.NewBlob(ns, data, ver, signer)
	if err != nil {
		panic("harness: NewBlob on a generated blob: " + err.Error())
	}
	return b
}

// c17Views lays the case out in arenas.
func c17Views(raw *c17Raw, r *Rng) (*c17Input, []*arena) {
	in := &c17Input{max: raw.max, thr: raw.thr, nNormal: raw.nNormal, places: raw.places}
	txA := newArena("transactions", sumLens(raw.kept)+sumLens(raw.wpfbs)+sumLens(raw.inners)+sumLens(raw.marshals), r)
	for _, k := range raw.kept {
		in.kept = append(in.kept, txA.place(k))
	}
	for _, w := range raw.wpfbs {
		in.wpfbs = append(in.wpfbs, txA.place(w))
	}
	for _, w := range raw.inners {
		in.inners = append(in.inners, txA.place(w))
	}
	for _, w := range raw.marshals {
		in.marshals = append(in.marshals, txA.place(w))
	}
	shA := newArena("shares", sumLens(raw.sq), r)
	for _, s := range raw.sq {
		sh, err := share.NewShare(shA.place(s))
		if err != nil {
			panic("harness: " + err.Error())
		}
		in.sq = append(in.sq, *sh)
	}
	total := 0
	for _, g := range raw.blobs {
		total += len(g.ns) + len(g.signer) + len(g.data)
	}
	blA := newArena("blobs", total, r)
	for _, g := range raw.blobs {
		nsv := blA.place(g.ns)
		var sg []byte
		if g.signer != nil {
			sg = blA.place(g.signer)
		}
		dv := blA.place(g.data)
		ns, err := share.NewNamespaceFromBytes(nsv)
		if err != nil {
			panic("harness: " + err.Error())
		}
		in.blobs = append(in.blobs, c17Blob{ns: ns, data: dv, signer: sg, ver: g.ver, blob: mustBlob(ns, dv, g.ver, sg)})
	}
	in.queryNs = c17QueryNamespaces(in.blobs)
	arenas := []*arena{txA, shA, blA}
	for _, a := range arenas {
		a.snapshot()
	}
	return in, arenas
}

func cp(b []byte) []byte {
	if b == nil {
		return nil
	}
	out := make([]byte, len(b))
	copy(out, b)
	return out
}

func cpList(l [][]byte) [][]byte {
	out := make([][]byte, len(l))
	for i, b := range l {
		out[i] = cp(b)
	}
	return out
}

// c17Copies gives every input its own allocation.
func c17Copies(raw *c17Raw) *c17Input {
	in := &c17Input{max: raw.max, thr: raw.thr, nNormal: raw.nNormal, places: raw.places,
		kept: cpList(raw.kept), wpfbs: cpList(raw.wpfbs), inners: cpList(raw.inners), marshals: cpList(raw.marshals)}
	in.sq = sharesOf(cpList(raw.sq))
	for _, g := range raw.blobs {
		ns, err := share.NewNamespaceFromBytes(cp(g.ns))
		if err != nil {
			panic("harness: " + err.Error())
		}
		d, sg := cp(g.data), cp(g.signer)
		in.blobs = append(in.blobs, c17Blob{ns: ns, data: d, signer: sg, ver: g.ver, blob: mustBlob(ns, d, g.ver, sg)})
	}
	in.queryNs = c17QueryNamespaces(in.blobs)
	return in
}

// ---------------------------------------------------------------------------
// the read-only operations; every one returns a canonical result string
// ---------------------------------------------------------------------------

type c17Op struct {
	name string
	run  func(in *c17Input) string
}

func errOr(err error, f func() string) string {
	if err != nil {
		return "err"
	}
	return "ok:" + f()
}

func digestShares(shs []share.Share) string {
	return "#" + itoa(len(shs)) + ":" + digestList(rawShares(shs))
}

func digestBytesList(l [][]byte) string { return "#" + itoa(len(l)) + ":" + digestList(l) }

func showBlobDigest(b *share.Blob) string {
	return fmt.Sprintf("%s:%d:%s:%s", hx(b.Namespace().Bytes()), b.ShareVersion(), showSigner(b.Signer()), digestList([][]byte{b.Data()}))
}

func accessorString(sh share.Share) string {
	ns := sh.Namespace()
	var ur string
	if d, err := sh.RawDataUsingReserved(); err != nil {
		ur = "err"
	} else {
		ur = "ok:" + digestList([][]byte{d})
	}
	ib := sh.InfoByte()
	return strings.Join([]string{
		hx(ns.Bytes()), itoa(int(sh.Version())), showBool(sh.IsSequenceStart()), showBool(sh.IsCompactShare()),
		strconv.FormatUint(uint64(sh.SequenceLen()), 10), showSigner(share.GetSigner(sh)), showBool(sh.IsPadding()),
		showBool(sh.CheckVersionSupported() == nil), digestList([][]byte{sh.RawData()}), ur,
		itoa(int(ib.Version())), showBool(ib.IsSequenceStart()), digestList([][]byte{sh.ToBytes()}),
	}, " ")
}

func (in *c17Input) compactEnd() int {
	k := 0
	for k < len(in.sq) && (bytes.Equal(in.sq[k].ToBytes()[:29], txNs) || bytes.Equal(in.sq[k].ToBytes()[:29], pfbNs)) {
		k++
	}
	return k
}

func c17Ops() []c17Op {
	return []c17Op{
		{"square.Construct", func(in *c17Input) string {
			sq, err := square.Construct(in.kept, in.max, in.thr)
			return errOr(err, func() string { return digestShares(sq) })
		}},
		{"square.Build", func(in *c17Input) string {
			sq, kept, err := square.Build(in.kept, in.max, in.thr)
			return errOr(err, func() string { return digestShares(sq) + ":" + digestBytesList(kept) })
		}},
		{"square.TxShareRange", func(in *c17Input) string {
			var sb strings.Builder
			for i := -1; i <= len(in.kept); i++ {
				rg, err := square.TxShareRange(in.kept, i, in.max, in.thr)
				if err != nil {
					sb.WriteString("err;")
				} else {
					fmt.Fprintf(&sb, "%d-%d;", rg.Start, rg.End)
				}
			}
			return sb.String()
		}},
		{"square.BlobShareRange", func(in *c17Input) string {
			var sb strings.Builder
			for _, p := range in.places {
				rg, err := square.BlobShareRange(in.kept, in.nNormal+p.p, p.j, in.max, in.thr)
				if err != nil {
					sb.WriteString("err;")
				} else {
					fmt.Fprintf(&sb, "%d-%d;", rg.Start, rg.End)
				}
			}
			_, err := square.BlobShareRange(in.kept, len(in.kept), 0, in.max, in.thr)
			sb.WriteString(showBool(err != nil))
			return sb.String()
		}},
		{"tx.UnmarshalBlobTx", func(in *c17Input) string {
			var sb strings.Builder
			for _, k := range in.kept {
				bt, isBlob, err := tx.UnmarshalBlobTx(k)
				switch {
				case !isBlob:
					sb.WriteString("not;")
				case err != nil:
					sb.WriteString("err;")
				default:
					sb.WriteString(digestList([][]byte{bt.Tx}) + showList(showBlobDigest, bt.Blobs) + ";")
				}
			}
			return sb.String()
		}},
		{"tx.UnmarshalIndexWrapper", func(in *c17Input) string {
			var sb strings.Builder
			for _, w := range in.wpfbs {
				iw, ok := tx.UnmarshalIndexWrapper(w)
				if !ok {
					sb.WriteString("none;")
				} else {
					sb.WriteString(digestList([][]byte{iw.Tx}) + ":" + u32s(iw.ShareIndexes) + ";")
				}
			}
			for _, k := range in.kept {
				_, ok := tx.UnmarshalIndexWrapper(k)
				sb.WriteString(showBool(ok))
			}
			return sb.String()
		}},
		{"tx.MarshalBlobTx", func(in *c17Input) string {
			// re-marshal every blob transaction from its inner transaction and its blobs
			var sb strings.Builder
			bi := 0
			pi := 0
			for _, k := range in.kept[in.nNormal:] {
				bt, _, err := tx.UnmarshalBlobTx(k)
				if err != nil || pi >= len(in.inners) {
					sb.WriteString("err;")
					continue
				}
				n := len(bt.Blobs)
				blobs := make([]*share.Blob, 0, n)
				for j := 0; j < n && bi+j < len(in.blobs); j++ {
					blobs = append(blobs, in.blobs[bi+j].blob)
				}
				out, err := tx.MarshalBlobTx(in.inners[pi], blobs...)
				sb.WriteString(errOr(err, func() string { return digestList([][]byte{out}) }) + ";")
				bi += n
				pi++
			}
			return sb.String()
		}},
		{"share.ParseShares", func(in *c17Input) string {
			var sb strings.Builder
			for _, ignore := range []bool{false, true} {
				seqs, err := share.ParseShares(in.sq, ignore)
				if err != nil {
					sb.WriteString("err|")
					continue
				}
				for _, s := range seqs {
					// Sequence.RawData, Sequence.SequenceLen
					d, err := s.RawData()
					sl, err2 := s.SequenceLen()
					fmt.Fprintf(&sb, "%s/%d/%s/%d%s;", hx(s.Namespace.Bytes()), len(s.Shares),
						errOr(err, func() string { return digestList([][]byte{d}) }), sl, showBool(err2 == nil))
				}
				sb.WriteString("|")
			}
			return sb.String()
		}},
		{"share.GetShareRangeForNamespace", func(in *c17Input) string {
			var sb strings.Builder
			for _, q := range in.queryNs {
				rg := share.GetShareRangeForNamespace(in.sq, q)
				fmt.Fprintf(&sb, "%d-%d;", rg.Start, rg.End)
			}
			if len(in.sq) > 2 {
				rg := share.GetShareRangeForNamespace(in.sq[1:len(in.sq)-1], in.queryNs[len(in.queryNs)-1])
				fmt.Fprintf(&sb, "%d-%d;", rg.Start, rg.End)
			}
			return sb.String()
		}},
		{"square.Deconstruct", func(in *c17Input) string {
			txs, err := square.Deconstruct(square.Square(in.sq), decodeMockPFB)
			return errOr(err, func() string { return digestBytesList(txs) })
		}},
		{"Square.WrappedPFBs", func(in *c17Input) string {
			w, err := square.Square(in.sq).WrappedPFBs()
			sq := square.Square(in.sq)
			return errOr(err, func() string { return digestBytesList(w) }) + fmt.Sprintf(":%d:%s", sq.Size(), showBool(sq.IsEmpty()))
		}},
		{"share.ParseTxs", func(in *c17Input) string {
			sq := in.sq
			t := share.GetShareRangeForNamespace(sq, share.TxNamespace)
			p := share.GetShareRangeForNamespace(sq, share.PayForBlobNamespace)
			a, err := share.ParseTxs(sq[t.Start:t.End])
			b, err2 := share.ParseTxs(sq[p.Start:p.End])
			out := errOr(err, func() string { return digestBytesList(a) }) + ";" + errOr(err2, func() string { return digestBytesList(b) })
			// out of context: every suffix of the compact region (at most 6)
			ce := in.compactEnd()
			for lo := 1; lo < ce && lo <= 6; lo++ {
				if bytes.Equal(sq[lo].ToBytes()[:29], sq[ce-1].ToBytes()[:29]) {
					x, err := share.ParseTxs(sq[lo:ce])
					out += ";" + errOr(err, func() string { return digestBytesList(x) })
				}
			}
			return out
		}},
		{"share.ParseBlobs", func(in *c17Input) string {
			var sb strings.Builder
			ce := in.compactEnd()
			blobs, err := share.ParseBlobs(in.sq[ce:])
			sb.WriteString(errOr(err, func() string { return showList(showBlobDigest, blobs) }) + ";")
			for _, p := range in.places {
				end := p.index + len(p.shares)
				if p.index < 0 || end > len(in.sq) {
					continue
				}
				bl, err := share.ParseBlobs(in.sq[p.index:end])
				sb.WriteString(errOr(err, func() string { return showList(showBlobDigest, bl) }) + ";")
				// a strict prefix: the declared length exceeds the shares given
				if end-p.index > 1 {
					_, err := share.ParseBlobs(in.sq[p.index : end-1])
					sb.WriteString(showBool(err != nil))
				}
			}
			return sb.String()
		}},
		{"Share accessors", func(in *c17Input) string {
			parts := make([][]byte, len(in.sq))
			for i := range in.sq {
				parts[i] = []byte(accessorString(in.sq[i]))
			}
			return digestBytesList(parts) + ":" + digestList(share.ToBytes(in.sq))
		}},
		{"Namespace methods", func(in *c17Input) string {
			var sb strings.Builder
			for _, q := range in.queryNs {
				o := in.queryNs[0]
				bs := []bool{q.IsPrimaryReserved(), q.IsSecondaryReserved(), q.IsReserved(), q.IsParityShares(), q.IsTailPadding(),
					q.IsPrimaryReservedPadding(), q.IsTx(), q.IsPayForBlob(), q.IsUsableNamespace(), q.ValidateForData() == nil,
					q.ValidateForBlob() == nil, q.Equals(o), q.IsLessThan(o), q.IsGreaterThan(o), q.IsLessOrEqualThan(o), q.IsGreaterOrEqualThan(o), q.IsEmpty()}
				for _, b := range bs {
					sb.WriteString(showBool(b))
				}
				fmt.Fprintf(&sb, "/%d/%d/%s/%s;", q.Compare(o), q.Version(), hx(q.ID()), hx(q.Bytes()))
				if n, err := q.AddInt(1); err == nil {
					sb.WriteString(hx(n.Bytes()))
				}
				if n, err := share.NewNamespace(q.Version(), q.ID()); err == nil {
					sb.WriteString(hx(n.Bytes()))
				}
			}
			return sb.String()
		}},
		{"share.NewBlob", func(in *c17Input) string {
			var sb strings.Builder
			for _, b := range in.blobs {
				nb, err := share.NewBlob(b.ns, b.data, b.ver, b.signer)
				sb.WriteString(errOr(err, func() string { return showBlobDigest(nb) }) + ";")
				sb.WriteString(showBlobDigest(b.blob) + fmt.Sprintf(":%d:%s;", b.blob.DataLen(), showBool(b.blob.IsEmpty())))
			}
			return sb.String()
		}},
		{"Blob.ToShares", func(in *c17Input) string {
			var sb strings.Builder
			for _, b := range in.blobs {
				shs, err := b.blob.ToShares()
				sb.WriteString(errOr(err, func() string { return digestShares(shs) }) + ";")
			}
			return sb.String()
		}},
		{"Blob.Marshal", func(in *c17Input) string {
			var sb strings.Builder
			for _, b := range in.blobs {
				out, err := b.blob.Marshal()
				sb.WriteString(errOr(err, func() string { return digestList([][]byte{out}) }) + ";")
				j, err := b.blob.MarshalJSON()
				sb.WriteString(errOr(err, func() string { return digestList([][]byte{j}) }) + ";")
			}
			return sb.String()
		}},
		{"share.UnmarshalBlob", func(in *c17Input) string {
			var sb strings.Builder
			for _, m := range in.marshals {
				b, err := share.UnmarshalBlob(m)
				sb.WriteString(errOr(err, func() string { return showBlobDigest(b) }) + ";")
			}
			return sb.String()
		}},
		{"inclusion.GenerateSubtreeRoots", func(in *c17Input) string {
			var sb strings.Builder
			for i, b := range in.blobs {
				if i >= 6 {
					break
				}
				roots, err := inclusion.GenerateSubtreeRoots(b.blob, in.thr)
				sb.WriteString(errOr(err, func() string { return digestBytesList(roots) }) + ";")
			}
			return sb.String()
		}},
		{"ParseBlobs then commit", func(in *c17Input) string {
			// the parsed blobs keep views of the shares (namespace, signer); everything a
			// caller does next with such a blob is a read-only operation on the shares too
			blobs, err := share.ParseBlobs(in.sq[in.compactEnd():])
			if err != nil {
				return "err"
			}
			var sb strings.Builder
			for i, b := range blobs {
				if i >= 4 {
					break
				}
				roots, err := inclusion.GenerateSubtreeRoots(b, in.thr)
				sb.WriteString(errOr(err, func() string { return digestBytesList(roots) }) + ";")
				cm, err := inclusion.CreateCommitment(b, rfc6962Root, in.thr)
				sb.WriteString(errOr(err, func() string { return hx(cm) }) + ";")
				shs, err := b.ToShares()
				sb.WriteString(errOr(err, func() string { return digestShares(shs) }) + ";")
				m, err := b.Marshal()
				sb.WriteString(errOr(err, func() string { return digestList([][]byte{m}) }) + ";")
			}
			return sb.String()
		}},
		{"inclusion.CreateCommitment", func(in *c17Input) string {
			var sb strings.Builder
			for i, b := range in.blobs {
				if i >= 6 {
					break
				}
				cm, err := inclusion.CreateCommitment(b.blob, rfc6962Root, in.thr)
				sb.WriteString(errOr(err, func() string { return hx(cm) }) + ";")
			}
			return sb.String()
		}},
	}
}

// runOp runs one operation; a panic of the implementation is the result "fault".
func runOp(op c17Op, in *c17Input) (res string) {
	defer func() {
		if r := recover(); r != nil {
			if s, ok := r.(string); ok && strings.HasPrefix(s, "harness") {
				panic(r)
			}
			res = fmt.Sprintf("fault:%v", r)
		}
	}()
	return op.run(in)
}

// ---------------------------------------------------------------------------
// the generator / oracle
// ---------------------------------------------------------------------------

func genC17(c *Ctx) {
	c.rule = "squares built from generated transaction lists (as in C01-C12: ordinary and blob txs, versions 0/1, boundary lengths, several namespaces); transactions, shares, wrapped PFBs and blob fields laid out as two-index views (spare capacity = rest of the buffer) into one contiguous arena each; every read-only operation (Construct, Build, Tx/BlobShareRange, UnmarshalBlobTx/IndexWrapper, MarshalBlobTx, ParseShares + Sequence.RawData, GetShareRangeForNamespace, Deconstruct, WrappedPFBs, ParseTxs, ParseBlobs, share and namespace accessors, NewBlob, Blob.ToShares/Marshal, UnmarshalBlob, GenerateSubtreeRoots, CreateCommitment, and commit / split / marshal of blobs returned by ParseBlobs) is followed by a byte comparison of the arenas and the package-level namespaces with snapshots and compared with its result on individually allocated copies; ParseBlobs/ParseTxs on arena views (full, exact and random capacities, duplicated and misaligned views) against the explicit-memory Coq model; 8 goroutines over the same views under the race detector; non-trivial = distinct square containing a blob of at least two shares, or distinct view layout of a multi-share sequence"
	r := c.rng
	ops := c17Ops()
	globals := snapGlobals()

	checkGlobals := func(opName, shape string) {
		for _, g := range globals {
			c17Check(c, bytes.Equal(g.live, g.snap), opName, "modified the package-level value "+g.name, map[string]any{"case": shape, "global": g.name})
		}
	}

	// ---- 1. arena oracle over squares ----
	nSquares := 300 * c.scale
	for i := 0; i < nSquares; i++ {
		raw, ok := c17Generate(c, r)
		if !ok {
			c.count("generate:skipped")
			continue
		}
		views, arenas := c17Views(raw, r)
		copies := c17Copies(raw)
		multi := false
		for _, p := range raw.places {
			if len(p.shares) >= 2 {
				multi = true
			}
		}
		c.count(fmt.Sprintf("square_shares_%d", min(len(raw.sq)/16*16, 256)))
		c.count(fmt.Sprintf("blobs_%d", min(len(raw.blobs), 8)))
		if multi {
			c.count("with_multi_share_blob")
			c.mark("square " + raw.shape)
		}
		for _, op := range ops {
			resV := runOp(op, views)
			for _, a := range arenas {
				d := a.firstDiff()
				if !c17Check(c, d < 0, op.name, "modified its input: the "+a.name+" buffer differs after the call", map[string]any{"operation": op.name, "buffer": a.name, "first_modified_offset": d, "case": raw.shape}) {
					a.restore()
				}
			}
			checkGlobals(op.name, raw.shape)
			resC := runOp(op, copies)
			c17Check(c, resV == resC, op.name, "result on views into one buffer differs from the result on individually allocated inputs", map[string]any{"operation": op.name, "case": raw.shape})
			c17Check(c, !strings.HasPrefix(resV, "fault"), op.name, "panicked", map[string]any{"operation": op.name, "case": raw.shape, "panic": resV})
			c.count("arena_op:" + op.name)
		}
	}

	// ---- 2. correspondence with the explicit-memory model ----
	// hand-made corpus first: the D7 witness (a 3-share blob in one 1536-byte buffer)
	{
		g := genBlob{ns: append(make([]byte, 28), 7), data: bytes.Repeat([]byte{0x41}, 1200)}
		shs, _ := g.blob().ToShares()
		c17AddMemCase(c, "memparseblobs", rawShares(shs), 0, []int{0, 1, 2}, []int{-1, -1, -1}, "corpus D7 3-share blob")
	}
	for i := 0; i < 150*c.scale; i++ {
		shares, desc, multi := c17SparseSequence(c, r)
		idx, caps, layout := c17ViewLayout(r, len(shares))
		slack := r.Intn(3) * 50
		c17AddMemCase(c, "memparseblobs", shares, slack, idx, caps, desc+" | "+layout)
		if multi {
			c.mark("views " + desc + " | " + layout)
		}
	}
	for i := 0; i < 70*c.scale; i++ {
		ns := txNs
		if r.Bool(40) {
			ns = pfbNs
		}
		txs := compactTxList(c, r, 1+r.Intn(6))
		css := share.NewCompactShareSplitter(nsOf(ns), 0)
		for _, t := range txs {
			_ = css.WriteTx(t)
		}
		shs, err := css.Export()
		if err != nil || len(shs) == 0 || len(shs) > 48 {
			continue
		}
		shares := copyShares(shs)
		idx, caps, layout := c17ViewLayout(r, len(shares))
		if r.Bool(30) && len(shares) > 1 {
			// out of context: start inside the sequence
			lo := 1 + r.Intn(len(shares)-1)
			idx, caps = idx[:0], caps[:0]
			for k := lo; k < len(shares); k++ {
				idx = append(idx, k)
				caps = append(caps, -1)
			}
			layout = fmt.Sprintf("suffix from %d", lo)
		}
		c17AddMemCase(c, "memparsetxs", shares, r.Intn(3)*7, idx, caps, fmt.Sprintf("compact %v | %s", lensOf(txs), layout))
		if len(shares) > 1 {
			c.mark(fmt.Sprintf("views compact %v | %s", lensOf(txs), layout))
		}
	}

	// C17commit begin: ParseBlobs on arena views, then commit to / re-write the parsed blobs (Model/MemCommit.v)
	c17CommitCases(c, r)
	// C17commit end

	// ---- 2b. a share list that is NOT sorted by namespace: the lookup promises nothing about its answer then,
	// but it is still a read: the caller's list must hold the same shares in the same places afterwards
	for i := 0; i < 6; i++ {
		nssU := blobNamespaces(r, 3)
		var list []share.Share
		for j := len(nssU) - 1; j >= 0; j-- {
			g := genBlob{ns: nssU[j], data: r.Bytes(1 + r.Intn(1200))}
			shs, err := g.blob().ToShares()
			if err == nil {
				list = append(list, shs...)
			}
		}
		if len(list) < 2 {
			continue
		}
		before := make([]string, len(list))
		for j := range list {
			before[j] = string(list[j].ToBytes())
		}
		for _, q := range nssU {
			_ = share.GetShareRangeForNamespace(list, nsOf(q))
		}
		same := true
		for j := range list {
			same = same && before[j] == string(list[j].ToBytes())
		}
		c17Check(c, same, "share.GetShareRangeForNamespace", "reordered or modified the caller's (unsorted) share list", map[string]any{"shares": len(list)})
	}
	// ---- 3. concurrency: the race-instrumented sibling binary ----
	c17RunRaceBinary(c, r.U64()%1000000)
}

// c17Check is ctx.check with a cap of two findings per (site, what), so that a
// defect hit by hundreds of cases does not crowd out the other kinds of finding
// (the report keeps at most 50).
var c17Seen = map[string]int{}

func c17Check(c *Ctx, ok bool, site, what string, witness map[string]any) bool {
	if !ok {
		c17Seen[site+"|"+what]++
		if c17Seen[site+"|"+what] > 2 {
			c.oracleN++
			c.count("findings_not_listed:" + site)
			return false
		}
	}
	return c.check(ok, site, what, witness)
}

// c17SparseSequence: blobs with namespace padding between them, reserved padding before, tail padding after.
func c17SparseSequence(c *Ctx, r *Rng) (shares [][]byte, desc string, multi bool) {
	nss := blobNamespaces(r, 3)
	var parts []string
	if r.Bool(25) {
		k := 1 + r.Intn(2)
		shares = append(shares, rawShares(share.ReservedPaddingShares(k))...)
		parts = append(parts, fmt.Sprintf("r%d", k))
	}
	nb := 1 + r.Intn(4)
	for j := 0; j < nb; j++ {
		g := randBlob(r, nss, 6000)
		shs, err := g.blob().ToShares()
		if err != nil {
			panic("harness: ToShares: " + err.Error())
		}
		shares = append(shares, copyShares(shs)...)
		parts = append(parts, fmt.Sprintf("v%d:%d", g.ver, len(g.data)))
		if len(shs) >= 2 {
			multi = true
		}
		c.count(fmt.Sprintf("mem_blob_shares_%d", min(len(shs), 6)))
		if len(shs) == 1 && r.Bool(30) {
			// malformed but accepted: one continuation share too many behind a sequence whose declared length
			// fits its first share (the parser appends it to the payload before trimming)
			extra := append(append([]byte{}, g.ns...), g.ver<<1)
			extra = append(extra, r.Bytes(512-len(extra))...)
			shares = append(shares, extra)
			parts = append(parts, "extra-continuation")
			multi = true
		}
		if r.Bool(35) {
			k := 1 + r.Intn(2)
			pads, err := share.NamespacePaddingShares(nsOf(g.ns), g.ver, k)
			if err == nil {
				shares = append(shares, rawShares(pads)...)
				parts = append(parts, fmt.Sprintf("n%d", k))
			}
		}
	}
	if r.Bool(30) {
		k := 1 + r.Intn(2)
		shares = append(shares, rawShares(share.TailPaddingShares(k))...)
		parts = append(parts, fmt.Sprintf("t%d", k))
	}
	if r.Bool(8) && len(shares) > 1 {
		// malformed: drop the first share (continuation without start) or the last (length exceeds the shares)
		if r.Bool(50) {
			shares = shares[1:]
			parts = append(parts, "drop-first")
		} else {
			shares = shares[:len(shares)-1]
			parts = append(parts, "drop-last")
		}
	}
	return shares, strings.Join(parts, " "), multi
}

// c17ViewLayout: which shares are viewed, in which order, with which capacity
// (-1 = everything behind the view, as a two-index slice has).
func c17ViewLayout(r *Rng, n int) (idx []int, caps []int, layout string) {
	mode := r.Intn(10)
	for i := 0; i < n; i++ {
		idx = append(idx, i)
		switch {
		case mode < 6:
			caps = append(caps, -1)
		case mode == 6:
			caps = append(caps, 512)
		default:
			caps = append(caps, -2) // random, resolved by the caller
		}
	}
	layout = []string{"full", "full", "full", "full", "full", "full", "exact", "random", "random", "random"}[mode]
	if n > 0 && r.Bool(15) {
		// the same share twice: overlapping views
		k := r.Intn(n)
		idx = append(idx[:k+1], idx[k:]...)
		caps = append(caps[:k+1], caps[k:]...)
		layout += fmt.Sprintf("+dup%d", k)
	}
	if n > 1 && r.Bool(10) {
		// a misaligned view (overlaps two shares); marked by a negative index: -(byte offset)-1
		off := r.Intn((n-1)*512-1) + 1
		k := r.Intn(len(idx) + 1)
		idx = append(idx[:k], append([]int{-off - 1}, idx[k:]...)...)
		caps = append(caps[:k], append([]int{-1}, caps[k:]...)...)
		layout += fmt.Sprintf("+misaligned@%d", off)
	}
	return idx, caps, layout
}

// c17AddMemCase emits one correspondence request and checks on the
// implementation side that the arena is reported unmodified.
func c17AddMemCase(c *Ctx, op string, shares [][]byte, slack int, idx []int, caps []int, desc string) {
	arenaBytes := make([]byte, 0, len(shares)*512+slack)
	for _, s := range shares {
		arenaBytes = append(arenaBytes, s...)
	}
	arenaBytes = append(arenaBytes, c.rng.Bytes(slack)...)
	views := make([]string, len(idx))
	for i, k := range idx {
		off := k * 512
		if k < 0 {
			off = -k - 1
		}
		rest := len(arenaBytes) - off
		cp := caps[i]
		switch cp {
		case -1:
			cp = rest
		case -2:
			cp = 512 + c.rng.Intn(rest-512+1)
		}
		views[i] = fmt.Sprintf("%d:%d", off, cp)
	}
	args := []string{hx(arenaBytes), strings.Join(views, ",")}
	c.add(op, args...)
	res := safeExec(op, args)
	c17Check(c, strings.HasPrefix(res, "none;"), "share."+map[string]string{"memparseblobs": "ParseBlobs", "memparsetxs": "ParseTxs"}[op],
		"modified the buffer its share views point into", map[string]any{"case": desc, "first_modified_offset": strings.SplitN(res, ";", 2)[0]})
	layout := "corpus"
	if parts := strings.Split(desc, " | "); len(parts) > 1 {
		layout = regexp.MustCompile(`[0-9@]+| from `).ReplaceAllString(parts[len(parts)-1], "")
	}
	c.count("mem_views_" + layout)
}

// ---- the requests ----

func memViews(arenaBytes []byte, spec string) []share.Share {
	parts := splitList(spec)
	out := make([]share.Share, len(parts))
	for i, p := range parts {
		oc := strings.Split(p, ":")
		off, cp := atoi(oc[0]), atoi(oc[1])
		sh, err := share.NewShare(arenaBytes[off : off+512 : off+cp])
		if err != nil {
			panic("harness: bad view")
		}
		out[i] = *sh
	}
	return out
}

func memDiff(a, snap []byte) string {
	for i := range a {
		if a[i] != snap[i] {
			return itoa(i)
		}
	}
	return "none"
}

func memParseBlobs(a []string) string {
	arenaBytes := unhx(a[0])
	snap := append([]byte(nil), arenaBytes...)
	shs := memViews(arenaBytes, a[1])
	blobs, err := share.ParseBlobs(shs)
	res := "err"
	if err == nil {
		res = "ok:" + showList(showBlob, blobs)
	}
	return memDiff(arenaBytes, snap) + ";" + res
}

func memParseTxs(a []string) string {
	arenaBytes := unhx(a[0])
	snap := append([]byte(nil), arenaBytes...)
	shs := memViews(arenaBytes, a[1])
	txs, err := share.ParseTxs(shs)
	return memDiff(arenaBytes, snap) + ";" + okList(txs, err)
}

// ---------------------------------------------------------------------------
// concurrency
// ---------------------------------------------------------------------------

const raceGoroutines = 8

// raceCheckCommand: `harness racecheck <seed> <tier>`.  Exit status 0 = agreement,
// 3 = some goroutine's result differs from the sequential one; under -race the
// runtime additionally prints WARNING: DATA RACE and exits with status 66.
func raceCheckCommand(args []string) int {
	if len(args) < 2 {
		fmt.Fprintln(os.Stderr, "usage: harness racecheck <seed> <tier>")
		return 2
	}
	seed, _ := strconv.ParseUint(args[0], 10, 64)
	tier := args[1]
	c := &Ctx{prop: "C17", tier: tier, rng: NewRng(seed ^ hashString("C17-race")), dist: map[string]int{}, nontriv: map[string]bool{}, scale: 1}
	n := 120
	if tier == "thorough" {
		n = 1200
	}
	budget := 25 * time.Second
	if tier == "thorough" {
		budget = 240 * time.Second
	}
	start := time.Now()
	ops := c17Ops()
	mismatches := 0
	done := 0
	for i := 0; i < n && time.Since(start) < budget; i++ {
		raw, ok := c17Generate(c, c.rng)
		if !ok {
			continue
		}
		if tier != "thorough" && len(raw.sq) > 256 {
			continue
		}
		in, _ := c17Views(raw, c.rng)
		want := make([]string, len(ops))
		for k, op := range ops {
			want[k] = runOp(op, in)
		}
		got := make([][]string, raceGoroutines)
		var wg sync.WaitGroup
		for g := 0; g < raceGoroutines; g++ {
			wg.Add(1)
			go func(g int) {
				defer wg.Done()
				res := make([]string, len(ops))
				// every goroutine starts at a different operation so that different
				// operations overlap in time as well
				for k := range ops {
					j := (k + g*3) % len(ops)
					res[j] = runOp(ops[j], in)
				}
				got[g] = res
			}(g)
		}
		wg.Wait()
		for g := range got {
			for k := range ops {
				if got[g][k] != want[k] {
					mismatches++
					if mismatches <= 10 {
						fmt.Printf("MISMATCH op=%s goroutine=%d case=%s\n", ops[k].name, g, raw.shape)
					}
				}
			}
		}
		done++
	}
	fmt.Printf("RACECHECK race_instrumented=%v squares=%d goroutines=%d ops=%d mismatches=%d seconds=%.1f\n",
		raceEnabled, done, raceGoroutines, len(ops), mismatches, time.Since(start).Seconds())
	if mismatches > 0 {
		return 3
	}
	return 0
}

var raceFrameRe = regexp.MustCompile(`^\s+(github\.com/celestiaorg/go-square/v2\S*)\(\)\s*$`)

// raceReportOps extracts, from the first report of a race detector output, the
// go-square functions on the stacks of the two conflicting accesses.
func raceReportOps(out string) []string {
	i := strings.Index(out, "WARNING: DATA RACE")
	if i < 0 {
		return nil
	}
	rep := out[i:]
	if j := strings.Index(rep, "=================="); j > 0 {
		rep = rep[:j]
	}
	seen := map[string]bool{}
	var names []string
	for _, line := range strings.Split(rep, "\n") {
		if strings.HasPrefix(line, "Goroutine ") {
			// the creation stacks that follow are all the harness
			break
		}
		if m := raceFrameRe.FindStringSubmatch(line); m != nil {
			name := strings.TrimLeft(strings.TrimPrefix(m[1], "github.com/celestiaorg/go-square/v2"), "/.")
			if !strings.Contains(name, ".") {
				name = "square." + name
			}
			if !seen[name] {
				seen[name] = true
				names = append(names, name)
			}
		}
	}
	sort.Strings(names)
	return names
}

func c17RunRaceBinary(c *Ctx, seed uint64) {
	exe, err := os.Executable()
	if err != nil {
		c.count("race:binary-missing")
		return
	}
	sib := filepath.Join(filepath.Dir(exe), "harness_race")
	st, err := os.Stat(sib)
	if err != nil || st.IsDir() || filepath.Base(exe) == "harness_race" {
		c.count("race:binary-missing")
		return
	}
	if self, err := os.Stat(exe); err == nil && st.ModTime().Before(self.ModTime().Add(-30*time.Minute)) {
		c.count("race:binary-older-than-harness")
	}
	limit := 90 * time.Second
	if c.tier == "thorough" {
		limit = 600 * time.Second
	}
	cctx, cancel := context.WithTimeout(context.Background(), limit)
	defer cancel()
	cmd := exec.CommandContext(cctx, sib, "racecheck", strconv.FormatUint(seed, 10), c.tier)
	cmd.Env = append(os.Environ(), "GORACE=halt_on_error=0 exitcode=66")
	outB, runErr := cmd.CombinedOutput()
	out := string(outB)
	status := 0
	if runErr != nil {
		status = -1
		if ee, ok := runErr.(*exec.ExitError); ok {
			status = ee.ExitCode()
		}
	}
	c.count("race:runs")
	if m := regexp.MustCompile(`RACECHECK race_instrumented=(\w+) squares=(\d+) goroutines=(\d+) ops=(\d+)`).FindStringSubmatch(out); m != nil {
		if m[1] != "true" {
			c.count("race:not-instrumented")
		}
		c.dist["race:squares"] += atoi(m[2])
		c.dist["race:goroutines"] = atoi(m[3])
		c.dist["race:operation_runs"] += atoi(m[2]) * atoi(m[3]) * atoi(m[4])
	}
	raced := strings.Contains(out, "WARNING: DATA RACE") || status == 66
	c.check(!raced, "race detector", "data race between concurrent read-only operations on the same inputs",
		map[string]any{"functions": raceReportOps(out)})
	seen := map[string]bool{}
	for _, line := range strings.Split(out, "\n") {
		if strings.HasPrefix(line, "MISMATCH op=") {
			name := strings.TrimPrefix(strings.SplitN(line, " goroutine=", 2)[0], "MISMATCH op=")
			if !seen[name] {
				seen[name] = true
				c.check(false, name, "result under 8 concurrent readers differs from the sequential result", map[string]any{"operation": name})
			}
		}
	}
	if !raced && len(seen) == 0 {
		first := ""
		if status != 0 {
			for _, line := range strings.Split(out, "\n") {
				if strings.HasPrefix(line, "panic:") || strings.HasPrefix(line, "fatal error:") {
					first = line
					break
				}
			}
		}
		c.check(status == 0, "racecheck", "the concurrent run did not complete", map[string]any{"exit_status": status, "first_line": first})
	}
}

// C17commit begin
// ---------------------------------------------------------------------------
// correspondence for the commit / re-write paths: a blob returned by ParseBlobs
// keeps sub-slices of the shares (namespace = share.data[:29] with the capacity
// of the share buffer, signer = share.data[34:54]); the explicit-memory model
// Model/MemCommit.v predicts the same line (first modified offset; roots / shares)
// ---------------------------------------------------------------------------

func init() {
	extraOps["memcommitleaves"] = memCommitLeaves
	extraOps["memcommitleaveslegacy"] = memCommitLeaves
	extraOps["memsparsewrite"] = memSparseWrite
	extraOps["memsparsewritelegacy"] = memSparseWrite
}

func memCommitLeaves(a []string) string {
	arenaBytes := unhx(a[0])
	snap := append([]byte(nil), arenaBytes...)
	shs := memViews(arenaBytes, a[1])
	thr := atoi(a[2])
	res := "err"
	if blobs, err := share.ParseBlobs(shs); err == nil {
		parts := make([]string, 0, len(blobs))
		ok := true
		for _, b := range blobs {
			roots, err := inclusion.GenerateSubtreeRoots(b, thr)
			if err != nil {
				ok = false
				break
			}
			parts = append(parts, showList(hx, roots))
		}
		if ok {
			res = "ok:[" + strings.Join(parts, ",") + "]"
		}
	}
	return memDiff(arenaBytes, snap) + ";" + res
}

func memSparseWrite(a []string) string {
	arenaBytes := unhx(a[0])
	snap := append([]byte(nil), arenaBytes...)
	shs := memViews(arenaBytes, a[1])
	res := "err"
	if blobs, err := share.ParseBlobs(shs); err == nil {
		parts := make([]string, 0, len(blobs))
		ok := true
		for _, b := range blobs {
			sss := share.NewSparseShareSplitter()
			if err := sss.Write(b); err != nil {
				ok = false
				break
			}
			parts = append(parts, showList(hx, share.ToBytes(sss.Export())))
		}
		if ok {
			res = "ok:[" + strings.Join(parts, ",") + "]"
		}
	}
	return memDiff(arenaBytes, snap) + ";" + res
}

// c17AddCommitCase is c17AddMemCase for the two composed requests (extra trailing arguments).
func c17AddCommitCase(c *Ctx, op string, shares [][]byte, slack int, idx []int, caps []int, extra []string, desc string) {
	arenaBytes := make([]byte, 0, len(shares)*512+slack)
	for _, s := range shares {
		arenaBytes = append(arenaBytes, s...)
	}
	arenaBytes = append(arenaBytes, c.rng.Bytes(slack)...)
	views := make([]string, len(idx))
	for i, k := range idx {
		off := k * 512
		if k < 0 {
			off = -k - 1
		}
		rest := len(arenaBytes) - off
		cp := caps[i]
		switch cp {
		case -1:
			cp = rest
		case -2:
			cp = 512 + c.rng.Intn(rest-512+1)
		}
		views[i] = fmt.Sprintf("%d:%d", off, cp)
	}
	args := append([]string{hx(arenaBytes), strings.Join(views, ",")}, extra...)
	c.add(op, args...)
	res := safeExec(op, args)
	site := map[string]string{"memcommitleaves": "inclusion.GenerateSubtreeRoots", "memsparsewrite": "share.SparseShareSplitter.Write"}[op]
	c17Check(c, strings.HasPrefix(res, "none;"), site,
		"modified the buffer the shares of the parsed blob point into", map[string]any{"case": desc, "first_modified_offset": strings.SplitN(res, ";", 2)[0]})
	c.count(op + "_case")
}

func c17CommitCases(c *Ctx, r *Rng) {
	// corpus: the witnesses of the Coq refutations (Proofs/MemCommitProofs.v): a 600-byte blob = 2 shares
	// in one 1024-byte buffer, share version 0 (commit) and share version 1 (re-write)
	{
		g := genBlob{ns: append(make([]byte, 28), 7), data: bytes.Repeat([]byte{0x41}, 600)}
		shs, _ := g.blob().ToShares()
		c17AddCommitCase(c, "memcommitleaves", rawShares(shs), 0, []int{0, 1}, []int{-1, -1}, []string{"64"}, "corpus 2-share blob")
		g1 := genBlob{ns: append(make([]byte, 28), 7), ver: 1, signer: bytes.Repeat([]byte{0x53}, 20), data: bytes.Repeat([]byte{0x42}, 600)}
		shs1, _ := g1.blob().ToShares()
		c17AddCommitCase(c, "memsparsewrite", rawShares(shs1), 0, []int{0, 1}, []int{-1, -1}, nil, "corpus 2-share v1 blob")
	}
	for i := 0; i < 30*c.scale; i++ {
		shares, desc, multi := c17SparseSequence(c, r)
		if len(shares) > 24 {
			continue
		}
		idx, caps, layout := c17ViewLayout(r, len(shares))
		slack := r.Intn(3) * 50
		if r.Bool(50) {
			thr := []string{"64", "1", "2", "3", "1000"}[r.Intn(5)]
			c17AddCommitCase(c, "memcommitleaves", shares, slack, idx, caps, []string{thr}, desc+" | "+layout+" | thr "+thr)
		} else {
			c17AddCommitCase(c, "memsparsewrite", shares, slack, idx, caps, nil, desc+" | "+layout)
		}
		if multi {
			c.mark("commit views " + desc + " | " + layout)
		}
	}
}

// C17commit end
