(* Straight-line functions of the regenerated GoLite program (Gen/Generated.v) agree with the
   hand-written model (Model/Arith.v, Model/Counter.v) on explicit argument ranges. *)
From Coq Require Import Lia ZArith List String ZifyN ZifyNat ZifyBool.
From GS.Model Require Import Base Varint Arith Counter GoLite.
From GS.Proofs Require Import GoLiteLemmas.
From GS.Gen Require Import Generated.
From GS.GenProofs Require Import GenLink.
Open Scope string_scope. Open Scope Z_scope.

(* Z.eqb is [simpl never] (GoLiteLemmas); decide the tests on literals that symbolic execution leaves *)
Ltac kz :=
  repeat first [ progress change (0 =? 0) with true
               | progress change (1 =? 0) with false
               | progress change (478 =? 0) with false
               | progress change (482 =? 0) with false ];
  cbn.

(* ---------- inclusion.RoundUpByMultipleOf ---------- *)

Lemma round_up_by_multiple_of_gen fuel c v : (1 <= fuel)%nat -> 0 <= c < 2^62 -> 0 < v < 2^62 ->
  gen_call fuel "inclusion.RoundUpByMultipleOf" I64 [c; v] =
  Val [Z.of_N (round_up_by_multiple_of (Z.to_N c) (Z.to_N v))].
Proof.
  intros Hf Hc Hv. destruct fuel as [|fuel]; [lia|].
  unfold gen_call. rewrite callf_S. cbn.
  destruct (v =? 0) eqn:E0; [lia|]. cbn.
  rewrite rem_nonneg by lia.
  pose proof (Z.mod_pos_bound c v ltac:(lia)) as Hb.
  rewrite (wrap_I64_small (c mod v)) by lia.
  unfold round_up_by_multiple_of.
  assert (Hm: Z.of_N (Z.to_N c mod Z.to_N v) = c mod v).
  { rewrite N2Z.inj_mod, !Z2N.id by lia. reflexivity. }
  assert (Hd: Z.of_N (Z.to_N c / Z.to_N v) = c / v).
  { rewrite N2Z.inj_div, !Z2N.id by lia. reflexivity. }
  assert (He: (Z.to_N c mod Z.to_N v =? 0)%N = (c mod v =? 0)).
  { rewrite <- Hm. generalize (Z.to_N c mod Z.to_N v)%N as x. intros x.
    destruct (N.eqb_spec x 0%N) as [e|e].
    - rewrite e. reflexivity.
    - symmetry. apply Z.eqb_neq. lia. }
  rewrite He.
  unfold eval_cmp.
  destruct (c mod v =? 0) eqn:E; cbn; kz.
  - f_equal. f_equal. lia.
  - rewrite E0. cbn. rewrite quot_nonneg by lia.
    assert (Hq0: 0 <= c / v) by (apply Z.div_pos; lia).
    assert (Hq1: c / v * v <= c) by (rewrite Z.mul_comm; apply Z.mul_div_le; lia).
    assert (Hq2: c / v <= c / v * v).
    { rewrite <- (Z.mul_1_r (c / v)) at 1. apply Z.mul_le_mono_nonneg_l; lia. }
    assert (Hr: Z.of_N ((Z.to_N c / Z.to_N v + 1) * Z.to_N v) = (c / v + 1) * v).
    { rewrite N2Z.inj_mul, N2Z.inj_add, Hd. rewrite Z2N.id by lia. reflexivity. }
    rewrite Hr, Z.mul_add_distr_r, Z.mul_1_l.
    clear Hm Hd He Hr E Hb.
    assert (Hc': 0 <= c < 4611686018427387904) by exact Hc.
    assert (Hv': 0 < v < 4611686018427387904) by exact Hv.
    clear Hc Hv.
    generalize dependent (c / v). intros q Hq0 Hq1 Hq2.
    rewrite (wrap_I64_small q) by lia.
    rewrite (wrap_I64_small (q + 1)) by lia.
    rewrite Z.mul_add_distr_r, Z.mul_1_l.
    generalize dependent (q * v). intros p Hq1 Hq2.
    rewrite wrap_I64_small by lia. reflexivity.
Qed.

(* v = 0: integer division by zero, a Go panic (any cursor) *)
Lemma round_up_by_multiple_of_gen_zero fuel c : (1 <= fuel)%nat ->
  gen_call fuel "inclusion.RoundUpByMultipleOf" I64 [c; 0] = Flt.
Proof.
  intros Hf. destruct fuel as [|fuel]; [lia|].
  unfold gen_call. rewrite callf_S. cbn. reflexivity.
Qed.

(* ---------- inclusion.getMin (generic; no arithmetic, so no range condition) ---------- *)

Lemma get_min_gen fuel t i j : (1 <= fuel)%nat ->
  gen_call fuel "inclusion.getMin" t [i; j] = Val [Z.min i j].
Proof.
  intros Hf. destruct fuel as [|fuel]; [lia|].
  unfold gen_call. rewrite callf_S. cbn. unfold eval_cmp.
  destruct (i <? j) eqn:E; cbn; kz.
  - f_equal. f_equal. lia.
  - f_equal. f_equal. lia.
Qed.

(* ---------- square.IsPowerOfTwo ---------- *)

Lemma land_small_l n a b : 0 <= n -> 0 <= a < 2^n -> 0 <= Z.land a b < 2^n.
Proof.
  intros Hn Ha.
  assert (E: Z.land a b = Z.land a b mod 2^n).
  { rewrite <- (Z.land_ones (Z.land a b) n) by exact Hn.
    rewrite (Z.land_comm a b), <- Z.land_assoc, (Z.land_ones a n) by exact Hn.
    rewrite (Z.mod_small a (2^n)) by exact Ha. reflexivity. }
  rewrite E. apply Z.mod_pos_bound. apply Z.pow_pos_nonneg; lia.
Qed.

Lemma lor_small n a b : 0 <= n -> 0 <= a < 2^n -> 0 <= b < 2^n -> 0 <= Z.lor a b < 2^n.
Proof.
  intros Hn Ha Hb.
  assert (E: Z.lor a b = Z.lor a b mod 2^n).
  { rewrite <- (Z.land_ones (Z.lor a b) n) by exact Hn.
    rewrite Z.land_lor_distr_l, !Z.land_ones by exact Hn.
    rewrite (Z.mod_small a), (Z.mod_small b) by assumption. reflexivity. }
  rewrite E. apply Z.mod_pos_bound. apply Z.pow_pos_nonneg; lia.
Qed.

Lemma land_range_signed n a b : 0 <= n ->
  - 2^n <= a < 2^n -> - 2^n <= b < 2^n -> - 2^n <= Z.land a b < 2^n.
Proof.
  intros Hn Ha Hb.
  destruct (Z.le_gt_cases 0 a) as [Ha0|Ha0].
  { pose proof (land_small_l n a b Hn ltac:(lia)). lia. }
  destruct (Z.le_gt_cases 0 b) as [Hb0|Hb0].
  { pose proof (land_small_l n b a Hn ltac:(lia)) as H. rewrite Z.land_comm in H. lia. }
  rewrite <- (Z.lnot_involutive (Z.land a b)), Z.lnot_land.
  assert (La: Z.lnot a = - a - 1) by (unfold Z.lnot; lia).
  assert (Lb: Z.lnot b = - b - 1) by (unfold Z.lnot; lia).
  pose proof (lor_small n (Z.lnot a) (Z.lnot b) Hn ltac:(lia) ltac:(lia)) as H.
  generalize dependent (Z.lor (Z.lnot a) (Z.lnot b)). intros y Hy.
  unfold Z.lnot. lia.
Qed.

Lemma is_power_of_two_gen_i64 fuel x : (1 <= fuel)%nat -> - 2^63 < x < 2^63 ->
  gen_call fuel "square.IsPowerOfTwo" I64 [x] = Val [b2z (is_pow2 x)].
Proof.
  intros Hf Hx.
  pose proof (land_range_signed 63 x (x - 1) ltac:(lia) ltac:(lia) ltac:(lia)) as Hl.
  assert (Hx': -9223372036854775808 < x < 9223372036854775808) by exact Hx.
  assert (Hl': -9223372036854775808 <= Z.land x (x - 1) < 9223372036854775808) by exact Hl.
  clear Hx Hl.
  destruct fuel as [|fuel]; [lia|].
  unfold gen_call. rewrite callf_S. cbn. unfold eval_cmp, is_pow2.
  rewrite (wrap_I64_small (x - 1)) by lia.
  rewrite wrap_I64_small by lia.
  destruct (Z.land x (x - 1) =? 0); cbn; kz; reflexivity.
Qed.

(* At x = -2^63 the two sides differ: in int64, input-1 wraps to 2^63-1 and the Go function says
   "power of two"; the model computes on unbounded integers and says no.  So the range above is exact. *)
Lemma is_power_of_two_gen_i64_min fuel : (1 <= fuel)%nat ->
  gen_call fuel "square.IsPowerOfTwo" I64 [- 2^63] = Val [1] /\ is_pow2 (- 2^63) = false.
Proof.
  intros Hf. destruct fuel as [|fuel]; [lia|].
  split; [|vm_compute; reflexivity].
  unfold gen_call. rewrite callf_S. vm_compute. reflexivity.
Qed.

(* uint64 instantiation: agreement on the whole type *)
Lemma is_power_of_two_gen_u64 fuel x : (1 <= fuel)%nat -> 0 <= x < 2^64 ->
  gen_call fuel "square.IsPowerOfTwo" U64 [x] = Val [b2z (is_pow2 x)].
Proof.
  intros Hf Hx.
  pose proof (land_small_l 64 x (x - 1) ltac:(lia) Hx) as Hl.
  assert (Hx': 0 <= x < 18446744073709551616) by exact Hx.
  assert (Hl': 0 <= Z.land x (x - 1) < 18446744073709551616) by exact Hl.
  clear Hx Hl.
  destruct fuel as [|fuel]; [lia|].
  unfold gen_call. rewrite callf_S.
  destruct (Z.eq_dec x 0) as [->|Hx0]; [vm_compute; reflexivity|].
  cbn. unfold eval_cmp, is_pow2.
  rewrite (wrap_U64_small (x - 1)) by lia.
  rewrite wrap_U64_small by lia.
  destruct (Z.land x (x - 1) =? 0); cbn; kz; reflexivity.
Qed.

