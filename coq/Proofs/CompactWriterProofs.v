(* Compact (transaction) shares: the writer model (CompactShareSplitter over the
   share builder) produces exactly the indexed closed form [compact_spec_ix] (C10,
   compact half); the share count is [cneeded], it is minimal, and the sequence
   length field is the stream length (C09, count / length part); accessor laws on
   the specified compact shares; info byte laws for all 256 info bytes. *)
From Coq Require Import List Arith NArith ZArith Lia Bool.
From Coq Require Import ZifyN ZifyNat ZifyBool.
From GS.Model Require Import Base Varint Namespace ShareFmt Blob Sparse Compact Counter Builder.
From GS.Spec Require Import ShareSpec CompactSpec.
From GS.Proofs Require Import BaseLemmas VarintProofs SparseProofs CounterProofs.
Import ListNotations.

Ltac Zify.zify_post_hook ::= Z.div_mod_to_equations.
Open Scope nat_scope.

(* ---------- arithmetic of offsets and capacities ---------- *)
Lemma coff_S j : coff (S j) = coff j + ccap j.
Proof. destruct j as [|k]; cbn [coff ccap]; lia. Qed.

Lemma chdr_ccap j : chdr j + ccap j = 512.
Proof. destruct j; reflexivity. Qed.

Lemma ccap_bounds j : 474 <= ccap j <= 478.
Proof. destruct j; cbn [ccap]; lia. Qed.

Lemma chdr_bounds j : 34 <= chdr j <= 38.
Proof. destruct j; cbn [chdr]; lia. Qed.

Lemma chdr_eq j : chdr j = if j =? 0 then 38 else 34.
Proof. destruct j; reflexivity. Qed.

Lemma coff_mono i j : i < j -> coff i + ccap i <= coff j.
Proof. intros H. destruct i as [|i]; destruct j as [|j]; cbn [coff ccap]; lia. Qed.

Lemma coff_0_inv j : coff j = 0 -> j = 0.
Proof. destruct j; cbn [coff]; [reflexivity|lia]. Qed.

(* coff is the number of stream bytes k shares hold (AvailableBytesFromCompactShares) *)
Lemma coff_available k : Z.of_nat (coff k) = available_compact (Z.of_nat k).
Proof.
  unfold available_compact. destruct k as [|k]; [reflexivity|].
  cbn [coff]. destruct (Z.of_nat (S k) <=? 0)%Z eqn:E0; [lia|].
  destruct (Z.of_nat (S k) =? 1)%Z eqn:E1; lia.
Qed.

(* the pending share index determines the share count *)
Lemma cneeded_pending j L : coff j <= L < coff j + ccap j ->
  cneeded L = j + (if L =? coff j then 0 else 1).
Proof.
  intros H. unfold cneeded. destruct j as [|k]; cbn [coff ccap] in *.
  - destruct (L =? 0) eqn:E0; [reflexivity|]. replace (L <=? 474) with true by lia. reflexivity.
  - replace (L =? 0) with false by lia.
    destruct (L <=? 474) eqn:E2; destruct (L =? 474 + 478 * k) eqn:E1; lia.
Qed.

Lemma cneeded_compact n : N.of_nat (cneeded n) = compact_shares_needed (N.of_nat n).
Proof.
  unfold cneeded, compact_shares_needed.
  destruct (n =? 0) eqn:E0.
  - replace (N.of_nat n =? 0)%N with true by lia. reflexivity.
  - replace (N.of_nat n =? 0)%N with false by lia.
    destruct (n <=? 474) eqn:E1.
    + destruct (N.of_nat n <? 474)%N eqn:E2; [reflexivity|].
      assert (n = 474) by lia. subst n. vm_compute. reflexivity.
    + replace (N.of_nat n <? 474)%N with false by lia.
      destruct (0 <? (N.of_nat n - 474) mod 478)%N eqn:E3; lia.
Qed.

(* minimality: cneeded n shares hold n bytes, and no smaller number does *)
Lemma cneeded_holds n : n <= coff (cneeded n).
Proof.
  unfold cneeded. destruct (n =? 0) eqn:E0; [cbn [coff]; lia|].
  destruct (n <=? 474) eqn:E1; [cbn [coff]; lia|].
  cbn [coff Nat.add]. lia.
Qed.

Lemma cneeded_least n k : n <= coff k -> cneeded n <= k.
Proof.
  intros H. unfold cneeded. destruct (n =? 0) eqn:E0; [lia|].
  destruct k as [|k]; cbn [coff] in H; [lia|].
  destruct (n <=? 474) eqn:E1; [lia|]. lia.
Qed.

(* ---------- list helpers ---------- *)
Lemma skipn_app_exact {A} n (a b : list A) : length a = n -> skipn n (a ++ b) = b.
Proof. intros <-. rewrite skipn_app, Nat.sub_diag, skipn_all, skipn_O. reflexivity. Qed.

Lemma firstn_app_exact {A} n (a b : list A) : length a = n -> firstn n (a ++ b) = a.
Proof. intros <-. rewrite firstn_app, Nat.sub_diag, firstn_all, firstn_O, app_nil_r. reflexivity. Qed.

Lemma set_at_app_exact off (a v w t : bytes) : length a = off -> length w = length v ->
  set_at off v (a ++ w ++ t) = a ++ v ++ t.
Proof.
  intros Ha Hw. unfold set_at. rewrite firstn_app_exact by exact Ha. do 2 f_equal.
  rewrite app_assoc. apply skipn_app_exact. rewrite app_length. lia.
Qed.

Lemma find_app {A} (f : A -> bool) l1 l2 :
  find f (l1 ++ l2) = match find f l1 with Some x => Some x | None => find f l2 end.
Proof.
  induction l1 as [|x l1 IH]; [reflexivity|]. cbn [app find]. destruct (f x); [reflexivity|exact IH].
Qed.

Lemma find_none_lt c sts : Forall (fun x => x < c) sts -> find (fun u => Nat.leb c u) sts = None.
Proof.
  induction 1 as [|x l Hx _ IH]; [reflexivity|]. cbn [find].
  replace (Nat.leb c x) with false by lia. exact IH.
Qed.

(* ---------- chunks and reserved bytes of the closed form ---------- *)
Lemma length_cchunk j s : length (cchunk j s) = Nat.min (ccap j) (length s - coff j).
Proof. unfold cchunk. rewrite firstn_length, skipn_length. reflexivity. Qed.

Lemma cchunk_stable i s u : coff i + ccap i <= length s -> cchunk i (s ++ u) = cchunk i s.
Proof.
  intros H. unfold cchunk. rewrite skipn_app. replace (coff i - length s) with 0 by lia.
  rewrite skipn_O, firstn_app, skipn_length. replace (ccap i - (length s - coff i)) with 0 by lia.
  rewrite firstn_O, app_nil_r. reflexivity.
Qed.

(* the chunk of the share being filled: what is there, then the head of the new data *)
Lemma cchunk_split j t d : coff j <= length t -> length t - coff j <= ccap j ->
  cchunk j (t ++ d) = skipn (coff j) t ++ firstn (ccap j - (length t - coff j)) d.
Proof.
  intros H1 H2. unfold cchunk. rewrite skipn_app. replace (coff j - length t) with 0 by lia.
  rewrite skipn_O, firstn_app, skipn_length. rewrite firstn_all2 by (rewrite skipn_length; lia).
  reflexivity.
Qed.

Lemma cchunk_partial j s : length s - coff j <= ccap j -> cchunk j s = skipn (coff j) s.
Proof. intros H. unfold cchunk. apply firstn_all2. rewrite skipn_length. exact H. Qed.

Lemma cres_zero i s sts : Forall (fun x => x < coff i) sts -> cres i s sts = 0.
Proof. intros H. unfold cres. rewrite find_none_lt by exact H. reflexivity. Qed.

Lemma cres_lt j s sts : cres j s sts < 512.
Proof.
  unfold cres. destruct (find _ sts) as [u|] eqn:E; [|lia].
  destruct (Nat.ltb u (coff j + length (cchunk j s))) eqn:E1; [|lia].
  rewrite length_cchunk in E1. pose proof (chdr_ccap j). pose proof (ccap_bounds j). lia.
Qed.

(* a completely filled share keeps its reserved bytes when a unit is appended *)
Lemma cres_stable i s sts u : coff i + ccap i <= length s ->
  cres i (s ++ u) (sts ++ [length s]) = cres i s sts.
Proof.
  intros H. unfold cres. rewrite find_app, cchunk_stable by exact H.
  destruct (find _ sts) as [u0|] eqn:E; [reflexivity|].
  cbn [find]. replace (Nat.leb (coff i) (length s)) with true by lia.
  rewrite length_cchunk. replace (Nat.ltb (length s) _) with false by lia. reflexivity.
Qed.

(* the share being filled: its reserved bytes are set by the first unit that starts in it *)
Lemma cres_pending_step j s sts u :
  coff j <= length s < coff j + ccap j -> Forall (fun x => x < length s) sts -> 0 < length u ->
  cres j (s ++ u) (sts ++ [length s]) =
  if cres j s sts =? 0 then chdr j + (length s - coff j) else cres j s sts.
Proof.
  intros H Hsts Hu. unfold cres. rewrite find_app.
  destruct (find _ sts) as [u0|] eqn:E.
  - apply find_some in E. destruct E as [Hin Hle]. rewrite Forall_forall in Hsts. specialize (Hsts u0 Hin).
    rewrite !length_cchunk, app_length.
    replace (Nat.ltb u0 _) with true by lia. replace (Nat.ltb u0 _) with true by lia.
    pose proof (chdr_bounds j). replace (chdr j + (u0 - coff j) =? 0) with false by lia. reflexivity.
  - cbn [find]. replace (Nat.leb (coff j) (length s)) with true by lia.
    rewrite length_cchunk, app_length. replace (Nat.ltb (length s) _) with true by lia.
    reflexivity.
Qed.

Lemma cshare_stable ns ver total i s sts u : coff i + ccap i <= length s ->
  cshare ns ver total i (s ++ u) (sts ++ [length s]) = cshare ns ver total i s sts.
Proof. intros H. unfold cshare. rewrite cres_stable, cchunk_stable by exact H. reflexivity. Qed.

Lemma cshare_total_cont ns ver t t' i s sts : cshare ns ver t (S i) s sts = cshare ns ver t' (S i) s sts.
Proof. reflexivity. Qed.

Lemma length_cshare ns ver total j s sts : length ns = 29 -> length (cshare ns ver total j s sts) = 512.
Proof.
  intros Hns. unfold cshare. rewrite !app_length, Hns, length_be32, length_pad_to
    by (rewrite length_cchunk; lia).
  destruct j; cbn [Nat.eqb length ccap]; reflexivity.
Qed.

(* ---------- the writer ---------- *)
Section Writer.
  Variables (ns : namespace) (ver : N).
  Hypothesis Hns : length ns = 29.
  Hypothesis Hc : is_compact_ns ns = true.
  Hypothesis Hver : (ver <= 127)%N.

  (* header of a pending compact share up to, and including, the reserved bytes *)
  Definition cpre (first : bool) : bytes := ns ++ [info_of ver first] ++ (if first then zeros 4 else []).
  Definition chead (first : bool) (res : nat) : bytes := cpre first ++ be32 (N.of_nat res).

  Lemma length_cpre first : length (cpre first) = if first then 34 else 30.
  Proof. unfold cpre. rewrite !app_length, Hns. destruct first; reflexivity. Qed.

  Lemma length_chead first res : length (chead first res) = if first then 38 else 34.
  Proof. unfold chead. rewrite app_length, length_cpre, length_be32. destruct first; reflexivity. Qed.

  Lemma length_chead_j j res : length (chead (j =? 0) res) = chdr j.
  Proof. rewrite length_chead, chdr_eq. reflexivity. Qed.

  Lemma cshare_chead j s sts :
    cshare ns ver 0 j s sts = chead (j =? 0) (cres j s sts) ++ pad_to (ccap j) (cchunk j s).
  Proof.
    unfold cshare, chead, cpre. rewrite <- !app_assoc. destruct j; reflexivity.
  Qed.

  Lemma new_builder_compact first :
    new_builder ns ver first = Ok (mk_sb ns ver first true (chead first 0)).
  Proof.
    unfold new_builder. rewrite new_info_byte_ok by exact Hver. cbn [bind]. rewrite Hc.
    unfold chead, cpre. rewrite <- !app_assoc. reflexivity.
  Qed.

  Lemma maybe_write_reserved_spec (first : bool) res rest :
    res < 512 -> (if first then 38 else 34) + length rest < 512 ->
    sb_maybe_write_reserved (mk_sb ns ver first true (chead first res ++ rest)) =
    Ok (mk_sb ns ver first true
          (chead first (if res =? 0 then (if first then 38 else 34) + length rest else res) ++ rest)).
  Proof.
    intros Hres Hlen. unfold sb_maybe_write_reserved, sb_reserved_index.
    cbn [sb_compact negb sb_first sb_raw].
    assert (Hpre : length (cpre first) = if first then 34 else 30) by apply length_cpre.
    assert (Hraw : length (chead first res ++ rest) = (if first then 38 else 34) + length rest)
      by (rewrite app_length, length_chead; reflexivity).
    rewrite Hraw.
    replace (Nat.ltb _ _) with false by (destruct first; lia).
    unfold chead at 1. rewrite <- app_assoc. rewrite skipn_app_exact by exact Hpre.
    rewrite firstn_app_exact by apply length_be32.
    unfold parse_reserved_bytes. rewrite length_be32. cbn [Nat.eqb negb].
    rewrite rd32_be32 by lia. replace (512 <=? N.of_nat res)%N with false by lia. cbn [bind].
    destruct (res =? 0) eqn:E0.
    - replace (N.of_nat res =? 0)%N with true by lia. cbn [negb].
      unfold lenN. rewrite Hraw. replace (512 <=? N.of_nat _)%N with false by lia.
      unfold sb_with_raw. cbn [sb_ns sb_ver sb_first sb_compact sb_raw].
      unfold chead. rewrite <- !app_assoc. rewrite set_at_app_exact by (exact Hpre || reflexivity).
      reflexivity.
    - replace (N.of_nat res =? 0)%N with false by lia. reflexivity.
  Qed.

  (* completed shares and the pending builder after [j] shares have been filled *)
  Definition cshares (j : nat) (s : bytes) (sts : list nat) : list share :=
    map (fun i => cshare ns ver 0 i s sts) (seq 0 j).
  Definition cpending (j : nat) (res : nat) (payload : bytes) : sbuilder :=
    mk_sb ns ver (j =? 0) true (chead (j =? 0) res ++ payload).

  Lemma cshares_S j s sts : cshares (S j) s sts = cshares j s sts ++ [cshare ns ver 0 j s sts].
  Proof. unfold cshares. rewrite seq_S, map_app. reflexivity. Qed.

  Lemma length_cshares j s sts : length (cshares j s sts) = j.
  Proof. unfold cshares. rewrite map_length, seq_length. reflexivity. Qed.

  (* stacking a full pending share *)
  Lemma stack_full j s sts rng done :
    ccap j <= length s - coff j ->
    Forall (fun x => x < coff (S j)) sts ->
    cs_stack_pending (mk_cs (cshares j s sts) (cpending j (cres j s sts) (cchunk j s)) ns ver done rng) =
    Ok (mk_cs (cshares (S j) s sts) (cpending (S j) (cres (S j) s sts) []) ns ver done rng).
  Proof.
    intros Hfull Hsts. unfold cs_stack_pending. cbn [cs_b cs_ns cs_ver cs_shares cs_done cs_ranges].
    assert (Hlc : length (cchunk j s) = ccap j) by (rewrite length_cchunk; lia).
    rewrite sb_build_ok.
    2:{ unfold cpending. cbn [sb_raw]. rewrite app_length, length_chead_j, Hlc. apply chdr_ccap. }
    cbn [bind]. rewrite new_builder_compact. cbn [bind]. unfold cs_with.
    cbn [cs_b cs_ns cs_ver cs_shares cs_done cs_ranges]. f_equal. f_equal.
    - rewrite cshares_S. f_equal. f_equal. unfold cpending. cbn [sb_raw].
      rewrite cshare_chead, pad_to_full by exact Hlc. reflexivity.
    - unfold cpending. cbn [Nat.eqb]. rewrite cres_zero by exact Hsts.
      rewrite app_nil_r. reflexivity.
  Qed.

  (* the loop of write: [t] is the stream already in the shares, [d] the data still
     to be written, [s] = t ++ d the stream once the write is complete *)
  Lemma cs_write_loop_spec : forall fuel j t d s sts rng,
    s = t ++ d ->
    coff j <= length t < coff j + ccap j ->
    Forall (fun x => x <= length t) sts ->
    length d < fuel ->
    exists j',
      cs_write_loop fuel (mk_cs (cshares j s sts) (cpending j (cres j s sts) (skipn (coff j) t)) ns ver false rng) d
      = Ok (mk_cs (cshares j' s sts) (cpending j' (cres j' s sts) (skipn (coff j') s)) ns ver false rng)
      /\ coff j' <= length s <= coff j' + ccap j'.
  Proof.
    induction fuel as [|f IH]; intros j t d s sts rng Hs Hj Hsts Hfuel; [lia|].
    cbn [cs_write_loop cs_b].
    pose proof (chdr_ccap j) as Hhc.
    assert (Hraw : length (sb_raw (cpending j (cres j s sts) (skipn (coff j) t))) = chdr j + (length t - coff j)).
    { unfold cpending. cbn [sb_raw]. rewrite app_length, length_chead_j, skipn_length. reflexivity. }
    destruct (Nat.le_gt_cases (length d) (ccap j - (length t - coff j))) as [Hfit|Hover].
    - rewrite sb_add_data_fit by (rewrite Hraw; lia).
      exists j. split.
      + unfold cs_with. cbn [cs_b cs_ns cs_ver cs_shares cs_done cs_ranges]. f_equal. f_equal.
        unfold cpending, sb_with_raw. cbn [sb_ns sb_ver sb_first sb_compact sb_raw]. f_equal.
        rewrite <- app_assoc. f_equal. subst s. rewrite skipn_app.
        replace (coff j - length t) with 0 by lia. rewrite skipn_O. reflexivity.
      + subst s. rewrite app_length. lia.
    - rewrite sb_add_data_over by (rewrite Hraw; lia). rewrite Hraw.
      replace (512 - (chdr j + (length t - coff j))) with (ccap j - (length t - coff j)) by lia.
      set (left := ccap j - (length t - coff j)) in *.
      assert (Hchunk : cchunk j s = skipn (coff j) t ++ firstn left d).
      { subst s. apply cchunk_split; lia. }
      assert (Hlf : length (firstn left d) = left) by (rewrite firstn_length; lia).
      assert (E1 : cs_with (mk_cs (cshares j s sts) (cpending j (cres j s sts) (skipn (coff j) t)) ns ver false rng)
                     (cs_shares (mk_cs (cshares j s sts) (cpending j (cres j s sts) (skipn (coff j) t)) ns ver false rng))
                     (sb_with_raw (cpending j (cres j s sts) (skipn (coff j) t))
                        (sb_raw (cpending j (cres j s sts) (skipn (coff j) t)) ++ firstn left d))
                     (cs_done (mk_cs (cshares j s sts) (cpending j (cres j s sts) (skipn (coff j) t)) ns ver false rng))
                   = mk_cs (cshares j s sts) (cpending j (cres j s sts) (cchunk j s)) ns ver false rng).
      { unfold cs_with. cbn [cs_b cs_ns cs_ver cs_shares cs_done cs_ranges]. f_equal.
        unfold cpending, sb_with_raw. cbn [sb_ns sb_ver sb_first sb_compact sb_raw]. f_equal.
        rewrite Hchunk, <- app_assoc. reflexivity. }
      rewrite E1. clear E1.
      assert (Hst : s = (t ++ firstn left d) ++ skipn left d)
        by (rewrite <- app_assoc, firstn_skipn; exact Hs).
      assert (Hlt : length (t ++ firstn left d) = coff (S j)).
      { rewrite app_length, Hlf, coff_S. unfold left. lia. }
      rewrite stack_full.
      2:{ subst s. rewrite app_length. lia. }
      2:{ eapply Forall_impl; [|exact Hsts]. cbn beta. intros x Hx. rewrite coff_S. lia. }
      cbn [bind].
      destruct (IH (S j) (t ++ firstn left d) (skipn left d) s sts rng Hst) as (j' & E & B).
      { rewrite Hlt. pose proof (ccap_bounds (S j)). lia. }
      { eapply Forall_impl; [|exact Hsts]. cbn beta. intros x Hx. rewrite app_length. lia. }
      { rewrite skipn_length. pose proof (ccap_bounds j). lia. }
      exists j'. split; [|exact B]. rewrite <- E. do 3 f_equal.
      rewrite skipn_all2 by lia. reflexivity.
  Qed.

  Lemma cshares_stable j s sts u : coff j <= length s ->
    cshares j (s ++ u) (sts ++ [length s]) = cshares j s sts.
  Proof.
    intros H. unfold cshares. apply map_ext_in. intros i Hi. apply in_seq in Hi.
    apply cshare_stable. pose proof (coff_mono i j). lia.
  Qed.

  Lemma maybe_write_reserved_pending j s sts u :
    coff j <= length s < coff j + ccap j -> Forall (fun x => x < length s) sts -> 0 < length u ->
    sb_maybe_write_reserved (cpending j (cres j s sts) (skipn (coff j) s)) =
    Ok (cpending j (cres j (s ++ u) (sts ++ [length s])) (skipn (coff j) s)).
  Proof.
    intros Hj Hsts Hu. unfold cpending. pose proof (chdr_ccap j) as Hhc. rewrite chdr_eq in Hhc.
    rewrite maybe_write_reserved_spec.
    - rewrite cres_pending_step by assumption. rewrite chdr_eq, skipn_length. reflexivity.
    - apply cres_lt.
    - rewrite skipn_length. lia.
  Qed.

  Lemma sb_is_empty_pending j res p : sb_is_empty (cpending j res p) = (length p =? 0).
  Proof.
    unfold sb_is_empty, cpending. cbn [sb_raw sb_compact sb_first]. rewrite app_length, length_chead.
    destruct (j =? 0); cbn [addif]; destruct (length p =? 0) eqn:E; lia.
  Qed.

  Lemma sb_available_pending j res p : sb_available (cpending j res p) = 512 - (chdr j + length p).
  Proof.
    unfold sb_available, cpending, share_size. cbn [sb_raw]. rewrite app_length, length_chead_j. reflexivity.
  Qed.

  (* the splitter state after the stream [s] (unit starts [sts]) has been written *)
  Definition cinv (s : bytes) (sts : list nat) (c : csplitter) : Prop :=
    exists j rng,
      coff j <= length s < coff j + ccap j /\
      Forall (fun x => x < length s) sts /\
      c = mk_cs (cshares j s sts) (cpending j (cres j s sts) (skipn (coff j) s)) ns ver false rng.

  Lemma cinv_init c0 : new_csplitter ns ver = Ok c0 -> cinv [] [] c0.
  Proof.
    unfold new_csplitter. rewrite new_builder_compact. cbn [bind]. intros H. injection H as <-.
    exists 0, []. split; [cbn [coff ccap length]; lia|]. split; [constructor|].
    unfold cshares, cpending. cbn [seq map Nat.eqb coff]. rewrite skipn_O, app_nil_r. reflexivity.
  Qed.

  Lemma cs_write_spec s sts c u : cinv s sts c -> 0 < length u ->
    exists c', cs_write c u = Ok c' /\ cinv (s ++ u) (sts ++ [length s]) c'.
  Proof.
    intros (j & rng & Hj & Hsts & ->) Hu. unfold cs_write. cbn [cs_done cs_b cs_shares].
    rewrite (maybe_write_reserved_pending j s sts u) by assumption. cbn [bind].
    unfold cs_with at 1. cbn [cs_ns cs_ver cs_ranges].
    rewrite <- (cshares_stable j s sts u) by lia.
    set (s' := s ++ u). set (sts' := sts ++ [length s]).
    assert (Hsts' : Forall (fun x => x < length s') sts').
    { unfold sts', s'. rewrite app_length. apply Forall_app. split.
      - eapply Forall_impl; [|exact Hsts]. cbn beta. intros x Hx. lia.
      - constructor; [lia|constructor]. }
    destruct (cs_write_loop_spec (S (length u)) j s u s' sts' rng eq_refl Hj) as (j' & E & B); [|lia|].
    { unfold sts'. apply Forall_app. split.
      - eapply Forall_impl; [|exact Hsts]. cbn beta. intros x Hx. lia.
      - constructor; [lia|constructor]. }
    rewrite E. cbn [bind cs_b]. rewrite sb_available_pending, skipn_length.
    pose proof (chdr_ccap j') as Hhc.
    destruct (512 - (chdr j' + (length s' - coff j')) =? 0) eqn:Efull.
    - rewrite <- (cchunk_partial j' s') by lia. rewrite stack_full.
      2:{ lia. }
      2:{ eapply Forall_impl; [|exact Hsts']. cbn beta. intros x Hx. rewrite coff_S. lia. }
      eexists. split; [reflexivity|]. exists (S j'), rng. split; [rewrite coff_S; pose proof (ccap_bounds (S j')); lia|].
      split; [exact Hsts'|]. rewrite skipn_all2 by (rewrite coff_S; lia). reflexivity.
    - eexists. split; [reflexivity|]. exists j', rng. split; [lia|]. split; [exact Hsts'|reflexivity].
  Qed.

  Lemma cs_write_tx_spec s sts c tx : cinv s sts c ->
    exists c', cs_write_tx c tx = Ok c' /\ cinv (s ++ marshal_delimited tx) (sts ++ [length s]) c'.
  Proof.
    intros Hinv. unfold cs_write_tx.
    destruct (cs_write_spec s sts c (marshal_delimited tx) Hinv) as (c1 & E & (j & rng & Hj & Hsts & Hc1)).
    { unfold marshal_delimited. rewrite app_length. pose proof (put_uvarint_length (lenN tx)). lia. }
    rewrite E. cbn [bind]. eexists. split; [reflexivity|].
    exists j. eexists. split; [exact Hj|]. split; [exact Hsts|]. rewrite Hc1. reflexivity.
  Qed.

  Lemma stream_snoc pre t : stream (pre ++ [t]) = stream pre ++ marshal_delimited t.
  Proof. unfold stream, units. rewrite map_app, concat_app. cbn [map concat]. rewrite app_nil_r. reflexivity. Qed.

  Lemma ustarts_snoc us : forall off u, ustarts off (us ++ [u]) = ustarts off us ++ [off + length (concat us)].
  Proof.
    induction us as [|x us IH]; intros off u; cbn [app ustarts concat length].
    - f_equal. lia.
    - rewrite IH, app_length. f_equal. f_equal. f_equal. lia.
  Qed.

  Lemma units_snoc pre t : units (pre ++ [t]) = units pre ++ [marshal_delimited t].
  Proof. unfold units. rewrite map_app. reflexivity. Qed.

  Lemma write_txs_spec : forall txs pre c, cinv (stream pre) (ustarts 0 (units pre)) c ->
    exists c', write_txs c txs = Ok c' /\ cinv (stream (pre ++ txs)) (ustarts 0 (units (pre ++ txs))) c'.
  Proof.
    induction txs as [|t txs IH]; intros pre c Hinv.
    - exists c. rewrite app_nil_r. split; [reflexivity|exact Hinv].
    - cbn [write_txs]. destruct (cs_write_tx_spec _ _ c t Hinv) as (c1 & E & Hinv1).
      rewrite E. cbn [bind].
      replace (pre ++ t :: txs) with ((pre ++ [t]) ++ txs) by (rewrite <- app_assoc; reflexivity).
      apply IH. rewrite stream_snoc, units_snoc, ustarts_snoc. exact Hinv1.
  Qed.

  (* Count *)
  Lemma cs_count_spec s sts c : cinv s sts c -> cs_count c = N.of_nat (cneeded (length s)).
  Proof.
    intros (j & rng & Hj & Hsts & ->). unfold cs_count. cbn [cs_b cs_done cs_shares].
    rewrite sb_is_empty_pending, skipn_length. unfold lenN. rewrite length_cshares.
    rewrite (cneeded_pending j) by exact Hj.
    destruct (length s - coff j =? 0) eqn:E; destruct (length s =? coff j) eqn:E2; cbn [negb andb]; lia.
  Qed.

  (* the shares of the closed form carrying sequence length [total] *)
  Definition cshares_total (total : N) (k : nat) (s : bytes) (sts : list nat) : list share :=
    map (fun i => cshare ns ver total i s sts) (seq 0 k).

  (* writeSequenceLen patches the first share *)
  Lemma wsl_spec k s sts n : 0 < k ->
    cs_write_sequence_len (cshares k s sts) n = Ok (cshares_total (u32 n) k s sts).
  Proof.
    intros Hk. destruct k as [|k]; [lia|]. unfold cshares, cshares_total. cbn [seq map].
    unfold cs_write_sequence_len, wf_shareb, share_size. rewrite length_cshare by exact Hns.
    cbn [Nat.ltb Nat.leb Nat.eqb negb]. f_equal. f_equal.
    - unfold cshare. cbn [Nat.eqb]. change (be32 0) with (zeros 4).
      apply set_at_header_tail; [exact Hns|reflexivity].
    - apply map_ext_in. intros i Hi. apply in_seq in Hi. destruct i as [|i]; [lia|reflexivity].
  Qed.

  (* sequenceLen: the uint32 arithmetic gives the stream length *)
  Lemma cs_sequence_len_empty_pending j L : 0 < j -> L = coff j ->
    cs_sequence_len (N.of_nat j) 0 = u32 (N.of_nat L).
  Proof.
    intros Hj ->. unfold cs_sequence_len. destruct j as [|k]; [lia|]. cbn [coff].
    replace (N.of_nat (S k) =? 0)%N with false by lia.
    destruct (N.of_nat (S k) =? 1)%N eqn:E1; unfold u32.
    - assert (k = 0) by lia. subst k. reflexivity.
    - f_equal. lia.
  Qed.

  Lemma cs_sequence_len_pending j L : coff j < L < coff j + ccap j ->
    cs_sequence_len (N.of_nat (S j)) (N.of_nat (ccap j - (L - coff j))) = u32 (N.of_nat L).
  Proof.
    intros H. unfold cs_sequence_len. replace (N.of_nat (S j) =? 0)%N with false by lia.
    destruct j as [|k]; cbn [coff ccap] in *.
    - change (N.of_nat 1 =? 1)%N with true. cbv iota. unfold u32.
      replace (4294967296 + 474 - N.of_nat (474 - (L - 0)))%N with (N.of_nat L + 1 * 4294967296)%N by lia.
      apply N.mod_add. lia.
    - replace (N.of_nat (S (S k)) =? 1)%N with false by lia. f_equal. lia.
  Qed.

  (* Export *)
  Lemma cs_export_spec s sts c : cinv s sts c ->
    exists c', cs_export c = Ok (c', cshares_total (u32 (lenN s)) (cneeded (length s)) s sts).
  Proof.
    intros (j & rng & Hj & Hsts & ->). unfold cs_export, cs_is_empty.
    cbn [cs_b cs_done cs_shares]. rewrite sb_is_empty_pending, skipn_length, length_cshares.
    rewrite (cneeded_pending j) by exact Hj.
    destruct (length s =? coff j) eqn:E0.
    - (* nothing pending *)
      replace (length s - coff j =? 0) with true by lia.
      destruct (j =? 0) eqn:Ej0; cbn [andb negb].
      + assert (j = 0) by lia. subst j. eexists. split.
      + cbn [bind]. rewrite Nat.add_0_r.
        unfold lenN. rewrite length_cshares.
        rewrite (cs_sequence_len_empty_pending j (length s)) by lia.
        rewrite wsl_spec by lia. cbn [bind].
        unfold u32. rewrite N.mod_mod by lia. eexists. reflexivity.
    - replace (length s - coff j =? 0) with false by lia. rewrite andb_false_r. cbn [negb].
      unfold sb_zero_pad, share_size. rewrite sb_build_ok; rewrite ?sb_raw_with.
      2:{ rewrite app_length, length_zeros. unfold cpending. cbn [sb_raw].
          rewrite app_length, length_chead_j, skipn_length. pose proof (chdr_ccap j). lia. }
      cbn [bind].
      assert (Hlast : sb_raw (cpending j (cres j s sts) (skipn (coff j) s)) ++
                      zeros (512 - length (sb_raw (cpending j (cres j s sts) (skipn (coff j) s))))
                      = cshare ns ver 0 j s sts).
      { rewrite cshare_chead. unfold cpending. cbn [sb_raw]. rewrite <- app_assoc. f_equal.
        rewrite cchunk_partial by lia. unfold pad_to. f_equal. f_equal.
        rewrite app_length, length_chead_j. pose proof (chdr_ccap j). lia. }
      rewrite Hlast, <- cshares_S. replace (j + 1) with (S j) by lia.
      unfold lenN. rewrite length_cshares.
      replace (512 - length (sb_raw (cpending j (cres j s sts) (skipn (coff j) s))))
        with (ccap j - (length s - coff j)).
      2:{ unfold cpending. cbn [sb_raw]. rewrite app_length, length_chead_j, skipn_length.
          pose proof (chdr_ccap j). lia. }
      rewrite cs_sequence_len_pending by lia.
      rewrite wsl_spec by lia. cbn [bind].
      unfold u32. rewrite N.mod_mod by lia. eexists. reflexivity.
  Qed.

  (* ---- C10 (compact half) / C09 (count, length) ---- *)
  Theorem compact_write_total txs c0 : new_csplitter ns ver = Ok c0 ->
    exists c, write_txs c0 txs = Ok c.
  Proof.
    intros H0. destruct (write_txs_spec txs [] c0 (cinv_init c0 H0)) as (c & E & _). exists c. exact E.
  Qed.

  Theorem compact_write_spec txs c0 c : new_csplitter ns ver = Ok c0 -> write_txs c0 txs = Ok c ->
    exists c', cs_export c = Ok (c', compact_spec_ix ns ver txs).
  Proof.
    intros H0 Hw. destruct (write_txs_spec txs [] c0 (cinv_init c0 H0)) as (c1 & E & Hinv).
    rewrite Hw in E. injection E as <-. cbn [app] in Hinv.
    exact (cs_export_spec _ _ _ Hinv).
  Qed.

  Theorem compact_count_spec txs c0 c : new_csplitter ns ver = Ok c0 -> write_txs c0 txs = Ok c ->
    cs_count c = N.of_nat (cneeded (length (stream txs))).
  Proof.
    intros H0 Hw. destruct (write_txs_spec txs [] c0 (cinv_init c0 H0)) as (c1 & E & Hinv).
    rewrite Hw in E. injection E as <-. cbn [app] in Hinv.
    exact (cs_count_spec _ _ _ Hinv).
  Qed.

  Lemma new_csplitter_ok : exists c0, new_csplitter ns ver = Ok c0.
  Proof. unfold new_csplitter. rewrite new_builder_compact. cbn [bind]. eexists. reflexivity. Qed.

  Lemma compact_spec_ix_wf txs : Forall (fun sh => length sh = 512) (compact_spec_ix ns ver txs).
  Proof.
    unfold compact_spec_ix. apply Forall_forall. intros sh Hin. apply in_map_iff in Hin.
    destruct Hin as (i & <- & _). apply length_cshare, Hns.
  Qed.

  Lemma compact_spec_ix_length txs : length (compact_spec_ix ns ver txs) = cneeded (length (stream txs)).
  Proof. unfold compact_spec_ix. rewrite map_length, seq_length. reflexivity. Qed.
End Writer.

(* end to end: construction, writes and export always succeed and give the closed form *)
Theorem compact_encode_spec ns ver txs : length ns = 29 -> is_compact_ns ns = true -> (ver <= 127)%N ->
  exists c0 c c', new_csplitter ns ver = Ok c0 /\ write_txs c0 txs = Ok c /\
    cs_export c = Ok (c', compact_spec_ix ns ver txs) /\
    cs_count c = N.of_nat (cneeded (length (stream txs))).
Proof.
  intros Hns Hc Hver. destruct (new_csplitter_ok ns ver Hc Hver) as (c0 & H0).
  destruct (compact_write_total ns ver Hns Hc Hver txs c0 H0) as (c & Hw).
  destruct (compact_write_spec ns ver Hns Hc Hver txs c0 c H0 Hw) as (c' & He).
  exists c0, c, c'. repeat split; try assumption.
  exact (compact_count_spec ns ver Hns Hc Hver txs c0 c H0 Hw).
Qed.

(* ---------- accessors on the specified compact shares ---------- *)
Lemma cres_cases j s sts : cres j s sts = 0 \/ chdr j <= cres j s sts < 512.
Proof.
  pose proof (cres_lt j s sts) as Hlt. unfold cres in *. destruct (find _ sts) as [u|]; [|left; reflexivity].
  destruct (Nat.ltb u _); [right; lia|left; reflexivity].
Qed.

Lemma compact_ns_cases ns : is_compact_ns ns = true -> ns = tx_ns \/ ns = pfb_ns.
Proof.
  unfold is_compact_ns, is_tx, is_pfb, ns_equals. intros H. apply orb_true_iff in H.
  destruct H as [H|H]; apply bytes_eqb_eq in H; auto.
Qed.

Lemma compact_ns_not_padding ns : is_compact_ns ns = true ->
  is_tail_padding ns = false /\ is_primary_reserved_padding ns = false.
Proof. intros H. destruct (compact_ns_cases ns H) as [->| ->]; split; vm_compute; reflexivity. Qed.

Lemma parse_reserved_bytes_be32 r : (r < 4294967296)%N ->
  parse_reserved_bytes (be32 r) = if (512 <=? r)%N then Err else Ok r.
Proof. intros H. unfold parse_reserved_bytes. rewrite length_be32. cbn [Nat.eqb negb]. rewrite rd32_be32 by exact H. reflexivity. Qed.

Section CompactAccessors.
  Variables (ns : namespace) (ver total : N) (j : nat) (s : bytes) (sts : list nat).
  Hypothesis Hns : length ns = 29.
  Hypothesis Hc : is_compact_ns ns = true.
  Hypothesis Hver : (ver <= 127)%N.

  Let body : bytes := (if j =? 0 then be32 total else []) ++ be32 (N.of_nat (cres j s sts)) ++ pad_to (ccap j) (cchunk j s).

  Lemma cshare_body : cshare ns ver total j s sts = ns ++ [info_of ver (j =? 0)] ++ body.
  Proof. reflexivity. Qed.

  Lemma cshare_ns : sh_ns (cshare ns ver total j s sts) = ns.
  Proof. rewrite cshare_body. apply acc_ns, Hns. Qed.

  Lemma cshare_version : sh_version (cshare ns ver total j s sts) = ver.
  Proof. rewrite cshare_body. apply acc_version; assumption. Qed.

  Lemma cshare_start : sh_start (cshare ns ver total j s sts) = (j =? 0).
  Proof. rewrite cshare_body. apply acc_start; assumption. Qed.

  Lemma cshare_is_compact : sh_is_compact (cshare ns ver total j s sts) = true.
  Proof. rewrite cshare_body. rewrite acc_compact by assumption. exact Hc. Qed.

  Lemma cshare_seq_len : (total < 4294967296)%N ->
    sh_seq_len (cshare ns ver total j s sts) = if j =? 0 then total else 0%N.
  Proof.
    intros Ht. rewrite cshare_body. rewrite acc_seq_len by assumption.
    unfold body. destruct (j =? 0); [|reflexivity].
    rewrite firstn_app_exact by apply length_be32. apply rd32_be32, Ht.
  Qed.

  Lemma cshare_signer : ver <> 1%N -> sh_signer (cshare ns ver total j s sts) = None.
  Proof.
    intros Hv1. unfold sh_signer. rewrite cshare_version. replace (ver =? 1)%N with false by lia. reflexivity.
  Qed.

  (* the payload: everything after the reserved bytes *)
  Lemma cshare_raw_data : ver <> 1%N ->
    sh_raw_data (cshare ns ver total j s sts) = pad_to (ccap j) (cchunk j s).
  Proof.
    intros Hv1. unfold sh_raw_data, raw_data_start.
    rewrite cshare_start, cshare_is_compact, cshare_version. replace (ver =? 1)%N with false by lia.
    rewrite andb_false_r. cbn [addif]. rewrite cshare_body. unfold body.
    destruct (j =? 0); cbn [addif].
    - change (30 + 4 + 4 + 0) with (30 + 8). rewrite hdr_skip by exact Hns.
      rewrite app_assoc. apply skipn_app_exact. reflexivity.
    - change (30 + 0 + 4 + 0) with (30 + 4). rewrite hdr_skip by exact Hns. cbn [app].
      apply skipn_app_exact. reflexivity.
  Qed.

  (* the payload from the first unit that starts in the share *)
  Lemma cshare_raw_data_using_reserved : ver <> 1%N ->
    sh_raw_data_using_reserved (cshare ns ver total j s sts) =
    Ok (if cres j s sts =? 0 then []
        else skipn (cres j s sts - chdr j) (pad_to (ccap j) (cchunk j s))).
  Proof.
    intros Hv1. unfold sh_raw_data_using_reserved.
    rewrite cshare_start, cshare_is_compact, cshare_version. replace (ver =? 1)%N with false by lia.
    rewrite andb_false_r. cbn [addif].
    pose proof (cres_cases j s sts) as Hres.
    assert (Hf : firstn 4 (skipn (30 + addif (j =? 0) 4 + 0) (cshare ns ver total j s sts))
                 = be32 (N.of_nat (cres j s sts))).
    { rewrite cshare_body. unfold body. destruct (j =? 0); cbn [addif].
      - change (30 + 4 + 0) with (30 + 4). rewrite hdr_skip by exact Hns.
        rewrite skipn_app_exact by reflexivity. apply firstn_app_exact. reflexivity.
      - change (30 + 0 + 0) with (30 + 0). rewrite hdr_skip by exact Hns. rewrite skipn_O. cbn [app].
        apply firstn_app_exact. reflexivity. }
    rewrite Hf, parse_reserved_bytes_be32 by lia.
    replace (512 <=? N.of_nat (cres j s sts))%N with false by lia. cbn [bind].
    destruct (cres j s sts =? 0) eqn:E0.
    - replace (N.of_nat (cres j s sts) =? 0)%N with true by lia. reflexivity.
    - replace (N.of_nat (cres j s sts) =? 0)%N with false by lia.
      unfold lenN, slice_from. rewrite length_cshare by exact Hns.
      replace (N.of_nat 512 <? N.of_nat (cres j s sts))%N with false by lia.
      unfold lenN. rewrite length_cshare by exact Hns.
      replace (N.of_nat (cres j s sts) <=? N.of_nat 512)%N with true by lia.
      f_equal. unfold dropN. rewrite Nnat.Nat2N.id.
      replace (cres j s sts) with (chdr j + (cres j s sts - chdr j)) at 1 by lia.
      rewrite cshare_body. unfold body. rewrite chdr_eq. destruct (j =? 0).
      + change 38 with (30 + 8) at 1. rewrite <- Nat.add_assoc. rewrite hdr_skip by exact Hns.
        rewrite app_assoc, skipn_app. rewrite skipn_all2 by (rewrite app_length, !length_be32; lia).
        rewrite app_length, !length_be32. cbn [app]. f_equal. lia.
      + change 34 with (30 + 4) at 1. rewrite <- Nat.add_assoc. rewrite hdr_skip by exact Hns.
        cbn [app]. rewrite skipn_app. rewrite skipn_all2 by (rewrite length_be32; lia).
        rewrite length_be32. cbn [app]. f_equal. lia.
  Qed.

  (* a share of a non-empty sequence is not a padding share *)
  Lemma cshare_is_padding : (total < 4294967296)%N ->
    sh_is_padding (cshare ns ver total j s sts) = (j =? 0) && (total =? 0)%N.
  Proof.
    intros Ht. unfold sh_is_padding. rewrite cshare_start, cshare_seq_len, cshare_ns by exact Ht.
    destruct (compact_ns_not_padding ns Hc) as [-> ->]. rewrite !orb_false_r.
    destruct (j =? 0); reflexivity.
  Qed.
End CompactAccessors.

(* the first share of an exported sequence carries the stream length, the others do not start one *)
Lemma compact_spec_ix_seq_len ns ver txs sh rest : length ns = 29 -> (ver <= 127)%N ->
  compact_spec_ix ns ver txs = sh :: rest ->
  sh_start sh = true /\ sh_seq_len sh = u32 (lenN (stream txs)) /\
  Forall (fun x => sh_start x = false /\ sh_seq_len x = 0%N) rest.
Proof.
  intros Hns Hver. unfold compact_spec_ix.
  destruct (cneeded (length (stream txs))) as [|k]; [discriminate|].
  cbn [seq map]. intros H. injection H as <- <-.
  assert (Hu : (u32 (lenN (stream txs)) < 4294967296)%N) by (unfold u32; apply N.mod_lt; lia).
  split; [apply cshare_start; assumption|]. split; [rewrite cshare_seq_len by assumption; reflexivity|].
  apply Forall_forall. intros x Hx. apply in_map_iff in Hx. destruct Hx as (i & <- & Hi).
  apply in_seq in Hi. rewrite cshare_start, cshare_seq_len by assumption.
  destruct i; [lia|]. split; reflexivity.
Qed.

(* ---------- info byte: all 256 values ---------- *)
Definition all_bytes : list byte := map (fun n => n2b (N.of_nat n)) (seq 0 256).

Lemma all_bytes_complete b : In b all_bytes.
Proof.
  unfold all_bytes. apply in_map_iff. exists (N.to_nat (b2n b)). split.
  - rewrite Nnat.N2Nat.id. apply n2b_b2n.
  - apply in_seq. pose proof (b2n_lt b). lia.
Qed.

Lemma info_byte_laws_all :
  forallb (fun i => (b2n i =? 2 * info_version i + (if info_start i then 1 else 0))%N
                    && (info_version i <=? 127)%N
                    && match new_info_byte (info_version i) (info_start i) with
                       | Ok i' => byte_eqb i i' | _ => false end) all_bytes = true.
Proof. vm_compute. reflexivity. Qed.

Theorem info_byte_laws i :
  info_version i = (b2n i / 2)%N /\ info_start i = N.odd (b2n i) /\
  b2n i = (2 * info_version i + (if info_start i then 1 else 0))%N /\
  (info_version i <= 127)%N /\
  new_info_byte (info_version i) (info_start i) = Ok i.
Proof.
  split; [reflexivity|]. split; [reflexivity|].
  pose proof info_byte_laws_all as H. rewrite forallb_forall in H. specialize (H i (all_bytes_complete i)).
  apply andb_true_iff in H. destruct H as [H H3]. apply andb_true_iff in H. destruct H as [H1 H2].
  split; [lia|]. split; [lia|].
  destruct (new_info_byte (info_version i) (info_start i)) as [i'| |]; try discriminate.
  apply byte_eqb_eq in H3. subst i'. reflexivity.
Qed.

(* NewInfoByte accepts exactly the versions up to 127, and the accessors invert it *)
Theorem new_info_byte_spec v st :
  new_info_byte v st = (if (v <=? 127)%N then Ok (info_of v st) else Err) /\
  ((v <= 127)%N -> info_version (info_of v st) = v /\ info_start (info_of v st) = st).
Proof.
  split.
  - unfold new_info_byte, max_share_version, info_of. destruct (127 <? v)%N eqn:E.
    + replace (v <=? 127)%N with false by lia. reflexivity.
    + replace (v <=? 127)%N with true by lia. reflexivity.
  - intros H. split; [apply info_of_version|apply info_of_start]; exact H.
Qed.

(* ---------- count: CompactSharesNeeded and minimality ---------- *)
Theorem cneeded_minimal n :
  n <= coff (cneeded n) /\ (forall k, n <= coff k -> cneeded n <= k) /\
  (forall k, Z.of_nat (coff k) = available_compact (Z.of_nat k)) /\
  N.of_nat (cneeded n) = compact_shares_needed (N.of_nat n).
Proof.
  split; [apply cneeded_holds|]. split; [intros k; apply cneeded_least|].
  split; [apply coff_available|apply cneeded_compact].
Qed.

(* ---------- accessors on the specified sparse and padding shares ---------- *)
Lemma sparse_first_accessors ns ver len signer payload :
  length ns = 29 -> is_compact_ns ns = false -> (len < 4294967296)%N ->
  (ver = 0%N /\ signer = []) \/ (ver = 1%N /\ length signer = 20) ->
  let sh := ns ++ [info_of ver true] ++ be32 len ++ signer ++ payload in
  sh_ns sh = ns /\ sh_version sh = ver /\ sh_start sh = true /\ sh_seq_len sh = len /\
  sh_signer sh = (if (ver =? 1)%N then Some signer else None) /\ sh_raw_data sh = payload.
Proof.
  intros Hns Hc Hlen Hv sh. assert (Hver : (ver <= 127)%N) by lia.
  assert (H1 : sh_ns sh = ns) by (apply acc_ns; exact Hns).
  assert (H2 : sh_version sh = ver) by (apply acc_version; assumption).
  assert (H3 : sh_start sh = true) by (apply acc_start; assumption).
  assert (H4 : sh_is_compact sh = false) by (unfold sh; rewrite acc_compact by exact Hns; exact Hc).
  split; [exact H1|]. split; [exact H2|]. split; [exact H3|].
  split.
  { unfold sh. rewrite acc_seq_len by assumption. rewrite firstn_app_exact by apply length_be32.
    apply rd32_be32, Hlen. }
  unfold sh_signer, sh_raw_data, raw_data_start. rewrite H2, H3, H4. cbn [addif andb].
  destruct Hv as [[-> ->]|[-> Hs]].
  - change (0 =? 1)%N with false. cbn [addif andb]. split; [reflexivity|].
    change (30 + 4 + 0 + 0) with (30 + 4). unfold sh. rewrite hdr_skip by exact Hns.
    cbn [app]. apply skipn_app_exact. reflexivity.
  - change (1 =? 1)%N with true. cbn [addif andb]. split.
    + unfold sh. f_equal. change 34 with (30 + 4). rewrite hdr_skip by exact Hns.
      rewrite skipn_app_exact by reflexivity. apply firstn_app_exact. exact Hs.
    + change (30 + 4 + 0 + 20) with (30 + 24). unfold sh. rewrite hdr_skip by exact Hns.
      rewrite app_assoc. apply skipn_app_exact. rewrite app_length, length_be32, Hs. reflexivity.
Qed.

Lemma sparse_cont_accessors ns ver payload :
  length ns = 29 -> is_compact_ns ns = false -> (ver <= 127)%N ->
  let sh := ns ++ [info_of ver false] ++ payload in
  sh_ns sh = ns /\ sh_version sh = ver /\ sh_start sh = false /\ sh_seq_len sh = 0%N /\
  sh_signer sh = None /\ sh_raw_data sh = payload.
Proof.
  intros Hns Hc Hver sh.
  assert (H1 : sh_ns sh = ns) by (apply acc_ns; exact Hns).
  assert (H2 : sh_version sh = ver) by (apply acc_version; assumption).
  assert (H3 : sh_start sh = false) by (apply acc_start; assumption).
  assert (H4 : sh_is_compact sh = false) by (unfold sh; rewrite acc_compact by exact Hns; exact Hc).
  split; [exact H1|]. split; [exact H2|]. split; [exact H3|].
  split; [unfold sh; rewrite acc_seq_len by assumption; reflexivity|].
  unfold sh_signer, sh_raw_data, raw_data_start. rewrite H2, H3, H4. rewrite andb_false_r.
  split; [reflexivity|]. cbn [addif andb]. change (30 + 0 + 0 + 0) with (30 + 0).
  unfold sh. rewrite hdr_skip by exact Hns. apply skipn_O.
Qed.

Lemma padding_spec_accessors ns ver : length ns = 29 -> (ver <= 127)%N ->
  sh_ns (padding_spec ns ver) = ns /\ sh_version (padding_spec ns ver) = ver /\
  sh_start (padding_spec ns ver) = true /\ sh_seq_len (padding_spec ns ver) = 0%N /\
  sh_is_padding (padding_spec ns ver) = true.
Proof.
  intros Hns Hver. unfold padding_spec.
  assert (H3 : sh_start (ns ++ [info_of ver true] ++ zeros 482) = true) by (apply acc_start; assumption).
  assert (H4 : sh_seq_len (ns ++ [info_of ver true] ++ zeros 482) = 0%N)
    by (rewrite acc_seq_len by assumption; reflexivity).
  split; [apply acc_ns; exact Hns|]. split; [apply acc_version; assumption|].
  split; [exact H3|]. split; [exact H4|].
  unfold sh_is_padding. rewrite H3, H4. reflexivity.
Qed.
