(* C04 / C14 (live builders) - FindBlobStartingIndex, BlobShareLength (and their
   combination, which is what square.BlobShareRange computes) of a LIVE builder are right at
   every point of a history.  Statements only.

   Properties/C04.v (C04_queries, C04_blob_share_range) says what the blob queries return
   on one builder / on a freshly constructed one: the recorded share index of the blob in
   the exported square, and its share count.  Here: at every point of an arbitrary history
   of appends (accepted or refused), exports and queries, the live builder returns exactly
   what the CLEAN builder returns (the builder given the accepted appends only), and hence
   what the stateless BlobShareRange returns over the accepted transactions.

   Vocabulary: see the header of Properties/C12_live.v ([brun], [accepted_of], [omap],
   [linv], clean builder).  [live_blob_share_range b ti bi] is FindBlobStartingIndex
   followed by BlobShareLength on the state it returns, as in square.BlobShareRange.

   At the end: a counter-model.  [append_tx_stale] is AppendTx WITHOUT "b.done = false".
   After a query and such an append the builder still claims to be exported although it
   is not (the invariant [exported] of [linv] fails), and the live queries answer from
   the stale lay-out: they disagree with the stateless functions.  This is the defect
   class the theorems rule out for the model's AppendTx / AppendBlobTx. *)
From Coq Require Import List NArith ZArith Bool.
From GS.Model Require Import Base Varint Namespace ShareFmt Blob Sparse Compact Counter Arith Proto Builder.
From GS.Proofs Require Import BlobLayoutProofs TxRangeProofs RefinementProofs1 BuilderHistoryProofs LiveQueryProofs.
Import ListNotations.
Open Scope N_scope.

(* ---------- Export does not depend on what bd_equiv ignores ---------- *)

(* equivalent builders ([bd_equiv]: they may differ in the recorded index VALUES, the order
   of the blob list up to the stable sort, the undo fields of the counters and the flag)
   export alike: the same outcome (value / Err / Fault), the same square, and exported
   states with the same transactions, the same wrappers WITH the same recorded indexes and
   the same sorted blob list.  ([bcover]: every index slot belongs to a blob element - the
   invariant of Properties/C14_builder.v.) *)
Theorem C04_live_export_alike : forall b c, bd_equiv b c -> bcover b ->
  (builder_is_empty b = true -> bd_pfbs b = []) ->
  omap xview (export b) = omap xview (export c).
Proof. exact export_view. Qed.
Print Assumptions C04_live_export_alike.

(* making a live builder and an equivalent unexported one "exported" (the first step of
   every query) gives the same view - for a live builder whose flag is set this is the
   invariant [exported] *)
Theorem C04_live_ensure_done_alike : forall b c, linv b -> bd_equiv b c -> bd_done c = false ->
  omap view (ensure_done b) = omap view (ensure_done c).
Proof. exact ensure_done_view. Qed.
Print Assumptions C04_live_ensure_done_alike.

(* ---------- the queries ---------- *)

Theorem C04_live_blob_index_equiv : forall b c pi bi, linv b -> bd_equiv b c -> bd_done c = false ->
  omap snd (find_blob_starting_index b pi bi) = omap snd (find_blob_starting_index c pi bi).
Proof. exact find_blob_starting_index_live. Qed.
Print Assumptions C04_live_blob_index_equiv.

(* BlobShareLength does not export; it looks the element up by (pfb index, blob index) in
   the blob list, which Export sorts in place: the keys are distinct (part of [linv]) *)
Theorem C04_live_blob_length_equiv : forall b c pi bi, linv b -> bd_equiv b c ->
  blob_share_length b pi bi = blob_share_length c pi bi.
Proof. exact blob_share_length_live. Qed.
Print Assumptions C04_live_blob_length_equiv.

Theorem C04_live_blob_range_equiv : forall b c pi bi, linv b -> bd_equiv b c -> bd_done c = false ->
  live_blob_share_range b pi bi = live_blob_share_range c pi bi.
Proof. exact live_blob_share_range_live. Qed.
Print Assumptions C04_live_blob_range_equiv.

(* MAIN: at every point of every history, for EVERY pair of indexes, the live builder
   returns what the clean builder returns: the same starting index / share count /
   range, or the same error *)
Theorem C04_live_blob_queries : forall max thr ops b,
  brun (empty_builder max thr) ops = Ok b ->
  let acc := accepted_of (empty_builder max thr) ops in
  exists b0, brun (empty_builder max thr) acc = Ok b0 /\
    accepted_of (empty_builder max thr) acc = acc /\
    (forall pi bi, omap snd (find_blob_starting_index b pi bi) = omap snd (find_blob_starting_index b0 pi bi)) /\
    (forall pi bi, blob_share_length b pi bi = blob_share_length b0 pi bi) /\
    (forall pi bi, live_blob_share_range b pi bi = live_blob_share_range b0 pi bi).
Proof. exact live_blob_queries. Qed.
Print Assumptions C04_live_blob_queries.

(* everything at once (with the transaction queries of Properties/C12_live.v) *)
Theorem C04_live_all_queries : forall max thr ops b,
  brun (empty_builder max thr) ops = Ok b ->
  let acc := accepted_of (empty_builder max thr) ops in
  exists b0, brun (empty_builder max thr) acc = Ok b0 /\
    accepted_of (empty_builder max thr) acc = acc /\
    bd_txs b = bd_txs b0 /\ map pfb_tx (bd_pfbs b) = map pfb_tx (bd_pfbs b0) /\
    (forall ti, omap snd (find_tx_share_range b ti) = omap snd (find_tx_share_range b0 ti)) /\
    (forall pi bi, omap snd (find_blob_starting_index b pi bi) = omap snd (find_blob_starting_index b0 pi bi)) /\
    (forall pi bi, blob_share_length b pi bi = blob_share_length b0 pi bi) /\
    (forall ti, omap snd (get_wrapped_pfb b ti) = omap snd (get_wrapped_pfb b0 ti)) /\
    (forall pi bi, live_blob_share_range b pi bi = live_blob_share_range b0 pi bi).
Proof. exact live_queries. Qed.
Print Assumptions C04_live_all_queries.

(* MAIN, stateless form: the live answer equals square.BlobShareRange over the accepted
   transactions as raw bytes (hypotheses as in C12_live_tx_share_range_stateless) *)
Theorem C04_live_blob_share_range_stateless : forall max thr ops b braws,
  1 <= thr -> new_builder_ok (Z.of_N max) = true ->
  brun (empty_builder max thr) ops = Ok b ->
  let acc := accepted_of (empty_builder max thr) ops in
  Forall c07_btx_ok (btxs_of acc) ->
  Forall (fun r => unmarshal_blob_tx r = UbtNot) (normals_of acc) ->
  Forall2 (fun r t => unmarshal_blob_tx r = UbtOk t) braws (btxs_of acc) ->
  forall pi bi, live_blob_share_range b pi bi = blob_share_range (normals_of acc ++ braws) pi bi (Z.of_N max) thr.
Proof. exact live_stateless_blob. Qed.
Print Assumptions C04_live_blob_share_range_stateless.

Theorem C04_blob_share_range_unfold : forall txs ti bi max thr,
  blob_share_range txs ti bi max thr = do b <- new_builder_txs max thr txs; live_blob_share_range b ti bi.
Proof. exact blob_share_range_unfold. Qed.
Print Assumptions C04_blob_share_range_unfold.

(* the clean builder is what NewBuilder makes of the raw accepted transactions, up to
   [bd_equiv] *)
Theorem C04_live_new_builder_accepted : forall max thr normals btxs braws b0, 1 <= thr ->
  new_builder_ok (Z.of_N max) = true ->
  corr max thr b0 normals btxs ->
  Forall (fun r => unmarshal_blob_tx r = UbtNot) normals ->
  Forall2 (fun r t => unmarshal_blob_tx r = UbtOk t) braws btxs ->
  exists b', new_builder_txs (Z.of_N max) thr (normals ++ braws) = Ok b' /\
    bd_done b' = false /\ bd_equiv b0 b'.
Proof. exact new_builder_accepted. Qed.
Print Assumptions C04_live_new_builder_accepted.

(* ---------- non-vacuity: the concrete history of Properties/C12_live.v ---------- *)
(* lx_ops1 = AppendBlobTx (one 100-byte blob = one share); FindBlobStartingIndex 0 0
   lx_ops2 = lx_ops1; AppendTx of 40000 bytes (refused)
   lx_ops3 = lx_ops2; AppendTx of 600 bytes (accepted; it occupies two compact shares)
   The hypotheses of the stateless theorem hold at these points: C12_live_example_hyps. *)

(* first query: the blob is at share 1 (after the one PFB share), range [1, 2) - live and
   stateless.  After the refused append (flag still set, no re-export): the same.
   After the accepted 600-byte transaction the blob transaction has index 1 and the blob
   has moved by the two shares of that transaction: [3, 4) - live and stateless agree. *)
Example C04_live_example_ranges :
  match brun lx_e lx_ops1, brun lx_e lx_ops2, brun lx_e lx_ops3 with
  | Ok b1, Ok b2, Ok b3 =>
    bd_done b1 = true /\ bd_done b2 = true /\ bd_done b3 = false /\
    omap snd (find_blob_starting_index b1 0 0) = Ok 1 /\ blob_share_length b1 0 0 = Ok 1 /\
    live_blob_share_range b1 0 0 = Ok (1, 2) /\ blob_share_range [lx_raw] 0 0 8 1 = Ok (1, 2) /\
    live_blob_share_range b2 0 0 = Ok (1, 2) /\
    live_blob_share_range b2 1 0 = Err /\ blob_share_range [lx_raw] 1 0 8 1 = Err /\
    omap snd (find_blob_starting_index b3 1 0) = Ok 3 /\ blob_share_length b3 1 0 = Ok 1 /\
    live_blob_share_range b3 1 0 = Ok (3, 4) /\ blob_share_range [lx_t600; lx_raw] 1 0 8 1 = Ok (3, 4) /\
    live_blob_share_range b3 0 0 = Err /\ blob_share_range [lx_t600; lx_raw] 0 0 8 1 = Err /\
    live_blob_share_range b3 1 1 = Err /\ blob_share_range [lx_t600; lx_raw] 1 1 8 1 = Err
  | _, _, _ => False
  end.
Proof. vm_compute. repeat split; reflexivity. Qed.

(* the same through the theorem, at the third point *)
Example C04_live_example_theorem : forall b3, brun lx_e lx_ops3 = Ok b3 ->
  forall pi bi, live_blob_share_range b3 pi bi = blob_share_range [lx_t600; lx_raw] pi bi 8 1.
Proof.
  intros b3 H.
  destruct (lx_hyps lx_ops3 (or_intror (or_intror (or_introl eq_refl)))) as (H1 & H2 & _ & H4 & H5 & H6).
  pose proof (live_stateless_blob 8 1 lx_ops3 b3 [lx_raw] H1 H2 H H4 H5 H6) as H9.
  destruct lx_accepted as (_ & _ & A3 & _). unfold lx_e in A3. rewrite A3 in H9. exact H9.
Qed.
Print Assumptions C04_live_example_theorem.

(* ---------- the counter-model: AppendTx that does not reset the flag ---------- *)

(* AppendTx of the model, except that the flag is left as it was (also when the
   transaction is accepted) *)
Definition append_tx_stale (b : builder) (tx : bytes) : builder * bool :=
  let '(b', ok) := append_tx b tx in
  (mk_bd (bd_max b') (bd_thr b') (bd_cur b') (bd_txs b') (bd_pfbs b') (bd_blobs b')
         (bd_txc b') (bd_pfbc b') (bd_done b), ok).

(* the history lx_ops3 with the stale AppendTx for its last step: from [b2] (blob
   transaction appended, queried, one refused append; flag set) append the 600-byte
   transaction.  The real AppendTx gives [b3]; the stale one gives a builder that differs
   from [b3] in the flag only - and that is enough:
   - it still claims to be exported, but Export on it would record index 3 where it
     holds 1: the invariant [exported] fails;
   - FindBlobStartingIndex / the blob range answer 1 / [1, 2) from the stale lay-out,
     while the stateless BlobShareRange (and the real live builder) say 3 / [3, 4): the
     blob is NOT at share 1 of the square the builder would export (shares 0 and 1 now
     hold the 600-byte transaction);
   - GetWrappedPFB returns the wrapper with the stale index. *)
Example C04_live_counter_model :
  match brun lx_e lx_ops2, brun lx_e lx_ops3 with
  | Ok b2, Ok b3 =>
    let bs := fst (append_tx_stale b2 lx_t600) in
    snd (append_tx_stale b2 lx_t600) = true /\ snd (append_tx b2 lx_t600) = true /\
    bd_done bs = true /\ bd_done b3 = false /\
    bd_txs bs = bd_txs b3 /\ bd_pfbs bs = bd_pfbs b3 /\ bd_blobs bs = bd_blobs b3 /\
    bd_cur bs = bd_cur b3 /\ bd_txc bs = bd_txc b3 /\ bd_pfbc bs = bd_pfbc b3 /\
    map pfb_idx (bd_pfbs bs) = [[1]] /\
    match export bs with Ok (b', _) => map pfb_idx (bd_pfbs b') = [[3]] | _ => False end /\
    omap snd (find_blob_starting_index bs 1 0) = Ok 1 /\
    omap snd (find_blob_starting_index b3 1 0) = Ok 3 /\
    live_blob_share_range bs 1 0 = Ok (1, 2) /\
    live_blob_share_range b3 1 0 = Ok (3, 4) /\
    blob_share_range [lx_t600; lx_raw] 1 0 8 1 = Ok (3, 4) /\
    omap (fun r => pfb_idx (snd r)) (get_wrapped_pfb bs 1) = Ok [1] /\
    omap (fun r => pfb_idx (snd r)) (get_wrapped_pfb b3 1) = Ok [3]
  | _, _ => False
  end.
Proof. vm_compute. repeat split; reflexivity. Qed.

(* so the stale builder violates the invariant that every reachable builder of the model
   satisfies (C12_live_done_is_exported) *)
Example C04_live_counter_model_not_exported : forall b2, brun lx_e lx_ops2 = Ok b2 ->
  let bs := fst (append_tx_stale b2 lx_t600) in
  bd_done bs = true /\ ~ exported bs /\ ~ linv bs.
Proof.
  intros b2 H bs.
  assert (Hd : bd_done bs = true).
  { assert (G : match brun lx_e lx_ops2 with Ok b => bd_done (fst (append_tx_stale b lx_t600)) = true | _ => True end)
      by (vm_compute; reflexivity).
    rewrite H in G. exact G. }
  assert (Hne : ~ exported bs).
  { intros (b' & sq & E & Hp).
    assert (G : match brun lx_e lx_ops2 with
                | Ok b => match export (fst (append_tx_stale b lx_t600)) with
                          | Ok (b', _) => map pfb_idx (bd_pfbs b') <> map pfb_idx (bd_pfbs (fst (append_tx_stale b lx_t600)))
                          | _ => True end
                | _ => True end) by (vm_compute; discriminate).
    rewrite H in G. fold bs in G. rewrite E in G. apply G. rewrite Hp. reflexivity. }
  split; [exact Hd|]. split; [exact Hne|]. intros I. apply Hne. exact (li_done _ I Hd).
Qed.
Print Assumptions C04_live_counter_model_not_exported.
