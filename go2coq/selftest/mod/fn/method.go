package fn

// ---- a struct of int / uint32 / bool fields; pointer-receiver methods mutate them

type Acc struct {
	N  int
	K  uint32
	On bool
}

func (c *Acc) Add(d int) int {
	if !c.On {
		return c.N
	}
	c.N += d
	c.K++
	return c.N
}
func (c *Acc) Toggle() {
	c.On = !c.On
	c.K--
}
func (c *Acc) Drain(step uint32) (n int, ok bool) {
	if step == 0 {
		c.On = false
		return
	}
	step = step%5 + 1
	for c.K >= step && n < 20 {
		c.K -= step
		n++
	}
	c.N = c.N / n // panics when nothing was drained
	ok = c.On
	return
}
func (c *Acc) Reset(n int) (int, uint32) {
	oldN := c.N
	oldK := c.K
	c.N = n
	c.K = 0
	if n < 0 {
		c.On = n%2 == 0
	}
	return oldN, oldK
}

// value receiver: the assignments are to a copy
func (c Acc) Weight(scale uint32) uint32 {
	c.K *= scale
	if c.On {
		c.K += uint32(c.N)
	}
	c.N = 0
	return c.K
}
func (c Acc) IsOn() bool { return c.On && c.N != 0 }

// a second struct with a method of the same name
type Pair struct {
	A uint8
	B uint64
	C int64
}

func (p *Pair) Add(d int) int {
	p.A += uint8(d)
	p.B -= uint64(d)
	p.C *= int64(d)
	if p.A > 0 {
		d := int(p.A) // shadows the parameter
		return d + 1
	}
	return d
}
func (p Pair) Sum() uint64 { return uint64(p.A) + p.B + uint64(p.C) }

// a value receiver of a named integer type is an ordinary first parameter
func (c Celsius) Double() Celsius { return c * 2 }
func (c Celsius) Above(d Celsius) (hot bool) {
	if c > d {
		c := d // shadows the receiver
		hot = c >= freezing
	}
	return
}

type Level uint8

func (l Level) Next(step uint8) Level { return l + Level(step) + 1 }

// only the integer fields of a receiver are modelled; these methods touch nothing else.  (The driver
// fills the other fields with non-zero values.)
type Mixed struct {
	N    int
	Name string
	K    uint8
	Buf  []byte
	On   bool
}

func (m *Mixed) Bump(d uint8) int {
	m.K += d
	if m.K < d {
		m.N++
		m.On = !m.On
	}
	return m.N
}
func (m Mixed) Total() int { return m.N + int(m.K) }
func (c *Acc) DivAll(d int) (int, int) {
	c.K /= uint32(d)
	return DivMod(c.N, d)
}

// receivers without a name
func (Celsius) Zero(x int) Celsius  { return Celsius(x) - freezing }
func (_ Level) Blank(x uint8) uint8 { return x + 1 }
func (*Acc) Unnamed(x int) int      { return x * 3 }
func (e *Emb) OnlyOwn(d int) int {
	e.Z += d
	return e.Z
}
