(* C08 - Blobs survive the sparse-share encoding round trip (share versions 0 and 1).
   Statements only. *)
From Coq Require Import List NArith.
From GS.Model Require Import Base Namespace ShareFmt Blob Sparse.
From GS.Spec Require Import ShareSpec.
From GS.Proofs Require Import SparseProofs.
Import ListNotations.

(* For ANY list of items - blobs (any data length 1 .. 2^32-1, version 0, or version 1
   with a 20-byte signer, any namespace that is not one of the protocol's own),
   namespace padding, reserved padding and tail padding in any order and amount -
   whenever the writers render it, parsing the rendered shares returns exactly the
   blobs (namespace, data, share version, signer) in order. *)
Theorem C08_sparse_round_trip : forall items shs,
  Forall item_ok items ->
  sparse_write_items [] items = Ok shs ->
  parse_blobs shs = Ok (blobs_of items).
Proof. exact sparse_round_trip. Qed.
Print Assumptions C08_sparse_round_trip.

(* rendering a valid blob never fails and yields the specified shares *)
Theorem C08_blob_renders : forall b, blob_ok b -> blob_to_shares b = Ok (blob_spec b).
Proof. exact sparse_write_spec. Qed.
Print Assumptions C08_blob_renders.

(* non-vacuity: a version 1 blob of 459 bytes (two shares: the first defect's witness)
   between reserved padding, namespace padding and tail padding *)
Definition ex_ns : namespace := repeat Byte.x00 27 ++ [Byte.x01; Byte.x07].
Definition ex_blob : blob := mk_blob ex_ns (repeat Byte.x2a 459) 1 (Some (repeat Byte.x09 20)).
Example C08_example_ok : blob_ok ex_blob.
Proof.
  unfold blob_ok. repeat split; try reflexivity; try (vm_compute; congruence).
  right. split; [reflexivity|]. exists (repeat Byte.x09 20). split; reflexivity.
Qed.
Example C08_example_runs :
  exists shs, sparse_write_items [] [IReservedPad 1; IBlob ex_blob; INsPad 2; ITailPad 1] = Ok shs
              /\ length shs = 6 /\ parse_blobs shs = Ok [ex_blob].
Proof. eexists. split; [vm_compute; reflexivity|]. split; vm_compute; reflexivity. Qed.
