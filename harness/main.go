package main

// Verification harness: generates cases for one property, runs them (and the
// property's direct oracles) against the real go-square code in /repo, and
// writes cases.txt / impl.txt / report.json for the orchestrator (bin/check),
// which runs the extracted Coq model on cases.txt and diffs.

import (
	"bufio"
	"encoding/json"
	"fmt"
	"os"
	"path/filepath"
	"runtime/debug"
	"sort"
	"strconv"
	"strings"
)

type Case struct {
	ID   string
	Op   string
	Args []string
}

func (c Case) Line() string {
	return c.ID + "\t" + c.Op + "\t" + strings.Join(c.Args, "\t")
}

type Finding struct {
	Property string         `json:"property"`
	Site     string         `json:"site"`
	What     string         `json:"what"`
	Witness  map[string]any `json:"witness"`
	CaseLine string         `json:"case_line,omitempty"`
}

// Key identifies a finding for the known-findings file: property, site and the
// canonical (sorted-key JSON) witness.
func (f Finding) Key() string {
	w, _ := json.Marshal(f.Witness)
	return f.Property + "|" + f.Site + "|" + string(w)
}

type Ctx struct {
	prop     string
	tier     string
	rng      *Rng
	cases    []Case
	findings []Finding
	dist     map[string]int  // input distribution counters
	nontriv  map[string]bool // distinct non-trivial case keys
	samples  []string
	rule     string
	oracleN  int  // number of oracle evaluations
	scale    int  // 1 quick, larger for thorough
	noModel  bool // while set, add() is a no-op (Go-side-only cases)
	goOnly   int  // cases run on the Go side only (too large for the model runner): oracle only, no model comparison
	// faultIsFinding: a panic of the implementation on any generated case is a
	// violation of the property itself (C16)
	faultIsFinding bool
}

func (c *Ctx) add(op string, args ...string) int {
	if c.noModel {
		return -1 // a Go-side-only case (too large for the model runner): oracle only
	}
	id := fmt.Sprintf("%s-%d", c.prop, len(c.cases))
	c.cases = append(c.cases, Case{ID: id, Op: op, Args: args})
	c.dist["op:"+op]++
	return len(c.cases) - 1
}

// mark records a distinct non-trivial case (by key) and keeps a few samples.
func (c *Ctx) mark(key string) {
	if !c.nontriv[key] {
		c.nontriv[key] = true
		if len(c.samples) < 6 && len(key) < 400 {
			c.samples = append(c.samples, key)
		}
	}
}

func (c *Ctx) count(k string) { c.dist[k]++ }

func (c *Ctx) fail(site, what string, witness map[string]any) {
	if len(c.findings) < 50 {
		c.findings = append(c.findings, Finding{Property: c.prop, Site: site, What: what, Witness: witness})
	}
}

// check evaluates one oracle condition.
func (c *Ctx) check(ok bool, site, what string, witness map[string]any) bool {
	c.oracleN++
	if !ok {
		c.fail(site, what, witness)
	}
	return ok
}

// guard runs one case's oracle; a panic of the implementation inside it becomes a finding (with the
// witness) instead of killing the harness.
func (c *Ctx) guard(site string, wit map[string]any, f func()) {
	defer func() {
		if r := recover(); r != nil {
			if s, ok := r.(string); ok && strings.HasPrefix(s, "harness") {
				panic(r)
			}
			c.oracleN++
			c.fail(site, "panic: "+firstRepoFrame(fmt.Sprintf("%v\n%s", r, debug.Stack())), wit)
		}
	}()
	f()
}

type generator func(c *Ctx)

var generators = map[string]generator{}

type Report struct {
	Property         string         `json:"property"`
	Tier             string         `json:"tier"`
	Seed             uint64         `json:"seed"`
	Evaluations      int            `json:"evaluations"`
	DistinctNontriv  int            `json:"distinct_nontrivial"`
	OracleChecks     int            `json:"oracle_checks"`
	Rule             string         `json:"rule"`
	Samples          []string       `json:"samples"`
	Distribution     map[string]int `json:"distribution"`
	Findings         []Finding      `json:"findings"`
	FindingKeys      []string       `json:"finding_keys"`
	ImplFaults       int            `json:"impl_faults"`
	FaultStacks      []string       `json:"fault_stacks"`
	OutcomeHistogram map[string]int `json:"outcome_histogram"`
}

func outcomeClass(res string) string {
	switch {
	case res == "fault" || strings.Contains(res, ":fault"):
		return "fault"
	case res == "err" || strings.HasPrefix(res, "err"):
		return "err"
	case strings.HasPrefix(res, "ok"):
		return "ok"
	}
	return "value"
}

func runProperty(prop string, seed uint64, tier, outdir string) error {
	g, ok := generators[prop]
	if !ok {
		return fmt.Errorf("no generator for %s", prop)
	}
	ctx := &Ctx{prop: prop, tier: tier, rng: NewRng(seed ^ hashString(prop)), dist: map[string]int{}, nontriv: map[string]bool{}, scale: 1}
	if tier == "thorough" {
		ctx.scale = 12
	}
	g(ctx)

	if err := os.MkdirAll(outdir, 0o755); err != nil {
		return err
	}
	cf, err := os.Create(filepath.Join(outdir, "cases.txt"))
	if err != nil {
		return err
	}
	inf, err := os.Create(filepath.Join(outdir, "impl.txt"))
	if err != nil {
		return err
	}
	cw := bufio.NewWriterSize(cf, 1<<20)
	iw := bufio.NewWriterSize(inf, 1<<20)
	rep := Report{Property: prop, Tier: tier, Seed: seed, Rule: ctx.rule, Distribution: ctx.dist, OutcomeHistogram: map[string]int{}}
	for _, cs := range ctx.cases {
		cw.WriteString(cs.Line())
		cw.WriteByte('\n')
		lastPanic = ""
		res := safeExec(cs.Op, cs.Args)
		if lastPanic != "" {
			rep.ImplFaults++
			if ctx.faultIsFinding && len(ctx.findings) < 50 {
				line := cs.Line()
				if len(line) > 200000 {
					line = line[:200000]
				}
				ctx.findings = append(ctx.findings, Finding{Property: prop, Site: cs.Op, What: "panic: " + firstRepoFrame(lastPanic),
					Witness: map[string]any{"op": cs.Op, "args_md5": digestList([][]byte{[]byte(strings.Join(cs.Args, "\t"))})}, CaseLine: line})
			}
			if len(rep.FaultStacks) < 5 {
				rep.FaultStacks = append(rep.FaultStacks, cs.ID+": "+firstRepoFrame(lastPanic))
			}
		}
		rep.OutcomeHistogram[outcomeClass(res)]++
		iw.WriteString(cs.ID)
		iw.WriteByte('\t')
		iw.WriteString(res)
		iw.WriteByte('\n')
	}
	cw.Flush()
	iw.Flush()
	cf.Close()
	inf.Close()

	// concurrent replay of the same cases (conc.go)
	runConcSibling(ctx, outdir)

	rep.Evaluations = len(ctx.cases) + ctx.goOnly
	ctx.dist["go_side_only_cases"] = ctx.goOnly
	rep.DistinctNontriv = len(ctx.nontriv)
	rep.OracleChecks = ctx.oracleN
	rep.Samples = ctx.samples
	rep.Findings = ctx.findings
	for _, f := range ctx.findings {
		rep.FindingKeys = append(rep.FindingKeys, f.Key())
	}
	sort.Strings(rep.FindingKeys)
	out, _ := json.MarshalIndent(rep, "", " ")
	return os.WriteFile(filepath.Join(outdir, "report.json"), out, 0o644)
}

// firstRepoFrame extracts the panic message and the first stack frame inside go-square.
func firstRepoFrame(stack string) string {
	lines := strings.Split(stack, "\n")
	msg := lines[0]
	for i, l := range lines {
		if strings.Contains(l, "go-square/v2") && !strings.Contains(l, "verifharness") && i+1 < len(lines) {
			return msg + " @ " + strings.TrimSpace(l) + " " + strings.TrimSpace(lines[i+1])
		}
	}
	return msg + " @ (no go-square frame)"
}

func execStdin() {
	sc := bufio.NewScanner(os.Stdin)
	sc.Buffer(make([]byte, 1<<20), 1<<30)
	w := bufio.NewWriter(os.Stdout)
	defer w.Flush()
	for sc.Scan() {
		parts := strings.Split(sc.Text(), "\t")
		if len(parts) < 2 {
			continue
		}
		res := safeExec(parts[1], parts[2:])
		fmt.Fprintf(w, "%s\t%s\n", parts[0], res)
	}
}

func main() {
	if len(os.Args) < 2 {
		fmt.Fprintln(os.Stderr, "usage: harness run <prop> <seed> <tier> <outdir> | harness exec | harness props")
		os.Exit(2)
	}
	switch os.Args[1] {
	case "run":
		seed, _ := strconv.ParseUint(os.Args[3], 10, 64)
		if err := runProperty(os.Args[2], seed, os.Args[4], os.Args[5]); err != nil {
			fmt.Fprintln(os.Stderr, err)
			os.Exit(2)
		}
	case "exec":
		execStdin()
	case "props":
		var ps []string
		for p := range generators {
			ps = append(ps, p)
		}
		sort.Strings(ps)
		fmt.Println(strings.Join(ps, " "))
	default:
		// sub-commands registered by other files (init functions)
		if f, ok := extraCommands[os.Args[1]]; ok {
			os.Exit(f(os.Args[2:]))
		}
		os.Exit(2)
	}
}

// extraCommands: sub-commands registered from other files; the function gets the
// arguments after the command name and returns the exit status.
var extraCommands = map[string]func(args []string) int{}
