package main

// The small public helpers (coq/Model/Helpers.v): SortBlobs, Blob.Compare, NewV0Blob, NewV1Blob,
// Blob.IsEmpty / DataLen, CreateCommitments, ParseInfoByte, share.Range, Namespace.Repeat / IsEmpty,
// NewShare / FromBytes / ToBytes / Share.ToBytes, Square.Size / Equals, SparseShareSplitter.Count.
//
// Requests (also understood by runner/driver.ml and coq/Extract/VmRunner.v):
//   sortblobs    <blob,blob,...>            share.SortBlobs, the sorted list
//   blobcmp      <blob> <blob>              Blob.Compare
//   blobv0       <ns> <data>                share.NewV0Blob
//   blobv1       <ns> <data> <signer|nil>   share.NewV1Blob
//   blobempty    <blob>                     Blob.IsEmpty ":" Blob.DataLen  ("-:0:nil:-" is the zero Blob)
//   commitments  <blob,blob,...> <thr>      inclusion.CreateCommitments with the RFC-6962 root
//   parseinfo    <0..255>                   share.ParseInfoByte: byte ":" Version ":" IsSequenceStart
//   range        <start> <end> <v>          EmptyRange; NewRange(start,end); the latter after Add(v); each "s-e/IsEmpty"
//   nsrepeat     <ns> <times>               Namespace.Repeat
//   nsempty      <ns>                       Namespace.IsEmpty
//   frombytes    <bytes,bytes,...>          share.FromBytes, then share.ToBytes of the result
//   sharebytes   <bytes>                    share.NewShare, then Share.ToBytes
//   sqequals     <share,...> <share,...>    Square.Equals
//   sqsizeof     <share,...>                Square.Size
//   sparsecount  <b=blob|n=count,...>       SparseShareSplitter: Write / WriteNamespacePaddingShares, then Count
//
// helperCases adds cases of these requests, and direct oracles, to the generators of C04, C05, C10, C18, C20.

import (
	"bytes"
	"fmt"
	"strconv"
	"strings"

	square "github.com/celestiaorg/go-square/v2"
	"github.com/celestiaorg/go-square/v2/inclusion"
	"github.com/celestiaorg/go-square/v2/share"
)

// helperBlob: the text form ns:ver:signer:data; the all-empty form is the zero Blob (the only
// blob without data that the exported API can produce).
func helperBlob(s string) *share.Blob {
	if s == "-:0:nil:-" {
		return &share.Blob{}
	}
	return blobOfString(s)
}

func helperBlobs(s string) []*share.Blob {
	parts := splitList(s)
	out := make([]*share.Blob, len(parts))
	for i, p := range parts {
		out[i] = helperBlob(p)
	}
	return out
}

func showRangeState(r share.Range) string {
	return fmt.Sprintf("%d-%d/%s", r.Start, r.End, showBool(r.IsEmpty()))
}

func init() {
	extraOps["sortblobs"] = func(a []string) string {
		bs := helperBlobs(a[0])
		share.SortBlobs(bs)
		return showList(showBlob, bs)
	}
	extraOps["blobcmp"] = func(a []string) string {
		return itoa(helperBlob(a[0]).Compare(helperBlob(a[1])))
	}
	extraOps["blobv0"] = func(a []string) string {
		b, err := share.NewV0Blob(nsOf(unhx(a[0])), unhx(a[1]))
		if err != nil {
			return "err"
		}
		return "ok:" + showBlob(b)
	}
	extraOps["blobv1"] = func(a []string) string {
		b, err := share.NewV1Blob(nsOf(unhx(a[0])), unhx(a[1]), parseSigner(a[2]))
		if err != nil {
			return "err"
		}
		return "ok:" + showBlob(b)
	}
	extraOps["blobempty"] = func(a []string) string {
		b := helperBlob(a[0])
		return showBool(b.IsEmpty()) + ":" + itoa(b.DataLen())
	}
	extraOps["commitments"] = func(a []string) string {
		cms, err := inclusion.CreateCommitments(helperBlobs(a[0]), rfc6962Root, atoi(a[1]))
		if err != nil {
			return "err"
		}
		return "ok:" + showList(hx, cms)
	}
	extraOps["parseinfo"] = func(a []string) string {
		v := atoi(a[0])
		if v < 0 || v > 255 {
			panic("harness: parseinfo needs a byte")
		}
		ib, err := share.ParseInfoByte(byte(v))
		if err != nil {
			return "err"
		}
		return fmt.Sprintf("ok:%d:%d:%s", byte(ib), ib.Version(), showBool(ib.IsSequenceStart()))
	}
	extraOps["range"] = func(a []string) string {
		r := share.NewRange(atoi(a[0]), atoi(a[1]))
		added := r
		added.Add(atoi(a[2]))
		return strings.Join([]string{showRangeState(share.EmptyRange()), showRangeState(r), showRangeState(added)}, " ")
	}
	extraOps["nsrepeat"] = func(a []string) string {
		l := nsOf(unhx(a[0])).Repeat(atoi(a[1]))
		return "ok:" + showList(func(n share.Namespace) string { return hx(n.Bytes()) }, l)
	}
	extraOps["nsempty"] = func(a []string) string { return showBool(nsOf(unhx(a[0])).IsEmpty()) }
	extraOps["frombytes"] = func(a []string) string {
		shs, err := share.FromBytes(hexList(a[0]))
		if err != nil {
			return "err"
		}
		return "ok:" + showBigList(share.ToBytes(shs))
	}
	extraOps["sharebytes"] = func(a []string) string {
		sh, err := share.NewShare(unhx(a[0]))
		if err != nil {
			return "err"
		}
		return "ok:" + hx(sh.ToBytes())
	}
	extraOps["sqequals"] = func(a []string) string {
		return showBool(square.Square(sharesOf(hexList(a[0]))).Equals(square.Square(sharesOf(hexList(a[1])))))
	}
	extraOps["sqsizeof"] = func(a []string) string {
		return itoa(square.Square(sharesOf(hexList(a[0]))).Size())
	}
	extraOps["sparsecount"] = func(a []string) string {
		sp := share.NewSparseShareSplitter()
		for _, it := range splitList(a[0]) {
			switch it[0] {
			case 'b':
				if err := sp.Write(blobOfString(it[2:])); err != nil {
					return "err"
				}
			case 'n':
				if err := sp.WriteNamespacePaddingShares(atoi(it[2:])); err != nil {
					return "err"
				}
			default:
				panic("harness: sparsecount understands only blobs and namespace padding")
			}
		}
		return "ok:" + itoa(sp.Count())
	}
}

func specsOf(l []genBlob) string {
	parts := make([]string, len(l))
	for i, g := range l {
		parts[i] = g.spec()
	}
	return strings.Join(parts, ",")
}

// smallBlob: a blob with a short payload (the sorted lists are printed in full)
func smallBlob(r *Rng, nss [][]byte) genBlob {
	g := genBlob{ns: pick(r, nss)}
	if r.Bool(35) {
		g.ver = 1
		g.signer = randSigner(r)
	}
	g.data = r.Bytes(1 + r.Intn(12))
	return g
}

func sameBlob(b *share.Blob, g genBlob) bool {
	return bytes.Equal(b.Namespace().Bytes(), g.ns) && bytes.Equal(b.Data(), g.data) && b.ShareVersion() == g.ver &&
		bytes.Equal(b.Signer(), g.signer) && (b.Signer() == nil) == (g.signer == nil)
}

func helperCases(c *Ctx) {
	saved := c.noModel
	c.noModel = false
	defer func() { c.noModel = saved }()
	switch c.prop {
	case "C04":
		helperCasesC04(c)
	case "C05":
		helperCasesC05(c)
	case "C10":
		helperCasesC10(c)
	case "C18":
		helperCasesC18(c)
	case "C20":
		helperCasesC20(c)
	}
}

// ---- C04: SortBlobs, Blob.Compare, NewV0Blob, NewV1Blob, Blob.IsEmpty ----
func helperCasesC04(c *Ctx) {
	r := c.rng
	for i := 0; i < 70*c.scale; i++ {
		nss := blobNamespaces(r, 1+r.Intn(4))
		k := r.Intn(9)
		if i < 3 {
			k = i
		}
		l := make([]genBlob, k)
		for j := range l {
			l[j] = smallBlob(r, nss)
		}
		if k >= 2 && r.Bool(30) {
			// byte-identical blobs and blobs that differ only in version / signer / data
			l[k-1] = l[0]
			if r.Bool(50) {
				l[k-1].data = append([]byte{0xee}, l[0].data...)
			}
		}
		spec := specsOf(l)
		c.add("sortblobs", spec)
		wit := map[string]any{"blobs": spec}
		c.guard("SortBlobs", wit, func() {
			bs := make([]*share.Blob, k)
			for j, g := range l {
				bs[j] = g.blob()
			}
			orig := append([]*share.Blob{}, bs...)
			share.SortBlobs(bs)
			// independent stable sort: repeatedly take the first blob with the least namespace
			rest := append([]genBlob{}, l...)
			var want []genBlob
			for len(rest) > 0 {
				m := 0
				for j := range rest {
					if bytes.Compare(rest[j].ns, rest[m].ns) < 0 {
						m = j
					}
				}
				want = append(want, rest[m])
				rest = append(rest[:m:m], rest[m+1:]...)
			}
			ok := len(bs) == len(want)
			for j := 0; ok && j < len(bs); j++ {
				ok = sameBlob(bs[j], want[j])
			}
			c.check(ok, "SortBlobs", "differs from an independent stable sort by namespace", wit)
			// the elements are the input pointers (a permutation), equal namespaces in input order
			pos := map[*share.Blob]int{}
			for j, b := range orig {
				pos[b] = j
			}
			perm := len(pos) == len(orig)
			seen := map[*share.Blob]bool{}
			for j, b := range bs {
				if _, in := pos[b]; !in || seen[b] {
					perm = false
				}
				seen[b] = true
				if j > 0 {
					cmp := bs[j-1].Compare(b)
					if cmp > 0 || (cmp == 0 && pos[bs[j-1]] > pos[b]) {
						perm = false
					}
				}
			}
			c.check(perm, "SortBlobs", "not a stable sorted permutation of the input pointers", wit)
			again := append([]*share.Blob{}, bs...)
			share.SortBlobs(again)
			idem := true
			for j := range bs {
				idem = idem && again[j] == bs[j]
			}
			c.check(idem, "SortBlobs", "sorting a sorted list changes it", wit)
		})
		if k >= 2 {
			c.add("blobcmp", l[0].spec(), l[1].spec())
			c.add("blobcmp", l[1].spec(), l[0].spec())
			c.add("blobcmp", l[0].spec(), l[0].spec())
			a, b := l[0].blob(), l[1].blob()
			want := bytes.Compare(l[0].ns, l[1].ns)
			c.check(a.Compare(b) == want && b.Compare(a) == -want && a.Compare(a) == 0 &&
				a.Compare(b) == a.Namespace().Compare(b.Namespace()), "Blob.Compare", "is not the byte-wise comparison of the namespaces",
				map[string]any{"a": l[0].spec(), "b": l[1].spec()})
			c.mark("sort " + spec)
		}
	}
	// constructors
	for i := 0; i < 60*c.scale; i++ {
		ns := pick(r, blobNamespaces(r, 2))
		switch r.Intn(8) {
		case 0:
			ns = []byte{}
		case 1:
			ns = append([]byte{}, ns...)
			ns[0] = byte(1 + r.Intn(255)) // namespace version other than 0
		case 2:
			ns = pick(r, [][]byte{share.TxNamespace.Bytes(), share.PayForBlobNamespace.Bytes(), share.TailPaddingNamespace.Bytes(),
				share.PrimaryReservedPaddingNamespace.Bytes(), share.ParitySharesNamespace.Bytes()})
		}
		data := r.Bytes(r.Intn(20))
		if r.Bool(15) {
			data = []byte{}
		}
		signer := "nil"
		switch r.Intn(6) {
		case 0:
		case 1:
			signer = "-"
		case 2:
			signer = hx(r.Bytes(pick(r, []int{1, 19, 21, 32})))
		default:
			signer = hx(randSigner(r))
		}
		c.add("blobv0", hx(ns), hx(data))
		c.add("blobv1", hx(ns), hx(data), signer)
		wit := map[string]any{"ns": hx(ns), "data": hx(data), "signer": signer}
		c.guard("NewV0Blob/NewV1Blob", wit, func() {
			b0, e0 := share.NewV0Blob(nsOf(ns), data)
			r0, f0 := share.NewBlob(nsOf(ns), data, 0, nil)
			c.check((e0 == nil) == (f0 == nil) && (e0 != nil || showBlob(b0) == showBlob(r0)), "NewV0Blob", "differs from NewBlob(ns, data, 0, nil)", wit)
			c.check((e0 == nil) == (len(data) > 0 && len(ns) > 0 && ns[0] == 0), "NewV0Blob", "acceptance is not: data and namespace non-empty, namespace version 0", wit)
			b1, e1 := share.NewV1Blob(nsOf(ns), data, parseSigner(signer))
			r1, f1 := share.NewBlob(nsOf(ns), data, 1, parseSigner(signer))
			c.check((e1 == nil) == (f1 == nil) && (e1 != nil || showBlob(b1) == showBlob(r1)), "NewV1Blob", "differs from NewBlob(ns, data, 1, signer)", wit)
			c.check((e1 == nil) == (e0 == nil && len(parseSigner(signer)) == share.SignerSize), "NewV1Blob", "acceptance is not that of NewV0Blob plus a 20 byte signer", wit)
			if e0 == nil {
				c.check(!b0.IsEmpty() && b0.DataLen() == len(data), "Blob.IsEmpty", "a constructed blob is empty or has the wrong DataLen", wit)
				c.add("blobempty", showBlob(b0))
			}
			if e1 == nil {
				c.add("blobempty", showBlob(b1))
				c.mark("v1 " + hx(ns) + hx(data))
			}
		})
	}
	c.add("blobempty", "-:0:nil:-")
	zero := &share.Blob{}
	c.check(zero.IsEmpty() && zero.DataLen() == 0, "Blob.IsEmpty", "the zero Blob is not empty", map[string]any{})
}

// ---- C05: CreateCommitments ----
func helperCasesC05(c *Ctx) {
	r := c.rng
	for i := 0; i < 45*c.scale; i++ {
		nss := blobNamespaces(r, 3)
		k := r.Intn(5)
		if i < 2 {
			k = i
		}
		l := make([]genBlob, k)
		for j := range l {
			l[j] = randBlob(r, nss, 2500)
		}
		if k >= 2 && i%3 == 0 {
			// two blobs of one batch that differ ONLY in share version / signer (same namespace, same data),
			// and a byte-identical duplicate: the j-th commitment must depend on the j-th blob alone
			a := l[0]
			b := a
			b.data = append([]byte{}, a.data...)
			if a.ver == 1 {
				switch i % 2 {
				case 0:
					b.ver, b.signer = 0, nil
				default:
					b.signer = randSigner(r)
				}
			} else {
				b.ver, b.signer = 1, randSigner(r)
			}
			l[1] = b
			if k >= 3 {
				l[2] = a
			}
		}
		if k >= 2 && i%3 == 1 {
			// a version 1 blob whose data ends 0..19 bytes before the end of its last share (its declared
			// sequence length alone would need one share less than it occupies) in front of other blobs
			l[0].ver, l[0].signer = 1, randSigner(r)
			l[0].data = r.Bytes(458 + 482*r.Intn(3) - r.Intn(20) + 20)
		}
		thr := pick(r, []int{1, 2, 3, 4, 64})
		if r.Intn(9) == 0 {
			thr = 0 // integer division by zero inside SubTreeWidth (unless there is no blob)
		}
		spec := specsOf(l)
		c.add("commitments", spec, strconv.Itoa(thr))
		if thr == 0 {
			continue
		}
		wit := map[string]any{"blobs": len(l), "thr": thr, "first": firstSpec(l)}
		c.guard("CreateCommitments", wit, func() {
			bs := make([]*share.Blob, k)
			for j, g := range l {
				bs[j] = g.blob()
			}
			cms, err := inclusion.CreateCommitments(bs, rfc6962Root, thr)
			ok := err == nil && len(cms) == k
			for j := 0; ok && j < k; j++ {
				one, err1 := inclusion.CreateCommitment(bs[j], rfc6962Root, thr)
				ok = err1 == nil && bytes.Equal(one, cms[j]) && len(one) == 32
			}
			c.check(ok, "CreateCommitments", "is not the list of the blobs' CreateCommitment results", wit)
		})
		if k >= 2 {
			c.mark(fmt.Sprintf("commitments %d %d %s", k, thr, firstSpec(l)))
		}
	}
}

func firstSpec(l []genBlob) string {
	if len(l) == 0 {
		return ""
	}
	s := l[0].spec()
	if len(s) > 120 {
		s = s[:120]
	}
	return s
}

// ---- C10: ParseInfoByte, NewShare / FromBytes / ToBytes, SparseShareSplitter.Count ----
func helperCasesC10(c *Ctx) {
	r := c.rng
	for v := 0; v < 256; v++ {
		c.add("parseinfo", strconv.Itoa(v))
		ib, err := share.ParseInfoByte(byte(v))
		wit := map[string]any{"byte": v}
		c.check(err == nil && byte(ib) == byte(v) && int(ib.Version()) == v>>1 && ib.IsSequenceStart() == (v%2 == 1),
			"ParseInfoByte", "is not total / does not return the byte with version byte>>1 and start bit byte&1", wit)
		nb, err2 := share.NewInfoByte(ib.Version(), ib.IsSequenceStart())
		c.check(err2 == nil && nb == ib, "ParseInfoByte", "NewInfoByte of the parts is not the byte", wit)
	}
	for ver := 120; ver < 256; ver += 1 + r.Intn(3) {
		_, err := share.NewInfoByte(uint8(ver), r.Bool(50))
		c.check((err == nil) == (ver <= 127), "NewInfoByte", "does not accept exactly the versions <= 127", map[string]any{"version": ver})
	}
	lens := []int{0, 1, 29, 30, 511, 512, 512, 512, 512, 512, 513, 1024}
	for i := 0; i < 60*c.scale; i++ {
		k := r.Intn(6)
		if i < 2 {
			k = i
		}
		l := make([][]byte, k)
		allOk := true
		for j := range l {
			n := 512
			if r.Bool(18) {
				n = pick(r, lens)
			}
			l[j] = r.Bytes(n)
			allOk = allOk && n == 512
		}
		c.add("frombytes", joinHexList(l))
		wit := map[string]any{"lens": fmt.Sprint(lensOf(l))}
		c.guard("FromBytes", wit, func() {
			shs, err := share.FromBytes(l)
			c.check((err == nil) == allOk, "FromBytes", "does not accept exactly the lists of 512-byte strings", wit)
			if err == nil {
				back := share.ToBytes(shs)
				ok := len(back) == len(l) && len(shs) == len(l)
				for j := 0; ok && j < len(l); j++ {
					ok = bytes.Equal(back[j], l[j]) && bytes.Equal(shs[j].ToBytes(), l[j])
				}
				c.check(ok, "ToBytes", "FromBytes then ToBytes / Share.ToBytes is not the identity", wit)
				again, err2 := share.FromBytes(back)
				c.check(err2 == nil && len(again) == len(shs), "FromBytes", "ToBytes then FromBytes fails", wit)
			}
		})
		if k > 0 {
			one := l[r.Intn(k)]
			c.add("sharebytes", hx(one))
			sh, err := share.NewShare(one)
			c.check((err == nil) == (len(one) == 512) && (err != nil || bytes.Equal(sh.ToBytes(), one)), "NewShare", "acceptance / ToBytes", map[string]any{"len": len(one)})
			c.mark(fmt.Sprintf("frombytes %v %s", lensOf(l), hx(one[:min(len(one), 8)])))
		}
	}
	// SparseShareSplitter.Count after writes and namespace padding
	for i := 0; i < 50*c.scale; i++ {
		nss := blobNamespaces(r, 3)
		var items []string
		want := 0
		failed := false
		for j := 0; j < r.Intn(5); j++ {
			if r.Bool(30) {
				n := r.Intn(4)
				items = append(items, "n="+strconv.Itoa(n))
				if n > 0 && want == 0 {
					failed = true
				}
				want += n
			} else {
				g := randBlob(r, nss, 3000)
				items = append(items, "b="+g.spec())
				want += share.SparseSharesNeeded(uint32(len(g.data) + len(g.signer)))
			}
			if failed {
				break
			}
		}
		arg := strings.Join(items, ",")
		c.add("sparsecount", arg)
		got := execOp("sparsecount", []string{arg})
		exp := "ok:" + strconv.Itoa(want)
		if failed {
			exp = "err"
		}
		c.check(got == exp, "SparseShareSplitter.Count", "is not the sum of the shares needed by the blobs plus the padding shares",
			map[string]any{"items": len(items), "got": got, "want": exp})
		if len(items) >= 2 {
			c.mark("sparsecount " + strconv.Itoa(len(arg)) + " " + exp)
		}
	}
}

// ---- C18: Namespace.Repeat, Namespace.IsEmpty ----
func helperCasesC18(c *Ctx) {
	r := c.rng
	var nss [][]byte
	nss = append(nss, []byte{}, share.TxNamespace.Bytes(), share.ParitySharesNamespace.Bytes(), share.TailPaddingNamespace.Bytes())
	for i := 0; i < 30*c.scale; i++ {
		nss = append(nss, blobNamespaces(r, 1)[0])
		nss = append(nss, r.Bytes(29))
	}
	for _, ns := range nss {
		times := pick(r, []int{-3, -1, 0, 0, 1, 1, 2, 3, 5, 17})
		c.add("nsrepeat", hx(ns), strconv.Itoa(times))
		c.add("nsempty", hx(ns))
		wit := map[string]any{"ns": hx(ns), "times": times}
		n := nsOf(ns)
		c.check(n.IsEmpty() == (len(ns) == 0), "Namespace.IsEmpty", "is not: no bytes", wit)
		if times >= 0 {
			c.guard("Namespace.Repeat", wit, func() {
				l := n.Repeat(times)
				ok := len(l) == times
				for _, x := range l {
					ok = ok && bytes.Equal(x.Bytes(), ns) && x.Equals(n)
				}
				// deep copies: changing one copy changes neither the receiver nor another copy
				if ok && times >= 2 && len(ns) > 0 {
					l[0].Bytes()[28] ^= 0xff
					ok = bytes.Equal(n.Bytes(), ns) && bytes.Equal(l[1].Bytes(), ns)
					l[0].Bytes()[28] ^= 0xff
				}
				c.check(ok, "Namespace.Repeat", "is not `times` independent copies of the namespace", wit)
			})
		} else {
			c.check(quietExec("nsrepeat", []string{hx(ns), strconv.Itoa(times)}) == "fault", "Namespace.Repeat", "a negative count does not panic", wit)
		}
		c.mark("repeat " + hx(ns) + " " + strconv.Itoa(times))
	}
}

// ---- C20: share.Range, Square.Size, Square.Equals ----
func helperCasesC20(c *Ctx) {
	r := c.rng
	const maxInt = int(^uint(0) >> 1)
	const minInt = -maxInt - 1
	vals := []int{0, 0, 1, 2, 3, 7, 16, 64, 1000, 16384, -1, -2, -16, 1 << 31, 1 << 32, maxInt, maxInt - 1, minInt, minInt + 1}
	for i := 0; i < 140*c.scale; i++ {
		s, e, v := pick(r, vals), pick(r, vals), pick(r, vals)
		if r.Bool(50) {
			s = r.Intn(1 << 14)
			e = s + r.Intn(1<<14)
			v = r.Intn(1<<15) - (1 << 14)
		}
		c.add("range", strconv.Itoa(s), strconv.Itoa(e), strconv.Itoa(v))
		wit := map[string]any{"start": s, "end": e, "v": v}
		rg := share.NewRange(s, e)
		c.check(rg.Start == s && rg.End == e && rg.IsEmpty() == (s == 0 && e == 0), "NewRange/IsEmpty", "fields or emptiness", wit)
		c.check(share.EmptyRange().IsEmpty() && share.EmptyRange() == share.NewRange(0, 0), "EmptyRange", "is not the empty range {0 0}", wit)
		a := rg
		a.Add(v)
		c.check(a.Start == s+v && a.End == e+v && rg.Start == s && rg.End == e, "Range.Add", "does not shift both ends (or changes the copy it was made from)", wit)
		b := a
		b.Add(-v)
		c.check(b == rg, "Range.Add", "adding the negation does not undo", wit)
		w := pick(r, vals)
		two, once := rg, rg
		two.Add(v)
		two.Add(w)
		once.Add(v + w)
		c.check(two == once, "Range.Add", "two additions differ from the addition of the sum", wit)
		c.mark(fmt.Sprintf("range %d %d %d", s, e, v))
	}
	// squares: lists of arbitrary 512-byte shares
	mk := func(k int) [][]byte {
		l := make([][]byte, k)
		for j := range l {
			l[j] = r.Bytes(512)
			if r.Bool(30) {
				l[j] = refPadding(tailNs, 0)
			}
		}
		return l
	}
	for i := 0; i < 60*c.scale; i++ {
		k := pick(r, []int{0, 1, 1, 2, 3, 4, 4, 5, 8, 9, 15, 16, 17})
		a := mk(k)
		var b [][]byte
		switch r.Intn(6) {
		case 0, 1:
			b = make([][]byte, k)
			for j := range a {
				b[j] = append([]byte{}, a[j]...)
			}
		case 2:
			// one bit differs
			b = make([][]byte, k)
			for j := range a {
				b[j] = append([]byte{}, a[j]...)
			}
			if k > 0 {
				j := r.Intn(k)
				if r.Bool(50) {
					j = k - 1
				}
				b[j][pick(r, []int{0, 28, 29, 30, 511, r.Intn(512)})] ^= byte(1 << r.Intn(8))
			}
		case 3:
			// a proper prefix / extension
			if k > 0 && r.Bool(50) {
				b = a[:k-1]
			} else {
				b = append(append([][]byte{}, a...), mk(1)...)
			}
		case 4:
			// the same shares in another order
			b = append([][]byte{}, a...)
			if k >= 2 {
				b[0], b[k-1] = b[k-1], b[0]
			}
		default:
			b = mk(k)
		}
		c.add("sqequals", joinHexList(a), joinHexList(b))
		c.add("sqequals", joinHexList(b), joinHexList(a))
		c.add("sqsizeof", joinHexList(a))
		wit := map[string]any{"len_a": len(a), "len_b": len(b), "a_md5": digestList(a), "b_md5": digestList(b)}
		c.guard("Square.Equals/Size", wit, func() {
			sa, sb := square.Square(sharesOf(a)), square.Square(sharesOf(b))
			want := len(a) == len(b)
			for j := 0; want && j < len(a); j++ {
				want = bytes.Equal(a[j], b[j])
			}
			c.check(sa.Equals(sb) == want && sb.Equals(sa) == want && sa.Equals(sa), "Square.Equals", "is not byte equality of the share lists", wit)
			side := 1
			for side*side < len(a) {
				side *= 2
			}
			c.check(sa.Size() == side && sa.Size() == square.Size(len(a)), "Square.Size", "is not the least power of two whose square holds the shares", wit)
			c.check(sa.IsEmpty() == sa.Equals(square.EmptySquare()), "Square.IsEmpty", "is not Equals(EmptySquare())", wit)
		})
		c.mark(fmt.Sprintf("sq %d %d %s", len(a), len(b), digestList(b)))
	}
	// a few real squares: Size of a constructed square is its side
	for _, k := range []int{1, 4, 16, 64} {
		l := make([][]byte, k)
		for j := range l {
			l[j] = refPadding(tailNs, 0)
		}
		c.add("sqsizeof", joinHexList(l))
		sides := map[int]int{1: 1, 4: 2, 16: 4, 64: 8}
		c.check(square.Square(sharesOf(l)).Size() == sides[k], "Square.Size", "side of a full square", map[string]any{"shares": k})
	}
}
