(* C15 (float side) - the float64 expression int(math.Ceil(math.Sqrt(float64(n)))) used by
   BlobMinSquareSize / square.Size is the exact integer ceil(sqrt n) of the model for every
   0 <= n <= 2^52, and the bound is tight.  Statements only; proofs in
   Proofs/FloatSqrtProofs.v.

   This file uses the real numbers of the Coq standard library and Flocq (IEEE-754
   formalisation), so the Print Assumptions below list the axioms that the standard library
   declares for the reals (and nothing else). *)
From Coq Require Import NArith ZArith Reals.
From Flocq Require Import Core BinarySingleNaN.
From Flocq Require Binary Bits.
From GS.Model Require Import Base Arith.
From GS.Proofs Require Import FloatSqrtProofs.

(* rnd64 is rounding to binary64 (precision 53, emin -1074), nearest, ties to even *)
Theorem C15_float_rnd64_def : forall x,
  rnd64 x = round radix2 (FLT_exp (-1074) 53) ZnearestE x.
Proof. exact (fun x => eq_refl). Qed.
Print Assumptions C15_float_rnd64_def.

(* real-number level: the correctly rounded square root, rounded up to an integer, is the
   model's exact ceil_sqrt *)
Theorem C15_float_ceil_sqrt : forall n : Z, (0 <= n <= 2 ^ 52)%Z ->
  Zceil (rnd64 (sqrt (IZR n))) = Z.of_N (ceil_sqrt (Z.to_N n)).
Proof. exact float_ceil_sqrt_exact. Qed.
Print Assumptions C15_float_ceil_sqrt.

(* the corollary the model uses *)
Theorem C15_float_min_square_size : forall n : Z, (0 <= n <= 2 ^ 52)%Z ->
  round_up_pow2 (Z.to_N (Zceil (rnd64 (sqrt (IZR n))))) = blob_min_square_size (Z.to_N n).
Proof. exact float_min_square_size. Qed.
Print Assumptions C15_float_min_square_size.

(* executable IEEE-754 level (Flocq binary_float 53 1024):
   go_ceil_sqrt n = Btrunc (Bnearbyint mode_UP (Bsqrt mode_NE (f64_of_Z n))),
   f64_of_Z n = binary_normalize mode_NE n 0 false  (int -> float64 conversion) *)
Theorem C15_float_go_ceil_sqrt_def : forall n,
  go_ceil_sqrt n =
  Btrunc (Bnearbyint mode_UP (Bsqrt mode_NE (binary_normalize 53 1024 _ _ mode_NE n 0 false))).
Proof. exact (fun n => eq_refl). Qed.
Print Assumptions C15_float_go_ceil_sqrt_def.

Theorem C15_float_go_ceil_sqrt : forall n : Z, (0 <= n <= 2 ^ 52)%Z ->
  go_ceil_sqrt n = Z.of_N (ceil_sqrt (Z.to_N n)).
Proof. exact go_ceil_sqrt_exact. Qed.
Print Assumptions C15_float_go_ceil_sqrt.

Theorem C15_float_go_min_square_size : forall n : Z, (0 <= n <= 2 ^ 52)%Z ->
  round_up_pow2 (Z.to_N (go_ceil_sqrt n)) = blob_min_square_size (Z.to_N n).
Proof. exact go_min_square_size. Qed.
Print Assumptions C15_float_go_min_square_size.

(* the conversion float64(n) is exact and the executable square root is the rounded real one *)
Theorem C15_float_conversion_exact : forall n : Z, (Z.abs n < 2 ^ 53)%Z ->
  B2R (f64_of_Z n) = IZR n /\ is_finite (f64_of_Z n) = true /\
  Bsign (f64_of_Z n) = (n <? 0)%Z.
Proof. exact f64_of_Z_exact. Qed.
Print Assumptions C15_float_conversion_exact.

Theorem C15_float_Bsqrt : forall n : Z, (Z.abs n < 2 ^ 53)%Z ->
  B2R (Bsqrt mode_NE (f64_of_Z n)) = rnd64 (sqrt (IZR n)).
Proof. exact Bsqrt_f64_of_Z. Qed.
Print Assumptions C15_float_Bsqrt.

(* no NaN or infinity arises on the way *)
Theorem C15_float_finite : forall n : Z, (0 <= n < 2 ^ 53)%Z ->
  is_finite (Bnearbyint mode_UP (Bsqrt mode_NE (f64_of_Z n))) = true.
Proof. exact go_ceil_sqrt_finite. Qed.
Print Assumptions C15_float_finite.

(* Flocq's binary64 with NaN payloads rounds the same way *)
Theorem C15_float_b64_sqrt : forall x : Bits.binary64,
  Binary.B2R 53 1024 (Bits.b64_sqrt mode_NE x) = rnd64 (sqrt (Binary.B2R 53 1024 x)).
Proof. exact b64_sqrt_is_rnd64. Qed.
Print Assumptions C15_float_b64_sqrt.

(* tightness: at n = 2^52 + 1 the float computation is one too small *)
Theorem C15_float_bound_tight :
  go_ceil_sqrt (2 ^ 52 + 1) = (2 ^ 26)%Z /\
  Z.of_N (ceil_sqrt (Z.to_N (2 ^ 52 + 1))) = (2 ^ 26 + 1)%Z.
Proof. exact go_ceil_sqrt_wrong_above. Qed.
Print Assumptions C15_float_bound_tight.

Theorem C15_float_bound_tight_real :
  Zceil (rnd64 (sqrt (IZR (2 ^ 52 + 1)))) = (2 ^ 26)%Z.
Proof. exact float_ceil_sqrt_wrong_above. Qed.
Print Assumptions C15_float_bound_tight_real.

(* non-vacuity: concrete instances of the theorems above *)
Example C15_float_ex17 : Zceil (rnd64 (sqrt (IZR 17))) = 5%Z.
Proof.
  exact (C15_float_ceil_sqrt 17
           (conj (proj1 (Z.leb_le 0 17) eq_refl) (proj1 (Z.leb_le 17 (2 ^ 52)) eq_refl))).
Qed.

Example C15_float_ex_max :
  Zceil (rnd64 (sqrt (IZR (2 ^ 52 - 1)))) = (2 ^ 26)%Z /\
  round_up_pow2 (Z.to_N (Zceil (rnd64 (sqrt (IZR (2 ^ 52 - 1)))))) = (2 ^ 26)%N.
Proof.
  assert (H : (0 <= 2 ^ 52 - 1 <= 2 ^ 52)%Z)
    by (split; apply Z.leb_le; vm_compute; reflexivity).
  rewrite (C15_float_ceil_sqrt _ H). split; vm_compute; reflexivity.
Qed.

(* the executable pipeline, run *)
Example C15_float_run :
  go_ceil_sqrt 0 = 0%Z /\ go_ceil_sqrt 1 = 1%Z /\ go_ceil_sqrt 2 = 2%Z /\
  go_ceil_sqrt 16 = 4%Z /\ go_ceil_sqrt 17 = 5%Z /\
  go_ceil_sqrt (2 ^ 52 - 1) = (2 ^ 26)%Z /\ go_ceil_sqrt (2 ^ 52) = (2 ^ 26)%Z.
Proof. vm_compute. repeat split. Qed.
