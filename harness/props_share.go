package main

// Generators and direct oracles for the share-level properties:
// C10 (wire format), C08 (sparse round trip), C09 (compact round trip),
// C11 (out-of-context parsing), and the splitter half of C14.

import (
	"bytes"
	"crypto/sha256"
	"encoding/binary"
	"fmt"
	square "github.com/celestiaorg/go-square/v2"
	"strconv"
	"strings"

	"github.com/celestiaorg/go-square/v2/share"
)

func init() {
	generators["C10"] = genC10
	generators["C08"] = genC08
	generators["C09"] = genC09
	generators["C11"] = genC11
}

// ---- independent encoders written from the share specification ----

func refInfo(ver uint8, start bool) byte {
	b := ver << 1
	if start {
		b |= 1
	}
	return b
}

func refSparse(ns []byte, ver uint8, signer, data []byte) [][]byte {
	var out [][]byte
	sh := append([]byte{}, ns...)
	sh = append(sh, refInfo(ver, true))
	var l [4]byte
	binary.BigEndian.PutUint32(l[:], uint32(len(data)))
	sh = append(sh, l[:]...)
	if ver == 1 {
		sh = append(sh, signer...)
	}
	rest := data
	for {
		room := 512 - len(sh)
		k := room
		if len(rest) < k {
			k = len(rest)
		}
		sh = append(sh, rest[:k]...)
		rest = rest[k:]
		sh = append(sh, make([]byte, 512-len(sh))...)
		out = append(out, sh)
		if len(rest) == 0 {
			break
		}
		sh = append([]byte{}, ns...)
		sh = append(sh, refInfo(ver, false))
	}
	return out
}

func refDelimited(t []byte) []byte {
	var buf [10]byte
	n := binary.PutUvarint(buf[:], uint64(len(t)))
	return append(append([]byte{}, buf[:n]...), t...)
}

// refCompact: the compact sequence of the given transactions, from the spec:
// the stream of delimited units is cut into 474 + 478* byte pieces; reserved
// bytes = in-share offset of the first unit that starts in the share, else 0.
func refCompact(ns []byte, txs [][]byte) ([][]byte, []int) {
	var stream []byte
	var starts []int
	for _, t := range txs {
		starts = append(starts, len(stream))
		stream = append(stream, refDelimited(t)...)
	}
	var out [][]byte
	off := 0
	first := true
	for off < len(stream) {
		capn, hdr := 478, 34
		if first {
			capn, hdr = 474, 38
		}
		end := off + capn
		if end > len(stream) {
			end = len(stream)
		}
		res := 0
		for _, s := range starts {
			if s >= off && s < end {
				res = hdr + (s - off)
				break
			}
		}
		sh := append([]byte{}, ns...)
		sh = append(sh, refInfo(0, first))
		if first {
			var l [4]byte
			binary.BigEndian.PutUint32(l[:], uint32(len(stream)))
			sh = append(sh, l[:]...)
		}
		var rb [4]byte
		binary.BigEndian.PutUint32(rb[:], uint32(res))
		sh = append(sh, rb[:]...)
		sh = append(sh, stream[off:end]...)
		sh = append(sh, make([]byte, 512-len(sh))...)
		out = append(out, sh)
		off += capn
		first = false
	}
	return out, starts
}

func refPadding(ns []byte, ver uint8) []byte {
	sh := append([]byte{}, ns...)
	sh = append(sh, refInfo(ver, true))
	return append(sh, make([]byte, 512-len(sh))...)
}

func eqShares(a [][]byte, b []share.Share) bool {
	if len(a) != len(b) {
		return false
	}
	for i := range a {
		if !bytes.Equal(a[i], b[i].ToBytes()) {
			return false
		}
	}
	return true
}

// accessorOracle checks every accessor of a 512-byte share against the fields
// the specification assigns to those offsets.
func accessorOracle(c *Ctx, raw []byte) {
	sh := sharesOf([][]byte{raw})[0]
	wit := map[string]any{"share_prefix": hx(raw[:64])}
	ns := raw[:29]
	info := raw[29]
	ver := info >> 1
	start := info&1 == 1
	compact := bytes.Equal(ns, share.TxNamespace.Bytes()) || bytes.Equal(ns, share.PayForBlobNamespace.Bytes())
	nsv := sh.Namespace()
	c.check(bytes.Equal(nsv.Bytes(), ns), "Share.Namespace", "wrong bytes", wit)
	c.check(sh.Version() == ver && sh.IsSequenceStart() == start && sh.IsCompactShare() == compact, "Share.Version/IsSequenceStart/IsCompactShare", "wrong", wit)
	seqLen := uint32(0)
	off := 30
	if start {
		seqLen = binary.BigEndian.Uint32(raw[30:34])
		off = 34
	}
	c.check(sh.SequenceLen() == seqLen, "Share.SequenceLen", "wrong", wit)
	var signer []byte
	if start && ver == 1 {
		signer = raw[34:54]
		off = 54
	}
	got := share.GetSigner(sh)
	c.check((got == nil) == (signer == nil) && bytes.Equal(got, signer), "GetSigner", "wrong", wit)
	if compact {
		off += 4
	}
	c.check(bytes.Equal(sh.RawData(), raw[off:]), "Share.RawData", "payload does not start after the header fields the specification assigns to this share", wit)
	pad := (start && seqLen == 0) || bytes.Equal(ns, share.TailPaddingNamespace.Bytes()) || bytes.Equal(ns, share.PrimaryReservedPaddingNamespace.Bytes())
	c.check(sh.IsPadding() == pad, "Share.IsPadding", "wrong", wit)
	// reserved bytes accessor (compact shares): payload from the unit offset, empty when 0, error when >= 512
	if compact {
		roff := off - 4
		res := binary.BigEndian.Uint32(raw[roff : roff+4])
		d, err := sh.RawDataUsingReserved()
		switch {
		case res >= 512:
			c.check(err != nil, "Share.RawDataUsingReserved", "no error for reserved bytes >= 512", wit)
		case res == 0:
			c.check(err == nil && len(d) == 0, "Share.RawDataUsingReserved", "not empty for reserved bytes 0", wit)
		default:
			c.check(err == nil && bytes.Equal(d, raw[res:]), "Share.RawDataUsingReserved", "does not start at the reserved-bytes offset", wit)
		}
	}
}

// version-0 reserved namespaces that are not the two compact ones (intermediate state roots, two unassigned
// values, primary reserved padding)
var reservedSparseNs = func() [][]byte {
	var out [][]byte
	for _, last := range []byte{0x02, 0x03, 0x05, 0xff} {
		ns := make([]byte, 29)
		ns[28] = last
		out = append(out, ns)
	}
	return out
}()

func genC10(c *Ctx) {
	defer func() {
		for _, h := range boundaryExportHistories(c.rng) {
			runSplitterHistory(c, pick(c.rng, [][]byte{txNs, pfbNs}), h, "CompactShareSplitter (history)")
		}
	}()
	c.rule = "every share emitted for blobs (hot lengths x versions), compact sequences (offset-covering tx lists) and padding, byte-compared with an independent encoder (Go) and with the Coq closed-form spec; accessors on emitted shares and on crafted 512-byte strings (all 256 info bytes x reserved-byte values x namespaces); non-trivial = distinct emitted sequence of more than one share, or distinct crafted share"
	r := c.rng
	nss := blobNamespaces(r, 4)
	// Go side only: sequences of 2^24 bytes and more - the sequence length is a 4-byte big-endian number and its
	// MOST significant byte is non-zero only from 16 MiB on (blobs through ToShares; a compact sequence of one
	// 16 MiB transaction)
	for _, l := range []int{1<<24 - 1, 1<<24 + 5} {
		l := l
		c.guard("Blob.ToShares (16 MiB)", map[string]any{"data_len": l}, func() {
			g := genBlob{ns: nss[0], data: make([]byte, l)}
			copy(g.data, r.Bytes(64))
			g.data[l-1] = 0x5a
			shs, err := g.blob().ToShares()
			want := (l - 478 + 481) / 482
			if l > 478 {
				want++
			}
			ok := err == nil && len(shs) == want
			if ok {
				first := shs[0].ToBytes()
				ok = binary.BigEndian.Uint32(first[30:34]) == uint32(l) && shs[0].SequenceLen() == uint32(l) && first[29] == 0x01 &&
					bytes.Equal(first[34:98], g.data[:64]) && shs[len(shs)-1].ToBytes()[30+(l-478-1)%482] == 0x5a
			}
			c.check(ok, "Blob.ToShares", "sequence length field / share count / payload wrong for a blob of 16 MiB or more", map[string]any{"data_len": l, "shares": len(shs)})
		})
		c.guard("CompactShareSplitter (16 MiB)", map[string]any{"tx_len": l}, func() {
			css := share.NewCompactShareSplitter(share.TxNamespace, 0)
			t := make([]byte, l)
			t[l-1] = 0x5a
			_ = css.WriteTx(t)
			shs, err := css.Export()
			total := uint32(len(refDelimited(t)))
			c.check(err == nil && len(shs) > 0 && binary.BigEndian.Uint32(shs[0].ToBytes()[30:34]) == total && shs[0].SequenceLen() == total,
				"CompactShareSplitter.Export", "sequence length field wrong for a compact sequence of 16 MiB or more", map[string]any{"tx_len": l, "want": total})
		})
		c.count("sequence_of_16MiB")
		c.goOnly++
	}
	// blobs
	var lens []int
	lens = append(lens, sparseHot...)
	for i := 0; i < 25*c.scale; i++ {
		lens = append(lens, sparseLen(r, 20000))
	}
	for _, l := range lens {
		for ver := uint8(0); ver <= 1; ver++ {
			g := genBlob{ns: pick(r, nss), ver: ver, data: r.Bytes(l)}
			if r.Intn(5) == 0 {
				// NewBlob also accepts the protocol's own version-0 namespaces that are not compact:
				// the share format of such a blob is the sparse one all the same
				g.ns = pick(r, reservedSparseNs)
				c.count("blob_in_reserved_namespace")
			}
			if ver == 1 {
				g.signer = randSigner(r)
			}
			shs, err := g.blob().ToShares()
			wit := map[string]any{"version": int(ver), "data_len": l, "ns_last_byte": int(g.ns[28])}
			if c.check(err == nil, "Blob.ToShares", "error", wit) {
				c.check(eqShares(refSparse(g.ns, ver, g.signer, g.data), shs), "SparseShareSplitter.Write", "shares differ from the specified encoding", wit)
				for _, s := range shs {
					accessorOracle(c, s.ToBytes())
				}
				if len(shs) > 1 {
					c.mark(fmt.Sprintf("blob v%d len %d", ver, l))
				}
				c.count(fmt.Sprintf("blob_shares_%d", min(len(shs), 5)))
			}
			c.add("specblob", hx(g.ns), strconv.Itoa(int(ver)), showSigner(g.signer), hx(g.data))
			c.add("blobshares", hx(g.ns), strconv.Itoa(int(ver)), showSigner(g.signer), hx(g.data))
		}
	}
	// padding
	for _, ns := range append(nss, share.TailPaddingNamespace.Bytes(), share.PrimaryReservedPaddingNamespace.Bytes()) {
		for _, ver := range []uint8{0, 1, 2, 127} {
			c.add("specpad", hx(ns), strconv.Itoa(int(ver)))
			sh, err := share.NamespacePaddingShare(nsOf(ns), ver)
			c.check(err == nil && bytes.Equal(sh.ToBytes(), refPadding(ns, ver)), "NamespacePaddingShare", "not the canonical padding share", map[string]any{"ns": hx(ns), "ver": int(ver)})
			if err == nil {
				// the accessors on a padding share of every version (a version 1 padding share is a sequence
				// start of length 0: signer field present, payload = the 458 bytes behind it)
				accessorOracle(c, sh.ToBytes())
				c.add("shinfo", hx(sh.ToBytes()))
			}
			for _, cnt := range []int{0, 1, 3} {
				c.add("pad", "ns", hx(ns), strconv.Itoa(int(ver)), strconv.Itoa(cnt))
			}
		}
	}
	for cnt := 0; cnt <= 5; cnt++ {
		c.add("pad", "res", "-", "0", strconv.Itoa(cnt))
		c.add("pad", "tail", "-", "0", strconv.Itoa(cnt))
		for _, s := range share.ReservedPaddingShares(cnt) {
			c.check(bytes.Equal(s.ToBytes(), refPadding(share.PrimaryReservedPaddingNamespace.Bytes(), 0)), "ReservedPaddingShares", "not canonical", map[string]any{"count": cnt})
		}
		for _, s := range share.TailPaddingShares(cnt) {
			c.check(bytes.Equal(s.ToBytes(), refPadding(share.TailPaddingNamespace.Bytes(), 0)), "TailPaddingShares", "not canonical", map[string]any{"count": cnt})
		}
	}
	// compact sequences
	for i := 0; i < 60*c.scale; i++ {
		ns := share.TxNamespace.Bytes()
		if r.Bool(40) {
			ns = share.PayForBlobNamespace.Bytes()
		}
		txs := compactTxList(c, r, 1+r.Intn(8))
		css := share.NewCompactShareSplitter(nsOf(ns), 0)
		for _, t := range txs {
			_ = css.WriteTx(t)
		}
		shs, err := css.Export()
		wit := map[string]any{"ns": hx(ns), "tx_lens": lensOf(txs)}
		if c.check(err == nil, "CompactShareSplitter.Export", "error", wit) {
			ref, _ := refCompact(ns, txs)
			c.check(eqShares(ref, shs), "CompactShareSplitter", "shares differ from the specified encoding", wit)
			for _, s := range shs {
				accessorOracle(c, s.ToBytes())
			}
			if len(shs) > 1 {
				c.mark(fmt.Sprintf("compact %v", lensOf(txs)))
			}
		}
		c.add("speccompact", hx(ns), joinHexList(txs))
		c.add("speccompactix", hx(ns), joinHexList(txs))
	}
	// the shares the builder emits into SQUARES (blobs of several namespaces, many per transaction, more than 12 in
	// all): byte-identical to the specified layout written by the independent encoder
	for i := 0; i < 25*c.scale; i++ {
		forceManyBlobs = i%4 == 0
		s := randSquareCase(c, r, true, false)
		forceManyBlobs = false
		kept, pfbs := refKeep(rawsOf(s.txs), s.max, s.thr)
		var list [][]byte
		list = append(list, kept...)
		for _, p := range pfbs {
			list = append(list, p.raw)
		}
		sq, err := square.Construct(list, s.max, s.thr)
		wit := map[string]any{"case": s.shape()}
		if !c.check(err == nil, "Construct", "error", wit) {
			continue
		}
		c.check(eqShares(refLayout(kept, pfbs, s.thr), sq), "Construct", "shares of the square differ from the specified encoding", wit)
		c.count("square_vs_specified_layout")
		c.goOnly++
	}
	// a streaming caller that REUSES one 29-byte buffer for the namespaces of consecutive blobs: each blob's
	// namespace is a view of that buffer, and the buffer already holds the next namespace when the padding
	// behind the previous blob is requested (the order Builder.Export uses: padding first, next blob after)
	for i := 0; i < 10; i++ {
		nssL := blobNamespaces(r, 3)
		buf := make([]byte, 29)
		sss := share.NewSparseShareSplitter()
		var ref [][]byte
		desc := ""
		okAll := true
		for j, ns := range nssL {
			copy(buf, ns)
			nsv, err := share.NewNamespaceFromBytes(buf)
			if err != nil {
				okAll = false
				break
			}
			ver := uint8(r.Intn(2))
			var signer []byte
			if ver == 1 {
				signer = randSigner(r)
			}
			data := r.Bytes(sparseLen(r, 1500))
			blob, err := share.NewBlob(nsv, data, ver, signer)
			if err != nil || sss.Write(blob) != nil {
				okAll = false
				break
			}
			ref = append(ref, refSparse(ns, ver, signer, data)...)
			if j+1 < len(nssL) {
				copy(buf, nssL[j+1])
			} else {
				for q := range buf {
					buf[q] = 0xee
				}
			}
			k := r.Intn(3)
			if sss.WriteNamespacePaddingShares(k) != nil {
				okAll = false
				break
			}
			for q := 0; q < k; q++ {
				ref = append(ref, refPadding(ns, ver))
			}
			desc += fmt.Sprintf("v%d len %d pad %d; ", ver, len(data), k)
		}
		if !okAll {
			continue
		}
		c.check(eqShares(ref, sss.Export()), "SparseShareSplitter", "shares differ from the specified encoding when the caller reuses its namespace buffer between a blob and the padding behind it",
			map[string]any{"sequence": desc})
		c.count("namespace_buffer_reuse")
		c.goOnly++
	}
	// every first-unit offset: for each position p of a continuation share's payload (reserved bytes =
	// 34+p, incl. the values with a zero low byte such as 256) a unit crossing in from the previous share
	// ends at p, and two more units start later in the same share (they must not overwrite the reserved bytes)
	for p := 0; p < 478; p++ {
		for _, pre := range []int{0, 478} {
			ns := share.TxNamespace.Bytes()
			if (p+pre/478)%3 == 2 {
				ns = share.PayForBlobNamespace.Bytes()
			}
			first := 474 + pre + p - 2 // two-byte length prefix: delimited length 474+pre+p
			if len(refDelimited(make([]byte, first))) != 474+pre+p {
				continue
			}
			txs := [][]byte{r.Bytes(first), r.Bytes(10), r.Bytes(10 + r.Intn(30))}
			css := share.NewCompactShareSplitter(nsOf(ns), 0)
			for _, t := range txs {
				_ = css.WriteTx(t)
			}
			shs, err := css.Export()
			wit := map[string]any{"ns": hx(ns), "tx_lens": lensOf(txs), "first_unit_offset": 34 + p}
			if c.check(err == nil, "CompactShareSplitter.Export", "error", wit) {
				ref, _ := refCompact(ns, txs)
				c.check(eqShares(ref, shs), "CompactShareSplitter", "shares differ from the specified encoding", wit)
			}
			c.count("first_unit_offset_sweep")
			if p%16 == 0 || (34+p)%256 == 0 || p >= 470 {
				c.add("speccompact", hx(ns), joinHexList(txs))
			} else {
				c.goOnly++
			}
		}
	}
	// Go side only: very long units (>= 1 MiB, >= 2 MiB) whose length prefix ends at / straddles a share end,
	// compared with the independent encoder
	{
		lists, _ := veryLongUnitLists(r)
		for li, txs := range lists {
			if c.tier == "quick" && li >= 5 && li%3 != int(r.U64()%3) {
				continue
			}
			ns := share.TxNamespace.Bytes()
			if li%2 == 1 {
				ns = share.PayForBlobNamespace.Bytes()
			}
			css := share.NewCompactShareSplitter(nsOf(ns), 0)
			for _, t := range txs {
				_ = css.WriteTx(t)
			}
			shs, err := css.Export()
			wit := map[string]any{"ns": hx(ns), "tx_lens": lensOf(txs)}
			if c.check(err == nil, "CompactShareSplitter.Export", "error", wit) {
				ref, _ := refCompact(ns, txs)
				c.check(eqShares(ref, shs), "CompactShareSplitter", "shares differ from the specified encoding", wit)
			}
			c.count("very_long_unit")
			c.goOnly++
		}
	}
	// crafted shares: all 256 info bytes x reserved-byte values x namespaces
	craftNs := [][]byte{share.TxNamespace.Bytes(), share.PayForBlobNamespace.Bytes(), share.PrimaryReservedPaddingNamespace.Bytes(),
		share.TailPaddingNamespace.Bytes(), share.ParitySharesNamespace.Bytes(), nss[0]}
	resVals := []uint32{0, 1, 37, 38, 511, 512, 1 << 16, 1<<16 | 38, 1<<24 | 100, 0x01000000, 1<<31 | 511, 1<<32 - 1}
	for info := 0; info < 256; info++ {
		for _, ns := range craftNs {
			rv := pick(r, resVals)
			if info < 4 {
				// sweep all reserved values on the supported versions
				for _, v := range resVals {
					raw := craftShare(r, ns, byte(info), v)
					c.add("shinfo", hx(raw))
					accessorOracle(c, raw)
				}
			}
			raw := craftShare(r, ns, byte(info), rv)
			c.add("shinfo", hx(raw))
			accessorOracle(c, raw)
			c.mark(fmt.Sprintf("craft %s %d %d", hx(ns[27:]), info, rv))
		}
	}
	helperCases(c)
}

// craftShare: ns | info | (seq len when start) | (signer when v1 start) | reserved value | random payload
func craftShare(r *Rng, ns []byte, info byte, reserved uint32) []byte {
	raw := r.Bytes(512)
	copy(raw, ns)
	raw[29] = info
	off := 30
	if info&1 == 1 {
		if r.Bool(30) {
			copy(raw[30:34], []byte{0, 0, 0, 0})
		}
		off = 34
		if info>>1 == 1 {
			off = 54
		}
	}
	binary.BigEndian.PutUint32(raw[off:], reserved)
	return raw
}

func lensOf(txs [][]byte) []int {
	out := make([]int, len(txs))
	for i, t := range txs {
		out[i] = len(t)
	}
	return out
}

// compactTxList: transactions whose delimited units start on offsets that the
// run has not covered yet (residues of the 474/478 layout), exact fills, and
// prefixes of 1/2/3 bytes, some straddling a share end.
func compactTxList(c *Ctx, r *Rng, k int) [][]byte {
	var txs [][]byte
	off := 0
	for i := 0; i < k; i++ {
		var l int
		switch r.Intn(8) {
		case 0, 1:
			// end exactly at the end of the current share
			room := 474 - off
			if off >= 474 {
				room = 478 - (off-474)%478
			}
			l = room - 1
			if l >= 128 {
				l = room - 2
			}
			if l < 1 {
				l = 1
			}
		case 3:
			// start in the (partly filled) current share, cross one or two share boundaries, and end exactly on
			// the last byte of a later share - or one byte before / after it
			room := 474 - off
			if off >= 474 {
				room = 478 - (off-474)%478
			}
			l = room + 478*(1+r.Intn(2)) - 2 + r.Intn(3) - 1
			if l < 1 {
				l = 1
			}
		case 2:
			// leave 1 or 2 bytes in the share so that the next prefix straddles
			room := 474 - off
			if off >= 474 {
				room = 478 - (off-474)%478
			}
			l = room - 2 - r.Intn(2) - 1
			if l < 1 {
				l = 1
			}
		default:
			l = compactLen(r, 2500)
		}
		if r.Intn(40) == 0 {
			l = pick(r, []int{16383, 16384, 16385, 16386})
		}
		t := r.Bytes(l)
		if r.Bool(25) {
			for j := range t {
				t[j] = byte([]int{1, 2, 3, 0x80, 0x81, 0}[r.Intn(6)])
			}
		}
		txs = append(txs, t)
		off += len(refDelimited(t))
		c.count(fmt.Sprintf("tx_prefix_%d", len(refDelimited(t))-l))
	}
	return txs
}

// ---- C08 ----

func genC08(c *Ctx) {
	c.rule = "blob sequences (1-5 blobs, hot and random lengths, versions 0/1, equal and different namespaces) with namespace padding after blobs and reserved/tail padding around them; rendered by the real writers and parsed back; non-trivial = distinct item list containing a multi-share blob or padding"
	r := c.rng
	// the degenerate sequences: NO blob at all, only padding (the blob region of an empty block) - the round
	// trip must give back the empty blob list
	for _, arg := range []string{"t:1", "t:2", "t:4", "t:16", "t:0", "r:1", "r:3", "t:2,r:2", "r:2,t:3", "r:1,t:1,r:1", "n:0", "n:0,t:2", "t:" + strconv.Itoa(5+r.Intn(60))} {
		c.add("sparserr", arg)
		c.add("sparse", arg)
		res := safeExec("sparserr", []string{arg})
		c.check(res == "ok:[]", "ParseBlobs", "a sequence of padding shares without any blob does not parse to the empty blob list", map[string]any{"items": arg, "got": res})
		c.count("no_blob_only_padding")
		c.mark("only padding " + arg)
	}
	for i := 0; i < 220*c.scale+60; i++ {
		// the last 60 iterations: a version 1 blob, then - as the very last item, nothing behind it - a version 0
		// blob that leaves 0..19 unused bytes in its last share (a capacity computed with the signer of the
		// PREVIOUS sequence would be 20 bytes short)
		special := i - 220*c.scale
		nss := blobNamespaces(r, 3)
		var items []string
		var blobs []genBlob
		nontriv := false
		if special < 0 && r.Bool(30) {
			items = append(items, "r:"+strconv.Itoa(r.Intn(4)))
		} else if r.Intn(8) == 0 {
			// a request for ZERO namespace padding shares before anything is written (accepted, writes nothing)
			items = append(items, "n:0")
			c.count("zero_padding_on_empty_splitter")
		}
		k := 1 + r.Intn(5)
		if i < len(sparseHot)*2 {
			k = 1
		}
		if special >= 0 {
			k = 2
		}
		for j := 0; j < k; j++ {
			g := randBlob(r, nss, 12000)
			if special >= 0 {
				if j == 0 {
					g.ver, g.signer = 1, randSigner(r)
					g.data = r.Bytes(1 + r.Intn(900))
				} else {
					g.ver, g.signer = 0, nil
					g.data = r.Bytes(478 + 482*(special/20) - special%20)
				}
			}
			if i < len(sparseHot)*2 {
				g.data = r.Bytes(sparseHot[i/2])
				g.ver = uint8(i % 2)
				g.signer = nil
				if g.ver == 1 {
					g.signer = randSigner(r)
				}
			}
			if special < 0 && i >= len(sparseHot)*2 && (i%10 == 3 || i%10 == 8) {
				// runs of blobs that are EQUAL in every field (namespace, version, signer, data), one share each
				// (i%10 == 3) or several shares each: their start shares are byte-identical
				if j == 0 {
					g.data = r.Bytes(1 + r.Intn(400))
					if i%10 == 8 {
						g.data = r.Bytes(500 + r.Intn(1500))
					}
					if k < 2 {
						k = 2 + r.Intn(3)
					}
				} else {
					g = blobs[j-1]
				}
				c.count("run_of_identical_blobs")
			}
			if special < 0 && r.Intn(7) == 0 {
				// reserved or tail padding in FRONT of a blob (padding of any kind may sit on either side)
				items = append(items, pick(r, []string{"t:", "r:"})+strconv.Itoa(1+r.Intn(3)))
				c.count("padding_before_blob")
				nontriv = true
			}
			blobs = append(blobs, g)
			items = append(items, "b:"+g.spec())
			if len(g.data) > 458 {
				nontriv = true
			}
			if special < 0 && r.Bool(50) {
				items = append(items, "n:"+strconv.Itoa(r.Intn(4)))
				nontriv = true
			}
			c.count(fmt.Sprintf("blob_v%d", g.ver))
		}
		if special < 0 && r.Bool(40) {
			items = append(items, "t:"+strconv.Itoa(r.Intn(4)))
		}
		if special >= 0 {
			c.count("v1_then_tight_v0_last")
		}
		arg := strings.Join(items, ",")
		c.add("sparserr", arg)
		if i%3 == 0 {
			c.add("sparse", arg)
		}
		// oracle on the implementation
		res := safeExec("sparserr", []string{arg})
		want := "ok:" + showList(func(g genBlob) string { return g.spec() }, blobs)
		var desc []string
		for _, g := range blobs {
			desc = append(desc, fmt.Sprintf("v%d:%d", g.ver, len(g.data)))
		}
		c.check(res == want, "ParseBlobs", "parsed blobs differ from the blobs written", map[string]any{"blobs": desc, "items": itemsShape(items)})
		// the same sequence written from blobs whose namespace, signer and data are views into ONE buffer
		// (spare capacity behind each), parsed, and the PARSED blobs (views of the shares) written and parsed
		// again: both generations must give back the original values
		if got, gen := rewriteGenerations(blobs, items); got != want {
			c.check(false, "SparseShareSplitter.Write", "blobs written from shared buffers / re-written after parsing come back different",
				map[string]any{"blobs": desc, "items": itemsShape(items), "generation": gen})
		} else {
			c.check(true, "", "", nil)
		}
		if nontriv {
			c.mark(strings.Join(desc, " ") + " " + itemsShape(items))
		}
	}
}

// rewriteGenerations: generation 1 writes blobs whose fields are carved from one buffer; generation 2
// writes the blobs returned by ParseBlobs on generation 1's shares.  Returns the parse result of the
// last generation that differs from the expectation (or of generation 2) and its number.
func rewriteGenerations(blobs []genBlob, items []string) (string, int) {
	total := 0
	for _, g := range blobs {
		total += len(g.ns) + len(g.signer) + len(g.data)
	}
	// layout: all signers back to back, then all namespaces, then all data - so that whatever a writer
	// appends behind one field lands in another blob's field
	arena := make([]byte, 0, total+4096)
	sOff := make([][2]int, len(blobs))
	nOff := make([][2]int, len(blobs))
	dOff := make([][2]int, len(blobs))
	for i, g := range blobs {
		sOff[i][0] = len(arena)
		arena = append(arena, g.signer...)
		sOff[i][1] = len(arena)
	}
	for i, g := range blobs {
		nOff[i][0] = len(arena)
		arena = append(arena, g.ns...)
		nOff[i][1] = len(arena)
	}
	for i, g := range blobs {
		dOff[i][0] = len(arena)
		arena = append(arena, g.data...)
		dOff[i][1] = len(arena)
	}
	var first []*share.Blob
	for i, g := range blobs {
		var signer []byte
		if g.signer != nil {
			signer = arena[sOff[i][0]:sOff[i][1]]
		}
		ns, err := share.NewNamespaceFromBytes(arena[nOff[i][0]:nOff[i][1]])
		if err != nil {
			return "err-ns", 1
		}
		bl, err := share.NewBlob(ns, arena[dOff[i][0]:dOff[i][1]], g.ver, signer)
		if err != nil {
			return "err-blob", 1
		}
		first = append(first, bl)
	}
	want := "ok:" + showList(func(g genBlob) string { return g.spec() }, blobs)
	render := func(bs []*share.Blob) ([]share.Share, bool) {
		var acc []share.Share
		var sp *share.SparseShareSplitter
		flush := func() {
			if sp != nil {
				acc = append(acc, sp.Export()...)
				sp = nil
			}
		}
		k := 0
		for _, it := range items {
			switch it[0] {
			case 'b':
				if sp == nil {
					sp = share.NewSparseShareSplitter()
				}
				if err := sp.Write(bs[k]); err != nil {
					return nil, false
				}
				k++
			case 'n':
				if sp == nil {
					sp = share.NewSparseShareSplitter()
				}
				if err := sp.WriteNamespacePaddingShares(atoi(it[2:])); err != nil {
					return nil, false
				}
			case 'r':
				flush()
				acc = append(acc, share.ReservedPaddingShares(atoi(it[2:]))...)
			case 't':
				flush()
				acc = append(acc, share.TailPaddingShares(atoi(it[2:]))...)
			}
		}
		flush()
		return acc, true
	}
	show := func(bs []*share.Blob) string {
		return "ok:" + showList(func(b *share.Blob) string {
			return blobSpec(b.Namespace().Bytes(), b.ShareVersion(), b.Signer(), b.Data())
		}, bs)
	}
	cur := first
	res := ""
	for gen := 1; gen <= 2; gen++ {
		shs, ok := render(cur)
		if !ok {
			return "err-write", gen
		}
		parsed, err := share.ParseBlobs(shs)
		if err != nil {
			return "err-parse", gen
		}
		res = show(parsed)
		if res != want {
			return res, gen
		}
		// the blobs handed to the writer must not have been changed by it either
		if show(cur) != want {
			return "input-modified:" + show(cur), gen
		}
		cur = parsed
	}
	return res, 2
}

func itemsShape(items []string) string {
	var sb strings.Builder
	for _, it := range items {
		if it[0] == 'b' {
			sb.WriteString("b ")
		} else {
			sb.WriteString(it + " ")
		}
	}
	return strings.TrimSpace(sb.String())
}

// ---- C09 ----

func genC09(c *Ctx) {
	defer func() {
		for _, h := range boundaryExportHistories(c.rng) {
			runSplitterHistory(c, pick(c.rng, [][]byte{txNs, pfbNs}), h, "CompactShareSplitter (history)")
		}
	}()
	c.rule = "tx lists (1-12 txs; lengths from exact-fill, prefix-straddle, varint-width and random families) for both compact namespaces; written, counted, exported, parsed; non-trivial = distinct length list spanning more than one share"
	r := c.rng
	c09NamespaceViews(c, r)
	// Go side only: every transaction parsed back from exactly ITS OWN share range (what ShareRanges reports,
	// the natural use of the two functions together), on sequences in which a unit starts 0..5 bytes into a
	// continuation share and a later unit ends 0..5 bytes before the end of its last share - a parser that sizes
	// its buffer as if every range began with the sequence's first share is short by up to 4 bytes exactly there
	for d := 0; d <= 5; d++ {
		for e := 0; e <= 5; e++ {
			for k := 1; k <= 2; k++ {
				first := r.Bytes(474 + d - 2)                                       // unit of 474+d bytes: the next unit starts at payload offset d of share 1
				second := r.Bytes(478*k - d - e - 2) // ends e bytes before the end of share k
				if len(second) < 128 {
					continue
				}
				txs := [][]byte{first, second, r.Bytes(1 + r.Intn(100))}
				nsb := pick(r, [][]byte{txNs, pfbNs})
				css := share.NewCompactShareSplitter(nsOf(nsb), 0)
				for _, t := range txs {
					_ = css.WriteTx(t)
				}
				shs, err := css.Export()
				if err != nil {
					continue
				}
				ranges := css.ShareRanges(0)
				for ti, t := range txs {
					rg, ok := ranges[sha256.Sum256(t)]
					wit := map[string]any{"tx_lens": lensOf(txs), "tx": ti, "range": fmt.Sprintf("%d-%d", rg.Start, rg.End), "shares": len(shs)}
					if !c.check(ok && rg.Start >= 0 && rg.End <= len(shs) && rg.Start < rg.End, "CompactShareSplitter.ShareRanges", "no usable range for a written transaction", wit) {
						continue
					}
					c.guard("ParseTxs(own range)", wit, func() {
						got, err := share.ParseTxs(shs[rg.Start:rg.End])
						found := false
						for _, g := range got {
							found = found || bytes.Equal(g, t)
						}
						c.check(err == nil && found, "ParseTxs(own range)", "parsing exactly the shares ShareRanges reports for a transaction does not give the transaction back", wit)
					})
				}
				c.count("own_range_parse")
				c.goOnly++
			}
		}
	}
	nRandom := 400 * c.scale
	// Go side only: single very long units on the varint-width boundaries 2^14 and 2^21 (and 2^20), alone and
	// between small transactions, ending on / one byte past a share boundary
	var big [][][]byte
	for _, around := range []int{1 << 14, 1<<14 + 300, 1 << 20, 1<<21 - 1, 1 << 21, 1<<21 + 477, 1<<21 + 5000} {
		var l [][]byte
		prefix := 0
		if r.Bool(60) {
			t0 := r.Bytes(1 + r.Intn(300))
			l = append(l, t0)
			prefix = len(refDelimited(t0))
		}
		n := around
		if around != 1<<21 && around != 1<<21-1 && around != 1<<14 {
			n = alignedTxLen(prefix, around, r.Intn(2))
		}
		bigTx := make([]byte, n)
		copy(bigTx, r.Bytes(64))
		bigTx[n-1] = 0x5a
		l = append(l, bigTx, r.Bytes(1+r.Intn(100)), r.Bytes(1+r.Intn(100)))
		big = append(big, l)
	}
	for i := 0; i < nRandom+len(big); i++ {
		ns := share.TxNamespace.Bytes()
		if r.Bool(40) {
			ns = share.PayForBlobNamespace.Bytes()
		}
		var txs [][]byte
		if i < nRandom {
			txs = compactTxList(c, r, 1+r.Intn(12))
			if i%16 == 11 {
				// a transaction on a length-prefix width boundary (126..130 bytes) written when the pending share
				// has just about that much room left: every combination of length and room around it
				L := 126 + (i/16)%5
				room := L - 1 + (i/80)%6 // free bytes in the pending first share before this transaction
				lead := 474 - room       // delimited bytes written before it
				if lead >= 130 {
					txs = [][]byte{r.Bytes(lead - 2), r.Bytes(L), r.Bytes(50)}
				} else if lead >= 2 {
					txs = [][]byte{r.Bytes(lead - 1), r.Bytes(L), r.Bytes(50)}
				}
				c.count("prefix_width_boundary_tx_near_share_end")
			}
			if i%16 == 3 {
				// the sequence fills its last share exactly and ends with one or several TINY transactions whose
				// bytes have the high bit set (they look like cut-off length prefixes)
				head := r.Bytes(1 + r.Intn(300))
				tiny := 1 + (i/16)%8
				k := (i / 128) % 3
				pre := len(refDelimited(head)) + (1 + tiny)
				mid := alignedTxLen(pre, 474+478*k-pre-2, 0)
				last := bytes.Repeat([]byte{0x80 | byte(i)}, tiny)
				txs = [][]byte{head, r.Bytes(mid), last}
				if (i/16)%2 == 1 {
					txs = [][]byte{head, r.Bytes(mid - 2), {0xff}, last}
				}
				c.count("exact_fill_tiny_high_bit_last_tx")
			}
			if i%16 == 7 {
				// the sequence fills its last share exactly and that share holds nothing but ZERO bytes of the
				// last transaction (a share that looks like the zero fill behind a shorter sequence)
				head := r.Bytes(1 + r.Intn(200))
				k := 1 + r.Intn(3) // continuation shares covered
				pre := len(refDelimited(head))
				n := alignedTxLen(pre, 474+478*k-pre-2, 0)
				last := make([]byte, n)
				copy(last, r.Bytes(min(n-478-r.Intn(200), 300)))
				for j := range last[:min(len(last), 20)] {
					last[j] |= 1
				}
				txs = [][]byte{head, last}
				c.count("zero_filled_last_share")
			}
			c.add("compactrt", hx(ns), joinHexList(txs))
		} else {
			txs = big[i-nRandom]
			c.count("very_long_unit")
			c.goOnly++
		}
		if i < nRandom && i%4 == 0 {
			// per-write counts and the exported bytes
			ops := make([]string, 0, 2*len(txs)+1)
			for _, t := range txs {
				ops = append(ops, "w"+hx(t), "c")
			}
			ops = append(ops, "e")
			c.add("compact", hx(ns), "0", strings.Join(ops, ","))
			if i%16 == 0 {
				// the same history with the other share versions the constructor takes: 1, 2, 127 (compact shares
				// never carry a signer), and 128 / 255, for which the constructor panics
				for _, ver := range []string{"1", "2", "127", "128", "255"} {
					c.add("compact", hx(ns), ver, strings.Join(ops, ","))
				}
				c.count("compact_other_share_versions")
			}
		}
		// oracle (a panic of the writer on this list is a finding with the list as witness)
		wit := map[string]any{"ns": hx(ns[28:]), "tx_lens": lensOf(txs)}
		var shs []share.Share
		var err error
		total := 0
		c.guard("CompactShareSplitter", wit, func() {
			css := share.NewCompactShareSplitter(nsOf(ns), 0)
			for _, t := range txs {
				_ = css.WriteTx(t)
				total += len(refDelimited(t))
			}
			shs, err = css.Export()
		})
		if !c.check(err == nil && len(shs) > 0, "CompactShareSplitter.Export", "error", wit) {
			continue
		}
		parsed, err := share.ParseTxs(shs)
		same := err == nil && len(parsed) == len(txs)
		if same {
			for j := range txs {
				if !bytes.Equal(parsed[j], txs[j]) {
					same = false
				}
			}
		}
		c.check(same, "ParseTxs", "parsed transactions differ from the transactions written", wit)
		c.check(int(shs[0].SequenceLen()) == total, "sequence length", "not the total number of length-prefixed bytes", wit)
		n := len(shs)
		c.check(share.AvailableBytesFromCompactShares(n) >= total && share.AvailableBytesFromCompactShares(n-1) < total, "share count", "not the minimum that holds the data", wit)
		if n > 1 {
			c.mark(fmt.Sprintf("%v", lensOf(txs)))
		}
		c.count(fmt.Sprintf("shares_%d", min(n, 8)))
	}
}

// c09NamespaceViews (Go side only): the compact splitter is given a namespace whose 29 bytes are a view into a
// larger buffer (what Share.Namespace() and NewNamespaceFromBytes return): the shares must be the same as with
// a constructor-made namespace, and the bytes behind the view must stay untouched.
func c09NamespaceViews(c *Ctx, r *Rng) {
	for i := 0; i < 12; i++ {
		ns := share.TxNamespace.Bytes()
		if i%2 == 1 {
			ns = share.PayForBlobNamespace.Bytes()
		}
		buf := make([]byte, 29+700)
		copy(buf, ns)
		for j := 29; j < len(buf); j++ {
			buf[j] = 0xee
		}
		nsv, err := share.NewNamespaceFromBytes(buf[:29])
		if err != nil {
			continue
		}
		txs := compactTxList(c, r, 2+r.Intn(5))
		css := share.NewCompactShareSplitter(nsv, 0)
		for _, t := range txs {
			_ = css.WriteTx(t)
		}
		shs, err := css.Export()
		wit := map[string]any{"ns": hx(ns[28:]), "tx_lens": lensOf(txs), "namespace": "view into a 729-byte buffer"}
		if !c.check(err == nil, "CompactShareSplitter.Export", "error", wit) {
			continue
		}
		ref, _ := refCompact(ns, txs)
		c.check(eqShares(ref, shs), "CompactShareSplitter", "shares differ from the specified encoding when the namespace is a view into a larger buffer", wit)
		parsed, err := share.ParseTxs(shs)
		same := err == nil && len(parsed) == len(txs)
		for j := 0; same && j < len(txs); j++ {
			same = bytes.Equal(parsed[j], txs[j])
		}
		c.check(same, "ParseTxs", "parsed transactions differ from the transactions written", wit)
		clean := bytes.Equal(buf[:29], ns)
		for j := 29; clean && j < len(buf); j++ {
			clean = buf[j] == 0xee
		}
		c.check(clean, "CompactShareSplitter", "wrote into the buffer behind its namespace argument", wit)
		c.count("namespace_view_splitter")
		c.goOnly++
	}
}

// veryLongUnitLists (Go side only): a transaction of >= 1 MiB (and one of >= 2 MiB) whose length prefix
// starts 1, 2 or 3 bytes before a share end (so the prefix ends exactly at the boundary or straddles it),
// preceded and followed by small transactions.  Returns the lists and, per list, the index of the long one.
func veryLongUnitLists(r *Rng) ([][][]byte, []int) {
	var lists [][][]byte
	var pos []int
	// the first five lists always run: 70 000 bytes at the three alignments, and 2^21+1 / 2^21+2 bytes (four-byte
	// prefix whose first three bytes, cut off by the share end, would read as the length 1 / 2)
	type vl struct{ size, back int }
	var plan []vl
	for back := 1; back <= 3; back++ {
		plan = append(plan, vl{70000, back})
	}
	plan = append(plan, vl{1<<21 + 1, 3}, vl{1<<21 + 2, 3})
	for _, size := range []int{1 << 20, 1<<20 + 12345, 1<<21 + 3} {
		for back := 1; back <= 3; back++ {
			plan = append(plan, vl{size, back})
		}
	}
	for _, pl := range plan {
		size, back := pl.size, pl.back
		{
			lead := 474 - back // stream bytes before the long unit
			first := r.Bytes(lead - 2)
			if lead-2 < 128 {
				first = r.Bytes(lead - 1)
			}
			long := make([]byte, size)
			for j := 0; j < len(long); j += 997 {
				long[j] = byte(1 + j%5) // delimiter look-alikes sprinkled through the body
			}
			long[0], long[1], long[2] = 0xaa, 0xbb, 0x02
			lists = append(lists, [][]byte{first, long, r.Bytes(1 + r.Intn(50))})
			pos = append(pos, 1)
		}
	}
	return lists, pos
}

// ---- C11 ----

// expectedSubrange: the transactions that begin inside shares [lo,hi) and are complete within them.
func expectedSubrange(txs [][]byte, nShares, lo, hi int) [][]byte {
	cStart := func(j int) int { // stream offset at which share j begins
		if j == 0 {
			return 0
		}
		return 474 + (j-1)*478
	}
	from := cStart(lo)
	to := cStart(hi)
	off := 0
	var out [][]byte
	for _, t := range txs {
		u := len(refDelimited(t))
		if off >= from && off+u <= to {
			out = append(out, t)
		}
		off += u
	}
	// total stream shorter than `to` is handled since off+u <= len(stream) <= to for the last share
	return out
}

// parseTxsGuarded: ParseTxs on a sub-range; a panic is a finding (with the range as witness), not a crash of the run
func parseTxsGuarded(c *Ctx, shs []share.Share, lo, hi int) (got [][]byte, err error) {
	err = fmt.Errorf("panicked")
	c.guard("ParseTxs(sub-range)", map[string]any{"lo": lo, "hi": hi, "first_share": hx(shs[0].ToBytes()[:40])}, func() {
		got, err = share.ParseTxs(shs)
	})
	return
}

func genC11(c *Ctx) {
	c.rule = "tx lists as in C09 plus one multi-share transaction of delimiter look-alike bytes and 3-byte-prefix straddles; ParseTxs on EVERY contiguous sub-range [lo,hi) of the exported sequence, compared with the set of transactions that begin in the range and are complete in it; non-trivial = distinct (length list, lo, hi) with lo>0 or hi<n"
	r := c.rng
	nseq := 70 * c.scale
	// corpus: minimized witnesses of earlier findings, always run first
	corpus := [][][]byte{
		{make([]byte, 10), bytes.Repeat([]byte{3}, 2000), make([]byte, 20)},           // range starting inside a long tx (reserved bytes 0)
		{r.Bytes(470), r.Bytes(16385)},                                                // 3-byte prefix cut after 2 bytes
		{r.Bytes(471), r.Bytes(16385)},                                                // 3-byte prefix cut after 1 byte
		{r.Bytes(470), r.Bytes(32769), r.Bytes(5)},                                    // same family, longer
		{r.Bytes(470), r.Bytes(16386)},                                                // truncated prefix decodes to a small length
		{r.Bytes(30), bytes.Repeat([]byte{1, 0x80, 2}, 900), r.Bytes(30), r.Bytes(3)}, // a tx covering 5+ shares of delimiter look-alikes
		{r.Bytes(1500), r.Bytes(402), {0x07}, r.Bytes(40)},                            // a ONE-byte tx ending exactly on a share end
		// a unit whose length sits on a prefix-width boundary (128, 16384: the prefix is one byte wider than that
		// of any shorter remainder) and whose last 1, 2 or 3 bytes lie in the next share
		{r.Bytes(343), r.Bytes(128), r.Bytes(50)},
		{r.Bytes(344), r.Bytes(128), r.Bytes(50)},
		{r.Bytes(345), r.Bytes(128)},
		{r.Bytes(343 + 478), r.Bytes(128), r.Bytes(5)},
		{r.Bytes(338), r.Bytes(16384), r.Bytes(5)},
		{r.Bytes(339), r.Bytes(16384)},
		{r.Bytes(342), r.Bytes(129), r.Bytes(50)},
		{r.Bytes(344), r.Bytes(127), r.Bytes(50)},
		// a long transaction that ends EXACTLY on a share end (so the next share's first unit starts at its first
		// payload byte) with ranges that begin in a share wholly inside it
		{r.Bytes(1428), r.Bytes(5)},
		{r.Bytes(1428 + 478), r.Bytes(5), r.Bytes(7)},
		{r.Bytes(10), r.Bytes(1417), r.Bytes(5)},
		{r.Bytes(1428), r.Bytes(476), r.Bytes(3)},
		// the first unit of a continuation share starts at in-share offset 256 (reserved bytes 00 00 01 00: a zero LOW
		// byte) and further units start in the same share
		{r.Bytes(694), r.Bytes(50), r.Bytes(60)},
		{r.Bytes(100), r.Bytes(593), r.Bytes(20), r.Bytes(30)},
		{r.Bytes(694 + 478), r.Bytes(5), r.Bytes(5), r.Bytes(300)},
	}
	{
		// 700 one-byte transactions: a unit ends on every share end
		var ones [][]byte
		for k := 0; k < 700; k++ {
			ones = append(ones, []byte{byte(1 + k%250)})
		}
		corpus = append(corpus, ones)
	}
	// Go side only: very long units with the length prefix at a share end; sub-ranges around it
	{
		lists, pos := veryLongUnitLists(r)
		for li, txs := range lists {
			if c.tier == "quick" && li >= 5 && li%3 != int(r.U64()%3) {
				continue
			}
			css := share.NewCompactShareSplitter(share.TxNamespace, 0)
			for _, t := range txs {
				_ = css.WriteTx(t)
			}
			shs, err := css.Export()
			if !c.check(err == nil && len(shs) > 140, "CompactShareSplitter.Export", "error on a very long transaction", map[string]any{"tx_lens": lensOf(txs)}) {
				continue
			}
			n := len(shs)
			_ = pos
			for _, lo := range []int{0, 1, 2, 3, n / 2, n - 2} {
				for _, hi := range []int{lo + 1, lo + 2, lo + 3, n} {
					if lo < 0 || hi > n || hi <= lo {
						continue
					}
					got, err := parseTxsGuarded(c, shs[lo:hi], lo, hi)
					want := expectedSubrange(txs, n, lo, hi)
					same := err == nil && len(got) == len(want)
					if same {
						for j := range want {
							if !bytes.Equal(got[j], want[j]) {
								same = false
							}
						}
					}
					c.check(same, "ParseTxs(sub-range)", "result differs from the transactions that begin in the range and are complete in it",
						map[string]any{"tx_lens": lensOf(txs), "lo": lo, "hi": hi, "shares": n})
				}
			}
			c.count("very_long_unit")
			c.goOnly++
		}
	}
	// Go side only: LONG ranges (more than 64, 128, 256 shares) over sequences in which many transactions cover
	// whole shares, so that shares WITHOUT a unit start (reserved bytes 0) lie all over the sequence and not only
	// in a prefix of the range; ranges from every lo to a handful of far ends
	for v := 0; v < 3; v++ {
		target := (70 + r.Intn(230)) * 478
		var txs [][]byte
		for total := 0; total < target; {
			l := pick(r, []int{1, 5, 30, 200, 477, 478, 600, 1000, 1500, 3000, 7000})
			if r.Bool(30) {
				l = 500 + r.Intn(4000)
			}
			txs = append(txs, r.Bytes(l))
			total += l + 2
		}
		css := share.NewCompactShareSplitter(share.TxNamespace, 0)
		for _, t := range txs {
			_ = css.WriteTx(t)
		}
		shs, err := css.Export()
		if !c.check(err == nil && len(shs) > 66, "CompactShareSplitter.Export", "error on a long sequence", map[string]any{"txs": len(txs)}) {
			continue
		}
		n := len(shs)
		for lo := 0; lo < n; lo++ {
			for _, hi := range []int{lo + 64, lo + 65, lo + 66, lo + 129, lo + 130, lo + 257, n, lo + 1 + r.Intn(n-lo)} {
				if hi > n {
					continue
				}
				got, err := parseTxsGuarded(c, shs[lo:hi], lo, hi)
				want := expectedSubrange(txs, n, lo, hi)
				same := err == nil && len(got) == len(want)
				for j := 0; same && j < len(want); j++ {
					same = bytes.Equal(got[j], want[j])
				}
				c.check(same, "ParseTxs(sub-range)", "result differs from the transactions that begin in the range and are complete in it (long range)",
					map[string]any{"txs": len(txs), "lo": lo, "hi": hi, "shares": n, "got": len(got), "want": len(want)})
			}
		}
		c.count("long_range_many_whole_share_txs")
		c.goOnly++
	}
	for i := 0; i < nseq+len(corpus); i++ {
		ns := share.TxNamespace.Bytes()
		if r.Bool(40) {
			ns = share.PayForBlobNamespace.Bytes()
		}
		txs := compactTxList(c, r, 1+r.Intn(7))
		if i < len(corpus) {
			txs = corpus[i]
		}
		// a long transaction of look-alike bytes spanning >= 3 shares somewhere in the list
		if i >= len(corpus) && r.Bool(70) {
			long := make([]byte, 1000+r.Intn(1500))
			for j := range long {
				long[j] = byte([]int{1, 2, 3, 4, 5, 0x80}[r.Intn(6)])
			}
			pos := r.Intn(len(txs) + 1)
			txs = append(txs[:pos], append([][]byte{long}, txs[pos:]...)...)
		}
		// 3-byte delimiter cut after 1 or 2 bytes by a share end
		if i >= len(corpus) && r.Bool(35) {
			lead := 474 - 1 - r.Intn(2) // unit of (lead) bytes incl. 2-byte prefix => the next 3-byte prefix starts 1-2 bytes before the share end
			if lead > 130 {
				txs = append([][]byte{r.Bytes(lead - 2)}, append([][]byte{r.Bytes(pick(r, []int{16385, 16386, 32769}))}, txs[:min(len(txs), 2)]...)...)
				c.count("prefix_straddle")
			}
		}
		if i >= len(corpus) && r.Intn(2) == 0 && len(txs) > 6 {
			txs = txs[:6]
		}
		css := share.NewCompactShareSplitter(nsOf(ns), 0)
		for k, t := range txs {
			_ = css.WriteTx(t)
			if i%3 == 1 && (k+i)%2 == 0 {
				// an export in the middle of the history (the pending share may hold only the tail of a
				// transaction): what is exported at the end must be the same sequence
				_, _ = css.Export()
			}
		}
		shs, err := css.Export()
		if err != nil || len(shs) == 0 {
			continue
		}
		if i >= len(corpus) && len(shs) > 45 && c.tier == "quick" {
			continue
		}
		c.add("subranges", hx(ns), joinHexList(txs))
		n := len(shs)
		for lo := 0; lo < n; lo++ {
			for hi := lo + 1; hi <= n; hi++ {
				got, err := parseTxsGuarded(c, shs[lo:hi], lo, hi)
				want := expectedSubrange(txs, n, lo, hi)
				same := err == nil && len(got) == len(want)
				if same {
					for j := range want {
						if !bytes.Equal(got[j], want[j]) {
							same = false
						}
					}
				}
				c.check(same, "ParseTxs(sub-range)", "result differs from the transactions that begin in the range and are complete in it",
					map[string]any{"tx_lens": lensOf(txs), "lo": lo, "hi": hi, "shares": n})
				if lo > 0 || hi < n {
					c.mark(fmt.Sprintf("%v[%d,%d)", lensOf(txs), lo, hi))
				}
			}
		}
		c.count(fmt.Sprintf("seq_shares_%d", min(n/5*5, 40)))
	}
}
