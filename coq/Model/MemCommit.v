(* Go slice semantics for the commit / re-write paths (property C17, second part).
   Definitions only; the primitives are those of Model/Mem.v.

   Mem.v models the PARSE side on an explicit heap.  This file adds the paths that
   take a *parsed* blob - whose namespace is the view share.data[:29] of its first
   share, with the whole rest of the share buffer as capacity, and whose signer is
   the view share.data[34:54] - and hand it to code that appends:

     - inclusion.GenerateSubtreeRoots (inclusion/commitment.go): for every share of
       the blob it builds the NMT leaf  namespace || share  and pushes it onto an
       nmt tree.  [leaf_build_mem] is the current three-line construction (fresh
       empty slice, append the namespace, append the share); [leaf_build_mem_legacy]
       is `append(namespace.Bytes(), leaf...)`, which writes the share BEHIND the
       namespace view whenever that view has 512 bytes of spare capacity.
     - nmt (v0.22.2) Push: validateAndExtractNamespace reads ndata[:29] and the first
       29 bytes of the PREVIOUSLY pushed leaf (n.leaves[last][:29]); HashLeaf reads
       the whole leaf and the hash is stored in n.leafHashes; the caller's slice is
       RETAINED (n.leaves = append(n.leaves, namespacedData)), so the retention is
       modelled ([t_leaves]).  Root() works on n.leafHashes only (the visitor that
       is handed n.leaves[i] is the no-op visitor), hence it is a pure function of
       the hashes.  The base hash is an argument [H : bytes -> bytes].
     - share.SparseShareSplitter.Write (share/split_sparse_shares.go) with the share
       builder (share/share_builder.go): the builder's rawShareData is a private
       buffer `make([]byte, 0, 512)`; namespace, signer and data are only read.
       [sparse_write_mem_legacy] is `rawData = append(blob.Signer(), rawData...)`
       instead of builder.WriteSigner.
     - what ParseBlobs returns, as VIEWS ([mblob], [parse_blobs_views_mem]) so that
       "ParseBlobs, then commit to / re-write the parsed blob" is one run on one heap.

   Modelling notes.
   - [mmake c] is make([]byte, 0, c): a fresh zeroed block.  [mstore] is a run of
     indexed stores s[off+i] = v, bounds-checked against len(s).
   - The builder mirrors the pure builder of Model/ShareFmt.v step for step
     (including its truncated subtraction 512 - len in AddData / ZeroPadIfNecessary),
     so that the refinement to [sparse_write] is an equality of outcomes.
   - [t_fed] is a ghost field: the bytes HashLeaf read at each Push. *)
From GS.Model Require Import Base Varint Namespace ShareFmt Blob Sparse Arith Mem Sha256 Nmt.
Open Scope nat_scope.

(* ---- two more primitives ---- *)

(* make([]byte, 0, c) *)
Definition mmake (c : nat) : M slice :=
  fun st =>
    let nb := length (st_heap st) in
    (log_acc AW nb 0 c (mk_st (st_heap st ++ [zeros c]) (st_log st)), Ok (mk_slice nb 0 0 c)).

(* s[off], s[off+1], ... = data : in place, index checked against len(s) *)
Definition mstore (s : slice) (off : nat) (data : bytes) : M unit :=
  fun st =>
    if Nat.leb (off + length data) (sl_len s) then
      (log_acc AW (sl_blk s) (sl_off s + off) (length data)
         (mk_st (hwrite (st_heap st) (sl_blk s) (sl_off s + off) data) (st_log st)), Ok tt)
    else (st, Fault).

(* append(dst, data...) for literal data, in the monad *)
Definition mappend_bytes (g : nat -> nat -> nat) (dst : slice) (data : bytes) : M slice :=
  fun st => let '(st', d) := mappend_lit g dst data st in (st', Ok d).

(* ---- the NMT leaf of GenerateSubtreeRoots ---- *)

(* nsLeaf := make([]byte, 0); nsLeaf = append(nsLeaf, namespace.Bytes()...);
   nsLeaf = append(nsLeaf, leaf...) *)
Definition leaf_build_mem (g : nat -> nat -> nat) (ns leaf : slice) : M slice :=
  mdo l0 <- mappend g nil_slice ns;
  mappend g l0 leaf.

(* nsLeaf := append(namespace.Bytes(), leaf...) *)
Definition leaf_build_mem_legacy (g : nat -> nat -> nat) (ns leaf : slice) : M slice :=
  mappend g ns leaf.

Definition leaf_build_gen (g : nat -> nat -> nat) (fixed : bool) (ns leaf : slice) : M slice :=
  if fixed then leaf_build_mem g ns leaf else leaf_build_mem_legacy g ns leaf.

(* ---- nmt.NamespacedMerkleTree: Push retains the slice ---- *)

(* newest first *)
Record mtree := mk_mtree {
  t_leaves : list slice;      (* n.leaves: the slices handed to Push, retained *)
  t_hashes : list bytes;      (* n.leafHashes *)
  t_fed : list bytes          (* ghost: the bytes HashLeaf read *)
}.
Definition mtree_empty : mtree := mk_mtree [] [] [].

Definition tree_push_mem (H : bytes -> bytes) (t : mtree) (leaf : slice) : M mtree :=
  (* validateAndExtractNamespace *)
  if Nat.ltb (sl_len leaf) nmt_ns_len then mlift Err else
  mdo nidv <- mlift (mslice2 leaf 0 nmt_ns_len);
  mdo nid <- mread nidv;
  mdo ordered <-
    match t_leaves t with
    | [] => mret true
    | prev :: _ =>
      mdo pv <- mlift (mslice2 prev 0 nmt_ns_len);
      mdo p <- mread pv;
      mret (negb (id_less nid p))
    end;
  if negb ordered then mlift Err else
  (* HashLeaf *)
  mdo d <- mread leaf;
  mdo h <- mlift (hash_leaf H d);
  mret (mk_mtree (leaf :: t_leaves t) (h :: t_hashes t) (d :: t_fed t)).

(* Root(): computeRoot over n.leafHashes *)
Definition tree_root (H : bytes -> bytes) (t : mtree) : outcome bytes :=
  nmt_compute_root H (map (@Ok bytes) (rev (t_hashes t))).

(* the inner loop of GenerateSubtreeRoots: `for _, leaf := range set` *)
Fixpoint subtree_leaves_gen (g : nat -> nat -> nat) (fixed : bool) (H : bytes -> bytes)
         (ns : slice) (leaves : list slice) (t : mtree) : M mtree :=
  match leaves with
  | [] => mret t
  | leaf :: tl =>
    mdo nsl <- leaf_build_gen g fixed ns leaf;
    mdo t' <- tree_push_mem H t nsl;
    subtree_leaves_gen g fixed H ns tl t'
  end.

Definition subtree_leaves_mem (g : nat -> nat -> nat) := subtree_leaves_gen g true.
Definition subtree_leaves_mem_legacy (g : nat -> nat -> nat) := subtree_leaves_gen g false.

(* one leaf set: nmt.New; Push every leaf; Root *)
Definition subtree_root_gen (g : nat -> nat -> nat) (fixed : bool) (H : bytes -> bytes)
           (ns : slice) (set : list slice) : M bytes :=
  mdo t <- subtree_leaves_gen g fixed H ns set mtree_empty;
  mlift (tree_root H t).

(* ---- a blob whose fields are slices ---- *)

Record mblob := mk_mblob {
  mb_ns : slice; mb_data : slice; mb_ver : N; mb_signer : option slice
}.

(* the blob value it denotes in a heap *)
Definition mblob_val (h : heap) (b : mblob) : blob :=
  mk_blob (mread_bytes h (mb_ns b)) (mread_bytes h (mb_data b)) (mb_ver b)
          (option_map (mread_bytes h) (mb_signer b)).

(* blob.Signer(): nil for a blob without signer *)
Definition mb_signer_slice (b : mblob) : slice :=
  match mb_signer b with Some s => s | None => nil_slice end.

(* the second loop of parseSparseShares, keeping the slices NewBlob stores:
   namespace = share.data[:29] (capacity: the rest of the share's buffer),
   signer = share.data[34:54], data = the private accumulation buffer [:sequenceLen] *)
Definition finish_mseq_view (q : mseq) : M mblob :=
  if N.ltb (N.of_nat (sl_len (m_data q))) (m_len q) then mlift Err else
  mdo d <- mlift (mslice2 (m_data q) 0 (N.to_nat (m_len q)));
  mdo nsb <- mread (m_ns q);
  mdo db <- mread d;
  mdo sgb <- mread_opt (m_signer q);
  mdo _ <- mlift (new_blob nsb db (m_ver q) sgb);
  mret (mk_mblob (m_ns q) d (m_ver q) (m_signer q)).

(* share.ParseBlobs, returning the blobs as they sit in memory *)
Definition parse_blobs_views_mem (g : nat -> nat -> nat) (views : list slice) : M (list mblob) :=
  mdo seqs <- parse_sparse_loop_mem g true views [];
  mmap finish_mseq_view (rev seqs).

(* ---- the share builder on a private buffer (share/share_builder.go) ---- *)

Record mbuilder := mk_mbld {
  mbd_ns : slice; mbd_ver : N; mbd_first : bool; mbd_compact : bool; mbd_raw : slice
}.

Definition mbd_with_raw (b : mbuilder) (raw : slice) : mbuilder :=
  mk_mbld (mbd_ns b) (mbd_ver b) (mbd_first b) (mbd_compact b) raw.

(* newBuilder: isCompactShare(ns) compares the namespace bytes; prepareSparseShare /
   prepareCompactShare append namespace, info byte and placeholders to make([]byte, 0, 512) *)
Definition new_builder_mem (g : nat -> nat -> nat) (ns : slice) (ver : N) (first : bool) : M mbuilder :=
  mdo nsb <- mread ns;
  let compact := is_compact_ns nsb in
  mdo sd <- mmake share_size;
  mdo info <- mlift (new_info_byte ver first);
  mdo sd1 <- mappend g sd ns;
  mdo sd2 <- mappend_bytes g sd1 [info];
  mdo sd3 <- (if first then mappend_bytes g sd2 (zeros 4) else mret sd2);
  mdo sd4 <- (if compact then mappend_bytes g sd3 (zeros 4) else mret sd3);
  mret (mk_mbld ns ver first compact sd4).

(* WriteSequenceLen: four indexed stores at rawShareData[30..33] *)
Definition write_seq_len_mem (b : mbuilder) (n : N) : M unit :=
  if negb (mbd_first b) then mlift Err else
  mstore (mbd_raw b) 30 (be32 (u32 n)).

(* WriteSigner *)
Definition write_signer_mem (g : nat -> nat -> nat) (b : mbuilder) (signer : slice) : M mbuilder :=
  if negb (mbd_first b) || negb (N.eqb (mbd_ver b) 1) then mret b
  else mdo r <- mappend g (mbd_raw b) signer; mret (mbd_with_raw b r).

(* AddData: the leftover is a sub-slice of the data *)
Definition add_data_mem (g : nat -> nat -> nat) (b : mbuilder) (data : slice)
  : M (mbuilder * option slice) :=
  let left := share_size - sl_len (mbd_raw b) in
  if Nat.leb (sl_len data) left then
    mdo r <- mappend g (mbd_raw b) data; mret (mbd_with_raw b r, None)
  else
    mdo chunk <- mlift (mslice2 data 0 left);
    mdo r <- mappend g (mbd_raw b) chunk;
    mdo rest <- mlift (mslice2 data left (sl_len data));
    mret (mbd_with_raw b r, Some rest).

(* ZeroPadIfNecessary *)
Definition zero_pad_mem (g : nat -> nat -> nat) (b : mbuilder) : M mbuilder :=
  mdo r <- mappend_bytes g (mbd_raw b) (zeros (share_size - sl_len (mbd_raw b)));
  mret (mbd_with_raw b r).

(* Build: NewShare keeps the slice *)
Definition build_mem (b : mbuilder) : M slice :=
  if Nat.eqb (sl_len (mbd_raw b)) share_size then mret (mbd_raw b) else mlift Err.

(* ---- SparseShareSplitter.Write ---- *)

Fixpoint sparse_write_loop_mem (g : nat -> nat -> nat) (fuel : nat) (ns : slice) (ver : N)
         (b : mbuilder) (data : slice) (acc : list slice) : M (list slice) :=
  match fuel with
  | O => mlift Err
  | S f =>
    mdo bl <- add_data_mem g b data;
    mdo b2 <- match snd bl with None => zero_pad_mem g (fst bl) | Some _ => mret (fst bl) end;
    mdo sh <- build_mem b2;
    match snd bl with
    | None => mret (acc ++ [sh])
    | Some rest =>
      mdo nb <- new_builder_mem g ns ver false;
      sparse_write_loop_mem g f ns ver nb rest (acc ++ [sh])
    end
  end.

(* Write(blob): the shares it appends to sss.shares (slices of private buffers) *)
Definition sparse_write_mem (g : nat -> nat -> nat) (bl : mblob) : M (list slice) :=
  if negb (N.eqb (mb_ver bl) 0 || N.eqb (mb_ver bl) 1) then mlift Err else
  mdo b <- new_builder_mem g (mb_ns bl) (mb_ver bl) true;
  mdo _ <- write_seq_len_mem b (N.of_nat (sl_len (mb_data bl)));
  mdo b2 <- (if N.eqb (mb_ver bl) 1 then write_signer_mem g b (mb_signer_slice bl) else mret b);
  sparse_write_loop_mem g (S (sl_len (mb_data bl))) (mb_ns bl) (mb_ver bl) b2 (mb_data bl) [].

(* the variant `rawData = append(blob.Signer(), rawData...)` (no WriteSigner): the
   signer is chunked together with the data *)
Definition sparse_write_mem_legacy (g : nat -> nat -> nat) (bl : mblob) : M (list slice) :=
  if negb (N.eqb (mb_ver bl) 0 || N.eqb (mb_ver bl) 1) then mlift Err else
  mdo b <- new_builder_mem g (mb_ns bl) (mb_ver bl) true;
  mdo _ <- write_seq_len_mem b (N.of_nat (sl_len (mb_data bl)));
  mdo raw <- (if N.eqb (mb_ver bl) 1 then mappend g (mb_signer_slice bl) (mb_data bl)
              else mret (mb_data bl));
  sparse_write_loop_mem g (S (sl_len raw)) (mb_ns bl) (mb_ver bl) b raw [].

Definition sparse_write_gen (g : nat -> nat -> nat) (fixed : bool) (bl : mblob) : M (list slice) :=
  if fixed then sparse_write_mem g bl else sparse_write_mem_legacy g bl.

(* ---- GenerateSubtreeRoots ---- *)

(* leafSets[i] = ToBytes(shares[cursor : cursor+treeSize]) : the shares' own slices *)
Fixpoint leaf_sets_mem (shares : list slice) (cursor : N) (sizes : list N)
  : outcome (list (list slice)) :=
  match sizes with
  | [] => Ok []
  | m :: tl =>
    do set <- slice_list cursor (cursor + m) shares;
    do rest <- leaf_sets_mem shares (cursor + m)%N tl;
    Ok (set :: rest)
  end.

(* [fixed_w] selects the writer, [fixed_l] the leaf construction *)
Definition subtree_roots_gen (g : nat -> nat -> nat) (fixed_w fixed_l : bool) (H : bytes -> bytes)
           (bl : mblob) (thr : N) : M (list bytes) :=
  mdo shares <- sparse_write_gen g fixed_w bl;
  if N.eqb thr 0 then mlift Fault else
  let n := lenN shares in
  let sizes := mmr_sizes n (subtree_width n thr) in
  mdo sets <- mlift (leaf_sets_mem shares 0 sizes);
  mmap (subtree_root_gen g fixed_l H (mb_ns bl)) sets.

(* inclusion.GenerateSubtreeRoots as it is now *)
Definition subtree_roots_mem (g : nat -> nat -> nat) := subtree_roots_gen g true true.
(* with `nsLeaf := append(namespace.Bytes(), leaf...)` *)
Definition subtree_roots_mem_legacy (g : nat -> nat -> nat) := subtree_roots_gen g true false.

(* ---- the compositions: ParseBlobs, then commit to / re-write every parsed blob ---- *)

Definition parse_then_commit_gen (g : nat -> nat -> nat) (fixed_l : bool) (H : bytes -> bytes)
           (thr : N) (views : list slice) : M (list (list bytes)) :=
  mdo blobs <- parse_blobs_views_mem g views;
  mmap (fun b => subtree_roots_gen g true fixed_l H b thr) blobs.

Definition parse_then_commit_mem (g : nat -> nat -> nat) := parse_then_commit_gen g true.
Definition parse_then_commit_mem_legacy (g : nat -> nat -> nat) := parse_then_commit_gen g false.

Definition parse_then_write_gen (g : nat -> nat -> nat) (fixed_w : bool) (views : list slice)
  : M (list (list slice)) :=
  mdo blobs <- parse_blobs_views_mem g views;
  mmap (sparse_write_gen g fixed_w) blobs.

Definition parse_then_write_mem (g : nat -> nat -> nat) := parse_then_write_gen g true.
Definition parse_then_write_mem_legacy (g : nat -> nat -> nat) := parse_then_write_gen g false.

(* ---- observation helpers (runner) ---- *)

(* ParseBlobs then GenerateSubtreeRoots on views of one arena:
   (first modified arena offset, roots per blob) *)
Definition mem_commit_run (fixed_l : bool) (H : bytes -> bytes) (thr : N) (arena : bytes)
           (views : list (nat * nat)) : option nat * outcome (list (list bytes)) :=
  let '(st, res) := parse_then_commit_gen grow_double fixed_l H thr (map arena_view views)
                      (mk_st [arena] []) in
  (first_diff 0 arena (hblock (st_heap st) 0), res).

(* ParseBlobs then SparseShareSplitter.Write on views of one arena:
   (first modified arena offset, the bytes of the shares written per blob) *)
Definition mem_sparse_write_run (fixed_w : bool) (arena : bytes) (views : list (nat * nat))
  : option nat * outcome (list (list bytes)) :=
  let '(st, res) := parse_then_write_gen grow_double fixed_w (map arena_view views)
                      (mk_st [arena] []) in
  (first_diff 0 arena (hblock (st_heap st) 0),
   match res with
   | Ok l => Ok (map (map (mread_bytes (st_heap st))) l)
   | Err => Err
   | Fault => Fault
   end).
