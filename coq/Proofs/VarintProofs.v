(* Varints: decoding inverts encoding; shape of encodings; parse_delimiter. *)
From Coq Require Import List Arith NArith ZArith Lia Bool.
From Coq Require Import ZifyN ZifyNat ZifyBool.
From GS.Model Require Import Base Varint.
From GS.Proofs Require Import BaseLemmas.
Import ListNotations.

Ltac Zify.zify_post_hook ::= Z.div_mod_to_equations.
Open Scope N_scope.

Lemma pow2_7 k : 2 ^ (7 + k) = 128 * 2 ^ k.
Proof. rewrite N.pow_add_r. reflexivity. Qed.

(* length of an encoding: between 1 and fuel bytes *)
Lemma put_uvarint_fuel_length : forall fuel n, (0 < fuel)%nat ->
  (1 <= length (put_uvarint_fuel fuel n) <= fuel)%nat.
Proof.
  induction fuel as [|f IH]; intros n Hf; [lia|].
  cbn [put_uvarint_fuel]. destruct (n <? 128); [cbn; lia|].
  cbn [length]. destruct f as [|f]; [cbn; lia|]. specialize (IH (n / 128) ltac:(lia)). lia.
Qed.

Lemma put_uvarint_length n : (1 <= length (put_uvarint n) <= 10)%nat.
Proof. apply put_uvarint_fuel_length. lia. Qed.

(* decoding an encoding followed by anything *)
Lemma uvarint_go_put : forall fuel i n rest shift acc,
  (0 < fuel)%nat -> (i + fuel = 10)%nat -> n < 2 ^ (64 - 7 * N.of_nat i) ->
  uvarint_go i (put_uvarint_fuel fuel n ++ rest) shift acc =
  UvOk (acc + n * 2 ^ shift) (i + length (put_uvarint_fuel fuel n)).
Proof.
  induction fuel as [|f IH]; intros i n rest shift acc Hf Hi Hn; [lia|].
  cbn [put_uvarint_fuel]. destruct (n <? 128) eqn:E.
  - cbn [app uvarint_go length]. replace (Nat.eqb i 10) with false by lia.
    rewrite b2n_n2b by lia. rewrite E.
    destruct (Nat.eqb i 9) eqn:E9.
    + apply Nat.eqb_eq in E9. subst i. replace (64 - 7 * N.of_nat 9) with 1 in Hn by lia.
      change (2 ^ 1) with 2 in Hn. replace (1 <? n) with false by lia. cbn [andb]. reflexivity.
    + cbn [andb]. f_equal. lia.
  - cbn [app uvarint_go length]. replace (Nat.eqb i 10) with false by lia.
    rewrite b2n_n2b by lia.
    replace (128 + n mod 128 <? 128) with false by lia.
    (* not the last byte: so i < 9, otherwise n < 2 *)
    assert (Hi9 : (i < 9)%nat).
    { destruct (Nat.eq_dec i 9) as [->|]; [|lia].
      replace (64 - 7 * N.of_nat 9) with 1 in Hn by lia. change (2 ^ 1) with 2 in Hn. lia. }
    rewrite IH; [| lia | lia |].
    + f_equal; [|lia].
      replace (128 + n mod 128 - 128) with (n mod 128) by lia.
      replace (shift + 7) with (7 + shift) by lia. rewrite pow2_7.
      pose proof (N.div_mod n 128 ltac:(lia)) as Hdm.
      set (q := n / 128) in *. set (r := n mod 128) in *. clearbody q r.
      rewrite Hdm. ring.
    + replace (64 - 7 * N.of_nat i) with (7 + (64 - 7 * N.of_nat (S i))) in Hn by lia.
      rewrite pow2_7 in Hn. lia.
Qed.

Theorem uvarint_put n rest : n < 2 ^ 64 ->
  uvarint (put_uvarint n ++ rest) = UvOk n (length (put_uvarint n)).
Proof.
  intros H. unfold uvarint, put_uvarint. rewrite uvarint_go_put; [|lia|lia|exact H].
  f_equal. lia.
Qed.

(* truncating to ten bytes does not matter: an encoding has at most ten *)
Lemma firstn_10_put n rest : exists tail, firstn 10 (put_uvarint n ++ rest) = put_uvarint n ++ tail.
Proof.
  pose proof (put_uvarint_length n) as Hl.
  exists (firstn (10 - length (put_uvarint n)) rest).
  rewrite firstn_app. rewrite firstn_all2 by lia. reflexivity.
Qed.

Theorem read_uvarint_put n rest : n < 2 ^ 64 ->
  read_uvarint (put_uvarint n ++ rest) = Ok (n, rest).
Proof.
  intros H. unfold read_uvarint. destruct (firstn_10_put n rest) as (tail & ->).
  rewrite uvarint_put by exact H. unfold u64.
  rewrite N.mod_small by (change 18446744073709551616 with (2 ^ 64); exact H).
  rewrite skipn_app, Nat.sub_diag, skipn_O. rewrite skipn_all2 by lia. reflexivity.
Qed.

(* share.parseDelimiter on a complete delimiter *)
Theorem parse_delimiter_put n rest : n < 2 ^ 64 ->
  parse_delimiter (put_uvarint n ++ rest) = DelimOk rest n.
Proof.
  intros H. unfold parse_delimiter.
  pose proof (put_uvarint_length n) as Hl.
  destruct (put_uvarint n ++ rest) as [|x l] eqn:E.
  { apply (f_equal (@length _)) in E. rewrite app_length in E. cbn [length] in E. lia. }
  rewrite <- E. destruct (firstn_10_put n rest) as (tail & ->).
  rewrite uvarint_put by exact H. unfold u64.
  rewrite N.mod_small by (change 18446744073709551616 with (2 ^ 64); exact H).
  replace (Nat.leb (length (put_uvarint n)) (length (put_uvarint n ++ rest))) with true
    by (rewrite app_length; lia).
  rewrite skipn_app, Nat.sub_diag, skipn_O. rewrite skipn_all2 by lia. reflexivity.
Qed.

(* a zero byte is the delimiter of the empty unit *)
Lemma parse_delimiter_zero rest : parse_delimiter (Byte.x00 :: rest) = DelimOk rest 0.
Proof. exact (parse_delimiter_put 0 rest ltac:(lia)). Qed.

(* ---------- parseDelimiter never slices out of range (C16) ---------- *)
Lemma uvarint_go_consumed : forall buf i shift acc v k,
  uvarint_go i buf shift acc = UvOk v k ->
  (i < k <= i + length buf)%nat /\
  exists d, v = acc + d * 2 ^ shift /\ d < 2 ^ (7 * N.of_nat (k - i)).
Proof.
  induction buf as [|b buf IH]; intros i shift acc v k H; [discriminate|].
  cbn [uvarint_go] in H. destruct (Nat.eqb i 10); [discriminate|].
  destruct (b2n b <? 128) eqn:E.
  - destruct (Nat.eqb i 9 && (1 <? b2n b)); [discriminate|]. inversion H; subst. cbn [length]. split; [lia|].
    exists (b2n b). split; [reflexivity|].
    replace (S i - i)%nat with 1%nat by lia. change (2 ^ (7 * N.of_nat 1)) with 128. lia.
  - apply IH in H. destruct H as [H1 (d & Hv & Hd)]. cbn [length]. split; [lia|].
    pose proof (b2n_lt b).
    exists (b2n b - 128 + 128 * d). split.
    + rewrite Hv. replace (shift + 7) with (7 + shift) by lia. rewrite pow2_7. ring.
    + replace (k - i)%nat with (S (k - S i)) by lia.
      replace (7 * N.of_nat (S (k - S i))) with (7 + 7 * N.of_nat (k - S i)) by lia.
      rewrite pow2_7. lia.
Qed.

(* the canonical encoding of a decoded value is never longer than what was consumed *)
Lemma put_uvarint_fuel_short : forall fuel v k, (0 < k <= fuel)%nat -> v < 2 ^ (7 * N.of_nat k) ->
  (length (put_uvarint_fuel fuel v) <= k)%nat.
Proof.
  induction fuel as [|f IH]; intros v k Hk Hv; [lia|].
  cbn [put_uvarint_fuel]. destruct (v <? 128) eqn:E; [cbn; lia|]. cbn [length].
  destruct k as [|k]; [lia|]. destruct k as [|k].
  - change (7 * N.of_nat 1) with 7 in Hv. change (2 ^ 7) with 128 in Hv. lia.
  - specialize (IH (v / 128) (S k) ltac:(lia)).
    replace (7 * N.of_nat (S (S k))) with (7 + 7 * N.of_nat (S k)) in Hv by lia. rewrite pow2_7 in Hv.
    assert (v / 128 < 2 ^ (7 * N.of_nat (S k))) by (apply N.div_lt_upper_bound; lia).
    specialize (IH H). lia.
Qed.

Theorem parse_delimiter_no_fault input : parse_delimiter input <> DelimFault.
Proof.
  unfold parse_delimiter. destruct input as [|x l]; [discriminate|].
  set (inp := x :: l).
  destruct (uvarint (firstn 10 inp)) as [v k| |] eqn:E; [|destruct (Nat.ltb _ _); discriminate|discriminate].
  unfold uvarint in E. apply uvarint_go_consumed in E. destruct E as [[Hk1 Hk2] (d & Hv & Hd)].
  rewrite firstn_length in Hk2. cbn [Nat.add] in *.
  assert (Hlen : (length (put_uvarint (u64 v)) <= k)%nat).
  { unfold put_uvarint. apply put_uvarint_fuel_short; [lia|].
    unfold u64. replace (k - 0)%nat with k in Hd by lia.
    rewrite N.pow_0_r, N.mul_1_r, N.add_0_l in Hv. subst v.
    pose proof (N.mod_le d 18446744073709551616 ltac:(lia)). lia. }
  replace (Nat.leb (length (put_uvarint (u64 v))) (length inp)) with true by lia.
  discriminate.
Qed.
