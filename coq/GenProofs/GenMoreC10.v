(* info byte functions of the regenerated program against Model/ShareFmt.v, Model/Helpers.v *)
From Coq Require Import Lia ZArith NArith List String ZifyN ZifyNat ZifyBool.
From GS.Model Require Import Base Varint ShareFmt Counter Arith Builder Helpers GoLite.
From GS.Proofs Require Import BaseLemmas VarintProofs HelpersProofs GoLiteLemmas.
From GS.Gen Require Import Generated.
From GS.GenProofs Require Import GenLink.
Open Scope string_scope. Open Scope Z_scope.
From GS.GenProofs Require Import GenMoreBase.

(* ---------- share.NewInfoByte ---------- *)

Lemma new_info_byte_gen_ok fuel v b : (1 <= fuel)%nat -> 0 <= v <= 127 -> b = 0 \/ b = 1 ->
  gen_call fuel "share.NewInfoByte" I64 [v; b] = Val [2 * v + b; 0].
Proof.
  intros Hf Hv Hb. destruct fuel as [|fuel]; [lia|].
  unfold gen_call. rewrite callf_S. cbn. unfold eval_cmp.
  destruct (127 <? v) eqn:E; [lia|]. cbn; kz.
  change (2 ^ 1) with 2.
  rewrite (wrap_U8_small (v * 2)) by lia.
  destruct Hb as [-> | ->]; cbn; kz.
  - rewrite wrap_U8_small by lia. f_equal. f_equal. lia.
  - rewrite (wrap_U8_small (v * 2 + 1)) by lia. rewrite wrap_U8_small by lia.
    f_equal. f_equal. lia.
Qed.

(* above MaxShareVersion: (0, error), whatever the flag *)
Lemma new_info_byte_gen_err fuel v b : (1 <= fuel)%nat -> 127 < v ->
  gen_call fuel "share.NewInfoByte" I64 [v; b] = Val [0; 1].
Proof.
  intros Hf Hv. destruct fuel as [|fuel]; [lia|].
  unfold gen_call. rewrite callf_S. cbn. unfold eval_cmp.
  destruct (127 <? v) eqn:E; [|lia]. cbn; kz. reflexivity.
Qed.

Lemma new_info_byte_gen fuel v b : (1 <= fuel)%nat -> 0 <= v < 256 -> b = 0 \/ b = 1 ->
  gen_call fuel "share.NewInfoByte" I64 [v; b] =
  match new_info_byte (Z.to_N v) (b =? 1) with
  | Ok i => Val [Z.of_N (b2n i); 0]
  | _ => Val [0; 1]
  end.
Proof.
  intros Hf Hv Hb. unfold new_info_byte, max_share_version.
  destruct (N.ltb_spec 127 (Z.to_N v)) as [l|l].
  - apply new_info_byte_gen_err; lia.
  - rewrite new_info_byte_gen_ok by lia.
    destruct Hb as [-> | ->].
    + change (0 =? 1) with false. rewrite b2n_n2b by lia. f_equal. f_equal. lia.
    + change (1 =? 1) with true. rewrite b2n_n2b by lia. f_equal. f_equal. lia.
Qed.

(* ---------- share.InfoByte.Version / IsSequenceStart ---------- *)

Lemma odd_to_N i : 0 <= i -> N.odd (Z.to_N i) = Z.odd i.
Proof. intros H. destruct i as [|p|p]; [reflexivity|destruct p; reflexivity|lia]. Qed.

Lemma info_version_Z i : 0 <= i < 256 -> Z.of_N (info_version (n2b (Z.to_N i))) = i / 2.
Proof.
  intros H. unfold info_version. rewrite b2n_n2b by lia.
  rewrite N2Z.inj_div, Z2N.id by lia. reflexivity.
Qed.

Lemma info_start_Z i : 0 <= i < 256 -> info_start (n2b (Z.to_N i)) = (i mod 2 =? 1).
Proof.
  intros H. unfold info_start. rewrite b2n_n2b by lia. rewrite odd_to_N by lia.
  rewrite Zmod_odd. destruct (Z.odd i); reflexivity.
Qed.

Lemma info_byte_version_gen fuel i : (1 <= fuel)%nat -> 0 <= i < 256 ->
  gen_call fuel "share.InfoByte.Version" I64 [i] = Val [i / 2].
Proof.
  intros Hf Hi. destruct fuel as [|fuel]; [lia|].
  unfold gen_call. rewrite callf_S. cbn; kz.
  rewrite (wrap_U8_small i) by lia.
  rewrite Z.shiftr_div_pow2 by lia. change (2 ^ 1) with 2.
  assert (0 <= i / 2 < 128) by (split; [apply Z.div_pos; lia | apply Z.div_lt_upper_bound; lia]).
  rewrite wrap_U8_small by lia. reflexivity.
Qed.

Lemma info_byte_is_sequence_start_gen fuel i : (1 <= fuel)%nat -> 0 <= i < 256 ->
  gen_call fuel "share.InfoByte.IsSequenceStart" I64 [i] = Val [b2z (i mod 2 =? 1)].
Proof.
  intros Hf Hi. destruct fuel as [|fuel]; [lia|].
  unfold gen_call. rewrite callf_S. cbn; kz.
  rewrite (wrap_U64_small i) by lia.
  rewrite rem_nonneg by lia.
  pose proof (Z.mod_pos_bound i 2 ltac:(lia)).
  rewrite wrap_U64_small by lia. reflexivity.
Qed.

(* ---------- share.ParseInfoByte ---------- *)

Lemma parse_info_byte_gen fuel i : (2 <= fuel)%nat -> 0 <= i < 256 ->
  gen_call fuel "share.ParseInfoByte" I64 [i] = Val [i; 0].
Proof.
  intros Hf Hi. destruct fuel as [|fuel]; [lia|].
  unfold gen_call. rewrite callf_S. cbn; kz.
  rewrite rem_nonneg by lia.
  pose proof (Z.mod_pos_bound i 2 ltac:(lia)) as Hm.
  rewrite (wrap_U8_small (i mod 2)) by lia.
  rewrite Z.shiftr_div_pow2 by lia. change (2 ^ 1) with 2.
  assert (Hd: 0 <= i / 2 < 128) by (split; [apply Z.div_pos; lia | apply Z.div_lt_upper_bound; lia]).
  rewrite (wrap_U8_small (i / 2)) by lia.
  pose proof (Z.div_mod i 2 ltac:(lia)) as Hdm.
  fold (gen_call fuel "share.NewInfoByte" I64 [i / 2; eval_cmp CEq (i mod 2) 1]).
  unfold eval_cmp.
  rewrite new_info_byte_gen_ok; [| lia | lia | destruct (i mod 2 =? 1); auto].
  cbn. f_equal. f_equal.
  destruct (Z.eqb_spec (i mod 2) 1); cbn; lia.
Qed.

(* the same three facts with the model's functions on the right-hand side; [byte_Z i] is the Go
   byte as the integer GoLite passes around *)
Definition byte_Z (i : byte) : Z := Z.of_N (b2n i).

Lemma byte_Z_range i : 0 <= byte_Z i < 256.
Proof. unfold byte_Z. pose proof (b2n_lt i). lia. Qed.

Lemma byte_Z_n2b i : n2b (Z.to_N (byte_Z i)) = i.
Proof. unfold byte_Z. rewrite N2Z.id. apply n2b_b2n. Qed.

Lemma info_byte_version_model fuel i : (1 <= fuel)%nat -> 0 <= i < 256 ->
  gen_call fuel "share.InfoByte.Version" I64 [i] = Val [Z.of_N (info_version (n2b (Z.to_N i)))].
Proof. intros Hf Hi. rewrite info_version_Z by exact Hi. apply info_byte_version_gen; assumption. Qed.

Lemma info_byte_is_sequence_start_model fuel i : (1 <= fuel)%nat -> 0 <= i < 256 ->
  gen_call fuel "share.InfoByte.IsSequenceStart" I64 [i] = Val [b2z (info_start (n2b (Z.to_N i)))].
Proof. intros Hf Hi. rewrite info_start_Z by exact Hi. apply info_byte_is_sequence_start_gen; assumption. Qed.

Lemma info_byte_accessors_byte fuel (i : byte) : (1 <= fuel)%nat ->
  gen_call fuel "share.InfoByte.Version" I64 [byte_Z i] = Val [Z.of_N (info_version i)] /\
  gen_call fuel "share.InfoByte.IsSequenceStart" I64 [byte_Z i] = Val [b2z (info_start i)].
Proof.
  intros Hf. pose proof (byte_Z_range i) as Hr.
  rewrite info_byte_version_model, info_byte_is_sequence_start_model by assumption.
  rewrite byte_Z_n2b. split; reflexivity.
Qed.

Lemma parse_info_byte_model fuel i : (2 <= fuel)%nat -> 0 <= i < 256 ->
  gen_call fuel "share.ParseInfoByte" I64 [i] =
  match parse_info_byte (n2b (Z.to_N i)) with
  | Ok j => Val [Z.of_N (b2n j); 0]
  | _ => Val [0; 1]
  end.
Proof.
  intros Hf Hi. rewrite parse_info_byte_total, b2n_n2b, Z2N.id by lia.
  apply parse_info_byte_gen; assumption.
Qed.

Lemma parse_info_byte_byte fuel (i : byte) : (2 <= fuel)%nat ->
  gen_call fuel "share.ParseInfoByte" I64 [byte_Z i] = Val [byte_Z i; 0] /\
  parse_info_byte i = Ok i.
Proof.
  intros Hf. split; [apply parse_info_byte_gen; [exact Hf|apply byte_Z_range]|apply parse_info_byte_total].
Qed.

(* ---------- bundles (the statements of GenProofs/C10_gen.v) ---------- *)

Lemma new_info_byte_gen_cases fuel v b : (1 <= fuel)%nat ->
  (0 <= v <= 127 -> b = 0 \/ b = 1 -> gen_call fuel "share.NewInfoByte" I64 [v; b] = Val [2 * v + b; 0]) /\
  (127 < v -> gen_call fuel "share.NewInfoByte" I64 [v; b] = Val [0; 1]).
Proof.
  intros Hf. split; [apply new_info_byte_gen_ok|apply new_info_byte_gen_err]; exact Hf.
Qed.

Lemma info_byte_version_full fuel i : (1 <= fuel)%nat -> 0 <= i < 256 ->
  gen_call fuel "share.InfoByte.Version" I64 [i] = Val [Z.of_N (info_version (n2b (Z.to_N i)))] /\
  Z.of_N (info_version (n2b (Z.to_N i))) = i / 2.
Proof.
  intros Hf Hi. split; [apply info_byte_version_model; assumption|apply info_version_Z; exact Hi].
Qed.

Lemma info_byte_is_sequence_start_full fuel i : (1 <= fuel)%nat -> 0 <= i < 256 ->
  gen_call fuel "share.InfoByte.IsSequenceStart" I64 [i] = Val [b2z (info_start (n2b (Z.to_N i)))] /\
  info_start (n2b (Z.to_N i)) = (i mod 2 =? 1).
Proof.
  intros Hf Hi. split; [apply info_byte_is_sequence_start_model; assumption|apply info_start_Z; exact Hi].
Qed.

Lemma parse_info_byte_full fuel i : (2 <= fuel)%nat -> 0 <= i < 256 ->
  gen_call fuel "share.ParseInfoByte" I64 [i] = Val [i; 0] /\
  gen_call fuel "share.ParseInfoByte" I64 [i] =
    match parse_info_byte (n2b (Z.to_N i)) with
    | Ok j => Val [Z.of_N (b2n j); 0]
    | _ => Val [0; 1]
    end /\
  parse_info_byte (n2b (Z.to_N i)) = Ok (n2b (Z.to_N i)).
Proof.
  intros Hf Hi. split; [apply parse_info_byte_gen; assumption|].
  split; [apply parse_info_byte_model; assumption|apply parse_info_byte_total].
Qed.

