(* encoding/binary varints as used by go-square, and share.parseDelimiter *)
From GS.Model Require Import Base.
Open Scope N_scope.

(* binary.PutUvarint on a uint64 *)
Fixpoint put_uvarint_fuel (fuel : nat) (n : N) : bytes :=
  match fuel with
  | O => []
  | S f => if n <? 128 then [n2b n]
           else n2b (128 + n mod 128) :: put_uvarint_fuel f (n / 128)
  end.
Definition put_uvarint (n : N) : bytes := put_uvarint_fuel 10 n.
Definition delim_len (n : N) : N := lenN (put_uvarint n).

(* Result of scanning a varint at the head of a buffer. *)
Inductive uv_result :=
| UvOk (v : N) (consumed : nat)   (* value, number of bytes *)
| UvShort                          (* buffer ended inside the varint (binary.Uvarint: n == 0) *)
| UvOverflow.                      (* more than 64 bits *)

(* binary.Uvarint(buf) *)
Fixpoint uvarint_go (i : nat) (buf : bytes) (shift acc : N) : uv_result :=
  match buf with
  | [] => UvShort
  | b :: tl =>
    if Nat.eqb i 10 then UvOverflow else
    let v := b2n b in
    if v <? 128 then
      (if Nat.eqb i 9 && (1 <? v) then UvOverflow
       else UvOk (acc + v * 2 ^ shift) (S i))
    else uvarint_go (S i) tl (shift + 7) (acc + (v - 128) * 2 ^ shift)
  end.
Definition uvarint (buf : bytes) : uv_result := uvarint_go 0 buf 0 0.

(* binary.ReadUvarint on a bytes.Buffer: like Uvarint, but running out of input
   is an error (io.EOF / io.ErrUnexpectedEOF) and the value is a uint64. *)
Definition read_uvarint (buf : bytes) : outcome (N * bytes) :=
  match uvarint (firstn 10 buf) with
  | UvOk v n => Ok (u64 v, skipn n buf)
  | UvShort => Err  (* fewer than 10 bytes and no terminator: EOF; 10 continuation bytes: overflow *)
  | UvOverflow => Err
  end.

(* share.parseDelimiter (with the repair of defect D4).  The third result
   [Incomplete] is the sentinel error errIncompleteDelimiter. *)
Inductive delim_result :=
| DelimOk (rest : bytes) (unit_len : N)
| DelimIncomplete
| DelimErr
| DelimFault.

Definition parse_delimiter (input : bytes) : delim_result :=
  match input with
  | [] => DelimOk input 0
  | _ =>
    let head := firstn 10 input in
    match uvarint head with
    | UvShort =>
      if Nat.ltb (length head) 10 then DelimIncomplete else DelimErr (* ten continuation bytes: ReadUvarint overflows *)
    | UvOverflow => DelimErr
    | UvOk v _ =>
      (* zero padding does not change a complete varint; ReadUvarint returns it *)
      let data_len := u64 v in
      let n := length (put_uvarint data_len) in
      if Nat.leb n (length input) then DelimOk (skipn n input) data_len else DelimFault
    end
  end.

(* share.MarshalDelimitedTx *)
Definition marshal_delimited (tx : bytes) : bytes := put_uvarint (lenN tx) ++ tx.
