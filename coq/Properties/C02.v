(* C02 - Constructing then deconstructing a square returns the original transactions.
   Statements only; proofs in Proofs/DeconstructProofs.v.

   The square is the rule-based layout of Spec/LayoutSpec.v (layout / layout_construct),
   which the runner compares with the Go code on every case and which C07 relates to
   the model of Construct; deconstruct is the model of square.go Deconstruct
   (Model/Square.v, with the repairs of defects D1/D2: signer bytes counted once, in the
   first share only, and included in the share count).

   Conditions: threshold >= 1; ordinary transactions non-empty; every blob transaction
   has at least one blob; blobs as NewBlob accepts them (share version 0, or 1 with a
   20 byte signer) in namespaces ValidateForBlob accepts (lay_btx_ok); the application's
   PFB decoder reports the data sizes of the transaction's blobs; worst-case estimate
   below 2^21 shares (holds for every maximum side up to 1024).  The inner transaction
   of a blob transaction is arbitrary.  blob_tx_bytes t is the canonical encoding, i.e.
   the value of marshal_blob_tx on the parts of t (C02_canonical_encoding). *)
From Coq Require Import List NArith ZArith.
From GS.Model Require Import Base Varint Namespace ShareFmt Blob Sparse Compact Counter Arith Proto Builder Square.
From GS.Spec Require Import ShareSpec CompactSpec LayoutSpec.
From GS.Proofs Require Import SparseProofs ProtoProofs LayoutShapeProofs DeconstructProofs.
Import ListNotations.
Open Scope N_scope.

(* the encoding Deconstruct rebuilds is MarshalBlobTx of the inner transaction and the blobs *)
Theorem C02_canonical_encoding : forall tx blobs, blobs <> [] -> Forall blob_ok blobs ->
  marshal_blob_tx tx blobs = Ok (blob_tx_bytes (mk_btx tx blobs)).
Proof. exact marshal_blob_tx_bytes. Qed.
Print Assumptions C02_canonical_encoding.

(* the round trip on the layout: ordinary transactions, then the blob transactions *)
Theorem C02_deconstruct_layout : forall dec thr normals btxs,
  1 <= thr -> Forall (fun t => t <> []) normals -> Forall lay_btx_ok btxs ->
  Forall (fun t => btx_blobs t <> []) btxs ->
  Forall (fun t => dec (btx_tx t) = Ok (blob_sizes (btx_blobs t))) btxs ->
  estimate thr normals btxs < 2097152 ->
  deconstruct dec (layout thr normals btxs) = Ok (normals ++ map blob_tx_bytes btxs).
Proof. exact deconstruct_layout. Qed.
Print Assumptions C02_deconstruct_layout.

(* through raw bytes: a list of non-empty transactions that are not blob transactions,
   followed by canonically encoded blob transactions (decodable: btx_ok), accepted by
   Construct's layout with a maximum side of at most 1024, comes back unchanged *)
Theorem C02_construct_deconstruct : forall dec thr max normals btxs sq,
  1 <= thr -> (max <= 1024)%Z ->
  Forall (fun r => r <> [] /\ unmarshal_blob_tx r = UbtNot) normals ->
  Forall lay_btx_ok btxs ->
  Forall (fun t => btx_ok (btx_tx t) (btx_blobs t)) btxs ->
  Forall (fun t => dec (btx_tx t) = Ok (blob_sizes (btx_blobs t))) btxs ->
  layout_construct (normals ++ map blob_tx_bytes btxs) max thr = Ok sq ->
  deconstruct dec sq = Ok (normals ++ map blob_tx_bytes btxs).
Proof. exact deconstruct_layout_construct. Qed.
Print Assumptions C02_construct_deconstruct.

(* the empty list maps to the single tail padding share (EmptySquare) and back *)
Theorem C02_empty : forall dec thr,
  Ok (layout thr [] []) = empty_square /\ deconstruct dec (layout thr [] []) = Ok [].
Proof. exact deconstruct_layout_empty. Qed.
Print Assumptions C02_empty.

(* ingredients: one blob's shares parse back to that blob; every placed blob sits at its
   recorded index *)
Theorem C02_blob_shares_parse : forall b, blob_ok b -> parse_blobs (blob_spec b) = Ok [b].
Proof. exact parse_blobs_blob_spec. Qed.
Print Assumptions C02_blob_shares_parse.

Theorem C02_blob_at_index : forall thr normals btxs, 1 <= thr -> Forall lay_btx_ok btxs ->
  estimate thr normals btxs < 2097152 ->
  forall e, In e (lay_placed thr normals btxs) ->
    blob_at (layout thr normals btxs) (lb_index e) (lb_blob e) /\ blob_ok (lb_blob e) /\
    blob_small (lb_blob e) /\ lb_index e < 2097152.
Proof. exact layout_blob_at. Qed.
Print Assumptions C02_blob_at_index.

(* ---- non-vacuity ---- *)
(* two ordinary transactions; a blob transaction with two version 0 blobs given in
   descending namespace order (2000 and 600 bytes) and one with a version 1 blob of 459
   bytes (with its 20 byte signer: two shares); the mock PFB decoder of the test helpers *)
Example C02_example_hyps :
  1 <= 1 /\ Forall (fun t => t <> []) ex_normals /\ Forall lay_btx_ok ex_c02_btxs /\
  Forall (fun t => btx_blobs t <> []) ex_c02_btxs /\
  Forall (fun t => mock_pfb_decoder (btx_tx t) = Ok (blob_sizes (btx_blobs t))) ex_c02_btxs /\
  estimate 1 ex_normals ex_c02_btxs < 2097152.
Proof. exact ex_deconstruct_hyps. Qed.

Example C02_example_values :
  estimate 1 ex_normals ex_c02_btxs = 17 /\ length (layout 1 ex_normals ex_c02_btxs) = 64%nat /\
  map lb_index (lay_placed 1 ex_normals ex_c02_btxs) = [4; 8; 14] /\
  deconstruct mock_pfb_decoder (layout 1 ex_normals ex_c02_btxs)
    = Ok (ex_normals ++ map blob_tx_bytes ex_c02_btxs) /\
  map_outcome (fun t => marshal_blob_tx (btx_tx t) (btx_blobs t)) ex_c02_btxs
    = Ok (map blob_tx_bytes ex_c02_btxs).
Proof. repeat split; vm_compute; reflexivity. Qed.

(* only blob transactions / only ordinary transactions / nothing *)
Example C02_example_only_blobs :
  deconstruct mock_pfb_decoder (layout 1 [] ex_c02_btxs) = Ok (map blob_tx_bytes ex_c02_btxs).
Proof. vm_compute. reflexivity. Qed.

Example C02_example_only_normals :
  deconstruct mock_pfb_decoder (layout 1 ex_normals []) = Ok ex_normals.
Proof. vm_compute. reflexivity. Qed.

Example C02_example_empty :
  length (layout 64 [] []) = 1%nat /\ deconstruct mock_pfb_decoder (layout 64 [] []) = Ok [].
Proof. split; vm_compute; reflexivity. Qed.

(* raw bytes through layout_construct with maximum side 8 *)
Example C02_example_construct :
  let raws := ex_normals ++ map blob_tx_bytes ex_c02_btxs in
  layout_construct raws 8 1 = Ok (layout 1 ex_normals ex_c02_btxs) /\
  deconstruct mock_pfb_decoder (layout 1 ex_normals ex_c02_btxs) = Ok raws.
Proof. exact ex_deconstruct_construct. Qed.
