(* share/split_compact_shares.go and share/parse_compact_shares.go *)
From GS.Model Require Import Base Varint Namespace ShareFmt.
Open Scope N_scope.

Record csplitter := mk_cs {
  cs_shares : list share;
  cs_b : sbuilder;
  cs_ns : namespace;
  cs_ver : N;
  cs_done : bool;
  (* shareRanges: keyed by the transaction bytes (Go: their SHA-256), newest first *)
  cs_ranges : list (bytes * (N * N))
}.

(* NewCompactShareSplitter panics when the share builder cannot be made (share version > 127): Fault *)
Definition new_csplitter (ns : namespace) (ver : N) : outcome csplitter :=
  match new_builder ns ver true with
  | Ok b => Ok (mk_cs [] b ns ver false [])
  | _ => Fault
  end.

Definition cs_with (c : csplitter) (shares : list share) (b : sbuilder) (done : bool) : csplitter :=
  mk_cs shares b (cs_ns c) (cs_ver c) done (cs_ranges c).

(* stackPending *)
Definition cs_stack_pending (c : csplitter) : outcome csplitter :=
  do sh <- sb_build (cs_b c);
  do nb <- new_builder (cs_ns c) (cs_ver c) false;
  Ok (cs_with c (cs_shares c ++ [sh]) nb (cs_done c)).

(* the `for` loop of write: fuel is the length of the data plus one *)
Fixpoint cs_write_loop (fuel : nat) (c : csplitter) (data : bytes) : outcome csplitter :=
  match fuel with
  | O => Err
  | S f =>
    let '(b1, lft) := sb_add_data (cs_b c) data in
    let c1 := cs_with c (cs_shares c) b1 (cs_done c) in
    match lft with
    | None => Ok c1
    | Some rest => do c2 <- cs_stack_pending c1; cs_write_loop f c2 rest
    end
  end.

(* write (with the repair of defect D5 the re-open branch is live) *)
Definition cs_write (c : csplitter) (data : bytes) : outcome csplitter :=
  let c0 :=
    if cs_done c then
      cs_with c (if sb_is_empty (cs_b c) then cs_shares c else removelast (cs_shares c))
              (cs_b c) false
    else c in
  do b1 <- sb_maybe_write_reserved (cs_b c0);
  do c1 <- cs_write_loop (S (length data)) (cs_with c0 (cs_shares c0) b1 false) data;
  if Nat.eqb (sb_available (cs_b c1)) 0 then cs_stack_pending c1 else Ok c1.

(* Count *)
Definition cs_count (c : csplitter) : N :=
  if negb (sb_is_empty (cs_b c)) && negb (cs_done c) then lenN (cs_shares c) + 1
  else lenN (cs_shares c).

(* WriteTx *)
Definition cs_write_tx (c : csplitter) (tx : bytes) : outcome csplitter :=
  let start0 := lenN (cs_shares c) in
  let start := if cs_done c && negb (sb_is_empty (cs_b c)) then start0 - 1 else start0 in
  do c1 <- cs_write c (marshal_delimited tx);
  Ok (mk_cs (cs_shares c1) (cs_b c1) (cs_ns c1) (cs_ver c1) (cs_done c1)
            ((tx, (start, cs_count c1)) :: cs_ranges c1)).

Definition cs_is_empty (c : csplitter) : bool :=
  Nat.eqb (length (cs_shares c)) 0 && sb_is_empty (cs_b c).

(* sequenceLen(bytesOfPadding), uint32 arithmetic *)
Definition cs_sequence_len (nshares : N) (padding : N) : N :=
  if nshares =? 0 then 0
  else if nshares =? 1 then u32 (4294967296 + 474 - padding)
  else u32 (474 + (nshares - 1) * 478 - padding).

(* writeSequenceLen: patches the first share *)
Definition cs_write_sequence_len (shares : list share) (n : N) : outcome (list share) :=
  match shares with
  | [] => Ok []
  | first :: rest =>
    if Nat.ltb (length first) 34 then Fault else
    if negb (wf_shareb first) then Err else
    Ok (set_at 30 (be32 (u32 n)) first :: rest)
  end.

(* Export (with the repair of defect D5: a padded copy of the pending share is
   stacked and the pending builder is kept) *)
Definition cs_export (c : csplitter) : outcome (csplitter * list share) :=
  if cs_is_empty c then Ok (c, []) else
  if cs_done c then Ok (c, cs_shares c) else
  do r <- (if negb (sb_is_empty (cs_b c)) then
             let '(pb, padding) := sb_zero_pad (cs_b c) in
             do sh <- sb_build pb;
             Ok (cs_shares c ++ [sh], N.of_nat padding)
           else Ok (cs_shares c, 0));
  let '(shares1, padding) := r in
  do shares2 <- cs_write_sequence_len shares1 (cs_sequence_len (lenN shares1) padding);
  let c' := cs_with c shares2 (cs_b c) true in
  Ok (c', shares2).

(* ShareRanges(offset): one entry per distinct transaction, last write wins.
   Returned as the list of (tx, start, end) in order of first occurrence
   newest-first; the harness compares it as a map. *)
Fixpoint assoc_bytes {A} (k : bytes) (l : list (bytes * A)) : option A :=
  match l with
  | [] => None
  | (k', v) :: tl => if bytes_eqb k k' then Some v else assoc_bytes k tl
  end.
Definition cs_share_range (c : csplitter) (offset : N) (tx : bytes) : option (N * N) :=
  match assoc_bytes tx (cs_ranges c) with
  | Some (s, e) => Some (s + offset, e + offset)
  | None => None
  end.

(* ---- parsing ---- *)

(* extractRawData (with the repair of defect D3) *)
Fixpoint extract_raw_data (found : bool) (shares : list share) : outcome bytes :=
  match shares with
  | [] => Ok []
  | s :: tl =>
    if found then
      do rest <- extract_raw_data true tl; Ok (sh_raw_data s ++ rest)
    else
      do raw <- sh_raw_data_using_reserved s;
      do rest <- extract_raw_data (negb (Nat.eqb (length raw) 0)) tl;
      Ok (raw ++ rest)
  end.

(* parseRawData (with the repair of defect D4): fuel is the length of the raw
   data plus one; every iteration that continues consumes at least two bytes. *)
Fixpoint parse_raw_data (fuel : nat) (raw : bytes) : outcome (list bytes) :=
  match fuel with
  | O => Err
  | S f =>
    match parse_delimiter raw with
    | DelimIncomplete => Ok []
    | DelimErr => Err
    | DelimFault => Fault
    | DelimOk actual unit_len =>
      if unit_len =? 0 then Ok []
      else if lenN actual <? unit_len then Ok []
      else do rest <- parse_raw_data f (dropN unit_len actual);
           Ok (takeN unit_len actual :: rest)
    end
  end.

(* parseCompactShares / ParseTxs.  Go returns nil for no shares. *)
Definition parse_txs (shares : list share) : outcome (list bytes) :=
  match shares with
  | [] => Ok []
  | _ =>
    if negb (forallb (fun s => sh_version s =? 0) shares) then Err else
    do raw <- extract_raw_data false shares;
    parse_raw_data (S (length raw)) raw
  end.
