(* C18 - Namespace order, classification and arithmetic are exact.  Statements only. *)
From Coq Require Import List NArith ZArith.
From GS.Model Require Import Base Namespace ShareFmt.
From GS.Proofs Require Import NamespaceProofs.
Import ListNotations.

(* Comparison is byte-wise lexicographic order [lex_lt] (defined as a relation in
   NamespaceProofs: the first differing byte decides, a proper prefix is smaller),
   and every comparison predicate is the derived relation. *)
Theorem C18_comparison_is_lexicographic : forall a b,
  (ns_equals a b = true <-> a = b) /\
  (ns_lt a b = true <-> lex_lt a b) /\
  (ns_le a b = true <-> (lex_lt a b \/ a = b)) /\
  (ns_gt a b = true <-> lex_lt b a) /\
  (ns_ge a b = true <-> (lex_lt b a \/ a = b)) /\
  (ns_compare a b = 0%Z <-> a = b) /\
  (ns_compare a b = (-1)%Z <-> lex_lt a b) /\
  (ns_compare a b = 1%Z <-> lex_lt b a).
Proof. exact ns_predicates. Qed.
Print Assumptions C18_comparison_is_lexicographic.

(* it is a total order *)
Theorem C18_total_order :
  (forall a, bytes_cmp a a = Eq) /\
  (forall a b, bytes_cmp b a = CompOpp (bytes_cmp a b)) /\
  (forall a b c, bytes_cmp a b = Lt -> bytes_cmp b c = Lt -> bytes_cmp a c = Lt) /\
  (forall a b, bytes_cmp a b = Lt \/ a = b \/ bytes_cmp b a = Lt) /\
  (forall a b, bytes_cmp a b = Lt <-> lex_lt a b).
Proof.
  exact (conj bytes_cmp_refl (conj (fun a b => bytes_cmp_antisym a b)
        (conj bytes_cmp_trans (conj bytes_cmp_total (fun a b => bytes_cmp_lt_lex a b))))).
Qed.
Print Assumptions C18_total_order.

(* blob validation accepts exactly the version-0 namespaces strictly above the primary reserved range *)
Theorem C18_validate_for_blob : forall n, ns29 n ->
  (validate_for_blob n = true <-> ns_version n = 0%N /\ lex_lt max_primary_reserved_ns n).
Proof. exact validate_for_blob_spec. Qed.
Print Assumptions C18_validate_for_blob.

(* value and interval predicates *)
Theorem C18_reserved_predicates : forall n,
  (is_tx n = true <-> n = tx_ns) /\ (is_pfb n = true <-> n = pfb_ns) /\
  (is_tail_padding n = true <-> n = tail_padding_ns) /\ (is_parity n = true <-> n = parity_ns) /\
  (is_primary_reserved_padding n = true <-> n = primary_reserved_padding_ns) /\
  (is_primary_reserved n = true <-> (lex_lt n max_primary_reserved_ns \/ n = max_primary_reserved_ns)) /\
  (is_secondary_reserved n = true <-> (lex_lt min_secondary_reserved_ns n \/ n = min_secondary_reserved_ns)) /\
  (is_reserved n = is_primary_reserved n || is_secondary_reserved n)%bool /\
  (is_usable n = true <-> (n <> parity_ns /\ n <> tail_padding_ns)).
Proof. exact reserved_predicates. Qed.
Print Assumptions C18_reserved_predicates.

(* constructors accept exactly the well-formed (version, id) pairs *)
Theorem C18_new_namespace : forall v id, (v < 256)%N ->
  (wellformed_ns v id -> new_namespace v id = Ok (n2b v :: id)) /\
  (~ wellformed_ns v id -> new_namespace v id = Err).
Proof. exact new_namespace_spec. Qed.
Print Assumptions C18_new_namespace.

Theorem C18_new_namespace_from_bytes : forall b,
  (new_namespace_from_bytes b = Ok b <-> exists v id, b = v :: id /\ wellformed_ns (b2n v) id) /\
  (new_namespace_from_bytes b = Ok b \/ new_namespace_from_bytes b = Err).
Proof. exact new_namespace_from_bytes_spec. Qed.
Print Assumptions C18_new_namespace_from_bytes.

(* AddInt: exact big-endian addition, error exactly on overflow / underflow *)
Theorem C18_add_int : forall n val, length n = 29%nat -> (Z.abs val < 2 ^ 64)%Z ->
  ((0 <= be_val n + val < 256 ^ 29)%Z ->
   exists m, add_int n val = Ok m /\ length m = 29%nat /\ be_val m = (be_val n + val)%Z) /\
  (~ (0 <= be_val n + val < 256 ^ 29)%Z -> add_int n val = Err).
Proof. exact add_int_spec. Qed.
Print Assumptions C18_add_int.

Theorem C18_add_int_undo : forall n val m, length n = 29%nat -> (Z.abs val < 2 ^ 64)%Z ->
  add_int n val = Ok m -> add_int m (- val) = Ok n.
Proof. exact add_int_undo. Qed.
Print Assumptions C18_add_int_undo.
