(* C04 / C12 / C14: the answers of a LIVE builder.

   Proofs/BuilderHistoryProofs.v shows that the square finally exported by a builder
   depends only on the accepted appends.  Proofs/TxRangeProofs.v and BlobLayoutProofs.v
   describe what the queries return on ONE builder.  Here the two are joined: at every
   point of an arbitrary history (appends accepted or refused, exports, queries, in any
   order) the queries of the live builder

       FindTxShareRange, FindBlobStartingIndex, BlobShareLength, GetWrappedPFB

   return exactly what they return on the builder obtained by appending the accepted
   transactions alone to an empty builder - and hence (bridging to raw bytes) what the
   stateless TxShareRange / BlobShareRange return over the accepted list.

   The point is the [done] flag.  A query exports first unless [bd_done] is set.  So a
   builder with [bd_done = true] must really BE an exported builder: the invariant
   [exported] below ("Export would succeed and record exactly the indexes that are
   recorded already").  It holds trivially while [bd_done = false]; it is established by
   Export and by the queries; a REFUSED append keeps the flag and the recorded indexes and
   only touches the undo fields of a counter, which Export does not read; an ACCEPTED
   append resets the flag.  A builder whose AppendTx forgets to reset the flag breaks the
   invariant (counter-model in Properties/C12_live.v). *)
From Coq Require Import List Arith NArith ZArith Lia Bool Permutation Sorted.
From Coq Require Import ZifyN ZifyNat ZifyBool.
From GS.Model Require Import Base Varint Namespace ShareFmt Blob Sparse Compact Counter Arith Proto Builder.
From GS.Spec Require Import ShareSpec CompactSpec LayoutSpec.
From GS.Proofs Require Import BaseLemmas SortProofs AccountingProofs BlobLayoutProofs TxRangeProofs
  LayoutShapeProofs RefinementProofs1 DeconstructProofs BuilderHistoryProofs.
Import ListNotations.
Open Scope N_scope.

(* ---------- outcomes ---------- *)

Definition omap {A B} (f : A -> B) (o : outcome A) : outcome B :=
  match o with Ok a => Ok (f a) | Err => Err | Fault => Fault end.

Lemma omap_bind {A B C} (f : B -> C) (o : outcome A) (k : A -> outcome B) :
  omap f (bind o k) = bind o (fun a => omap f (k a)).
Proof. destruct o; reflexivity. Qed.

(* ---------- Export's blob loop: the whole outcome is independent of the old index values ---------- *)

Lemma record_index_kind P P' pi bi cur : shape P = shape P' ->
  omap (fun _ => tt) (record_index P pi bi cur) = omap (fun _ => tt) (record_index P' pi bi cur).
Proof.
  intros Hs. pose proof (shape_nth P P' (N.to_nat pi) Hs) as Hn. unfold record_index.
  destruct (nth_error P (N.to_nat pi)) as [p|]; destruct (nth_error P' (N.to_nat pi)) as [p'|];
    cbn [option_map] in Hn; try discriminate; [|reflexivity].
  inversion Hn as [[Ht Hl]]. unfold lenN. rewrite Hl. destruct (_ <=? bi); reflexivity.
Qed.

Lemma export_blobs_kind thr els : forall first c e n P P' s, shape P = shape P' ->
  omap (fun _ => tt) (export_blobs thr first els (mk_bls c e n P s)) =
  omap (fun _ => tt) (export_blobs thr first els (mk_bls c e n P' s)).
Proof.
  induction els as [|x tl IH]; intros first c e n P P' s Hs; cbn [export_blobs]; [reflexivity|].
  cbn [bl_cursor bl_end_last bl_nrs bl_shares bl_pfbs].
  destruct (e_max_padding x <? _); [reflexivity|].
  pose proof (record_index_kind P P' (e_pfb_index x) (e_blob_index x)
                (next_share_index c (e_num_shares x) thr) Hs) as HK.
  destruct (record_index P _ _ _) as [Q| |] eqn:ER; destruct (record_index P' _ _ _) as [Q'| |] eqn:ER';
    cbn [omap] in HK; try discriminate; cbn [bind]; try reflexivity.
  destruct (if first then _ else _) as [s1| |]; cbn [bind]; try reflexivity.
  destruct (sparse_write_item s1 _) as [s2| |]; cbn [bind]; try reflexivity.
  apply IH. rewrite (record_index_shape _ _ _ _ _ ER), (record_index_shape _ _ _ _ _ ER'). exact Hs.
Qed.

Lemma export_blobs_cover_all thr els first c e n P P' s :
  shape P = shape P' -> cover P els ->
  export_blobs thr first els (mk_bls c e n P s) = export_blobs thr first els (mk_bls c e n P' s).
Proof.
  intros Hs Hc. pose proof (export_blobs_kind thr els first c e n P P' s Hs) as HK.
  destruct (export_blobs thr first els (mk_bls c e n P s)) as [st| |] eqn:E.
  - symmetry. eapply export_blobs_cover; eassumption.
  - destruct (export_blobs thr first els (mk_bls c e n P' s)); cbn [omap] in HK; try discriminate; reflexivity.
  - destruct (export_blobs thr first els (mk_bls c e n P' s)); cbn [omap] in HK; try discriminate; reflexivity.
Qed.

(* ---------- what the queries read of an exported builder ---------- *)

Definition view (b : builder) : list bytes * list pfb * list element :=
  (bd_txs b, bd_pfbs b, sort_elements (bd_blobs b)).

Definition xview (r : builder * list share) := (view (fst r), snd r).

Lemma shape_nil P : shape P = shape [] -> P = [].
Proof. intros H. apply shape_length in H. destruct P; [reflexivity|discriminate]. Qed.

(* equivalent builders export alike: same outcome, same square, same transactions,
   same recorded indexes, same (sorted) blob list *)
Lemma export_view b c : bd_equiv b c -> bcover b ->
  (builder_is_empty b = true -> bd_pfbs b = []) ->
  omap xview (export b) = omap xview (export c).
Proof.
  intros H Hc He. unfold export. rewrite <- (builder_is_empty_equiv _ _ H).
  destruct (builder_is_empty b) eqn:Eb.
  - destruct empty_square as [sq0| |]; cbn [bind omap]; try reflexivity.
    unfold xview, view. cbn [fst snd].
    rewrite <- (bd_equiv_txs _ _ H), <- (bd_equiv_blobs _ _ H).
    pose proof (bd_equiv_pfbs _ _ H) as Hs. rewrite (He eq_refl) in *.
    symmetry in Hs. apply shape_nil in Hs. rewrite Hs. reflexivity.
  - rewrite <- (bd_equiv_cur _ _ H), <- (bd_equiv_txs _ _ H), <- (bd_equiv_thr _ _ H), <- (bd_equiv_blobs _ _ H),
      <- (counter_size_cnt_eq _ _ (bd_equiv_txc _ _ H)), <- (counter_size_cnt_eq _ _ (bd_equiv_pfbc _ _ H)).
    destruct (new_csplitter tx_ns 0) as [txw0| |]; cbn [bind omap]; try reflexivity.
    destruct (write_txs txw0 (bd_txs b)) as [txw| |]; cbn [bind omap]; try reflexivity.
    assert (Hc' : cover (bd_pfbs b) (sort_elements (bd_blobs b))).
    { eapply cover_shape_perm; [reflexivity|apply Permutation_sym, sort_elements_perm|exact Hc]. }
    rewrite <- (export_blobs_cover_all _ _ _ _ _ _ (bd_pfbs b) (bd_pfbs c) _ (bd_equiv_pfbs _ _ H) Hc').
    destruct (export_blobs _ _ _ _) as [st| |]; cbn [bind omap]; try reflexivity.
    destruct (new_csplitter pfb_ns 0) as [pfbw0| |]; cbn [bind omap]; try reflexivity.
    destruct (write_txs pfbw0 _) as [pfbw| |]; cbn [bind omap]; try reflexivity.
    destruct (_ <? _)%Z; [reflexivity|].
    destruct (write_square _ _ _ _ _) as [sq0| |]; cbn [bind omap]; reflexivity.
Qed.

(* the state Export returns *)
Lemma export_form b b' sq : export b = Ok (b', sq) ->
  b' = b \/
  exists P, shape P = shape (bd_pfbs b) /\
    b' = mk_bd (bd_max b) (bd_thr b) (bd_cur b) (bd_txs b) P (sort_elements (bd_blobs b))
               (bd_txc b) (bd_pfbc b) true.
Proof.
  intros E. unfold export in E. destruct (builder_is_empty b).
  - destruct empty_square as [sq0| |]; cbn [bind] in E; try discriminate. inversion E; subst. left. reflexivity.
  - destruct (new_csplitter tx_ns 0) as [txw0| |]; cbn [bind] in E; try discriminate.
    destruct (write_txs txw0 (bd_txs b)) as [txw| |]; cbn [bind] in E; try discriminate.
    destruct (export_blobs _ _ _ _) as [st| |] eqn:EB; cbn [bind] in E; try discriminate.
    destruct (new_csplitter pfb_ns 0) as [pfbw0| |]; cbn [bind] in E; try discriminate.
    destruct (write_txs pfbw0 _) as [pfbw| |]; cbn [bind] in E; try discriminate.
    destruct (_ <? _)%Z; [discriminate|].
    destruct (write_square _ _ _ _ _) as [sq0| |]; cbn [bind] in E; try discriminate.
    inversion E; subst b' sq0. right. exists (bl_pfbs st). split; [|reflexivity].
    apply export_blobs_shape in EB. exact EB.
Qed.

(* ---------- the invariant of live builders ---------- *)

(* [b] is the exported form of its own content: Export succeeds on it and records
   exactly the indexes that are recorded already *)
Definition exported (b : builder) : Prop :=
  exists b' sq, export b = Ok (b', sq) /\ bd_pfbs b' = bd_pfbs b.

Record linv (b : builder) : Prop := mk_linv {
  li_cover : bcover b;
  li_cnt : cnt_ok (bd_pfbc b);
  li_pfbs : counter_size (bd_pfbc b) = 0%Z -> bd_pfbs b = [];
  li_nodup : NoDup (map el_key (bd_blobs b));
  li_range : Forall (fun e => e_pfb_index e < lenN (bd_pfbs b)) (bd_blobs b);
  li_done : bd_done b = true -> exported b
}.

Lemma linv_empty max thr : linv (empty_builder max thr).
Proof.
  constructor; cbn [empty_builder bd_pfbc bd_pfbs bd_blobs bd_done map].
  - apply bcover_empty.
  - unfold cnt_ok, new_counter. cbn. lia.
  - reflexivity.
  - constructor.
  - constructor.
  - discriminate.
Qed.

Lemma linv_is_empty b : linv b -> builder_is_empty b = true -> bd_pfbs b = [].
Proof.
  intros I He. apply (li_pfbs _ I). unfold builder_is_empty in He. lia.
Qed.

(* the invariant [exported] passes to an equivalent builder with the same recorded indexes *)
Lemma exported_equiv b c : bd_equiv b c -> bcover b ->
  (builder_is_empty b = true -> bd_pfbs b = []) ->
  bd_pfbs c = bd_pfbs b -> exported b -> exported c.
Proof.
  intros H Hc He Hp (b' & sq & E & Hb'). pose proof (export_view b c H Hc He) as HV. rewrite E in HV.
  destruct (export c) as [[c' sq']| |] eqn:Ec; cbn [omap] in HV; try discriminate.
  inversion HV as [[Ht Hpf Hs Hsq]]. exists c', sq'. split; [exact Ec|]. congruence.
Qed.

Lemma linv_append_tx b tx : linv b -> linv (fst (append_tx b tx)).
Proof.
  intros I. pose proof (append_tx_cover b tx (li_cover _ I)) as Hcov.
  destruct (snd (append_tx b tx)) eqn:Ed.
  - revert Hcov Ed. unfold append_tx. destruct (counter_add (bd_txc b) _) as [c' diff].
    destruct (can_fit b diff); cbn [fst snd]; intros Hcov Ed; [|discriminate].
    destruct I. constructor; cbn [bd_pfbc bd_pfbs bd_blobs bd_done]; try assumption. discriminate.
  - pose proof (append_tx_refused b tx Ed) as Hq. revert Hcov Ed Hq. unfold append_tx.
    destruct (counter_add (bd_txc b) _) as [c' diff].
    destruct (can_fit b diff); cbn [fst snd]; intros Hcov Ed Hq; [discriminate|].
    constructor; cbn [bd_pfbc bd_pfbs bd_blobs bd_done]; try (destruct I; assumption).
    intros Hd. eapply exported_equiv; [apply bd_equiv_sym; exact Hq|apply (li_cover _ I)|apply linv_is_empty; exact I|reflexivity|].
    apply (li_done _ I Hd).
Qed.

Lemma linv_append_blob_tx b t : linv b -> linv (fst (append_blob_tx b t)).
Proof.
  intros I. pose proof (append_blob_tx_cover b t (li_cover _ I)) as Hcov.
  destruct (snd (append_blob_tx b t)) eqn:Ed.
  - revert Hcov Ed. unfold append_blob_tx.
    set (size := index_wrapper_size (btx_tx t) (worst_case_share_indexes (length (btx_blobs t)))).
    pose proof (counter_add_pos (bd_pfbc b) (Z.of_N size) (li_cnt _ I) ltac:(lia)) as Hadd.
    destruct (counter_add (bd_pfbc b) (Z.of_N size)) as [c' diff]. cbn [fst] in Hadd.
    destruct Hadd as (Hc' & Hpos' & _).
    destruct (can_fit b _); cbn [fst snd]; intros Hcov Ed; [|discriminate].
    pose proof (li_nodup _ I) as Hnd. pose proof (li_range _ I) as Hpi.
    constructor; cbn [bd_pfbc bd_pfbs bd_blobs bd_done]; try assumption.
    + intros H0. lia.
    + rewrite map_app. apply NoDup_app_intro; [exact Hnd|apply elements_of_nodup|].
      intros k Hk1 Hk2. apply in_map_iff in Hk1. destruct Hk1 as (e1 & <- & Hin1).
      apply in_map_iff in Hk2. destruct Hk2 as (e2 & Hk & Hin2).
      rewrite Forall_forall in Hpi. specialize (Hpi _ Hin1).
      destruct (elements_of_keys _ _ _ _ _ Hin2) as [Hp2 _]. unfold el_key in Hk. inversion Hk. lia.
    + apply Forall_app. split.
      * eapply Forall_impl; [|exact Hpi]. cbn beta. intros e He. rewrite lenN_app. lia.
      * apply Forall_forall. intros e He. destruct (elements_of_keys _ _ _ _ _ He) as [-> _].
        rewrite lenN_app. unfold lenN. cbn [length]. lia.
    + discriminate.
  - pose proof (append_blob_tx_refused b t Ed) as Hq. revert Hcov Ed Hq. unfold append_blob_tx.
    set (size := index_wrapper_size (btx_tx t) (worst_case_share_indexes (length (btx_blobs t)))).
    pose proof (BlobLayoutProofs.counter_revert_add (bd_pfbc b) (Z.of_N size)) as Hrev.
    destruct (counter_add (bd_pfbc b) (Z.of_N size)) as [c' diff]. cbn [fst] in Hrev. destruct Hrev as [Hr1 Hr2].
    destruct (can_fit b _); cbn [fst snd]; intros Hcov Ed Hq; [discriminate|].
    constructor; cbn [bd_pfbc bd_pfbs bd_blobs bd_done]; try (destruct I; assumption).
    + pose proof (li_cnt _ I) as Hc. unfold cnt_ok in *. rewrite Hr1, Hr2. exact Hc.
    + intros H0. apply (li_pfbs _ I). unfold counter_size in *. rewrite Hr1, Hr2 in H0. exact H0.
    + intros Hd. eapply exported_equiv; [apply bd_equiv_sym; exact Hq|apply (li_cover _ I)|apply linv_is_empty; exact I|reflexivity|].
      apply (li_done _ I Hd).
Qed.

Lemma linv_export b b' sq : linv b -> export b = Ok (b', sq) -> linv b'.
Proof.
  intros I E. destruct (export_equiv _ _ _ E) as [Hq Hcov].
  destruct (export_form _ _ _ E) as [->|(P & Hs & Hb')]; [exact I|].
  assert (Hex : exported b').
  { pose proof (export_view b b' (bd_equiv_sym _ _ Hq) (li_cover _ I) (linv_is_empty _ I)) as HV.
    rewrite E in HV. destruct (export b') as [[b'' sq'']| |] eqn:E'; cbn [omap] in HV; try discriminate.
    inversion HV as [[Ht Hpf Hsb Hsq]]. exists b'', sq''. split; [exact E'|]. symmetry. exact Hpf. }
  specialize (Hcov (li_cover _ I)). subst b'.
  constructor; cbn [bd_pfbc bd_pfbs bd_blobs bd_done] in *.
  - exact Hcov.
  - apply (li_cnt _ I).
  - intros H0. rewrite (li_pfbs _ I H0) in Hs. apply shape_nil. exact Hs.
  - eapply Permutation_NoDup; [|apply (li_nodup _ I)]. apply Permutation_map, Permutation_sym, sort_elements_perm.
  - rewrite (shape_lenN _ _ Hs). eapply Permutation_Forall; [|apply (li_range _ I)].
    apply Permutation_sym, sort_elements_perm.
  - intros _. exact Hex.
Qed.

(* ---------- queries return the state [ensure_done] reaches ---------- *)

Lemma linv_ensure_done b b1 : linv b -> ensure_done b = Ok b1 -> linv b1.
Proof.
  unfold ensure_done. intros I. destruct (bd_done b); [intros H; inversion H; subst; exact I|].
  destruct (export b) as [[b2 sq]| |] eqn:E; cbn [bind fst]; try discriminate.
  intros H; inversion H; subst. eapply linv_export; eassumption.
Qed.

Lemma find_tx_share_range_state b i b1 r : find_tx_share_range b i = Ok (b1, r) -> ensure_done b = Ok b1.
Proof.
  unfold find_tx_share_range. fold (ensure_done b).
  destruct (ensure_done b) as [b2| |]; cbn [bind]; try discriminate.
  intros H. query_cases H; inversion H; subst; reflexivity.
Qed.

Lemma find_blob_starting_index_state b p j b1 r :
  find_blob_starting_index b p j = Ok (b1, r) -> ensure_done b = Ok b1.
Proof.
  unfold find_blob_starting_index. fold (ensure_done b). intros H.
  destruct (_ <? _)%Z; [discriminate|]. destruct (_ <=? _)%Z; [discriminate|]. destruct (_ <? _)%Z; [discriminate|].
  destruct (ensure_done b) as [b2| |]; cbn [bind] in H; try discriminate.
  query_cases H; inversion H; subst; reflexivity.
Qed.

Lemma get_wrapped_pfb_state b i b1 r : get_wrapped_pfb b i = Ok (b1, r) -> ensure_done b = Ok b1.
Proof.
  unfold get_wrapped_pfb. fold (ensure_done b). intros H.
  destruct (_ <? _)%Z; [discriminate|]. destruct (_ <? _)%Z; [discriminate|]. destruct (_ <=? _)%Z; [discriminate|].
  destruct (ensure_done b) as [b2| |]; cbn [bind] in H; try discriminate.
  query_cases H; inversion H; subst; reflexivity.
Qed.

Lemma linv_bstep b o b' : linv b -> bstep b o = Ok b' -> linv b'.
Proof.
  intros I. destruct o; cbn [bstep]; intros H.
  - inversion H. apply linv_append_tx. exact I.
  - inversion H. apply linv_append_blob_tx. exact I.
  - destruct (export b) as [[b2 sq]| |] eqn:E; cbn [bind fst] in H; try discriminate. inversion H; subst.
    eapply linv_export; eassumption.
  - destruct (find_tx_share_range b i) as [[b2 r]| |] eqn:E; cbn [bind fst] in H; try discriminate.
    inversion H; subst. eapply linv_ensure_done; [exact I|]. eapply find_tx_share_range_state. exact E.
  - destruct (find_blob_starting_index b p j) as [[b2 r]| |] eqn:E; cbn [bind fst] in H; try discriminate.
    inversion H; subst. eapply linv_ensure_done; [exact I|]. eapply find_blob_starting_index_state. exact E.
  - destruct (get_wrapped_pfb b i) as [[b2 r]| |] eqn:E; cbn [bind fst] in H; try discriminate.
    inversion H; subst. eapply linv_ensure_done; [exact I|]. eapply get_wrapped_pfb_state. exact E.
Qed.

Lemma linv_brun ops : forall b b', linv b -> brun b ops = Ok b' -> linv b'.
Proof.
  induction ops as [|o tl IH]; intros b b' I H; cbn [brun] in H.
  - inversion H; subst. exact I.
  - destruct (bstep b o) as [b1| |] eqn:E; cbn [bind] in H; try discriminate.
    eapply IH; [|exact H]. eapply linv_bstep; eassumption.
Qed.

Theorem linv_reachable max thr ops b : brun (empty_builder max thr) ops = Ok b -> linv b.
Proof. apply linv_brun, linv_empty. Qed.

(* ---------- equivalent builders answer alike ---------- *)

(* [b] live (invariant [linv]), [c] equivalent to it and not exported: making both
   exported gives the same outcome and the same transactions, wrappers WITH their
   recorded indexes, and sorted blob list.  If [b] is already [done] this is where the
   invariant [exported] is used. *)
Lemma ensure_done_view b c : linv b -> bd_equiv b c -> bd_done c = false ->
  omap view (ensure_done b) = omap view (ensure_done c).
Proof.
  intros I H Hdc. unfold ensure_done. rewrite Hdc.
  pose proof (export_view b c H (li_cover _ I) (linv_is_empty _ I)) as HV.
  destruct (bd_done b) eqn:Ed.
  - destruct (li_done _ I Ed) as (b' & sq & E & Hp). rewrite E in HV.
    destruct (export c) as [[c' sq']| |]; cbn [omap] in HV; try discriminate. cbn [bind omap fst].
    inversion HV as [[Ht Hpf Hs Hsq]]. destruct (export_equiv _ _ _ E) as [Hq _].
    unfold view. rewrite <- Ht, <- Hpf, <- Hs, Hp, (bd_equiv_txs _ _ Hq), (bd_equiv_blobs _ _ Hq). reflexivity.
  - destruct (export b) as [[b' sq]| |]; destruct (export c) as [[c' sq']| |]; cbn [omap] in HV;
      try discriminate; cbn [bind omap fst]; try reflexivity.
    inversion HV as [[Ht Hpf Hs Hsq]]. unfold view. rewrite Ht, Hpf, Hs. reflexivity.
Qed.

Theorem find_tx_share_range_live b c ti : linv b -> bd_equiv b c -> bd_done c = false ->
  omap snd (find_tx_share_range b ti) = omap snd (find_tx_share_range c ti).
Proof.
  intros I H Hdc. rewrite !find_tx_share_range_eq.
  pose proof (ensure_done_view b c I H Hdc) as HV.
  destruct (ensure_done b) as [b1| |]; destruct (ensure_done c) as [c1| |]; cbn [omap] in HV;
    try discriminate; cbn [bind omap]; try reflexivity.
  inversion HV as [[Ht Hp Hs]]. rewrite Ht, Hp. destruct (_ || _)%bool; cbn [omap snd]; [reflexivity|].
  unfold builder_tx_range. rewrite Ht, Hp. reflexivity.
Qed.

Theorem find_blob_starting_index_live b c pi bi : linv b -> bd_equiv b c -> bd_done c = false ->
  omap snd (find_blob_starting_index b pi bi) = omap snd (find_blob_starting_index c pi bi).
Proof.
  intros I H Hdc. unfold find_blob_starting_index. fold (ensure_done b). fold (ensure_done c).
  rewrite <- (bd_equiv_txs _ _ H), <- (shape_lenN _ _ (bd_equiv_pfbs _ _ H)).
  destruct (_ <? _)%Z; [reflexivity|]. destruct (_ <=? _)%Z; [reflexivity|]. destruct (bi <? 0)%Z; [reflexivity|].
  pose proof (ensure_done_view b c I H Hdc) as HV.
  destruct (ensure_done b) as [b1| |]; destruct (ensure_done c) as [c1| |]; cbn [omap] in HV;
    try discriminate; cbn [bind omap]; try reflexivity.
  inversion HV as [[Ht Hp Hs]]. rewrite Hp.
  destruct (nth_error (bd_pfbs c1) _) as [p|]; [|reflexivity].
  destruct (nth_error (pfb_idx p) _); reflexivity.
Qed.

Theorem get_wrapped_pfb_live b c ti : linv b -> bd_equiv b c -> bd_done c = false ->
  omap snd (get_wrapped_pfb b ti) = omap snd (get_wrapped_pfb c ti).
Proof.
  intros I H Hdc. unfold get_wrapped_pfb. fold (ensure_done b). fold (ensure_done c).
  rewrite <- (bd_equiv_txs _ _ H), <- (shape_lenN _ _ (bd_equiv_pfbs _ _ H)).
  destruct (ti <? 0)%Z; [reflexivity|]. destruct (_ <? _)%Z; [reflexivity|]. destruct (_ <=? _)%Z; [reflexivity|].
  pose proof (ensure_done_view b c I H Hdc) as HV.
  destruct (ensure_done b) as [b1| |]; destruct (ensure_done c) as [c1| |]; cbn [omap] in HV;
    try discriminate; cbn [bind omap]; try reflexivity.
  inversion HV as [[Ht Hp Hs]]. rewrite Hp, Ht.
  destruct (nth_error (bd_pfbs c1) _) as [p|]; reflexivity.
Qed.

(* BlobShareLength looks the element up by its (pfb index, blob index): with distinct
   keys the order of the list (Export sorts it in place) does not matter *)
Lemma find_key_perm (l l' : list element) pi bi : NoDup (map el_key l) -> Permutation l l' ->
  find (fun e => Z.eqb (Z.of_N (e_pfb_index e)) pi && Z.eqb (Z.of_N (e_blob_index e)) bi) l =
  find (fun e => Z.eqb (Z.of_N (e_pfb_index e)) pi && Z.eqb (Z.of_N (e_blob_index e)) bi) l'.
Proof.
  intros Hnd Hp.
  set (f := fun e => Z.eqb (Z.of_N (e_pfb_index e)) pi && Z.eqb (Z.of_N (e_blob_index e)) bi).
  destruct (find f l) as [e|] eqn:E1; destruct (find f l') as [e'|] eqn:E2; try reflexivity.
  - apply find_some in E1, E2. destruct E1 as [Hi1 Hf1], E2 as [Hi2 Hf2]. f_equal.
    apply (NoDup_map_inj el_key l); try assumption.
    + eapply Permutation_in; [apply Permutation_sym; exact Hp|exact Hi2].
    + unfold el_key, f in *. f_equal; lia.
  - apply find_some in E1. destruct E1 as [Hi1 Hf1].
    pose proof (find_none _ _ E2 e (Permutation_in _ Hp Hi1)) as Hn. congruence.
  - apply find_some in E2. destruct E2 as [Hi2 Hf2].
    pose proof (find_none _ _ E1 e' (Permutation_in _ (Permutation_sym Hp) Hi2)) as Hn. congruence.
Qed.

Lemma sort_eq_perm l l' : sort_elements l = sort_elements l' -> Permutation l l'.
Proof.
  intros H. eapply Permutation_trans; [apply Permutation_sym, sort_elements_perm|].
  rewrite H. apply sort_elements_perm.
Qed.

Lemma blob_share_length_perm b c pi bi : bd_txs b = bd_txs c ->
  length (bd_pfbs b) = length (bd_pfbs c) ->
  sort_elements (bd_blobs b) = sort_elements (bd_blobs c) -> NoDup (map el_key (bd_blobs b)) ->
  blob_share_length b pi bi = blob_share_length c pi bi.
Proof.
  intros Ht Hl Hs Hnd. unfold blob_share_length, lenN. rewrite Ht, Hl.
  rewrite (find_key_perm (bd_blobs b) (bd_blobs c) _ _ Hnd (sort_eq_perm _ _ Hs)). reflexivity.
Qed.

Theorem blob_share_length_live b c pi bi : linv b -> bd_equiv b c ->
  blob_share_length b pi bi = blob_share_length c pi bi.
Proof.
  intros I H. apply blob_share_length_perm.
  - apply (bd_equiv_txs _ _ H).
  - apply shape_length, (bd_equiv_pfbs _ _ H).
  - apply (bd_equiv_blobs _ _ H).
  - apply (li_nodup _ I).
Qed.

(* the two blob queries combined the way square.BlobShareRange combines them *)
Definition live_blob_share_range (b : builder) (ti bi : Z) : outcome (N * N) :=
  do r <- find_blob_starting_index b ti bi;
  let '(b1, start) := r in
  do len <- blob_share_length b1 ti bi;
  Ok (start, start + len).

Lemma blob_share_range_unfold txs ti bi max thr :
  blob_share_range txs ti bi max thr = do b <- new_builder_txs max thr txs; live_blob_share_range b ti bi.
Proof. reflexivity. Qed.

Definition live_tx_share_range (b : builder) (ti : Z) : outcome (Z * Z) :=
  do r <- find_tx_share_range b ti; Ok (snd r).

Lemma live_tx_share_range_omap b ti : live_tx_share_range b ti = omap snd (find_tx_share_range b ti).
Proof. unfold live_tx_share_range. destruct (find_tx_share_range b ti); reflexivity. Qed.

Lemma tx_share_range_unfold txs ti max thr :
  tx_share_range txs ti max thr = do b <- new_builder_txs max thr txs; live_tx_share_range b ti.
Proof. reflexivity. Qed.

Theorem live_blob_share_range_live b c pi bi : linv b -> bd_equiv b c -> bd_done c = false ->
  live_blob_share_range b pi bi = live_blob_share_range c pi bi.
Proof.
  intros I H Hdc. unfold live_blob_share_range.
  pose proof (find_blob_starting_index_live b c pi bi I H Hdc) as HQ.
  pose proof (ensure_done_view b c I H Hdc) as HV.
  destruct (find_blob_starting_index b pi bi) as [[b1 s]| |] eqn:Eb;
    destruct (find_blob_starting_index c pi bi) as [[c1 s']| |] eqn:Ec; cbn [omap snd] in HQ;
    try discriminate; cbn [bind]; try reflexivity.
  inversion HQ; subst s'.
  apply find_blob_starting_index_state in Eb, Ec. rewrite Eb, Ec in HV. cbn [omap] in HV.
  inversion HV as [[Ht Hp Hs]].
  rewrite (blob_share_length_perm b1 c1 pi bi Ht (f_equal (@length _) Hp) Hs
             (li_nodup _ (linv_ensure_done _ _ I Eb))).
  reflexivity.
Qed.

(* all of it *)
Theorem live_queries_equiv b c : linv b -> bd_equiv b c -> bd_done c = false ->
  (forall ti, omap snd (find_tx_share_range b ti) = omap snd (find_tx_share_range c ti)) /\
  (forall pi bi, omap snd (find_blob_starting_index b pi bi) = omap snd (find_blob_starting_index c pi bi)) /\
  (forall pi bi, blob_share_length b pi bi = blob_share_length c pi bi) /\
  (forall ti, omap snd (get_wrapped_pfb b ti) = omap snd (get_wrapped_pfb c ti)) /\
  (forall pi bi, live_blob_share_range b pi bi = live_blob_share_range c pi bi).
Proof.
  intros I H Hdc. repeat split; intros.
  - apply find_tx_share_range_live; assumption.
  - apply find_blob_starting_index_live; assumption.
  - apply blob_share_length_live; assumption.
  - apply get_wrapped_pfb_live; assumption.
  - apply live_blob_share_range_live; assumption.
Qed.

(* ---------- histories ---------- *)

Definition is_append (o : bop) : Prop := match o with BTx _ | BBlobTx _ => True | _ => False end.

Lemma accepted_op_appends b o : Forall is_append (accepted_op b o).
Proof.
  destruct o; cbn [accepted_op]; try constructor.
  - destruct (snd (append_tx b tx)); repeat constructor.
  - destruct (snd (append_blob_tx b t)); repeat constructor.
Qed.

Lemma accepted_of_appends ops : forall b, Forall is_append (accepted_of b ops).
Proof.
  induction ops as [|o tl IH]; intros b; cbn [accepted_of]; [constructor|].
  destruct (bstep b o) as [b1| |]; try constructor.
  apply Forall_app. split; [apply accepted_op_appends|apply IH].
Qed.

(* appends never set the flag *)
Lemma appends_not_done ops : forall b b', Forall is_append ops -> bd_done b = false ->
  brun b ops = Ok b' -> bd_done b' = false.
Proof.
  induction ops as [|o tl IH]; intros b b' Ha Hd H; cbn [brun] in H.
  - inversion H; subst. exact Hd.
  - apply Forall_cons_iff in Ha as [Ho Ha]. destruct o; cbn [is_append] in Ho; try contradiction; cbn [bstep bind] in H.
    + eapply IH; [exact Ha| |exact H]. unfold append_tx. destruct (counter_add (bd_txc b) _) as [c' diff].
      destruct (can_fit b diff); cbn [fst bd_done]; [reflexivity|exact Hd].
    + eapply IH; [exact Ha| |exact H]. unfold append_blob_tx. destruct (counter_add (bd_pfbc b) _) as [c' diff].
      destruct (can_fit b _); cbn [fst bd_done]; [reflexivity|exact Hd].
Qed.

Lemma accepted_of_app ops1 : forall b b1 ops2, brun b ops1 = Ok b1 ->
  accepted_of b (ops1 ++ ops2) = accepted_of b ops1 ++ accepted_of b1 ops2.
Proof.
  induction ops1 as [|o tl IH]; intros b b1 ops2 H; cbn [brun app accepted_of] in *.
  - inversion H. reflexivity.
  - destruct (bstep b o) as [b2| |]; cbn [bind] in *; try discriminate.
    rewrite (IH _ _ _ H), app_assoc. reflexivity.
Qed.

(* one step of the live builder against the clean builder: the clean one takes the
   accepted append (if any) and accepts it, too *)
Lemma gstep_clean b o b1 : gstep b o b1 ->
  forall c, bd_equiv b c -> exists c1, brun c (accepted_op b o) = Ok c1 /\
    accepted_of c (accepted_op b o) = accepted_op b o /\ bd_equiv b1 c1.
Proof.
  intros Hs c Hbc. destruct (gstep_equiv_cover _ _ _ Hs) as [_ Hq].
  destruct (Hq c Hbc) as (c1 & Hr & Hq1). exists c1. split; [exact Hr|]. split; [|exact Hq1].
  destruct (same_decisions b c
              (match o with BTx tx => tx | _ => [] end)
              (match o with BBlobTx t => t | _ => mk_btx [] [] end) Hbc) as [Hd1 Hd2].
  destruct o; cbn [accepted_op]; try reflexivity.
  - destruct (snd (append_tx b tx)) eqn:Ed; [|reflexivity].
    cbn [accepted_of bstep accepted_op]. rewrite <- Hd1. reflexivity.
  - destruct (snd (append_blob_tx b t)) eqn:Ed; [|reflexivity].
    cbn [accepted_of bstep accepted_op]. rewrite <- Hd2. reflexivity.
Qed.

Lemma grun_clean b ops acc b' : grun b ops acc b' ->
  forall c, bd_equiv b c -> exists c', brun c acc = Ok c' /\ accepted_of c acc = acc /\ bd_equiv b' c'.
Proof.
  induction 1 as [b|b o b1 ops acc b' Hs Hr IH].
  - intros c Hbc. exists c. split; [reflexivity|]. split; [reflexivity|exact Hbc].
  - intros c Hbc. destruct (gstep_clean _ _ _ Hs c Hbc) as (c1 & Hr1 & Ha1 & Hq1).
    destruct (IH c1 Hq1) as (c' & Hr' & Ha' & Hq').
    exists c'. split; [rewrite (brun_app _ _ _ _ Hr1); exact Hr'|]. split; [|exact Hq'].
    rewrite (accepted_of_app _ _ _ _ Hr1), Ha1, Ha'. reflexivity.
Qed.

(* The builder after any history, and the builder [b0] that got the accepted appends only:
   [b0] exists, it accepted every one of them, it is not exported, and it is equivalent. *)
Theorem clean_builder max thr ops b : brun (empty_builder max thr) ops = Ok b ->
  let acc := accepted_of (empty_builder max thr) ops in
  exists b0, brun (empty_builder max thr) acc = Ok b0 /\
    accepted_of (empty_builder max thr) acc = acc /\
    Forall is_append acc /\ bd_done b0 = false /\ bd_equiv b b0.
Proof.
  intros H acc. pose proof (brun_grun _ _ _ H) as Hg.
  destruct (grun_clean _ _ _ _ Hg _ (bd_equiv_refl _)) as (b0 & Hr & Ha & Hq).
  exists b0. split; [exact Hr|]. split; [exact Ha|]. split; [apply accepted_of_appends|]. split; [|exact Hq].
  eapply (appends_not_done _ (empty_builder max thr)); [apply accepted_of_appends|reflexivity|exact Hr].
Qed.

(* MAIN THEOREM (builder level): at every point of every history the live builder's
   queries return what they return on the clean builder.  Outcomes are compared in full
   (value, Err or Fault); [omap snd] drops the returned builder state. *)
Theorem live_queries max thr ops b : brun (empty_builder max thr) ops = Ok b ->
  let acc := accepted_of (empty_builder max thr) ops in
  exists b0, brun (empty_builder max thr) acc = Ok b0 /\
    accepted_of (empty_builder max thr) acc = acc /\
    bd_txs b = bd_txs b0 /\ map pfb_tx (bd_pfbs b) = map pfb_tx (bd_pfbs b0) /\
    (forall ti, omap snd (find_tx_share_range b ti) = omap snd (find_tx_share_range b0 ti)) /\
    (forall pi bi, omap snd (find_blob_starting_index b pi bi) = omap snd (find_blob_starting_index b0 pi bi)) /\
    (forall pi bi, blob_share_length b pi bi = blob_share_length b0 pi bi) /\
    (forall ti, omap snd (get_wrapped_pfb b ti) = omap snd (get_wrapped_pfb b0 ti)) /\
    (forall pi bi, live_blob_share_range b pi bi = live_blob_share_range b0 pi bi).
Proof.
  intros H acc. destruct (clean_builder _ _ _ _ H) as (b0 & Hr & Ha & _ & Hd & Hq).
  exists b0. split; [exact Hr|]. split; [exact Ha|]. split; [apply (bd_equiv_txs _ _ Hq)|]. split.
  - pose proof (bd_equiv_pfbs _ _ Hq) as Hs. apply (f_equal (map fst)) in Hs.
    unfold shape in Hs. rewrite !map_map in Hs. exact Hs.
  - apply live_queries_equiv; [eapply linv_reachable; exact H|exact Hq|exact Hd].
Qed.

(* ---------- bridge to the stateless functions over raw transactions ---------- *)

(* the accepted transactions, in the builder's order: ordinary ones, then blob transactions *)
Definition normals_of (acc : list bop) : list bytes :=
  flat_map (fun o => match o with BTx tx => [tx] | _ => [] end) acc.
Definition btxs_of (acc : list bop) : list blob_tx :=
  flat_map (fun o => match o with BBlobTx t => [t] | _ => [] end) acc.

Lemma accepted_of_length ops : forall b, (length (accepted_of b ops) <= length ops)%nat.
Proof.
  induction ops as [|o tl IH]; intros b; cbn [accepted_of length]; [lia|].
  destruct (bstep b o) as [b1| |]; cbn [length]; try lia.
  rewrite app_length. specialize (IH b1).
  assert (length (accepted_op b o) <= 1)%nat; [|lia].
  destruct o; cbn [accepted_op length]; try lia.
  - destruct (snd (append_tx b tx)); cbn [length]; lia.
  - destruct (snd (append_blob_tx b t)); cbn [length]; lia.
Qed.

(* a run in which every append is accepted, taken apart *)
Lemma accepted_all_tx c tx tl : accepted_of c (BTx tx :: tl) = BTx tx :: tl ->
  snd (append_tx c tx) = true /\ accepted_of (fst (append_tx c tx)) tl = tl.
Proof.
  cbn [accepted_of bstep accepted_op]. destruct (snd (append_tx c tx)); cbn [app]; intros H.
  - injection H as H1. split; [reflexivity|exact H1].
  - exfalso. pose proof (accepted_of_length tl (fst (append_tx c tx))) as Hl. rewrite H in Hl.
    cbn [length] in Hl. lia.
Qed.

Lemma accepted_all_blob_tx c t tl : accepted_of c (BBlobTx t :: tl) = BBlobTx t :: tl ->
  snd (append_blob_tx c t) = true /\ accepted_of (fst (append_blob_tx c t)) tl = tl.
Proof.
  cbn [accepted_of bstep accepted_op]. destruct (snd (append_blob_tx c t)); cbn [app]; intros H.
  - injection H as H1. split; [reflexivity|exact H1].
  - exfalso. pose proof (accepted_of_length tl (fst (append_blob_tx c t))) as Hl. rewrite H in Hl.
    cbn [length] in Hl. lia.
Qed.

(* the clean builder is in the correspondence [corr] of Proofs/RefinementProofs1.v with the
   two lists of accepted transactions - in whatever order the appends were interleaved *)
Lemma brun_corr max thr : 1 <= thr -> forall acc c n bt c',
  Forall is_append acc -> accepted_of c acc = acc -> corr max thr c n bt ->
  Forall c07_btx_ok (btxs_of acc) -> brun c acc = Ok c' ->
  corr max thr c' (n ++ normals_of acc) (bt ++ btxs_of acc).
Proof.
  intros Ht. induction acc as [|o tl IH]; intros c n bt c' Ha Hacc C Hok H.
  - cbn [brun] in H. inversion H; subst. cbn [normals_of btxs_of flat_map]. rewrite !app_nil_r. exact C.
  - apply Forall_cons_iff in Ha as [Ho Ha]. destruct o; cbn [is_append] in Ho; try contradiction.
    + destruct (accepted_all_tx _ _ _ Hacc) as [Hd Hacc']. cbn [brun bstep bind] in H.
      destruct (step_tx max thr c n bt tx Ht C) as (_ & Hstep & _).
      pose proof (IH _ _ _ _ Ha Hacc' (Hstep Hd) Hok H) as C'.
      cbn [normals_of btxs_of flat_map app] in *. rewrite <- app_assoc in C'. exact C'.
    + destruct (accepted_all_blob_tx _ _ _ Hacc) as [Hd Hacc']. cbn [brun bstep bind] in H.
      cbn [btxs_of flat_map app] in Hok. apply Forall_cons_iff in Hok as [Hok1 Hok].
      destruct (step_blob_tx max thr c n bt t Ht C Hok1) as (_ & Hstep & _).
      pose proof (IH _ _ _ _ Ha Hacc' (Hstep Hd) Hok H) as C'.
      cbn [normals_of btxs_of flat_map app] in *. rewrite <- app_assoc in C'. exact C'.
Qed.

Lemma cenc_at_cnt_eq c c' L : cenc_at c L -> cenc_at c' L -> cnt_eq c c'.
Proof. intros (_ & H1 & H2) (_ & H3 & H4). split; congruence. Qed.

(* two builders in correspondence with the same lists are equivalent (indeed they differ
   at most in the undo fields of the counters) *)
Lemma corr_equiv max thr b c n bt : 1 <= thr -> corr max thr b n bt -> corr max thr c n bt -> bd_equiv b c.
Proof.
  intros Ht B C. pose proof (co_acc _ _ _ _ _ B) as IB. pose proof (co_acc _ _ _ _ _ C) as IC.
  constructor.
  - rewrite (inv_max _ _ _ IB), (inv_max _ _ _ IC). reflexivity.
  - rewrite (inv_thr _ _ _ IB), (inv_thr _ _ _ IC). reflexivity.
  - rewrite (corr_cur _ _ _ _ _ Ht B), (corr_cur _ _ _ _ _ Ht C). reflexivity.
  - rewrite (co_txs _ _ _ _ _ B), (co_txs _ _ _ _ _ C). reflexivity.
  - rewrite (co_pfbs _ _ _ _ _ B), (co_pfbs _ _ _ _ _ C). reflexivity.
  - rewrite (co_blobs _ _ _ _ _ B), (co_blobs _ _ _ _ _ C). reflexivity.
  - pose proof (inv_txc _ _ _ IB) as H1. pose proof (inv_txc _ _ _ IC) as H2.
    rewrite (co_txs _ _ _ _ _ B) in H1. rewrite (co_txs _ _ _ _ _ C) in H2.
    eapply cenc_at_cnt_eq; eassumption.
  - pose proof (inv_pfbc _ _ _ IB) as H1. pose proof (inv_pfbc _ _ _ IC) as H2.
    rewrite (co_pfbs _ _ _ _ _ B) in H1. rewrite (co_pfbs _ _ _ _ _ C) in H2.
    eapply cenc_at_cnt_eq; eassumption.
Qed.

(* NewBuilder(max, thr, normals ++ blob txs) on the raw bytes of the accepted transactions *)
Lemma new_builder_accepted max thr normals btxs braws b0 : 1 <= thr ->
  new_builder_ok (Z.of_N max) = true ->
  corr max thr b0 normals btxs ->
  Forall (fun r => unmarshal_blob_tx r = UbtNot) normals ->
  Forall2 (fun r t => unmarshal_blob_tx r = UbtOk t) braws btxs ->
  exists b', new_builder_txs (Z.of_N max) thr (normals ++ braws) = Ok b' /\
    bd_done b' = false /\ bd_equiv b0 b'.
Proof.
  intros Ht Hmax C Hn Hb.
  assert (Hraws : c07_raws_ok (normals ++ braws)).
  { apply Forall_app. split.
    - eapply Forall_impl; [|exact Hn]. intros r Hr t Hu. congruence.
    - pose proof (co_ok _ _ _ _ _ C) as Hok. clear - Hb Hok.
      induction Hb as [|r t braws btxs Hr _ IH]; [constructor|].
      apply Forall_cons_iff in Hok as [Hok1 Hok]. constructor; [|apply IH; exact Hok].
      intros t' Hu. rewrite Hr in Hu. inversion Hu; subst. exact Hok1. }
  pose proof (construct_loop_spec max thr Ht (normals ++ braws) (empty_builder max thr) false [] []
                (corr_empty max thr) Hraws) as HS.
  rewrite (split_ordered_normals normals braws [] Hn) in HS. cbn [app] in HS.
  rewrite (split_ordered_blobs braws btxs Hb false normals []) in HS. cbn [app] in HS.
  pose proof (corr_fits _ _ _ _ _ Ht C) as Hfit.
  replace (estimate thr normals btxs <=? max * max) with true in HS by lia.
  destruct HS as (b' & Hc & C').
  exists b'. split; [|split].
  - unfold new_builder_txs. rewrite Hmax. cbn [negb]. rewrite N2Z.id. exact Hc.
  - apply (co_binv _ _ _ _ _ C').
  - eapply corr_equiv; eassumption.
Qed.

(* MAIN THEOREM (stateless form): at every point of every history, the live builder's
   FindTxShareRange, and FindBlobStartingIndex + BlobShareLength, return what the stateless
   TxShareRange / BlobShareRange return on the list of accepted transactions (ordinary ones
   first, then the blob transactions; [braws] are any byte strings that decode to the
   accepted blob transactions).  The builder holds exactly these transactions. *)
Theorem live_stateless max thr ops b braws : 1 <= thr -> new_builder_ok (Z.of_N max) = true ->
  brun (empty_builder max thr) ops = Ok b ->
  let acc := accepted_of (empty_builder max thr) ops in
  Forall c07_btx_ok (btxs_of acc) ->
  Forall (fun r => unmarshal_blob_tx r = UbtNot) (normals_of acc) ->
  Forall2 (fun r t => unmarshal_blob_tx r = UbtOk t) braws (btxs_of acc) ->
  let txs := normals_of acc ++ braws in
  bd_txs b = normals_of acc /\ map pfb_tx (bd_pfbs b) = map btx_tx (btxs_of acc) /\
  (forall ti, live_tx_share_range b ti = tx_share_range txs ti (Z.of_N max) thr) /\
  (forall pi bi, live_blob_share_range b pi bi = blob_share_range txs pi bi (Z.of_N max) thr).
Proof.
  intros Ht Hmax H acc Hok Hn Hb txs.
  destruct (clean_builder _ _ _ _ H) as (b0 & Hr & Ha & Happ & Hd & Hq). fold acc in Hr, Ha, Happ.
  pose proof (brun_corr max thr Ht acc _ [] [] b0 Happ Ha (corr_empty max thr) Hok Hr) as C.
  cbn [app] in C.
  destruct (new_builder_accepted max thr _ _ braws b0 Ht Hmax C Hn Hb) as (b' & Hnb & Hd' & Hq').
  pose proof (bd_equiv_trans _ _ _ Hq Hq') as Hbb'.
  pose proof (linv_reachable _ _ _ _ H) as I.
  split; [|split; [|split]].
  - rewrite (bd_equiv_txs _ _ Hq). apply (co_txs _ _ _ _ _ C).
  - pose proof (bd_equiv_pfbs _ _ Hq) as Hs. apply (f_equal (map fst)) in Hs.
    unfold shape in Hs. rewrite !map_map in Hs. cbn [pfb_shape fst] in Hs.
    etransitivity; [exact Hs|]. rewrite (co_pfbs _ _ _ _ _ C), map_map. reflexivity.
  - intros ti. rewrite tx_share_range_unfold. unfold txs. rewrite Hnb. cbn [bind].
    rewrite !live_tx_share_range_omap. apply find_tx_share_range_live; assumption.
  - intros pi bi. rewrite blob_share_range_unfold. unfold txs. rewrite Hnb. cbn [bind].
    apply live_blob_share_range_live; assumption.
Qed.

(* ---------- the statements as used in Properties/C12_live.v and C04_live.v ---------- *)

(* a reachable builder whose flag is set really is exported *)
Corollary done_builder_is_exported max thr ops b : brun (empty_builder max thr) ops = Ok b ->
  bd_done b = true -> exists b' sq, export b = Ok (b', sq) /\ bd_pfbs b' = bd_pfbs b.
Proof. intros H Hd. exact (li_done _ (linv_reachable _ _ _ _ H) Hd). Qed.

Theorem live_tx_queries max thr ops b : brun (empty_builder max thr) ops = Ok b ->
  let acc := accepted_of (empty_builder max thr) ops in
  exists b0, brun (empty_builder max thr) acc = Ok b0 /\
    accepted_of (empty_builder max thr) acc = acc /\
    bd_txs b = bd_txs b0 /\ map pfb_tx (bd_pfbs b) = map pfb_tx (bd_pfbs b0) /\
    (forall ti, omap snd (find_tx_share_range b ti) = omap snd (find_tx_share_range b0 ti)) /\
    (forall ti, omap snd (get_wrapped_pfb b ti) = omap snd (get_wrapped_pfb b0 ti)).
Proof.
  intros H acc. destruct (live_queries _ _ _ _ H) as (b0 & H1 & H2 & H3 & H4 & H5 & _ & _ & H8 & _).
  exists b0. repeat split; assumption.
Qed.

Theorem live_blob_queries max thr ops b : brun (empty_builder max thr) ops = Ok b ->
  let acc := accepted_of (empty_builder max thr) ops in
  exists b0, brun (empty_builder max thr) acc = Ok b0 /\
    accepted_of (empty_builder max thr) acc = acc /\
    (forall pi bi, omap snd (find_blob_starting_index b pi bi) = omap snd (find_blob_starting_index b0 pi bi)) /\
    (forall pi bi, blob_share_length b pi bi = blob_share_length b0 pi bi) /\
    (forall pi bi, live_blob_share_range b pi bi = live_blob_share_range b0 pi bi).
Proof.
  intros H acc. destruct (live_queries _ _ _ _ H) as (b0 & H1 & H2 & _ & _ & _ & H6 & H7 & _ & H9).
  exists b0. repeat split; assumption.
Qed.

(* closed form: the live answer is the exact share range in the square of the accepted
   transactions ([builder_tx_range] of Proofs/TxRangeProofs.v on the exported clean builder) *)
Corollary live_tx_range_closed max thr ops b ti : brun (empty_builder max thr) ops = Ok b ->
  exists b0, brun (empty_builder max thr) (accepted_of (empty_builder max thr) ops) = Ok b0 /\
    omap snd (find_tx_share_range b ti) =
    do r <- export b0;
    if ((ti <? 0) || (Z.of_nat (length (bd_txs (fst r)) + length (bd_pfbs (fst r))) <=? ti))%Z then Err
    else Ok (zpair (builder_tx_range (fst r) (Z.to_nat ti))).
Proof.
  intros H. destruct (clean_builder _ _ _ _ H) as (b0 & Hr & _ & _ & Hd & Hq).
  exists b0. split; [exact Hr|].
  rewrite (find_tx_share_range_live b b0 ti (linv_reachable _ _ _ _ H) Hq Hd).
  rewrite find_tx_share_range_eq. unfold ensure_done. rewrite Hd.
  destruct (export b0) as [r| |]; cbn [bind omap]; try reflexivity.
  destruct (_ || _)%bool; reflexivity.
Qed.

Theorem live_stateless_tx max thr ops b braws : 1 <= thr -> new_builder_ok (Z.of_N max) = true ->
  brun (empty_builder max thr) ops = Ok b ->
  let acc := accepted_of (empty_builder max thr) ops in
  Forall c07_btx_ok (btxs_of acc) ->
  Forall (fun r => unmarshal_blob_tx r = UbtNot) (normals_of acc) ->
  Forall2 (fun r t => unmarshal_blob_tx r = UbtOk t) braws (btxs_of acc) ->
  bd_txs b = normals_of acc /\ map pfb_tx (bd_pfbs b) = map btx_tx (btxs_of acc) /\
  forall ti, live_tx_share_range b ti = tx_share_range (normals_of acc ++ braws) ti (Z.of_N max) thr.
Proof.
  intros Ht Hmax H acc Hok Hn Hb.
  destruct (live_stateless max thr ops b braws Ht Hmax H Hok Hn Hb) as (H1 & H2 & H3 & _).
  repeat split; assumption.
Qed.

Theorem live_stateless_blob max thr ops b braws : 1 <= thr -> new_builder_ok (Z.of_N max) = true ->
  brun (empty_builder max thr) ops = Ok b ->
  let acc := accepted_of (empty_builder max thr) ops in
  Forall c07_btx_ok (btxs_of acc) ->
  Forall (fun r => unmarshal_blob_tx r = UbtNot) (normals_of acc) ->
  Forall2 (fun r t => unmarshal_blob_tx r = UbtOk t) braws (btxs_of acc) ->
  forall pi bi, live_blob_share_range b pi bi = blob_share_range (normals_of acc ++ braws) pi bi (Z.of_N max) thr.
Proof.
  intros Ht Hmax H acc Hok Hn Hb.
  destruct (live_stateless max thr ops b braws Ht Hmax H Hok Hn Hb) as (_ & _ & _ & H4). exact H4.
Qed.

(* ---------- a concrete history (used by the Examples of the Properties files) ---------- *)

(* maximum side 8, threshold 1.  A blob transaction with one 100-byte blob (one share); a
   query; a 40000-byte transaction that is refused (84 shares do not fit into 8 x 8); a
   600-byte ordinary transaction (two compact shares) that is accepted; queries again *)
Definition lx_blob : blob := mk_blob (LayoutShapeProofs.ex_ns Byte.x01) (repeat Byte.x07 100) 0 None.
Definition lx_btx : blob_tx := mk_btx [Byte.x0a; Byte.x0b] [lx_blob].
Definition lx_t600 : bytes := repeat Byte.x01 600.
Definition lx_big : bytes := repeat Byte.x02 (N.to_nat 40000).
Definition lx_e : builder := empty_builder 8 1.
Definition lx_ops1 : list bop := [BBlobTx lx_btx; BFindBlob 0 0].
Definition lx_ops2 : list bop := lx_ops1 ++ [BTx lx_big].
Definition lx_ops3 : list bop := lx_ops2 ++ [BTx lx_t600].
Definition lx_ops4 : list bop := lx_ops3 ++ [BFindTx 0; BWrapped 1].
Definition lx_raw : bytes := blob_tx_bytes lx_btx.

Lemma lx_btx_ok : c07_btx_ok lx_btx.
Proof.
  constructor; [|constructor]. split; [|vm_compute; reflexivity].
  apply LayoutShapeProofs.ex_blob_ok; [discriminate|vm_compute; reflexivity|left; reflexivity].
Qed.

Lemma lx_accepted :
  accepted_of lx_e lx_ops1 = [BBlobTx lx_btx] /\ accepted_of lx_e lx_ops2 = [BBlobTx lx_btx] /\
  accepted_of lx_e lx_ops3 = [BBlobTx lx_btx; BTx lx_t600] /\
  accepted_of lx_e lx_ops4 = [BBlobTx lx_btx; BTx lx_t600].
Proof. vm_compute. repeat split; reflexivity. Qed.

(* the hypotheses of [live_stateless] hold at each of the four points of the history *)
Lemma lx_hyps ops : In ops [lx_ops1; lx_ops2; lx_ops3; lx_ops4] ->
  1 <= 1 /\ new_builder_ok (Z.of_N 8) = true /\ is_ok (brun lx_e ops) = true /\
  Forall c07_btx_ok (btxs_of (accepted_of lx_e ops)) /\
  Forall (fun r => unmarshal_blob_tx r = UbtNot) (normals_of (accepted_of lx_e ops)) /\
  Forall2 (fun r t => unmarshal_blob_tx r = UbtOk t) [lx_raw] (btxs_of (accepted_of lx_e ops)).
Proof.
  destruct lx_accepted as (A1 & A2 & A3 & A4).
  assert (Hdec : unmarshal_blob_tx lx_raw = UbtOk lx_btx) by (vm_compute; reflexivity).
  assert (Hnot : unmarshal_blob_tx lx_t600 = UbtNot) by (vm_compute; reflexivity).
  intros [<-|[<-|[<-|[<-|[]]]]]; rewrite ?A1, ?A2, ?A3, ?A4; cbn [btxs_of normals_of flat_map app];
    (split; [lia|]); (split; [reflexivity|]); (split; [vm_compute; reflexivity|]);
    (split; [constructor; [exact lx_btx_ok|constructor]|]);
    (split; [repeat constructor; exact Hnot|]); (constructor; [exact Hdec|constructor]).
Qed.

(* ---------- liberal histories: exports and queries that return an error ---------- *)

(* [brun] stops at the first export or query that returns an error (the model functions then
   return no builder).  In Go the builder lives on.  What such a call leaves behind:
   - the builder unchanged (an index check failed before the export, or the flag was set);
   - the exported builder (the export inside the query succeeded, the error came after);
   - a partly exported builder ([failed_export]: blobs sorted in place, some indexes
     overwritten) - only if the flag was NOT set, and Export, which sets the flag last,
     leaves it unset.
   (Proofs/BuilderHistoryProofs.v has the coarser [gstep], which allows the third case
   also with the flag set.) *)
Definition lstep (b : builder) (o : bop) (b' : builder) : Prop :=
  match o with
  | BTx tx => b' = fst (append_tx b tx)
  | BBlobTx t => b' = fst (append_blob_tx b t)
  | _ => b' = b \/ (exists sq, export b = Ok (b', sq)) \/ (bd_done b = false /\ failed_export b b')
  end.

Inductive lrun : builder -> list bop -> list bop -> builder -> Prop :=
| lrun_nil b : lrun b [] [] b
| lrun_cons b o b1 ops acc b' :
    lstep b o b1 -> lrun b1 ops acc b' -> lrun b (o :: ops) (accepted_op b o ++ acc) b'.

Lemma lstep_gstep b o b' : lstep b o b' -> gstep b o b'.
Proof.
  destruct o; cbn [lstep gstep]; try tauto;
    (intros [H|[H|[_ H]]]; [left; exact H|right; left; exact H|right; right; exact H]).
Qed.

Lemma lrun_grun b ops acc b' : lrun b ops acc b' -> grun b ops acc b'.
Proof. induction 1; econstructor; [apply lstep_gstep|]; eassumption. Qed.

Lemma ensure_done_lstep b b1 : ensure_done b = Ok b1 -> b1 = b \/ exists sq, export b = Ok (b1, sq).
Proof.
  unfold ensure_done. destruct (bd_done b); [intros H; inversion H; left; reflexivity|].
  destruct (export b) as [[b2 sq]| |] eqn:E; cbn [bind fst]; try discriminate.
  intros H; inversion H; subst. right. exists sq. reflexivity.
Qed.

(* the histories of [brun] are liberal histories *)
Lemma bstep_lstep b o b' : bstep b o = Ok b' -> lstep b o b'.
Proof.
  destruct o; cbn [bstep lstep]; intros H.
  - inversion H. reflexivity.
  - inversion H. reflexivity.
  - destruct (export b) as [[b2 sq]| |] eqn:E; cbn [bind fst] in H; try discriminate. inversion H; subst.
    right. left. exists sq. reflexivity.
  - destruct (find_tx_share_range b i) as [[b2 r]| |] eqn:E; cbn [bind fst] in H; try discriminate.
    inversion H; subst. apply find_tx_share_range_state, ensure_done_lstep in E. tauto.
  - destruct (find_blob_starting_index b p j) as [[b2 r]| |] eqn:E; cbn [bind fst] in H; try discriminate.
    inversion H; subst. apply find_blob_starting_index_state, ensure_done_lstep in E. tauto.
  - destruct (get_wrapped_pfb b i) as [[b2 r]| |] eqn:E; cbn [bind fst] in H; try discriminate.
    inversion H; subst. apply get_wrapped_pfb_state, ensure_done_lstep in E. tauto.
Qed.

Lemma brun_lrun ops : forall b b', brun b ops = Ok b' -> lrun b ops (accepted_of b ops) b'.
Proof.
  induction ops as [|o tl IH]; intros b b' H; cbn [brun accepted_of] in *.
  - inversion H. constructor.
  - destruct (bstep b o) as [b1| |] eqn:E; cbn [bind] in H; try discriminate.
    econstructor; [apply bstep_lstep; exact E|apply IH; exact H].
Qed.

Lemma linv_failed_export b b' : linv b -> bd_done b = false -> failed_export b b' -> linv b'.
Proof.
  intros I Hd Hf. destruct (visited_equiv b b' (or_intror (or_intror Hf))) as [_ Hcov].
  destruct Hf as (P & Hs & ->). specialize (Hcov (li_cover _ I)).
  constructor; cbn [bd_pfbc bd_pfbs bd_blobs bd_done] in *.
  - exact Hcov.
  - apply (li_cnt _ I).
  - intros H0. rewrite (li_pfbs _ I H0) in Hs. apply shape_nil. exact Hs.
  - eapply Permutation_NoDup; [|apply (li_nodup _ I)]. apply Permutation_map, Permutation_sym, sort_elements_perm.
  - rewrite (shape_lenN _ _ Hs). eapply Permutation_Forall; [|apply (li_range _ I)].
    apply Permutation_sym, sort_elements_perm.
  - rewrite Hd. discriminate.
Qed.

Lemma linv_lstep b o b' : linv b -> lstep b o b' -> linv b'.
Proof.
  intros I. destruct o; cbn [lstep]; intros H;
    try (destruct H as [->|[(sq & E)|[Hd Hf]]];
         [exact I|eapply linv_export; eassumption|eapply linv_failed_export; eassumption]).
  - subst. apply linv_append_tx. exact I.
  - subst. apply linv_append_blob_tx. exact I.
Qed.

Lemma linv_lrun b ops acc b' : lrun b ops acc b' -> linv b -> linv b'.
Proof. induction 1; intros I; [exact I|]. apply IHlrun. eapply linv_lstep; eassumption. Qed.

(* MAIN THEOREM for liberal histories: also after exports and queries that returned errors,
   the live builder answers like the clean builder *)
Theorem live_queries_liberal max thr ops acc b : lrun (empty_builder max thr) ops acc b ->
  exists b0, brun (empty_builder max thr) acc = Ok b0 /\
    accepted_of (empty_builder max thr) acc = acc /\
    linv b /\ bd_done b0 = false /\ bd_equiv b b0 /\
    (forall ti, omap snd (find_tx_share_range b ti) = omap snd (find_tx_share_range b0 ti)) /\
    (forall pi bi, omap snd (find_blob_starting_index b pi bi) = omap snd (find_blob_starting_index b0 pi bi)) /\
    (forall pi bi, blob_share_length b pi bi = blob_share_length b0 pi bi) /\
    (forall ti, omap snd (get_wrapped_pfb b ti) = omap snd (get_wrapped_pfb b0 ti)) /\
    (forall pi bi, live_blob_share_range b pi bi = live_blob_share_range b0 pi bi).
Proof.
  intros H. pose proof (linv_lrun _ _ _ _ H (linv_empty max thr)) as I.
  destruct (grun_clean _ _ _ _ (lrun_grun _ _ _ _ H) _ (bd_equiv_refl _)) as (b0 & Hr & Ha & Hq).
  assert (Happ : Forall is_append acc).
  { clear - H. induction H; [constructor|]. apply Forall_app. split; [apply accepted_op_appends|assumption]. }
  assert (Hd : bd_done b0 = false).
  { eapply (appends_not_done _ (empty_builder max thr)); [exact Happ|reflexivity|exact Hr]. }
  exists b0. split; [exact Hr|]. split; [exact Ha|]. split; [exact I|]. split; [exact Hd|]. split; [exact Hq|].
  apply live_queries_equiv; assumption.
Qed.
