(* C14 (builder half), part 1: [sort_elements] is THE stable sort by namespace.
   It returns a sorted permutation of its input in which elements with equal
   namespace keep their input order; a list with these properties is unique, so the
   insertion sort of the model and Go's sort.SliceStable (whose documented contract
   is exactly: sorted, permutation, equal elements keep their order) agree.  The
   lemma behind history independence is [sort_sort_app]. *)
From Coq Require Import List Arith NArith Lia Bool Permutation Sorted.
From GS.Model Require Import Base Namespace ShareFmt Blob Builder.
From GS.Proofs Require Import BaseLemmas NamespaceProofs.
Import ListNotations.

(* the sort key *)
Definition el_ns (e : element) : bytes := b_ns (e_blob e).

(* non-decreasing namespace *)
Definition el_le (x y : element) : Prop := bytes_cmp (el_ns x) (el_ns y) <> Gt.

(* "has namespace ns" *)
Definition has_ns (ns : bytes) (e : element) : bool :=
  match bytes_cmp (el_ns e) ns with Eq => true | _ => false end.

Lemma has_ns_true ns e : has_ns ns e = true <-> el_ns e = ns.
Proof.
  unfold has_ns. rewrite <- bytes_cmp_eq.
  destruct (bytes_cmp (el_ns e) ns); split; (reflexivity || discriminate).
Qed.

Lemma has_ns_self e : has_ns (el_ns e) e = true.
Proof. apply has_ns_true. reflexivity. Qed.

(* ---------- the order ---------- *)

Lemma el_le_refl x : el_le x x.
Proof. unfold el_le. rewrite bytes_cmp_refl. discriminate. Qed.

Lemma bytes_cmp_gt_lt a b : bytes_cmp a b = Gt <-> bytes_cmp b a = Lt.
Proof.
  rewrite (bytes_cmp_antisym a b). destruct (bytes_cmp a b); cbn [CompOpp]; split; (reflexivity || discriminate).
Qed.

Lemma el_le_trans x y z : el_le x y -> el_le y z -> el_le x z.
Proof.
  unfold el_le. intros H1 H2 H3. apply bytes_cmp_gt_lt in H3.
  destruct (bytes_cmp (el_ns x) (el_ns y)) eqn:E1; [| |exact (H1 eq_refl)].
  - apply bytes_cmp_eq in E1. rewrite E1 in H3. apply bytes_cmp_gt_lt in H3. exact (H2 H3).
  - destruct (bytes_cmp (el_ns y) (el_ns z)) eqn:E2; [| |exact (H2 eq_refl)].
    + apply bytes_cmp_eq in E2. rewrite <- E2 in H3.
      apply bytes_cmp_gt_lt in H3. rewrite H3 in E1. discriminate.
    + pose proof (bytes_cmp_trans _ _ _ E1 E2) as H. apply bytes_cmp_gt_lt in H3.
      rewrite H in H3. discriminate.
Qed.

Lemma el_le_antisym x y : el_le x y -> el_le y x -> el_ns x = el_ns y.
Proof.
  unfold el_le. intros H1 H2.
  destruct (bytes_cmp (el_ns x) (el_ns y)) eqn:E; [apply bytes_cmp_eq; exact E| |exact (False_ind _ (H1 eq_refl))].
  exfalso. apply H2. apply bytes_cmp_gt_lt. exact E.
Qed.

Lemma el_le_total x y : el_le x y \/ el_le y x.
Proof.
  unfold el_le. destruct (bytes_cmp (el_ns x) (el_ns y)) eqn:E.
  - left. discriminate.
  - left. discriminate.
  - right. apply bytes_cmp_gt_lt in E. rewrite E. discriminate.
Qed.

(* ---------- permutation ---------- *)

Lemma insert_el_perm e l : Permutation (insert_el e l) (e :: l).
Proof.
  induction l as [|x tl IH]; cbn [insert_el]; [apply Permutation_refl|].
  destruct (bytes_cmp (b_ns (e_blob e)) (b_ns (e_blob x))); try apply Permutation_refl.
  eapply Permutation_trans; [apply perm_skip; exact IH|apply perm_swap].
Qed.

Theorem sort_elements_perm l : Permutation (sort_elements l) l.
Proof.
  induction l as [|e l IH]; [apply Permutation_refl|].
  change (sort_elements (e :: l)) with (insert_el e (sort_elements l)).
  eapply Permutation_trans; [apply insert_el_perm|apply perm_skip; exact IH].
Qed.

Lemma sort_elements_length l : length (sort_elements l) = length l.
Proof. apply Permutation_length, sort_elements_perm. Qed.

Lemma sort_elements_in l e : In e (sort_elements l) <-> In e l.
Proof.
  split; apply Permutation_in; [|apply Permutation_sym]; apply sort_elements_perm.
Qed.

(* ---------- sortedness ---------- *)

Lemma insert_el_sorted e l : StronglySorted el_le l -> StronglySorted el_le (insert_el e l).
Proof.
  induction 1 as [|x tl Hs IH Hx]; cbn [insert_el]; [repeat constructor|].
  fold (el_ns e). fold (el_ns x).
  destruct (bytes_cmp (el_ns e) (el_ns x)) eqn:E.
  - assert (Hex : el_le e x) by (unfold el_le; rewrite E; discriminate).
    constructor; [constructor; assumption|].
    constructor; [exact Hex|]. eapply Forall_impl; [|exact Hx].
    intros a Ha. eapply el_le_trans; eassumption.
  - assert (Hex : el_le e x) by (unfold el_le; rewrite E; discriminate).
    constructor; [constructor; assumption|].
    constructor; [exact Hex|]. eapply Forall_impl; [|exact Hx].
    intros a Ha. eapply el_le_trans; eassumption.
  - constructor; [exact IH|].
    assert (Hxe : el_le x e).
    { unfold el_le. apply bytes_cmp_gt_lt in E. rewrite E. discriminate. }
    rewrite Forall_forall. intros a Ha.
    apply (Permutation_in _ (insert_el_perm e tl)) in Ha. destruct Ha as [<-|Ha]; [exact Hxe|].
    rewrite Forall_forall in Hx. apply Hx. exact Ha.
Qed.

Theorem sort_elements_strongly_sorted l : StronglySorted el_le (sort_elements l).
Proof.
  induction l as [|e l IH]; [constructor|].
  change (sort_elements (e :: l)) with (insert_el e (sort_elements l)).
  apply insert_el_sorted. exact IH.
Qed.

(* adjacent elements are in non-decreasing namespace order *)
Theorem sort_elements_sorted l : Sorted el_le (sort_elements l).
Proof. apply StronglySorted_Sorted, sort_elements_strongly_sorted. Qed.

Lemma sorted_strongly l : Sorted el_le l -> StronglySorted el_le l.
Proof. apply Sorted_StronglySorted. intros x y z. apply el_le_trans. Qed.

(* ---------- stability ---------- *)

Lemma insert_el_filter ns e l :
  filter (has_ns ns) (insert_el e l) = filter (has_ns ns) (e :: l).
Proof.
  induction l as [|x tl IH]; cbn [insert_el]; [reflexivity|].
  fold (el_ns e). fold (el_ns x).
  destruct (bytes_cmp (el_ns e) (el_ns x)) eqn:E; try reflexivity.
  cbn [filter] in *. rewrite IH.
  destruct (has_ns ns e) eqn:He; [|reflexivity].
  destruct (has_ns ns x) eqn:Hx; [|reflexivity].
  apply has_ns_true in He, Hx. rewrite He, Hx, bytes_cmp_refl in E. discriminate.
Qed.

(* elements with equal namespace keep their input order *)
Theorem sort_elements_stable ns l :
  filter (has_ns ns) (sort_elements l) = filter (has_ns ns) l.
Proof.
  induction l as [|e l IH]; [reflexivity|].
  change (sort_elements (e :: l)) with (insert_el e (sort_elements l)).
  rewrite insert_el_filter. cbn [filter]. rewrite IH. reflexivity.
Qed.

(* ---------- uniqueness of the stable sort ---------- *)

Lemma filter_all_nil l : (forall ns, filter (has_ns ns) l = []) -> l = [].
Proof.
  destruct l as [|x l]; [reflexivity|]. intros H. specialize (H (el_ns x)).
  cbn [filter] in H. rewrite has_ns_self in H. discriminate.
Qed.

(* two sorted lists with the same per-namespace sublists are equal *)
Lemma sorted_stable_unique l1 : forall l2,
  StronglySorted el_le l1 -> StronglySorted el_le l2 ->
  (forall ns, filter (has_ns ns) l1 = filter (has_ns ns) l2) -> l1 = l2.
Proof.
  induction l1 as [|x l1 IH]; intros l2 S1 S2 F.
  - symmetry. apply filter_all_nil. intros ns. rewrite <- F. reflexivity.
  - destruct l2 as [|y l2].
    + apply filter_all_nil. intros ns. rewrite F. reflexivity.
    + inversion S1 as [|? ? S1' Hx]; subst. inversion S2 as [|? ? S2' Hy]; subst.
      rewrite Forall_forall in Hx, Hy.
      (* the heads have the same namespace *)
      assert (Hyx : el_le y x).
      { assert (Hin : In x (filter (has_ns (el_ns x)) (y :: l2))).
        { rewrite <- F. cbn [filter]. rewrite has_ns_self. left. reflexivity. }
        apply filter_In in Hin. destruct Hin as [[<-|Hin] _]; [apply el_le_refl|apply Hy; exact Hin]. }
      assert (Hxy : el_le x y).
      { assert (Hin : In y (filter (has_ns (el_ns y)) (x :: l1))).
        { rewrite F. cbn [filter]. rewrite has_ns_self. left. reflexivity. }
        apply filter_In in Hin. destruct Hin as [[<-|Hin] _]; [apply el_le_refl|apply Hx; exact Hin]. }
      pose proof (el_le_antisym _ _ Hxy Hyx) as Hns.
      (* hence the heads are equal *)
      assert (x = y).
      { pose proof (F (el_ns x)) as Fx. cbn [filter] in Fx. rewrite has_ns_self in Fx.
        rewrite Hns in Fx at 2. rewrite has_ns_self in Fx. inversion Fx. reflexivity. }
      subst y. f_equal. apply IH; [assumption|assumption|].
      intros ns. specialize (F ns). cbn [filter] in F.
      destruct (has_ns ns x); [inversion F; reflexivity|exact F].
Qed.

(* a sorted list with the per-namespace sublists of [l] is [sort_elements l] *)
Theorem stable_sort_unique_strong l l' :
  Sorted el_le l' ->
  (forall ns, filter (has_ns ns) l' = filter (has_ns ns) l) ->
  l' = sort_elements l.
Proof.
  intros S F. apply sorted_stable_unique; [apply sorted_strongly; exact S|apply sort_elements_strongly_sorted|].
  intros ns. rewrite sort_elements_stable. apply F.
Qed.

(* the contract of sort.SliceStable determines its result: any sorted permutation of
   [l] that keeps the order of equal-namespace elements is [sort_elements l] *)
Theorem stable_sort_unique l l' :
  Permutation l' l -> Sorted el_le l' ->
  (forall ns, filter (has_ns ns) l' = filter (has_ns ns) l) ->
  l' = sort_elements l.
Proof. intros _. apply stable_sort_unique_strong. Qed.

(* ... and [sort_elements] satisfies that contract *)
Theorem sort_elements_is_stable_sort l :
  Permutation (sort_elements l) l /\ Sorted el_le (sort_elements l) /\
  (forall ns, filter (has_ns ns) (sort_elements l) = filter (has_ns ns) l).
Proof.
  split; [apply sort_elements_perm|]. split; [apply sort_elements_sorted|].
  intros ns. apply sort_elements_stable.
Qed.

(* ---------- re-sorting ---------- *)

Lemma sort_elements_of_sorted l : Sorted el_le l -> sort_elements l = l.
Proof. intros S. symmetry. apply stable_sort_unique_strong; [exact S|reflexivity]. Qed.

Theorem sort_elements_idem l : sort_elements (sort_elements l) = sort_elements l.
Proof. apply sort_elements_of_sorted, sort_elements_sorted. Qed.

(* sorting a list whose prefix was already sorted (an export between two appends)
   gives the same result as sorting the original list *)
Theorem sort_sort_app l l' :
  sort_elements (sort_elements l ++ l') = sort_elements (l ++ l').
Proof.
  apply stable_sort_unique_strong; [apply sort_elements_sorted|].
  intros ns. rewrite sort_elements_stable, !filter_app, sort_elements_stable. reflexivity.
Qed.

Lemma sort_app_congr l1 l2 l :
  sort_elements l1 = sort_elements l2 -> sort_elements (l1 ++ l) = sort_elements (l2 ++ l).
Proof. intros H. rewrite <- (sort_sort_app l1), <- (sort_sort_app l2), H. reflexivity. Qed.

Lemma sort_eq_perm l1 l2 : sort_elements l1 = sort_elements l2 -> Permutation l1 l2.
Proof.
  intros H. eapply Permutation_trans; [apply Permutation_sym, sort_elements_perm|].
  rewrite H. apply sort_elements_perm.
Qed.
