(* C12: transaction and blob share ranges are exact.

   1. arithmetic core: the counter-based start/end of FindTxShareRange (with its
      "remainder == 0" adjustment) are sidx start and sidx (end - 1) + 1;
   2. find_tx_share_range / tx_share_range as total functional equations (errors exactly
      outside [0, #txs + #pfbs), PFBs over their real wrapped size, shifted by the number
      of tx shares);
   3. the compact splitter's recorded ranges (counting invariant of the write loop);
   4. blob_share_range as a total functional equation;
   5. the unit lies inside its range; with C11 (SubrangeProofs) and the writer theorem
      (CompactWriterProofs): parsing just the range yields the transaction.
   Not covered here: where the two compact sequences lie inside the square (write_square:
   the tx sequence at share 0, the PFB sequence right after it) -- that is C01/C10; and that
   the recorded blob index is where the blob's shares really are -- that is C04
   (Proofs/BlobLayoutProofs.v). *)
From Coq Require Import List Arith NArith ZArith Lia Bool.
From Coq Require Import ZifyN ZifyNat ZifyBool.
From GS.Model Require Import Base Varint Namespace ShareFmt Blob Sparse Compact Counter Arith Proto Builder.
From GS.Spec Require Import ShareSpec CompactSpec.
From GS.Proofs Require Import BaseLemmas VarintProofs CounterProofs.
(* used only by the last section (parsing the range): C11 and the writer = closed form *)
From GS.Proofs Require SubrangeProofs CompactWriterProofs.
Import ListNotations.
Ltac Zify.zify_post_hook ::= Z.div_mod_to_equations.
Open Scope nat_scope.

Definition sidx (p : nat) : nat := if Nat.ltb p 474 then 0 else 1 + (p - 474) / 478.

Lemma sidx_enc p : enc_shares (Z.of_nat p) = Z.of_nat (sidx p).
Proof.
  unfold enc_shares, sidx.
  destruct (Nat.ltb p 474) eqn:E; destruct (Z.of_nat p <? 474)%Z eqn:E2; lia.
Qed.

Lemma sidx_bounds p : coff (sidx p) <= p < coff (sidx p) + ccap (sidx p).
Proof.
  unfold sidx. destruct (Nat.ltb p 474) eqn:E.
  - unfold coff, ccap. lia.
  - replace (1 + (p - 474) / 478) with (S ((p - 474) / 478)) by lia. unfold coff, ccap. lia.
Qed.

Lemma sidx_unique p j : coff j <= p < coff j + ccap j -> j = sidx p.
Proof.
  intros H. unfold sidx. destruct j as [|k]; unfold coff, ccap in H.
  - destruct (Nat.ltb p 474) eqn:E; lia.
  - destruct (Nat.ltb p 474) eqn:E; lia.
Qed.

Lemma coff_S j : coff (S j) = coff j + ccap j.
Proof. destruct j; unfold coff, ccap; lia. Qed.

Lemma coff_mono i j : i <= j -> coff i <= coff j.
Proof. intros H. destruct i, j; unfold coff; lia. Qed.

Lemma sidx_mono a b : a <= b -> sidx a <= sidx b.
Proof.
  intros H. unfold sidx.
  destruct (Nat.ltb a 474) eqn:E1; destruct (Nat.ltb b 474) eqn:E2; lia.
Qed.

Lemma sidx_coff j : sidx (coff j) = j.
Proof.
  symmetry. apply sidx_unique. destruct j; unfold coff, ccap; lia.
Qed.

(* The shares of a compact sequence that carry at least one byte of the stream interval
   [s, e) are exactly the shares sidx s .. sidx (e - 1) (share j carries the stream bytes
   [coff j, coff j + ccap j)). *)
Theorem share_set_exact s e j : s < e ->
  (exists p, s <= p < e /\ coff j <= p < coff j + ccap j) <-> sidx s <= j < sidx (e - 1) + 1.
Proof.
  intros Hse. split.
  - intros (p & Hp & Hj). apply sidx_unique in Hj. subst j.
    pose proof (sidx_mono s p). pose proof (sidx_mono p (e - 1)). lia.
  - intros Hj. exists (Nat.max s (coff j)).
    pose proof (sidx_bounds s) as Hs. pose proof (sidx_bounds (e - 1)) as He.
    pose proof (coff_mono j (sidx (e - 1))) as H1.
    pose proof (coff_mono (S (sidx s)) (S j)) as H2. rewrite !coff_S in H2.
    assert (0 < ccap j) by (destruct j; unfold ccap; lia).
    lia.
Qed.

(* the number of shares of a stream of L >= 1 bytes is the index of its last byte + 1 *)
Lemma cneeded_sidx L : 1 <= L -> cneeded L = sidx (L - 1) + 1.
Proof.
  intros H. unfold cneeded, sidx.
  destruct (Nat.eqb L 0) eqn:E0; [apply Nat.eqb_eq in E0; lia|].
  destruct (Nat.leb L 474) eqn:E1; destruct (Nat.ltb (L - 1) 474) eqn:E2; lia.
Qed.

Lemma needed_z_cneeded L : needed_z (Z.of_nat L) = Z.of_nat (cneeded L).
Proof.
  unfold needed_z, cneeded.
  destruct (Nat.eqb L 0) eqn:E0; destruct (Z.of_nat L <=? 0)%Z eqn:E1; try lia.
  destruct (Nat.leb L 474) eqn:E2; destruct (Z.of_nat L <? 474)%Z eqn:E3; try lia.
  - assert (L = 474) by lia. subst L. reflexivity.
  - destruct (0 <? (Z.of_nat L - 474) mod 478)%Z eqn:E4; lia.
Qed.

(* a sequence of L bytes fills shares 0 .. cneeded L - 1; the first byte after it would go
   to share sidx L *)
Lemma cneeded_ge_sidx L : sidx L <= cneeded L <= sidx L + 1.
Proof.
  unfold cneeded, sidx.
  destruct (Nat.eqb L 0) eqn:E0; destruct (Nat.leb L 474) eqn:E1; destruct (Nat.ltb L 474) eqn:E2; lia.
Qed.

(* ---- 1. the arithmetic core of FindTxShareRange ---- *)

(* the counter encodes a stream of L bytes *)
Definition cenc (c : counter) (L : nat) : Prop :=
  c_shares c = enc_shares (Z.of_nat L) /\ c_rem c = enc_rem (Z.of_nat L).

Lemma cenc_new : cenc new_counter 0.
Proof. split; reflexivity. Qed.

Lemma length_marshal_delimited t :
  Z.of_nat (length (marshal_delimited t)) =
  (Z.of_N (lenN t) + Z.of_N (delim_len (Z.to_N (Z.of_N (lenN t)))))%Z.
Proof.
  unfold marshal_delimited, delim_len, lenN. rewrite app_length, N2Z.id. lia.
Qed.

Lemma marshal_delimited_pos t : 1 <= length (marshal_delimited t).
Proof.
  unfold marshal_delimited. rewrite app_length. pose proof (put_uvarint_length (lenN t)). lia.
Qed.

Lemma cenc_add c L t : cenc c L ->
  cenc (fst (counter_add c (Z.of_N (lenN t)))) (L + length (marshal_delimited t)).
Proof.
  intros (Hs & Hr).
  destruct (counter_add_enc c (Z.of_nat L) (Z.of_N (lenN t))) as (A & B & _); try lia; try assumption.
  unfold cenc. rewrite Nat2Z.inj_add, length_marshal_delimited. split; assumption.
Qed.

Lemma cenc_size c L : cenc c L -> counter_size c = Z.of_nat (cneeded L).
Proof.
  intros (Hs & Hr). unfold counter_size. rewrite Hs, Hr, <- needed_z_cneeded.
  apply needed_z_enc. lia.
Qed.

Lemma cenc_start c L : cenc c L ->
  (if (counter_remainder c =? 0)%Z then counter_size c else counter_size c - 1)%Z = Z.of_nat (sidx L).
Proof.
  intros (Hs & Hr). unfold counter_size, counter_remainder. rewrite <- sidx_enc, <- Hs.
  destruct (c_rem c =? 0)%Z; lia.
Qed.

(* Part 1: with the counter at stream offset L (the start of a unit), the start share
   chosen by the "remainder == 0" test is the share of byte L, and after adding the unit
   the counter's size is one past the share of the unit's last byte. *)
Theorem counter_range_core c L t : cenc c L ->
  let c' := fst (counter_add c (Z.of_N (lenN t))) in
  let e := L + length (marshal_delimited t) in
  (if (counter_remainder c =? 0)%Z then counter_size c else counter_size c - 1)%Z = Z.of_nat (sidx L) /\
  counter_size c' = Z.of_nat (sidx (e - 1) + 1) /\
  cenc c' e.
Proof.
  intros H. cbn zeta. split; [apply cenc_start; exact H|].
  pose proof (cenc_add c L t H) as H'. split; [|exact H'].
  rewrite (cenc_size _ _ H'). f_equal. apply cneeded_sidx.
  pose proof (marshal_delimited_pos t). lia.
Qed.

(* ---- stream offsets of the units ---- *)
Definition ustart (txs : list bytes) (k : nat) : nat := length (stream (firstn k txs)).
Definition uend (txs : list bytes) (k : nat) : nat := length (stream (firstn (S k) txs)).
(* the shares of unit k of a sequence: [fst, snd) *)
Definition unit_range (txs : list bytes) (k : nat) : nat * nat :=
  (sidx (ustart txs k), sidx (uend txs k - 1) + 1).

Lemma stream_nil : stream [] = [].
Proof. reflexivity. Qed.
Lemma stream_cons t l : stream (t :: l) = marshal_delimited t ++ stream l.
Proof. reflexivity. Qed.
Lemma stream_app a b : stream (a ++ b) = stream a ++ stream b.
Proof. unfold stream, units. rewrite map_app, concat_app. reflexivity. Qed.

Lemma firstn_S_nth_error {A} (l : list A) : forall n x, nth_error l n = Some x ->
  firstn (S n) l = firstn n l ++ [x].
Proof.
  induction l as [|a l IH]; intros [|n] x H; cbn [nth_error] in H; try discriminate.
  - inversion H. subst. rewrite firstn_cons, !firstn_O. reflexivity.
  - rewrite !firstn_cons, (IH n x H). reflexivity.
Qed.

Lemma uend_nth txs k t : nth_error txs k = Some t ->
  uend txs k = ustart txs k + length (marshal_delimited t).
Proof.
  intros H. unfold uend, ustart. rewrite (firstn_S_nth_error _ _ _ H), stream_app, app_length.
  rewrite stream_cons, stream_nil, app_nil_r. reflexivity.
Qed.

(* [ustart] is the k-th entry of the start-offset list of Spec/CompactSpec.v *)
Lemma ustarts_nth : forall txs off k, k < length txs ->
  nth_error (ustarts off (units txs)) k = Some (off + ustart txs k).
Proof.
  induction txs as [|t tl IH]; intros off k Hk; cbn [length] in Hk; [lia|].
  destruct k as [|k].
  - unfold ustart. rewrite firstn_O, stream_nil. cbn. f_equal. lia.
  - cbn [units map ustarts nth_error]. fold (units tl). rewrite IH by lia.
    unfold ustart. rewrite firstn_cons, stream_cons, app_length. f_equal. lia.
Qed.

Lemma nth_error_firstn_lt {A} : forall n (l : list A) i, i < n -> nth_error (firstn n l) i = nth_error l i.
Proof.
  induction n as [|n IH]; intros l i H; [lia|].
  destruct l as [|a l]; [rewrite firstn_nil; reflexivity|].
  rewrite firstn_cons. destruct i as [|i]; [reflexivity|]. cbn [nth_error]. apply IH. lia.
Qed.
Lemma nth_error_skipn_add {A} : forall n (l : list A) i, nth_error (skipn n l) i = nth_error l (n + i).
Proof.
  induction n as [|n IH]; intros l i; [rewrite skipn_O; reflexivity|].
  destruct l as [|a l]; [rewrite skipn_nil; destruct i; reflexivity|].
  rewrite skipn_cons. cbn [Nat.add nth_error]. apply IH.
Qed.

(* byte p of the stream is byte p - coff j of the chunk carried by share j *)
Lemma cchunk_nth j s p : coff j <= p < coff j + ccap j ->
  nth_error (cchunk j s) (p - coff j) = nth_error s p.
Proof.
  intros H. unfold cchunk.
  rewrite nth_error_firstn_lt by lia. rewrite nth_error_skipn_add. f_equal. lia.
Qed.

(* ---- 2. FindTxShareRange ---- *)

(* the wrapped PFBs as written in the square (Export writes exactly these) *)
Definition wrapped (pfbs : list pfb) : list bytes :=
  map (fun p => marshal_index_wrapper (pfb_tx p) (pfb_idx p)) pfbs.

Lemma pfb_size_wrapped p : pfb_size p = Z.of_N (lenN (marshal_index_wrapper (pfb_tx p) (pfb_idx p))).
Proof. reflexivity. Qed.

Lemma count_prefix_enc : forall n txs pfbs txc pfbc A B, cenc txc A -> cenc pfbc B ->
  cenc (fst (count_prefix n txs pfbs txc pfbc)) (A + length (stream (firstn n txs))) /\
  cenc (snd (count_prefix n txs pfbs txc pfbc))
       (B + length (stream (firstn (n - length txs) (wrapped pfbs)))).
Proof.
  induction n as [|n IH]; intros txs pfbs txc pfbc A B HA HB.
  - cbn [count_prefix fst snd Nat.sub]. rewrite !firstn_O, stream_nil. cbn [length].
    rewrite !Nat.add_0_r. split; assumption.
  - cbn [count_prefix]. destruct txs as [|t tl].
    + cbn [length]. rewrite firstn_nil, stream_nil, Nat.sub_0_r. destruct pfbs as [|p ptl].
      * cbn [fst snd wrapped map length]. rewrite firstn_nil, stream_nil. cbn [length].
        rewrite !Nat.add_0_r. split; assumption.
      * rewrite pfb_size_wrapped.
        destruct (IH [] ptl txc _ A _ HA (cenc_add _ _ (marshal_index_wrapper (pfb_tx p) (pfb_idx p)) HB))
          as (H1 & H2).
        rewrite firstn_nil, stream_nil in H1. cbn [length] in H1, H2. rewrite Nat.sub_0_r in H2.
        split; [exact H1|].
        cbn [wrapped map]. fold (wrapped ptl). rewrite firstn_cons, stream_cons, app_length.
        rewrite Nat.add_assoc. exact H2.
    + destruct (IH tl pfbs _ pfbc _ B (cenc_add _ _ t HA) HB) as (H1 & H2).
      cbn [length Nat.sub]. rewrite firstn_cons, stream_cons, app_length, Nat.add_assoc.
      split; assumption.
Qed.

(* what FindTxShareRange does before counting: export unless already exported *)
Definition ensure_done (b : builder) : outcome builder :=
  if bd_done b then Ok b else do r <- export b; Ok (fst r).

(* the exact share range of transaction k of the square described by builder b:
   ordinary transactions in the first compact sequence, wrapped PFBs (with their recorded
   share indexes) in the second one, which starts right after the first *)
Definition builder_tx_range (b : builder) (k : nat) : nat * nat :=
  if Nat.ltb k (length (bd_txs b)) then unit_range (bd_txs b) k
  else
    let off := cneeded (length (stream (bd_txs b))) in
    let r := unit_range (wrapped (bd_pfbs b)) (k - length (bd_txs b)) in
    (off + fst r, off + snd r).

Definition zpair (r : nat * nat) : Z * Z := (Z.of_nat (fst r), Z.of_nat (snd r)).

Lemma nth_error_Some_lt {A} (l : list A) n : n < length l -> exists x, nth_error l n = Some x.
Proof.
  intros H. destruct (nth_error l n) eqn:E; [eexists; reflexivity|].
  apply nth_error_None in E. lia.
Qed.

(* Part 2: a complete functional description of FindTxShareRange: errors exactly for
   indexes outside [0, #txs + #pfbs), otherwise the exact range; a Fault can only come
   from Export. *)
Theorem find_tx_share_range_eq b ti :
  find_tx_share_range b ti =
  do b1 <- ensure_done b;
  if ((ti <? 0) || (Z.of_nat (length (bd_txs b1) + length (bd_pfbs b1)) <=? ti))%Z then Err
  else Ok (b1, zpair (builder_tx_range b1 (Z.to_nat ti))).
Proof.
  unfold find_tx_share_range. fold (ensure_done b).
  destruct (ensure_done b) as [b1| |]; cbn [bind]; try reflexivity.
  destruct (ti <? 0)%Z eqn:E0; cbn [orb]; [reflexivity|].
  unfold lenN. rewrite <- Nat2N.inj_add, nat_N_Z.
  destruct (Z.of_nat (length (bd_txs b1) + length (bd_pfbs b1)) <=? ti)%Z eqn:E1; [reflexivity|].
  pose proof (count_prefix_enc (Z.to_nat ti) (bd_txs b1) (bd_pfbs b1) _ _ 0 0 cenc_new cenc_new) as HC.
  destruct (count_prefix _ _ _ _ _) as [txc pfbc]. cbn [fst snd Nat.add] in HC.
  destruct HC as (Htx & Hpf). rewrite nat_N_Z, Nat2N.id.
  unfold builder_tx_range, zpair.
  destruct (ti <? Z.of_nat (length (bd_txs b1)))%Z eqn:E2.
  - replace (Nat.ltb (Z.to_nat ti) (length (bd_txs b1))) with true by lia.
    destruct (nth_error_Some_lt (bd_txs b1) (Z.to_nat ti)) as (t & Ht); [lia|]. rewrite Ht.
    replace (Z.to_nat ti - length (bd_txs b1)) with 0 in Hpf by lia.
    rewrite firstn_O, stream_nil in Hpf.
    pose proof (cenc_size _ _ Hpf) as Sp. change (cneeded (length (@nil byte))) with 0 in Sp.
    destruct (counter_range_core txc _ t Htx) as (R1 & R2 & _).
    fold (ustart (bd_txs b1) (Z.to_nat ti)) in R1, R2. rewrite <- (uend_nth _ _ _ Ht) in R2.
    unfold lenN in R2. unfold unit_range. cbn [fst snd]. rewrite <- R1, R2, Sp. f_equal. f_equal. f_equal.
    + destruct (counter_remainder txc =? 0)%Z; lia.
    + lia.
  - replace (Nat.ltb (Z.to_nat ti) (length (bd_txs b1))) with false by lia.
    destruct (nth_error_Some_lt (bd_pfbs b1) (Z.to_nat ti - length (bd_txs b1))) as (p & Hp); [lia|].
    rewrite Hp.
    rewrite firstn_all2 in Htx by lia.
    pose proof (cenc_size _ _ Htx) as St.
    assert (Hw : nth_error (wrapped (bd_pfbs b1)) (Z.to_nat ti - length (bd_txs b1))
                 = Some (marshal_index_wrapper (pfb_tx p) (pfb_idx p)))
      by (unfold wrapped; exact (map_nth_error (fun p => marshal_index_wrapper (pfb_tx p) (pfb_idx p)) _ _ Hp)).
    rewrite pfb_size_wrapped.
    destruct (counter_range_core pfbc _ (marshal_index_wrapper (pfb_tx p) (pfb_idx p)) Hpf) as (R1 & R2 & _).
    fold (ustart (wrapped (bd_pfbs b1)) (Z.to_nat ti - length (bd_txs b1))) in R1, R2.
    rewrite <- (uend_nth _ _ _ Hw) in R2.
    unfold unit_range. cbn [fst snd]. rewrite !Nat2Z.inj_add, <- R1, R2, St. f_equal. f_equal. f_equal.
    + destruct (counter_remainder pfbc =? 0)%Z; lia.
    + lia.
Qed.

Corollary find_tx_share_range_done b ti : bd_done b = true ->
  (0 <= ti < Z.of_nat (length (bd_txs b) + length (bd_pfbs b)))%Z ->
  find_tx_share_range b ti = Ok (b, zpair (builder_tx_range b (Z.to_nat ti))).
Proof.
  intros Hd Hti. rewrite find_tx_share_range_eq. unfold ensure_done. rewrite Hd. cbn [bind].
  replace (ti <? 0)%Z with false by lia.
  replace (Z.of_nat (length (bd_txs b) + length (bd_pfbs b)) <=? ti)%Z with false by lia.
  reflexivity.
Qed.

(* ordinary transactions *)
Corollary find_tx_share_range_tx b ti : bd_done b = true ->
  (0 <= ti < Z.of_nat (length (bd_txs b)))%Z ->
  let k := Z.to_nat ti in
  find_tx_share_range b ti =
  Ok (b, (Z.of_nat (sidx (ustart (bd_txs b) k)), Z.of_nat (sidx (uend (bd_txs b) k - 1) + 1))).
Proof.
  intros Hd Hti. cbn zeta. rewrite find_tx_share_range_done by (try assumption; lia).
  unfold builder_tx_range. replace (Nat.ltb (Z.to_nat ti) (length (bd_txs b))) with true by lia.
  reflexivity.
Qed.

(* wrapped PFBs: the same over the second sequence, shifted by the length of the first *)
Corollary find_tx_share_range_pfb b ti : bd_done b = true ->
  (Z.of_nat (length (bd_txs b)) <= ti < Z.of_nat (length (bd_txs b) + length (bd_pfbs b)))%Z ->
  let k := Z.to_nat ti - length (bd_txs b) in
  let off := cneeded (length (stream (bd_txs b))) in
  let w := wrapped (bd_pfbs b) in
  find_tx_share_range b ti =
  Ok (b, (Z.of_nat (off + sidx (ustart w k)), Z.of_nat (off + (sidx (uend w k - 1) + 1)))).
Proof.
  intros Hd Hti. cbn zeta. rewrite find_tx_share_range_done by (try assumption; lia).
  unfold builder_tx_range. replace (Nat.ltb (Z.to_nat ti) (length (bd_txs b))) with false by lia.
  reflexivity.
Qed.

Corollary find_tx_share_range_err b ti : bd_done b = true ->
  (ti < 0 \/ Z.of_nat (length (bd_txs b) + length (bd_pfbs b)) <= ti)%Z ->
  find_tx_share_range b ti = Err.
Proof.
  intros Hd Hti. rewrite find_tx_share_range_eq. unfold ensure_done. rewrite Hd. cbn [bind].
  destruct (ti <? 0)%Z eqn:E; [reflexivity|]. cbn [orb].
  replace (Z.of_nat (length (bd_txs b) + length (bd_pfbs b)) <=? ti)%Z with true by lia.
  reflexivity.
Qed.

Corollary find_tx_share_range_no_fault b ti :
  find_tx_share_range b ti = Fault -> bd_done b = false /\ export b = Fault.
Proof.
  rewrite find_tx_share_range_eq. unfold ensure_done. destruct (bd_done b).
  - cbn [bind]. destruct (_ || _)%bool; discriminate.
  - destruct (export b) as [r| |]; cbn [bind]; try discriminate; [|auto].
    destruct (_ || _)%bool; discriminate.
Qed.

(* square.TxShareRange: the builder is constructed, exported (b1 is the exported state:
   same transactions, PFBs with the recorded share indexes) and queried *)
Theorem tx_share_range_eq txs ti max thr :
  tx_share_range txs ti max thr =
  do b <- new_builder_txs max thr txs;
  do b1 <- ensure_done b;
  if ((ti <? 0) || (Z.of_nat (length (bd_txs b1) + length (bd_pfbs b1)) <=? ti))%Z then Err
  else Ok (zpair (builder_tx_range b1 (Z.to_nat ti))).
Proof.
  unfold tx_share_range. destruct (new_builder_txs max thr txs) as [b| |]; cbn [bind]; try reflexivity.
  rewrite find_tx_share_range_eq. destruct (ensure_done b) as [b1| |]; cbn [bind]; try reflexivity.
  destruct (_ || _)%bool; reflexivity.
Qed.

(* what the exported state is: Export keeps the transactions, and the PFB sequence of the
   square is written from exactly the wrapped PFBs of the exported state *)
Lemma export_written b b1 sq : export b = Ok (b1, sq) -> builder_is_empty b = false ->
  bd_txs b1 = bd_txs b /\ bd_done b1 = true /\
  exists txw0 txw pfbw0 pfbw blob_shares nrs,
    new_csplitter tx_ns 0 = Ok txw0 /\ write_txs txw0 (bd_txs b1) = Ok txw /\
    new_csplitter pfb_ns 0 = Ok pfbw0 /\ write_txs pfbw0 (wrapped (bd_pfbs b1)) = Ok pfbw /\
    write_square txw pfbw blob_shares nrs (blob_min_square_size (Z.to_N (bd_cur b))) = Ok sq.
Proof.
  intros E He. unfold export in E. rewrite He in E.
  destruct (new_csplitter tx_ns 0) as [txw0| |]; cbn [bind] in E; try discriminate.
  destruct (write_txs txw0 (bd_txs b)) as [txw| |] eqn:Et; cbn [bind] in E; try discriminate.
  destruct (export_blobs _ _ _ _) as [st| |]; cbn [bind] in E; try discriminate.
  destruct (new_csplitter pfb_ns 0) as [pfbw0| |]; cbn [bind] in E; try discriminate.
  destruct (write_txs pfbw0 _) as [pfbw| |] eqn:Ep; cbn [bind] in E; try discriminate.
  destruct (_ <? _)%Z; [discriminate|].
  destruct (write_square _ _ _ _ _) as [sq0| |] eqn:Ew; cbn [bind] in E; try discriminate.
  inversion E; subst. cbn [bd_txs bd_done bd_pfbs]. split; [reflexivity|]. split; [reflexivity|].
  exists txw0, txw, pfbw0, pfbw, (bl_shares st), (bl_nrs st). repeat split; try assumption; reflexivity.
Qed.

(* ---- 3. the splitter's own ranges ---- *)

(* counting invariant of the compact splitter between writes and inside the write loop:
   j complete shares are stacked, the stream written so far has L bytes, the pending
   share holds the L - coff j bytes after its header (possibly full) *)
Definition sinv (c : csplitter) (j L : nat) : Prop :=
  cs_done c = false /\
  length (cs_ns c) = 29 /\ is_compact_ns (cs_ns c) = true /\
  sb_compact (cs_b c) = true /\ sb_first (cs_b c) = Nat.eqb j 0 /\
  length (cs_shares c) = j /\
  coff j <= L <= coff j + ccap j /\
  length (sb_raw (cs_b c)) = chdr j + (L - coff j).

(* what the write path never touches *)
Definition meta (c d : csplitter) : Prop :=
  cs_ns d = cs_ns c /\ cs_ver d = cs_ver c /\ cs_ranges d = cs_ranges c.

Lemma meta_refl c : meta c c.
Proof. repeat split. Qed.
Lemma meta_trans a b c : meta a b -> meta b c -> meta a c.
Proof. intros (A1 & A2 & A3) (B1 & B2 & B3). unfold meta. repeat split; congruence. Qed.

Lemma chdr_ccap j : chdr j + ccap j = 512.
Proof. destruct j; reflexivity. Qed.

Lemma stack_pending_sinv c d j L : sinv c j L -> cs_stack_pending c = Ok d ->
  L = coff j + ccap j /\ sinv d (S j) L /\ meta c d.
Proof.
  intros (Hd & Hn & Hc & Hbc & Hf & Hs & HL & Hr). unfold cs_stack_pending, sb_build, wf_shareb, share_size.
  destruct (Nat.eqb (length (sb_raw (cs_b c))) 512) eqn:E; cbn [bind]; try discriminate.
  apply Nat.eqb_eq in E. pose proof (chdr_ccap j) as Hcc.
  assert (HL' : L = coff j + ccap j) by lia.
  unfold new_builder. destruct (new_info_byte (cs_ver c) false) as [info| |]; cbn [bind]; try discriminate.
  intros H. inversion H. split; [exact HL'|]. split; [|repeat split].
  unfold sinv, cs_with. cbn [cs_done cs_ns cs_shares cs_b sb_compact sb_first sb_raw].
  rewrite Hc, coff_S, app_length, !app_length, Hn, Hs. cbn [length]. rewrite length_zeros.
  repeat split; try assumption; try lia.
  unfold chdr. lia.
Qed.

Lemma write_loop_sinv : forall f c data d j L, sinv c j L -> cs_write_loop f c data = Ok d ->
  exists j', sinv d j' (L + length data) /\ meta c d.
Proof.
  induction f as [|f IH]; intros c data d j L Hi; [discriminate|]. cbn [cs_write_loop].
  destruct Hi as (Hd & Hn & Hc & Hbc & Hf & Hs & HL & Hr).
  pose proof (chdr_ccap j) as Hcc.
  unfold sb_add_data, sb_available, share_size.
  destruct (Nat.leb (length data) (512 - length (sb_raw (cs_b c)))) eqn:E.
  - intros H. inversion H. subst d. exists j. split; [|repeat split].
    unfold sinv, cs_with, sb_with_raw. cbn [cs_done cs_ns cs_shares cs_b sb_compact sb_first sb_raw].
    rewrite app_length. apply Nat.leb_le in E. repeat split; try assumption; lia.
  - apply Nat.leb_gt in E.
    set (left := 512 - length (sb_raw (cs_b c))) in *.
    set (c1 := cs_with c (cs_shares c) (sb_with_raw (cs_b c) (sb_raw (cs_b c) ++ firstn left data)) (cs_done c)).
    assert (H1 : sinv c1 j (L + left)).
    { unfold sinv, c1, cs_with, sb_with_raw. cbn [cs_done cs_ns cs_shares cs_b sb_compact sb_first sb_raw].
      rewrite app_length, firstn_length. repeat split; try assumption; lia. }
    destruct (cs_stack_pending c1) as [c2| |] eqn:E2; cbn [bind]; try discriminate.
    destruct (stack_pending_sinv _ _ _ _ H1 E2) as (_ & H2 & M2).
    intros H. destruct (IH _ _ _ _ _ H2 H) as (j' & H3 & M3). exists j'. split.
    + rewrite skipn_length in H3. replace (L + length data) with (L + left + (length data - left)) by lia.
      exact H3.
    + eapply meta_trans; [|exact M3]. eapply meta_trans; [|exact M2]. repeat split.
Qed.

Lemma maybe_write_reserved_same b b1 : sb_maybe_write_reserved b = Ok b1 ->
  length (sb_raw b1) = length (sb_raw b) /\ sb_compact b1 = sb_compact b /\ sb_first b1 = sb_first b.
Proof.
  unfold sb_maybe_write_reserved. destruct (negb (sb_compact b)); [discriminate|].
  destruct (Nat.ltb (length (sb_raw b)) (sb_reserved_index b + 4)) eqn:E; [discriminate|].
  destruct (parse_reserved_bytes _) as [r| |]; cbn [bind]; try discriminate.
  destruct (negb (N.eqb r 0)); [intros H; inversion H; repeat split|].
  destruct (N.leb 512 (lenN (sb_raw b))); [discriminate|].
  intros H. inversion H. cbn [sb_with_raw sb_raw sb_compact sb_first]. split; [|split; reflexivity].
  apply Nat.ltb_ge in E. unfold set_at. rewrite !app_length, firstn_length, skipn_length, length_be32. lia.
Qed.

(* between writes the pending share is never full: j = sidx L *)
Definition sinv_strict (c : csplitter) (L : nat) : Prop := sinv c (sidx L) L.

Lemma sinv_to_strict c j L : sinv c j L -> L < coff j + ccap j -> sinv_strict c L.
Proof.
  intros H HL. unfold sinv_strict. replace (sidx L) with j; [exact H|].
  apply sidx_unique. destruct H as (_ & _ & _ & _ & _ & _ & H & _). lia.
Qed.

Lemma cs_write_sinv c data d L : sinv_strict c L -> cs_write c data = Ok d ->
  sinv_strict d (L + length data) /\ meta c d.
Proof.
  intros Hi. unfold cs_write.
  assert (Hd : cs_done c = false) by apply Hi. rewrite Hd.
  destruct (sb_maybe_write_reserved (cs_b c)) as [b1| |] eqn:E; cbn [bind]; try discriminate.
  destruct (maybe_write_reserved_same _ _ E) as (R1 & R2 & R3).
  assert (H0 : sinv (cs_with c (cs_shares c) b1 false) (sidx L) L).
  { destruct Hi as (_ & Hn & Hc & Hbc & Hf & Hs & HL & Hr).
    unfold sinv, cs_with. cbn [cs_done cs_ns cs_shares cs_b]. rewrite R1, R2, R3.
    repeat split; try assumption; lia. }
  destruct (cs_write_loop _ _ _) as [c1| |] eqn:E1; cbn [bind]; try discriminate.
  destruct (write_loop_sinv _ _ _ _ _ _ H0 E1) as (j' & H1 & M1).
  assert (M0 : meta c c1) by (eapply meta_trans; [|exact M1]; repeat split).
  unfold sb_available, share_size.
  destruct (Nat.eqb (512 - length (sb_raw (cs_b c1))) 0) eqn:E2.
  - intros H. destruct (stack_pending_sinv _ _ _ _ H1 H) as (HL & H2 & M2). split.
    + eapply sinv_to_strict; [exact H2|]. rewrite coff_S. rewrite HL. unfold ccap. lia.
    + eapply meta_trans; eassumption.
  - intros H. inversion H. subst d. split; [|exact M0].
    eapply sinv_to_strict; [exact H1|]. apply Nat.eqb_neq in E2.
    destruct H1 as (_ & _ & _ & _ & _ & _ & HL & Hr). pose proof (chdr_ccap j'). lia.
Qed.

(* Count of a splitter holding L stream bytes *)
Lemma cneeded_coff L : cneeded L = if Nat.eqb L (coff (sidx L)) then sidx L else sidx L + 1.
Proof.
  pose proof (sidx_bounds L) as HB.
  destruct (Nat.eqb L (coff (sidx L))) eqn:E.
  - apply Nat.eqb_eq in E. destruct (Nat.eq_dec L 0) as [->|Hn]; [reflexivity|].
    rewrite cneeded_sidx by lia. destruct (sidx L) as [|k] eqn:Ek; [unfold coff in E; lia|].
    assert (Hk : k = sidx (L - 1)); [|lia].
    apply sidx_unique. rewrite E. destruct k; unfold coff, ccap; lia.
  - apply Nat.eqb_neq in E. rewrite cneeded_sidx by lia.
    assert (Hk : sidx L = sidx (L - 1)); [|lia]. apply sidx_unique. lia.
Qed.

Lemma cs_count_sinv c L : sinv_strict c L -> cs_count c = N.of_nat (cneeded L).
Proof.
  intros (Hd & Hn & Hc & Hbc & Hf & Hs & HL & Hr). unfold cs_count, sb_is_empty, lenN.
  rewrite Hd, Hbc, Hf, Hr, Hs, cneeded_coff. cbn [negb addif andb].
  rewrite andb_true_r.
  destruct (Nat.eqb L (coff (sidx L))) eqn:E.
  - apply Nat.eqb_eq in E.
    replace (Nat.eqb _ _) with true; [reflexivity|]. symmetry. apply Nat.eqb_eq.
    destruct (Nat.eqb (sidx L) 0) eqn:E0; [apply Nat.eqb_eq in E0; rewrite E0 in *|];
      destruct (sidx L); unfold chdr, addif; try discriminate; lia.
  - apply Nat.eqb_neq in E.
    replace (Nat.eqb _ _) with false; [cbn [negb]; lia|]. symmetry. apply Nat.eqb_neq.
    destruct (Nat.eqb (sidx L) 0) eqn:E0; [apply Nat.eqb_eq in E0; rewrite E0 in *|];
      destruct (sidx L); unfold chdr, addif; try discriminate; lia.
Qed.

(* the ranges a splitter holding L stream bytes records for the next transactions *)
Fixpoint ranges_from (L : nat) (txs : list bytes) : list (bytes * (N * N)) :=
  match txs with
  | [] => []
  | t :: tl =>
    let e := L + length (marshal_delimited t) in
    (t, (N.of_nat (sidx L), N.of_nat (sidx (e - 1) + 1))) :: ranges_from e tl
  end.

Lemma cs_write_tx_sinv c tx d L : sinv_strict c L -> cs_write_tx c tx = Ok d ->
  let e := L + length (marshal_delimited tx) in
  sinv_strict d e /\
  cs_ranges d = (tx, (N.of_nat (sidx L), N.of_nat (sidx (e - 1) + 1))) :: cs_ranges c.
Proof.
  intros Hi. cbn zeta. unfold cs_write_tx.
  assert (Hd : cs_done c = false) by apply Hi. rewrite Hd. cbn [andb].
  destruct (cs_write c (marshal_delimited tx)) as [c1| |] eqn:E; cbn [bind]; try discriminate.
  destruct (cs_write_sinv _ _ _ _ Hi E) as (H1 & _ & _ & M).
  intros H. inversion H. cbn [cs_ranges]. split.
  - exact H1.
  - rewrite M, (cs_count_sinv _ _ H1). unfold lenN.
    assert (Hs : length (cs_shares c) = sidx L) by apply Hi. rewrite Hs.
    rewrite cneeded_sidx by (pose proof (marshal_delimited_pos tx); lia). reflexivity.
Qed.

Lemma write_txs_sinv : forall txs c d L, sinv_strict c L -> write_txs c txs = Ok d ->
  sinv_strict d (L + length (stream txs)) /\
  cs_ranges d = rev (ranges_from L txs) ++ cs_ranges c.
Proof.
  induction txs as [|t tl IH]; intros c d L Hi; cbn [write_txs].
  - intros H. inversion H. subst d. rewrite stream_nil. cbn [length ranges_from rev app].
    rewrite Nat.add_0_r. split; [exact Hi|reflexivity].
  - destruct (cs_write_tx c t) as [c1| |] eqn:E; cbn [bind]; try discriminate.
    destruct (cs_write_tx_sinv _ _ _ _ Hi E) as (H1 & R1). intros H.
    destruct (IH _ _ _ H1 H) as (H2 & R2). split.
    + rewrite stream_cons, app_length, Nat.add_assoc. exact H2.
    + rewrite R2, R1. cbn [ranges_from rev]. rewrite <- app_assoc. reflexivity.
Qed.

Lemma new_csplitter_sinv ns ver c0 : ns = tx_ns \/ ns = pfb_ns -> new_csplitter ns ver = Ok c0 ->
  sinv_strict c0 0 /\ cs_ranges c0 = [].
Proof.
  intros Hns. unfold new_csplitter, new_builder.
  destruct (new_info_byte ver true) as [info| |]; cbn [bind]; try discriminate.
  intros H. inversion H. split; [|reflexivity].
  unfold sinv_strict, sinv. cbn [cs_done cs_ns cs_shares cs_b sb_compact sb_first sb_raw].
  assert (Hc : is_compact_ns ns = true) by (destruct Hns; subst ns; reflexivity).
  assert (Hl : length ns = 29) by (destruct Hns; subst ns; reflexivity).
  rewrite Hc, !app_length, Hl. cbn [length]. rewrite !length_zeros.
  change (sidx 0) with 0. unfold coff, ccap, chdr. repeat split; lia.
Qed.

Lemma ranges_from_app : forall a b L,
  ranges_from L (a ++ b) = ranges_from L a ++ ranges_from (L + length (stream a)) b.
Proof.
  induction a as [|t a IH]; intros b L.
  - rewrite stream_nil. cbn [app ranges_from length]. rewrite Nat.add_0_r. reflexivity.
  - cbn [app ranges_from]. rewrite IH, stream_cons, app_length, Nat.add_assoc. reflexivity.
Qed.

Lemma map_fst_ranges_from : forall txs L, map fst (ranges_from L txs) = txs.
Proof.
  induction txs as [|t tl IH]; intros L; cbn [ranges_from map fst]; [reflexivity|].
  rewrite IH. reflexivity.
Qed.

Lemma assoc_bytes_app_notin {A} k (l1 l2 : list (bytes * A)) : ~ In k (map fst l1) ->
  assoc_bytes k (l1 ++ l2) = assoc_bytes k l2.
Proof.
  induction l1 as [|[k' v] l1 IH]; intros Hn; [reflexivity|]. cbn [app assoc_bytes].
  cbn [map fst In] in Hn. destruct (bytes_eqb k k') eqn:E.
  - apply bytes_eqb_eq in E. subst. tauto.
  - apply IH. tauto.
Qed.

Lemma split_at_nth {A} (l : list A) k x : nth_error l k = Some x ->
  l = firstn k l ++ x :: skipn (S k) l.
Proof.
  intros H. rewrite <- (firstn_skipn (S k) l) at 1.
  rewrite (firstn_S_nth_error _ _ _ H), <- app_assoc. reflexivity.
Qed.

Lemma assoc_ranges_last a t b L : ~ In t b ->
  assoc_bytes t (rev (ranges_from L (a ++ t :: b))) =
  Some (N.of_nat (sidx (L + length (stream a))),
        N.of_nat (sidx (L + length (stream a) + length (marshal_delimited t) - 1) + 1)).
Proof.
  intros Hn. rewrite ranges_from_app. cbn [ranges_from]. rewrite rev_app_distr. cbn [rev].
  rewrite <- !app_assoc. rewrite assoc_bytes_app_notin.
  - cbn [app assoc_bytes]. rewrite bytes_eqb_refl. reflexivity.
  - rewrite map_rev, map_fst_ranges_from, <- in_rev. exact Hn.
Qed.

(* Part 3.  After writing txs into a fresh compact splitter: the complete list of
   recorded ranges, Count, and the number of completely filled shares. *)
Theorem splitter_ranges_exact ns ver c0 txs c :
  ns = tx_ns \/ ns = pfb_ns -> new_csplitter ns ver = Ok c0 -> write_txs c0 txs = Ok c ->
  cs_ranges c = rev (ranges_from 0 txs) /\
  cs_count c = N.of_nat (cneeded (length (stream txs))) /\
  lenN (cs_shares c) = N.of_nat (sidx (length (stream txs))).
Proof.
  intros Hns H0 Hw. destruct (new_csplitter_sinv _ _ _ Hns H0) as (Hi & Hr).
  destruct (write_txs_sinv _ _ _ _ Hi Hw) as (H1 & R). cbn [Nat.add] in H1.
  split; [rewrite R, Hr, app_nil_r; reflexivity|]. split; [apply cs_count_sinv; exact H1|].
  unfold lenN. f_equal. apply H1.
Qed.

(* ShareRanges(offset) looked up at a transaction whose last occurrence is at position k
   (in particular: any position of a duplicate-free list) is the exact range of unit k *)
Theorem splitter_share_range_exact ns ver c0 txs c k t offset :
  ns = tx_ns \/ ns = pfb_ns -> new_csplitter ns ver = Ok c0 -> write_txs c0 txs = Ok c ->
  nth_error txs k = Some t -> ~ In t (skipn (S k) txs) ->
  cs_share_range c offset t =
  Some (N.of_nat (fst (unit_range txs k)) + offset, N.of_nat (snd (unit_range txs k)) + offset)%N.
Proof.
  intros Hns H0 Hw Hk Hlast.
  destruct (splitter_ranges_exact _ _ _ _ _ Hns H0 Hw) as (R & _).
  pose proof (assoc_ranges_last (firstn k txs) t (skipn (S k) txs) 0 Hlast) as HA.
  rewrite <- (split_at_nth _ _ _ Hk) in HA. cbn [Nat.add] in HA.
  unfold cs_share_range. rewrite R, HA. unfold unit_range. cbn [fst snd].
  rewrite (uend_nth _ _ _ Hk). reflexivity.
Qed.

Lemma NoDup_last_occurrence {A} (l : list A) k x : NoDup l -> nth_error l k = Some x ->
  ~ In x (skipn (S k) l).
Proof.
  intros Hnd Hk Hin. rewrite (split_at_nth _ _ _ Hk) in Hnd.
  apply NoDup_remove_2 in Hnd. apply Hnd. apply in_or_app. right. exact Hin.
Qed.

Corollary splitter_share_range_distinct ns ver c0 txs c k t offset :
  ns = tx_ns \/ ns = pfb_ns -> new_csplitter ns ver = Ok c0 -> write_txs c0 txs = Ok c ->
  NoDup txs -> nth_error txs k = Some t ->
  cs_share_range c offset t =
  Some (N.of_nat (fst (unit_range txs k)) + offset, N.of_nat (snd (unit_range txs k)) + offset)%N.
Proof.
  intros Hns H0 Hw Hnd Hk. eapply splitter_share_range_exact; try eassumption.
  eapply NoDup_last_occurrence; eassumption.
Qed.

(* ---- 4. blob ranges ---- *)

Lemma set_nth_len {A} (v : A) : forall l n, length (set_nth n v l) = length l.
Proof. induction l as [|x l IH]; intros [|n]; cbn [set_nth length]; try reflexivity. rewrite IH. reflexivity. Qed.

Lemma record_index_len pfbs pi bi cur pfbs' : record_index pfbs pi bi cur = Ok pfbs' ->
  length pfbs' = length pfbs.
Proof.
  unfold record_index. destruct (nth_error pfbs (N.to_nat pi)) as [p|]; [|discriminate].
  destruct (N.leb (lenN (pfb_idx p)) bi); [discriminate|].
  intros H. inversion H. apply set_nth_len.
Qed.

Lemma export_blobs_len thr : forall els first st st', export_blobs thr first els st = Ok st' ->
  length (bl_pfbs st') = length (bl_pfbs st).
Proof.
  induction els as [|e tl IH]; intros first st st'; cbn [export_blobs].
  - intros H. inversion H. reflexivity.
  - destruct (N.ltb (e_max_padding e) _); [discriminate|].
    destruct (record_index _ _ _ _) as [pfbs| |] eqn:ER; cbn [bind]; try discriminate.
    destruct (if first then _ else _) as [s1| |]; cbn [bind]; try discriminate.
    destruct (sparse_write_item s1 _) as [s2| |]; cbn [bind]; try discriminate.
    intros H. apply IH in H. cbn [bl_pfbs] in H. rewrite H. eapply record_index_len. exact ER.
Qed.

Lemma ensure_done_same b b1 : ensure_done b = Ok b1 ->
  bd_txs b1 = bd_txs b /\ length (bd_pfbs b1) = length (bd_pfbs b).
Proof.
  unfold ensure_done. destruct (bd_done b); [intros H; inversion H; split; reflexivity|].
  destruct (export b) as [[b' sq]| |] eqn:E; cbn [bind fst]; try discriminate.
  intros H. inversion H. subst b'. unfold export in E. destruct (builder_is_empty b).
  - destruct empty_square; cbn [bind] in E; try discriminate. inversion E. split; reflexivity.
  - destruct (new_csplitter tx_ns 0) as [txw0| |]; cbn [bind] in E; try discriminate.
    destruct (write_txs txw0 (bd_txs b)) as [txw| |]; cbn [bind] in E; try discriminate.
    destruct (export_blobs _ _ _ _) as [st| |] eqn:EB; cbn [bind] in E; try discriminate.
    destruct (new_csplitter pfb_ns 0) as [pfbw0| |]; cbn [bind] in E; try discriminate.
    destruct (write_txs pfbw0 _) as [pfbw| |]; cbn [bind] in E; try discriminate.
    destruct (_ <? _)%Z; [discriminate|].
    destruct (write_square _ _ _ _ _) as [sq0| |]; cbn [bind] in E; try discriminate.
    inversion E. cbn [bd_txs bd_pfbs]. split; [reflexivity|].
    apply export_blobs_len in EB. exact EB.
Qed.

(* the element of blob (pi', bi) as BlobShareLength looks it up *)
Definition find_element (b : builder) (pi' bi : Z) : option element :=
  find (fun e => Z.eqb (Z.of_N (e_pfb_index e)) pi' && Z.eqb (Z.of_N (e_blob_index e)) bi) (bd_blobs b).

(* Part 4: a complete functional description of square.BlobShareRange.  b1 is the
   exported builder: its PFBs carry the recorded share indexes, and the range is
   [recorded index, recorded index + number of shares of the blob). *)
Theorem blob_share_range_eq txs ti bi max thr :
  blob_share_range txs ti bi max thr =
  do b <- new_builder_txs max thr txs;
  let ntx := Z.of_nat (length (bd_txs b)) in
  if ((ti <? ntx) || (ntx + Z.of_nat (length (bd_pfbs b)) <=? ti) || (bi <? 0))%Z then Err else
  do b1 <- ensure_done b;
  match nth_error (bd_pfbs b1) (Z.to_nat (ti - ntx)) with
  | None => Fault
  | Some p =>
    match nth_error (pfb_idx p) (Z.to_nat bi) with
    | None => Err
    | Some i =>
      match find_element b1 (ti - ntx) bi with
      | None => Err
      | Some el => Ok (i, (i + e_num_shares el)%N)
      end
    end
  end.
Proof.
  unfold blob_share_range. destruct (new_builder_txs max thr txs) as [b| |]; cbn [bind]; try reflexivity.
  cbn zeta. unfold find_blob_starting_index. fold (ensure_done b). unfold lenN. rewrite !nat_N_Z.
  destruct (ti <? Z.of_nat (length (bd_txs b)))%Z eqn:E1; cbn [orb bind]; [reflexivity|].
  replace (Z.of_nat (length (bd_pfbs b)) <=? ti - Z.of_nat (length (bd_txs b)))%Z
    with (Z.of_nat (length (bd_txs b)) + Z.of_nat (length (bd_pfbs b)) <=? ti)%Z by lia.
  destruct (Z.of_nat (length (bd_txs b)) + Z.of_nat (length (bd_pfbs b)) <=? ti)%Z eqn:E2;
    cbn [orb bind]; [reflexivity|].
  destruct (bi <? 0)%Z eqn:E3; cbn [bind]; [reflexivity|].
  destruct (ensure_done b) as [b1| |] eqn:ED; cbn [bind]; try reflexivity.
  destruct (ensure_done_same _ _ ED) as (S1 & S2).
  destruct (nth_error (bd_pfbs b1) _) as [p|]; cbn [bind]; [|reflexivity].
  destruct (nth_error (pfb_idx p) (Z.to_nat bi)) as [i|]; cbn [bind]; [|reflexivity].
  unfold blob_share_length, lenN. rewrite !nat_N_Z, S1, S2, E1. 
  replace (Z.of_nat (length (bd_pfbs b)) <=? ti - Z.of_nat (length (bd_txs b)))%Z with false by lia.
  rewrite E3. unfold find_element.
  destruct (find _ (bd_blobs b1)) as [el|]; reflexivity.
Qed.

Corollary blob_share_range_err txs ti bi max thr b : new_builder_txs max thr txs = Ok b ->
  (ti < Z.of_nat (length (bd_txs b)) \/
   Z.of_nat (length (bd_txs b) + length (bd_pfbs b)) <= ti \/ bi < 0)%Z ->
  blob_share_range txs ti bi max thr = Err.
Proof.
  intros Hb H. rewrite blob_share_range_eq, Hb. cbn [bind]. cbn zeta.
  destruct (ti <? Z.of_nat (length (bd_txs b)))%Z eqn:E1; [reflexivity|].
  destruct (Z.of_nat (length (bd_txs b)) + Z.of_nat (length (bd_pfbs b)) <=? ti)%Z eqn:E2; [reflexivity|].
  destruct (bi <? 0)%Z eqn:E3; [reflexivity|]. lia.
Qed.

Corollary blob_share_range_ok txs ti bi max thr b b1 p i el :
  new_builder_txs max thr txs = Ok b -> ensure_done b = Ok b1 ->
  (Z.of_nat (length (bd_txs b)) <= ti)%Z -> (0 <= bi)%Z ->
  nth_error (bd_pfbs b1) (Z.to_nat ti - length (bd_txs b)) = Some p ->
  nth_error (pfb_idx p) (Z.to_nat bi) = Some i ->
  find_element b1 (ti - Z.of_nat (length (bd_txs b))) bi = Some el ->
  blob_share_range txs ti bi max thr = Ok (i, (i + e_num_shares el)%N).
Proof.
  intros Hb Hd H1 H2 Hp Hi He. rewrite blob_share_range_eq, Hb. cbn [bind]. cbn zeta.
  destruct (ensure_done_same _ _ Hd) as (_ & S2).
  assert (Hlt : Z.to_nat ti - length (bd_txs b) < length (bd_pfbs b1))
    by (apply nth_error_Some; congruence).
  replace (ti <? Z.of_nat (length (bd_txs b)))%Z with false by lia.
  replace (Z.of_nat (length (bd_txs b)) + Z.of_nat (length (bd_pfbs b)) <=? ti)%Z with false by lia.
  replace (bi <? 0)%Z with false by lia. cbn [orb]. rewrite Hd. cbn [bind].
  replace (Z.to_nat (ti - Z.of_nat (length (bd_txs b)))) with (Z.to_nat ti - length (bd_txs b)) by lia.
  rewrite Hp, Hi, He. reflexivity.
Qed.

(* blob index too large for that PFB *)
Corollary blob_share_range_err_blob txs ti bi max thr b b1 p :
  new_builder_txs max thr txs = Ok b -> ensure_done b = Ok b1 ->
  nth_error (bd_pfbs b1) (Z.to_nat ti - length (bd_txs b)) = Some p ->
  (Z.of_nat (length (pfb_idx p)) <= bi)%Z ->
  blob_share_range txs ti bi max thr = Err.
Proof.
  intros Hb Hd Hp Hbi. rewrite blob_share_range_eq, Hb. cbn [bind]. cbn zeta.
  destruct (_ || _ || _)%bool; [reflexivity|]. rewrite Hd. cbn [bind].
  replace (Z.to_nat (ti - Z.of_nat (length (bd_txs b)))) with (Z.to_nat ti - length (bd_txs b)) by lia.
  rewrite Hp. replace (nth_error (pfb_idx p) (Z.to_nat bi)) with (@None N); [reflexivity|].
  symmetry. apply nth_error_None. lia.
Qed.

(* a Fault can only come out of construction or Export *)
Corollary blob_share_range_no_fault txs ti bi max thr :
  blob_share_range txs ti bi max thr = Fault ->
  new_builder_txs max thr txs = Fault \/
  exists b, new_builder_txs max thr txs = Ok b /\ ensure_done b = Fault.
Proof.
  rewrite blob_share_range_eq. destruct (new_builder_txs max thr txs) as [b| |]; cbn [bind]; try discriminate; [|auto].
  cbn zeta. destruct (_ || _ || _)%bool eqn:E; [discriminate|].
  destruct (ensure_done b) as [b1| |] eqn:ED; cbn [bind]; try discriminate; [|eauto].
  destruct (ensure_done_same _ _ ED) as (_ & S2).
  destruct (nth_error_Some_lt (bd_pfbs b1) (Z.to_nat (ti - Z.of_nat (length (bd_txs b))))) as (p & ->); [lia|].
  destruct (nth_error (pfb_idx p) _); [|discriminate].
  destruct (find_element _ _ _); discriminate.
Qed.

(* ---- 5. the unit lies inside its range ---- *)

Lemma stream_firstn_le txs n : length (stream (firstn n txs)) <= length (stream txs).
Proof.
  rewrite <- (firstn_skipn n txs) at 2. rewrite stream_app, app_length. lia.
Qed.

(* unit k begins inside its range and is complete within it; the range is non-empty and
   inside the sequence *)
Theorem unit_inside_range txs k t : nth_error txs k = Some t ->
  let lo := fst (unit_range txs k) in
  let hi := snd (unit_range txs k) in
  coff lo <= ustart txs k /\ ustart txs k < uend txs k /\ uend txs k <= coff hi /\
  lo < hi <= cneeded (length (stream txs)) /\ uend txs k <= length (stream txs).
Proof.
  intros Hk. cbn zeta. unfold unit_range. cbn [fst snd].
  pose proof (uend_nth _ _ _ Hk) as He. pose proof (marshal_delimited_pos t) as Hp.
  pose proof (sidx_bounds (ustart txs k)) as B1. pose proof (sidx_bounds (uend txs k - 1)) as B2.
  pose proof (sidx_mono (ustart txs k) (uend txs k - 1)) as M.
  assert (HU : uend txs k <= length (stream txs)) by apply stream_firstn_le.
  replace (sidx (uend txs k - 1) + 1) with (S (sidx (uend txs k - 1))) by lia. rewrite coff_S.
  repeat split; try lia.
  rewrite (cneeded_sidx (length (stream txs))) by lia.
  pose proof (sidx_mono (uend txs k - 1) (length (stream txs) - 1)). lia.
Qed.

(* exactness: the range of unit k is precisely the set of shares carrying one of its bytes *)
Theorem unit_range_exact txs k t j : nth_error txs k = Some t ->
  (exists p, ustart txs k <= p < uend txs k /\ coff j <= p < coff j + ccap j) <->
  fst (unit_range txs k) <= j < snd (unit_range txs k).
Proof.
  intros Hk. apply share_set_exact.
  pose proof (uend_nth _ _ _ Hk). pose proof (marshal_delimited_pos t). lia.
Qed.

(* and the bytes of the stream in [ustart, uend) are the delimited transaction *)
Lemma unit_bytes txs k t : nth_error txs k = Some t ->
  firstn (uend txs k - ustart txs k) (skipn (ustart txs k) (stream txs)) = marshal_delimited t.
Proof.
  intros Hk. rewrite (uend_nth _ _ _ Hk). unfold ustart.
  replace (stream txs) with (stream (firstn k txs ++ t :: skipn (S k) txs))
    by (rewrite <- (split_at_nth _ _ _ Hk); reflexivity).
  rewrite stream_app, stream_cons.
  rewrite skipn_app, skipn_all, Nat.sub_diag, skipn_O. cbn [app].
  replace (_ + _ - _) with (length (marshal_delimited t)) by lia.
  rewrite firstn_app, Nat.sub_diag, firstn_O, firstn_all, app_nil_r. reflexivity.
Qed.

(* ---- 5'. parsing just the shares of the range yields the transaction ---- *)
(* (uses C11, Proofs/SubrangeProofs.v, and the writer theorem of Proofs/CompactWriterProofs.v) *)

Lemma ustart_cons x tl k : ustart (x :: tl) (S k) = length (marshal_delimited x) + ustart tl k.
Proof. unfold ustart. rewrite firstn_cons, stream_cons, app_length. reflexivity. Qed.
Lemma uend_cons x tl k : uend (x :: tl) (S k) = length (marshal_delimited x) + uend tl k.
Proof. unfold uend. rewrite firstn_cons, stream_cons, app_length. reflexivity. Qed.

Lemma sel_txs_In : forall txs k t a b off, nth_error txs k = Some t ->
  a <= off + ustart txs k -> off + uend txs k <= b ->
  In t (SubrangeProofs.sel_txs a b off txs).
Proof.
  induction txs as [|x tl IH]; intros k t a b off Hk Ha Hb; [destruct k; discriminate|].
  rewrite SubrangeProofs.sel_cons. destruct k as [|k].
  - cbn [nth_error] in Hk. inversion Hk. subst x.
    unfold ustart in Ha. unfold uend in Hb. rewrite firstn_O, stream_nil in Ha.
    rewrite firstn_cons, firstn_O, stream_cons, stream_nil, app_nil_r in Hb. cbn [length] in Ha.
    replace (SubrangeProofs.in_range a b (t, off)) with true; [left; reflexivity|].
    unfold SubrangeProofs.in_range. cbn [fst snd]. symmetry. apply andb_true_iff.
    split; apply Nat.leb_le; lia.
  - cbn [nth_error] in Hk. rewrite ustart_cons in Ha. rewrite uend_cons in Hb.
    assert (In t (SubrangeProofs.sel_txs a b (off + length (marshal_delimited x)) tl))
      by (apply (IH k); [exact Hk|lia|lia]).
    destruct (SubrangeProofs.in_range a b (x, off)); [right|]; assumption.
Qed.

(* On the closed form of the sequence: parsing exactly the shares of the range of unit k
   succeeds and the result contains transaction k. *)
Theorem unit_parsed_from_range ns txs k t :
  length ns = 29 -> is_compact_ns ns = true -> Forall (fun t => t <> []) txs ->
  (lenN (stream txs) < 4294967296)%N -> nth_error txs k = Some t ->
  let lo := fst (unit_range txs k) in
  let hi := snd (unit_range txs k) in
  exists res, parse_txs (firstn (hi - lo) (skipn lo (compact_spec_ix ns 0 txs))) = Ok res /\ In t res.
Proof.
  intros Hns Hc Hne Hb Hk. cbn zeta.
  destruct (unit_inside_range _ _ _ Hk) as (A1 & A2 & A3 & A4 & A5).
  exists (SubrangeProofs.sub_expected (fst (unit_range txs k)) (snd (unit_range txs k)) txs). split.
  - apply SubrangeProofs.parse_subrange; try assumption.
    unfold compact_spec_ix. cbv zeta. rewrite map_length, seq_length. lia.
  - unfold SubrangeProofs.sub_expected. eapply sel_txs_In; [exact Hk| |]; cbn [Nat.add]; lia.
Qed.

(* The whole chain on the writer: write the transactions into a fresh splitter, export;
   the splitter's own range of transaction k (its last occurrence) is the exact range, and
   parsing exactly those exported shares yields a list containing the transaction. *)
Theorem splitter_range_parses ns txs k t :
  ns = tx_ns \/ ns = pfb_ns -> Forall (fun t => t <> []) txs ->
  (lenN (stream txs) < 4294967296)%N -> nth_error txs k = Some t -> ~ In t (skipn (S k) txs) ->
  exists c0 c c' shs lo hi res,
    new_csplitter ns 0 = Ok c0 /\ write_txs c0 txs = Ok c /\ cs_export c = Ok (c', shs) /\
    cs_share_range c 0 t = Some (N.of_nat lo, N.of_nat hi) /\
    (lo, hi) = unit_range txs k /\
    parse_txs (firstn (hi - lo) (skipn lo shs)) = Ok res /\ In t res.
Proof.
  intros Hns Hne Hb Hk Hlast.
  assert (Hl : length ns = 29) by (destruct Hns; subst ns; reflexivity).
  assert (Hc : is_compact_ns ns = true) by (destruct Hns; subst ns; reflexivity).
  destruct (CompactWriterProofs.compact_encode_spec ns 0 txs Hl Hc) as (c0 & c & c' & H0 & Hw & He & _); [lia|].
  destruct (unit_parsed_from_range ns txs k t Hl Hc Hne Hb Hk) as (res & Hp & Hin).
  exists c0, c, c', (compact_spec_ix ns 0 txs), (fst (unit_range txs k)), (snd (unit_range txs k)), res.
  repeat split; try assumption.
  rewrite (splitter_share_range_exact _ _ _ _ _ _ _ 0%N Hns H0 Hw Hk Hlast). rewrite !N.add_0_r. reflexivity.
Qed.

(* ---- non-vacuity: concrete instances (checked by vm_compute) ---- *)
(* 472 data bytes = 474 delimited: ends exactly at the end of share 0; 476 data bytes =
   478 delimited: ends exactly at the end of share 1; so the second and the third
   transaction start with remainder 0.  The first wrapped PFB has 472 bytes with its real
   share index (one varint byte) and 474 with the worst-case index (three): it fills the
   first PFB share exactly, so the second PFB starts with remainder 0 as well. *)
Definition ex12_t472 : bytes := repeat Byte.x07 472.
Definition ex12_t476 : bytes := repeat Byte.x06 476.
Definition ex12_t10 : bytes := repeat Byte.x08 10.
Definition ex12_t11 : bytes := repeat Byte.x08 11.
Definition ex12_t1000 : bytes := repeat Byte.x09 1000.
Definition ex12_ns : bytes := Byte.x00 :: repeat Byte.x00 18 ++ repeat Byte.x01 10.
Definition ex12_blob : blob := mk_blob ex12_ns (repeat Byte.x09 1000) 0 None.
Definition ex12_btx1 : bytes :=
  match marshal_blob_tx (repeat Byte.x0b 460) [ex12_blob] with Ok e => e | _ => [] end.
Definition ex12_btx2 : bytes :=
  match marshal_blob_tx [Byte.x0a; Byte.x0b] [ex12_blob; ex12_blob] with Ok e => e | _ => [] end.
Definition ex12_normal : list bytes := [ex12_t472; ex12_t476; ex12_t10; ex12_t1000; ex12_t11].
Definition ex12_txs : list bytes := ex12_normal ++ [ex12_btx1; ex12_btx2].

Example ex12_offsets :
  map (ustart ex12_normal) [0; 1; 2; 3; 4] = [0; 474; 952; 963; 1965] /\
  map (uend ex12_normal) [0; 1; 2; 3; 4] = [474; 952; 963; 1965; 1977] /\
  map (unit_range ex12_normal) [0; 1; 2; 3; 4] = [(0, 1); (1, 2); (2, 3); (2, 5); (4, 5)].
Proof. repeat split; vm_compute; reflexivity. Qed.

Example ex12_tx_share_range :
  map (fun i => tx_share_range ex12_txs i 8 64) [-1; 0; 1; 2; 3; 4; 5; 6; 7]%Z =
  [Err; Ok (0, 1); Ok (1, 2); Ok (2, 3); Ok (2, 5); Ok (4, 5); Ok (5, 6); Ok (6, 7); Err]%Z.
Proof. vm_compute. reflexivity. Qed.

Example ex12_builder :
  match new_builder_txs 8 64 ex12_txs with
  | Ok b =>
    match ensure_done b with
    | Ok b1 =>
      bd_done b = false /\ bd_done b1 = true /\
      map pfb_idx (bd_pfbs b) = [[16384]; [16384; 16384]]%N /\
      map pfb_idx (bd_pfbs b1) = [[7]; [10; 13]]%N /\
      map (@length byte) (wrapped (bd_pfbs b)) = [474; 18] /\
      map (@length byte) (wrapped (bd_pfbs b1)) = [472; 14] /\
      map (builder_tx_range b1) [0; 1; 2; 3; 4; 5; 6] =
        [(0, 1); (1, 2); (2, 3); (2, 5); (4, 5); (5, 6); (6, 7)] /\
      map (fun i => find_tx_share_range b1 i) [-1; 2; 6; 7]%Z =
        [Err; Ok (b1, (2, 3)); Ok (b1, (6, 7)); Err]%Z
    | _ => False
    end
  | _ => False
  end.
Proof. vm_compute. repeat split; reflexivity. Qed.

Example ex12_blob_share_range :
  map (fun p => blob_share_range ex12_txs (fst p) (snd p) 8 64)
      [(5, 0); (6, 0); (6, 1); (6, 2); (4, 0); (7, 0); (5, -1); (-1, 0)]%Z =
  [Ok (7, 10); Ok (10, 13); Ok (13, 16); Err; Err; Err; Err; Err]%N.
Proof. vm_compute. reflexivity. Qed.

Example ex12_splitter :
  match new_csplitter tx_ns 0 with
  | Ok c0 =>
    match write_txs c0 (ex12_normal ++ [ex12_t10]) with
    | Ok c =>
      map snd (cs_ranges c) = [(4, 5); (4, 5); (2, 5); (2, 3); (1, 2); (0, 1)]%N /\
      cs_count c = 5%N /\
      (* a repeated transaction: the last write wins *)
      cs_share_range c 7 ex12_t10 = Some (11, 12)%N /\
      unit_range (ex12_normal ++ [ex12_t10]) 5 = (4, 5) /\
      unit_range (ex12_normal ++ [ex12_t10]) 2 = (2, 3) /\
      cs_share_range c 0 ex12_t1000 = Some (2, 5)%N
    | _ => False
    end
  | _ => False
  end.
Proof. vm_compute. repeat split; reflexivity. Qed.

Example ex12_parse_range :
  NoDup ex12_normal /\ Forall (fun t => t <> []) ex12_normal /\
  (lenN (stream ex12_normal) < 4294967296)%N /\
  parse_txs (firstn (5 - 2) (skipn 2 (compact_spec_ix tx_ns 0 ex12_normal))) = Ok [ex12_t10; ex12_t1000; ex12_t11] /\
  parse_txs (firstn (2 - 1) (skipn 1 (compact_spec_ix tx_ns 0 ex12_normal))) = Ok [ex12_t476].
Proof.
  split; [|split; [|split; [|split]]]; try (vm_compute; reflexivity).
  - repeat constructor; cbn [In]; intros H;
      repeat (destruct H as [H|H]; [apply (f_equal (@length byte)) in H; vm_compute in H; discriminate|]);
      exact H.
  - repeat constructor; intros H; apply (f_equal (@length byte)) in H; vm_compute in H; discriminate.
Qed.
