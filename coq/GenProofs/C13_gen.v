(* C13 (and the small arithmetic helpers of C03/C15) at code level: the straight-line functions
   of the REGENERATED GoLite program (Gen/Generated.v, printed from the Go source on every run)
   compute what the hand-written model computes.  Statements only; proofs in GenStraightProofs.v.

   Shape: for every fuel >= 1 and all arguments in the stated range,
   gen_call fuel "<pkg.Func>" <type argument> [args] = Val [model function args]. *)
From Coq Require Import List ZArith String.
From GS.Model Require Import Base Varint Arith Counter GoLite.
From GS.Gen Require Import Generated.
From GS.GenProofs Require Import GenLink GenStraightProofs.
Open Scope string_scope. Open Scope Z_scope.

(* inclusion.RoundUpByMultipleOf(cursor, v int) *)
Theorem gen_round_up_by_multiple_of : forall fuel c v, (1 <= fuel)%nat ->
  0 <= c < 2^62 -> 0 < v < 2^62 ->
  gen_call fuel "inclusion.RoundUpByMultipleOf" I64 [c; v] =
  Val [Z.of_N (round_up_by_multiple_of (Z.to_N c) (Z.to_N v))].
Proof. exact round_up_by_multiple_of_gen. Qed.
Print Assumptions gen_round_up_by_multiple_of.

(* v = 0 is a division by zero: a Go panic, for every cursor *)
Theorem gen_round_up_by_multiple_of_zero : forall fuel c, (1 <= fuel)%nat ->
  gen_call fuel "inclusion.RoundUpByMultipleOf" I64 [c; 0] = Flt.
Proof. exact round_up_by_multiple_of_gen_zero. Qed.
Print Assumptions gen_round_up_by_multiple_of_zero.

Example gen_round_up_by_multiple_of_ex :
  gen_call 1 "inclusion.RoundUpByMultipleOf" I64 [13; 4] = Val [16] /\
  gen_call 1 "inclusion.RoundUpByMultipleOf" I64 [12; 4] = Val [12] /\
  round_up_by_multiple_of 13 4 = 16%N /\
  gen_call 1 "inclusion.RoundUpByMultipleOf" I64 [13; 0] = Flt.
Proof. vm_compute. repeat split; reflexivity. Qed.

(* inclusion.getMin[T constraints.Integer](i, j T): no arithmetic, so every type argument and all
   values (in particular int and uint64 with in-range arguments) *)
Theorem gen_get_min : forall fuel t i j, (1 <= fuel)%nat ->
  gen_call fuel "inclusion.getMin" t [i; j] = Val [Z.min i j].
Proof. exact get_min_gen. Qed.
Print Assumptions gen_get_min.

Example gen_get_min_ex :
  gen_call 1 "inclusion.getMin" I64 [-3; 7] = Val [-3] /\
  gen_call 1 "inclusion.getMin" U64 [18446744073709551615; 7] = Val [7].
Proof. vm_compute. split; reflexivity. Qed.

(* share.CompactSharesNeeded(sequenceLen uint32) int: every uint32 *)
Theorem gen_compact_shares_needed : forall fuel n, (1 <= fuel)%nat -> 0 <= n < 2^32 ->
  gen_call fuel "share.CompactSharesNeeded" I64 [n] = Val [Z.of_N (compact_shares_needed (Z.to_N n))].
Proof. exact compact_shares_needed_gen. Qed.
Print Assumptions gen_compact_shares_needed.

(* share.SparseSharesNeeded(sequenceLen uint32) int: every uint32 *)
Theorem gen_sparse_shares_needed : forall fuel n, (1 <= fuel)%nat -> 0 <= n < 2^32 ->
  gen_call fuel "share.SparseSharesNeeded" I64 [n] = Val [Z.of_N (sparse_shares_needed (Z.to_N n))].
Proof. exact sparse_shares_needed_gen. Qed.
Print Assumptions gen_sparse_shares_needed.

Example gen_shares_needed_ex :
  gen_call 1 "share.CompactSharesNeeded" I64 [474] = Val [1] /\
  gen_call 1 "share.CompactSharesNeeded" I64 [475] = Val [2] /\
  gen_call 1 "share.CompactSharesNeeded" I64 [4294967295] = Val [8985288] /\
  compact_shares_needed 4294967295 = 8985288%N /\
  gen_call 1 "share.SparseSharesNeeded" I64 [478] = Val [1] /\
  gen_call 1 "share.SparseSharesNeeded" I64 [961] = Val [3] /\
  gen_call 1 "share.SparseSharesNeeded" I64 [4294967295] = Val [8910721] /\
  sparse_shares_needed 4294967295 = 8910721%N.
Proof. vm_compute. repeat split; reflexivity. Qed.

(* share.AvailableBytesFromCompactShares(n int) int: every n (negative ones included) whose
   result fits int64, i.e. n <= 19295757399277773 (sparse: 19135626632478787); in particular every n < 2^54 *)
Theorem gen_available_bytes_from_compact_shares : forall fuel n, (1 <= fuel)%nat ->
  (n - 1) * 478 + 474 < 2^63 ->
  gen_call fuel "share.AvailableBytesFromCompactShares" I64 [n] = Val [available_compact n].
Proof. exact available_compact_gen. Qed.
Print Assumptions gen_available_bytes_from_compact_shares.

(* share.AvailableBytesFromSparseShares(n int) int *)
Theorem gen_available_bytes_from_sparse_shares : forall fuel n, (1 <= fuel)%nat ->
  (n - 1) * 482 + 478 < 2^63 ->
  gen_call fuel "share.AvailableBytesFromSparseShares" I64 [n] = Val [available_sparse n].
Proof. exact available_sparse_gen. Qed.
Print Assumptions gen_available_bytes_from_sparse_shares.

Example gen_available_bytes_ex :
  gen_call 1 "share.AvailableBytesFromCompactShares" I64 [3] = Val [1430] /\
  gen_call 1 "share.AvailableBytesFromCompactShares" I64 [-5] = Val [0] /\
  gen_call 1 "share.AvailableBytesFromSparseShares" I64 [3] = Val [1442] /\
  (2^54 - 1) * 478 + 474 < 2^63 /\ (2^54 - 1) * 482 + 478 < 2^63.
Proof. vm_compute. repeat split; reflexivity. Qed.

(* beyond the range the int64 product wraps and the sides differ *)
Example gen_available_bytes_wraps :
  gen_call 1 "share.AvailableBytesFromCompactShares" I64 [2^55] = Val [-1224979098644774916] /\
  available_compact (2^55) = 17221764975064776700.
Proof. vm_compute. split; reflexivity. Qed.

(* square.IsPowerOfTwo[I constraints.Integer](input I) bool at int: every int64 except MinInt64 *)
Theorem gen_is_power_of_two : forall fuel x, (1 <= fuel)%nat -> - 2^63 < x < 2^63 ->
  gen_call fuel "square.IsPowerOfTwo" I64 [x] = Val [b2z (is_pow2 x)].
Proof. exact is_power_of_two_gen_i64. Qed.
Print Assumptions gen_is_power_of_two.

(* ... and at MinInt64 the Go function answers true (input-1 wraps to MaxInt64, the AND is 0),
   the unbounded model false: the range above is the exact agreement range on int64.
   (NewBuilder tests maxSquareSize <= 0 first, so no caller reaches this input.) *)
Theorem gen_is_power_of_two_min_int64 : forall fuel, (1 <= fuel)%nat ->
  gen_call fuel "square.IsPowerOfTwo" I64 [- 2^63] = Val [1] /\ is_pow2 (- 2^63) = false.
Proof. exact is_power_of_two_gen_i64_min. Qed.
Print Assumptions gen_is_power_of_two_min_int64.

(* at uint64: the whole type *)
Theorem gen_is_power_of_two_u64 : forall fuel x, (1 <= fuel)%nat -> 0 <= x < 2^64 ->
  gen_call fuel "square.IsPowerOfTwo" U64 [x] = Val [b2z (is_pow2 x)].
Proof. exact is_power_of_two_gen_u64. Qed.
Print Assumptions gen_is_power_of_two_u64.

Example gen_is_power_of_two_ex :
  gen_call 1 "square.IsPowerOfTwo" I64 [64] = Val [1] /\ is_pow2 64 = true /\
  gen_call 1 "square.IsPowerOfTwo" I64 [96] = Val [0] /\
  gen_call 1 "square.IsPowerOfTwo" I64 [0] = Val [0] /\
  gen_call 1 "square.IsPowerOfTwo" I64 [-4] = Val [0] /\
  gen_call 1 "square.IsPowerOfTwo" U64 [2^63] = Val [1].
Proof. vm_compute. repeat split; reflexivity. Qed.

(* share.CompactShareCounter methods.  Arguments: the receiver's fields
   [lastShares; lastRemainder; shares; remainder]; results: the Go results followed by the
   receiver's four fields after the call. *)

(* Size() int: exact condition "shares + 1 fits int64 (or is never computed)" *)
Theorem gen_counter_size : forall fuel ls lr sh r, (1 <= fuel)%nat ->
  r = 0 \/ - 2^63 <= sh + 1 < 2^63 ->
  gen_call fuel "share.CompactShareCounter.Size" I64 [ls; lr; sh; r] =
  Val [counter_size (mk_counter ls lr sh r); ls; lr; sh; r].
Proof. exact counter_size_gen. Qed.
Print Assumptions gen_counter_size.

(* Remainder() int: unconditional *)
Theorem gen_counter_remainder : forall fuel ls lr sh r, (1 <= fuel)%nat ->
  gen_call fuel "share.CompactShareCounter.Remainder" I64 [ls; lr; sh; r] =
  Val [counter_remainder (mk_counter ls lr sh r); ls; lr; sh; r].
Proof. exact counter_remainder_gen. Qed.
Print Assumptions gen_counter_remainder.

(* Revert(): no result, the four fields of the reverted counter; unconditional *)
Theorem gen_counter_revert : forall fuel ls lr sh r, (1 <= fuel)%nat ->
  gen_call fuel "share.CompactShareCounter.Revert" I64 [ls; lr; sh; r] =
  let c := counter_revert (mk_counter ls lr sh r) in
  Val [c_last_shares c; c_last_rem c; c_shares c; c_rem c].
Proof. exact counter_revert_gen. Qed.
Print Assumptions gen_counter_revert.

Example gen_counter_ex :
  gen_call 1 "share.CompactShareCounter.Size" I64 [1; 20; 3; 100] = Val [4; 1; 20; 3; 100] /\
  gen_call 1 "share.CompactShareCounter.Size" I64 [1; 20; 3; 0] = Val [3; 1; 20; 3; 0] /\
  gen_call 1 "share.CompactShareCounter.Remainder" I64 [1; 20; 3; 100] = Val [100; 1; 20; 3; 100] /\
  gen_call 1 "share.CompactShareCounter.Revert" I64 [1; 20; 3; 100] = Val [1; 20; 1; 20].
Proof. vm_compute. repeat split; reflexivity. Qed.
