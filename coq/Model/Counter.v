(* share/counter.go, the closed forms of share/share_sequence.go and share/utils.go *)
From GS.Model Require Import Base Varint.
Open Scope Z_scope.

Record counter := mk_counter {
  c_last_shares : Z; c_last_rem : Z; c_shares : Z; c_rem : Z
}.
Definition new_counter : counter := mk_counter 0 0 0 0.

(* CompactShareCounter.Add(dataLen int) returns the counter and the diff *)
Definition counter_add (c : counter) (data_len : Z) : counter * Z :=
  let d0 := data_len + Z.of_N (delim_len (Z.to_N data_len)) in
  let last_rem := c_rem c in
  let last_shares := c_shares c in
  (* first share *)
  let '(d1, sh1, rem1) :=
    if c_shares c =? 0 then
      if 474 - c_rem c <=? d0 then (d0 - (474 - c_rem c), c_shares c + 1, 0)
      else (0, c_shares c, c_rem c + d0)
    else (d0, c_shares c, c_rem c) in
  (* fill the remainder of the continuation share *)
  let '(d2, sh2, rem2) :=
    if 478 - rem1 <=? d1 then (d1 - (478 - rem1), sh1 + 1, 0)
    else (0, sh1, rem1 + d1) in
  (* the rest *)
  let '(sh3, rem3) :=
    if 0 <? d2 then (sh2 + d2 / 478, d2 mod 478) else (sh2, rem2) in
  let diff0 := sh3 - last_shares in
  let diff :=
    if (last_rem =? 0) && (0 <? rem3) then diff0 + 1
    else if (0 <? last_rem) && (rem3 =? 0) then diff0 - 1
    else diff0 in
  (mk_counter last_shares last_rem sh3 rem3, diff).

Definition counter_revert (c : counter) : counter :=
  mk_counter (c_last_shares c) (c_last_rem c) (c_last_shares c) (c_last_rem c).
Definition counter_size (c : counter) : Z :=
  if c_rem c =? 0 then c_shares c else c_shares c + 1.
Definition counter_remainder (c : counter) : Z := c_rem c.

Open Scope N_scope.

(* CompactSharesNeeded(sequenceLen uint32) *)
Definition compact_shares_needed (n : N) : N :=
  if n =? 0 then 0 else
  if n <? 474 then 1 else
  let r := n - 474 in
  1 + r / 478 + (if 0 <? r mod 478 then 1 else 0).

(* SparseSharesNeeded(sequenceLen uint32) *)
Definition sparse_shares_needed (n : N) : N :=
  if n =? 0 then 0 else
  if n <? 478 then 1 else
  let r := n - 478 in
  1 + r / 482 + (if 0 <? r mod 482 then 1 else 0).

(* AvailableBytesFromCompactShares(n int), AvailableBytesFromSparseShares(n int) *)
Definition available_compact (n : Z) : Z :=
  (if n <=? 0 then 0 else if n =? 1 then 474 else (n - 1) * 478 + 474)%Z.
Definition available_sparse (n : Z) : Z :=
  (if n <=? 0 then 0 else if n =? 1 then 478 else (n - 1) * 482 + 478)%Z.
