(* Straight-line functions of the regenerated GoLite program (Gen/Generated.v) agree with the
   hand-written model (Model/Arith.v, Model/Counter.v) on explicit argument ranges. *)
From Coq Require Import Lia ZArith List String ZifyN ZifyNat ZifyBool.
From GS.Model Require Import Base Varint Arith Counter GoLite.
From GS.Proofs Require Import GoLiteLemmas.
From GS.Gen Require Import Generated.
From GS.GenProofs Require Import GenLink.
Open Scope string_scope. Open Scope Z_scope.

(* Z.eqb is [simpl never] (GoLiteLemmas); decide the tests on literals that symbolic execution leaves *)
Ltac kz :=
  repeat first [ progress change (0 =? 0) with true
               | progress change (1 =? 0) with false
               | progress change (478 =? 0) with false
               | progress change (482 =? 0) with false ];
  cbn.

(* ---------- inclusion.RoundUpByMultipleOf ---------- *)

Lemma round_up_by_multiple_of_gen fuel c v : (1 <= fuel)%nat -> 0 <= c < 2^62 -> 0 < v < 2^62 ->
  gen_call fuel "inclusion.RoundUpByMultipleOf" I64 [c; v] =
  Val [Z.of_N (round_up_by_multiple_of (Z.to_N c) (Z.to_N v))].
Proof.
  intros Hf Hc Hv. destruct fuel as [|fuel]; [lia|].
  unfold gen_call. rewrite callf_S. cbn.
  destruct (v =? 0) eqn:E0; [lia|]. cbn.
  rewrite rem_nonneg by lia.
  pose proof (Z.mod_pos_bound c v ltac:(lia)) as Hb.
  rewrite (wrap_I64_small (c mod v)) by lia.
  unfold round_up_by_multiple_of.
  assert (Hm: Z.of_N (Z.to_N c mod Z.to_N v) = c mod v).
  { rewrite N2Z.inj_mod, !Z2N.id by lia. reflexivity. }
  assert (Hd: Z.of_N (Z.to_N c / Z.to_N v) = c / v).
  { rewrite N2Z.inj_div, !Z2N.id by lia. reflexivity. }
  assert (He: (Z.to_N c mod Z.to_N v =? 0)%N = (c mod v =? 0)).
  { rewrite <- Hm. generalize (Z.to_N c mod Z.to_N v)%N as x. intros x.
    destruct (N.eqb_spec x 0%N) as [e|e].
    - rewrite e. reflexivity.
    - symmetry. apply Z.eqb_neq. lia. }
  rewrite He.
  unfold eval_cmp.
  destruct (c mod v =? 0) eqn:E; cbn; kz.
  - f_equal. f_equal. lia.
  - rewrite E0. cbn. rewrite quot_nonneg by lia.
    assert (Hq0: 0 <= c / v) by (apply Z.div_pos; lia).
    assert (Hq1: c / v * v <= c) by (rewrite Z.mul_comm; apply Z.mul_div_le; lia).
    assert (Hq2: c / v <= c / v * v).
    { rewrite <- (Z.mul_1_r (c / v)) at 1. apply Z.mul_le_mono_nonneg_l; lia. }
    assert (Hr: Z.of_N ((Z.to_N c / Z.to_N v + 1) * Z.to_N v) = (c / v + 1) * v).
    { rewrite N2Z.inj_mul, N2Z.inj_add, Hd. rewrite Z2N.id by lia. reflexivity. }
    rewrite Hr, Z.mul_add_distr_r, Z.mul_1_l.
    clear Hm Hd He Hr E Hb.
    assert (Hc': 0 <= c < 4611686018427387904) by exact Hc.
    assert (Hv': 0 < v < 4611686018427387904) by exact Hv.
    clear Hc Hv.
    generalize dependent (c / v). intros q Hq0 Hq1 Hq2.
    rewrite (wrap_I64_small q) by lia.
    rewrite (wrap_I64_small (q + 1)) by lia.
    rewrite Z.mul_add_distr_r, Z.mul_1_l.
    generalize dependent (q * v). intros p Hq1 Hq2.
    rewrite wrap_I64_small by lia. reflexivity.
Qed.

(* v = 0: integer division by zero, a Go panic (any cursor) *)
Lemma round_up_by_multiple_of_gen_zero fuel c : (1 <= fuel)%nat ->
  gen_call fuel "inclusion.RoundUpByMultipleOf" I64 [c; 0] = Flt.
Proof.
  intros Hf. destruct fuel as [|fuel]; [lia|].
  unfold gen_call. rewrite callf_S. cbn. reflexivity.
Qed.

(* ---------- inclusion.getMin (generic; no arithmetic, so no range condition) ---------- *)

Lemma get_min_gen fuel t i j : (1 <= fuel)%nat ->
  gen_call fuel "inclusion.getMin" t [i; j] = Val [Z.min i j].
Proof.
  intros Hf. destruct fuel as [|fuel]; [lia|].
  unfold gen_call. rewrite callf_S. cbn. unfold eval_cmp.
  destruct (i <? j) eqn:E; cbn; kz.
  - f_equal. f_equal. lia.
  - f_equal. f_equal. lia.
Qed.

(* ---------- share.CompactSharesNeeded / share.SparseSharesNeeded ---------- *)

(* the N-valued closed forms of Model/Counter.v, read in Z *)
Definition needed_form (a b n : Z) : Z :=
  if n =? 0 then 0 else
  if n <? a then 1 else
  1 + (n - a) / b + (if 0 <? (n - a) mod b then 1 else 0).

Lemma needed_form_N (a b m : N) : (0 < b)%N ->
  Z.of_N (if (m =? 0)%N then 0%N else
          if (m <? a)%N then 1%N else
          (1 + (m - a) / b + (if (0 <? (m - a) mod b)%N then 1 else 0))%N) =
  needed_form (Z.of_N a) (Z.of_N b) (Z.of_N m).
Proof.
  intros Hb. unfold needed_form.
  destruct (N.eqb_spec m 0) as [e|e]; destruct (Z.eqb_spec (Z.of_N m) 0) as [e'|e']; try lia.
  destruct (N.ltb_spec m a) as [l|l]; destruct (Z.ltb_spec (Z.of_N m) (Z.of_N a)) as [l'|l']; try lia.
  assert (Hmod: Z.of_N ((m - a) mod b) = (Z.of_N m - Z.of_N a) mod Z.of_N b).
  { rewrite N2Z.inj_mod, N2Z.inj_sub by lia. reflexivity. }
  rewrite !N2Z.inj_add, N2Z.inj_div, N2Z.inj_sub by lia.
  rewrite <- Hmod. generalize ((m - a) mod b)%N as x. intros x.
  destruct (N.ltb_spec 0 x) as [h|h]; destruct (Z.ltb_spec 0 (Z.of_N x)) as [h'|h']; try lia.
Qed.

Lemma compact_shares_needed_Z n : 0 <= n ->
  Z.of_N (compact_shares_needed (Z.to_N n)) = needed_form 474 478 n.
Proof.
  intros Hn. unfold compact_shares_needed.
  rewrite (needed_form_N 474 478 (Z.to_N n)) by reflexivity.
  rewrite Z2N.id by lia. reflexivity.
Qed.

Lemma sparse_shares_needed_Z n : 0 <= n ->
  Z.of_N (sparse_shares_needed (Z.to_N n)) = needed_form 478 482 n.
Proof.
  intros Hn. unfold sparse_shares_needed.
  rewrite (needed_form_N 478 482 (Z.to_N n)) by reflexivity.
  rewrite Z2N.id by lia. reflexivity.
Qed.

Lemma compact_shares_needed_gen fuel n : (1 <= fuel)%nat -> 0 <= n < 2^32 ->
  gen_call fuel "share.CompactSharesNeeded" I64 [n] = Val [Z.of_N (compact_shares_needed (Z.to_N n))].
Proof.
  intros Hf Hn. assert (Hn': 0 <= n < 4294967296) by exact Hn. clear Hn.
  rewrite compact_shares_needed_Z by lia.
  destruct fuel as [|fuel]; [lia|].
  unfold gen_call. rewrite callf_S. cbn. unfold eval_cmp, needed_form.
  destruct (n =? 0) eqn:E0; cbn; kz; [reflexivity|].
  destruct (n <? 474) eqn:E1; cbn; kz; [reflexivity|].
  rewrite (wrap_U32_small (n - 474)) by lia.
  rewrite quot_nonneg, rem_nonneg by lia.
  pose proof (Z.mod_pos_bound (n - 474) 478 ltac:(lia)) as Hb.
  assert (Hq: 0 <= (n - 474) / 478 <= n - 474).
  { split; [apply Z.div_pos; lia|]. apply Z.div_le_upper_bound; lia. }
  generalize dependent ((n - 474) mod 478). intros r Hb.
  generalize dependent ((n - 474) / 478). intros q Hq.
  rewrite (wrap_U32_small r), (wrap_U32_small q) by lia.
  destruct (0 <? r) eqn:E2; cbn; kz.
  - rewrite (wrap_U32_small (q + 1)) by lia.
    rewrite (wrap_I64_small (q + 1)) by lia.
    rewrite wrap_I64_small by lia. f_equal. f_equal. lia.
  - rewrite (wrap_I64_small q) by lia.
    rewrite wrap_I64_small by lia. f_equal. f_equal. lia.
Qed.

Lemma sparse_shares_needed_gen fuel n : (1 <= fuel)%nat -> 0 <= n < 2^32 ->
  gen_call fuel "share.SparseSharesNeeded" I64 [n] = Val [Z.of_N (sparse_shares_needed (Z.to_N n))].
Proof.
  intros Hf Hn. assert (Hn': 0 <= n < 4294967296) by exact Hn. clear Hn.
  rewrite sparse_shares_needed_Z by lia.
  destruct fuel as [|fuel]; [lia|].
  unfold gen_call. rewrite callf_S. cbn. unfold eval_cmp, needed_form.
  destruct (n =? 0) eqn:E0; cbn; kz; [reflexivity|].
  destruct (n <? 478) eqn:E1; cbn; kz; [reflexivity|].
  rewrite (wrap_U32_small (n - 478)) by lia.
  rewrite quot_nonneg, rem_nonneg by lia.
  pose proof (Z.mod_pos_bound (n - 478) 482 ltac:(lia)) as Hb.
  assert (Hq: 0 <= (n - 478) / 482 <= n - 478).
  { split; [apply Z.div_pos; lia|]. apply Z.div_le_upper_bound; lia. }
  generalize dependent ((n - 478) mod 482). intros r Hb.
  generalize dependent ((n - 478) / 482). intros q Hq.
  rewrite (wrap_U32_small r), (wrap_U32_small q) by lia.
  destruct (0 <? r) eqn:E2; cbn; kz.
  - rewrite (wrap_U32_small (q + 1)) by lia.
    rewrite (wrap_I64_small (q + 1)) by lia.
    rewrite wrap_I64_small by lia. f_equal. f_equal. lia.
  - rewrite (wrap_I64_small q) by lia.
    rewrite wrap_I64_small by lia. f_equal. f_equal. lia.
Qed.

(* ---------- share.AvailableBytesFromCompactShares / ...FromSparseShares ---------- *)

(* no lower bound is needed: n <= 0 returns before any arithmetic.  The upper bound is exactly
   "the result fits int64". *)
Lemma available_compact_gen fuel n : (1 <= fuel)%nat -> (n - 1) * 478 + 474 < 2^63 ->
  gen_call fuel "share.AvailableBytesFromCompactShares" I64 [n] = Val [available_compact n].
Proof.
  intros Hf Hn. assert (Hn': (n - 1) * 478 + 474 < 9223372036854775808) by exact Hn. clear Hn.
  destruct fuel as [|fuel]; [lia|].
  unfold gen_call. rewrite callf_S. cbn. unfold eval_cmp, available_compact.
  destruct (n <=? 0) eqn:E0; cbn; kz; [reflexivity|].
  destruct (n =? 1) eqn:E1; cbn; kz; [reflexivity|].
  rewrite (wrap_I64_small (n - 1)) by lia.
  rewrite (wrap_I64_small ((n - 1) * 478)) by lia.
  rewrite wrap_I64_small by lia. reflexivity.
Qed.

Lemma available_sparse_gen fuel n : (1 <= fuel)%nat -> (n - 1) * 482 + 478 < 2^63 ->
  gen_call fuel "share.AvailableBytesFromSparseShares" I64 [n] = Val [available_sparse n].
Proof.
  intros Hf Hn. assert (Hn': (n - 1) * 482 + 478 < 9223372036854775808) by exact Hn. clear Hn.
  destruct fuel as [|fuel]; [lia|].
  unfold gen_call. rewrite callf_S. cbn. unfold eval_cmp, available_sparse.
  destruct (n <=? 0) eqn:E0; cbn; kz; [reflexivity|].
  destruct (n =? 1) eqn:E1; cbn; kz; [reflexivity|].
  rewrite (wrap_I64_small (n - 1)) by lia.
  rewrite (wrap_I64_small ((n - 1) * 482)) by lia.
  rewrite wrap_I64_small by lia. reflexivity.
Qed.

(* ---------- share.CompactShareCounter.Size / Remainder / Revert ---------- *)
(* arguments: the receiver's four fields; results: the Go results followed by the receiver's
   four fields after the call (fouts) *)

Lemma counter_size_gen fuel ls lr sh r : (1 <= fuel)%nat ->
  r = 0 \/ - 2^63 <= sh + 1 < 2^63 ->
  gen_call fuel "share.CompactShareCounter.Size" I64 [ls; lr; sh; r] =
  Val [counter_size (mk_counter ls lr sh r); ls; lr; sh; r].
Proof.
  intros Hf Hr. destruct fuel as [|fuel]; [lia|].
  unfold gen_call. rewrite callf_S. cbn. unfold eval_cmp, counter_size. cbn.
  destruct (r =? 0) eqn:E0; cbn; kz; [reflexivity|].
  destruct Hr as [Hr|Hr]; [lia|].
  assert (Hr': -9223372036854775808 <= sh + 1 < 9223372036854775808) by exact Hr.
  rewrite wrap_I64_small by lia. reflexivity.
Qed.

Lemma counter_remainder_gen fuel ls lr sh r : (1 <= fuel)%nat ->
  gen_call fuel "share.CompactShareCounter.Remainder" I64 [ls; lr; sh; r] =
  Val [counter_remainder (mk_counter ls lr sh r); ls; lr; sh; r].
Proof.
  intros Hf. destruct fuel as [|fuel]; [lia|].
  unfold gen_call. rewrite callf_S. cbn. reflexivity.
Qed.

Lemma counter_revert_gen fuel ls lr sh r : (1 <= fuel)%nat ->
  gen_call fuel "share.CompactShareCounter.Revert" I64 [ls; lr; sh; r] =
  let c := counter_revert (mk_counter ls lr sh r) in
  Val [c_last_shares c; c_last_rem c; c_shares c; c_rem c].
Proof.
  intros Hf. destruct fuel as [|fuel]; [lia|].
  unfold gen_call. rewrite callf_S. cbn. reflexivity.
Qed.

(* ---------- square.IsPowerOfTwo ---------- *)

Lemma land_small_l n a b : 0 <= n -> 0 <= a < 2^n -> 0 <= Z.land a b < 2^n.
Proof.
  intros Hn Ha.
  assert (E: Z.land a b = Z.land a b mod 2^n).
  { rewrite <- (Z.land_ones (Z.land a b) n) by exact Hn.
    rewrite (Z.land_comm a b), <- Z.land_assoc, (Z.land_ones a n) by exact Hn.
    rewrite (Z.mod_small a (2^n)) by exact Ha. reflexivity. }
  rewrite E. apply Z.mod_pos_bound. apply Z.pow_pos_nonneg; lia.
Qed.

Lemma lor_small n a b : 0 <= n -> 0 <= a < 2^n -> 0 <= b < 2^n -> 0 <= Z.lor a b < 2^n.
Proof.
  intros Hn Ha Hb.
  assert (E: Z.lor a b = Z.lor a b mod 2^n).
  { rewrite <- (Z.land_ones (Z.lor a b) n) by exact Hn.
    rewrite Z.land_lor_distr_l, !Z.land_ones by exact Hn.
    rewrite (Z.mod_small a), (Z.mod_small b) by assumption. reflexivity. }
  rewrite E. apply Z.mod_pos_bound. apply Z.pow_pos_nonneg; lia.
Qed.

Lemma land_range_signed n a b : 0 <= n ->
  - 2^n <= a < 2^n -> - 2^n <= b < 2^n -> - 2^n <= Z.land a b < 2^n.
Proof.
  intros Hn Ha Hb.
  destruct (Z.le_gt_cases 0 a) as [Ha0|Ha0].
  { pose proof (land_small_l n a b Hn ltac:(lia)). lia. }
  destruct (Z.le_gt_cases 0 b) as [Hb0|Hb0].
  { pose proof (land_small_l n b a Hn ltac:(lia)) as H. rewrite Z.land_comm in H. lia. }
  rewrite <- (Z.lnot_involutive (Z.land a b)), Z.lnot_land.
  assert (La: Z.lnot a = - a - 1) by (unfold Z.lnot; lia).
  assert (Lb: Z.lnot b = - b - 1) by (unfold Z.lnot; lia).
  pose proof (lor_small n (Z.lnot a) (Z.lnot b) Hn ltac:(lia) ltac:(lia)) as H.
  generalize dependent (Z.lor (Z.lnot a) (Z.lnot b)). intros y Hy.
  unfold Z.lnot. lia.
Qed.

Lemma is_power_of_two_gen_i64 fuel x : (1 <= fuel)%nat -> - 2^63 < x < 2^63 ->
  gen_call fuel "square.IsPowerOfTwo" I64 [x] = Val [b2z (is_pow2 x)].
Proof.
  intros Hf Hx.
  pose proof (land_range_signed 63 x (x - 1) ltac:(lia) ltac:(lia) ltac:(lia)) as Hl.
  assert (Hx': -9223372036854775808 < x < 9223372036854775808) by exact Hx.
  assert (Hl': -9223372036854775808 <= Z.land x (x - 1) < 9223372036854775808) by exact Hl.
  clear Hx Hl.
  destruct fuel as [|fuel]; [lia|].
  unfold gen_call. rewrite callf_S. cbn. unfold eval_cmp, is_pow2.
  rewrite (wrap_I64_small (x - 1)) by lia.
  rewrite wrap_I64_small by lia.
  destruct (Z.land x (x - 1) =? 0); cbn; kz; reflexivity.
Qed.

(* At x = -2^63 the two sides differ: in int64, input-1 wraps to 2^63-1 and the Go function says
   "power of two"; the model computes on unbounded integers and says no.  So the range above is exact. *)
Lemma is_power_of_two_gen_i64_min fuel : (1 <= fuel)%nat ->
  gen_call fuel "square.IsPowerOfTwo" I64 [- 2^63] = Val [1] /\ is_pow2 (- 2^63) = false.
Proof.
  intros Hf. destruct fuel as [|fuel]; [lia|].
  split; [|vm_compute; reflexivity].
  unfold gen_call. rewrite callf_S. vm_compute. reflexivity.
Qed.

(* uint64 instantiation: agreement on the whole type *)
Lemma is_power_of_two_gen_u64 fuel x : (1 <= fuel)%nat -> 0 <= x < 2^64 ->
  gen_call fuel "square.IsPowerOfTwo" U64 [x] = Val [b2z (is_pow2 x)].
Proof.
  intros Hf Hx.
  pose proof (land_small_l 64 x (x - 1) ltac:(lia) Hx) as Hl.
  assert (Hx': 0 <= x < 18446744073709551616) by exact Hx.
  assert (Hl': 0 <= Z.land x (x - 1) < 18446744073709551616) by exact Hl.
  clear Hx Hl.
  destruct fuel as [|fuel]; [lia|].
  unfold gen_call. rewrite callf_S.
  destruct (Z.eq_dec x 0) as [->|Hx0]; [vm_compute; reflexivity|].
  cbn. unfold eval_cmp, is_pow2.
  rewrite (wrap_U64_small (x - 1)) by lia.
  rewrite wrap_U64_small by lia.
  destruct (Z.land x (x - 1) =? 0); cbn; kz; reflexivity.
Qed.
