(* Link for the slice fragment: the GoLiteL program of Gen/Generated.v ([gen_program_l], printed from
   the Go source on every run) runs with the same two externals as the scalar program
   (GenLink.gen_ext), and calls of scalar functions run GoLite's [callf] on [gen_program]:
   [gen_call_l fuel f targ args] with args and results of type [value] (VZ scalar | VL slice).
   Definitions only. *)
From GS.Model Require Import Base Varint Arith GoLite GoLiteL.
From GS.Gen Require Import Generated.
From GS.GenProofs Require Import GenLink.
Open Scope string_scope.
Open Scope Z_scope.

Definition gen_call_l (fuel : nat) (f : string) (targ : ity) (args : list value) : res (list value) :=
  callfl gen_ext gen_program gen_program_l fuel f targ args.
