(* More straight-line functions of the regenerated GoLite program (Gen/Generated.v) against the
   hand-written model: the info byte (ShareFmt / Helpers), the builder's capacity test and getters
   (Builder), share ranges (Helpers) and rawTxSize (Varint.delim_len). *)
From Coq Require Import Lia ZArith NArith List String ZifyN ZifyNat ZifyBool.
From GS.Model Require Import Base Varint ShareFmt Counter Arith Builder Helpers GoLite.
From GS.Proofs Require Import BaseLemmas VarintProofs HelpersProofs GoLiteLemmas.
From GS.Gen Require Import Generated.
From GS.GenProofs Require Import GenLink.
Open Scope string_scope. Open Scope Z_scope.

(* Z.eqb / Z.ltb are [simpl never] (GoLiteLemmas); decide the tests on literals that symbolic
   execution leaves behind *)
Ltac kz :=
  repeat first [ progress change (0 =? 0) with true
               | progress change (1 =? 0) with false
               | progress change (2 =? 0) with false
               | progress change (1 <? 0) with false ];
  cbn.

(* ---------- share.NewInfoByte ---------- *)

Lemma new_info_byte_gen_ok fuel v b : (1 <= fuel)%nat -> 0 <= v <= 127 -> b = 0 \/ b = 1 ->
  gen_call fuel "share.NewInfoByte" I64 [v; b] = Val [2 * v + b; 0].
Proof.
  intros Hf Hv Hb. destruct fuel as [|fuel]; [lia|].
  unfold gen_call. rewrite callf_S. cbn. unfold eval_cmp.
  destruct (127 <? v) eqn:E; [lia|]. cbn; kz.
  change (2 ^ 1) with 2.
  rewrite (wrap_U8_small (v * 2)) by lia.
  destruct Hb as [-> | ->]; cbn; kz.
  - rewrite wrap_U8_small by lia. f_equal. f_equal. lia.
  - rewrite (wrap_U8_small (v * 2 + 1)) by lia. rewrite wrap_U8_small by lia.
    f_equal. f_equal. lia.
Qed.

(* above MaxShareVersion: (0, error), whatever the flag *)
Lemma new_info_byte_gen_err fuel v b : (1 <= fuel)%nat -> 127 < v ->
  gen_call fuel "share.NewInfoByte" I64 [v; b] = Val [0; 1].
Proof.
  intros Hf Hv. destruct fuel as [|fuel]; [lia|].
  unfold gen_call. rewrite callf_S. cbn. unfold eval_cmp.
  destruct (127 <? v) eqn:E; [|lia]. cbn; kz. reflexivity.
Qed.

Lemma new_info_byte_gen fuel v b : (1 <= fuel)%nat -> 0 <= v < 256 -> b = 0 \/ b = 1 ->
  gen_call fuel "share.NewInfoByte" I64 [v; b] =
  match new_info_byte (Z.to_N v) (b =? 1) with
  | Ok i => Val [Z.of_N (b2n i); 0]
  | _ => Val [0; 1]
  end.
Proof.
  intros Hf Hv Hb. unfold new_info_byte, max_share_version.
  destruct (N.ltb_spec 127 (Z.to_N v)) as [l|l].
  - apply new_info_byte_gen_err; lia.
  - rewrite new_info_byte_gen_ok by lia.
    destruct Hb as [-> | ->].
    + change (0 =? 1) with false. rewrite b2n_n2b by lia. f_equal. f_equal. lia.
    + change (1 =? 1) with true. rewrite b2n_n2b by lia. f_equal. f_equal. lia.
Qed.

(* ---------- share.InfoByte.Version / IsSequenceStart ---------- *)

Lemma odd_to_N i : 0 <= i -> N.odd (Z.to_N i) = Z.odd i.
Proof. intros H. destruct i as [|p|p]; [reflexivity|destruct p; reflexivity|lia]. Qed.

Lemma info_version_Z i : 0 <= i < 256 -> Z.of_N (info_version (n2b (Z.to_N i))) = i / 2.
Proof.
  intros H. unfold info_version. rewrite b2n_n2b by lia.
  rewrite N2Z.inj_div, Z2N.id by lia. reflexivity.
Qed.

Lemma info_start_Z i : 0 <= i < 256 -> info_start (n2b (Z.to_N i)) = (i mod 2 =? 1).
Proof.
  intros H. unfold info_start. rewrite b2n_n2b by lia. rewrite odd_to_N by lia.
  rewrite Zmod_odd. destruct (Z.odd i); reflexivity.
Qed.

Lemma info_byte_version_gen fuel i : (1 <= fuel)%nat -> 0 <= i < 256 ->
  gen_call fuel "share.InfoByte.Version" I64 [i] = Val [i / 2].
Proof.
  intros Hf Hi. destruct fuel as [|fuel]; [lia|].
  unfold gen_call. rewrite callf_S. cbn; kz.
  rewrite (wrap_U8_small i) by lia.
  rewrite Z.shiftr_div_pow2 by lia. change (2 ^ 1) with 2.
  assert (0 <= i / 2 < 128) by (split; [apply Z.div_pos; lia | apply Z.div_lt_upper_bound; lia]).
  rewrite wrap_U8_small by lia. reflexivity.
Qed.

Lemma info_byte_is_sequence_start_gen fuel i : (1 <= fuel)%nat -> 0 <= i < 256 ->
  gen_call fuel "share.InfoByte.IsSequenceStart" I64 [i] = Val [b2z (i mod 2 =? 1)].
Proof.
  intros Hf Hi. destruct fuel as [|fuel]; [lia|].
  unfold gen_call. rewrite callf_S. cbn; kz.
  rewrite (wrap_U64_small i) by lia.
  rewrite rem_nonneg by lia.
  pose proof (Z.mod_pos_bound i 2 ltac:(lia)).
  rewrite wrap_U64_small by lia. reflexivity.
Qed.

(* ---------- share.ParseInfoByte ---------- *)

Lemma parse_info_byte_gen fuel i : (2 <= fuel)%nat -> 0 <= i < 256 ->
  gen_call fuel "share.ParseInfoByte" I64 [i] = Val [i; 0].
Proof.
  intros Hf Hi. destruct fuel as [|fuel]; [lia|].
  unfold gen_call. rewrite callf_S. cbn; kz.
  rewrite rem_nonneg by lia.
  pose proof (Z.mod_pos_bound i 2 ltac:(lia)) as Hm.
  rewrite (wrap_U8_small (i mod 2)) by lia.
  rewrite Z.shiftr_div_pow2 by lia. change (2 ^ 1) with 2.
  assert (Hd: 0 <= i / 2 < 128) by (split; [apply Z.div_pos; lia | apply Z.div_lt_upper_bound; lia]).
  rewrite (wrap_U8_small (i / 2)) by lia.
  pose proof (Z.div_mod i 2 ltac:(lia)) as Hdm.
  fold (gen_call fuel "share.NewInfoByte" I64 [i / 2; eval_cmp CEq (i mod 2) 1]).
  unfold eval_cmp.
  rewrite new_info_byte_gen_ok; [| lia | lia | destruct (i mod 2 =? 1); auto].
  cbn. f_equal. f_equal.
  destruct (Z.eqb_spec (i mod 2) 1); cbn; lia.
Qed.

(* the same three facts with the model's functions on the right-hand side; [byte_Z i] is the Go
   byte as the integer GoLite passes around *)
Definition byte_Z (i : byte) : Z := Z.of_N (b2n i).

Lemma byte_Z_range i : 0 <= byte_Z i < 256.
Proof. unfold byte_Z. pose proof (b2n_lt i). lia. Qed.

Lemma byte_Z_n2b i : n2b (Z.to_N (byte_Z i)) = i.
Proof. unfold byte_Z. rewrite N2Z.id. apply n2b_b2n. Qed.

Lemma info_byte_version_model fuel i : (1 <= fuel)%nat -> 0 <= i < 256 ->
  gen_call fuel "share.InfoByte.Version" I64 [i] = Val [Z.of_N (info_version (n2b (Z.to_N i)))].
Proof. intros Hf Hi. rewrite info_version_Z by exact Hi. apply info_byte_version_gen; assumption. Qed.

Lemma info_byte_is_sequence_start_model fuel i : (1 <= fuel)%nat -> 0 <= i < 256 ->
  gen_call fuel "share.InfoByte.IsSequenceStart" I64 [i] = Val [b2z (info_start (n2b (Z.to_N i)))].
Proof. intros Hf Hi. rewrite info_start_Z by exact Hi. apply info_byte_is_sequence_start_gen; assumption. Qed.

Lemma info_byte_accessors_byte fuel (i : byte) : (1 <= fuel)%nat ->
  gen_call fuel "share.InfoByte.Version" I64 [byte_Z i] = Val [Z.of_N (info_version i)] /\
  gen_call fuel "share.InfoByte.IsSequenceStart" I64 [byte_Z i] = Val [b2z (info_start i)].
Proof.
  intros Hf. pose proof (byte_Z_range i) as Hr.
  rewrite info_byte_version_model, info_byte_is_sequence_start_model by assumption.
  rewrite byte_Z_n2b. split; reflexivity.
Qed.

Lemma parse_info_byte_model fuel i : (2 <= fuel)%nat -> 0 <= i < 256 ->
  gen_call fuel "share.ParseInfoByte" I64 [i] =
  match parse_info_byte (n2b (Z.to_N i)) with
  | Ok j => Val [Z.of_N (b2n j); 0]
  | _ => Val [0; 1]
  end.
Proof.
  intros Hf Hi. rewrite parse_info_byte_total, b2n_n2b, Z2N.id by lia.
  apply parse_info_byte_gen; assumption.
Qed.

Lemma parse_info_byte_byte fuel (i : byte) : (2 <= fuel)%nat ->
  gen_call fuel "share.ParseInfoByte" I64 [byte_Z i] = Val [byte_Z i; 0] /\
  parse_info_byte i = Ok i.
Proof.
  intros Hf. split; [apply parse_info_byte_gen; [exact Hf|apply byte_Z_range]|apply parse_info_byte_total].
Qed.

(* ---------- square.Builder.canFit / CurrentSize / SubtreeRootThreshold ---------- *)
(* arguments: the receiver's integer fields [maxSquareSize; currentSize; done; subtreeRootThreshold]
   (then the Go arguments); results: the Go results followed by the four fields after the call *)

Definition in_i64 (z : Z) : Prop := - 2^63 <= z < 2^63.

Lemma in_i64_wrap z : in_i64 z -> wrap I64 z = z.
Proof. intros H. apply wrap_I64_small. exact H. Qed.

(* exactly: neither the sum nor the square leaves int64 *)
Lemma builder_can_fit_gen fuel max cur dn thr n : (1 <= fuel)%nat ->
  in_i64 (cur + n) -> in_i64 (max * max) ->
  gen_call fuel "square.Builder.canFit" I64 [max; cur; dn; thr; n] =
  Val [b2z (cur + n <=? max * max); max; cur; dn; thr].
Proof.
  intros Hf Hs Hm. destruct fuel as [|fuel]; [lia|].
  unfold gen_call. rewrite callf_S. cbn.
  rewrite (in_i64_wrap (cur + n)), (in_i64_wrap (max * max)) by assumption.
  reflexivity.
Qed.

Lemma square_lt_2_62 max : - 2^31 <= max <= 2^31 -> 0 <= max * max <= 2^62.
Proof.
  intros H. change (2^31) with 2147483648 in H. change (2^62) with 4611686018427387904. nia.
Qed.

Lemma builder_can_fit_gen_range fuel max cur dn thr n : (1 <= fuel)%nat ->
  - 2^31 <= max <= 2^31 -> - 2^62 <= cur < 2^62 -> - 2^62 <= n < 2^62 ->
  gen_call fuel "square.Builder.canFit" I64 [max; cur; dn; thr; n] =
  Val [b2z (cur + n <=? max * max); max; cur; dn; thr].
Proof.
  intros Hf Hm Hc Hn. pose proof (square_lt_2_62 max Hm) as Hq.
  apply builder_can_fit_gen; [exact Hf| |]; unfold in_i64;
    change (2^62) with 4611686018427387904 in *; change (2^63) with 9223372036854775808; lia.
Qed.

(* the receiver as the model's builder record *)
Definition builder_fields (b : builder) : list Z :=
  [Z.of_N (bd_max b); bd_cur b; b2z (bd_done b); Z.of_N (bd_thr b)].

Lemma builder_can_fit_model fuel b n : (1 <= fuel)%nat ->
  in_i64 (bd_cur b + n) -> (bd_max b * bd_max b < 2^63)%N ->
  gen_call fuel "square.Builder.canFit" I64 (builder_fields b ++ [n]) =
  Val (b2z (can_fit b n) :: builder_fields b).
Proof.
  intros Hf Hs Hm. unfold builder_fields, can_fit. cbn [app].
  rewrite N2Z.inj_mul.
  apply builder_can_fit_gen; [exact Hf|exact Hs|].
  unfold in_i64. change (2^63)%N with 9223372036854775808%N in Hm.
  change (2^63) with 9223372036854775808. lia.
Qed.

(* outside the range: maxSquareSize = 2^32 passes NewBuilder's checks (positive, a power of two) but
   its square is 0 in int64, so the Go function says "does not fit" where the model says "fits" *)
Lemma builder_can_fit_wraps fuel : (1 <= fuel)%nat ->
  gen_call fuel "square.Builder.canFit" I64 [2^32; 0; 0; 64; 1] = Val [0; 2^32; 0; 0; 64] /\
  can_fit (empty_builder (2^32) 64) 1 = true /\
  builder_fields (empty_builder (2^32) 64) = [2^32; 0; 0; 64] /\
  new_builder_ok (2^32) = true.
Proof.
  intros Hf. destruct fuel as [|fuel]; [lia|].
  unfold gen_call. rewrite callf_S. vm_compute. repeat split; reflexivity.
Qed.

Lemma builder_getters_gen fuel max cur dn thr : (1 <= fuel)%nat ->
  gen_call fuel "square.Builder.CurrentSize" I64 [max; cur; dn; thr] = Val [cur; max; cur; dn; thr] /\
  gen_call fuel "square.Builder.SubtreeRootThreshold" I64 [max; cur; dn; thr] = Val [thr; max; cur; dn; thr].
Proof.
  intros Hf. destruct fuel as [|fuel]; [lia|].
  unfold gen_call. rewrite !callf_S. cbn. split; reflexivity.
Qed.

Lemma builder_getters_model fuel b : (1 <= fuel)%nat ->
  gen_call fuel "square.Builder.CurrentSize" I64 (builder_fields b) = Val (bd_cur b :: builder_fields b) /\
  gen_call fuel "square.Builder.SubtreeRootThreshold" I64 (builder_fields b) =
    Val (Z.of_N (bd_thr b) :: builder_fields b).
Proof. intros Hf. apply builder_getters_gen. exact Hf. Qed.

(* ---------- square.Element.maxShareOffset ---------- *)

Lemma element_max_share_offset_gen fuel pfb blob n p : (1 <= fuel)%nat -> in_i64 (n + p) ->
  gen_call fuel "square.Element.maxShareOffset" I64 [pfb; blob; n; p] = Val [n + p].
Proof.
  intros Hf Hs. destruct fuel as [|fuel]; [lia|].
  unfold gen_call. rewrite callf_S. cbn. rewrite in_i64_wrap by exact Hs. reflexivity.
Qed.

Definition element_fields (e : element) : list Z :=
  [Z.of_N (e_pfb_index e); Z.of_N (e_blob_index e); Z.of_N (e_num_shares e); Z.of_N (e_max_padding e)].

Lemma element_max_share_offset_model fuel e : (1 <= fuel)%nat ->
  (e_num_shares e + e_max_padding e < 2^63)%N ->
  gen_call fuel "square.Element.maxShareOffset" I64 (element_fields e) = Val [Z.of_N (max_share_offset e)].
Proof.
  intros Hf Hs. unfold element_fields, max_share_offset. rewrite N2Z.inj_add.
  apply element_max_share_offset_gen; [exact Hf|].
  unfold in_i64. change (2^63)%N with 9223372036854775808%N in Hs.
  change (2^63) with 9223372036854775808. lia.
Qed.

(* ---------- share.Range.IsEmpty / Add ---------- *)

(* the model's Go-int wrap-around is GoLite's wrap at int64 *)
Lemma int_wrap_is_wrap z : int_wrap z = wrap I64 z.
Proof. reflexivity. Qed.

Lemma range_is_empty_gen fuel s e : (1 <= fuel)%nat ->
  gen_call fuel "share.Range.IsEmpty" I64 [s; e] = Val [b2z (range_is_empty (s, e))].
Proof.
  intros Hf. destruct fuel as [|fuel]; [lia|].
  unfold gen_call. rewrite callf_S. cbn. unfold eval_cmp, range_is_empty. cbn [fst snd].
  destruct (s =? 0); cbn; kz; [|reflexivity].
  destruct (e =? 0); reflexivity.
Qed.

(* every int64 (in fact every integer): no overflow condition, both sides wrap the same way *)
Lemma range_add_gen fuel s e v : (1 <= fuel)%nat ->
  gen_call fuel "share.Range.Add" I64 [s; e; v] =
  Val [fst (range_add (s, e) v); snd (range_add (s, e) v)].
Proof.
  intros Hf. destruct fuel as [|fuel]; [lia|].
  unfold gen_call. rewrite callf_S. cbn. reflexivity.
Qed.

(* ... and the results are int64 values again *)
Lemma range_add_in_i64 s e v :
  in_i64 (fst (range_add (s, e) v)) /\ in_i64 (snd (range_add (s, e) v)).
Proof.
  unfold range_add, in_i64. cbn [fst snd].
  pose proof (int_wrap_in_int (s + v)) as H1. pose proof (int_wrap_in_int (e + v)) as H2.
  unfold in_int in *. change (2^63) with 9223372036854775808. lia.
Qed.

(* ---------- share.rawTxSize ---------- *)

Lemma raw_tx_size_gen fuel n : (2 <= fuel)%nat -> 0 <= n < 2^63 ->
  gen_call fuel "share.rawTxSize" I64 [n] = Val [n - Z.of_N (delim_len (Z.to_N n))].
Proof.
  intros Hf Hn. change (2^63) with 9223372036854775808 in Hn.
  destruct fuel as [|fuel]; [lia|]. destruct fuel as [|fuel]; [lia|].
  unfold gen_call. rewrite callf_S. cbn.
  rewrite (wrap_U64_small n) by lia.
  destruct (n <? 0) eqn:E0; [lia|]. cbn.
  assert (Hdl: 1 <= Z.of_N (delim_len (Z.to_N n)) <= 10).
  { unfold delim_len, lenN. pose proof (put_uvarint_length (Z.to_N n)). lia. }
  rewrite wrap_I64_small by lia. reflexivity.
Qed.

Lemma raw_tx_size_sum fuel n : (2 <= fuel)%nat -> 0 <= n < 2^63 ->
  exists r, gen_call fuel "share.rawTxSize" I64 [n] = Val [r] /\
            r + Z.of_N (delim_len (Z.to_N n)) = n /\ n - 10 <= r <= n - 1.
Proof.
  intros Hf Hn. exists (n - Z.of_N (delim_len (Z.to_N n))).
  split; [apply raw_tx_size_gen; assumption|].
  assert (Hdl: 1 <= Z.of_N (delim_len (Z.to_N n)) <= 10).
  { unfold delim_len, lenN. pose proof (put_uvarint_length (Z.to_N n)). lia. }
  lia.
Qed.

(* ---------- bundles (the statements of GenProofs/C10_gen.v) ---------- *)

Lemma new_info_byte_gen_cases fuel v b : (1 <= fuel)%nat ->
  (0 <= v <= 127 -> b = 0 \/ b = 1 -> gen_call fuel "share.NewInfoByte" I64 [v; b] = Val [2 * v + b; 0]) /\
  (127 < v -> gen_call fuel "share.NewInfoByte" I64 [v; b] = Val [0; 1]).
Proof.
  intros Hf. split; [apply new_info_byte_gen_ok|apply new_info_byte_gen_err]; exact Hf.
Qed.

Lemma info_byte_version_full fuel i : (1 <= fuel)%nat -> 0 <= i < 256 ->
  gen_call fuel "share.InfoByte.Version" I64 [i] = Val [Z.of_N (info_version (n2b (Z.to_N i)))] /\
  Z.of_N (info_version (n2b (Z.to_N i))) = i / 2.
Proof.
  intros Hf Hi. split; [apply info_byte_version_model; assumption|apply info_version_Z; exact Hi].
Qed.

Lemma info_byte_is_sequence_start_full fuel i : (1 <= fuel)%nat -> 0 <= i < 256 ->
  gen_call fuel "share.InfoByte.IsSequenceStart" I64 [i] = Val [b2z (info_start (n2b (Z.to_N i)))] /\
  info_start (n2b (Z.to_N i)) = (i mod 2 =? 1).
Proof.
  intros Hf Hi. split; [apply info_byte_is_sequence_start_model; assumption|apply info_start_Z; exact Hi].
Qed.

Lemma parse_info_byte_full fuel i : (2 <= fuel)%nat -> 0 <= i < 256 ->
  gen_call fuel "share.ParseInfoByte" I64 [i] = Val [i; 0] /\
  gen_call fuel "share.ParseInfoByte" I64 [i] =
    match parse_info_byte (n2b (Z.to_N i)) with
    | Ok j => Val [Z.of_N (b2n j); 0]
    | _ => Val [0; 1]
    end /\
  parse_info_byte (n2b (Z.to_N i)) = Ok (n2b (Z.to_N i)).
Proof.
  intros Hf Hi. split; [apply parse_info_byte_gen; assumption|].
  split; [apply parse_info_byte_model; assumption|apply parse_info_byte_total].
Qed.
