(* C01: Build (greedy, interleaved, with refused appends) and Construct (strict, on the
   kept list) reach observationally equal builders, hence export the same square.

   Proof plan.  [force_tx]/[force_blob] are the "accepted" branches of AppendTx /
   AppendBlobTx.  They commute with each other (they touch disjoint parts of the
   builder, except currentSize, to which both add).  So the builder reached by Build is,
   up to the remembered "last" fields of the two counters ([beq]), the builder
   [replay b0 normals bts] obtained by forcing first all kept ordinary txs and then all
   kept blob txs.  Every forced step adds a non-negative amount to currentSize (the
   counters always encode a length, so their increments are differences of a monotone
   closed form), so every prefix of the partitioned run stays below the final
   currentSize of the interleaved run, which is below max*max: Construct accepts every
   kept tx and reaches exactly [replay b0 normals bts].  Export reads the counters only
   through [counter_size], so it cannot tell the two builders apart. *)
From Coq Require Import List NArith ZArith Lia Bool.
From Coq Require Import ZifyN ZifyNat ZifyBool.
From GS.Model Require Import Base Varint Namespace ShareFmt Blob Sparse Compact Counter Arith Proto Builder.
From GS.Proofs Require Import CounterProofs.
Import ListNotations.

Open Scope Z_scope.

(* ---- order-preserving subsequence ---- *)
Inductive sublist {A : Type} : list A -> list A -> Prop :=
| sl_nil : sublist [] []
| sl_skip x l1 l2 : sublist l1 l2 -> sublist l1 (x :: l2)
| sl_keep x l1 l2 : sublist l1 l2 -> sublist (x :: l1) (x :: l2).

Lemma sublist_nil_l {A} (l : list A) : sublist [] l.
Proof. induction l; constructor; assumption. Qed.

Lemma sublist_refl {A} (l : list A) : sublist l l.
Proof. induction l; constructor; assumption. Qed.

Lemma sublist_length {A} (l1 l2 : list A) : sublist l1 l2 -> (length l1 <= length l2)%nat.
Proof. induction 1; cbn [length]; lia. Qed.

Lemma sublist_In {A} (l1 l2 : list A) : sublist l1 l2 -> forall x, In x l1 -> In x l2.
Proof.
  induction 1; intros y Hy.
  - exact Hy.
  - right. apply IHsublist. exact Hy.
  - destruct Hy as [Hy|Hy]; [left; exact Hy|right; apply IHsublist; exact Hy].
Qed.

(* ---- counters up to their remembered "last" fields ---- *)
Definition ceq (c1 c2 : counter) : Prop := c_shares c1 = c_shares c2 /\ c_rem c1 = c_rem c2.

Lemma ceq_refl c : ceq c c.
Proof. split; reflexivity. Qed.

Lemma ceq_trans c1 c2 c3 : ceq c1 c2 -> ceq c2 c3 -> ceq c1 c3.
Proof. intros [A B] [C D]. split; congruence. Qed.

(* Add reads only shares/remainder *)
Lemma counter_add_ceq c1 c2 n : ceq c1 c2 -> counter_add c1 n = counter_add c2 n.
Proof.
  destruct c1 as [a1 b1 s1 r1], c2 as [a2 b2 s2 r2]. unfold ceq. cbn [c_shares c_rem].
  intros [-> ->]. reflexivity.
Qed.

Lemma counter_size_ceq c1 c2 : ceq c1 c2 -> counter_size c1 = counter_size c2.
Proof. intros [A B]. unfold counter_size. rewrite A, B. reflexivity. Qed.

Lemma counter_add_last c n :
  c_last_shares (fst (counter_add c n)) = c_shares c /\ c_last_rem (fst (counter_add c n)) = c_rem c.
Proof.
  unfold counter_add.
  repeat match goal with
  | |- context [if ?b then _ else _] => destruct b
  end; cbn [fst c_last_shares c_last_rem]; split; reflexivity.
Qed.

(* Revert directly after an Add restores the counter *)
Lemma counter_revert_add_ceq c n : ceq (counter_revert (fst (counter_add c n))) c.
Proof.
  destruct (counter_add_last c n) as [A B].
  unfold ceq, counter_revert. cbn [c_shares c_rem]. split; assumption.
Qed.

(* the reachable counters: those encoding a length *)
Definition cenc (c : counter) : Prop :=
  exists L, 0 <= L /\ c_shares c = enc_shares L /\ c_rem c = enc_rem L.

Lemma cenc_new : cenc new_counter.
Proof. exists 0. cbn. repeat split; lia. Qed.

Lemma cenc_add c n : 0 <= n -> cenc c ->
  cenc (fst (counter_add c n)) /\ 0 <= snd (counter_add c n).
Proof.
  intros Hn (L & HL & Hs & Hr).
  destruct (counter_add_enc c L n HL Hn Hs Hr) as (A & B & _ & _ & E).
  assert (Hd : 0 <= Z.of_N (delim_len (Z.to_N n))) by apply N2Z.is_nonneg.
  split.
  - exists (L + (n + Z.of_N (delim_len (Z.to_N n)))). split; [|split; assumption].
    apply Z.add_nonneg_nonneg; [assumption|]. apply Z.add_nonneg_nonneg; assumption.
  - rewrite E.
    assert (needed_z L <= needed_z (L + (n + Z.of_N (delim_len (Z.to_N n))))).
    { apply needed_z_mono. split; [assumption|].
      rewrite <- (Z.add_0_r L) at 1. apply Z.add_le_mono_l.
      apply Z.add_nonneg_nonneg; assumption. }
    apply Zle_minus_le_0. assumption.
Qed.

(* ---- builders up to the "last" fields of the counters and the done flag ---- *)
Definition beq (b1 b2 : builder) : Prop :=
  bd_max b1 = bd_max b2 /\ bd_thr b1 = bd_thr b2 /\ bd_cur b1 = bd_cur b2 /\
  bd_txs b1 = bd_txs b2 /\ bd_pfbs b1 = bd_pfbs b2 /\ bd_blobs b1 = bd_blobs b2 /\
  ceq (bd_txc b1) (bd_txc b2) /\ ceq (bd_pfbc b1) (bd_pfbc b2).

Lemma beq_refl b : beq b b.
Proof. unfold beq. repeat split; reflexivity. Qed.

Lemma beq_trans b1 b2 b3 : beq b1 b2 -> beq b2 b3 -> beq b1 b3.
Proof.
  intros (A1 & A2 & A3 & A4 & A5 & A6 & A7 & A8) (B1 & B2 & B3 & B4 & B5 & B6 & B7 & B8).
  unfold beq. repeat split; try congruence.
  - destruct A7, B7; congruence.
  - destruct A7, B7; congruence.
  - destruct A8, B8; congruence.
  - destruct A8, B8; congruence.
Qed.

(* the square returned by Export *)
Definition export_square (b : builder) : outcome (list share) :=
  do r <- export b; Ok (snd r).

(* Export cannot distinguish equivalent builders *)
Lemma export_square_beq b1 b2 : beq b1 b2 -> export_square b1 = export_square b2.
Proof.
  destruct b1 as [m1 t1 cu1 tx1 pf1 bl1 tc1 pc1 d1], b2 as [m2 t2 cu2 tx2 pf2 bl2 tc2 pc2 d2].
  unfold beq. cbn [bd_max bd_thr bd_cur bd_txs bd_pfbs bd_blobs bd_txc bd_pfbc].
  intros (-> & -> & -> & -> & -> & -> & Htc & Hpc).
  apply counter_size_ceq in Htc. apply counter_size_ceq in Hpc.
  unfold export_square, export, builder_is_empty.
  cbn [bd_max bd_thr bd_cur bd_txs bd_pfbs bd_blobs bd_txc bd_pfbc bd_done].
  rewrite Htc, Hpc.
  destruct ((counter_size tc2 =? 0) && (counter_size pc2 =? 0))%bool.
  - destruct empty_square; reflexivity.
  - repeat match goal with
    | |- bind (bind ?o _) _ = bind (bind ?o _) _ => destruct o; cbn [bind]; try reflexivity
    | |- bind (if ?c then _ else _) _ = bind (if ?c then _ else _) _ => destruct c; cbn [bind]; try reflexivity
    end.
Qed.

(* ---- the accepted and the refused branch of the two appends ---- *)
Definition tx_diff (b : builder) (t : bytes) : Z :=
  snd (counter_add (bd_txc b) (Z.of_N (lenN t))).

Definition force_tx (b : builder) (t : bytes) : builder :=
  mk_bd (bd_max b) (bd_thr b) (bd_cur b + tx_diff b t) (bd_txs b ++ [t]) (bd_pfbs b) (bd_blobs b)
        (fst (counter_add (bd_txc b) (Z.of_N (lenN t)))) (bd_pfbc b) false.

Definition skip_tx (b : builder) (t : bytes) : builder :=
  mk_bd (bd_max b) (bd_thr b) (bd_cur b) (bd_txs b) (bd_pfbs b) (bd_blobs b)
        (counter_revert (fst (counter_add (bd_txc b) (Z.of_N (lenN t))))) (bd_pfbc b) (bd_done b).

Lemma append_tx_cases b t :
  append_tx b t = if can_fit b (tx_diff b t) then (force_tx b t, true) else (skip_tx b t, false).
Proof.
  unfold append_tx, force_tx, skip_tx, tx_diff.
  destruct (counter_add (bd_txc b) (Z.of_N (lenN t))) as [c' diff]. cbn [fst snd]. reflexivity.
Qed.

Definition blob_worst (bt : blob_tx) : list N := worst_case_share_indexes (length (btx_blobs bt)).
Definition blob_size (bt : blob_tx) : N := index_wrapper_size (btx_tx bt) (blob_worst bt).
Definition blob_els (b : builder) (bt : blob_tx) : list element :=
  elements_of (btx_blobs bt) (lenN (bd_pfbs b)) 0%N (bd_thr b).
Definition blob_reserved (b : builder) (bt : blob_tx) : N :=
  fold_left (fun acc e => (acc + max_share_offset e)%N) (blob_els b bt) 0%N.
Definition blob_total (b : builder) (bt : blob_tx) : Z :=
  snd (counter_add (bd_pfbc b) (Z.of_N (blob_size bt))) + Z.of_N (blob_reserved b bt).

Definition force_blob (b : builder) (bt : blob_tx) : builder :=
  mk_bd (bd_max b) (bd_thr b) (bd_cur b + blob_total b bt) (bd_txs b)
        (bd_pfbs b ++ [mk_pfb (btx_tx bt) (blob_worst bt)]) (bd_blobs b ++ blob_els b bt)
        (bd_txc b) (fst (counter_add (bd_pfbc b) (Z.of_N (blob_size bt)))) false.

Definition skip_blob (b : builder) (bt : blob_tx) : builder :=
  mk_bd (bd_max b) (bd_thr b) (bd_cur b) (bd_txs b) (bd_pfbs b) (bd_blobs b)
        (bd_txc b) (counter_revert (fst (counter_add (bd_pfbc b) (Z.of_N (blob_size bt))))) (bd_done b).

Lemma append_blob_tx_cases b bt :
  append_blob_tx b bt =
  if can_fit b (blob_total b bt) then (force_blob b bt, true) else (skip_blob b bt, false).
Proof.
  unfold append_blob_tx, force_blob, skip_blob, blob_total, blob_reserved, blob_els, blob_size, blob_worst.
  destruct (counter_add (bd_pfbc b) (Z.of_N (index_wrapper_size (btx_tx bt)
             (worst_case_share_indexes (length (btx_blobs bt)))))) as [c' diff].
  cbn [fst snd]. reflexivity.
Qed.

(* a refused append leaves an equivalent builder *)
Lemma skip_tx_beq b t : beq (skip_tx b t) b.
Proof.
  unfold beq, skip_tx. cbn [bd_max bd_thr bd_cur bd_txs bd_pfbs bd_blobs bd_txc bd_pfbc].
  repeat split; try reflexivity; apply counter_revert_add_ceq.
Qed.

Lemma skip_blob_beq b bt : beq (skip_blob b bt) b.
Proof.
  unfold beq, skip_blob. cbn [bd_max bd_thr bd_cur bd_txs bd_pfbs bd_blobs bd_txc bd_pfbc].
  repeat split; try reflexivity; apply counter_revert_add_ceq.
Qed.

(* the accepted branches respect the equivalence *)
Lemma force_tx_beq b1 b2 t : beq b1 b2 -> beq (force_tx b1 t) (force_tx b2 t).
Proof.
  intros (A1 & A2 & A3 & A4 & A5 & A6 & A7 & A8).
  unfold beq, force_tx, tx_diff. cbn [bd_max bd_thr bd_cur bd_txs bd_pfbs bd_blobs bd_txc bd_pfbc].
  rewrite (counter_add_ceq _ _ (Z.of_N (lenN t)) A7).
  repeat split; try congruence; try apply A8.
Qed.

Lemma force_blob_beq b1 b2 bt : beq b1 b2 -> beq (force_blob b1 bt) (force_blob b2 bt).
Proof.
  intros (A1 & A2 & A3 & A4 & A5 & A6 & A7 & A8).
  unfold beq, force_blob, blob_total, blob_reserved, blob_els.
  cbn [bd_max bd_thr bd_cur bd_txs bd_pfbs bd_blobs bd_txc bd_pfbc].
  rewrite (counter_add_ceq _ _ (Z.of_N (blob_size bt)) A8).
  rewrite A1, A2, A3, A4, A5, A6.
  repeat split; try reflexivity; try apply A7.
Qed.

Lemma can_fit_beq b1 b2 n : beq b1 b2 -> can_fit b1 n = can_fit b2 n.
Proof.
  intros (A1 & A2 & A3 & _). unfold can_fit. rewrite A1, A3. reflexivity.
Qed.

Lemma tx_diff_beq b1 b2 t : beq b1 b2 -> tx_diff b1 t = tx_diff b2 t.
Proof.
  intros (_ & _ & _ & _ & _ & _ & A7 & _). unfold tx_diff.
  rewrite (counter_add_ceq _ _ _ A7). reflexivity.
Qed.

Lemma blob_total_beq b1 b2 bt : beq b1 b2 -> blob_total b1 bt = blob_total b2 bt.
Proof.
  intros (_ & A2 & _ & _ & A5 & _ & _ & A8). unfold blob_total, blob_reserved, blob_els.
  rewrite (counter_add_ceq _ _ _ A8), A2, A5. reflexivity.
Qed.

(* the two kinds of append commute *)
Lemma force_tx_blob_comm b t bt : force_tx (force_blob b bt) t = force_blob (force_tx b t) bt.
Proof.
  unfold force_tx, force_blob, tx_diff, blob_total, blob_reserved, blob_els.
  cbn [bd_max bd_thr bd_cur bd_txs bd_pfbs bd_blobs bd_txc bd_pfbc].
  f_equal. ring.
Qed.

Lemma force_tx_blobs_comm bts : forall b t,
  force_tx (fold_left force_blob bts b) t = fold_left force_blob bts (force_tx b t).
Proof.
  induction bts as [|bt bts IH]; intros b t; cbn [fold_left]; [reflexivity|].
  rewrite IH, force_tx_blob_comm. reflexivity.
Qed.

(* all kept ordinary txs first, then all kept blob txs *)
Definition replay (b0 : builder) (normals : list bytes) (bts : list blob_tx) : builder :=
  fold_left force_blob bts (fold_left force_tx normals b0).

Lemma replay_snoc_tx b0 normals bts t :
  replay b0 (normals ++ [t]) bts = force_tx (replay b0 normals bts) t.
Proof.
  unfold replay. rewrite fold_left_app. cbn [fold_left]. rewrite force_tx_blobs_comm. reflexivity.
Qed.

Lemma replay_snoc_blob b0 normals bts bt :
  replay b0 normals (bts ++ [bt]) = force_blob (replay b0 normals bts) bt.
Proof. unfold replay. rewrite fold_left_app. reflexivity. Qed.

(* ---- well-formed builders: both counters encode a length ---- *)
Definition bwf (b : builder) : Prop := cenc (bd_txc b) /\ cenc (bd_pfbc b).

Lemma bwf_empty max thr : bwf (empty_builder max thr).
Proof. split; exact cenc_new. Qed.

Lemma force_tx_wf b t : bwf b -> bwf (force_tx b t) /\ bd_cur b <= bd_cur (force_tx b t).
Proof.
  intros [A B].
  destruct (cenc_add (bd_txc b) (Z.of_N (lenN t)) (N2Z.is_nonneg _) A) as [C D].
  unfold bwf, force_tx, tx_diff. cbn [bd_cur bd_txc bd_pfbc].
  split; [split; assumption|].
  rewrite <- (Z.add_0_r (bd_cur b)) at 1. apply Z.add_le_mono_l. exact D.
Qed.

Lemma force_blob_wf b bt : bwf b -> bwf (force_blob b bt) /\ bd_cur b <= bd_cur (force_blob b bt).
Proof.
  intros [A B].
  destruct (cenc_add (bd_pfbc b) (Z.of_N (blob_size bt)) (N2Z.is_nonneg _) B) as [C D].
  unfold bwf, force_blob, blob_total. cbn [bd_cur bd_txc bd_pfbc].
  split; [split; assumption|].
  rewrite <- (Z.add_0_r (bd_cur b)) at 1. apply Z.add_le_mono_l.
  apply Z.add_nonneg_nonneg; [exact D|apply N2Z.is_nonneg].
Qed.

Lemma force_txs_wf l : forall b, bwf b ->
  bwf (fold_left force_tx l b) /\ bd_cur b <= bd_cur (fold_left force_tx l b).
Proof.
  induction l as [|t l IH]; intros b Hb; cbn [fold_left].
  - split; [assumption|apply Z.le_refl].
  - destruct (force_tx_wf b t Hb) as [H1 H2]. destruct (IH _ H1) as [H3 H4].
    split; [assumption|]. eapply Z.le_trans; eassumption.
Qed.

Lemma force_blobs_wf l : forall b, bwf b ->
  bwf (fold_left force_blob l b) /\ bd_cur b <= bd_cur (fold_left force_blob l b).
Proof.
  induction l as [|t l IH]; intros b Hb; cbn [fold_left].
  - split; [assumption|apply Z.le_refl].
  - destruct (force_blob_wf b t Hb) as [H1 H2]. destruct (IH _ H1) as [H3 H4].
    split; [assumption|]. eapply Z.le_trans; eassumption.
Qed.

Lemma force_txs_max l : forall b, bd_max (fold_left force_tx l b) = bd_max b.
Proof. induction l as [|t l IH]; intros b; cbn [fold_left]; [reflexivity|]. rewrite IH. reflexivity. Qed.

Lemma force_blobs_max l : forall b, bd_max (fold_left force_blob l b) = bd_max b.
Proof. induction l as [|t l IH]; intros b; cbn [fold_left]; [reflexivity|]. rewrite IH. reflexivity. Qed.

(* ---- Construct on a partitioned list whose total fits ---- *)
Definition is_normal (t : bytes) : Prop := unmarshal_blob_tx t = UbtNot.
Definition decodes_to (t : bytes) (bt : blob_tx) : Prop := unmarshal_blob_tx t = UbtOk bt.
Definition is_blob_tx (t : bytes) : Prop := exists bt, unmarshal_blob_tx t = UbtOk bt.

Definition cap (b : builder) : Z := Z.of_N (bd_max b * bd_max b).

Lemma construct_loop_normals normals : forall b rest,
  bwf b -> Forall is_normal normals ->
  bd_cur (fold_left force_tx normals b) <= cap b ->
  construct_loop b false (normals ++ rest) =
  construct_loop (fold_left force_tx normals b) false rest.
Proof.
  induction normals as [|t l IH]; intros b rest Hwf Hn Hfit; [reflexivity|].
  inversion Hn as [|? ? Ht Hl]; subst.
  cbn [app construct_loop fold_left] in *. rewrite Ht.
  rewrite append_tx_cases.
  destruct (force_tx_wf b t Hwf) as [Hwf' Hle].
  destruct (force_txs_wf l _ Hwf') as [_ Hle'].
  assert (Hc : can_fit b (tx_diff b t) = true).
  { unfold can_fit. apply Z.leb_le. unfold cap in Hfit.
    eapply Z.le_trans; [|exact Hfit]. exact Hle'. }
  rewrite Hc. apply IH; [assumption|assumption|].
  unfold cap in *. exact Hfit.
Qed.

Lemma construct_loop_blobs blobs : forall bts b sb,
  bwf b -> Forall2 decodes_to blobs bts ->
  bd_cur (fold_left force_blob bts b) <= cap b ->
  construct_loop b sb blobs = Ok (fold_left force_blob bts b).
Proof.
  induction blobs as [|t l IH]; intros bts b sb Hwf Hd Hfit.
  - inversion Hd; subst. reflexivity.
  - inversion Hd as [|? bt ? bts' Ht Hl]; subst.
    cbn [construct_loop fold_left] in *. unfold decodes_to in Ht. rewrite Ht.
    rewrite append_blob_tx_cases.
    destruct (force_blob_wf b bt Hwf) as [Hwf' Hle].
    destruct (force_blobs_wf bts' _ Hwf') as [_ Hle'].
    assert (Hc : can_fit b (blob_total b bt) = true).
    { unfold can_fit. apply Z.leb_le. unfold cap in Hfit.
      eapply Z.le_trans; [|exact Hfit]. exact Hle'. }
    rewrite Hc. apply IH; [assumption|assumption|].
    unfold cap in *. exact Hfit.
Qed.

Lemma construct_loop_replay b0 normals blobs bts :
  bwf b0 -> Forall is_normal normals -> Forall2 decodes_to blobs bts ->
  bd_cur (replay b0 normals bts) <= cap b0 ->
  construct_loop b0 false (normals ++ blobs) = Ok (replay b0 normals bts).
Proof.
  intros Hwf Hn Hd Hfit. unfold replay in *.
  destruct (force_txs_wf normals b0 Hwf) as [Hwf1 Hle1].
  destruct (force_blobs_wf bts _ Hwf1) as [_ Hle2].
  rewrite construct_loop_normals; [|assumption|assumption|eapply Z.le_trans; eassumption].
  apply construct_loop_blobs; [assumption|assumption|].
  unfold cap. rewrite force_txs_max. exact Hfit.
Qed.

(* ---- Build: the interleaved run is equivalent to the partitioned replay ---- *)
Ltac split_conj := repeat match goal with |- _ /\ _ => split end.

Lemma build_loop_replay b0 txs : forall b nacc bacc btsacc bf nf bf_blobs,
  build_loop b txs nacc bacc = Ok (bf, nf, bf_blobs) ->
  beq b (replay b0 nacc btsacc) -> Forall is_normal nacc -> Forall2 decodes_to bacc btsacc ->
  bd_cur b <= cap b ->
  exists n' b' btsf,
    nf = nacc ++ n' /\ bf_blobs = bacc ++ b' /\ sublist n' txs /\ sublist b' txs /\
    Forall is_normal nf /\ Forall2 decodes_to bf_blobs btsf /\
    beq bf (replay b0 nf btsf) /\ bd_cur bf <= cap bf.
Proof.
  induction txs as [|t tl IH]; intros b nacc bacc btsacc bf nf bfb Hrun Hbeq Hn Hd Hfit.
  - cbn [build_loop] in Hrun. inversion Hrun; subst.
    exists [], [], btsacc. rewrite !app_nil_r.
    split_conj; try assumption; constructor.
  - cbn [build_loop] in Hrun.
    destruct (unmarshal_blob_tx t) as [| |bt] eqn:Ht.
    + (* ordinary tx *)
      rewrite append_tx_cases in Hrun.
      destruct (can_fit b (tx_diff b t)) eqn:Hc.
      * (* accepted *)
        assert (Hbeq' : beq (force_tx b t) (replay b0 (nacc ++ [t]) btsacc)).
        { rewrite replay_snoc_tx. apply force_tx_beq. exact Hbeq. }
        assert (Hn' : Forall is_normal (nacc ++ [t])).
        { apply Forall_app. split; [assumption|]. constructor; [exact Ht|constructor]. }
        assert (Hfit' : bd_cur (force_tx b t) <= cap (force_tx b t)).
        { unfold can_fit in Hc. apply Z.leb_le in Hc. exact Hc. }
        destruct (IH _ _ _ _ _ _ _ Hrun Hbeq' Hn' Hd Hfit')
          as (n' & b' & btsf & E1 & E2 & S1 & S2 & F1 & F2 & Q & C).
        exists (t :: n'), b', btsf. rewrite <- app_assoc in E1. cbn [app] in E1.
        split_conj; try assumption; constructor; assumption.
      * (* refused *)
        assert (Hbeq' : beq (skip_tx b t) (replay b0 nacc btsacc)).
        { eapply beq_trans; [apply skip_tx_beq|exact Hbeq]. }
        destruct (IH _ _ _ _ _ _ _ Hrun Hbeq' Hn Hd Hfit)
          as (n' & b' & btsf & E1 & E2 & S1 & S2 & F1 & F2 & Q & C).
        exists n', b', btsf.
        split_conj; try assumption; constructor; assumption.
    + discriminate Hrun.
    + (* blob tx *)
      rewrite append_blob_tx_cases in Hrun.
      destruct (can_fit b (blob_total b bt)) eqn:Hc.
      * assert (Hbeq' : beq (force_blob b bt) (replay b0 nacc (btsacc ++ [bt]))).
        { rewrite replay_snoc_blob. apply force_blob_beq. exact Hbeq. }
        assert (Hd' : Forall2 decodes_to (bacc ++ [t]) (btsacc ++ [bt])).
        { apply Forall2_app; [assumption|]. constructor; [exact Ht|constructor]. }
        assert (Hfit' : bd_cur (force_blob b bt) <= cap (force_blob b bt)).
        { unfold can_fit in Hc. apply Z.leb_le in Hc. exact Hc. }
        destruct (IH _ _ _ _ _ _ _ Hrun Hbeq' Hn Hd' Hfit')
          as (n' & b' & btsf & E1 & E2 & S1 & S2 & F1 & F2 & Q & C).
        exists n', (t :: b'), btsf. rewrite <- app_assoc in E2. cbn [app] in E2.
        split_conj; try assumption; constructor; assumption.
      * assert (Hbeq' : beq (skip_blob b bt) (replay b0 nacc btsacc)).
        { eapply beq_trans; [apply skip_blob_beq|exact Hbeq]. }
        destruct (IH _ _ _ _ _ _ _ Hrun Hbeq' Hn Hd Hfit)
          as (n' & b' & btsf & E1 & E2 & S1 & S2 & F1 & F2 & Q & C).
        exists n', b', btsf.
        split_conj; try assumption; constructor; assumption.
Qed.

Lemma decodes_to_is_blob_tx blobs bts : Forall2 decodes_to blobs bts -> Forall is_blob_tx blobs.
Proof. induction 1; constructor; [eexists; eassumption|assumption]. Qed.

(* ---- the main theorem ---- *)
Theorem build_construct_agree txs max thr sq kept :
  build txs max thr = Ok (sq, kept) ->
  exists normals blobtxs,
    kept = normals ++ blobtxs /\
    Forall is_normal normals /\ Forall is_blob_tx blobtxs /\
    sublist normals txs /\ sublist blobtxs txs /\
    construct kept max thr = Ok sq.
Proof.
  unfold build, construct, new_builder_txs.
  destruct (negb (new_builder_ok max)) eqn:Hok; [discriminate|].
  set (b0 := empty_builder (Z.to_N max) thr).
  destruct (build_loop b0 txs [] []) as [[[bf nf] bfb]| |] eqn:Hrun; cbn [bind]; try discriminate.
  intros Hexp.
  assert (Hfit0 : bd_cur b0 <= cap b0).
  { unfold b0, cap, empty_builder. cbn [bd_cur bd_max]. apply N2Z.is_nonneg. }
  destruct (build_loop_replay b0 txs b0 [] [] [] bf nf bfb Hrun (beq_refl _)
              (Forall_nil _) (Forall2_nil _) Hfit0)
    as (n' & b' & btsf & E1 & E2 & S1 & S2 & F1 & F2 & Q & C).
  cbn [app] in E1, E2. subst nf bfb.
  exists n', b'. split.
  { destruct (export bf) as [e| |]; cbn [bind] in Hexp; inversion Hexp; reflexivity. }
  split; [assumption|]. split; [eapply decodes_to_is_blob_tx; eassumption|].
  split; [assumption|]. split; [assumption|].
  assert (Hsq : export_square bf = Ok sq).
  { unfold export_square. destruct (export bf) as [e| |]; cbn [bind] in *; inversion Hexp; reflexivity. }
  assert (Hkept : kept = n' ++ b').
  { destruct (export bf) as [e| |]; cbn [bind] in Hexp; inversion Hexp; reflexivity. }
  subst kept.
  assert (Hcap : cap bf = cap b0).
  { destruct Q as (Q1 & _). unfold cap. rewrite Q1. unfold replay.
    rewrite force_blobs_max, force_txs_max. reflexivity. }
  assert (Hcur : bd_cur (replay b0 n' btsf) <= cap b0).
  { destruct Q as (_ & _ & Q3 & _). rewrite <- Q3, <- Hcap. exact C. }
  rewrite (construct_loop_replay b0 n' b' btsf (bwf_empty _ _) F1 F2 Hcur). cbn [bind].
  fold (export_square (replay b0 n' btsf)).
  rewrite <- (export_square_beq _ _ Q). exact Hsq.
Qed.

(* the statement with the configuration side condition of the property text
   (subtreeRootThreshold >= 1); the proof does not need it *)
Corollary build_construct_agree_cfg txs max thr sq kept : (1 <= thr)%N ->
  build txs max thr = Ok (sq, kept) ->
  exists normals blobtxs,
    kept = normals ++ blobtxs /\
    Forall is_normal normals /\ Forall is_blob_tx blobtxs /\
    sublist normals txs /\ sublist blobtxs txs /\
    construct kept max thr = Ok sq.
Proof. intros _. apply build_construct_agree. Qed.

(* determinism: the model functions are functions *)
Lemma build_deterministic txs1 txs2 max1 max2 thr1 thr2 :
  txs1 = txs2 -> max1 = max2 -> thr1 = thr2 -> build txs1 max1 thr1 = build txs2 max2 thr2.
Proof. intros -> -> ->. reflexivity. Qed.

Lemma construct_deterministic txs1 txs2 max1 max2 thr1 thr2 :
  txs1 = txs2 -> max1 = max2 -> thr1 = thr2 -> construct txs1 max1 thr1 = construct txs2 max2 thr2.
Proof. intros -> -> ->. reflexivity. Qed.
