(* C05 (helpers) - inclusion.CreateCommitments is CreateCommitment blob by blob.  Statements only. *)
From Coq Require Import List NArith ZArith Bool.
From GS.Model Require Import Base Namespace ShareFmt Blob Sha256 Nmt Helpers.
From GS.Proofs Require Import SparseProofs HelpersProofs.
Import ListNotations.

Theorem C05h_create_commitments_is_map : forall H mrf thr blobs,
  create_commitments H mrf blobs thr = map_outcome (fun b => create_commitment H mrf b thr) blobs.
Proof. exact create_commitments_map_outcome. Qed.
Print Assumptions C05h_create_commitments_is_map.

(* an Ok result is exactly the list of the blobs' commitments, in order *)
Theorem C05h_create_commitments_ok : forall H mrf thr blobs cs,
  create_commitments H mrf blobs thr = Ok cs <->
  Forall2 (fun b c => create_commitment H mrf b thr = Ok c) blobs cs.
Proof. exact create_commitments_ok_forall2. Qed.
Print Assumptions C05h_create_commitments_ok.

Theorem C05h_create_commitments_length : forall H mrf thr blobs cs,
  create_commitments H mrf blobs thr = Ok cs -> length cs = length blobs.
Proof. exact create_commitments_length. Qed.
Print Assumptions C05h_create_commitments_length.

(* Ok iff every blob's commitment is Ok *)
Theorem C05h_create_commitments_ok_iff : forall H mrf thr blobs,
  is_ok (create_commitments H mrf blobs thr) =
  forallb (fun b => is_ok (create_commitment H mrf b thr)) blobs.
Proof. exact create_commitments_ok_iff. Qed.
Print Assumptions C05h_create_commitments_ok_iff.

(* the first failing blob decides: its error, or its fault *)
Theorem C05h_create_commitments_first_failure : forall H mrf thr pre b post,
  Forall (fun x => is_ok (create_commitment H mrf x thr) = true) pre ->
  is_ok (create_commitment H mrf b thr) = false ->
  create_commitments H mrf (pre ++ b :: post) thr =
  match create_commitment H mrf b thr with Ok _ => Err | Err => Err | Fault => Fault end.
Proof. exact create_commitments_first_failure. Qed.
Print Assumptions C05h_create_commitments_first_failure.

(* with SHA-256: valid blobs and a threshold >= 1 always give one commitment per blob, the
   j-th being CreateCommitment of the j-th blob *)
Theorem C05h_commitments_sha_valid : forall blobs thr, (1 <= thr)%N -> Forall blob_ok blobs ->
  exists cs, commitments_sha blobs thr = Ok cs /\ length cs = length blobs.
Proof. exact commitments_sha_valid_ok. Qed.
Print Assumptions C05h_commitments_sha_valid.

Theorem C05h_commitments_sha_nth : forall blobs thr cs j b,
  commitments_sha blobs thr = Ok cs -> nth_error blobs j = Some b ->
  exists c, nth_error cs j = Some c /\ commitment_sha b thr = Ok c.
Proof. exact commitments_sha_nth. Qed.
Print Assumptions C05h_commitments_sha_nth.

Example C05h_example_hyps : Forall blob_ok [hp_b1; hp_b2; hp_b3; hp_b4].
Proof. exact hp_blobs_ok. Qed.
Example C05h_example :
  commitments_sha [hp_b1; hp_b4] 64 =
    (do c1 <- commitment_sha hp_b1 64; do c4 <- commitment_sha hp_b4 64; Ok [c1; c4]) /\
  is_ok (commitments_sha [hp_b1; hp_b4] 64) = true /\
  commitments_sha [hp_b1; hp_b4] 0 = Fault /\ commitments_sha [] 0 = Ok [] /\
  commitments_sha [hp_b1; mk_blob (hp_ns Byte.x01) [Byte.x01] 2 None; hp_b4] 64 = Err.
Proof. vm_compute. repeat split. Qed.
