(* The regenerated GoLite bodies of the power-of-two / subtree-width arithmetic of
   inclusion/blob_share_commitment_rules.go and square.go (Gen/Generated.v) compute the
   hand-written model functions of Model/Arith.v, for explicit argument ranges in which
   no fixed-width wrap-around happens.  Statements are re-exported in GenProofs/C15_gen.v. *)
From Coq Require Import Lia ZArith NArith List String ZifyN ZifyNat ZifyBool.
From GS.Model Require Import Base Varint Arith GoLite.
From GS.Proofs Require Import GoLiteLemmas ArithProofs.
From GS.Gen Require Import Generated.
From GS.GenProofs Require Import GenLink.
Open Scope string_scope.
Open Scope Z_scope.

(* ArithProofs turns on Z.div_mod_to_equations for lia; here the div/mod reasoning is done
   by hand in small arithmetic lemmas (fast), so switch it off for this file *)
#[local] Ltac Zify.zify_post_hook ::= idtac.

(* ---------- small facts ---------- *)

Lemma exec_seq call tp lf s1 s2 en :
  exec call tp lf (SSeq s1 s2) en =
  match exec call tp lf s1 en with SNormal en' => exec call tp lf s2 en' | r => r end.
Proof. reflexivity. Qed.

(* "z is representable and small": the instantiated type does not wrap values in [0, 2^e] *)
Definition wrap_ok (tp : ity) (e : Z) : Prop := forall z, 0 <= z <= 2 ^ e -> wrap tp z = z.

Lemma wrap_ok_I64 : wrap_ok I64 62.
Proof. intros z Hz. apply wrap_I64_small. change (2 ^ 62) with 4611686018427387904 in Hz. lia. Qed.

Lemma wrap_ok_U64_62 : wrap_ok U64 62.
Proof. intros z Hz. apply wrap_U64_small. change (2 ^ 62) with 4611686018427387904 in Hz. lia. Qed.

Lemma wrap_ok_U64 : wrap_ok U64 63.
Proof. intros z Hz. apply wrap_U64_small. change (2 ^ 63) with 9223372036854775808 in Hz. lia. Qed.

(* the characterisation "least power of two >= x" determines the exponent *)
Lemma least_pow2_unique x j k : 0 <= j -> 0 <= k ->
  x <= 2 ^ j -> (j = 0 \/ 2 ^ (j - 1) < x) ->
  x <= 2 ^ k -> (k = 0 \/ 2 ^ (k - 1) < x) -> j = k.
Proof.
  intros Hj Hk Hxj Hlj Hxk Hlk.
  destruct (Z.lt_trichotomy j k) as [Hlt|[Heq|Hgt]]; [exfalso|exact Heq|exfalso].
  - destruct Hlk as [->|Hlk]; [lia|].
    assert (2 ^ (k - 1) < 2 ^ j) by lia.
    apply Z.pow_lt_mono_r_iff in H; lia.
  - destruct Hlj as [->|Hlj]; [lia|].
    assert (2 ^ (j - 1) < 2 ^ k) by lia.
    apply Z.pow_lt_mono_r_iff in H; lia.
Qed.

Lemma round_up_pow2_char x k : 0 <= k -> x <= 2 ^ k -> (k = 0 \/ 2 ^ (k - 1) < x) ->
  Z.of_N (round_up_pow2 (Z.to_N x)) = 2 ^ k.
Proof.
  intros Hk Hx Hl.
  destruct (round_up_pow2_spec (Z.to_N x)) as (k' & -> & Hx' & Hl').
  rewrite N2Z.inj_pow. change (Z.of_N 2) with 2. f_equal.
  assert (Hp : forall m : N, Z.of_N (2 ^ m) = 2 ^ Z.of_N m) by (intros m; rewrite N2Z.inj_pow; reflexivity).
  destruct (Z.le_gt_cases x 0) as [Hneg|Hpos].
  - (* x <= 0: both exponents are 0 *)
    assert (k = 0) by (destruct Hl as [->|Hl]; [reflexivity|]; assert (0 < 2 ^ (k - 1)) by (apply Z.pow_pos_nonneg; lia); lia).
    assert (k' = 0%N).
    { destruct Hl' as [->|Hl']; [reflexivity|]. replace (Z.to_N x) with 0%N in Hl' by lia.
      exfalso. exact (N.nlt_0_r _ Hl'). }
    subst. reflexivity.
  - apply (least_pow2_unique x); try lia.
    destruct (N.eq_dec k' 0) as [->|Hnz]; [left; reflexivity|].
    destruct Hl' as [->|Hl']; [left; reflexivity|right].
    apply N2Z.inj_lt in Hl'. rewrite Hp in Hl'.
    replace (Z.of_N (k' - 1)) with (Z.of_N k' - 1) in Hl' by lia. rewrite Z2N.id in Hl' by lia. exact Hl'.
Qed.

(* ---------- RoundUpPowerOfTwo: the loop ---------- *)

Definition rup_cond : expr := ECmp CLt (EVar "result") (EVar "input").
Definition rup_body : stmt := SAssign "result" (EBin IParam OShl (EVar "result") (EConst 1)).
Definition rup_stmt : stmt :=
  SSeq (SAssign "result" (EConst 1)) (SSeq (SFor rup_cond rup_body) (SReturn [EVar "result"])).

Lemma rup_loop_inv call tp lf e x : 0 <= e -> wrap_ok tp e -> x <= 2 ^ e ->
  forall n j en,
    lookup en "result" = 2 ^ j -> lookup en "input" = x ->
    0 <= j <= e -> (j = 0 \/ 2 ^ (j - 1) < x) -> (Z.to_nat (e - j) < n)%nat ->
    exists en' k, for_loop call tp lf rup_cond rup_body n en = SNormal en' /\
      lookup en' "result" = 2 ^ k /\ 0 <= k /\ x <= 2 ^ k /\ (k = 0 \/ 2 ^ (k - 1) < x).
Proof.
  intros He Hw Hx. induction n as [|n IH]; intros j en Hr Hi Hj Hl Hn; [lia|].
  rewrite for_loop_S. unfold rup_cond at 1. cbn [eval rbind]. rewrite Hr, Hi.
  unfold eval_cmp. destruct (2 ^ j <? x) eqn:E; cbn [b2z].
  - change (1 =? 0) with false. cbv iota.
    unfold rup_body at 1. cbn [exec eval rbind resolve eval_bin]. rewrite Hr.
    change (1 <? 0) with false. cbv iota.
    assert (Hlt : 2 ^ j < 2 ^ e) by lia.
    apply Z.pow_lt_mono_r_iff in Hlt; [|lia|lia].
    assert (Hs : 2 ^ j * 2 ^ 1 = 2 ^ (j + 1)) by (rewrite Z.pow_add_r by lia; reflexivity).
    rewrite Hs. rewrite Hw by (split; [apply Z.pow_nonneg; lia|apply Z.pow_le_mono_r; lia]).
    apply (IH (j + 1)).
    + reflexivity.
    + exact Hi.
    + lia.
    + right. replace (j + 1 - 1) with j by lia. lia.
    + lia.
  - change (0 =? 0) with true. cbv iota.
    exists en, j. split; [reflexivity|]. split; [exact Hr|]. split; [lia|]. split; [lia|exact Hl].
Qed.

Lemma exec_rup call tp lf e x : 0 <= e -> wrap_ok tp e -> x <= 2 ^ e -> (Z.to_nat e < lf)%nat ->
  exists en', exec call tp lf rup_stmt [("input", x)] = SRet [Z.of_N (round_up_pow2 (Z.to_N x))] en'.
Proof.
  intros He Hw Hx Hlf. unfold rup_stmt. rewrite exec_seq.
  change (exec call tp lf (SAssign "result" (EConst 1)) [("input", x)])
    with (SNormal (update [("input", x)] "result" 1)).
  cbv iota. rewrite exec_seq, exec_for.
  destruct (rup_loop_inv call tp lf e x He Hw Hx lf 0 (update [("input", x)] "result" 1))
    as (en' & k & -> & Hr & Hk & Hxk & Hl).
  - reflexivity.
  - reflexivity.
  - lia.
  - left; reflexivity.
  - lia.
  - cbn [exec evals eval rbind]. rewrite Hr, (round_up_pow2_char x k Hk Hxk Hl).
    exists en'. reflexivity.
Qed.

(* any program entry whose definition is the RoundUpPowerOfTwo body *)
Lemma callf_rup f tp e x fuel : 0 <= e -> wrap_ok tp e -> x <= 2 ^ e -> (Z.to_nat e < S fuel)%nat ->
  find_fun gen_program f = Some {| fparams := ["input"]; fouts := []; fbody := rup_stmt |} ->
  callf gen_ext gen_program (S fuel) f tp [x] = Val [Z.of_N (round_up_pow2 (Z.to_N x))].
Proof.
  intros He Hw Hx Hlf Hf. rewrite callf_S, Hf. cbn [fbody fparams fouts bind_params].
  destruct (exec_rup (callf gen_ext gen_program fuel) tp (S fuel) e x He Hw Hx Hlf) as (en' & ->).
  reflexivity.
Qed.

Lemma pow62 : 2 ^ 62 = 4611686018427387904. Proof. reflexivity. Qed.
Lemma pow63 : 2 ^ 63 = 9223372036854775808. Proof. reflexivity. Qed.

Lemma targ_wrap_ok targ : targ = I64 \/ targ = U64 -> wrap_ok targ 62.
Proof. intros [->| ->]; [exact wrap_ok_I64|exact wrap_ok_U64_62]. Qed.

(* inclusion.RoundUpPowerOfTwo[T], T = int or uint64; x <= 0 is allowed (result 1) *)
Lemma gen_rup_inclusion_le fuel targ x : (70 <= fuel)%nat -> targ = I64 \/ targ = U64 -> x <= 2 ^ 62 ->
  gen_call fuel "inclusion.RoundUpPowerOfTwo" targ [x] = Val [Z.of_N (round_up_pow2 (Z.to_N x))].
Proof.
  intros Hf Ht Hx. destruct fuel as [|fuel]; [lia|]. unfold gen_call.
  apply (callf_rup _ targ 62); [lia|apply targ_wrap_ok, Ht|exact Hx|lia|reflexivity].
Qed.

Lemma gen_rup_inclusion fuel targ x : (70 <= fuel)%nat -> targ = I64 \/ targ = U64 -> 0 <= x <= 2 ^ 62 ->
  gen_call fuel "inclusion.RoundUpPowerOfTwo" targ [x] = Val [Z.of_N (round_up_pow2 (Z.to_N x))].
Proof. intros Hf Ht Hx. apply gen_rup_inclusion_le; [exact Hf|exact Ht|lia]. Qed.

Lemma gen_rup_inclusion_nonpos fuel targ x : (70 <= fuel)%nat -> targ = I64 \/ targ = U64 -> x <= 0 ->
  gen_call fuel "inclusion.RoundUpPowerOfTwo" targ [x] = Val [1].
Proof.
  intros Hf Ht Hx. rewrite gen_rup_inclusion_le; [|exact Hf|exact Ht|rewrite pow62; lia].
  replace (Z.to_N x) with 0%N by lia. reflexivity.
Qed.

(* uint64 instance: everything up to 2^63 (beyond that the Go loop never terminates: result wraps to 0) *)
Lemma gen_rup_inclusion_u64 fuel x : (70 <= fuel)%nat -> x <= 2 ^ 63 ->
  gen_call fuel "inclusion.RoundUpPowerOfTwo" U64 [x] = Val [Z.of_N (round_up_pow2 (Z.to_N x))].
Proof.
  intros Hf Hx. destruct fuel as [|fuel]; [lia|]. unfold gen_call.
  apply (callf_rup _ U64 63); [lia|exact wrap_ok_U64|exact Hx|lia|reflexivity].
Qed.

(* square.RoundUpPowerOfTwo[T]: the same body *)
Lemma gen_rup_square_le fuel targ x : (70 <= fuel)%nat -> targ = I64 \/ targ = U64 -> x <= 2 ^ 62 ->
  gen_call fuel "square.RoundUpPowerOfTwo" targ [x] = Val [Z.of_N (round_up_pow2 (Z.to_N x))].
Proof.
  intros Hf Ht Hx. destruct fuel as [|fuel]; [lia|]. unfold gen_call.
  apply (callf_rup _ targ 62); [lia|apply targ_wrap_ok, Ht|exact Hx|lia|reflexivity].
Qed.

Lemma gen_rup_square fuel targ x : (70 <= fuel)%nat -> targ = I64 \/ targ = U64 -> 0 <= x <= 2 ^ 62 ->
  gen_call fuel "square.RoundUpPowerOfTwo" targ [x] = Val [Z.of_N (round_up_pow2 (Z.to_N x))].
Proof. intros Hf Ht Hx. apply gen_rup_square_le; [exact Hf|exact Ht|lia]. Qed.

Lemma gen_rup_square_nonpos fuel targ x : (70 <= fuel)%nat -> targ = I64 \/ targ = U64 -> x <= 0 ->
  gen_call fuel "square.RoundUpPowerOfTwo" targ [x] = Val [1].
Proof.
  intros Hf Ht Hx. rewrite gen_rup_square_le; [|exact Hf|exact Ht|rewrite pow62; lia].
  replace (Z.to_N x) with 0%N by lia. reflexivity.
Qed.

Lemma gen_rup_square_u64 fuel x : (70 <= fuel)%nat -> x <= 2 ^ 63 ->
  gen_call fuel "square.RoundUpPowerOfTwo" U64 [x] = Val [Z.of_N (round_up_pow2 (Z.to_N x))].
Proof.
  intros Hf Hx. destruct fuel as [|fuel]; [lia|]. unfold gen_call.
  apply (callf_rup _ U64 63); [lia|exact wrap_ok_U64|exact Hx|lia|reflexivity].
Qed.

(* ---------- RoundDownPowerOfTwo ---------- *)

Local Arguments round_up_pow2 : simpl never.
Local Arguments blob_min_square_size : simpl never.

(* decide the literal tests that [cbn] leaves alone (Z.eqb, Z.ltb are simpl never) *)
Ltac lit :=
  change (0 =? 0) with true; change (1 =? 0) with false; change (2 =? 0) with false;
  cbv iota.

Lemma rup_bound x e : 0 <= e -> x <= 2 ^ e -> Z.of_N (round_up_pow2 (Z.to_N x)) <= 2 ^ e.
Proof.
  intros He Hx.
  assert (H : (round_up_pow2 (Z.to_N x) <= 2 ^ Z.to_N e)%N).
  { apply round_up_pow2_least; [exists (Z.to_N e); reflexivity|].
    change 2%N with (Z.to_N 2). rewrite <- Z2N.inj_pow by lia. lia. }
  apply N2Z.inj_le in H. rewrite N2Z.inj_pow, Z2N.id in H by lia. exact H.
Qed.

Lemma rup_pos n : (1 <= round_up_pow2 n)%N.
Proof. pose proof (pow2_pos _ (round_up_pow2_pow2 n)). lia. Qed.

Lemma gen_rdown_all fuel targ x : (71 <= fuel)%nat -> targ = I64 \/ targ = U64 -> x <= 2 ^ 62 ->
  gen_call fuel "inclusion.RoundDownPowerOfTwo" targ [x] =
  match round_down_pow2 x with Ok v => Val [Z.of_N v; 0] | Err => Val [0; 1] | Fault => Flt end.
Proof.
  intros Hf Ht Hx. destruct fuel as [|fuel]; [lia|]. unfold gen_call. rewrite callf_S.
  cbn. unfold round_down_pow2. unfold eval_cmp at 1.
  destruct (x <=? 0) eqn:E; cbn [b2z]; lit; [reflexivity|].
  pose proof (gen_rup_inclusion_le fuel targ x ltac:(lia) Ht Hx) as Hc. unfold gen_call in Hc.
  cbn. rewrite Hc. clear Hc. cbn.
  pose proof (rup_bound x 62 ltac:(lia) Hx) as Hb.
  set (r := round_up_pow2 (Z.to_N x)) in *.
  unfold eval_cmp. destruct (Z.of_N r =? x) eqn:E2; cbn [b2z]; lit.
  - replace (r =? Z.to_N x)%N with true by lia. reflexivity.
  - replace (r =? Z.to_N x)%N with false by lia. cbn.
    rewrite quot_nonneg by lia.
    assert (Hd : Z.of_N (r / 2) = Z.of_N r / 2) by (rewrite N2Z.inj_div; reflexivity).
    rewrite (targ_wrap_ok targ Ht) by lia.
    rewrite Hd. reflexivity.
Qed.

Lemma gen_rdown_err fuel targ x : (71 <= fuel)%nat -> targ = I64 \/ targ = U64 -> x <= 0 ->
  gen_call fuel "inclusion.RoundDownPowerOfTwo" targ [x] = Val [0; 1].
Proof.
  intros Hf Ht Hx. rewrite gen_rdown_all; [|exact Hf|exact Ht|rewrite pow62; lia].
  unfold round_down_pow2. replace (x <=? 0) with true by lia. reflexivity.
Qed.

Lemma gen_rdown_ok fuel targ x v : (71 <= fuel)%nat -> targ = I64 \/ targ = U64 -> 0 < x <= 2 ^ 62 ->
  round_down_pow2 x = Ok v ->
  gen_call fuel "inclusion.RoundDownPowerOfTwo" targ [x] = Val [Z.of_N v; 0].
Proof.
  intros Hf Ht Hx Hv. rewrite gen_rdown_all; [|exact Hf|exact Ht|lia]. rewrite Hv. reflexivity.
Qed.

(* the same with the value characterised: the greatest power of two <= x *)
Lemma gen_rdown_spec fuel targ x : (71 <= fuel)%nat -> targ = I64 \/ targ = U64 -> 0 < x <= 2 ^ 62 ->
  exists v, round_down_pow2 x = Ok v /\
    gen_call fuel "inclusion.RoundDownPowerOfTwo" targ [x] = Val [Z.of_N v; 0] /\
    pow2 v /\ (v <= Z.to_N x < 2 * v)%N.
Proof.
  intros Hf Ht Hx. destruct (round_down_pow2_spec x) as [_ H]. destruct (H ltac:(lia)) as (v & Hv & Hp & Hlo & Hhi).
  exists v. split; [exact Hv|]. split; [apply gen_rdown_ok; assumption|]. split; [exact Hp|lia].
Qed.

(* ---------- getMin (local fact; no arithmetic node, so no range) ---------- *)

Lemma callf_getMin fuel i j : (1 <= fuel)%nat ->
  callf gen_ext gen_program fuel "inclusion.getMin" I64 [i; j] = Val [Z.min i j].
Proof.
  intros Hf. destruct fuel as [|fuel]; [lia|]. rewrite callf_S. cbn. unfold eval_cmp.
  destruct (i <? j) eqn:E; cbn [b2z]; lit; cbn; f_equal; f_equal; lia.
Qed.

(* ---------- SubTreeWidth ---------- *)

Lemma callf_bmss fuel n : (1 <= fuel)%nat -> 0 <= n ->
  callf gen_ext gen_program fuel "inclusion.BlobMinSquareSize" I64 [n] =
  Val [Z.of_N (blob_min_square_size (Z.to_N n))].
Proof.
  intros Hf Hn. destruct fuel as [|fuel]; [lia|]. rewrite callf_S. cbn. replace (n <? 0) with false by lia. reflexivity.
Qed.

Lemma div_bounds c v : 0 <= c -> 0 < v -> 0 <= c / v <= c.
Proof.
  intros Hc Hv. split; [apply Z.div_pos; lia|].
  apply Z.div_le_upper_bound; [lia|].
  rewrite <- (Z.mul_1_l c) at 1. apply Z.mul_le_mono_nonneg_r; lia.
Qed.

(* all the arithmetic of the SubTreeWidth body, away from the interpreter *)
Lemma stw_math n t : 0 <= n <= 4611686018427387904 -> 1 <= t ->
  wrap I64 (Z.quot n t) = n / t /\
  wrap I64 (Z.rem n t) = n mod t /\
  (Z.to_N n mod Z.to_N t =? 0)%N = (n mod t =? 0) /\
  Z.to_N (n / t) = (Z.to_N n / Z.to_N t)%N /\
  0 <= n / t <= 4611686018427387904 /\
  (n mod t <> 0 -> wrap I64 (n / t + 1) = n / t + 1 /\ 0 <= n / t + 1 <= 4611686018427387904).
Proof.
  intros Hn Ht.
  rewrite rem_nonneg, quot_nonneg by lia.
  assert (Hm : Z.of_N (Z.to_N n mod Z.to_N t) = n mod t).
  { rewrite N2Z.inj_mod, !Z2N.id by lia. reflexivity. }
  assert (Hd : Z.to_N (n / t) = (Z.to_N n / Z.to_N t)%N) by (rewrite Z2N.inj_div by lia; reflexivity).
  pose proof (Z.mod_pos_bound n t ltac:(lia)) as Hb.
  pose proof (div_bounds n t ltac:(lia) ltac:(lia)) as Hq.
  pose proof (Z.div_mod n t ltac:(lia)) as Hdm.
  assert (Hqt : n / t <= t * (n / t)).
  { rewrite <- (Z.mul_1_l (n / t)) at 1. apply Z.mul_le_mono_nonneg_r; lia. }
  split; [|split; [|split; [|split; [exact Hd|]]]]; clear Hd.
  - apply wrap_I64_small. lia.
  - apply wrap_I64_small. generalize dependent (t * (n / t)). intros. lia.
  - generalize dependent (Z.to_N n mod Z.to_N t)%N. intros. lia.
  - clear Hm. generalize dependent (t * (n / t)). intros tq Hdm Hqt.
    generalize dependent (n / t). generalize dependent (n mod t). intros m Hb Hdm q Hq Hqt.
    split; [lia|]. intros Hne. split; [apply wrap_I64_small; lia|lia].
Qed.

Lemma gen_stw_wide fuel n t : (71 <= fuel)%nat -> 0 <= n <= 2 ^ 62 -> 1 <= t ->
  gen_call fuel "inclusion.SubTreeWidth" I64 [n; t] =
  Val [Z.of_N (subtree_width (Z.to_N n) (Z.to_N t))].
Proof.
  intros Hf Hn Ht.
  destruct (stw_math n t Hn Ht) as (H1 & H2 & H3 & H4 & H5 & H6).
  destruct fuel as [|fuel]; [lia|]. unfold gen_call. rewrite callf_S.
  cbn.
  assert (Et : (t =? 0) = false) by lia. rewrite Et. cbn. rewrite Et. cbn.
  rewrite H1, H2. unfold eval_cmp.
  assert (Hrup : forall x, x <= 4611686018427387904 ->
            callf gen_ext gen_program fuel "inclusion.RoundUpPowerOfTwo" I64 [x] =
            Val [Z.of_N (round_up_pow2 (Z.to_N x))]).
  { intros x Hx. apply (gen_rup_inclusion_le fuel I64 x); [lia|left; reflexivity|exact Hx]. }
  assert (Hf1 : (1 <= fuel)%nat) by lia.
  unfold subtree_width. rewrite H3, <- H4.
  destruct (n mod t =? 0) eqn:E; cbn [b2z negb]; lit; cbn.
  - rewrite Hrup by apply H5. cbn. rewrite callf_bmss by (exact Hf1 || apply Hn). cbn.
    rewrite callf_getMin by exact Hf1. cbn.
    rewrite N.add_0_r, N2Z.inj_min. reflexivity.
  - apply Z.eqb_neq in E. destruct (H6 E) as [H7 H8]. rewrite H7.
    rewrite Hrup by apply H8. cbn. rewrite callf_bmss by (exact Hf1 || apply Hn). cbn.
    rewrite callf_getMin by exact Hf1. cbn.
    rewrite N2Z.inj_min. rewrite Z2N.inj_add by (apply H5 || lia). reflexivity.
Qed.

(* shareCount / 0: a Go panic (integer divide by zero) *)
Lemma gen_stw_zero fuel n : (1 <= fuel)%nat ->
  gen_call fuel "inclusion.SubTreeWidth" I64 [n; 0] = Flt.
Proof.
  intros Hf. destruct fuel as [|fuel]; [lia|]. unfold gen_call. rewrite callf_S. reflexivity.
Qed.

(* bounds of the width, needed by NextShareIndex *)
Lemma bmss_bound n : (n <= 2 ^ 62)%N -> (blob_min_square_size n <= 2 ^ 31)%N.
Proof.
  intros Hn. destruct (blob_min_square_size_spec n) as (_ & _ & H).
  apply H; [exists 31%N; reflexivity|]. change (2 ^ 31 * 2 ^ 31)%N with (2 ^ 62)%N. exact Hn.
Qed.

Lemma stw_bounds n t : 0 <= n <= 2 ^ 62 -> 1 <= t ->
  1 <= Z.of_N (subtree_width (Z.to_N n) (Z.to_N t)) <= 2 ^ 31.
Proof.
  intros Hn Ht.
  pose proof (subtree_width_pos (Z.to_N n) (Z.to_N t) ltac:(lia)) as H1.
  destruct (subtree_width_spec (Z.to_N n) (Z.to_N t) ltac:(lia)) as (_ & _ & H2).
  assert (H3 : (Z.to_N n <= 2 ^ 62)%N).
  { change (2 ^ 62)%N with (Z.to_N (2 ^ 62)). lia. }
  apply bmss_bound in H3.
  change (2 ^ 31)%N with 2147483648%N in H3. change (2 ^ 31) with 2147483648. lia.
Qed.

(* ---------- RoundUpByMultipleOf (local fact) ---------- *)

Lemma rubm_math c v : 0 <= c -> 0 < v -> c + v < 9223372036854775808 ->
  wrap I64 (Z.rem c v) = c mod v /\
  ((Z.to_N c mod Z.to_N v =? 0)%N = (c mod v =? 0)) /\
  wrap I64 (wrap I64 (wrap I64 (Z.quot c v) + 1) * v) = Z.of_N ((Z.to_N c / Z.to_N v + 1) * Z.to_N v).
Proof.
  intros Hc Hv Hs.
  rewrite rem_nonneg, quot_nonneg by lia.
  assert (Hm : Z.of_N (Z.to_N c mod Z.to_N v) = c mod v).
  { rewrite N2Z.inj_mod, !Z2N.id by lia. reflexivity. }
  assert (Hd : Z.of_N (Z.to_N c / Z.to_N v) = c / v).
  { rewrite N2Z.inj_div, !Z2N.id by lia. reflexivity. }
  rewrite N2Z.inj_mul, N2Z.inj_add, Hd, Z2N.id by lia. change (Z.of_N 1) with 1.
  pose proof (Z.mod_pos_bound c v Hv) as Hb.
  pose proof (div_bounds c v Hc Hv) as Hq.
  pose proof (Z.div_mod c v ltac:(lia)) as Hdm.
  assert (Hmul : (c / v + 1) * v = v * (c / v) + v) by ring.
  generalize dependent (c / v). generalize dependent (c mod v).
  generalize dependent (Z.to_N c mod Z.to_N v)%N. intros nm m Hm Hb q _ Hq Hdm Hmul.
  generalize dependent (v * q). intros vq Hdm Hmul.
  split; [apply wrap_I64_small; lia|]. split; [lia|].
  rewrite (wrap_I64_small q) by lia. rewrite (wrap_I64_small (q + 1)) by lia.
  apply wrap_I64_small. lia.
Qed.

Lemma callf_rubm fuel c v : (1 <= fuel)%nat -> 0 <= c -> 0 < v -> c + v < 2 ^ 63 ->
  callf gen_ext gen_program fuel "inclusion.RoundUpByMultipleOf" I64 [c; v] =
  Val [Z.of_N (round_up_by_multiple_of (Z.to_N c) (Z.to_N v))].
Proof.
  intros Hf Hc Hv Hs. destruct fuel as [|fuel]; [lia|].
  destruct (rubm_math c v Hc Hv Hs) as (H1 & H2 & H3).
  assert (E0 : (v =? 0) = false) by lia.
  rewrite callf_S. cbn. rewrite E0. cbn. rewrite H1.
  unfold round_up_by_multiple_of, eval_cmp. rewrite H2.
  destruct (c mod v =? 0) eqn:E; cbn [b2z]; lit; cbn.
  - rewrite Z2N.id by lia. reflexivity.
  - rewrite E0. cbn. rewrite H3. reflexivity.
Qed.

(* ---------- NextShareIndex ---------- *)

Lemma gen_nsi_wide fuel c len t : (72 <= fuel)%nat ->
  0 <= c <= 2 ^ 62 -> 0 <= len <= 2 ^ 62 -> 1 <= t ->
  gen_call fuel "inclusion.NextShareIndex" I64 [c; len; t] =
  Val [Z.of_N (next_share_index (Z.to_N c) (Z.to_N len) (Z.to_N t))].
Proof.
  intros Hf Hc Hl Ht.
  destruct fuel as [|fuel]; [lia|]. unfold gen_call. rewrite callf_S. cbn.
  pose proof (gen_stw_wide fuel len t ltac:(lia) Hl Ht) as Hw. unfold gen_call in Hw.
  rewrite Hw. clear Hw. cbn.
  pose proof (stw_bounds len t Hl Ht) as Hb.
  change (2 ^ 31) with 2147483648 in Hb. rewrite pow62 in Hc.
  rewrite callf_rubm; [|lia|lia|lia|rewrite pow63; lia]. cbn.
  unfold next_share_index. rewrite N2Z.id. reflexivity.
Qed.

Lemma gen_nsi_zero fuel c len : (2 <= fuel)%nat ->
  gen_call fuel "inclusion.NextShareIndex" I64 [c; len; 0] = Flt.
Proof.
  intros Hf. destruct fuel as [|fuel]; [lia|]. unfold gen_call. rewrite callf_S. cbn.
  pose proof (gen_stw_zero fuel len ltac:(lia)) as Hw. unfold gen_call in Hw. rewrite Hw. reflexivity.
Qed.

(* ---------- headline ranges ----------
   The external inclusion.BlobMinSquareSize is validated against the float64 code for
   0 <= n <= 2^52 only (Properties/C15_float.v); the headline statements about SubTreeWidth
   and NextShareIndex therefore restrict the share count to that range.  The _wide lemmas
   above hold (relative to gen_ext) up to 2^62. *)

Lemma pow52_le : 2 ^ 52 <= 2 ^ 62.
Proof. apply Z.pow_le_mono_r; lia. Qed.

Lemma gen_stw fuel n t : (71 <= fuel)%nat -> 0 <= n <= 2 ^ 52 -> 1 <= t ->
  gen_call fuel "inclusion.SubTreeWidth" I64 [n; t] =
  Val [Z.of_N (subtree_width (Z.to_N n) (Z.to_N t))].
Proof. intros Hf Hn Ht. pose proof pow52_le. apply gen_stw_wide; [exact Hf|lia|exact Ht]. Qed.

Lemma gen_nsi fuel c len t : (72 <= fuel)%nat ->
  0 <= c <= 2 ^ 62 -> 0 <= len <= 2 ^ 52 -> 1 <= t ->
  gen_call fuel "inclusion.NextShareIndex" I64 [c; len; t] =
  Val [Z.of_N (next_share_index (Z.to_N c) (Z.to_N len) (Z.to_N t))].
Proof. intros Hf Hc Hl Ht. pose proof pow52_le. apply gen_nsi_wide; [exact Hf|exact Hc|lia|exact Ht]. Qed.

(* ---------- outside the range: RoundUpPowerOfTwo[int] never returns ----------
   For 2^62 < x (x an int) the result goes 2^62 -> -2^63 -> 0 -> 0 ... and stays below x:
   the loop runs out of any fuel.  The model (unbounded N) answers 2^63 there. *)

Lemma rup_loop_diverges call lf x : 2 ^ 62 < x ->
  forall n en, lookup en "input" = x ->
    (lookup en "result" = 0 \/ lookup en "result" = - 2 ^ 63 \/
     exists j, 0 <= j <= 62 /\ lookup en "result" = 2 ^ j) ->
    for_loop call I64 lf rup_cond rup_body n en = SFuel.
Proof.
  intros Hx. induction n as [|n IH]; intros en Hi Hr; [reflexivity|].
  rewrite for_loop_S. unfold rup_cond at 1. cbn [eval rbind]. rewrite Hi.
  assert (Hlt : (lookup en "result" <? x) = true).
  { destruct Hr as [->|[->|(j & Hj & ->)]]; [rewrite pow62 in Hx; lia|rewrite pow62 in Hx; rewrite pow63; lia|].
    assert (2 ^ j <= 2 ^ 62) by (apply Z.pow_le_mono_r; lia). lia. }
  unfold eval_cmp. rewrite Hlt. cbn [b2z]. lit.
  unfold rup_body at 1. cbn [exec eval rbind resolve eval_bin].
  change (1 <? 0) with false. cbv iota.
  apply IH; [exact Hi|]. cbn [update lookup String.eqb Ascii.eqb Bool.eqb]. 
  destruct Hr as [->|[->|(j & Hj & ->)]].
  - left. reflexivity.
  - left. reflexivity.
  - destruct (Z.eq_dec j 62) as [->|Hne].
    + right; left. reflexivity.
    + right; right. exists (j + 1). split; [lia|].
      assert (Hs : 2 ^ j * 2 ^ 1 = 2 ^ (j + 1)) by (rewrite Z.pow_add_r by lia; reflexivity).
      rewrite Hs. apply wrap_ok_I64. split; [apply Z.pow_nonneg; lia|apply Z.pow_le_mono_r; lia].
Qed.

Lemma gen_rup_inclusion_diverges fuel x : 2 ^ 62 < x ->
  gen_call fuel "inclusion.RoundUpPowerOfTwo" I64 [x] = Fuel.
Proof.
  intros Hx. destruct fuel as [|fuel]; [reflexivity|]. unfold gen_call. rewrite callf_S.
  change (find_fun gen_program "inclusion.RoundUpPowerOfTwo")
    with (Some {| fparams := ["input"]; fouts := []; fbody := rup_stmt |}).
  cbn [fbody fparams fouts bind_params]. unfold rup_stmt. rewrite exec_seq.
  change (exec (callf gen_ext gen_program fuel) I64 (S fuel) (SAssign "result" (EConst 1)) [("input", x)])
    with (SNormal (update [("input", x)] "result" 1)).
  cbv iota. rewrite exec_seq, exec_for.
  rewrite (rup_loop_diverges _ _ x Hx); [reflexivity|reflexivity|].
  right; right. exists 0. split; [lia|reflexivity].
Qed.

(* ---------- companions of the headline theorems, bundled ----------
   (every Print Assumptions in the statements file walks the whole closure of lia, about half a
   second each, on every run of the check; so the edge cases are stated as two conjunctions) *)

Lemma gen_pow2_rounding_cases_lemma :
  (* RoundUpPowerOfTwo, x <= 0: 1 *)
  (forall fuel targ x, (70 <= fuel)%nat -> targ = I64 \/ targ = U64 -> x <= 0 ->
     gen_call fuel "inclusion.RoundUpPowerOfTwo" targ [x] = Val [1]) /\
  (forall fuel targ x, (70 <= fuel)%nat -> targ = I64 \/ targ = U64 -> x <= 0 ->
     gen_call fuel "square.RoundUpPowerOfTwo" targ [x] = Val [1]) /\
  (* uint64 has one more bit of room *)
  (forall fuel x, (70 <= fuel)%nat -> x <= 2 ^ 63 ->
     gen_call fuel "inclusion.RoundUpPowerOfTwo" U64 [x] = Val [Z.of_N (round_up_pow2 (Z.to_N x))]) /\
  (forall fuel x, (70 <= fuel)%nat -> x <= 2 ^ 63 ->
     gen_call fuel "square.RoundUpPowerOfTwo" U64 [x] = Val [Z.of_N (round_up_pow2 (Z.to_N x))]) /\
  (* beyond 2^62 the int instance never returns, whatever the fuel *)
  (forall fuel x, 2 ^ 62 < x -> gen_call fuel "inclusion.RoundUpPowerOfTwo" I64 [x] = Fuel) /\
  (* RoundDownPowerOfTwo: the error return; both cases at once; the Ok value exists and is the
     greatest power of two <= x *)
  (forall fuel targ x, (71 <= fuel)%nat -> targ = I64 \/ targ = U64 -> x <= 0 ->
     gen_call fuel "inclusion.RoundDownPowerOfTwo" targ [x] = Val [0; 1]) /\
  (forall fuel targ x, (71 <= fuel)%nat -> targ = I64 \/ targ = U64 -> x <= 2 ^ 62 ->
     gen_call fuel "inclusion.RoundDownPowerOfTwo" targ [x] =
     match round_down_pow2 x with Ok v => Val [Z.of_N v; 0] | Err => Val [0; 1] | Fault => Flt end) /\
  (forall fuel targ x, (71 <= fuel)%nat -> targ = I64 \/ targ = U64 -> 0 < x <= 2 ^ 62 ->
     exists v, round_down_pow2 x = Ok v /\
       gen_call fuel "inclusion.RoundDownPowerOfTwo" targ [x] = Val [Z.of_N v; 0] /\
       pow2 v /\ (v <= Z.to_N x < 2 * v)%N).
Proof.
  exact (conj gen_rup_inclusion_nonpos (conj gen_rup_square_nonpos (conj gen_rup_inclusion_u64
        (conj gen_rup_square_u64 (conj gen_rup_inclusion_diverges (conj gen_rdown_err
        (conj gen_rdown_all gen_rdown_spec))))))).
Qed.

Lemma gen_width_index_cases_lemma :
  (* relative to gen_ext, SubTreeWidth and NextShareIndex agree with the model up to 2^62 *)
  (forall fuel n t, (71 <= fuel)%nat -> 0 <= n <= 2 ^ 62 -> 1 <= t ->
     gen_call fuel "inclusion.SubTreeWidth" I64 [n; t] =
     Val [Z.of_N (subtree_width (Z.to_N n) (Z.to_N t))]) /\
  (forall fuel c len t, (72 <= fuel)%nat -> 0 <= c <= 2 ^ 62 -> 0 <= len <= 2 ^ 62 -> 1 <= t ->
     gen_call fuel "inclusion.NextShareIndex" I64 [c; len; t] =
     Val [Z.of_N (next_share_index (Z.to_N c) (Z.to_N len) (Z.to_N t))]) /\
  (* threshold 0: integer divide by zero *)
  (forall fuel n, (1 <= fuel)%nat -> gen_call fuel "inclusion.SubTreeWidth" I64 [n; 0] = Flt) /\
  (forall fuel c len, (2 <= fuel)%nat -> gen_call fuel "inclusion.NextShareIndex" I64 [c; len; 0] = Flt).
Proof. exact (conj gen_stw_wide (conj gen_nsi_wide (conj gen_stw_zero gen_nsi_zero))). Qed.

Lemma gen_c15_edge_cases_lemma :
  (* RoundUpPowerOfTwo, x <= 0: 1 *)
  (forall fuel targ x, (70 <= fuel)%nat -> targ = I64 \/ targ = U64 -> x <= 0 ->
     gen_call fuel "inclusion.RoundUpPowerOfTwo" targ [x] = Val [1]) /\
  (forall fuel targ x, (70 <= fuel)%nat -> targ = I64 \/ targ = U64 -> x <= 0 ->
     gen_call fuel "square.RoundUpPowerOfTwo" targ [x] = Val [1]) /\
  (* uint64 has one more bit of room *)
  (forall fuel x, (70 <= fuel)%nat -> x <= 2 ^ 63 ->
     gen_call fuel "inclusion.RoundUpPowerOfTwo" U64 [x] = Val [Z.of_N (round_up_pow2 (Z.to_N x))]) /\
  (forall fuel x, (70 <= fuel)%nat -> x <= 2 ^ 63 ->
     gen_call fuel "square.RoundUpPowerOfTwo" U64 [x] = Val [Z.of_N (round_up_pow2 (Z.to_N x))]) /\
  (* beyond 2^62 the int instance never returns, whatever the fuel *)
  (forall fuel x, 2 ^ 62 < x -> gen_call fuel "inclusion.RoundUpPowerOfTwo" I64 [x] = Fuel) /\
  (* RoundDownPowerOfTwo: the error return; both cases at once; the Ok value exists and is the
     greatest power of two <= x *)
  (forall fuel targ x, (71 <= fuel)%nat -> targ = I64 \/ targ = U64 -> x <= 0 ->
     gen_call fuel "inclusion.RoundDownPowerOfTwo" targ [x] = Val [0; 1]) /\
  (forall fuel targ x, (71 <= fuel)%nat -> targ = I64 \/ targ = U64 -> x <= 2 ^ 62 ->
     gen_call fuel "inclusion.RoundDownPowerOfTwo" targ [x] =
     match round_down_pow2 x with Ok v => Val [Z.of_N v; 0] | Err => Val [0; 1] | Fault => Flt end) /\
  (forall fuel targ x, (71 <= fuel)%nat -> targ = I64 \/ targ = U64 -> 0 < x <= 2 ^ 62 ->
     exists v, round_down_pow2 x = Ok v /\
       gen_call fuel "inclusion.RoundDownPowerOfTwo" targ [x] = Val [Z.of_N v; 0] /\
       pow2 v /\ (v <= Z.to_N x < 2 * v)%N) /\
  (* relative to gen_ext, SubTreeWidth and NextShareIndex agree with the model up to 2^62 *)
  (forall fuel n t, (71 <= fuel)%nat -> 0 <= n <= 2 ^ 62 -> 1 <= t ->
     gen_call fuel "inclusion.SubTreeWidth" I64 [n; t] =
     Val [Z.of_N (subtree_width (Z.to_N n) (Z.to_N t))]) /\
  (forall fuel c len t, (72 <= fuel)%nat -> 0 <= c <= 2 ^ 62 -> 0 <= len <= 2 ^ 62 -> 1 <= t ->
     gen_call fuel "inclusion.NextShareIndex" I64 [c; len; t] =
     Val [Z.of_N (next_share_index (Z.to_N c) (Z.to_N len) (Z.to_N t))]) /\
  (* threshold 0: integer divide by zero *)
  (forall fuel n, (1 <= fuel)%nat -> gen_call fuel "inclusion.SubTreeWidth" I64 [n; 0] = Flt) /\
  (forall fuel c len, (2 <= fuel)%nat -> gen_call fuel "inclusion.NextShareIndex" I64 [c; len; 0] = Flt).
Proof.
  destruct gen_pow2_rounding_cases_lemma as (H1 & H2 & H3 & H4 & H5 & H6 & H7 & H8).
  destruct gen_width_index_cases_lemma as (H9 & H10 & H11 & H12).
  exact (conj H1 (conj H2 (conj H3 (conj H4 (conj H5 (conj H6 (conj H7 (conj H8
         (conj H9 (conj H10 (conj H11 H12))))))))))).
Qed.
