(* C06 - Worst-case capacity accounting never under-counts; greedy building never fails.
   Statements only.  THE PROPERTY IS PROVED IN PART.

   Proved here, for every append history (accepted and refused appends, ordinary and blob
   transactions of any size, every max and threshold):
     (a) accounting identity: estimate = size(tx counter) + size(pfb counter)
         + sum of per-blob reservations, both counter sizes in closed form, estimate >= 0;
     (b) capacity: estimate <= max^2;
     (c) refusal rule: an append is refused exactly when the estimate after the append
         would exceed max^2; a refused append leaves the builder observably unchanged;
     (d) side rule: the side used by Export is the least power of two whose square covers
         the estimate, and it is <= max;
     (e) the per-blob reservation (shares + subtree width - 1) covers the worst-case
         alignment gap in front of the blob, whatever the cursor;
     (f) blob region: the blob loop of Export never trips its `padding > MaxPadding` check
         and ends at or before start + sum of reservations <= estimate.

   NOT covered here (proved elsewhere / still open): "Export never fails" and
   "estimate >= occupied shares for the two compact sequences", i.e. that the compact
   share writers produce exactly counter_size shares for the transactions and that the
   wrapped PFBs with the real share indexes are no longer than with the worst-case
   indexes (`pfbCounter.Size() < pfbWriter.Count()` and `square size too small` checks
   of Export / WriteSquare). *)
From Coq Require Import List NArith ZArith.
From GS.Model Require Import Base Varint Blob Sparse Counter Arith Proto Builder.
From GS.Proofs Require Import ArithProofs AccountingProofs.
Import ListNotations.
Open Scope N_scope.

(* Histories: [reach max thr ops] is the builder after the appends [ops] (each either
   accepted or refused) starting from NewBuilder(max, thr):
     Inductive aop := ATx (tx : bytes) | ABlobTx (t : blob_tx).
     astep b (ATx tx) = fst (append_tx b tx);  astep b (ABlobTx t) = fst (append_blob_tx b t)
     reach max thr ops = fold_left astep ops (empty_builder max thr)
   [sum_offsets els] = sum of max_share_offset e = e_num_shares e + e_max_padding e. *)

(* ---------- (a) accounting identity ---------- *)
Theorem C06a_accounting_identity : forall max thr ops,
  let b := reach max thr ops in
  (bd_cur b = counter_size (bd_txc b) + counter_size (bd_pfbc b) + Z.of_N (sum_offsets (bd_blobs b))
   /\ 0 <= counter_size (bd_txc b) /\ 0 <= counter_size (bd_pfbc b) /\ 0 <= bd_cur b)%Z.
Proof. exact accounting_identity. Qed.
Print Assumptions C06a_accounting_identity.

(* the counter sizes are CompactSharesNeeded of the delimited lengths of what was accepted
   ([stream_len sizes] = sum of n + delim_len n; [pfb_wire_size p] = length of the wrapped
   PFB with the share indexes held by the builder, i.e. the worst-case ones before Export) *)
Theorem C06a_counters_closed_form : forall max thr ops,
  let b := reach max thr ops in
  counter_size (bd_txc b) = Z.of_N (compact_shares_needed (stream_len (map lenN (bd_txs b)))) /\
  counter_size (bd_pfbc b) = Z.of_N (compact_shares_needed (stream_len (map pfb_wire_size (bd_pfbs b)))).
Proof. exact counters_closed_form. Qed.
Print Assumptions C06a_counters_closed_form.

Theorem C06a_estimate_closed_form : forall max thr ops,
  let b := reach max thr ops in
  bd_cur b = Z.of_N (compact_shares_needed (stream_len (map lenN (bd_txs b)))
                     + compact_shares_needed (stream_len (map pfb_wire_size (bd_pfbs b)))
                     + sum_offsets (bd_blobs b)).
Proof. exact estimate_closed_form. Qed.
Print Assumptions C06a_estimate_closed_form.

(* ---------- (b) capacity ---------- *)
Theorem C06b_estimate_within_capacity : forall max thr ops,
  let b := reach max thr ops in
  bd_max b = max /\ bd_thr b = thr /\ (bd_cur b <= Z.of_N (max * max))%Z.
Proof. exact estimate_within_capacity. Qed.
Print Assumptions C06b_estimate_within_capacity.

(* Export's emptiness test is "estimate = 0" *)
Theorem C06b_empty_iff_zero_estimate : forall max thr ops,
  let b := reach max thr ops in
  builder_is_empty b = true <-> bd_cur b = 0%Z.
Proof. exact empty_iff_zero_estimate. Qed.
Print Assumptions C06b_empty_iff_zero_estimate.

(* ---------- (c) refusal rule ---------- *)
(* for ANY builder state: refused iff current estimate + increment > max^2, where the
   increment is the diff returned by the counter (plus the reservations of the blobs) *)
Theorem C06c_append_tx_refused_iff : forall b tx,
  snd (append_tx b tx) = false <-> (bd_cur b + tx_diff b tx > capacity b)%Z.
Proof. exact append_tx_refused_iff. Qed.
Print Assumptions C06c_append_tx_refused_iff.

Theorem C06c_append_blob_tx_refused_iff : forall b t,
  snd (append_blob_tx b t) = false <-> (bd_cur b + blob_tx_diff b t > capacity b)%Z.
Proof. exact append_blob_tx_refused_iff. Qed.
Print Assumptions C06c_append_blob_tx_refused_iff.

(* for reachable states, in terms of the observable estimate: [estimate_after_tx b tx] is
   the accounting identity evaluated after counting tx (size of the advanced tx counter
   + size of the pfb counter + reservations); an accepted append sets the estimate to it,
   a refused one is exactly one for which it exceeds max^2; it never decreases *)
Theorem C06c_refusal_rule_tx : forall max thr ops tx,
  let b := reach max thr ops in
  (snd (append_tx b tx) = false <-> (estimate_after_tx b tx > Z.of_N (max * max))%Z) /\
  (snd (append_tx b tx) = true -> bd_cur (fst (append_tx b tx)) = estimate_after_tx b tx) /\
  (bd_cur b <= estimate_after_tx b tx)%Z.
Proof. exact refusal_rule_tx. Qed.
Print Assumptions C06c_refusal_rule_tx.

Theorem C06c_refusal_rule_blob_tx : forall max thr ops t,
  let b := reach max thr ops in
  (snd (append_blob_tx b t) = false <-> (estimate_after_blob_tx b t > Z.of_N (max * max))%Z) /\
  (snd (append_blob_tx b t) = true -> bd_cur (fst (append_blob_tx b t)) = estimate_after_blob_tx b t) /\
  (bd_cur b <= estimate_after_blob_tx b t)%Z.
Proof. exact refusal_rule_blob_tx. Qed.
Print Assumptions C06c_refusal_rule_blob_tx.

(* a refused append leaves the builder observably unchanged (any builder state):
   observable b = (bd_cur b, bd_txs b, bd_pfbs b, bd_blobs b,
                   size and remainder of the tx counter, size and remainder of the pfb counter) *)
Theorem C06c_refused_tx_unchanged : forall b tx,
  snd (append_tx b tx) = false ->
  observable (fst (append_tx b tx)) = observable b /\
  bd_max (fst (append_tx b tx)) = bd_max b /\ bd_thr (fst (append_tx b tx)) = bd_thr b /\
  bd_done (fst (append_tx b tx)) = bd_done b.
Proof. exact append_tx_refused_unchanged. Qed.
Print Assumptions C06c_refused_tx_unchanged.

Theorem C06c_refused_blob_tx_unchanged : forall b t,
  snd (append_blob_tx b t) = false ->
  observable (fst (append_blob_tx b t)) = observable b /\
  bd_max (fst (append_blob_tx b t)) = bd_max b /\ bd_thr (fst (append_blob_tx b t)) = bd_thr b /\
  bd_done (fst (append_blob_tx b t)) = bd_done b.
Proof. exact append_blob_tx_refused_unchanged. Qed.
Print Assumptions C06c_refused_blob_tx_unchanged.

(* what an accepted append does *)
Theorem C06c_accepted_tx : forall b tx,
  snd (append_tx b tx) = true ->
  let b' := fst (append_tx b tx) in
  bd_cur b' = (bd_cur b + tx_diff b tx)%Z /\ bd_txs b' = bd_txs b ++ [tx] /\
  bd_pfbs b' = bd_pfbs b /\ bd_blobs b' = bd_blobs b /\
  bd_txc b' = fst (counter_add (bd_txc b) (Z.of_N (lenN tx))) /\ bd_pfbc b' = bd_pfbc b.
Proof. exact append_tx_accepted. Qed.
Print Assumptions C06c_accepted_tx.

Theorem C06c_accepted_blob_tx : forall b t,
  snd (append_blob_tx b t) = true ->
  let b' := fst (append_blob_tx b t) in
  bd_cur b' = (bd_cur b + blob_tx_diff b t)%Z /\ bd_txs b' = bd_txs b /\
  bd_pfbs b' = bd_pfbs b ++ [mk_pfb (btx_tx t) (worst_case_share_indexes (length (btx_blobs t)))] /\
  bd_blobs b' = bd_blobs b ++ blob_tx_els b t /\
  bd_txc b' = bd_txc b /\
  bd_pfbc b' = fst (counter_add (bd_pfbc b) (Z.of_N (blob_tx_worst_size t))).
Proof. exact append_blob_tx_accepted. Qed.
Print Assumptions C06c_accepted_blob_tx.

(* ---------- (d) side rule ---------- *)
Theorem C06d_side_rule : forall max thr ops, pow2 max ->
  let b := reach max thr ops in
  let s := blob_min_square_size (Z.to_N (bd_cur b)) in
  pow2 s /\ (bd_cur b <= Z.of_N (s * s))%Z /\
  (forall w, pow2 w -> (bd_cur b <= Z.of_N (w * w))%Z -> s <= w) /\
  s <= max.
Proof. exact side_rule. Qed.
Print Assumptions C06d_side_rule.

(* ---------- (e) per-blob reservation covers the alignment gap ---------- *)
Theorem C06e_alignment_gap : forall c n thr, 1 <= thr ->
  c <= next_share_index c n thr /\
  next_share_index c n thr - c <= subtree_width n thr - 1.
Proof. exact alignment_gap. Qed.
Print Assumptions C06e_alignment_gap.

Theorem C06e_reservation_covers_gap : forall max thr ops, 1 <= thr ->
  let b := reach max thr ops in
  Forall (fun e =>
    e_max_padding e = subtree_width (e_num_shares e) thr - 1 /\
    max_share_offset e = e_num_shares e + e_max_padding e /\
    forall c, c <= next_share_index c (e_num_shares e) thr /\
              next_share_index c (e_num_shares e) thr - c <= e_max_padding e) (bd_blobs b).
Proof. exact reservation_covers_gap. Qed.
Print Assumptions C06e_reservation_covers_gap.

(* ---------- (f) the blob region of Export ---------- *)
(* [export_blobs_nochk] is the blob loop with the `padding > MaxPadding` check deleted;
   [blob_end thr c els] is the cursor after aligning and placing every element from c.
   For every reachable builder the check is dead code, the blob region ends at
   blob_end, and blob_end <= estimate <= max^2. *)
Theorem C06f_export_blob_region : forall max thr ops, 1 <= thr ->
  let b := reach max thr ops in
  let sorted := sort_elements (bd_blobs b) in
  let start := Z.to_N (counter_size (bd_txc b) + counter_size (bd_pfbc b)) in
  let st0 := mk_bls start start start (bd_pfbs b) [] in
  export_blobs (bd_thr b) true sorted st0 = export_blobs_nochk (bd_thr b) true sorted st0 /\
  start <= blob_end thr start sorted /\
  (Z.of_N (blob_end thr start sorted) <= bd_cur b)%Z /\
  (bd_cur b <= Z.of_N (max * max))%Z /\
  (forall st, export_blobs (bd_thr b) true sorted st0 = Ok st ->
     bl_cursor st = blob_end thr start sorted).
Proof. exact export_blob_region. Qed.
Print Assumptions C06f_export_blob_region.

(* the same for any element list with well-formed reservations and any loop state *)
Theorem C06f_padding_check_dead : forall thr, 1 <= thr -> forall els first st,
  Forall (el_wf thr) els -> bl_end_last st = bl_cursor st ->
  export_blobs thr first els st = export_blobs_nochk thr first els st.
Proof. exact export_blobs_check_dead. Qed.
Print Assumptions C06f_padding_check_dead.

Theorem C06f_blob_end_bound : forall thr, 1 <= thr -> forall els c, Forall (el_wf thr) els ->
  c <= blob_end thr c els /\ blob_end thr c els <= c + sum_offsets els.
Proof. exact blob_end_bound. Qed.
Print Assumptions C06f_blob_end_bound.

(* ---------- non-vacuity ---------- *)
(* 2x2 builder: 1000 bytes take 3 shares; a second 1000 bytes would need 5 > 4 and is
   refused, leaving the observable unchanged; 300 bytes more are then accepted *)
Example C06_ex_refused_then_accepted :
  snd (append_tx (reach 2 64 [ATx (ex_tx 1000)]) (ex_tx 1000)) = false /\
  observable (reach 2 64 [ATx (ex_tx 1000); ATx (ex_tx 1000)]) = observable (reach 2 64 [ATx (ex_tx 1000)]) /\
  snd (append_tx (reach 2 64 [ATx (ex_tx 1000); ATx (ex_tx 1000)]) (ex_tx 300)) = true /\
  obs_short (reach 2 64 ex_ops) = (3%Z, [1000%nat; 300%nat], 0%nat, [], 3%Z, 352%Z, 0%Z, 0%Z) /\
  estimate_after_tx (reach 2 64 [ATx (ex_tx 1000)]) (ex_tx 1000) = 5%Z /\
  blob_min_square_size (Z.to_N (bd_cur (reach 2 64 ex_ops))) = 2.
Proof. vm_compute. repeat split; reflexivity. Qed.

(* 4x4 builder, threshold 2: a 300-byte tx, a blob tx with one 2000-byte blob (5 shares,
   3 reserved padding), a second copy refused (estimate would be 18 > 16); Export's blob
   loop places the blob at share 4 and ends at 9 <= 10 = estimate *)
Example C06_ex_blob_history :
  let b1 := reach 4 2 [ATx (ex_tx 300); ABlobTx ex_btx] in
  let b := reach 4 2 ex_ops2 in
  snd (append_blob_tx b1 ex_btx) = false /\
  estimate_after_blob_tx b1 ex_btx = 18%Z /\
  observable b = observable b1 /\
  obs_short b = (10%Z, [300%nat], 1%nat, [(5, 3)], 1%Z, 302%Z, 1%Z, 114%Z) /\
  builder_is_empty b = false /\
  blob_end 2 2 (sort_elements (bd_blobs b)) = 9.
Proof. vm_compute. repeat split; reflexivity. Qed.
