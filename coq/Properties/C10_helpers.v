(* C10 (helpers) - ParseInfoByte, NewShare / FromBytes / ToBytes, SparseShareSplitter.Count.
   Statements only. *)
From Coq Require Import List NArith ZArith Bool.
From GS.Model Require Import Base Namespace ShareFmt Blob Sparse Helpers.
From GS.Proofs Require Import HelpersProofs.
Import ListNotations.

(* ParseInfoByte is total on all 256 bytes and returns the byte itself *)
Theorem C10h_parse_info_byte_total : forall i, parse_info_byte i = Ok i.
Proof. exact parse_info_byte_total. Qed.
Print Assumptions C10h_parse_info_byte_total.

(* NewInfoByte accepts exactly the versions <= 127 *)
Theorem C10h_new_info_byte_accepts : forall ver st,
  is_ok (new_info_byte ver st) = (ver <=? 127)%N /\ new_info_byte ver st <> Fault.
Proof. exact new_info_byte_accepts. Qed.
Print Assumptions C10h_new_info_byte_accepts.

(* ParseInfoByte inverts NewInfoByte, NewInfoByte inverts the accessors *)
Theorem C10h_parse_inverts_new : forall ver st i,
  new_info_byte ver st = Ok i ->
  parse_info_byte i = Ok i /\ info_version i = ver /\ info_start i = st.
Proof. exact parse_new_info_byte. Qed.
Print Assumptions C10h_parse_inverts_new.

Theorem C10h_new_inverts_accessors : forall i, new_info_byte (info_version i) (info_start i) = Ok i.
Proof. exact new_info_byte_of_parts. Qed.
Print Assumptions C10h_new_inverts_accessors.

(* FromBytes accepts exactly the lists of 512-byte strings, keeps them unchanged, never panics *)
Theorem C10h_from_bytes_ok : forall l, Forall wf_share l -> from_bytes l = Ok l.
Proof. exact from_bytes_ok. Qed.
Print Assumptions C10h_from_bytes_ok.

Theorem C10h_from_bytes_err : forall l, ~ Forall wf_share l -> from_bytes l = Err.
Proof. exact from_bytes_err. Qed.
Print Assumptions C10h_from_bytes_err.

Theorem C10h_from_bytes_inv : forall l shares,
  from_bytes l = Ok shares -> shares = l /\ Forall wf_share l.
Proof. exact from_bytes_inv. Qed.
Print Assumptions C10h_from_bytes_inv.

(* the round trips *)
Theorem C10h_to_bytes_from_bytes : forall l shares, from_bytes l = Ok shares -> to_bytes shares = l.
Proof. exact to_bytes_from_bytes. Qed.
Print Assumptions C10h_to_bytes_from_bytes.

Theorem C10h_from_bytes_to_bytes : forall shares,
  Forall wf_share shares -> from_bytes (to_bytes shares) = Ok shares.
Proof. exact from_bytes_to_bytes. Qed.
Print Assumptions C10h_from_bytes_to_bytes.

Theorem C10h_new_share : forall d,
  (wf_share d -> new_share d = Ok d) /\ (~ wf_share d -> new_share d = Err).
Proof. exact new_share_spec. Qed.
Print Assumptions C10h_new_share.

(* SparseShareSplitter.Count is the number of shares an Export would return *)
Theorem C10h_sparse_count : forall items,
  sparse_count_after items =
  match sparse_write_items [] items with Ok shs => Ok (lenN shs) | Err => Err | Fault => Fault end.
Proof. exact sparse_count_after_spec. Qed.
Print Assumptions C10h_sparse_count.

Example C10h_info_byte_example :
  parse_info_byte Byte.x03 = Ok Byte.x03 /\ info_version Byte.x03 = 1%N /\ info_start Byte.x03 = true /\
  new_info_byte 127 true = Ok Byte.xff /\ new_info_byte 128 false = Err /\
  parse_info_byte Byte.xff = Ok Byte.xff.
Proof. vm_compute. repeat split. Qed.
Example C10h_from_bytes_example :
  wf_share (hp_share Byte.x01) /\
  from_bytes [hp_share Byte.x01; hp_share Byte.x02] = Ok [hp_share Byte.x01; hp_share Byte.x02] /\
  from_bytes [hp_share Byte.x01; [Byte.x01]; hp_share Byte.x02] = Err /\
  from_bytes [] = Ok [] /\ from_bytes [[]] = Err /\
  to_bytes [hp_share Byte.x01] = [hp_share Byte.x01].
Proof. vm_compute. repeat split. Qed.
Example C10h_sparse_count_example :
  sparse_count_after [IBlob hp_b4; INsPad 2; IBlob hp_b1] = Ok 5%N /\
  sparse_count_after [INsPad 1] = Err /\ sparse_count_after [] = Ok 0%N.
Proof. vm_compute. repeat split. Qed.
