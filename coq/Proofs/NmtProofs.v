(* C05: blob commitments computed in isolation match the square's row trees.
   (a) arithmetic of the mountain-range chunks (alignment, no chunk spans two rows);
   (b) structure of the RFC-6962 split recursion for any node type: an aligned
       power-of-two range of a power-of-two tree is an inner node, and its value is the
       root computed over that range alone; the root is the root over the nodes of a level;
   (c) instantiation with the namespaced Merkle tree (any base hash H) and with
       GenerateSubtreeRoots / CreateCommitment. *)
From Coq Require Import List NArith ZArith Lia Bool Sorted.
From Coq Require Import ZifyN ZifyNat ZifyBool.
From GS.Model Require Import Base Namespace ShareFmt Blob Sparse Arith Sha256 Nmt.
From GS.Spec Require Import ShareSpec.
From GS.Proofs Require Import BaseLemmas ArithProofs NamespaceProofs SparseProofs.
Import ListNotations.
Open Scope N_scope.

(* ---------- the word truncation of Model/Sha256.v is mod 2^32 ---------- *)
Lemma w32_is_mod x : w32 x = x mod 2 ^ 32.
Proof. unfold w32, mask32. change 4294967295 with (N.ones 32). apply N.land_ones. Qed.

(* ====================================================================== *)
(* (a) arithmetic                                                          *)
(* ====================================================================== *)

(* the chunks [o, o+m) cut by consecutive sizes starting at o0 *)
Fixpoint offsets (o0 : N) (sizes : list N) : list (N * N) :=
  match sizes with
  | [] => []
  | m :: tl => (o0, m) :: offsets (o0 + m) tl
  end.

Lemma offsets_length o0 sizes : length (offsets o0 sizes) = length sizes.
Proof. revert o0; induction sizes as [|m tl IH]; intros o0; cbn [offsets length]; [reflexivity|]. now rewrite IH. Qed.

Lemma offsets_in_size sizes : forall o0 o m, In (o, m) (offsets o0 sizes) -> In m sizes.
Proof.
  induction sizes as [|x tl IH]; intros o0 o m Hin; cbn [offsets] in Hin; [contradiction|].
  destruct Hin as [Heq|Hin]; [inversion Heq; subst; now left|right; eapply IH; exact Hin].
Qed.

Lemma offsets_bound sizes : forall o0 o m, In (o, m) (offsets o0 sizes) ->
  o0 <= o /\ o + m <= o0 + sumN sizes.
Proof.
  induction sizes as [|x tl IH]; intros o0 o m Hin; cbn [offsets] in Hin; [contradiction|].
  cbn [sumN]. destruct Hin as [Heq|Hin].
  - inversion Heq; subst. lia.
  - apply IH in Hin. lia.
Qed.

Lemma pow2_divide a b : pow2 a -> pow2 b -> a <= b -> N.divide a b.
Proof.
  intros [j ->] [k ->] Hle. apply pow2_le_exp in Hle.
  exists (2 ^ (k - j)). rewrite <- N.pow_add_r. f_equal. lia.
Qed.

Lemma desc_strong l : desc l -> StronglySorted (fun a b => b <= a) l.
Proof.
  intros Hd. apply Sorted_StronglySorted; [|exact Hd].
  intros x y z Hxy Hyz. lia.
Qed.

(* every chunk starts at a multiple of its own size, provided the start offset is a
   multiple of every size: earlier sizes are larger-or-equal powers of two *)
Lemma offsets_aligned sizes : Forall pow2 sizes -> StronglySorted (fun a b => b <= a) sizes ->
  forall o0, (forall x, In x sizes -> N.divide x o0) ->
  forall o m, In (o, m) (offsets o0 sizes) -> N.divide m o.
Proof.
  induction sizes as [|x tl IH]; intros Hp Hs o0 Hdiv o m Hin; cbn [offsets] in Hin; [contradiction|].
  inversion Hp as [|? ? Hpx Hptl]; subst. inversion Hs as [|? ? Hstl Hle]; subst.
  destruct Hin as [Heq|Hin].
  - inversion Heq; subst. apply Hdiv. now left.
  - eapply (IH Hptl Hstl (o0 + x)); [|exact Hin].
    intros y Hy. apply N.divide_add_r.
    + apply Hdiv. now right.
    + apply pow2_divide; [|exact Hpx|].
      * rewrite Forall_forall in Hptl. now apply Hptl.
      * rewrite Forall_forall in Hle. now apply Hle.
Qed.

(* a range [x, x+m) with m | x and m | s does not cross a multiple of s *)
Lemma aligned_same_row x m s : 0 < m -> N.divide m x -> N.divide m s -> 0 < s ->
  x / s = (x + m - 1) / s /\ x mod s + m <= s /\ N.divide m (x mod s).
Proof.
  intros Hm [q ->] [r ->] Hs.
  assert (Hr : 0 < r) by (destruct r; [cbn in Hs; lia|lia]).
  assert (Hdiv : q * m / (r * m) = q / r) by (apply N.div_mul_cancel_r; lia).
  assert (Hmod : (q * m) mod (r * m) = (q mod r) * m) by (apply N.mul_mod_distr_r; lia).
  split; [|split].
  - rewrite Hdiv. replace (q * m + m - 1) with (q * m + (m - 1)) by lia.
    rewrite (N.mul_comm r m), <- N.div_div by lia.
    rewrite N.div_add_l by lia. rewrite (N.div_small (m - 1) m) by lia. now rewrite N.add_0_r.
  - rewrite Hmod. pose proof (N.mod_lt q r ltac:(lia)) as Hlt.
    assert ((q mod r + 1) * m <= r * m) by (apply N.mul_le_mono_r; lia). lia.
  - rewrite Hmod. exists (q mod r). reflexivity.
Qed.

(* Theorem (a): the chunks of a blob of n shares placed at an index i that is a
   multiple of the subtree width, in a square whose side s is a power of two not
   smaller than that width. *)
Theorem chunks_in_row n t i s : 1 <= t ->
  let w := subtree_width n t in
  i mod w = 0 -> pow2 s -> w <= s ->
  forall o m, In (o, m) (offsets 0 (mmr_sizes n w)) ->
    pow2 m /\ m <= w /\ o + m <= n /\
    (i + o) mod m = 0 /\
    (i + o) / s = (i + o + m - 1) / s /\
    (i + o) mod s + m <= s /\
    ((i + o) mod s) mod m = 0.
Proof.
  intros Ht w Hi Hs Hws o m Hin.
  destruct (subtree_width_spec n t Ht) as (_ & Hpw & _). fold w in Hpw.
  pose proof (pow2_pos w Hpw) as Hwpos.
  destruct (mmr_sizes_spec n w Hpw) as (Hsum & Hp2 & Hle & Hdesc).
  pose proof (offsets_in_size _ _ _ _ Hin) as Hm.
  assert (Hpm : pow2 m) by (rewrite Forall_forall in Hp2; now apply Hp2).
  assert (Hmw : m <= w) by (rewrite Forall_forall in Hle; now apply Hle).
  pose proof (pow2_pos m Hpm) as Hmpos.
  pose proof (offsets_bound _ _ _ _ Hin) as [_ Hb]. rewrite Hsum in Hb.
  assert (Hmo : N.divide m o).
  { eapply (offsets_aligned _ Hp2 (desc_strong _ Hdesc) 0); [|exact Hin]. intros x _. apply N.divide_0_r. }
  assert (Hmi : N.divide m i).
  { apply N.divide_trans with w; [apply pow2_divide; assumption|]. apply N.mod_divide; [lia|exact Hi]. }
  assert (Hmx : N.divide m (i + o)) by (apply N.divide_add_r; assumption).
  assert (Hms : N.divide m s) by (apply pow2_divide; [assumption|assumption|lia]).
  pose proof (pow2_pos s Hs) as Hspos.
  destruct (aligned_same_row (i + o) m s Hmpos Hmx Hms Hspos) as (Hrow & Hfit & Hal).
  repeat split; try assumption; try lia.
  - apply N.mod_divide; [lia|exact Hmx].
  - apply N.mod_divide; [lia|exact Hal].
Qed.

(* ====================================================================== *)
(* (b) the split recursion                                                 *)
(* ====================================================================== *)

Lemma of_nat_pow2 k : N.of_nat (2 ^ k) = 2 ^ N.of_nat k.
Proof. rewrite Nat2N.inj_pow. reflexivity. Qed.

Lemma to_nat_pow2 k : N.to_nat (2 ^ N.of_nat k) = (2 ^ k)%nat.
Proof. rewrite <- of_nat_pow2. apply Nat2N.id. Qed.

Lemma nat_pow2_pos k : (0 < 2 ^ k)%nat.
Proof. induction k as [|k IH]; cbn [Nat.pow]; lia. Qed.

Lemma split_point_pow2 k : split_point (2 ^ N.succ k) = 2 ^ k.
Proof.
  unfold split_point. rewrite N.log2_pow2 by lia. rewrite N.eqb_refl.
  rewrite N.pow_succ_r'. rewrite N.mul_comm. apply N.div_mul. lia.
Qed.

Lemma split_point_bounds n : 2 <= n -> 1 <= split_point n /\ split_point n < n.
Proof.
  intros Hn. unfold split_point.
  destruct (N.log2_spec n ltac:(lia)) as [Hlo Hhi].
  assert (Hl : 1 <= N.log2 n) by (apply N.log2_le_pow2; [lia|cbn; lia]).
  destruct (2 ^ N.log2 n =? n) eqn:E.
  - apply N.eqb_eq in E. rewrite E. split.
    + apply N.div_le_lower_bound; lia.
    + apply N.div_lt; lia.
  - apply N.eqb_neq in E. split; [|lia].
    pose proof (N.pow_le_mono_r 2 0 (N.log2 n) ltac:(lia) ltac:(lia)) as Hp. cbn in Hp. lia.
Qed.

Lemma length_firstn_le {A} n (l : list A) : (n <= length l)%nat -> length (firstn n l) = n.
Proof. intros. rewrite firstn_length. lia. Qed.

Lemma firstn_skipn_firstn {A} (a n k : nat) (l : list A) : (a + n <= k)%nat ->
  firstn n (skipn a (firstn k l)) = firstn n (skipn a l).
Proof.
  intros Hle. rewrite <- (firstn_skipn k l) at 2.
  destruct (Nat.le_gt_cases (length l) k) as [Hlen|Hlen].
  - rewrite (firstn_all2 l Hlen). rewrite (skipn_all2 l Hlen), app_nil_r. reflexivity.
  - rewrite skipn_app. rewrite firstn_app.
    rewrite (length_firstn_le k l) by lia.
    replace (a - k)%nat with 0%nat by lia.
    rewrite skipn_length, (length_firstn_le k l) by lia.
    replace (n - (k - a))%nat with 0%nat by lia.
    change (firstn 0 (skipn 0 (skipn k l))) with (@nil A). now rewrite app_nil_r.
Qed.

Lemma skipn_skipn_add {A} (a b : nat) (l : list A) : skipn a (skipn b l) = skipn (b + a) l.
Proof.
  revert l; induction b as [|b IH]; intros l; [reflexivity|].
  destruct l as [|x l]; [now rewrite !skipn_nil|]. cbn [Nat.add]. change (skipn (S b) (x :: l)) with (skipn b l).
  change (skipn (S (b + a)) (x :: l)) with (skipn (b + a) l). apply IH.
Qed.

Lemma split_parts_length {T} (l : list T) : (2 <= length l)%nat ->
  let k := split_point (lenN l) in
  (1 <= length (takeN k l) < length l)%nat /\ (1 <= length (dropN k l) < length l)%nat.
Proof.
  intros Hl k.
  assert (Hlen : 2 <= lenN l) by (unfold lenN; lia).
  destruct (split_point_bounds _ Hlen) as [Hk1 Hk2]. fold k in Hk1, Hk2.
  unfold lenN in Hk2. unfold takeN, dropN. rewrite firstn_length, skipn_length. lia.
Qed.

Section Tree.
Context {T : Type}.
Variable f : T -> T -> T.
Variable empty : T.

Lemma mroot_fuel_S fu (l : list T) : (2 <= length l)%nat ->
  mroot_fuel (S fu) f empty l =
  f (mroot_fuel fu f empty (takeN (split_point (lenN l)) l))
    (mroot_fuel fu f empty (dropN (split_point (lenN l)) l)).
Proof. destruct l as [|x [|y tl]]; cbn [length]; try lia. intros _. reflexivity. Qed.

Lemma mroot_fuel_indep : forall f1 f2 (l : list T), (length l <= f1)%nat -> (length l <= f2)%nat ->
  mroot_fuel f1 f empty l = mroot_fuel f2 f empty l.
Proof.
  induction f1 as [|f1 IH]; intros f2 l H1 H2.
  - destruct l; [|cbn in H1; lia]. destruct f2; reflexivity.
  - destruct f2 as [|f2]; [destruct l; [reflexivity|cbn in H2; lia]|].
    destruct (Nat.lt_ge_cases (length l) 2) as [Hs|Hs].
    + destruct l as [|x [|y tl]]; [reflexivity|reflexivity|cbn in Hs; lia].
    + rewrite !mroot_fuel_S by exact Hs.
      destruct (split_parts_length l Hs) as [Ha Hb].
      f_equal; apply IH; lia.
Qed.

Lemma mroot_nil : mroot f empty [] = empty.
Proof. reflexivity. Qed.

Lemma mroot_one x : mroot f empty [x] = x.
Proof. reflexivity. Qed.

(* the defining equation of computeRoot / HashFromByteSlices *)
Lemma mroot_unfold (l : list T) : (2 <= length l)%nat ->
  let k := split_point (lenN l) in
  mroot f empty l = f (mroot f empty (takeN k l)) (mroot f empty (dropN k l)).
Proof.
  intros Hl k. unfold mroot at 1.
  destruct (length l) as [|n] eqn:En; [lia|].
  rewrite mroot_fuel_S by lia. fold k.
  destruct (split_parts_length l ltac:(lia)) as [Ha Hb]. fold k in Ha, Hb.
  unfold mroot. f_equal; apply mroot_fuel_indep; lia.
Qed.

(* a tree of 2^(k+1) leaves splits into its two halves *)
Lemma mroot_pow2_split k (l : list T) : length l = (2 ^ S k)%nat ->
  mroot f empty l = f (mroot f empty (firstn (2 ^ k) l)) (mroot f empty (skipn (2 ^ k) l)).
Proof.
  intros Hl. pose proof (nat_pow2_pos k) as Hpos.
  rewrite mroot_unfold by (rewrite Hl; cbn [Nat.pow]; lia).
  unfold lenN. rewrite Hl, of_nat_pow2, Nat2N.inj_succ, split_point_pow2.
  unfold takeN, dropN. rewrite to_nat_pow2. reflexivity.
Qed.

(* ---- inner nodes ---- *)

(* whatever [inner_node] returns is the root computed over that range alone *)
Lemma inner_node_fuel_value : forall fuel (l : list T) off len v,
  inner_node_fuel fuel f empty l off len = Some v ->
  v = mroot f empty (takeN len (dropN off l)).
Proof.
  induction fuel as [|fuel IH]; intros l off len v Hv; cbn [inner_node_fuel] in Hv; [discriminate|].
  destruct ((off =? 0) && (len =? lenN l)) eqn:E0.
  - apply andb_true_iff in E0. destruct E0 as [Eo El].
    apply N.eqb_eq in Eo. apply N.eqb_eq in El. subst off len. inversion Hv; subst.
    unfold takeN, dropN, lenN. rewrite Nat2N.id. change (N.to_nat 0) with 0%nat.
    change (skipn 0 l) with l. now rewrite firstn_all.
  - destruct (lenN l <? 2) eqn:E2; [discriminate|].
    set (k := split_point (lenN l)) in *.
    destruct (off + len <=? k) eqn:E3.
    + apply N.leb_le in E3. apply IH in Hv. subst v. f_equal.
      unfold takeN, dropN. apply firstn_skipn_firstn. lia.
    + destruct (k <=? off) eqn:E4; [|discriminate].
      apply N.leb_le in E4. apply IH in Hv. subst v. f_equal.
      unfold takeN, dropN. rewrite skipn_skipn_add. f_equal. f_equal. lia.
Qed.

Theorem inner_node_value (l : list T) off len v :
  inner_node f empty l off len = Some v -> v = mroot f empty (takeN len (dropN off l)).
Proof. apply inner_node_fuel_value. Qed.

(* node_of_aligned_range: in a tree of 2^k leaves the range of 2^e leaves at offset
   p * 2^e is an inner node, and its value is the root over that sub-list *)
Lemma inner_node_fuel_aligned : forall k fuel (l : list T) e p,
  (k < fuel)%nat -> length l = (2 ^ k)%nat -> (e <= k)%nat -> (p < 2 ^ (k - e))%nat ->
  inner_node_fuel fuel f empty l (N.of_nat (p * 2 ^ e)) (N.of_nat (2 ^ e)) =
  Some (mroot f empty (firstn (2 ^ e) (skipn (p * 2 ^ e) l))).
Proof.
  induction k as [|k IH]; intros fuel l e p Hfuel Hl He Hp.
  - assert (e = 0)%nat by lia. subst e. cbn [Nat.sub Nat.pow] in Hp. assert (p = 0)%nat by lia. subst p.
    destruct fuel as [|fuel]; [lia|]. cbn [inner_node_fuel Nat.pow Nat.mul].
    unfold lenN. rewrite Hl. cbn [Nat.pow]. change (N.of_nat 0 =? 0) with true. rewrite N.eqb_refl. cbn [andb].
    change (skipn 0 l) with l. cbn [Nat.pow] in Hl. rewrite <- Hl. now rewrite firstn_all.
  - destruct fuel as [|fuel]; [lia|]. cbn [inner_node_fuel].
    pose proof (nat_pow2_pos e) as HE. pose proof (nat_pow2_pos k) as HK.
    destruct (Nat.eq_dec e (S k)) as [Heq|Hne].
    + subst e. rewrite Nat.sub_diag in Hp. cbn [Nat.pow] in Hp. assert (p = 0)%nat by lia. subst p.
      cbn [Nat.mul]. unfold lenN. rewrite Hl. change (N.of_nat 0 =? 0) with true. rewrite N.eqb_refl. cbn [andb].
      change (skipn 0 l) with l. rewrite <- Hl. now rewrite firstn_all.
    + assert (Hek : (e <= k)%nat) by lia.
      assert (Hsplit : (2 ^ k = 2 ^ (k - e) * 2 ^ e)%nat) by (rewrite <- Nat.pow_add_r; f_equal; lia).
      assert (Hsub : (2 ^ (S k - e) = 2 * 2 ^ (k - e))%nat) by (replace (S k - e)%nat with (S (k - e)) by lia; reflexivity).
      set (Q := (2 ^ (k - e))%nat) in *. set (E := (2 ^ e)%nat) in *.
      assert (HlenN : lenN l = 2 ^ N.succ (N.of_nat k)) by (unfold lenN; rewrite Hl, of_nat_pow2, Nat2N.inj_succ; reflexivity).
      assert (Hlt : (E < 2 ^ S k)%nat) by (cbn [Nat.pow]; rewrite Hsplit; pose proof (nat_pow2_pos (k - e)); fold Q in H; nia).
      replace ((N.of_nat (p * E) =? 0) && (N.of_nat E =? lenN l)) with false.
      2:{ symmetry. apply andb_false_iff. right. apply N.eqb_neq. unfold lenN. rewrite Hl. lia. }
      replace (lenN l <? 2) with false.
      2:{ symmetry. apply N.ltb_ge. unfold lenN. rewrite Hl. cbn [Nat.pow]. lia. }
      rewrite HlenN, split_point_pow2. rewrite <- of_nat_pow2.
      destruct (Nat.lt_ge_cases p Q) as [Hlo|Hhi].
      * assert (Hfit : (p * E + E <= 2 ^ k)%nat) by (rewrite Hsplit; nia).
        replace (N.of_nat (p * E) + N.of_nat E <=? N.of_nat (2 ^ k)) with true by (symmetry; apply N.leb_le; lia).
        unfold takeN. rewrite Nat2N.id.
        etransitivity; [apply (IH fuel (firstn (2 ^ k) l) e p); [lia| |exact Hek|exact Hlo]|].
        -- apply length_firstn_le. rewrite Hl. cbn [Nat.pow]. lia.
        -- f_equal. f_equal. fold E. apply firstn_skipn_firstn. exact Hfit.
      * assert (Hoff : (2 ^ k <= p * E)%nat) by (rewrite Hsplit; nia).
        replace (N.of_nat (p * E) + N.of_nat E <=? N.of_nat (2 ^ k)) with false by (symmetry; apply N.leb_gt; lia).
        replace (N.of_nat (2 ^ k) <=? N.of_nat (p * E)) with true by (symmetry; apply N.leb_le; lia).
        unfold dropN. rewrite Nat2N.id.
        replace (N.of_nat (p * E) - N.of_nat (2 ^ k)) with (N.of_nat ((p - Q) * E)) by (rewrite Hsplit; nia).
        etransitivity; [apply (IH fuel (skipn (2 ^ k) l) e (p - Q)%nat); [lia| |exact Hek|fold Q; lia]|].
        -- rewrite skipn_length, Hl. cbn [Nat.pow]. lia.
        -- f_equal. f_equal. fold E. rewrite skipn_skipn_add. f_equal. f_equal. rewrite Hsplit. nia.
Qed.

Lemma pow2_gt k : (k < 2 ^ k)%nat.
Proof. induction k as [|k IH]; cbn [Nat.pow]; lia. Qed.

Theorem node_of_aligned_range k (l : list T) e p :
  length l = (2 ^ k)%nat -> (e <= k)%nat -> (p < 2 ^ (k - e))%nat ->
  inner_node f empty l (N.of_nat (p * 2 ^ e)) (N.of_nat (2 ^ e)) =
  Some (mroot f empty (firstn (2 ^ e) (skipn (p * 2 ^ e) l))).
Proof.
  intros Hl He Hp. unfold inner_node. apply (inner_node_fuel_aligned k); try assumption.
  rewrite Hl. pose proof (pow2_gt k). lia.
Qed.


(* ---- the root is the root over the nodes of one level ---- *)

Definition nodes_at (l : list T) (e cnt : nat) : list T :=
  map (fun p => mroot f empty (firstn (2 ^ e) (skipn (p * 2 ^ e) l))) (seq 0 cnt).

Lemma seq_from a n : seq a n = map (fun i => (a + i)%nat) (seq 0 n).
Proof.
  revert a; induction n as [|n IH]; intros a; [reflexivity|].
  cbn [seq map]. rewrite Nat.add_0_r. f_equal. rewrite (IH (S a)), (IH 1%nat), map_map.
  apply map_ext. intros i. lia.
Qed.

Lemma firstn_app_exact {A} (a b : list A) n : n = length a -> firstn n (a ++ b) = a.
Proof. intros ->. rewrite firstn_app, firstn_all, Nat.sub_diag. change (firstn 0 b) with (@nil A). apply app_nil_r. Qed.

Lemma skipn_app_exact {A} (a b : list A) n : n = length a -> skipn n (a ++ b) = b.
Proof. intros ->. rewrite skipn_app, skipn_all, Nat.sub_diag. reflexivity. Qed.

Lemma nodes_at_length l e cnt : length (nodes_at l e cnt) = cnt.
Proof. unfold nodes_at. now rewrite map_length, seq_length. Qed.

Theorem mroot_over_level e : forall d (l : list T), length l = (2 ^ (d + e))%nat ->
  mroot f empty l = mroot f empty (nodes_at l e (2 ^ d)).
Proof.
  pose proof (nat_pow2_pos e) as HE.
  induction d as [|d IH]; intros l Hl.
  - cbn [Nat.add] in Hl. unfold nodes_at. cbn [Nat.pow seq map Nat.mul]. change (skipn 0 l) with l.
    rewrite <- Hl, firstn_all. reflexivity.
  - cbn [Nat.add] in Hl.
    assert (Hsplit : (2 ^ (d + e) = 2 ^ d * 2 ^ e)%nat) by apply Nat.pow_add_r.
    pose proof (nat_pow2_pos d) as HD. pose proof (nat_pow2_pos (d + e)) as HDE.
    set (E := (2 ^ e)%nat) in *. set (D := (2 ^ d)%nat) in *.
    rewrite (mroot_pow2_split (d + e) l Hl).
    assert (HlenL : length (firstn (2 ^ (d + e)) l) = (2 ^ (d + e))%nat)
      by (apply length_firstn_le; rewrite Hl; cbn [Nat.pow]; lia).
    assert (HlenR : length (skipn (2 ^ (d + e)) l) = (2 ^ (d + e))%nat)
      by (rewrite skipn_length, Hl; cbn [Nat.pow]; lia).
    rewrite (IH _ HlenL), (IH _ HlenR). fold D.
    assert (Hnodes : nodes_at l e (2 ^ S d) =
                     nodes_at (firstn (2 ^ (d + e)) l) e D ++ nodes_at (skipn (2 ^ (d + e)) l) e D).
    { replace (2 ^ S d)%nat with (D + D)%nat by (cbn [Nat.pow]; fold D; lia).
      unfold nodes_at. rewrite seq_app, map_app. cbn [Nat.add]. f_equal.
      - apply map_ext_in. intros p Hp. apply in_seq in Hp. fold E. f_equal. symmetry.
        apply firstn_skipn_firstn. rewrite Hsplit. nia.
      - rewrite (seq_from D D), map_map. apply map_ext. intros p. fold E. f_equal.
        rewrite skipn_skipn_add. f_equal. f_equal. rewrite Hsplit. nia. }
    rewrite Hnodes.
    rewrite (mroot_pow2_split d (_ ++ _)) by (rewrite app_length, !nodes_at_length; cbn [Nat.pow]; fold D; lia).
    fold D. rewrite firstn_app_exact, skipn_app_exact by (now rewrite nodes_at_length). reflexivity.
Qed.

(* the model's [level_nodes] (N arithmetic) is [nodes_at] *)
Lemma level_nodes_nodes_at d e (l : list T) : length l = (2 ^ (d + e))%nat ->
  level_nodes f empty l (N.of_nat (2 ^ e)) = nodes_at l e (2 ^ d).
Proof.
  intros Hl. unfold level_nodes, nodes_at. pose proof (nat_pow2_pos e) as HE.
  assert (Hq : N.to_nat (lenN l / N.of_nat (2 ^ e)) = (2 ^ d)%nat).
  { unfold lenN. rewrite Hl, Nat.pow_add_r, Nat2N.inj_mul, N.div_mul by lia. apply Nat2N.id. }
  rewrite Hq. apply map_ext. intros p. unfold takeN, dropN.
  rewrite <- Nat2N.inj_mul, !Nat2N.id. reflexivity.
Qed.

Corollary mroot_level_nodes d e (l : list T) : length l = (2 ^ (d + e))%nat ->
  mroot f empty l = mroot f empty (level_nodes f empty l (N.of_nat (2 ^ e))).
Proof. intros Hl. rewrite (level_nodes_nodes_at d e l Hl). now apply mroot_over_level. Qed.

End Tree.

(* ====================================================================== *)
(* (c) the namespaced Merkle tree, any base hash                           *)
(* ====================================================================== *)

(* ---- Push never refuses leaves that all carry the same 29-byte namespace ---- *)
Lemma id_less_irrefl a : id_less a a = false.
Proof. unfold id_less. now rewrite bytes_cmp_refl. Qed.

Lemma firstn_ns_app (ns s : bytes) : length ns = 29%nat -> firstn nmt_ns_len (ns ++ s) = ns.
Proof. intros Hn. apply firstn_app_exact. now rewrite Hn. Qed.

Lemma push_ok_same_ns ns (set : list bytes) : length ns = 29%nat ->
  forall prev, prev = None \/ prev = Some ns -> push_ok_from prev (map (fun s => ns ++ s) set) = true.
Proof.
  intros Hn. induction set as [|s tl IH]; intros prev Hprev; [reflexivity|].
  cbn [map push_ok_from]. rewrite firstn_ns_app by exact Hn.
  replace (Nat.ltb (length (ns ++ s)) nmt_ns_len) with false
    by (symmetry; apply Nat.ltb_ge; rewrite app_length, Hn; unfold nmt_ns_len; lia).
  destruct Hprev as [->| ->]; [|rewrite id_less_irrefl]; apply IH; now right.
Qed.

(* ---- GenerateSubtreeRoots, unfolded ---- *)
Lemma leaf_sets_spec (shares : list share) : forall sizes c, c + sumN sizes <= lenN shares ->
  leaf_sets shares c sizes = Ok (map (fun om => takeN (snd om) (dropN (fst om) shares)) (offsets c sizes)).
Proof.
  induction sizes as [|m tl IH]; intros c Hc; [reflexivity|].
  cbn [sumN] in Hc. cbn [leaf_sets offsets map fst snd]. unfold slice_list.
  replace ((c <=? c + m) && (c + m <=? lenN shares)) with true
    by (symmetry; apply andb_true_iff; split; apply N.leb_le; lia).
  cbn [bind]. rewrite IH by lia. cbn [bind]. replace (c + m - c) with m by lia. reflexivity.
Qed.

Lemma map_outcome_map {A B C} (g : A -> B) (h : B -> outcome C) (l : list A) :
  map_outcome h (map g l) = map_outcome (fun x => h (g x)) l.
Proof. induction l as [|x tl IH]; [reflexivity|]. cbn [map map_outcome]. now rewrite IH. Qed.

Lemma map_outcome_ext {A B} (g h : A -> outcome B) (l : list A) :
  (forall x, In x l -> g x = h x) -> map_outcome g l = map_outcome h l.
Proof.
  induction l as [|x tl IH]; intros Hext; [reflexivity|]. cbn [map_outcome].
  rewrite (Hext x) by now left. rewrite IH; [reflexivity|]. intros y Hy. apply Hext. now right.
Qed.

Lemma map_outcome_nth {A B} (g : A -> outcome B) : forall (l : list A) ys, map_outcome g l = Ok ys ->
  length ys = length l /\ forall j x, nth_error l j = Some x -> exists y, nth_error ys j = Some y /\ g x = Ok y.
Proof.
  induction l as [|x tl IH]; intros ys Hys; cbn [map_outcome] in Hys.
  - inversion Hys; subst. split; [reflexivity|]. intros [|j] y Hy; discriminate.
  - destruct (g x) as [y| |] eqn:Ex; cbn [bind] in Hys; try discriminate.
    destruct (map_outcome g tl) as [ys'| |] eqn:Etl; cbn [bind] in Hys; try discriminate.
    inversion Hys; subst. destruct (IH ys' eq_refl) as [Hlen Hnth]. split; [cbn [length]; now rewrite Hlen|].
    intros [|j] z Hz; cbn [nth_error] in *.
    + inversion Hz; subst. exists y. auto.
    + now apply Hnth.
Qed.

(* every share of a blob starts with the blob's namespace *)
Lemma blob_spec_ns b : blob_ok b -> Forall (fun s => firstn nmt_ns_len s = b_ns b) (blob_spec b).
Proof.
  intros (Hns & _). unfold blob_spec, sparse_spec. constructor.
  - apply firstn_ns_app. exact Hns.
  - apply Forall_forall. intros s Hs. apply in_map_iff in Hs. destruct Hs as (c & <- & _).
    apply firstn_ns_app. exact Hns.
Qed.

Lemma row_leaves_of_blob_shares ns (l : list share) : Forall (fun s => firstn nmt_ns_len s = ns) l ->
  row_leaves l = map (fun s => ns ++ s) l.
Proof.
  intros Hf. unfold row_leaves. apply map_ext_in. intros s Hs.
  rewrite Forall_forall in Hf. now rewrite (Hf s Hs).
Qed.

Lemma Forall_firstn {A} (P : A -> Prop) n l : Forall P l -> Forall P (firstn n l).
Proof. intros Hf. rewrite <- (firstn_skipn n l) in Hf. apply Forall_app in Hf. tauto. Qed.

Lemma Forall_skipn {A} (P : A -> Prop) n l : Forall P l -> Forall P (skipn n l).
Proof. intros Hf. rewrite <- (firstn_skipn n l) in Hf. apply Forall_app in Hf. tauto. Qed.

Section NmtAny.
Variable H : bytes -> bytes.

Local Notation hn := (hash_node_o H).
Local Notation er := (Ok (nmt_empty_root H)).

Lemma leaf_hashes_firstn n leaves : firstn n (nmt_leaf_hashes H leaves) = nmt_leaf_hashes H (firstn n leaves).
Proof. unfold nmt_leaf_hashes. apply firstn_map. Qed.

Lemma leaf_hashes_skipn n leaves : skipn n (nmt_leaf_hashes H leaves) = nmt_leaf_hashes H (skipn n leaves).
Proof. unfold nmt_leaf_hashes. apply skipn_map. Qed.

Lemma leaf_hashes_length leaves : length (nmt_leaf_hashes H leaves) = length leaves.
Proof. unfold nmt_leaf_hashes. apply map_length. Qed.

(* In a tree over 2^k leaves, the aligned range of 2^e leaves at offset p*2^e is an
   inner node, and its value (an error included) is what computeRoot gives on a
   separate tree that holds only those leaves. *)
Theorem nmt_range_is_inner_node k (leaves : list bytes) e p :
  length leaves = (2 ^ k)%nat -> (e <= k)%nat -> (p < 2 ^ (k - e))%nat ->
  inner_node hn er (nmt_leaf_hashes H leaves) (N.of_nat (p * 2 ^ e)) (N.of_nat (2 ^ e)) =
  Some (nmt_compute_root H (nmt_leaf_hashes H (firstn (2 ^ e) (skipn (p * 2 ^ e) leaves)))).
Proof.
  intros Hl He Hp. rewrite (node_of_aligned_range hn er k) by (rewrite ?leaf_hashes_length; assumption).
  rewrite leaf_hashes_skipn, leaf_hashes_firstn. reflexivity.
Qed.

(* the root of the tree is the root over the inner nodes of any level *)
Theorem nmt_root_over_level d e (leaves : list bytes) : length leaves = (2 ^ (d + e))%nat ->
  nmt_compute_root H (nmt_leaf_hashes H leaves) =
  mroot hn er (map (fun p => nmt_compute_root H (nmt_leaf_hashes H (firstn (2 ^ e) (skipn (p * 2 ^ e) leaves))))
                   (seq 0 (2 ^ d))).
Proof.
  intros Hl. unfold nmt_compute_root at 1.
  rewrite (mroot_over_level hn er e d) by (rewrite leaf_hashes_length; exact Hl).
  unfold nodes_at. f_equal. apply map_ext. intros p.
  rewrite leaf_hashes_skipn, leaf_hashes_firstn. reflexivity.
Qed.

(* ---- GenerateSubtreeRoots, unfolded ---- *)
Lemma nmt_root_same_ns ns (set : list bytes) : length ns = 29%nat ->
  nmt_root H (map (fun s => ns ++ s) set) =
  nmt_compute_root H (nmt_leaf_hashes H (map (fun s => ns ++ s) set)).
Proof.
  intros Hn. unfold nmt_root.
  assert (Hp : nmt_push_ok (map (fun s => ns ++ s) set) = true) by (apply push_ok_same_ns; auto).
  now rewrite Hp.
Qed.

(* the tree of one chunk *)
Definition chunk_root (ns : bytes) (shares : list share) (om : N * N) : outcome bytes :=
  nmt_compute_root H (nmt_leaf_hashes H (map (fun s => ns ++ s) (takeN (snd om) (dropN (fst om) shares)))).

Theorem subtree_roots_unfold b thr : blob_ok b -> 1 <= thr ->
  let shares := blob_spec b in
  let n := lenN shares in
  subtree_roots H b thr =
  map_outcome (chunk_root (b_ns b) shares) (offsets 0 (mmr_sizes n (subtree_width n thr))).
Proof.
  intros Hok Ht shares n. unfold subtree_roots. rewrite (sparse_write_spec b Hok). cbn [bind]. fold shares. fold n.
  replace (thr =? 0) with false by (symmetry; apply N.eqb_neq; lia).
  destruct (subtree_width_spec n thr Ht) as (_ & Hpw & _).
  destruct (mmr_sizes_spec n (subtree_width n thr) Hpw) as (Hsum & _).
  rewrite leaf_sets_spec by (rewrite Hsum; fold n; lia). cbn [bind].
  rewrite map_outcome_map. apply map_outcome_ext. intros om _.
  destruct Hok as (Hns & _). unfold chunk_root. apply nmt_root_same_ns. exact Hns.
Qed.

(* Theorem (b)+(c), row level.  Whenever GenerateSubtreeRoots succeeds, its j-th root is
   the inner node of ANY power-of-two row tree that holds the shares of the j-th chunk at
   an in-row offset c that is a multiple of the chunk size. *)
Theorem subtree_root_is_row_node b thr roots : blob_ok b -> 1 <= thr ->
  subtree_roots H b thr = Ok roots ->
  let shares := blob_spec b in
  let n := lenN shares in
  let chunks := offsets 0 (mmr_sizes n (subtree_width n thr)) in
  length roots = length chunks /\
  forall j o m, nth_error chunks j = Some (o, m) ->
  exists root, nth_error roots j = Some root /\
  forall (row : list share) k e p,
    length row = (2 ^ k)%nat -> m = N.of_nat (2 ^ e) -> (e <= k)%nat -> (p < 2 ^ (k - e))%nat ->
    firstn (2 ^ e) (skipn (p * 2 ^ e) row) = takeN m (dropN o shares) ->
    inner_node hn er (nmt_leaf_hashes H (row_leaves row)) (N.of_nat (p * 2 ^ e)) m = Some (Ok root).
Proof.
  intros Hok Ht Hroots shares n chunks.
  rewrite (subtree_roots_unfold b thr Hok Ht) in Hroots. fold shares n chunks in Hroots.
  destruct (map_outcome_nth _ _ _ Hroots) as [Hlen Hnth]. split; [exact Hlen|].
  intros j o m Hj. destruct (Hnth j (o, m) Hj) as (root & Hr & Hval). exists root. split; [exact Hr|].
  intros row k e p Hrow Hm He Hp Hsame. subst m.
  unfold row_leaves. rewrite (nmt_range_is_inner_node k) by (rewrite ?map_length; assumption).
  f_equal. rewrite <- Hval. unfold chunk_root. cbn [fst snd]. f_equal. f_equal.
  rewrite skipn_map, firstn_map.
  etransitivity; [apply (f_equal (map _)); exact Hsame|].
  apply (row_leaves_of_blob_shares (b_ns b)). unfold takeN, dropN. apply Forall_firstn, Forall_skipn.
  apply blob_spec_ns. exact Hok.
Qed.

(* Corollary: position independence.  Two rows (of any two squares) that hold the chunk's
   shares at aligned offsets have the same inner node there. *)
Corollary row_node_independent b thr roots : blob_ok b -> 1 <= thr ->
  subtree_roots H b thr = Ok roots ->
  let shares := blob_spec b in
  let n := lenN shares in
  forall j o m, nth_error (offsets 0 (mmr_sizes n (subtree_width n thr))) j = Some (o, m) ->
  forall (row1 row2 : list share) k1 k2 e p1 p2,
    m = N.of_nat (2 ^ e) ->
    length row1 = (2 ^ k1)%nat -> (e <= k1)%nat -> (p1 < 2 ^ (k1 - e))%nat ->
    length row2 = (2 ^ k2)%nat -> (e <= k2)%nat -> (p2 < 2 ^ (k2 - e))%nat ->
    firstn (2 ^ e) (skipn (p1 * 2 ^ e) row1) = takeN m (dropN o shares) ->
    firstn (2 ^ e) (skipn (p2 * 2 ^ e) row2) = takeN m (dropN o shares) ->
    inner_node hn er (nmt_leaf_hashes H (row_leaves row1)) (N.of_nat (p1 * 2 ^ e)) m =
    inner_node hn er (nmt_leaf_hashes H (row_leaves row2)) (N.of_nat (p2 * 2 ^ e)) m.
Proof.
  intros Hok Ht Hroots shares n j o m Hj row1 row2 k1 k2 e p1 p2 Hm Hl1 He1 Hp1 Hl2 He2 Hp2 Hs1 Hs2.
  destruct (subtree_root_is_row_node b thr roots Hok Ht Hroots) as [_ Hall].
  destruct (Hall j o m Hj) as (root & _ & Hnode).
  rewrite (Hnode row1 k1 e p1), (Hnode row2 k2 e p2); auto.
Qed.

(* (c) the commitment is the merkle root function applied to exactly those roots *)
Theorem create_commitment_spec mrf b thr :
  create_commitment H mrf b thr = do roots <- subtree_roots H b thr; Ok (mrf roots).
Proof. reflexivity. Qed.

End NmtAny.

(* ====================================================================== *)
(* No HashNode error on ordered leaves (base hash with 32-byte digests)    *)
(* ====================================================================== *)

Definition le_ns (a b : bytes) : Prop := id_less b a = false.

Lemma le_ns_refl a : le_ns a a.
Proof. apply id_less_irrefl. Qed.

Lemma id_less_lt a b : id_less a b = true <-> bytes_cmp a b = Lt.
Proof. unfold id_less. destruct (bytes_cmp a b); split; congruence. Qed.

Lemma le_ns_trans a b c : le_ns a b -> le_ns b c -> le_ns a c.
Proof.
  unfold le_ns. intros Hab Hbc.
  destruct (id_less c a) eqn:Hca; [|reflexivity]. exfalso.
  apply id_less_lt in Hca.
  assert (Hnab : bytes_cmp b a <> Lt) by (intros E; apply id_less_lt in E; congruence).
  assert (Hnbc : bytes_cmp c b <> Lt) by (intros E; apply id_less_lt in E; congruence).
  assert (Hirr : forall x, bytes_cmp x x <> Lt) by (intros x; rewrite bytes_cmp_refl; discriminate).
  destruct (bytes_cmp_total a b) as [Hlt|[Heq|Hgt]]; [|subst b|contradiction].
  - destruct (bytes_cmp_total b c) as [Hlt2|[Heq2|Hgt2]]; [|subst c|contradiction].
    + apply (Hirr a). eapply bytes_cmp_trans; [exact Hlt|]. eapply bytes_cmp_trans; [exact Hlt2|exact Hca].
    + apply (Hirr a). eapply bytes_cmp_trans; [exact Hlt|exact Hca].
  - contradiction.
Qed.

Section NmtOrdered.
Variable H : bytes -> bytes.
Hypothesis H_len : forall x, length (H x) = 32%nat.

Local Notation hn := (hash_node_o H).
Local Notation er := (Ok (nmt_empty_root H)).

Definition nsof (d : bytes) : bytes := firstn nmt_ns_len d.

(* a well-formed node covering namespaces from lo (exactly) up to at most hi *)
Definition node_wf (v lo hi : bytes) : Prop :=
  length v = 90%nat /\ node_min v = lo /\ le_ns lo (node_max v) /\ le_ns (node_max v) hi.

Lemma node_parts (a b h : bytes) : length a = 29%nat -> length b = 29%nat ->
  node_min (a ++ b ++ h) = a /\ node_max (a ++ b ++ h) = b.
Proof.
  intros Ha Hb. unfold node_min, node_max, nmt_ns_len. split.
  - apply firstn_app_exact. now rewrite Ha.
  - rewrite skipn_app_exact by now rewrite Ha. apply firstn_app_exact. now rewrite Hb.
Qed.

Lemma hash_leaf_wf d : (29 <= length d)%nat ->
  exists v, hash_leaf H d = Ok v /\ node_wf v (nsof d) (nsof d).
Proof.
  intros Hd. unfold hash_leaf.
  replace (Nat.ltb (length d) nmt_ns_len) with false by (symmetry; apply Nat.ltb_ge; exact Hd).
  eexists. split; [reflexivity|].
  assert (Hn : length (nsof d) = 29%nat) by (unfold nsof, nmt_ns_len; rewrite firstn_length; lia).
  fold (nsof d). destruct (node_parts (nsof d) (nsof d) (H (Byte.x00 :: d)) Hn Hn) as [Hmin Hmax].
  unfold node_wf. rewrite Hmin, Hmax. repeat split; try apply le_ns_refl.
  rewrite !app_length, Hn, H_len. reflexivity.
Qed.

Lemma node_min_length v : length v = 90%nat -> length (node_min v) = 29%nat.
Proof. intros Hv. unfold node_min, nmt_ns_len. rewrite firstn_length. lia. Qed.

Lemma node_max_length v : length v = 90%nat -> length (node_max v) = 29%nat.
Proof. intros Hv. unfold node_max, nmt_ns_len. rewrite firstn_length, skipn_length. lia. Qed.

Lemma hash_node_wf l r lo1 hi1 lo2 hi2 :
  node_wf l lo1 hi1 -> node_wf r lo2 hi2 -> le_ns hi1 lo2 ->
  exists v, hash_node H l r = Ok v /\ node_wf v lo1 hi2.
Proof.
  intros (Hll & Hlmin & Hl1 & Hl2) (Hrl & Hrmin & Hr1 & Hr2) Hmid.
  assert (Hord : le_ns (node_max l) (node_min r)).
  { rewrite Hrmin. eapply le_ns_trans; [exact Hl2|exact Hmid]. }
  unfold hash_node, validate_nodes, validate_node_format.
  rewrite Hll, Hrl. change (Nat.eqb 90 nmt_node_size) with true. cbn [andb].
  rewrite Hlmin, Hrmin. unfold le_ns in Hl1, Hr1, Hord. rewrite Hrmin in Hord.
  rewrite Hl1, Hr1, Hord. cbn [negb andb].
  eexists. split; [reflexivity|].
  set (mx := if bytes_eqb nmt_max_ns lo2 then node_max l else node_max r).
  assert (Hmxl : length mx = 29%nat) by (unfold mx; destruct (bytes_eqb nmt_max_ns lo2); [apply node_max_length|apply node_max_length]; assumption).
  assert (Hlol : length lo1 = 29%nat) by (rewrite <- Hlmin; now apply node_min_length).
  destruct (node_parts lo1 mx (H (Byte.x01 :: l ++ r)) Hlol Hmxl) as [Hmin Hmax].
  unfold node_wf. rewrite Hmin, Hmax. split; [|split; [reflexivity|]].
  - rewrite !app_length, Hlol, Hmxl, H_len. reflexivity.
  - assert (Hmid2 : le_ns hi1 (node_max r)) by (eapply le_ns_trans; [exact Hmid|exact Hr1]).
    unfold mx. destruct (bytes_eqb nmt_max_ns lo2); split.
    + exact Hl1.
    + eapply le_ns_trans; [exact Hl2|]. eapply le_ns_trans; [exact Hmid2|exact Hr2].
    + eapply le_ns_trans; [exact Hl1|]. eapply le_ns_trans; [exact Hl2|exact Hmid2].
    + exact Hr2.
Qed.

Definition ns_sorted (leaves : list bytes) : Prop :=
  StronglySorted (fun a b => le_ns (nsof a) (nsof b)) leaves.

Lemma StronglySorted_app_inv {A} (R : A -> A -> Prop) (a b : list A) :
  StronglySorted R (a ++ b) ->
  StronglySorted R a /\ StronglySorted R b /\ forall x y, In x a -> In y b -> R x y.
Proof.
  induction a as [|x a IH]; intros Hs.
  - cbn in Hs. repeat split; [constructor|exact Hs|intros ? ? []].
  - cbn [app] in Hs. inversion Hs as [|? ? Hs' Hall]; subst.
    destruct (IH Hs') as (Ha & Hb & Hc). rewrite Forall_app in Hall. destruct Hall as [Hxa Hxb].
    repeat split; [constructor; assumption|exact Hb|].
    intros u v [<-|Hu] Hv; [rewrite Forall_forall in Hxb; now apply Hxb|now apply Hc].
Qed.

Lemma last_in {A} (l : list A) d : l <> [] -> In (last l d) l.
Proof.
  induction l as [|x [|y tl] IH]; intros Hne; [congruence|now left|].
  right. change (last (x :: y :: tl) d) with (last (y :: tl) d). apply IH. discriminate.
Qed.

Lemma hd_in {A} (l : list A) d : l <> [] -> In (hd d l) l.
Proof. destruct l; [congruence|intros _; now left]. Qed.

Lemma hd_app {A} (a b : list A) d : a <> [] -> hd d (a ++ b) = hd d a.
Proof. destruct a; [congruence|reflexivity]. Qed.

Lemma last_app {A} (a b : list A) d : b <> [] -> last (a ++ b) d = last b d.
Proof.
  intros Hb. induction a as [|x a IH]; [reflexivity|].
  cbn [app]. destruct (a ++ b) eqn:E; [destruct a; cbn in E; [congruence|discriminate]|].
  change (last (x :: a0 :: l) d) with (last (a0 :: l) d). exact IH.
Qed.

(* computeRoot succeeds on any non-empty, long-enough, namespace-ordered leaf list *)
Lemma compute_root_ok : forall n (leaves : list bytes), (length leaves <= n)%nat -> leaves <> [] ->
  Forall (fun d => (29 <= length d)%nat) leaves -> ns_sorted leaves ->
  exists v, nmt_compute_root H (nmt_leaf_hashes H leaves) = Ok v /\
            node_wf v (nsof (hd [] leaves)) (nsof (last leaves [])).
Proof.
  induction n as [|n IH]; intros leaves Hn Hne Hlen Hsort.
  - destruct leaves; [congruence|cbn in Hn; lia].
  - destruct (Nat.lt_ge_cases (length leaves) 2) as [Hs|Hs].
    + destruct leaves as [|d [|d2 tl]]; [congruence| |cbn in Hs; lia].
      inversion Hlen; subst. destruct (hash_leaf_wf d H2) as (v & Hv & Hwf).
      exists v. split; [|exact Hwf]. unfold nmt_compute_root, nmt_leaf_hashes. cbn [map]. rewrite mroot_one. exact Hv.
    + unfold nmt_compute_root.
      rewrite mroot_unfold by (rewrite leaf_hashes_length; exact Hs).
      cbv zeta. unfold lenN. rewrite leaf_hashes_length. fold (lenN leaves).
      destruct (split_parts_length leaves Hs) as [Ha Hb].
      set (k := split_point (lenN leaves)) in *.
      unfold takeN, dropN in *. rewrite leaf_hashes_firstn, leaf_hashes_skipn.
      set (L := firstn (N.to_nat k) leaves) in *. set (R := skipn (N.to_nat k) leaves) in *.
      assert (HLR : leaves = L ++ R) by (symmetry; apply firstn_skipn).
      assert (HLne : L <> []) by (intros E; rewrite E in Ha; cbn in Ha; lia).
      assert (HRne : R <> []) by (intros E; rewrite E in Hb; cbn in Hb; lia).
      rewrite HLR in Hsort. destruct (StronglySorted_app_inv _ _ _ Hsort) as (HsL & HsR & Hcross).
      destruct (IH L ltac:(lia) HLne (Forall_firstn _ _ _ Hlen) HsL) as (vl & Hvl & Hwl).
      destruct (IH R ltac:(lia) HRne (Forall_skipn _ _ _ Hlen) HsR) as (vr & Hvr & Hwr).
      fold (nmt_compute_root H (nmt_leaf_hashes H L)). fold (nmt_compute_root H (nmt_leaf_hashes H R)).
      rewrite Hvl, Hvr. cbn [hash_node_o bind].
      destruct (hash_node_wf vl vr _ _ _ _ Hwl Hwr) as (v & Hv & Hwf).
      { apply Hcross; [apply last_in; exact HLne|apply hd_in; exact HRne]. }
      exists v. split; [exact Hv|]. rewrite HLR, hd_app, last_app by assumption. exact Hwf.
Qed.

(* Push's check is exactly: long enough and ordered *)
Lemma push_ok_sorted : forall leaves prev, push_ok_from prev leaves = true ->
  Forall (fun d => (29 <= length d)%nat) leaves /\
  Sorted (fun a b => le_ns (nsof a) (nsof b)) leaves /\
  match prev, leaves with Some p, d :: _ => le_ns p (nsof d) | _, _ => True end.
Proof.
  induction leaves as [|d tl IH]; intros prev Hp.
  - repeat split; [constructor|constructor|destruct prev; exact I].
  - cbn [push_ok_from] in Hp.
    destruct (Nat.ltb (length d) nmt_ns_len) eqn:El; [discriminate|]. apply Nat.ltb_ge in El.
    assert (Hstep : push_ok_from (Some (firstn nmt_ns_len d)) tl = true /\
                    match prev with Some p => le_ns p (nsof d) | None => True end).
    { destruct prev as [p|]; [|split; [exact Hp|exact I]].
      destruct (id_less (firstn nmt_ns_len d) p) eqn:E; [discriminate|]. split; [exact Hp|exact E]. }
    destruct Hstep as [Htl Hprev]. destruct (IH _ Htl) as (Hf & Hs & Hh).
    repeat split.
    + constructor; [exact El|exact Hf].
    + constructor; [exact Hs|]. destruct tl; constructor. exact Hh.
    + destruct prev; [exact Hprev|exact I].
Qed.

(* Go: "this should never happen since leaves are validated in the Push method" *)
Theorem nmt_root_ok (leaves : list bytes) : leaves <> [] -> nmt_push_ok leaves = true ->
  exists v, nmt_root H leaves = Ok v /\ length v = 90%nat /\
            node_min v = nsof (hd [] leaves) /\ le_ns (node_max v) (nsof (last leaves [])).
Proof.
  intros Hne Hp. unfold nmt_root. rewrite Hp.
  destruct (push_ok_sorted _ _ Hp) as (Hf & Hs & _).
  assert (Hss : ns_sorted leaves).
  { apply Sorted_StronglySorted; [|exact Hs]. intros x y z. apply le_ns_trans. }
  destruct (compute_root_ok (length leaves) leaves (le_n _) Hne Hf Hss) as (v & Hv & Hl & Hmin & _ & Hmax).
  exists v. auto.
Qed.

Lemma map_outcome_all_ok {A B} (g : A -> outcome B) (l : list A) :
  (forall x, In x l -> exists y, g x = Ok y) -> exists ys, map_outcome g l = Ok ys.
Proof.
  induction l as [|x tl IH]; intros Hall; [exists []; reflexivity|].
  destruct (Hall x ltac:(now left)) as (y & Hy). destruct IH as (ys & Hys); [intros z Hz; apply Hall; now right|].
  exists (y :: ys). cbn [map_outcome]. rewrite Hy. cbn [bind]. rewrite Hys. reflexivity.
Qed.

(* GenerateSubtreeRoots never fails on a valid blob *)
Theorem subtree_roots_ok b thr : blob_ok b -> 1 <= thr -> exists roots, subtree_roots H b thr = Ok roots.
Proof.
  intros Hok Ht. rewrite (subtree_roots_unfold H b thr Hok Ht).
  set (shares := blob_spec b). set (n := lenN shares).
  destruct (subtree_width_spec n thr Ht) as (_ & Hpw & _).
  destruct (mmr_sizes_spec n (subtree_width n thr) Hpw) as (Hsum & Hp2 & _).
  apply map_outcome_all_ok. intros [o m] Hin.
  pose proof (offsets_in_size _ _ _ _ Hin) as Hm. pose proof (offsets_bound _ _ _ _ Hin) as [_ Hb].
  rewrite Hsum in Hb. rewrite Forall_forall in Hp2. pose proof (pow2_pos m (Hp2 m Hm)) as Hmpos.
  destruct Hok as (Hns & Hrest).
  unfold chunk_root. cbn [fst snd]. set (set_ := takeN m (dropN o shares)).
  assert (Hne : map (fun s => b_ns b ++ s) set_ <> []).
  { intros E. apply (f_equal (@length _)) in E. rewrite map_length in E. unfold set_, takeN, dropN in E.
    rewrite firstn_length, skipn_length in E. unfold n, lenN in Hb. cbn [length] in E. lia. }
  destruct (nmt_root_ok _ Hne) as (v & Hv & _).
  { apply push_ok_same_ns; [exact Hns|now left]. }
  exists v. rewrite <- Hv. symmetry. apply nmt_root_same_ns. exact Hns.
Qed.

End NmtOrdered.

(* ====================================================================== *)
(* The property at the level of a square                                   *)
(* ====================================================================== *)

Section Square.
Variable H : bytes -> bytes.
Local Notation hn := (hash_node_o H).
Local Notation er := (Ok (nmt_empty_root H)).

Lemma nth_error_in {A} (l : list A) j x : nth_error l j = Some x -> In x l.
Proof. apply nth_error_In. Qed.

(* A square of side s = 2^kk (row-major list of s*s shares) holds the blob's shares at
   index i, a multiple of the blob's subtree width w <= s.  Then every chunk lies in one
   row, and the j-th subtree root of the blob alone IS the inner node of that row's tree
   over the chunk's shares. *)
Theorem subtree_roots_in_square b thr roots (sq : list share) kk (i : N) :
  blob_ok b -> 1 <= thr -> subtree_roots H b thr = Ok roots ->
  let shares := blob_spec b in
  let n := lenN shares in
  let w := subtree_width n thr in
  let s := N.of_nat (2 ^ kk) in
  length sq = (2 ^ kk * 2 ^ kk)%nat ->
  i mod w = 0 -> w <= s ->
  takeN n (dropN i sq) = shares ->
  forall j o m, nth_error (offsets 0 (mmr_sizes n w)) j = Some (o, m) ->
  exists root, nth_error roots j = Some root /\
    (i + o) / s = (i + o + m - 1) / s /\
    inner_node hn er (nmt_leaf_hashes H (row_leaves (takeN s (dropN ((i + o) / s * s) sq))))
               ((i + o) mod s) m = Some (Ok root).
Proof.
  intros Hok Ht Hroots shares n w s Hsq Hi Hws Hat j o m Hj.
  destruct (subtree_root_is_row_node H b thr roots Hok Ht Hroots) as [_ Hall].
  fold shares n w in Hall. destruct (Hall j o m Hj) as (root & Hr & Hnode).
  exists root. split; [exact Hr|].
  assert (Hps : pow2 s) by (exists (N.of_nat kk); unfold s; apply of_nat_pow2).
  pose proof (chunks_in_row n thr i s Ht Hi Hps Hws o m (nth_error_in _ _ _ Hj))
    as (Hpm & Hmw & Hom & Hxm & Hrow & Hfit & Hcm).
  split; [exact Hrow|].
  pose proof (pow2_pos m Hpm) as Hmpos. pose proof (pow2_pos s Hps) as Hspos.
  destruct Hpm as [ke Hke].
  set (e := N.to_nat ke).
  assert (Hm : m = N.of_nat (2 ^ e)) by (rewrite of_nat_pow2; unfold e; rewrite N2Nat.id; exact Hke).
  assert (He : (e <= kk)%nat).
  { assert (Hle : 2 ^ ke <= 2 ^ N.of_nat kk) by (rewrite <- Hke, <- of_nat_pow2; fold s; lia).
    apply pow2_le_exp in Hle. unfold e. lia. }
  set (x := i + o) in *. set (c := x mod s) in *. set (r := x / s) in *.
  assert (Hx : x = r * s + c) by (unfold r, c; rewrite (N.mul_comm (x / s) s); apply N.div_mod; lia).
  set (p := N.to_nat (c / m)).
  assert (Hc : c = N.of_nat (p * 2 ^ e)).
  { rewrite Nat2N.inj_mul, <- Hm. unfold p. rewrite N2Nat.id.
    rewrite (N.div_mod c m) at 1 by lia. rewrite Hcm. lia. }
  (* the length of the square: the blob fits *)
  assert (Hn : (N.to_nat i + N.to_nat n <= length sq)%nat).
  { apply (f_equal (@length _)) in Hat. unfold takeN, dropN in Hat. rewrite firstn_length, skipn_length in Hat.
    assert (N.to_nat n = length shares) by (unfold n, lenN; apply Nat2N.id). lia. }
  assert (HS : N.to_nat s = (2 ^ kk)%nat) by (unfold s; apply Nat2N.id).
  pose proof (nat_pow2_pos kk) as HKpos. pose proof (nat_pow2_pos e) as HEpos.
  assert (HM : N.to_nat m = (2 ^ e)%nat) by (rewrite Hm; apply Nat2N.id).
  assert (Hxr : (N.to_nat x = N.to_nat r * 2 ^ kk + N.to_nat c)%nat)
    by (rewrite Hx at 1; rewrite N2Nat.inj_add, N2Nat.inj_mul, HS; reflexivity).
  assert (Hxn : (N.to_nat x = N.to_nat i + N.to_nat o)%nat) by (unfold x; apply N2Nat.inj_add).
  assert (Homn : (N.to_nat o + N.to_nat m <= N.to_nat n)%nat) by (clear - Hom; lia).
  assert (Hfitc : (N.to_nat c + N.to_nat m <= 2 ^ kk)%nat) by (rewrite <- HS; clear - Hfit; lia).
  clear Hrow Hxm Hcm Hi Hfit Hom Hx. clearbody r c x.
  assert (Hrs : (N.to_nat r * 2 ^ kk + 2 ^ kk <= length sq)%nat).
  { rewrite Hsq.
    assert (Hrlt : (N.to_nat r < 2 ^ kk)%nat).
    { destruct (Nat.lt_ge_cases (N.to_nat r) (2 ^ kk)) as [Hlt|Hge]; [exact Hlt|].
      pose proof (Nat.mul_le_mono_r _ _ (2 ^ kk)%nat Hge) as Hmul. rewrite Hsq in Hn. lia. }
    pose proof (Nat.mul_le_mono_r _ _ (2 ^ kk)%nat Hrlt) as Hmul. lia. }
  set (row := takeN s (dropN (r * s) sq)).
  assert (Hrowlen : length row = (2 ^ kk)%nat).
  { unfold row, takeN, dropN. rewrite firstn_length, skipn_length, N2Nat.inj_mul, HS. lia. }
  assert (Hsplit : (2 ^ kk = 2 ^ (kk - e) * 2 ^ e)%nat) by (rewrite <- Nat.pow_add_r; f_equal; lia).
  assert (Hcn : N.to_nat c = (p * 2 ^ e)%nat) by (rewrite Hc at 1; apply Nat2N.id).
  assert (Hfitn : (p * 2 ^ e + 2 ^ e <= 2 ^ kk)%nat) by (rewrite <- Hcn, <- HM; exact Hfitc).
  assert (Hp : (p < 2 ^ (kk - e))%nat).
  { destruct (Nat.lt_ge_cases p (2 ^ (kk - e))) as [Hlt|Hge]; [exact Hlt|].
    pose proof (Nat.mul_le_mono_r _ _ (2 ^ e)%nat Hge) as Hmul. rewrite <- Hsplit in Hmul. lia. }
  rewrite Hc. apply (Hnode row kk e p Hrowlen Hm He Hp).
  (* the shares of the row at that offset are the chunk's shares *)
  unfold row, takeN, dropN. rewrite HS, HM.
  rewrite firstn_skipn_firstn by exact Hfitn. rewrite skipn_skipn_add.
  rewrite <- Hat. unfold takeN, dropN. rewrite firstn_skipn_firstn by lia. rewrite skipn_skipn_add.
  f_equal. f_equal.
  rewrite N2Nat.inj_mul, HS, <- Hcn. lia.
Qed.

(* Consequently the commitment computed from the blob alone is the merkle root function
   applied to the row-tree inner nodes of ANY square holding the blob at an aligned
   index: it does not depend on the position or on the neighbours. *)
Theorem commitment_from_rows mrf b thr cm (sq : list share) kk (i : N) :
  blob_ok b -> 1 <= thr -> create_commitment H mrf b thr = Ok cm ->
  let shares := blob_spec b in
  let n := lenN shares in
  let w := subtree_width n thr in
  let s := N.of_nat (2 ^ kk) in
  length sq = (2 ^ kk * 2 ^ kk)%nat -> i mod w = 0 -> w <= s -> takeN n (dropN i sq) = shares ->
  exists nodes,
    cm = mrf nodes /\ length nodes = length (mmr_sizes n w) /\
    forall j o m, nth_error (offsets 0 (mmr_sizes n w)) j = Some (o, m) ->
    exists node, nth_error nodes j = Some node /\
      inner_node hn er (nmt_leaf_hashes H (row_leaves (takeN s (dropN ((i + o) / s * s) sq))))
                 ((i + o) mod s) m = Some (Ok node).
Proof.
  intros Hok Ht Hcm shares n w s Hsq Hi Hws Hat.
  unfold create_commitment in Hcm. destruct (subtree_roots H b thr) as [roots| |] eqn:Hroots; cbn [bind] in Hcm; try discriminate.
  inversion Hcm; subst cm. exists roots. split; [reflexivity|].
  destruct (subtree_root_is_row_node H b thr roots Hok Ht Hroots) as [Hlen _].
  fold shares n w in Hlen. rewrite offsets_length in Hlen. split; [exact Hlen|].
  intros j o m Hj.
  destruct (subtree_roots_in_square b thr roots sq kk i Hok Ht Hroots Hsq Hi Hws Hat j o m Hj) as (root & Hr & _ & Hnode).
  exists root. split; assumption.
Qed.

End Square.

(* ====================================================================== *)
(* Non-vacuity: concrete instances                                         *)
(* ====================================================================== *)

(* SHA-256 test vectors (FIPS 180-4 / NIST): "abc", "", and the 448-bit message *)
Example sha256_abc : sha256 [Byte.x61; Byte.x62; Byte.x63] = [Byte.xba; Byte.x78; Byte.x16; Byte.xbf; Byte.x8f; Byte.x01; Byte.xcf; Byte.xea; Byte.x41; Byte.x41; Byte.x40; Byte.xde; Byte.x5d; Byte.xae; Byte.x22; Byte.x23; Byte.xb0; Byte.x03; Byte.x61; Byte.xa3; Byte.x96; Byte.x17; Byte.x7a; Byte.x9c; Byte.xb4; Byte.x10; Byte.xff; Byte.x61; Byte.xf2; Byte.x00; Byte.x15; Byte.xad].
Proof. vm_compute. reflexivity. Qed.
Example sha256_empty : sha256 [] = [Byte.xe3; Byte.xb0; Byte.xc4; Byte.x42; Byte.x98; Byte.xfc; Byte.x1c; Byte.x14; Byte.x9a; Byte.xfb; Byte.xf4; Byte.xc8; Byte.x99; Byte.x6f; Byte.xb9; Byte.x24; Byte.x27; Byte.xae; Byte.x41; Byte.xe4; Byte.x64; Byte.x9b; Byte.x93; Byte.x4c; Byte.xa4; Byte.x95; Byte.x99; Byte.x1b; Byte.x78; Byte.x52; Byte.xb8; Byte.x55].
Proof. vm_compute. reflexivity. Qed.
Example sha256_448 : sha256 [Byte.x61; Byte.x62; Byte.x63; Byte.x64; Byte.x62; Byte.x63; Byte.x64; Byte.x65; Byte.x63; Byte.x64; Byte.x65; Byte.x66; Byte.x64; Byte.x65; Byte.x66; Byte.x67; Byte.x65; Byte.x66; Byte.x67; Byte.x68; Byte.x66; Byte.x67; Byte.x68; Byte.x69; Byte.x67; Byte.x68; Byte.x69; Byte.x6a; Byte.x68; Byte.x69; Byte.x6a; Byte.x6b; Byte.x69; Byte.x6a; Byte.x6b; Byte.x6c; Byte.x6a; Byte.x6b; Byte.x6c; Byte.x6d; Byte.x6b; Byte.x6c; Byte.x6d; Byte.x6e; Byte.x6c; Byte.x6d; Byte.x6e; Byte.x6f; Byte.x6d; Byte.x6e; Byte.x6f; Byte.x70; Byte.x6e; Byte.x6f; Byte.x70; Byte.x71] = [Byte.x24; Byte.x8d; Byte.x6a; Byte.x61; Byte.xd2; Byte.x06; Byte.x38; Byte.xb8; Byte.xe5; Byte.xc0; Byte.x26; Byte.x93; Byte.x0c; Byte.x3e; Byte.x60; Byte.x39; Byte.xa3; Byte.x3c; Byte.xe4; Byte.x59; Byte.x64; Byte.xff; Byte.x21; Byte.x67; Byte.xf6; Byte.xec; Byte.xed; Byte.xd4; Byte.x19; Byte.xdb; Byte.x06; Byte.xc1].
Proof. vm_compute. reflexivity. Qed.

(* RFC 6962 reference vectors for the Merkle root over 3 and 8 leaves *)
Definition rfc_leaves : list bytes := [[]; [Byte.x00]; [Byte.x10]; [Byte.x20; Byte.x21]; [Byte.x30; Byte.x31]; [Byte.x40; Byte.x41; Byte.x42; Byte.x43]; [Byte.x50; Byte.x51; Byte.x52; Byte.x53; Byte.x54; Byte.x55; Byte.x56; Byte.x57]; [Byte.x60; Byte.x61; Byte.x62; Byte.x63; Byte.x64; Byte.x65; Byte.x66; Byte.x67; Byte.x68; Byte.x69; Byte.x6a; Byte.x6b; Byte.x6c; Byte.x6d; Byte.x6e; Byte.x6f]].
Example merkle_root_rfc3 : merkle_root sha256 (firstn 3 rfc_leaves) = [Byte.xae; Byte.xb6; Byte.xbc; Byte.xfe; Byte.x27; Byte.x4b; Byte.x70; Byte.xa1; Byte.x4f; Byte.xb0; Byte.x67; Byte.xa5; Byte.xe5; Byte.x57; Byte.x82; Byte.x64; Byte.xdb; Byte.x0f; Byte.xa9; Byte.xb5; Byte.x1a; Byte.xf5; Byte.xe0; Byte.xba; Byte.x15; Byte.x91; Byte.x58; Byte.xf3; Byte.x29; Byte.xe0; Byte.x6e; Byte.x77].
Proof. vm_compute. reflexivity. Qed.
Example merkle_root_rfc8 : merkle_root sha256 rfc_leaves = [Byte.x5d; Byte.xc9; Byte.xda; Byte.x79; Byte.xa7; Byte.x06; Byte.x59; Byte.xa9; Byte.xad; Byte.x55; Byte.x9c; Byte.xb7; Byte.x01; Byte.xde; Byte.xd9; Byte.xa2; Byte.xab; Byte.x9d; Byte.x82; Byte.x3a; Byte.xad; Byte.x2f; Byte.x49; Byte.x60; Byte.xcf; Byte.xe3; Byte.x70; Byte.xef; Byte.xf4; Byte.x60; Byte.x43; Byte.x28].
Proof. vm_compute. reflexivity. Qed.

(* (a) 11 shares, threshold 3: width 4, chunks 4,4,2,1; placed at index 8 of an 8x8 square *)
Example chunks_11_3 : offsets 0 (mmr_sizes 11 (subtree_width 11 3)) = [(0, 4); (4, 4); (8, 2); (10, 1)].
Proof. vm_compute. reflexivity. Qed.
Example chunks_in_row_instance :
  1 <= 3 /\ 8 mod subtree_width 11 3 = 0 /\ pow2 8 /\ subtree_width 11 3 <= 8 /\
  In (8, 2) (offsets 0 (mmr_sizes 11 (subtree_width 11 3))) /\ (8 + 8) / 8 = (8 + 8 + 2 - 1) / 8.
Proof. repeat split; try (vm_compute; congruence). - exists 3. reflexivity. - vm_compute. tauto. Qed.

(* (b) a toy tree whose combine is not associative: the node over leaves 2,3 of 4 *)
Definition toy_f (a b : list nat) : list nat := 0%nat :: a ++ 1%nat :: b.
Example inner_node_toy :
  inner_node toy_f [] [[10]; [11]; [12]; [13]]%nat 2 2 = Some (toy_f [12] [13])%nat /\
  inner_node toy_f [] [[10]; [11]; [12]; [13]]%nat 1 2 = None /\
  mroot toy_f [] [[10]; [11]; [12]; [13]]%nat = mroot toy_f [] (level_nodes toy_f [] [[10]; [11]; [12]; [13]]%nat 2).
Proof. vm_compute. repeat split; reflexivity. Qed.

(* (c) a real blob with the real SHA-256: 1000 bytes (3 shares), threshold 1: width 2,
   chunks 2,1.  A 4x4 square: row 0 is four transaction-namespace shares, the blob sits at
   index 4 (row 1: blob, blob, blob, tail padding), rows 2,3 are tail padding. *)
Definition ex_ns : bytes := repeat Byte.x00 27 ++ [Byte.x01; Byte.x07].
Definition ex_blob : blob := mk_blob ex_ns (repeat Byte.x61 1000) 0 None.
Definition ex_square : list share :=
  repeat (tx_ns ++ zeros 483) 4 ++ blob_spec ex_blob ++ repeat (padding_spec tail_padding_ns 0) 9.

Example ex_blob_ok : blob_ok ex_blob.
Proof.
  unfold blob_ok. repeat split; try reflexivity.
  - discriminate.
  - left. split; reflexivity.
Qed.

Example ex_square_hyps :
  length ex_square = (2 ^ 2 * 2 ^ 2)%nat /\
  4 mod subtree_width (lenN (blob_spec ex_blob)) 1 = 0 /\
  subtree_width (lenN (blob_spec ex_blob)) 1 <= N.of_nat (2 ^ 2) /\
  takeN (lenN (blob_spec ex_blob)) (dropN 4 ex_square) = blob_spec ex_blob /\
  offsets 0 (mmr_sizes (lenN (blob_spec ex_blob)) (subtree_width (lenN (blob_spec ex_blob)) 1)) = [(0, 2); (2, 1)].
Proof. vm_compute. repeat split; try reflexivity; congruence. Qed.

Example ex_square_nodes :
  exists r0 r1, subtree_roots sha256 ex_blob 1 = Ok [r0; r1] /\
  let row1 := row_leaves (takeN 4 (dropN 4 ex_square)) in
  inner_node (hash_node_o sha256) (Ok (nmt_empty_root sha256)) (nmt_leaf_hashes sha256 row1) 0 2 = Some (Ok r0) /\
  inner_node (hash_node_o sha256) (Ok (nmt_empty_root sha256)) (nmt_leaf_hashes sha256 row1) 2 1 = Some (Ok r1) /\
  commitment_sha ex_blob 1 = Ok (merkle_root sha256 [r0; r1]) /\
  is_ok (nmt_root sha256 row1) = true.
Proof.
  eexists. eexists. split; [vm_compute; reflexivity|]. vm_compute. repeat split; reflexivity.
Qed.
