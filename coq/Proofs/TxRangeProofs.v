From Coq Require Import List Arith NArith ZArith Lia Bool.
From Coq Require Import ZifyN ZifyNat ZifyBool.
From GS.Model Require Import Base Varint Namespace ShareFmt Blob Sparse Compact Counter Arith Proto Builder.
From GS.Spec Require Import ShareSpec CompactSpec.
From GS.Proofs Require Import BaseLemmas VarintProofs CounterProofs.
Import ListNotations.
Ltac Zify.zify_post_hook ::= Z.div_mod_to_equations.
Open Scope nat_scope.

Definition sidx (p : nat) : nat := if Nat.ltb p 474 then 0 else 1 + (p - 474) / 478.

Lemma sidx_enc p : enc_shares (Z.of_nat p) = Z.of_nat (sidx p).
Proof.
  unfold enc_shares, sidx.
  destruct (Nat.ltb p 474) eqn:E; destruct (Z.of_nat p <? 474)%Z eqn:E2; lia.
Qed.

Lemma sidx_bounds p : coff (sidx p) <= p < coff (sidx p) + ccap (sidx p).
Proof.
  unfold sidx. destruct (Nat.ltb p 474) eqn:E.
  - unfold coff, ccap. lia.
  - replace (1 + (p - 474) / 478) with (S ((p - 474) / 478)) by lia. unfold coff, ccap. lia.
Qed.

Lemma sidx_unique p j : coff j <= p < coff j + ccap j -> j = sidx p.
Proof.
  intros H. unfold sidx. destruct j as [|k]; unfold coff, ccap in H.
  - destruct (Nat.ltb p 474) eqn:E; lia.
  - destruct (Nat.ltb p 474) eqn:E; lia.
Qed.

Lemma coff_S j : coff (S j) = coff j + ccap j.
Proof. destruct j; unfold coff, ccap; lia. Qed.

Lemma coff_mono i j : i <= j -> coff i <= coff j.
Proof. intros H. destruct i, j; unfold coff; lia. Qed.

Lemma sidx_mono a b : a <= b -> sidx a <= sidx b.
Proof.
  intros H. unfold sidx.
  destruct (Nat.ltb a 474) eqn:E1; destruct (Nat.ltb b 474) eqn:E2; lia.
Qed.

Lemma sidx_coff j : sidx (coff j) = j.
Proof.
  symmetry. apply sidx_unique. destruct j; unfold coff, ccap; lia.
Qed.

(* The shares of a compact sequence that carry at least one byte of the stream interval
   [s, e) are exactly the shares sidx s .. sidx (e - 1) (share j carries the stream bytes
   [coff j, coff j + ccap j)). *)
Theorem share_set_exact s e j : s < e ->
  (exists p, s <= p < e /\ coff j <= p < coff j + ccap j) <-> sidx s <= j < sidx (e - 1) + 1.
Proof.
  intros Hse. split.
  - intros (p & Hp & Hj). apply sidx_unique in Hj. subst j.
    pose proof (sidx_mono s p). pose proof (sidx_mono p (e - 1)). lia.
  - intros Hj. exists (Nat.max s (coff j)).
    pose proof (sidx_bounds s) as Hs. pose proof (sidx_bounds (e - 1)) as He.
    pose proof (coff_mono j (sidx (e - 1))) as H1.
    pose proof (coff_mono (S (sidx s)) (S j)) as H2. rewrite !coff_S in H2.
    assert (0 < ccap j) by (destruct j; unfold ccap; lia).
    lia.
Qed.

(* the number of shares of a stream of L >= 1 bytes is the index of its last byte + 1 *)
Lemma cneeded_sidx L : 1 <= L -> cneeded L = sidx (L - 1) + 1.
Proof.
  intros H. unfold cneeded, sidx.
  destruct (Nat.eqb L 0) eqn:E0; [apply Nat.eqb_eq in E0; lia|].
  destruct (Nat.leb L 474) eqn:E1; destruct (Nat.ltb (L - 1) 474) eqn:E2; lia.
Qed.

Lemma needed_z_cneeded L : needed_z (Z.of_nat L) = Z.of_nat (cneeded L).
Proof.
  unfold needed_z, cneeded.
  destruct (Nat.eqb L 0) eqn:E0; destruct (Z.of_nat L <=? 0)%Z eqn:E1; try lia.
  destruct (Nat.leb L 474) eqn:E2; destruct (Z.of_nat L <? 474)%Z eqn:E3; try lia.
  - assert (L = 474) by lia. subst L. reflexivity.
  - destruct (0 <? (Z.of_nat L - 474) mod 478)%Z eqn:E4; lia.
Qed.

(* a sequence of L bytes fills shares 0 .. cneeded L - 1; the first byte after it would go
   to share sidx L *)
Lemma cneeded_ge_sidx L : sidx L <= cneeded L <= sidx L + 1.
Proof.
  unfold cneeded, sidx.
  destruct (Nat.eqb L 0) eqn:E0; destruct (Nat.leb L 474) eqn:E1; destruct (Nat.ltb L 474) eqn:E2; lia.
Qed.

(* ---- 1. the arithmetic core of FindTxShareRange ---- *)

(* the counter encodes a stream of L bytes *)
Definition cenc (c : counter) (L : nat) : Prop :=
  c_shares c = enc_shares (Z.of_nat L) /\ c_rem c = enc_rem (Z.of_nat L).

Lemma cenc_new : cenc new_counter 0.
Proof. split; reflexivity. Qed.

Lemma length_marshal_delimited t :
  Z.of_nat (length (marshal_delimited t)) =
  (Z.of_N (lenN t) + Z.of_N (delim_len (Z.to_N (Z.of_N (lenN t)))))%Z.
Proof.
  unfold marshal_delimited, delim_len, lenN. rewrite app_length, N2Z.id. lia.
Qed.

Lemma marshal_delimited_pos t : 1 <= length (marshal_delimited t).
Proof.
  unfold marshal_delimited. rewrite app_length. pose proof (put_uvarint_length (lenN t)). lia.
Qed.

Lemma cenc_add c L t : cenc c L ->
  cenc (fst (counter_add c (Z.of_N (lenN t)))) (L + length (marshal_delimited t)).
Proof.
  intros (Hs & Hr).
  destruct (counter_add_enc c (Z.of_nat L) (Z.of_N (lenN t))) as (A & B & _); try lia; try assumption.
  unfold cenc. rewrite Nat2Z.inj_add, length_marshal_delimited. split; assumption.
Qed.

Lemma cenc_size c L : cenc c L -> counter_size c = Z.of_nat (cneeded L).
Proof.
  intros (Hs & Hr). unfold counter_size. rewrite Hs, Hr, <- needed_z_cneeded.
  apply needed_z_enc. lia.
Qed.

Lemma cenc_start c L : cenc c L ->
  (if (counter_remainder c =? 0)%Z then counter_size c else counter_size c - 1)%Z = Z.of_nat (sidx L).
Proof.
  intros (Hs & Hr). unfold counter_size, counter_remainder. rewrite <- sidx_enc, <- Hs.
  destruct (c_rem c =? 0)%Z; lia.
Qed.

(* Part 1: with the counter at stream offset L (the start of a unit), the start share
   chosen by the "remainder == 0" test is the share of byte L, and after adding the unit
   the counter's size is one past the share of the unit's last byte. *)
Theorem counter_range_core c L t : cenc c L ->
  let c' := fst (counter_add c (Z.of_N (lenN t))) in
  let e := L + length (marshal_delimited t) in
  (if (counter_remainder c =? 0)%Z then counter_size c else counter_size c - 1)%Z = Z.of_nat (sidx L) /\
  counter_size c' = Z.of_nat (sidx (e - 1) + 1) /\
  cenc c' e.
Proof.
  intros H. cbn zeta. split; [apply cenc_start; exact H|].
  pose proof (cenc_add c L t H) as H'. split; [|exact H'].
  rewrite (cenc_size _ _ H'). f_equal. apply cneeded_sidx.
  pose proof (marshal_delimited_pos t). lia.
Qed.

(* ---- stream offsets of the units ---- *)
Definition ustart (txs : list bytes) (k : nat) : nat := length (stream (firstn k txs)).
Definition uend (txs : list bytes) (k : nat) : nat := length (stream (firstn (S k) txs)).
(* the shares of unit k of a sequence: [fst, snd) *)
Definition unit_range (txs : list bytes) (k : nat) : nat * nat :=
  (sidx (ustart txs k), sidx (uend txs k - 1) + 1).

Lemma stream_nil : stream [] = [].
Proof. reflexivity. Qed.
Lemma stream_cons t l : stream (t :: l) = marshal_delimited t ++ stream l.
Proof. reflexivity. Qed.
Lemma stream_app a b : stream (a ++ b) = stream a ++ stream b.
Proof. unfold stream, units. rewrite map_app, concat_app. reflexivity. Qed.

Lemma firstn_S_nth_error {A} (l : list A) : forall n x, nth_error l n = Some x ->
  firstn (S n) l = firstn n l ++ [x].
Proof.
  induction l as [|a l IH]; intros [|n] x H; cbn [nth_error] in H; try discriminate.
  - inversion H. subst. rewrite firstn_cons, !firstn_O. reflexivity.
  - rewrite !firstn_cons, (IH n x H). reflexivity.
Qed.

Lemma uend_nth txs k t : nth_error txs k = Some t ->
  uend txs k = ustart txs k + length (marshal_delimited t).
Proof.
  intros H. unfold uend, ustart. rewrite (firstn_S_nth_error _ _ _ H), stream_app, app_length.
  rewrite stream_cons, stream_nil, app_nil_r. reflexivity.
Qed.

(* [ustart] is the k-th entry of the start-offset list of Spec/CompactSpec.v *)
Lemma ustarts_nth : forall txs off k, k < length txs ->
  nth_error (ustarts off (units txs)) k = Some (off + ustart txs k).
Proof.
  induction txs as [|t tl IH]; intros off k Hk; cbn [length] in Hk; [lia|].
  destruct k as [|k].
  - unfold ustart. rewrite firstn_O, stream_nil. cbn. f_equal. lia.
  - cbn [units map ustarts nth_error]. fold (units tl). rewrite IH by lia.
    unfold ustart. rewrite firstn_cons, stream_cons, app_length. f_equal. lia.
Qed.

Lemma nth_error_firstn_lt {A} : forall n (l : list A) i, i < n -> nth_error (firstn n l) i = nth_error l i.
Proof.
  induction n as [|n IH]; intros l i H; [lia|].
  destruct l as [|a l]; [rewrite firstn_nil; reflexivity|].
  rewrite firstn_cons. destruct i as [|i]; [reflexivity|]. cbn [nth_error]. apply IH. lia.
Qed.
Lemma nth_error_skipn_add {A} : forall n (l : list A) i, nth_error (skipn n l) i = nth_error l (n + i).
Proof.
  induction n as [|n IH]; intros l i; [rewrite skipn_O; reflexivity|].
  destruct l as [|a l]; [rewrite skipn_nil; destruct i; reflexivity|].
  rewrite skipn_cons. cbn [Nat.add nth_error]. apply IH.
Qed.

(* byte p of the stream is byte p - coff j of the chunk carried by share j *)
Lemma cchunk_nth j s p : coff j <= p < coff j + ccap j ->
  nth_error (cchunk j s) (p - coff j) = nth_error s p.
Proof.
  intros H. unfold cchunk.
  rewrite nth_error_firstn_lt by lia. rewrite nth_error_skipn_add. f_equal. lia.
Qed.

(* ---- 2. FindTxShareRange ---- *)

(* the wrapped PFBs as written in the square (Export writes exactly these) *)
Definition wrapped (pfbs : list pfb) : list bytes :=
  map (fun p => marshal_index_wrapper (pfb_tx p) (pfb_idx p)) pfbs.

Lemma pfb_size_wrapped p : pfb_size p = Z.of_N (lenN (marshal_index_wrapper (pfb_tx p) (pfb_idx p))).
Proof. reflexivity. Qed.

Lemma count_prefix_enc : forall n txs pfbs txc pfbc A B, cenc txc A -> cenc pfbc B ->
  cenc (fst (count_prefix n txs pfbs txc pfbc)) (A + length (stream (firstn n txs))) /\
  cenc (snd (count_prefix n txs pfbs txc pfbc))
       (B + length (stream (firstn (n - length txs) (wrapped pfbs)))).
Proof.
  induction n as [|n IH]; intros txs pfbs txc pfbc A B HA HB.
  - cbn [count_prefix fst snd Nat.sub]. rewrite !firstn_O, stream_nil. cbn [length].
    rewrite !Nat.add_0_r. split; assumption.
  - cbn [count_prefix]. destruct txs as [|t tl].
    + cbn [length]. rewrite firstn_nil, stream_nil, Nat.sub_0_r. destruct pfbs as [|p ptl].
      * cbn [fst snd wrapped map length]. rewrite firstn_nil, stream_nil. cbn [length].
        rewrite !Nat.add_0_r. split; assumption.
      * rewrite pfb_size_wrapped.
        destruct (IH [] ptl txc _ A _ HA (cenc_add _ _ (marshal_index_wrapper (pfb_tx p) (pfb_idx p)) HB))
          as (H1 & H2).
        rewrite firstn_nil, stream_nil in H1. cbn [length] in H1, H2. rewrite Nat.sub_0_r in H2.
        split; [exact H1|].
        cbn [wrapped map]. fold (wrapped ptl). rewrite firstn_cons, stream_cons, app_length.
        rewrite Nat.add_assoc. exact H2.
    + destruct (IH tl pfbs _ pfbc _ B (cenc_add _ _ t HA) HB) as (H1 & H2).
      cbn [length Nat.sub]. rewrite firstn_cons, stream_cons, app_length, Nat.add_assoc.
      split; assumption.
Qed.

(* what FindTxShareRange does before counting: export unless already exported *)
Definition ensure_done (b : builder) : outcome builder :=
  if bd_done b then Ok b else do r <- export b; Ok (fst r).

(* the exact share range of transaction k of the square described by builder b:
   ordinary transactions in the first compact sequence, wrapped PFBs (with their recorded
   share indexes) in the second one, which starts right after the first *)
Definition builder_tx_range (b : builder) (k : nat) : nat * nat :=
  if Nat.ltb k (length (bd_txs b)) then unit_range (bd_txs b) k
  else
    let off := cneeded (length (stream (bd_txs b))) in
    let r := unit_range (wrapped (bd_pfbs b)) (k - length (bd_txs b)) in
    (off + fst r, off + snd r).

Definition zpair (r : nat * nat) : Z * Z := (Z.of_nat (fst r), Z.of_nat (snd r)).

Lemma nth_error_Some_lt {A} (l : list A) n : n < length l -> exists x, nth_error l n = Some x.
Proof.
  intros H. destruct (nth_error l n) eqn:E; [eexists; reflexivity|].
  apply nth_error_None in E. lia.
Qed.

(* Part 2: a complete functional description of FindTxShareRange: errors exactly for
   indexes outside [0, #txs + #pfbs), otherwise the exact range; a Fault can only come
   from Export. *)
Theorem find_tx_share_range_eq b ti :
  find_tx_share_range b ti =
  do b1 <- ensure_done b;
  if ((ti <? 0) || (Z.of_nat (length (bd_txs b1) + length (bd_pfbs b1)) <=? ti))%Z then Err
  else Ok (b1, zpair (builder_tx_range b1 (Z.to_nat ti))).
Proof.
  unfold find_tx_share_range. fold (ensure_done b).
  destruct (ensure_done b) as [b1| |]; cbn [bind]; try reflexivity.
  destruct (ti <? 0)%Z eqn:E0; cbn [orb]; [reflexivity|].
  unfold lenN. rewrite <- Nat2N.inj_add, nat_N_Z.
  destruct (Z.of_nat (length (bd_txs b1) + length (bd_pfbs b1)) <=? ti)%Z eqn:E1; [reflexivity|].
  pose proof (count_prefix_enc (Z.to_nat ti) (bd_txs b1) (bd_pfbs b1) _ _ 0 0 cenc_new cenc_new) as HC.
  destruct (count_prefix _ _ _ _ _) as [txc pfbc]. cbn [fst snd Nat.add] in HC.
  destruct HC as (Htx & Hpf). rewrite nat_N_Z, Nat2N.id.
  unfold builder_tx_range, zpair.
  destruct (ti <? Z.of_nat (length (bd_txs b1)))%Z eqn:E2.
  - replace (Nat.ltb (Z.to_nat ti) (length (bd_txs b1))) with true by lia.
    destruct (nth_error_Some_lt (bd_txs b1) (Z.to_nat ti)) as (t & Ht); [lia|]. rewrite Ht.
    replace (Z.to_nat ti - length (bd_txs b1)) with 0 in Hpf by lia.
    rewrite firstn_O, stream_nil in Hpf.
    pose proof (cenc_size _ _ Hpf) as Sp. change (cneeded (length (@nil byte))) with 0 in Sp.
    destruct (counter_range_core txc _ t Htx) as (R1 & R2 & _).
    fold (ustart (bd_txs b1) (Z.to_nat ti)) in R1, R2. rewrite <- (uend_nth _ _ _ Ht) in R2.
    unfold lenN in R2. unfold unit_range. cbn [fst snd]. rewrite <- R1, R2, Sp. f_equal. f_equal. f_equal.
    + destruct (counter_remainder txc =? 0)%Z; lia.
    + lia.
  - replace (Nat.ltb (Z.to_nat ti) (length (bd_txs b1))) with false by lia.
    destruct (nth_error_Some_lt (bd_pfbs b1) (Z.to_nat ti - length (bd_txs b1))) as (p & Hp); [lia|].
    rewrite Hp.
    rewrite firstn_all2 in Htx by lia.
    pose proof (cenc_size _ _ Htx) as St.
    assert (Hw : nth_error (wrapped (bd_pfbs b1)) (Z.to_nat ti - length (bd_txs b1))
                 = Some (marshal_index_wrapper (pfb_tx p) (pfb_idx p)))
      by (unfold wrapped; exact (map_nth_error (fun p => marshal_index_wrapper (pfb_tx p) (pfb_idx p)) _ _ Hp)).
    rewrite pfb_size_wrapped.
    destruct (counter_range_core pfbc _ (marshal_index_wrapper (pfb_tx p) (pfb_idx p)) Hpf) as (R1 & R2 & _).
    fold (ustart (wrapped (bd_pfbs b1)) (Z.to_nat ti - length (bd_txs b1))) in R1, R2.
    rewrite <- (uend_nth _ _ _ Hw) in R2.
    unfold unit_range. cbn [fst snd]. rewrite !Nat2Z.inj_add, <- R1, R2, St. f_equal. f_equal. f_equal.
    + destruct (counter_remainder pfbc =? 0)%Z; lia.
    + lia.
Qed.

Corollary find_tx_share_range_done b ti : bd_done b = true ->
  (0 <= ti < Z.of_nat (length (bd_txs b) + length (bd_pfbs b)))%Z ->
  find_tx_share_range b ti = Ok (b, zpair (builder_tx_range b (Z.to_nat ti))).
Proof.
  intros Hd Hti. rewrite find_tx_share_range_eq. unfold ensure_done. rewrite Hd. cbn [bind].
  replace (ti <? 0)%Z with false by lia.
  replace (Z.of_nat (length (bd_txs b) + length (bd_pfbs b)) <=? ti)%Z with false by lia.
  reflexivity.
Qed.

(* ordinary transactions *)
Corollary find_tx_share_range_tx b ti : bd_done b = true ->
  (0 <= ti < Z.of_nat (length (bd_txs b)))%Z ->
  let k := Z.to_nat ti in
  find_tx_share_range b ti =
  Ok (b, (Z.of_nat (sidx (ustart (bd_txs b) k)), Z.of_nat (sidx (uend (bd_txs b) k - 1) + 1))).
Proof.
  intros Hd Hti. cbn zeta. rewrite find_tx_share_range_done by (try assumption; lia).
  unfold builder_tx_range. replace (Nat.ltb (Z.to_nat ti) (length (bd_txs b))) with true by lia.
  reflexivity.
Qed.

(* wrapped PFBs: the same over the second sequence, shifted by the length of the first *)
Corollary find_tx_share_range_pfb b ti : bd_done b = true ->
  (Z.of_nat (length (bd_txs b)) <= ti < Z.of_nat (length (bd_txs b) + length (bd_pfbs b)))%Z ->
  let k := Z.to_nat ti - length (bd_txs b) in
  let off := cneeded (length (stream (bd_txs b))) in
  let w := wrapped (bd_pfbs b) in
  find_tx_share_range b ti =
  Ok (b, (Z.of_nat (off + sidx (ustart w k)), Z.of_nat (off + (sidx (uend w k - 1) + 1)))).
Proof.
  intros Hd Hti. cbn zeta. rewrite find_tx_share_range_done by (try assumption; lia).
  unfold builder_tx_range. replace (Nat.ltb (Z.to_nat ti) (length (bd_txs b))) with false by lia.
  reflexivity.
Qed.

Corollary find_tx_share_range_err b ti : bd_done b = true ->
  (ti < 0 \/ Z.of_nat (length (bd_txs b) + length (bd_pfbs b)) <= ti)%Z ->
  find_tx_share_range b ti = Err.
Proof.
  intros Hd Hti. rewrite find_tx_share_range_eq. unfold ensure_done. rewrite Hd. cbn [bind].
  destruct (ti <? 0)%Z eqn:E; [reflexivity|]. cbn [orb].
  replace (Z.of_nat (length (bd_txs b) + length (bd_pfbs b)) <=? ti)%Z with true by lia.
  reflexivity.
Qed.

Corollary find_tx_share_range_no_fault b ti :
  find_tx_share_range b ti = Fault -> bd_done b = false /\ export b = Fault.
Proof.
  rewrite find_tx_share_range_eq. unfold ensure_done. destruct (bd_done b).
  - cbn [bind]. destruct (_ || _)%bool; discriminate.
  - destruct (export b) as [r| |]; cbn [bind]; try discriminate; [|auto].
    destruct (_ || _)%bool; discriminate.
Qed.

(* square.TxShareRange: the builder is constructed, exported (b1 is the exported state:
   same transactions, PFBs with the recorded share indexes) and queried *)
Theorem tx_share_range_eq txs ti max thr :
  tx_share_range txs ti max thr =
  do b <- new_builder_txs max thr txs;
  do b1 <- ensure_done b;
  if ((ti <? 0) || (Z.of_nat (length (bd_txs b1) + length (bd_pfbs b1)) <=? ti))%Z then Err
  else Ok (zpair (builder_tx_range b1 (Z.to_nat ti))).
Proof.
  unfold tx_share_range. destruct (new_builder_txs max thr txs) as [b| |]; cbn [bind]; try reflexivity.
  rewrite find_tx_share_range_eq. destruct (ensure_done b) as [b1| |]; cbn [bind]; try reflexivity.
  destruct (_ || _)%bool; reflexivity.
Qed.

(* what the exported state is: Export keeps the transactions, and the PFB sequence of the
   square is written from exactly the wrapped PFBs of the exported state *)
Lemma export_written b b1 sq : export b = Ok (b1, sq) -> builder_is_empty b = false ->
  bd_txs b1 = bd_txs b /\ bd_done b1 = true /\
  exists txw0 txw pfbw0 pfbw blob_shares nrs,
    new_csplitter tx_ns 0 = Ok txw0 /\ write_txs txw0 (bd_txs b1) = Ok txw /\
    new_csplitter pfb_ns 0 = Ok pfbw0 /\ write_txs pfbw0 (wrapped (bd_pfbs b1)) = Ok pfbw /\
    write_square txw pfbw blob_shares nrs (blob_min_square_size (Z.to_N (bd_cur b))) = Ok sq.
Proof.
  intros E He. unfold export in E. rewrite He in E.
  destruct (new_csplitter tx_ns 0) as [txw0| |]; cbn [bind] in E; try discriminate.
  destruct (write_txs txw0 (bd_txs b)) as [txw| |] eqn:Et; cbn [bind] in E; try discriminate.
  destruct (export_blobs _ _ _ _) as [st| |]; cbn [bind] in E; try discriminate.
  destruct (new_csplitter pfb_ns 0) as [pfbw0| |]; cbn [bind] in E; try discriminate.
  destruct (write_txs pfbw0 _) as [pfbw| |] eqn:Ep; cbn [bind] in E; try discriminate.
  destruct (_ <? _)%Z; [discriminate|].
  destruct (write_square _ _ _ _ _) as [sq0| |] eqn:Ew; cbn [bind] in E; try discriminate.
  inversion E; subst. cbn [bd_txs bd_done bd_pfbs]. split; [reflexivity|]. split; [reflexivity|].
  exists txw0, txw, pfbw0, pfbw, (bl_shares st), (bl_nrs st). repeat split; try assumption; reflexivity.
Qed.
