package main

// `harness srchash <repo dir>`: one line per function of the repository's non-test, non-generated Go
// files - "<file>:<receiver.>name <sha256 of its comment-free, gofmt-normalised source>".  bin/check
// compares the lines with /verif/srcmap.json (taken on the pinned tree) and reports in the evidence
// which modelled functions have changed since the model was written: it does not decide anything, it
// tells the reader of a broken correspondence where to look.

import (
	"bytes"
	"crypto/sha256"
	"fmt"
	"go/ast"
	"go/parser"
	"go/printer"
	"go/token"
	"os"
	"path/filepath"
	"sort"
	"strings"
)

func init() {
	extraCommands["srchash"] = func(args []string) int {
		if len(args) < 1 {
			return 2
		}
		root := args[0]
		var lines []string
		for _, dir := range []string{".", "share", "inclusion", "tx"} {
			ents, err := os.ReadDir(filepath.Join(root, dir))
			if err != nil {
				continue
			}
			for _, e := range ents {
				n := e.Name()
				if e.IsDir() || !strings.HasSuffix(n, ".go") || strings.HasSuffix(n, "_test.go") || strings.HasSuffix(n, "_verif.go") || strings.HasSuffix(n, ".pb.go") {
					continue
				}
				fset := token.NewFileSet()
				f, err := parser.ParseFile(fset, filepath.Join(root, dir, n), nil, 0)
				if err != nil {
					lines = append(lines, fmt.Sprintf("%s:<parse error> -", filepath.Join(dir, n)))
					continue
				}
				for _, d := range f.Decls {
					fd, ok := d.(*ast.FuncDecl)
					if !ok {
						continue
					}
					name := fd.Name.Name
					if fd.Recv != nil && len(fd.Recv.List) > 0 {
						var rb bytes.Buffer
						printer.Fprint(&rb, fset, fd.Recv.List[0].Type)
						name = strings.TrimPrefix(rb.String(), "*") + "." + name
					}
					fd.Doc = nil
					var b bytes.Buffer
					printer.Fprint(&b, fset, fd)
					lines = append(lines, fmt.Sprintf("%s:%s %x", filepath.ToSlash(filepath.Join(dir, n)), name, sha256.Sum256(b.Bytes())))
				}
			}
		}
		sort.Strings(lines)
		fmt.Println(strings.Join(lines, "\n"))
		return 0
	}
}
