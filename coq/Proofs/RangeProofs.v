(* C20 (first half): namespace range lookup on namespace-ordered share lists. *)
From Coq Require Import List Arith NArith ZArith Lia Bool Sorted.
From Coq Require Import ZifyN ZifyNat ZifyBool.
From GS.Model Require Import Base Varint Namespace ShareFmt Blob Sparse Compact Counter Arith Proto Builder Square.
From GS.Proofs Require Import BaseLemmas NamespaceProofs.
Import ListNotations.
Open Scope N_scope.

Definition ns_below (ns : namespace) (s : share) : Prop := lex_lt (sh_ns s) ns.
Definition ns_is (ns : namespace) (s : share) : Prop := sh_ns s = ns.
Definition ns_above (ns : namespace) (s : share) : Prop := lex_lt ns (sh_ns s).

Lemma lex_lt_irrefl a : ~ lex_lt a a.
Proof. intros H. apply bytes_cmp_lt_lex in H. rewrite bytes_cmp_refl in H. discriminate. Qed.

Lemma ns_gt_iff a b : ns_gt a b = true <-> lex_lt b a.
Proof. apply (ns_predicates a b). Qed.
Lemma ns_lt_iff a b : ns_lt a b = true <-> lex_lt a b.
Proof. apply (ns_predicates a b). Qed.
Lemma ns_equals_iff a b : ns_equals a b = true <-> a = b.
Proof. apply (ns_predicates a b). Qed.

Lemma scan_not_equal ns : forall pre rest i, Forall (fun s => sh_ns s <> ns) pre ->
  range_scan (pre ++ rest) ns i None = range_scan rest ns (i + lenN pre) None.
Proof.
  induction pre as [|s pre IH]; intros rest i H.
  - cbn [app]. rewrite lenN_nil, N.add_0_r. reflexivity.
  - apply Forall_cons_iff in H as [Hs H]. cbn [app range_scan].
    replace (ns_equals ns (sh_ns s)) with false
      by (symmetry; apply not_true_is_false; intros E; apply ns_equals_iff in E; congruence).
    rewrite IH by assumption. rewrite lenN_cons. f_equal. lia.
Qed.

Lemma scan_run ns st : forall run rest i, Forall (ns_is ns) run ->
  range_scan (run ++ rest) ns i (Some st) = range_scan rest ns (i + lenN run) (Some st).
Proof.
  induction run as [|s run IH]; intros rest i H.
  - cbn [app]. rewrite lenN_nil, N.add_0_r. reflexivity.
  - apply Forall_cons_iff in H as [Hs H]. cbn [app range_scan]. unfold ns_is in Hs. rewrite Hs.
    replace (ns_gt ns ns) with false
      by (symmetry; apply not_true_is_false; intros E; apply ns_gt_iff in E; exact (lex_lt_irrefl _ E)).
    rewrite IH by assumption. rewrite lenN_cons. f_equal. lia.
Qed.

Lemma scan_post ns st i post : Forall (ns_above ns) post ->
  range_scan post ns i (Some st) = (st, i).
Proof.
  intros H. destruct post as [|p post]; [reflexivity|]. apply Forall_cons_iff in H as [Hp H].
  cbn [range_scan]. replace (ns_gt (sh_ns p) ns) with true by (symmetry; apply ns_gt_iff; assumption).
  reflexivity.
Qed.

(* The lookup on pre ++ run ++ post (shares below, carrying, above the namespace):
   exactly the run, or the empty range when the run is empty. *)
Theorem range_lookup ns pre run post :
  Forall (ns_below ns) pre -> Forall (ns_is ns) run -> Forall (ns_above ns) post ->
  get_share_range_for_namespace (pre ++ run ++ post) ns =
  match run with [] => (0, 0) | _ => (lenN pre, lenN pre + lenN run) end.
Proof.
  intros Hpre Hrun Hpost.
  assert (Hpre_ne : Forall (fun s => sh_ns s <> ns) pre).
  { eapply Forall_impl; [|exact Hpre]. intros s H E. unfold ns_below in H. rewrite E in H. exact (lex_lt_irrefl _ H). }
  assert (Hpost_ne : Forall (fun s => sh_ns s <> ns) post).
  { eapply Forall_impl; [|exact Hpost]. intros s H E. unfold ns_above in H. rewrite E in H. exact (lex_lt_irrefl _ H). }
  unfold get_share_range_for_namespace.
  destruct (pre ++ run ++ post) as [|first rest] eqn:Eall; [destruct run; [reflexivity|destruct pre; discriminate]|].
  rewrite <- Eall.
  destruct run as [|r run].
  - (* absent: whatever the guards say, the answer is the empty range *)
    destruct (ns_lt ns (sh_ns first)); [reflexivity|].
    destruct (ns_gt ns (sh_ns (last (pre ++ [] ++ post) []))); [reflexivity|].
    cbn [app]. rewrite scan_not_equal by exact Hpre_ne.
    rewrite <- (app_nil_r post). rewrite scan_not_equal by exact Hpost_ne. reflexivity.
  - (* present: the guards do not fire *)
    pose proof Hrun as Hrun0. apply Forall_cons_iff in Hrun0 as [H1 Hrun']. unfold ns_is in H1.
    assert (Hfirst : ns_lt ns (sh_ns first) = false).
    { apply not_true_is_false. intros E. apply ns_lt_iff in E.
      destruct pre as [|p pre]; cbn [app] in Eall; injection Eall as Ef _; rewrite <- Ef in E.
      - rewrite H1 in E. exact (lex_lt_irrefl _ E).
      - apply Forall_cons_iff in Hpre as [H3 _]. unfold ns_below in H3. exact (lex_lt_irrefl _ (lex_lt_trans _ _ _ E H3)). }
    assert (Hlast : ns_gt ns (sh_ns (last (pre ++ (r :: run) ++ post) [])) = false).
    { apply not_true_is_false. intros E. apply ns_gt_iff in E.
      destruct (exists_last (l := pre ++ (r :: run) ++ post)) as (l' & x & El); [destruct pre; discriminate|].
      rewrite El, last_last in E.
      assert (Hin : In x (pre ++ (r :: run) ++ post)) by (rewrite El; apply in_or_app; right; left; reflexivity).
      (* the last element cannot be in pre unless run and post are empty - but run is not *)
      destruct post as [|p post'] eqn:Ep.
      - rewrite app_nil_r in El.
        assert (Hx : In x (r :: run)).
        { destruct (exists_last (l := r :: run)) as (l2 & y & E2); [discriminate|].
          rewrite E2, app_assoc in El. apply app_inj_tail in El. destruct El as [_ ->]. rewrite E2. apply in_or_app. right. left. reflexivity. }
        rewrite Forall_forall in Hrun. specialize (Hrun x Hx). unfold ns_is in Hrun. rewrite Hrun in E. exact (lex_lt_irrefl _ E).
      - assert (Hx : In x (p :: post')).
        { destruct (exists_last (l := p :: post')) as (l2 & y & E2); [discriminate|].
          rewrite E2, !app_assoc in El. apply app_inj_tail in El. destruct El as [_ ->]. rewrite E2. apply in_or_app. right. left. reflexivity. }
        rewrite Forall_forall in Hpost. specialize (Hpost x Hx). unfold ns_above in Hpost.
        exact (lex_lt_irrefl _ (lex_lt_trans _ _ _ E Hpost)). }
    rewrite Hfirst, Hlast.
    rewrite scan_not_equal by exact Hpre_ne. cbn [app range_scan].
    rewrite H1. replace (ns_equals ns ns) with true by (symmetry; apply ns_equals_iff; reflexivity).
    rewrite scan_run by exact Hrun'. rewrite scan_post by exact Hpost.
    rewrite lenN_cons. f_equal. lia.
Qed.

(* every namespace-ordered list decomposes that way *)
Definition ns_ordered (shs : list share) : Prop :=
  StronglySorted (fun a b => bytes_cmp (sh_ns a) (sh_ns b) <> Gt) shs.

Lemma cmp_not_gt a b : bytes_cmp a b <> Gt <-> (lex_lt a b \/ a = b).
Proof.
  destruct (bytes_cmp a b) eqn:E.
  - apply bytes_cmp_eq in E. split; [intros _; right; exact E|discriminate].
  - apply bytes_cmp_lt_lex in E. split; [intros _; left; exact E|discriminate].
  - split; [congruence|]. intros [H|H].
    + apply bytes_cmp_lt_lex in H. congruence.
    + subst. rewrite bytes_cmp_refl in E. discriminate.
Qed.

Lemma ordered_decompose ns : forall shs, ns_ordered shs ->
  exists pre run post, shs = pre ++ run ++ post /\
    Forall (ns_below ns) pre /\ Forall (ns_is ns) run /\ Forall (ns_above ns) post.
Proof.
  induction shs as [|x l IH]; intros Hs.
  - exists [], [], []. repeat split; constructor.
  - apply StronglySorted_inv in Hs as [H1 H2]. destruct (IH H1) as (pre & run & post & El & Hpre & Hrun & Hpost).
    rewrite Forall_forall in H2.
    destruct (bytes_cmp_total (sh_ns x) ns) as [Hlt|[Heq|Hgt]].
    + exists (x :: pre), run, post. subst l. repeat split; try assumption.
      constructor; [apply bytes_cmp_lt_lex; exact Hlt|exact Hpre].
    + (* x carries ns: nothing after it is below *)
      assert (pre = []).
      { destruct pre as [|p pre]; [reflexivity|exfalso]. apply Forall_cons_iff in Hpre as [H3 _]. unfold ns_below in H3.
        subst l.
        specialize (H2 p ltac:(left; reflexivity)). apply cmp_not_gt in H2. rewrite Heq in H2.
        destruct H2 as [H2|H2]; [exact (lex_lt_irrefl _ (lex_lt_trans _ _ _ H2 H3))|rewrite H2 in H3; exact (lex_lt_irrefl _ H3)]. }
      subst pre. exists [], (x :: run), post. subst l. repeat split; try assumption; constructor; assumption.
    + (* x is above ns: so is everything after it *)
      apply bytes_cmp_lt_lex in Hgt.
      exists [], [], (x :: l). repeat split; try constructor; [exact Hgt|].
      apply Forall_forall. intros y Hy. specialize (H2 y Hy). apply cmp_not_gt in H2. unfold ns_above.
      destruct H2 as [H2|H2]; [exact (lex_lt_trans _ _ _ Hgt H2)|rewrite <- H2; exact Hgt].
Qed.

(* C20: on any namespace-ordered share list the lookup returns exactly the
   contiguous run of shares carrying the namespace, or the empty range *)
Theorem range_lookup_ordered shs ns : ns_ordered shs ->
  exists pre run post, shs = pre ++ run ++ post /\
    Forall (ns_below ns) pre /\ Forall (ns_is ns) run /\ Forall (ns_above ns) post /\
    get_share_range_for_namespace shs ns =
      match run with [] => (0, 0) | _ => (lenN pre, lenN pre + lenN run) end.
Proof.
  intros Hs. destruct (ordered_decompose ns shs Hs) as (pre & run & post & -> & Hpre & Hrun & Hpost).
  exists pre, run, post. repeat split; try assumption. apply range_lookup; assumption.
Qed.
