(* The regenerated GoLiteL bodies (Gen/Generated.v, gen_program_l) of the three integer functions of
   go-square that use slices compute the hand-written model functions:
     inclusion.MerkleMountainRangeSizes              = Arith.mmr_sizes
     inclusion.BlobSharesUsedNonInteractiveDefaults  = Arith.blob_shares_used
     square.worstCaseShareIndexes                    = Builder.worst_case_share_indexes
   on explicit argument ranges.  Statements are re-exported in GenProofs/C15_genl.v. *)
From Coq Require Import Lia ZArith NArith List String ZifyN ZifyNat ZifyBool.
From GS.Model Require Import Base Varint Arith Builder GoLite GoLiteL.
From GS.Proofs Require Import GoLiteLemmas ArithProofs.
From GS.Gen Require Import Generated.
From GS.GenProofs Require Import GenLink GenArithProofs GenLinkL.
Open Scope string_scope.
Open Scope list_scope.
Open Scope Z_scope.

#[local] Ltac Zify.zify_post_hook ::= idtac.

(* ---------- GoLiteL: unfolding lemmas ---------- *)

Lemma callfl_S ext sp p n f targ args d : find_lfun p f = Some d ->
  callfl ext sp p (S n) f targ args =
  match lexec (callfl ext sp p n) targ (S n) (lbody d) (lbind_params (lparams d) args) with
  | LRet vs _ => Val vs
  | LNormal _ => Val []
  | LFlt => Flt
  | LFuel => Fuel
  end.
Proof. intros H. cbn [callfl]. rewrite H. reflexivity. Qed.

Lemma callfl_scalar ext sp p fuel f targ args : find_lfun p f = None ->
  callfl ext sp p fuel f targ args = scalar_call ext sp fuel f targ args.
Proof. intros H. destruct fuel; cbn [callfl]; rewrite H; reflexivity. Qed.

Lemma lexec_seq call tp lf s1 s2 en :
  lexec call tp lf (LSSeq s1 s2) en =
  match lexec call tp lf s1 en with LNormal en' => lexec call tp lf s2 en' | r => r end.
Proof. reflexivity. Qed.

Lemma lexec_seq_normal call tp lf s1 s2 en en1 : lexec call tp lf s1 en = LNormal en1 ->
  lexec call tp lf (LSSeq s1 s2) en = lexec call tp lf s2 en1.
Proof. intros H. rewrite lexec_seq, H. reflexivity. Qed.

Definition lfor_loop (call : lcaller) (tp : ity) (lf : nat) (c : lexpr) (body : lstmt) :=
  fix loop (n : nat) (en : lenv) : lsres :=
    match n with
    | O => LFuel
    | S n' =>
      match levalz call tp en c with
      | Val v =>
        if v =? 0 then LNormal en else
        match lexec call tp lf body en with
        | LNormal en' => loop n' en'
        | r => r
        end
      | Flt => LFlt | Fuel => LFuel
      end
    end.

Lemma lexec_for call tp lf c body en :
  lexec call tp lf (LSFor c body) en = lfor_loop call tp lf c body lf en.
Proof. reflexivity. Qed.

Lemma lfor_loop_S call tp lf c body n en :
  lfor_loop call tp lf c body (S n) en =
  match levalz call tp en c with
  | Val v =>
    if v =? 0 then LNormal en else
    match lexec call tp lf body en with
    | LNormal en' => lfor_loop call tp lf c body n en'
    | r => r
    end
  | Flt => LFlt | Fuel => LFuel
  end.
Proof. reflexivity. Qed.

Definition lrange_loop (call : lcaller) (tp : ity) (lf : nat) (k v : string) (body : lstmt) :=
  fix go (l : list Z) (i : Z) (en : lenv) : lsres :=
    match l with
    | [] => LNormal en
    | a :: tl =>
      match lexec call tp lf body (lupdate (lupdate en k (VZ i)) v (VZ a)) with
      | LNormal en' => go tl (i + 1) en'
      | r => r
      end
    end.

Lemma lexec_range call tp lf k v xs body en l : llookup en xs = VL l ->
  lexec call tp lf (LSRange k v xs body) en = lrange_loop call tp lf k v body l 0 en.
Proof. intros H. cbn [lexec]. rewrite H. reflexivity. Qed.

Ltac lit :=
  change (0 =? 0) with true; change (1 =? 0) with false; cbv iota.

(* use the known lookups of the current environment, and compute on *)
Ltac look :=
  cbn;
  repeat (match goal with
          | H : llookup ?e ?x = _ |- context[llookup ?e ?x] => rewrite H
          end; cbn).

(* ---------- MerkleMountainRangeSizes ---------- *)

Definition mmr_cond : lexpr := LCmp CNe (LVar "totalSize") (LConst 0).
Definition mmr_big : lstmt :=
  LSSeq (LSAppend "treeSizes" (LVar "maxTreeSize"))
        (LSAssign "totalSize" (LBin U64 OSub (LVar "totalSize") (LVar "maxTreeSize"))).
Definition mmr_small : lstmt :=
  LSSeq (LSCall ["treeSize"; "err"] "inclusion.RoundDownPowerOfTwo" U64 [LVar "totalSize"])
  (LSSeq (LSIf (LCmp CNe (LVar "err") (LConst 0)) (LSReturn [LVar "treeSizes"; LVar "err"]) LSSkip)
  (LSSeq (LSAppend "treeSizes" (LVar "treeSize"))
         (LSAssign "totalSize" (LBin U64 OSub (LVar "totalSize") (LVar "treeSize"))))).
Definition mmr_body : lstmt :=
  LSIf (LCmp CGe (LVar "totalSize") (LVar "maxTreeSize")) mmr_big
       (LSIf (LCmp CLt (LVar "totalSize") (LVar "maxTreeSize")) mmr_small LSSkip).
Definition mmr_ret : lstmt := LSReturn [LVar "treeSizes"; LConst 0].

(* this is what ties the proof to the generated code *)
Lemma mmr_fundef :
  fl_inclusion_MerkleMountainRangeSizes =
  {| lparams := ["totalSize"; "maxTreeSize"];
     lbody := LSSeq (LSAssign "treeSizes" LNil) (LSSeq (LSFor mmr_cond mmr_body) mmr_ret) |}.
Proof. reflexivity. Qed.

(* the state of the loop *)
Definition mmr_state (en : lenv) (t m : Z) (acc : list Z) : Prop :=
  llookup en "totalSize" = VZ t /\ llookup en "maxTreeSize" = VZ m /\ llookup en "treeSizes" = VL acc.

Lemma mmr_cond_eval call tp en t m acc : mmr_state en t m acc ->
  levalz call tp en mmr_cond = Val (b2z (negb (t =? 0))).
Proof. intros (H1 & _ & _). unfold levalz, mmr_cond. cbn. rewrite H1. reflexivity. Qed.

Lemma mmr_step_big call tp lf en t m acc : mmr_state en t m acc ->
  0 <= m <= t -> t < 2 ^ 64 ->
  exists en', lexec call tp lf mmr_body en = LNormal en' /\ mmr_state en' (t - m) m (acc ++ [m]).
Proof.
  intros (H1 & H2 & H3) Hm Ht. change (2 ^ 64) with 18446744073709551616 in Ht.
  unfold mmr_body. cbn [lexec]. unfold levalz. look. unfold eval_cmp.
  replace (m <=? t) with true by lia. cbn [b2z]. lit.
  unfold mmr_big. look.
  rewrite wrap_U64_small by lia.
  eexists. split; [reflexivity|]. unfold mmr_state. look. auto.
Qed.

(* the value RoundDownPowerOfTwo[uint64] must return in the second phase *)
Definition rdown_ok (call : lcaller) : Prop :=
  forall x, 0 < x < 2 ^ 62 ->
    call "inclusion.RoundDownPowerOfTwo" U64 [VZ x] = Val [VZ (Z.of_N (2 ^ N.log2 (Z.to_N x))); VZ 0].

Lemma mmr_step_small call tp lf en t m acc : rdown_ok call -> mmr_state en t m acc ->
  0 < t < m -> t < 2 ^ 62 ->
  exists en', lexec call tp lf mmr_body en = LNormal en' /\
    mmr_state en' (t - Z.of_N (2 ^ N.log2 (Z.to_N t))) m (acc ++ [Z.of_N (2 ^ N.log2 (Z.to_N t))]).
Proof.
  intros Hc (H1 & H2 & H3) Hm Ht.
  pose proof (N.log2_spec (Z.to_N t) ltac:(lia)) as [Hlo _].
  set (p := (2 ^ N.log2 (Z.to_N t))%N) in *.
  change (2 ^ 62) with 4611686018427387904 in Ht.
  unfold mmr_body. cbn [lexec]. unfold levalz. look. unfold eval_cmp.
  replace (m <=? t) with false by lia. cbn [b2z]. lit.
  look.
  replace (t <? m) with true by lia. cbn [b2z]. lit.
  unfold mmr_small. look. rewrite (Hc t) by (change (2 ^ 62) with 4611686018427387904; lia).
  fold p. look. unfold eval_cmp. lit. cbn [negb b2z]. lit. look.
  rewrite wrap_U64_small by lia.
  eexists. split; [reflexivity|]. unfold mmr_state. look. auto.
Qed.

Lemma mmr_exit call tp lf n en m acc : mmr_state en 0 m acc ->
  lfor_loop call tp lf mmr_cond mmr_body (S n) en = LNormal en.
Proof. intros H. rewrite lfor_loop_S, (mmr_cond_eval _ _ _ _ _ _ H). reflexivity. Qed.

Lemma mmr_tail_arith T f : (0 < T)%N -> (T < 2 ^ N.of_nat (S f))%N ->
  (2 ^ N.log2 T <= T /\ T - 2 ^ N.log2 T < 2 ^ N.of_nat f)%N.
Proof.
  intros HT Hf. destruct (N.log2_spec T HT) as [Hlo Hhi]. split; [exact Hlo|].
  apply N.log2_lt_pow2 in Hf; [|exact HT].
  assert (Hle : (2 ^ N.log2 T <= 2 ^ N.of_nat f)%N) by (apply N.pow_le_mono_r; lia).
  rewrite N.pow_succ_r' in Hhi. lia.
Qed.

(* second phase: what is left is below maxTreeSize; its binary digits, most significant first *)
Lemma mmr_loop_tail call tp lf m : rdown_ok call ->
  forall f n t acc en, mmr_state en t m acc -> 0 <= t < m -> t < 2 ^ 62 ->
    (Z.to_N t < 2 ^ N.of_nat f)%N -> (f < n)%nat ->
    exists en', lfor_loop call tp lf mmr_cond mmr_body n en = LNormal en' /\
      mmr_state en' 0 m (acc ++ map Z.of_N (mmr_tail f (Z.to_N t))).
Proof.
  intros Hc. induction f as [|f IH]; intros n t acc en Hs Htm Ht Hf Hn; (destruct n as [|n]; [lia|]).
  - assert (t = 0) by (change (2 ^ N.of_nat 0)%N with 1%N in Hf; lia). subst t.
    exists en. split; [apply (mmr_exit _ _ _ _ _ m acc Hs)|]. cbn [mmr_tail map]. rewrite app_nil_r. exact Hs.
  - destruct (Z.eq_dec t 0) as [->|Hne].
    + exists en. split; [apply (mmr_exit _ _ _ _ _ m acc Hs)|]. cbn [mmr_tail map Z.to_N]. rewrite app_nil_r. exact Hs.
    + rewrite lfor_loop_S, (mmr_cond_eval _ _ _ _ _ _ Hs).
      replace (t =? 0) with false by lia. cbn [negb b2z]. lit.
      destruct (mmr_step_small call tp lf en t m acc Hc Hs ltac:(lia) Ht) as (en1 & -> & Hs1).
      destruct (mmr_tail_arith (Z.to_N t) f ltac:(lia) Hf) as [Hlo Hlt].
      set (p := (2 ^ N.log2 (Z.to_N t))%N) in *.
      destruct (IH n (t - Z.of_N p) (acc ++ [Z.of_N p]) en1 Hs1) as (en' & -> & Hs'); try lia.
      exists en'. split; [reflexivity|].
      cbn [mmr_tail]. replace (Z.to_N t =? 0)%N with false by lia.
      fold p. cbn [map]. rewrite <- app_assoc in Hs'. cbn [app] in Hs'.
      replace (Z.to_N (t - Z.of_N p)) with (Z.to_N t - p)%N in Hs' by lia. exact Hs'.
Qed.

(* first phase: maxTreeSize as long as it fits *)
Lemma mmr_loop_head call tp lf m f : rdown_ok call -> 1 <= m -> (Z.to_N m <= 2 ^ N.of_nat f)%N ->
  forall k n t acc en, mmr_state en t m acc -> 0 <= t < 2 ^ 62 -> Z.to_nat (t / m) = k -> (k + f < n)%nat ->
    exists en', lfor_loop call tp lf mmr_cond mmr_body n en = LNormal en' /\
      mmr_state en' 0 m (acc ++ repeat m k ++ map Z.of_N (mmr_tail f (Z.to_N (t mod m)))).
Proof.
  intros Hc Hm Hmf. induction k as [|k IH]; intros n t acc en Hs Ht Hk Hn.
  - assert (Hlt : t < m).
    { destruct (Z.lt_ge_cases t m) as [H|H]; [exact H|].
      assert (1 <= t / m) by (apply Z.div_le_lower_bound; lia). lia. }
    rewrite Z.mod_small by lia. change (repeat m 0) with (@nil Z). cbn [app].
    apply (mmr_loop_tail call tp lf m Hc f n t acc en Hs); try lia.
  - assert (Hge : m <= t).
    { destruct (Z.lt_ge_cases t m) as [H|H]; [|exact H]. rewrite Z.div_small in Hk by lia. discriminate. }
    destruct n as [|n]; [lia|].
    rewrite lfor_loop_S, (mmr_cond_eval _ _ _ _ _ _ Hs).
    replace (t =? 0) with false by lia. cbn [negb b2z]. lit.
    assert (H64 : t < 2 ^ 64) by (change (2 ^ 62) with 4611686018427387904 in Ht; change (2 ^ 64) with 18446744073709551616; lia).
    destruct (mmr_step_big call tp lf en t m acc Hs ltac:(lia) H64) as (en1 & -> & Hs1).
    assert (Hd : (t - m) / m = t / m - 1).
    { replace (t - m) with (t + (-1) * m) by ring. rewrite Z.div_add by lia. ring. }
    assert (Hmod : (t - m) mod m = t mod m).
    { replace (t - m) with (t + (-1) * m) by ring. apply Z.mod_add. lia. }
    destruct (IH n (t - m) (acc ++ [m]) en1 Hs1) as (en' & -> & Hs'); try lia.
    exists en'. split; [reflexivity|].
    rewrite Hmod, <- app_assoc in Hs'. exact Hs'.
Qed.

Lemma map_repeat_N (m : N) k : map Z.of_N (repeat m k) = repeat (Z.of_N m) k.
Proof. induction k as [|k IH]; [reflexivity|]. change (repeat m (S k)) with (m :: repeat m k). cbn [map]. rewrite IH. reflexivity. Qed.

Lemma mmr_sizes_Z t m : 0 <= t -> 1 <= m ->
  map Z.of_N (mmr_sizes (Z.to_N t) (Z.to_N m)) =
  repeat m (Z.to_nat (t / m)) ++ map Z.of_N (mmr_tail (N.to_nat (N.size (Z.to_N m))) (Z.to_N (t mod m))).
Proof.
  intros Ht Hm. unfold mmr_sizes. rewrite map_app, map_repeat_N, Z2N.id by lia.
  rewrite <- Z2N.inj_div, <- Z2N.inj_mod by lia.
  replace (N.to_nat (Z.to_N (t / m))) with (Z.to_nat (t / m)) by lia. reflexivity.
Qed.

(* RoundDownPowerOfTwo of a positive number, as the model's MerkleMountainRangeSizes writes it *)
Lemma round_down_pow2_log2 x : 0 < x -> round_down_pow2 x = Ok (2 ^ N.log2 (Z.to_N x))%N.
Proof.
  intros Hx. destruct (round_down_pow2_spec x) as [_ H]. destruct (H Hx) as (r & -> & [k ->] & Hlo & Hhi).
  f_equal. f_equal. symmetry. apply N.log2_unique; [lia|]. rewrite N.pow_succ_r'. lia.
Qed.

Lemma rdown_ok_gen fuel : (71 <= fuel)%nat -> rdown_ok (callfl gen_ext gen_program gen_program_l fuel).
Proof.
  intros Hf x Hx. rewrite callfl_scalar by reflexivity. unfold scalar_call. cbn [scalars].
  pose proof (gen_rdown_ok fuel U64 x _ Hf (or_intror eq_refl) ltac:(lia) (round_down_pow2_log2 x ltac:(lia))) as H.
  unfold gen_call in H. rewrite H. reflexivity.
Qed.

Lemma size_le_64 m : 0 <= m < 2 ^ 64 -> (N.to_nat (N.size (Z.to_N m)) <= 64)%nat.
Proof.
  intros Hm. assert (H : (N.size (Z.to_N m) <= 64)%N).
  { destruct (N.eq_dec (Z.to_N m) 0) as [->|Hne]; [cbn; lia|].
    rewrite N.size_log2 by exact Hne.
    assert (N.log2 (Z.to_N m) < 64)%N; [|lia].
    apply N.log2_lt_pow2; [lia|]. change (2 ^ 64)%N with (Z.to_N (2 ^ 64)). lia. }
  lia.
Qed.

Lemma gen_mmr_sizes_lemma fuel total max :
  0 <= total < 2 ^ 62 -> 1 <= max < 2 ^ 64 -> (Z.to_nat (total / max) + 80 <= fuel)%nat ->
  gen_call_l fuel "inclusion.MerkleMountainRangeSizes" I64 [VZ total; VZ max] =
  Val [VL (map Z.of_N (mmr_sizes (Z.to_N total) (Z.to_N max))); VZ 0].
Proof.
  intros Ht Hm Hf. destruct fuel as [|fuel]; [lia|]. unfold gen_call_l.
  rewrite (callfl_S _ _ _ _ _ _ _ fl_inclusion_MerkleMountainRangeSizes) by reflexivity.
  rewrite mmr_fundef. cbn [lbody lparams lbind_params].
  rewrite lexec_seq.
  change (lexec (callfl gen_ext gen_program gen_program_l fuel) I64 (S fuel) (LSAssign "treeSizes" LNil)
            [("totalSize", VZ total); ("maxTreeSize", VZ max)])
    with (LNormal (lupdate [("totalSize", VZ total); ("maxTreeSize", VZ max)] "treeSizes" (VL []))).
  cbv iota. rewrite lexec_seq, lexec_for.
  pose proof (size_le_64 max ltac:(lia)) as Hsz.
  destruct (mmr_loop_head (callfl gen_ext gen_program gen_program_l fuel) I64 (S fuel) max
              (N.to_nat (N.size (Z.to_N max))) (rdown_ok_gen fuel ltac:(lia)) ltac:(lia)
              ltac:(rewrite N2Nat.id; apply N.lt_le_incl, N.size_gt)
              (Z.to_nat (total / max)) (S fuel) total []
              (lupdate [("totalSize", VZ total); ("maxTreeSize", VZ max)] "treeSizes" (VL [])))
    as (en' & -> & (_ & _ & H3)); try lia.
  - repeat split.
  - unfold mmr_ret. cbn. rewrite H3. cbn [app]. rewrite <- mmr_sizes_Z by lia. reflexivity.
Qed.

(* maxTreeSize = 0: `totalSize >= 0` always holds, 0 is appended for ever *)
Lemma mmr_zero_diverges call tp lf t : 0 < t < 2 ^ 64 ->
  forall n acc en, mmr_state en t 0 acc -> lfor_loop call tp lf mmr_cond mmr_body n en = LFuel.
Proof.
  intros Ht. induction n as [|n IH]; intros acc en Hs; [reflexivity|].
  rewrite lfor_loop_S, (mmr_cond_eval _ _ _ _ _ _ Hs).
  replace (t =? 0) with false by lia. cbn [negb b2z]. lit.
  destruct (mmr_step_big call tp lf en t 0 acc Hs ltac:(lia) ltac:(lia)) as (en1 & -> & Hs1).
  rewrite Z.sub_0_r in Hs1. apply (IH _ _ Hs1).
Qed.

Lemma gen_mmr_sizes_zero_lemma fuel total : 0 < total < 2 ^ 64 ->
  gen_call_l fuel "inclusion.MerkleMountainRangeSizes" I64 [VZ total; VZ 0] = Fuel.
Proof.
  intros Ht. destruct fuel as [|fuel]; [reflexivity|]. unfold gen_call_l.
  rewrite (callfl_S _ _ _ _ _ _ _ fl_inclusion_MerkleMountainRangeSizes) by reflexivity.
  rewrite mmr_fundef. cbn [lbody lparams lbind_params].
  rewrite lexec_seq.
  change (lexec (callfl gen_ext gen_program gen_program_l fuel) I64 (S fuel) (LSAssign "treeSizes" LNil)
            [("totalSize", VZ total); ("maxTreeSize", VZ 0)])
    with (LNormal (lupdate [("totalSize", VZ total); ("maxTreeSize", VZ 0)] "treeSizes" (VL []))).
  cbv iota. rewrite lexec_seq, lexec_for.
  rewrite (mmr_zero_diverges _ _ _ total Ht _ []); [reflexivity|]. repeat split.
Qed.

(* totalSize = 0: nothing to do, whatever maxTreeSize is (also 0) *)
Lemma gen_mmr_sizes_empty_lemma fuel max : (1 <= fuel)%nat ->
  gen_call_l fuel "inclusion.MerkleMountainRangeSizes" I64 [VZ 0; VZ max] = Val [VL []; VZ 0].
Proof. intros Hf. destruct fuel as [|fuel]; [lia|]. reflexivity. Qed.

(* ---------- lists: stores ---------- *)

Lemma set_nth_app_length (a b : list Z) x v : set_nth (length a) (a ++ x :: b) v = a ++ v :: b.
Proof. induction a as [|y a IH]; [reflexivity|]. cbn [length app set_nth]. rewrite IH. reflexivity. Qed.

Lemma in_range_mid (a b : list Z) x : in_range (Z.of_nat (length a)) (a ++ x :: b) = true.
Proof.
  unfold in_range. rewrite app_length. cbn [length].
  apply andb_true_intro. split; [apply Z.leb_le|apply Z.ltb_lt]; lia.
Qed.

Lemma repeat_snoc_app {A} (x : A) i r : repeat x i ++ x :: r = repeat x (S i) ++ r.
Proof.
  induction i as [|i IH]; [reflexivity|].
  change (repeat x (S (S i))) with (x :: repeat x (S i)). change (repeat x (S i)) with (x :: repeat x i) at 1.
  cbn [app]. rewrite IH. reflexivity.
Qed.

(* ---------- worstCaseShareIndexes ---------- *)

Definition wc_body : lstmt := LSStore "shareIndexes" (LVar "i") (LConv U32 (LVar "worstCaseShareIndex")).

Lemma wc_fundef :
  fl_square_worstCaseShareIndexes =
  {| lparams := ["blobs"];
     lbody :=
       LSSeq (LSAssign "squareSizeUpperBound" (LConst 128))
      (LSSeq (LSAssign "worstCaseShareIndex" (LBin I64 OMul (LVar "squareSizeUpperBound") (LVar "squareSizeUpperBound")))
      (LSSeq (LSMake "shareIndexes" (LVar "blobs"))
      (LSSeq (LSRange "i" "_" "shareIndexes" wc_body)
             (LSReturn [LVar "shareIndexes"])))) |}.
Proof. reflexivity. Qed.

Lemma wc_range call tp lf : forall (l : list Z) (i : nat) en,
  llookup en "shareIndexes" = VL (repeat 16384 i ++ repeat 0 (length l)) ->
  llookup en "worstCaseShareIndex" = VZ 16384 ->
  exists en', lrange_loop call tp lf "i" "_" wc_body l (Z.of_nat i) en = LNormal en' /\
    llookup en' "shareIndexes" = VL (repeat 16384 (i + length l)).
Proof.
  induction l as [|a l IH]; intros i en H1 H2.
  - exists en. split; [reflexivity|]. change (repeat 0 (length (@nil Z))) with (@nil Z) in H1.
    rewrite app_nil_r in H1. cbn [length]. rewrite Nat.add_0_r. exact H1.
  - cbn [lrange_loop]. unfold wc_body at 1. cbn [lexec]. unfold levalz. look.
    rewrite wrap_U32_small by lia. cbn.
    change (repeat 0 (S (length l))) with (0 :: repeat 0 (length l)).
    pose proof (in_range_mid (repeat 16384 i) (repeat 0 (length l)) 0) as Hr.
    pose proof (set_nth_app_length (repeat 16384 i) (repeat 0 (length l)) 0 16384) as Hs.
    rewrite repeat_length in Hr, Hs. rewrite Hr, Nat2Z.id, Hs. cbn.
    replace (Z.of_nat i + 1) with (Z.of_nat (S i)) by lia.
    destruct (IH (S i) (lupdate (lupdate (lupdate en "i" (VZ (Z.of_nat i))) "_" (VZ a)) "shareIndexes"
                          (VL (repeat 16384 i ++ 16384 :: repeat 0 (length l))))) as (en' & -> & H').
    + cbn. rewrite repeat_snoc_app. reflexivity.
    + cbn. exact H2.
    + exists en'. split; [reflexivity|]. rewrite H'. do 2 f_equal. lia.
Qed.

Lemma gen_worst_case_lemma fuel n : (1 <= fuel)%nat -> 0 <= n ->
  gen_call_l fuel "square.worstCaseShareIndexes" I64 [VZ n] =
  Val [VL (map Z.of_N (worst_case_share_indexes (Z.to_nat n)))].
Proof.
  intros Hf Hn. destruct fuel as [|fuel]; [lia|]. unfold gen_call_l.
  rewrite (callfl_S _ _ _ _ _ _ _ fl_square_worstCaseShareIndexes) by reflexivity.
  rewrite wc_fundef. cbn [lbody lparams lbind_params].
  do 2 (erewrite lexec_seq_normal by reflexivity).
  erewrite lexec_seq_normal
    by (cbn [lexec]; unfold levalz; look; replace (n <? 0) with false by lia; reflexivity).
  change (wrap I64 (128 * 128)) with 16384.
  set (en := lupdate _ "shareIndexes" _).
  rewrite lexec_seq.
  rewrite (lexec_range _ _ _ _ _ _ _ en (repeat 0 (Z.to_nat n))) by reflexivity.
  destruct (wc_range (callfl gen_ext gen_program gen_program_l fuel) I64 (S fuel) (repeat 0 (Z.to_nat n)) 0 en)
    as (en' & Hl & H').
  - unfold en. cbn. rewrite repeat_length. reflexivity.
  - reflexivity.
  - change (Z.of_nat 0) with 0 in Hl. rewrite Hl. cbn. rewrite H'. rewrite repeat_length. unfold worst_case_share_indexes.
    rewrite map_repeat_N. reflexivity.
Qed.

(* make([]uint32, blobs) with a negative length panics *)
Lemma gen_worst_case_neg_lemma fuel n : (1 <= fuel)%nat -> n < 0 ->
  gen_call_l fuel "square.worstCaseShareIndexes" I64 [VZ n] = Flt.
Proof.
  intros Hf Hn. destruct fuel as [|fuel]; [lia|]. unfold gen_call_l.
  rewrite (callfl_S _ _ _ _ _ _ _ fl_square_worstCaseShareIndexes) by reflexivity.
  rewrite wc_fundef. cbn [lbody lparams lbind_params].
  do 2 (erewrite lexec_seq_normal by reflexivity).
  rewrite lexec_seq. cbn [lexec]. unfold levalz. look.
  replace (n <? 0) with true by lia. reflexivity.
Qed.

(* ---------- BlobSharesUsedNonInteractiveDefaults ---------- *)

Definition bsu_body : lstmt :=
  LSSeq (LSAssign "cursor" (LCall "inclusion.NextShareIndex" I64
                              [LVar "cursor"; LVar "blobLen"; LVar "subtreeRootThreshold"]))
 (LSSeq (LSStore "indexes" (LVar "i") (LConv U32 (LVar "cursor")))
        (LSAssign "cursor" (LBin I64 OAdd (LVar "cursor") (LVar "blobLen")))).

Lemma bsu_fundef :
  fl_inclusion_BlobSharesUsedNonInteractiveDefaults =
  {| lparams := ["cursor"; "subtreeRootThreshold"; "blobShareLens"];
     lbody :=
       LSSeq (LSAssign "indexes" LNil)
      (LSSeq (LSAssign "start" (LVar "cursor"))
      (LSSeq (LSMake "indexes" (LLen "blobShareLens"))
      (LSSeq (LSRange "i" "blobLen" "blobShareLens" bsu_body)
             (LSReturn [LBin I64 OSub (LVar "cursor") (LVar "start"); LVar "indexes"])))) |}.
Proof. reflexivity. Qed.

Lemma bsu_go_cons c t l tl :
  blob_shares_used_go c t (l :: tl) =
  (fst (blob_shares_used_go (next_share_index c l t + l) t tl),
   u32 (next_share_index c l t) :: snd (blob_shares_used_go (next_share_index c l t + l) t tl)).
Proof. cbn [blob_shares_used_go]. destruct (blob_shares_used_go _ t tl). reflexivity. Qed.

Lemma bsu_go_ge t : (1 <= t)%N -> forall lens c, (c <= fst (blob_shares_used_go c t lens))%N.
Proof.
  intros Ht. induction lens as [|l tl IH]; intros c; [cbn; lia|].
  rewrite bsu_go_cons. cbn [fst].
  destruct (next_share_index_spec c l t Ht) as (_ & H & _).
  specialize (IH (next_share_index c l t + l)%N). lia.
Qed.

Definition nsi_ok (call : lcaller) : Prop :=
  forall c len t, 0 <= c <= 2 ^ 62 -> 0 <= len <= 2 ^ 62 -> 1 <= t ->
    call "inclusion.NextShareIndex" I64 [VZ c; VZ len; VZ t] =
    Val [VZ (Z.of_N (next_share_index (Z.to_N c) (Z.to_N len) (Z.to_N t)))].

Lemma nsi_ok_gen fuel : (72 <= fuel)%nat -> nsi_ok (callfl gen_ext gen_program gen_program_l fuel).
Proof.
  intros Hf c len t Hc Hl Ht. rewrite callfl_scalar by reflexivity. unfold scalar_call. cbn [scalars].
  pose proof (gen_nsi_wide fuel c len t Hf Hc Hl Ht) as H. unfold gen_call in H. rewrite H. reflexivity.
Qed.

Lemma wrap_U32_N n : wrap U32 (Z.of_N n) = Z.of_N (u32 n).
Proof. unfold wrap, u32. rewrite N2Z.inj_mod. reflexivity. Qed.

Lemma bsu_range call tp lf t : nsi_ok call -> 1 <= t ->
  forall (l done : list Z) (c : Z) en,
    llookup en "cursor" = VZ c -> llookup en "subtreeRootThreshold" = VZ t ->
    llookup en "indexes" = VL (done ++ repeat 0 (length l)) ->
    0 <= c -> Forall (fun x => 0 <= x <= 2 ^ 62) l ->
    Z.of_N (fst (blob_shares_used_go (Z.to_N c) (Z.to_N t) (map Z.to_N l))) <= 2 ^ 62 ->
    exists en', lrange_loop call tp lf "i" "blobLen" bsu_body l (Z.of_nat (length done)) en = LNormal en' /\
      llookup en' "cursor" = VZ (Z.of_N (fst (blob_shares_used_go (Z.to_N c) (Z.to_N t) (map Z.to_N l)))) /\
      llookup en' "indexes" = VL (done ++ map Z.of_N (snd (blob_shares_used_go (Z.to_N c) (Z.to_N t) (map Z.to_N l)))) /\
      llookup en' "start" = llookup en "start".
Proof.
  intros Hcall Ht. induction l as [|a l IH]; intros done c en H1 H2 H3 Hc Hl Hfin.
  - exists en. cbn [map blob_shares_used_go fst snd]. rewrite Z2N.id by lia.
    change (repeat 0 (length (@nil Z))) with (@nil Z) in H3. auto.
  - cbn [map] in *. rewrite bsu_go_cons in *. cbn [fst snd] in *.
    inversion Hl as [|? ? Ha Hl']; subst.
    set (C := Z.to_N c) in *. set (A := Z.to_N a) in *. set (T := Z.to_N t) in *.
    set (c1 := next_share_index C A T) in *.
    destruct (next_share_index_spec C A T ltac:(lia)) as (_ & Hge & _). fold c1 in Hge.
    pose proof (bsu_go_ge T ltac:(lia) (map Z.to_N l) (c1 + A)%N) as Hmono.
    change (2 ^ 62) with 4611686018427387904 in *.
    cbn [lrange_loop]. unfold bsu_body at 1. cbn [lexec]. look.
    rewrite (Hcall c a t) by (change (2 ^ 62) with 4611686018427387904; lia).
    fold C A T c1. look.
    change (repeat 0 (S (length l))) with (0 :: repeat 0 (length l)).
    rewrite in_range_mid, Nat2Z.id, set_nth_app_length. look.
    rewrite wrap_U32_N. rewrite wrap_I64_small by lia.
    replace (Z.of_N c1 + a) with (Z.of_N (c1 + A)) by lia.
    set (en1 := lupdate _ "cursor" (VZ (Z.of_N (c1 + A)))).
    destruct (IH (done ++ [Z.of_N (u32 c1)]) (Z.of_N (c1 + A)) en1) as (en' & Hloop & Hc' & Hi' & Hs'); try lia.
    + reflexivity.
    + unfold en1. cbn. exact H2.
    + unfold en1. cbn. rewrite <- app_assoc. reflexivity.
    + exact Hl'.
    + rewrite N2Z.id. fold T. lia.
    + rewrite app_length in Hloop. cbn [length] in Hloop.
      replace (Z.of_nat (length done + 1)) with (Z.of_nat (length done) + 1) in Hloop by lia.
      rewrite Hloop. exists en'. rewrite N2Z.id in Hc', Hi'. fold T in Hc', Hi'.
      split; [reflexivity|]. split; [exact Hc'|]. split.
      * rewrite Hi', <- app_assoc. reflexivity.
      * rewrite Hs'. reflexivity.
Qed.

Lemma blob_shares_used_fst_snd c t lens :
  blob_shares_used c t lens =
  ((fst (blob_shares_used_go c t lens) - c)%N, snd (blob_shares_used_go c t lens)).
Proof. unfold blob_shares_used. destruct (blob_shares_used_go c t lens). reflexivity. Qed.

(* the end cursor (cursor + shares used) must stay within 2^62; every length within the range in
   which the external BlobMinSquareSize is validated against float64 *)
Lemma gen_blob_shares_used_lemma fuel c t lens :
  (73 <= fuel)%nat -> 0 <= c -> 1 <= t -> Forall (fun x => 0 <= x <= 2 ^ 52) lens ->
  c + Z.of_N (fst (blob_shares_used (Z.to_N c) (Z.to_N t) (map Z.to_N lens))) <= 2 ^ 62 ->
  gen_call_l fuel "inclusion.BlobSharesUsedNonInteractiveDefaults" I64 [VZ c; VZ t; VL lens] =
  Val [VZ (Z.of_N (fst (blob_shares_used (Z.to_N c) (Z.to_N t) (map Z.to_N lens))));
       VL (map Z.of_N (snd (blob_shares_used (Z.to_N c) (Z.to_N t) (map Z.to_N lens))))].
Proof.
  intros Hf Hc Ht Hl Hfin. destruct fuel as [|fuel]; [lia|]. unfold gen_call_l.
  rewrite blob_shares_used_fst_snd in *. cbn [fst snd] in *.
  pose proof (bsu_go_ge (Z.to_N t) ltac:(lia) (map Z.to_N lens) (Z.to_N c)) as Hge.
  set (go := blob_shares_used_go (Z.to_N c) (Z.to_N t) (map Z.to_N lens)) in *.
  rewrite (callfl_S _ _ _ _ _ _ _ fl_inclusion_BlobSharesUsedNonInteractiveDefaults) by reflexivity.
  rewrite bsu_fundef. cbn [lbody lparams lbind_params].
  do 2 (erewrite lexec_seq_normal by reflexivity).
  erewrite lexec_seq_normal
    by (cbn [lexec]; unfold levalz; look; replace (Z.of_nat (length lens) <? 0) with false by lia; reflexivity).
  rewrite Nat2Z.id.
  set (en := lupdate _ "indexes" (VL (repeat 0 (length lens)))).
  rewrite lexec_seq.
  rewrite (lexec_range _ _ _ _ _ _ _ en lens) by reflexivity.
  assert (Hl62 : Forall (fun x => 0 <= x <= 2 ^ 62) lens).
  { eapply Forall_impl; [|exact Hl]. cbv beta. intros a Ha. pose proof pow52_le. lia. }
  destruct (bsu_range (callfl gen_ext gen_program gen_program_l fuel) I64 (S fuel) t
              (nsi_ok_gen fuel ltac:(lia)) Ht lens [] c en) as (en' & Hloop & Hc' & Hi' & Hs'); try assumption; try reflexivity.
  - fold go. lia.
  - cbn [length] in Hloop. change (Z.of_nat 0) with 0 in Hloop. rewrite Hloop.
    fold go in Hc', Hi'. cbn [lexec levals leval rbind as_z vz]. rewrite Hc', Hs', Hi'.
    unfold en. cbn. change (2 ^ 62) with 4611686018427387904 in Hfin.
    rewrite wrap_I64_small by lia.
    replace (Z.of_N (fst go) - c) with (Z.of_N (fst go - Z.to_N c)) by lia. reflexivity.
Qed.

(* explicit ranges that imply the end-cursor condition: each blob moves the cursor by less than
   2^31 (the widest subtree) plus its length *)
Lemma bsu_go_bound T : (1 <= T)%N -> forall L C, Forall (fun x => x <= 1099511627776)%N L ->
  (fst (blob_shares_used_go C T L) <= C + N.of_nat (length L) * 1101659111424)%N.
Proof.
  intros HT. induction L as [|l L IH]; intros C HL; [cbn; lia|].
  inversion HL as [|? ? Hl HL']; subst. rewrite bsu_go_cons. cbn [fst length].
  destruct (next_share_index_spec C l T HT) as (_ & _ & Hlt). cbv zeta in Hlt.
  pose proof (stw_bounds (Z.of_N l) (Z.of_N T) ltac:(change (2 ^ 62) with 4611686018427387904; lia) ltac:(lia)) as Hw.
  rewrite !N2Z.id in Hw. change (2 ^ 31) with 2147483648 in Hw.
  specialize (IH (next_share_index C l T + l)%N HL'). lia.
Qed.

Lemma gen_blob_shares_used_explicit_lemma fuel c t lens :
  (73 <= fuel)%nat -> 0 <= c <= 2 ^ 60 -> 1 <= t -> Forall (fun x => 0 <= x <= 2 ^ 40) lens ->
  Z.of_nat (length lens) <= 2 ^ 20 ->
  gen_call_l fuel "inclusion.BlobSharesUsedNonInteractiveDefaults" I64 [VZ c; VZ t; VL lens] =
  Val [VZ (Z.of_N (fst (blob_shares_used (Z.to_N c) (Z.to_N t) (map Z.to_N lens))));
       VL (map Z.of_N (snd (blob_shares_used (Z.to_N c) (Z.to_N t) (map Z.to_N lens))))].
Proof.
  intros Hf Hc Ht Hl Hn. change (2 ^ 60) with 1152921504606846976 in Hc. change (2 ^ 20) with 1048576 in Hn.
  apply gen_blob_shares_used_lemma; [exact Hf|lia|exact Ht| |].
  - eapply Forall_impl; [|exact Hl]. cbv beta. intros a Ha.
    change (2 ^ 40) with 1099511627776 in Ha. change (2 ^ 52) with 4503599627370496. lia.
  - rewrite blob_shares_used_fst_snd. cbn [fst].
    pose proof (bsu_go_ge (Z.to_N t) ltac:(lia) (map Z.to_N lens) (Z.to_N c)) as Hge.
    assert (HL : Forall (fun x => x <= 1099511627776)%N (map Z.to_N lens)).
    { apply Forall_map. eapply Forall_impl; [|exact Hl]. cbv beta. intros a Ha.
      change (2 ^ 40) with 1099511627776 in Ha. lia. }
    pose proof (bsu_go_bound (Z.to_N t) ltac:(lia) (map Z.to_N lens) (Z.to_N c) HL) as Hb.
    rewrite map_length in Hb. change (2 ^ 62) with 4611686018427387904. lia.
Qed.

(* threshold 0: SubTreeWidth divides by zero in the first iteration; no blobs: nothing happens *)
Lemma gen_blob_shares_used_nil_lemma fuel c t : (1 <= fuel)%nat ->
  gen_call_l fuel "inclusion.BlobSharesUsedNonInteractiveDefaults" I64 [VZ c; VZ t; VL []] = Val [VZ (wrap I64 (c - c)); VL []].
Proof. intros Hf. destruct fuel as [|fuel]; [lia|]. reflexivity. Qed.

Lemma gen_blob_shares_used_zero_lemma fuel c a lens : (3 <= fuel)%nat ->
  gen_call_l fuel "inclusion.BlobSharesUsedNonInteractiveDefaults" I64 [VZ c; VZ 0; VL (a :: lens)] = Flt.
Proof.
  intros Hf. destruct fuel as [|fuel]; [lia|]. unfold gen_call_l.
  rewrite (callfl_S _ _ _ _ _ _ _ fl_inclusion_BlobSharesUsedNonInteractiveDefaults) by reflexivity.
  rewrite bsu_fundef. cbn [lbody lparams lbind_params].
  do 2 (erewrite lexec_seq_normal by reflexivity).
  erewrite lexec_seq_normal
    by (cbn [lexec]; unfold levalz; look; replace (Z.of_nat (length (a :: lens)) <? 0) with false by lia; reflexivity).
  rewrite lexec_seq.
  rewrite (lexec_range _ _ _ _ _ _ _ _ (a :: lens)) by reflexivity.
  cbn [lrange_loop]. unfold bsu_body at 1. cbn [lexec]. look.
  rewrite callfl_scalar by reflexivity. unfold scalar_call. cbn [scalars].
  pose proof (gen_nsi_zero fuel c a ltac:(lia)) as H. unfold gen_call in H. rewrite H. reflexivity.
Qed.

(* ---------- the edge cases, bundled (one Print Assumptions in the statements file) ---------- *)

Lemma gen_slice_edge_cases_lemma :
  (* MerkleMountainRangeSizes: maxTreeSize = 0 with something to split never returns, whatever the fuel *)
  (forall fuel total, 0 < total < 2 ^ 64 ->
     gen_call_l fuel "inclusion.MerkleMountainRangeSizes" I64 [VZ total; VZ 0] = Fuel) /\
  (* totalSize = 0: the empty list, for every maxTreeSize (also 0) *)
  (forall fuel max, (1 <= fuel)%nat ->
     gen_call_l fuel "inclusion.MerkleMountainRangeSizes" I64 [VZ 0; VZ max] = Val [VL []; VZ 0]) /\
  (* worstCaseShareIndexes: make with a negative length panics *)
  (forall fuel n, (1 <= fuel)%nat -> n < 0 ->
     gen_call_l fuel "square.worstCaseShareIndexes" I64 [VZ n] = Flt) /\
  (* BlobSharesUsedNonInteractiveDefaults: threshold 0 and at least one blob: integer divide by zero *)
  (forall fuel c a lens, (3 <= fuel)%nat ->
     gen_call_l fuel "inclusion.BlobSharesUsedNonInteractiveDefaults" I64 [VZ c; VZ 0; VL (a :: lens)] = Flt) /\
  (* explicit ranges for BlobSharesUsedNonInteractiveDefaults *)
  (forall fuel c t lens,
     (73 <= fuel)%nat -> 0 <= c <= 2 ^ 60 -> 1 <= t -> Forall (fun x => 0 <= x <= 2 ^ 40) lens ->
     Z.of_nat (length lens) <= 2 ^ 20 ->
     gen_call_l fuel "inclusion.BlobSharesUsedNonInteractiveDefaults" I64 [VZ c; VZ t; VL lens] =
     Val [VZ (Z.of_N (fst (blob_shares_used (Z.to_N c) (Z.to_N t) (map Z.to_N lens))));
          VL (map Z.of_N (snd (blob_shares_used (Z.to_N c) (Z.to_N t) (map Z.to_N lens))))]).
Proof.
  exact (conj gen_mmr_sizes_zero_lemma (conj gen_mmr_sizes_empty_lemma (conj gen_worst_case_neg_lemma
        (conj gen_blob_shares_used_zero_lemma gen_blob_shares_used_explicit_lemma)))).
Qed.
