(* C04 (helpers) - the blob helpers of share/blob.go that order and construct blobs:
   SortBlobs, Blob.Compare, NewV0Blob, NewV1Blob, Blob.IsEmpty.  Statements only. *)
From Coq Require Import List NArith ZArith Bool Permutation Sorted.
From GS.Model Require Import Base Namespace ShareFmt Blob Builder Helpers.
From GS.Proofs Require Import HelpersProofs.
Import ListNotations.

(* Blob.Compare is the comparison of the namespaces and all namespace predicates agree with it *)
Theorem C04h_blob_compare : forall a b,
  blob_compare a b = ns_compare (b_ns a) (b_ns b) /\
  (blob_compare a b = 0%Z <-> b_ns a = b_ns b) /\
  blob_compare b a = (- blob_compare a b)%Z.
Proof. exact (fun a b => conj (blob_compare_ns a b) (conj (blob_compare_eq a b) (blob_compare_antisym a b))). Qed.
Print Assumptions C04h_blob_compare.

Theorem C04h_blob_compare_predicates : forall a b,
  ns_lt (b_ns a) (b_ns b) = Z.ltb (blob_compare a b) 0 /\
  ns_le (b_ns a) (b_ns b) = Z.leb (blob_compare a b) 0 /\
  ns_gt (b_ns a) (b_ns b) = Z.ltb 0 (blob_compare a b) /\
  ns_ge (b_ns a) (b_ns b) = Z.leb 0 (blob_compare a b) /\
  ns_equals (b_ns a) (b_ns b) = Z.eqb (blob_compare a b) 0.
Proof. exact blob_compare_predicates. Qed.
Print Assumptions C04h_blob_compare_predicates.

(* SortBlobs returns a permutation of its input, in non-decreasing namespace order, in which
   the blobs of every namespace keep their input order *)
Theorem C04h_sort_blobs_stable_sort : forall l,
  Permutation (sort_blobs l) l /\ Sorted blob_le (sort_blobs l) /\
  (forall ns, filter (blob_has_ns ns) (sort_blobs l) = filter (blob_has_ns ns) l).
Proof. exact sort_blobs_is_stable_sort. Qed.
Print Assumptions C04h_sort_blobs_stable_sort.

(* that contract (the documented contract of sort.SliceStable) has exactly one solution *)
Theorem C04h_sort_blobs_unique : forall l l',
  Sorted blob_le l' ->
  (forall ns, filter (blob_has_ns ns) l' = filter (blob_has_ns ns) l) ->
  l' = sort_blobs l.
Proof. exact sort_blobs_unique. Qed.
Print Assumptions C04h_sort_blobs_unique.

Theorem C04h_sort_blobs_idempotent : forall l, sort_blobs (sort_blobs l) = sort_blobs l.
Proof. exact sort_blobs_idem. Qed.
Print Assumptions C04h_sort_blobs_idempotent.

Theorem C04h_sort_blobs_length : forall l, length (sort_blobs l) = length l.
Proof. exact sort_blobs_length. Qed.
Print Assumptions C04h_sort_blobs_length.

(* SortBlobs orders blobs exactly as the square builder orders its blob elements *)
Theorem C04h_sort_blobs_is_builder_order : forall l : list element,
  map e_blob (sort_elements l) = sort_blobs (map e_blob l).
Proof. exact sort_blobs_elements. Qed.
Print Assumptions C04h_sort_blobs_is_builder_order.

(* NewV0Blob / NewV1Blob: acceptance and result *)
Theorem C04h_new_v0_blob : forall ns data,
  (data <> [] /\ ns <> [] /\ ns_version ns = 0%N -> new_v0_blob ns data = Ok (mk_blob ns data 0 None)) /\
  (forall b, new_v0_blob ns data = Ok b ->
             b = mk_blob ns data 0 None /\ data <> [] /\ ns <> [] /\ ns_version ns = 0%N) /\
  new_v0_blob ns data <> Fault.
Proof. exact new_v0_blob_spec. Qed.
Print Assumptions C04h_new_v0_blob.

Theorem C04h_new_v1_blob : forall ns data sg,
  (forall s, data <> [] /\ ns <> [] /\ ns_version ns = 0%N /\ sg = Some s /\ length s = signer_size ->
             new_v1_blob ns data sg = Ok (mk_blob ns data 1 sg)) /\
  (forall b, new_v1_blob ns data sg = Ok b ->
             b = mk_blob ns data 1 sg /\ data <> [] /\ ns <> [] /\ ns_version ns = 0%N /\
             exists s, sg = Some s /\ length s = signer_size) /\
  new_v1_blob ns data sg <> Fault.
Proof. exact new_v1_blob_spec. Qed.
Print Assumptions C04h_new_v1_blob.

(* Blob.IsEmpty: no data; never true for a blob that NewBlob returned *)
Theorem C04h_blob_is_empty : forall b, blob_is_empty b = true <-> b_data b = [].
Proof. exact blob_is_empty_spec. Qed.
Print Assumptions C04h_blob_is_empty.

Theorem C04h_new_blob_not_empty : forall ns data ver sg b,
  new_blob ns data ver sg = Ok b -> blob_is_empty b = false.
Proof. exact new_blob_not_empty. Qed.
Print Assumptions C04h_new_blob_not_empty.

(* non-vacuity: namespace 2, 1, 2, 1 -> the two blobs of namespace 1 first, each pair in input order *)
Example C04h_sort_example :
  sort_blobs [hp_b1; hp_b2; hp_b3; hp_b4] = [hp_b2; hp_b4; hp_b1; hp_b3] /\
  blob_compare hp_b1 hp_b2 = 1%Z /\ blob_compare hp_b2 hp_b1 = (-1)%Z /\ blob_compare hp_b1 hp_b3 = 0%Z.
Proof. vm_compute. repeat split. Qed.
Example C04h_new_blob_example :
  new_v0_blob (hp_ns Byte.x01) [Byte.x07] = Ok hp_b2 /\
  new_v1_blob (hp_ns Byte.x02) [Byte.x08] (Some (repeat Byte.x0a 20)) = Ok hp_b3 /\
  new_v1_blob (hp_ns Byte.x02) [Byte.x08] None = Err /\
  new_v1_blob (hp_ns Byte.x02) [Byte.x08] (Some [Byte.x0a]) = Err /\
  new_v0_blob (hp_ns Byte.x01) [] = Err /\ new_v0_blob [] [Byte.x07] = Err /\
  blob_is_empty hp_b1 = false /\ blob_is_empty (mk_blob [] [] 0 None) = true.
Proof. vm_compute. repeat split. Qed.
