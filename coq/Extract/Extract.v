(* Extraction of the executable model to OCaml.  ExtrOcamlBasic only: no
   Extract Constant / Extract Inductive directive of our own. *)
From GS.Spec Require Import ShareSpec CompactSpec LayoutSpec.
From GS.Model Require Import Base Varint Namespace ShareFmt Blob Sparse Compact Counter Arith Proto Builder Square.
(* C05 begin *)
From GS.Model Require Import Sha256 Nmt.
(* C05 end *)
(* C17 begin *)
From GS.Model Require Import Mem.
(* C17 end *)
(* C17commit begin *)
From GS.Model Require Import MemCommit.
(* C17commit end *)
(* C19json begin *)
From GS.Model Require Import Json.
(* C19json end *)
(* helpers begin *)
From GS.Model Require Import Helpers.
(* helpers end *)
Require Import Extraction.
Require Import ExtrOcamlBasic.
Set Extraction KeepSingleton.

Extraction "model.ml"
  (* C05 begin: sha-256, namespaced merkle tree, commitments *)
  sha256 split_point mroot inner_node level_nodes hash_leaf hash_node hash_node_o nmt_empty_root
  nmt_compute_root nmt_push_ok nmt_leaf_hashes nmt_root nmt_subtree_root row_leaves merkle_root
  subtree_roots create_commitment subtree_roots_sha commitment_sha
  (* C05 end *)
  (* C17 begin: explicit-memory model of the read paths *)
  mem_parse_blobs_run mem_parse_txs_run log_writes_below
  (* C17 end *)
  (* C17commit begin: ParseBlobs, then GenerateSubtreeRoots / SparseShareSplitter.Write on the parsed blobs *)
  mem_commit_run mem_sparse_write_run
  (* C17commit end *)
  (* C19json begin: JSON text layer of blobs, shares and namespaces *)
  base64_encode base64_decode print_dec marshal_blob_json marshal_share_json marshal_namespace_json
  unmarshal_blob_json unmarshal_share_json unmarshal_namespace_json json_in_subset
  (* C19json end *)
  (* helpers begin: the small public helpers (Model/Helpers.v) *)
  blob_compare blob_less sort_blobs new_v0_blob new_v1_blob blob_is_empty blob_data_len
  create_commitments commitments_sha parse_info_byte
  new_range empty_range range_is_empty range_add int_wrap ns_repeat ns_is_empty
  new_share share_to_bytes to_bytes from_bytes square_size_of square_equals sparse_count sparse_count_after
  (* helpers end *)
  (* base *)
  b2n n2b N.add N.mul N.div N.modulo N.compare N.of_nat N.to_nat Z.add Z.mul Z.opp Z.of_N Z.to_N Z.abs Z.compare
  bytes_eqb
  (* varint *)
  put_uvarint uvarint read_uvarint parse_delimiter marshal_delimited delim_len
  (* namespace *)
  tx_ns pfb_ns primary_reserved_padding_ns tail_padding_ns parity_ns max_primary_reserved_ns
  min_secondary_reserved_ns isr_ns
  ns_compare ns_equals ns_lt ns_le ns_gt ns_ge is_primary_reserved is_secondary_reserved
  is_reserved is_parity is_tail_padding is_primary_reserved_padding is_tx is_pfb is_usable
  validate_for_data validate_for_blob new_namespace new_namespace_from_bytes new_v0_namespace add_int
  ns_version ns_id
  (* share format *)
  first_compact_content cont_compact_content first_sparse_content cont_sparse_content share_size signer_size max_share_version ns_size
  sh_ns sh_info sh_version sh_start sh_is_compact sh_seq_len sh_signer sh_is_padding sh_raw_data
  sh_raw_data_using_reserved sh_version_supported new_info_byte info_version info_start
  parse_reserved_bytes namespace_padding_share namespace_padding_shares reserved_padding_shares tail_padding_shares
  (* blob, sparse, compact *)
  new_blob sparse_write blob_to_shares sparse_write_items parse_blobs
  new_csplitter cs_write_tx cs_export cs_count cs_share_range parse_txs extract_raw_data parse_raw_data
  (* counter, needed, arithmetic *)
  new_counter counter_add counter_revert counter_size counter_remainder
  compact_shares_needed sparse_shares_needed available_compact available_sparse
  round_up_pow2 round_down_pow2 is_pow2 blob_min_square_size square_size subtree_width
  round_up_by_multiple_of next_share_index mmr_sizes blob_shares_used
  (* proto *)
  wire_fields utf8_valid unmarshal_blob_proto marshal_blob_proto new_blob_from_proto marshal_blob unmarshal_blob
  unmarshal_blob_tx marshal_blob_tx unmarshal_index_wrapper unmarshal_index_wrapper_proto marshal_index_wrapper
  index_wrapper_size blob_to_proto
  (* builder, square *)
  worst_case_share_indexes new_element empty_builder new_builder_ok append_tx append_blob_tx export
  construct build find_blob_starting_index blob_share_length find_tx_share_range get_wrapped_pfb
  tx_share_range blob_share_range new_builder_txs
  get_share_range_for_namespace parse_shares sequence_raw_data valid_sequence_len number_of_shares_needed
  blob_spec sparse_spec padding_spec compact_spec
  compact_spec_ix layout layout_construct layout_build estimate
  deconstruct wrapped_pfbs mock_pfb_decoder square_is_empty empty_square.
