// go2coq: prints the bodies of selected integer functions of go-square as values of the
// GoLite deep embedding (coq/Model/GoLite.v).  Standard library only (go/ast, go/types with the
// source importer).  Run with the repository as working directory:
//
//	cd <repo> && go run /verif/go2coq <out.v>
//
// The translation is purely syntactic plus the types and constant values that go/types
// computed: every arithmetic node is tagged with its Go type, constants are folded by the type
// checker (so FirstCompactShareContentSize is printed as 474 only if the source says so).
// Anything outside the supported fragment makes the function "unsupported": it is not
// emitted, and the theorems about it no longer compile.
//
// A second table (selectedL) names functions that also use slices of integers; they are printed,
// after the scalar ones, as values of the GoLiteL embedding (coq/Model/GoLiteL.v; gen_program_l).
// GoLiteL gives slices a BY-VALUE meaning, which agrees with Go only without aliasing, so in that
// mode the translator accepts exactly: var x []T, x = nil, x = make([]T, n), x = append(x, e) (the
// same variable, one element), x[i] = e / op= / ++ on an own (non-parameter) slice variable, len(x),
// x[i], for k, v := range x over a slice variable (with a value variable only if the body does not
// change x), slice variables or nil as call arguments (no variable twice in one call), own slice
// variables, nil or calls as results, x := f(...) for a slice result.  Slice parameters are
// read-only (no store, append, assignment, return), so the slice a call returns is always fresh.
// Everything else (slicing, copy, y := x, append to another variable or with several elements or
// ..., slices of non-integers, slices in structs, methods, calls of variadic functions, range over
// anything else) is refused.
package main

import (
	"fmt"
	"go/ast"
	"go/constant"
	"go/importer"
	"go/parser"
	"go/token"
	"go/types"
	"os"
	"path/filepath"
	"sort"
	"strings"
)

// the functions whose model is regenerated on every run: package directory -> names
// (methods as Recv.Method)
var selected = []struct {
	dir   string
	names []string
}{
	{"inclusion", []string{"RoundUpByMultipleOf", "RoundUpPowerOfTwo", "RoundDownPowerOfTwo", "SubTreeWidth", "getMin", "NextShareIndex"}},
	{"share", []string{"CompactSharesNeeded", "SparseSharesNeeded", "AvailableBytesFromCompactShares", "AvailableBytesFromSparseShares",
		"CompactShareCounter.Add", "CompactShareCounter.Revert", "CompactShareCounter.Size", "CompactShareCounter.Remainder",
		"NewInfoByte", "ParseInfoByte", "InfoByte.Version", "InfoByte.IsSequenceStart", "rawTxSize", "Range.Add", "Range.IsEmpty"}},
	{".", []string{"IsPowerOfTwo", "RoundUpPowerOfTwo", "Builder.canFit", "Builder.CurrentSize", "Builder.SubtreeRootThreshold", "Element.maxShareOffset"}},
}

// the functions with integer slices, translated to the GoLiteL embedding (coq/Model/GoLiteL.v)
var selectedL = []struct {
	dir   string
	names []string
}{
	{"inclusion", []string{"MerkleMountainRangeSizes", "BlobSharesUsedNonInteractiveDefaults"}},
	{".", []string{"worstCaseShareIndexes"}},
}

type unsupported struct{ msg string }

func fail(format string, a ...any) { panic(unsupported{fmt.Sprintf(format, a...)}) }

type tr struct {
	fset  *token.FileSet
	info  *types.Info
	pkg   *types.Package
	recv  *types.Var      // receiver of the method being translated (nil for functions)
	rflds map[string]bool // the receiver's modelled (integer) fields
	names map[types.Object]string
	used  map[string]int
	// GoLiteL mode (integer slices): constructor names are the GoLiteL ones, slice forms are accepted
	L       bool
	sparams map[types.Object]bool // the slice parameters of the function: read-only
}

// c maps a GoLite constructor name to the GoLiteL one in L mode (EConst -> LConst, SSeq -> LSSeq)
func (t *tr) c(name string) string {
	if !t.L {
		return name
	}
	if name[0] == 'E' {
		return "L" + name[1:]
	}
	return "L" + name
}

// sliceElem: t is a slice of a fixed-width integer type
func sliceElem(t types.Type) bool {
	if t == nil {
		return false
	}
	s, ok := t.Underlying().(*types.Slice)
	if !ok {
		return false
	}
	b, ok := s.Elem().Underlying().(*types.Basic)
	if !ok {
		return false
	}
	switch b.Kind() {
	case types.Int, types.Int64, types.Uint64, types.Uint, types.Uintptr, types.Uint32, types.Uint8:
		return true
	}
	return false
}

func isSliceType(t types.Type) bool {
	if t == nil {
		return false
	}
	_, ok := t.Underlying().(*types.Slice)
	return ok
}

// tyOK: a type a variable, argument or result may have
func (t *tr) tyOK(ty types.Type) {
	if t.L && isSliceType(ty) {
		if !sliceElem(ty) {
			fail("type %s: only slices of int, int64, uint, uint64, uintptr, uint32, uint8 are in the slice fragment", ty.String())
		}
		return
	}
	ityOf(ty)
}

// sliceVar: e is an identifier denoting a local slice variable or slice parameter (L mode)
func (t *tr) sliceVar(e ast.Expr) (*types.Var, bool) {
	for {
		p, ok := e.(*ast.ParenExpr)
		if !ok {
			break
		}
		e = p.X
	}
	id, ok := e.(*ast.Ident)
	if !ok {
		return nil, false
	}
	obj := t.info.Uses[id]
	if obj == nil {
		obj = t.info.Defs[id]
	}
	v, ok := obj.(*types.Var)
	if !ok || !isSliceType(v.Type()) {
		return nil, false
	}
	t.localOnly(v)
	t.tyOK(v.Type())
	return v, true
}

// ownSlice: a slice variable the function may change (not a parameter: the caller would see the change,
// or a result would alias the caller's slice)
func (t *tr) ownSlice(e ast.Expr, what string) *types.Var {
	v, ok := t.sliceVar(e)
	if !ok {
		fail("%s %s: not a slice variable", what, types.ExprString(e))
	}
	if t.sparams[v] {
		fail("%s the slice parameter %s (parameters are read-only: the caller could see the change)", what, v.Name())
	}
	return v
}

func (t *tr) builtinName(x *ast.CallExpr) string {
	f := x.Fun
	for {
		p, ok := f.(*ast.ParenExpr)
		if !ok {
			break
		}
		f = p.X
	}
	if id, ok := f.(*ast.Ident); ok {
		if b, ok := t.info.Uses[id].(*types.Builtin); ok {
			return b.Name()
		}
	}
	return ""
}

func (t *tr) isNil(e ast.Expr) bool {
	tv, ok := t.info.Types[e]
	return ok && tv.IsNil()
}

// sliceValue: a slice-typed expression in a position that takes a fresh or read-only slice value:
// what = "argument" (a variable or nil) or "result" (an own variable, nil, or a call)
func (t *tr) sliceValue(e ast.Expr, what string) string {
	for {
		p, ok := e.(*ast.ParenExpr)
		if !ok {
			break
		}
		e = p.X
	}
	if t.isNil(e) {
		return "LNil"
	}
	if _, ok := e.(*ast.SliceExpr); ok {
		fail("slicing expression %s", types.ExprString(e))
	}
	t.tyOK(t.info.TypeOf(e))
	if _, ok := e.(*ast.Ident); ok {
		var v *types.Var
		if what == "argument" {
			var ok bool
			v, ok = t.sliceVar(e)
			if !ok {
				fail("slice %s %s", what, types.ExprString(e))
			}
		} else {
			v = t.ownSlice(e, "return of")
		}
		return "(LVar " + q(t.nameOf(v)) + ")"
	}
	if c, ok := e.(*ast.CallExpr); ok && what != "argument" && t.builtinName(c) == "" {
		if tv, ok := t.info.Types[c.Fun]; ok && tv.IsType() {
			fail("conversion to a slice type")
		}
		return t.expr(e)
	}
	fail("slice %s %s: only a slice variable or nil", what, types.ExprString(e))
	return ""
}

// indexParts: x[i] with x a slice variable -> name of x, translated index
func (t *tr) indexParts(x *ast.IndexExpr, store bool) (string, string) {
	var v *types.Var
	if store {
		v = t.ownSlice(x.X, "store into")
	} else {
		var ok bool
		v, ok = t.sliceVar(x.X)
		if !ok {
			fail("index expression %s: only a slice variable can be indexed", types.ExprString(x))
		}
	}
	ik := ityOf(t.info.TypeOf(x.Index))
	if ik == "IBool" || ik == "IErr" {
		fail("index of type %s", ik)
	}
	return t.nameOf(v), t.expr(x.Index)
}

// assignSlice: `lhs = rhs` / `lhs := rhs` with rhs of a slice type
func (t *tr) assignSlice(lhs ast.Expr, rhs ast.Expr) string {
	for {
		p, ok := rhs.(*ast.ParenExpr)
		if !ok {
			break
		}
		rhs = p.X
	}
	if id, ok := lhs.(*ast.Ident); !ok || id.Name == "_" {
		fail("assignment of a slice to %s", types.ExprString(lhs))
	}
	if !t.isNil(rhs) {
		t.tyOK(t.info.TypeOf(rhs))
	}
	if t.isNil(rhs) {
		return "(LSAssign " + q(t.nameOf(t.ownSlice(lhs, "assignment to"))) + " LNil)"
	}
	switch r := rhs.(type) {
	case *ast.Ident:
		fail("assignment of the slice variable %s to another variable (aliasing between slice variables)", r.Name)
	case *ast.SliceExpr:
		fail("slicing expression %s", types.ExprString(rhs))
	case *ast.CallExpr:
		switch t.builtinName(r) {
		case "make":
			if len(r.Args) != 2 {
				fail("make with %d arguments (only make([]T, n))", len(r.Args))
			}
			t.tyOK(t.info.TypeOf(r.Args[0]))
			nk := ityOf(t.info.TypeOf(r.Args[1]))
			if nk == "IBool" || nk == "IErr" {
				fail("make with a length of type %s", nk)
			}
			n := t.expr(r.Args[1])
			return "(LSMake " + q(t.nameOf(t.ownSlice(lhs, "assignment to"))) + " " + n + ")"
		case "append":
			if r.Ellipsis.IsValid() {
				fail("append with ...")
			}
			if len(r.Args) != 2 {
				fail("append with %d arguments (only x = append(x, e))", len(r.Args))
			}
			src, ok := t.sliceVar(r.Args[0])
			if !ok {
				fail("append to %s: only x = append(x, e)", types.ExprString(r.Args[0]))
			}
			lid := lhs.(*ast.Ident)
			lobj := t.info.Defs[lid]
			if lobj == nil {
				lobj = t.info.Uses[lid]
			}
			if lobj != types.Object(src) {
				fail("append of %s assigned to %s: only x = append(x, e) (aliasing between slice variables)", src.Name(), lid.Name)
			}
			ityOf(t.info.TypeOf(r.Args[1]))
			e := t.expr(r.Args[1])
			return "(LSAppend " + q(t.nameOf(t.ownSlice(lhs, "append to"))) + " " + e + ")"
		case "":
			if tv, ok := t.info.Types[r.Fun]; ok && tv.IsType() {
				fail("conversion to a slice type")
			}
			e := t.expr(rhs) // a call: its slice result is fresh
			return "(LSAssign " + q(t.nameOf(t.ownSlice(lhs, "assignment to"))) + " " + e + ")"
		default:
			fail("builtin %s", t.builtinName(r))
		}
	}
	fail("slice expression %s", types.ExprString(rhs))
	return ""
}

// modifies: does the statement tree assign to, store into or append onto the slice variable v?
func (t *tr) modifies(b ast.Node, v *types.Var) bool {
	found := false
	is := func(e ast.Expr) bool {
		for {
			switch x := e.(type) {
			case *ast.ParenExpr:
				e = x.X
				continue
			case *ast.IndexExpr:
				e = x.X
				continue
			}
			break
		}
		id, ok := e.(*ast.Ident)
		if !ok {
			return false
		}
		obj := t.info.Uses[id]
		if obj == nil {
			obj = t.info.Defs[id]
		}
		return obj == types.Object(v)
	}
	ast.Inspect(b, func(n ast.Node) bool {
		switch x := n.(type) {
		case *ast.AssignStmt:
			for _, l := range x.Lhs {
				if is(l) {
					found = true
				}
			}
		case *ast.IncDecStmt:
			if is(x.X) {
				found = true
			}
		case *ast.RangeStmt:
			if (x.Key != nil && is(x.Key)) || (x.Value != nil && is(x.Value)) {
				found = true
			}
		}
		return true
	})
	return found
}

func ityOf(t types.Type) string {
	if _, ok := t.(*types.TypeParam); ok {
		return "IParam"
	}
	switch u := t.Underlying().(type) {
	case *types.Basic:
		switch u.Kind() {
		case types.Int, types.Int64, types.UntypedInt:
			return "I64"
		case types.Uint64, types.Uint, types.Uintptr:
			return "U64"
		case types.Uint32:
			return "U32"
		case types.Uint8:
			return "U8"
		case types.Bool, types.UntypedBool:
			return "IBool"
		}
	case *types.Interface:
		if t.String() == "error" {
			return "IErr"
		}
	}
	fail("type %s is outside the fragment", t.String())
	return ""
}

func isIntLike(t types.Type) (ok bool) {
	defer func() {
		if r := recover(); r != nil {
			if _, is := r.(unsupported); is {
				ok = false
				return
			}
			panic(r)
		}
	}()
	k := ityOf(t)
	return k != "IErr"
}

func zlit(s string) string {
	if strings.HasPrefix(s, "-") {
		return "(" + s + ")"
	}
	return s
}

// localOnly refuses package-level variables (their value is not part of the function's arguments) and
// the blank identifier as a value
func (t *tr) localOnly(v *types.Var) {
	if v.Name() == "_" {
		fail("the blank identifier used as a variable")
	}
	if v.IsField() {
		fail("field %s outside a receiver selector", v.Name())
	}
	if v.Pkg() != nil && v.Parent() == v.Pkg().Scope() {
		fail("package-level variable %s", v.Name())
	}
}

func (t *tr) nameOf(obj types.Object) string {
	if obj == nil {
		fail("unresolved identifier")
	}
	if n, ok := t.names[obj]; ok {
		return n
	}
	base := obj.Name()
	t.used[base]++
	n := base
	if t.used[base] > 1 {
		n = fmt.Sprintf("%s#%d", base, t.used[base])
	}
	t.names[obj] = n
	return n
}

func q(s string) string { return "\"" + s + "\"" }

func funcKey(f *types.Func) string {
	sig := f.Type().(*types.Signature)
	pkg := ""
	if f.Pkg() != nil {
		pkg = f.Pkg().Name()
	}
	if r := sig.Recv(); r != nil {
		rt := r.Type()
		if p, ok := rt.(*types.Pointer); ok {
			rt = p.Elem()
		}
		if n, ok := rt.(*types.Named); ok {
			return pkg + "." + n.Obj().Name() + "." + f.Name()
		}
	}
	return pkg + "." + f.Name()
}

func (t *tr) expr(e ast.Expr) string {
	if tv, ok := t.info.Types[e]; ok && tv.Value != nil {
		switch tv.Value.Kind() {
		case constant.Int:
			return "(" + t.c("EConst") + " " + zlit(tv.Value.ExactString()) + ")"
		case constant.Bool:
			if constant.BoolVal(tv.Value) {
				return "(" + t.c("EConst") + " 1)"
			}
			return "(" + t.c("EConst") + " 0)"
		default:
			fail("constant %s of kind %v", tv.Value.String(), tv.Value.Kind())
		}
	}
	if t.L {
		switch x := e.(type) {
		case *ast.IndexExpr:
			if tv, ok := t.info.Types[x.X]; ok && isSliceType(tv.Type) {
				name, idx := t.indexParts(x, false)
				ityOf(t.info.TypeOf(e))
				return "(LIndex " + q(name) + " " + idx + ")"
			}
		case *ast.SliceExpr:
			fail("slicing expression %s", types.ExprString(e))
		case *ast.CallExpr:
			switch b := t.builtinName(x); b {
			case "":
			case "len":
				if len(x.Args) != 1 {
					fail("len with %d arguments", len(x.Args))
				}
				v, ok := t.sliceVar(x.Args[0])
				if !ok {
					fail("len(%s): only the length of a slice variable", types.ExprString(x.Args[0]))
				}
				return "(LLen " + q(t.nameOf(v)) + ")"
			case "append":
				fail("append outside `x = append(x, e)`")
			case "make":
				fail("make outside `x = make([]T, n)`")
			default:
				fail("builtin %s", b)
			}
		case *ast.Ident:
			if isSliceType(t.info.TypeOf(e)) {
				if t.isNil(e) {
					fail("nil slice in a scalar expression")
				}
				fail("slice variable %s used as a value (aliasing between slice variables)", x.Name)
			}
		}
	}
	switch x := e.(type) {
	case *ast.ParenExpr:
		return t.expr(x.X)
	case *ast.Ident:
		obj := t.info.Uses[x]
		if obj == nil {
			obj = t.info.Defs[x]
		}
		if _, isNil := obj.(*types.Nil); isNil {
			return "(" + t.c("EConst") + " 0)"
		}
		v, ok := obj.(*types.Var)
		if !ok {
			fail("identifier %s is not a variable", x.Name)
		}
		t.localOnly(v)
		ityOf(obj.Type())
		return "(" + t.c("EVar") + " " + q(t.nameOf(obj)) + ")"
	case *ast.SelectorExpr:
		if id, ok := x.X.(*ast.Ident); ok && t.recv != nil && t.info.Uses[id] == t.recv {
			if !t.rflds[x.Sel.Name] {
				fail("receiver field %s is not one of the modelled integer fields", x.Sel.Name)
			}
			ityOf(t.info.TypeOf(e))
			return "(" + t.c("EVar") + " " + q(id.Name+"."+x.Sel.Name) + ")"
		}
		fail("selector %s", types.ExprString(e))
	case *ast.UnaryExpr:
		switch x.Op {
		case token.NOT:
			return "(" + t.c("ENot") + " " + t.expr(x.X) + ")"
		case token.SUB:
			return "(" + t.c("EBin") + " " + ityOf(t.info.TypeOf(e)) + " OSub (EConst 0) " + t.expr(x.X) + ")"
		case token.ADD:
			return t.expr(x.X)
		}
		fail("unary operator %s", x.Op)
	case *ast.BinaryExpr:
		a, b := t.expr(x.X), t.expr(x.Y)
		switch x.Op {
		case token.LAND:
			return "(" + t.c("EAndAlso") + " " + a + " " + b + ")"
		case token.LOR:
			return "(" + t.c("EOrElse") + " " + a + " " + b + ")"
		case token.LSS, token.LEQ, token.GTR, token.GEQ, token.EQL, token.NEQ:
			if ityOf(t.info.TypeOf(x.X)) == "IErr" || ityOf(t.info.TypeOf(x.Y)) == "IErr" {
				// an error value is modelled as nil / non-nil only: comparing two errors is outside the fragment
				if !t.info.Types[x.X].IsNil() && !t.info.Types[x.Y].IsNil() {
					fail("comparison of two error values")
				}
			}
			op := map[token.Token]string{token.LSS: "CLt", token.LEQ: "CLe", token.GTR: "CGt", token.GEQ: "CGe", token.EQL: "CEq", token.NEQ: "CNe"}[x.Op]
			return "(" + t.c("ECmp") + " " + op + " " + a + " " + b + ")"
		}
		op, ok := map[token.Token]string{token.ADD: "OAdd", token.SUB: "OSub", token.MUL: "OMul", token.QUO: "OQuo", token.REM: "ORem",
			token.SHL: "OShl", token.SHR: "OShr", token.AND: "OAnd", token.OR: "OOr", token.XOR: "OXor"}[x.Op]
		if !ok {
			fail("binary operator %s", x.Op)
		}
		ty := ityOf(t.info.TypeOf(e))
		if ty == "IBool" || ty == "IErr" {
			fail("arithmetic at type %s", ty)
		}
		return "(" + t.c("EBin") + " " + ty + " " + op + " " + a + " " + b + ")"
	case *ast.CallExpr:
		if tv, ok := t.info.Types[x.Fun]; ok && tv.IsType() {
			if len(x.Args) != 1 {
				fail("conversion with %d arguments", len(x.Args))
			}
			from := ityOf(t.info.TypeOf(x.Args[0]))
			to := ityOf(tv.Type)
			if from == "IBool" || from == "IErr" || to == "IBool" || to == "IErr" {
				fail("conversion %s -> %s", from, to)
			}
			return "(" + t.c("EConv") + " " + to + " " + t.expr(x.Args[0]) + ")"
		}
		f, targ, args := t.call(x)
		if f == "fmt.Errorf" || f == "errors.New" {
			return "(" + t.c("EConst") + " 1)"
		}
		sig := t.info.TypeOf(x.Fun).(*types.Signature)
		if sig.Results().Len() != 1 {
			fail("call of %s with %d results inside an expression", f, sig.Results().Len())
		}
		return "(" + t.c("ECall") + " " + q(f) + " " + targ + " " + args + ")"
	}
	fail("expression %s", types.ExprString(e))
	return ""
}

// call returns the callee's key, the type argument and the printed argument list
func (t *tr) call(x *ast.CallExpr) (string, string, string) {
	var id *ast.Ident
	switch f := x.Fun.(type) {
	case *ast.Ident:
		id = f
	case *ast.SelectorExpr:
		id = f.Sel
		if rid, ok := f.X.(*ast.Ident); ok && t.recv != nil && t.info.Uses[rid] == t.recv {
			fail("method call on the receiver")
		}
	case *ast.IndexExpr:
		if i, ok := f.X.(*ast.Ident); ok {
			id = i
		}
	}
	if id == nil {
		fail("callee %s", types.ExprString(x.Fun))
	}
	fn, ok := t.info.Uses[id].(*types.Func)
	if !ok {
		fail("callee %s is not a function", id.Name)
	}
	if fn.Type().(*types.Signature).Recv() != nil {
		fail("method call %s", types.ExprString(x.Fun))
	}
	key := funcKey(fn)
	if key == "fmt.Errorf" || key == "errors.New" {
		for _, a := range x.Args {
			if tv, ok := t.info.Types[a]; ok && tv.Value != nil {
				continue
			}
			if id, ok := a.(*ast.Ident); ok {
				if v, ok := t.info.Uses[id].(*types.Var); ok {
					t.localOnly(v)
					continue
				}
			}
			fail("argument %s of %s could have an effect", types.ExprString(a), key)
		}
		return key, "I64", "[]"
	}
	targ := "I64"
	if inst, ok := t.info.Instances[id]; ok && inst.TypeArgs != nil && inst.TypeArgs.Len() > 0 {
		if inst.TypeArgs.Len() != 1 {
			fail("%d type arguments", inst.TypeArgs.Len())
		}
		targ = ityOf(inst.TypeArgs.At(0))
	}
	if x.Ellipsis.IsValid() {
		fail("variadic call")
	}
	if t.L && fn.Type().(*types.Signature).Variadic() {
		fail("call of the variadic function %s", key)
	}
	var as []string
	passed := map[*types.Var]bool{}
	for _, a := range x.Args {
		if t.L && isSliceType(t.info.TypeOf(a)) {
			if v, ok := t.sliceVar(a); ok {
				if passed[v] {
					fail("the slice %s is passed to two parameters of %s (aliasing)", v.Name(), key)
				}
				passed[v] = true
			}
			as = append(as, t.sliceValue(a, "argument"))
			continue
		}
		ityOf(t.info.TypeOf(a))
		as = append(as, t.expr(a))
	}
	return key, targ, "[" + strings.Join(as, "; ") + "]"
}

func (t *tr) seq(ss []string) string {
	if len(ss) == 0 {
		return t.c("SSkip")
	}
	if len(ss) == 1 {
		return ss[0]
	}
	return "(" + t.c("SSeq") + " " + ss[0] + "\n   " + t.seq(ss[1:]) + ")"
}

func (t *tr) lhs(e ast.Expr) string {
	switch x := e.(type) {
	case *ast.Ident:
		if x.Name == "_" {
			return "_"
		}
		obj := t.info.Defs[x]
		if obj == nil {
			obj = t.info.Uses[x]
		}
		v, ok := obj.(*types.Var)
		if !ok {
			fail("assignment to %s", x.Name)
		}
		t.localOnly(v)
		if t.L && isSliceType(obj.Type()) {
			return t.nameOf(t.ownSlice(e, "assignment to"))
		}
		ityOf(obj.Type())
		return t.nameOf(obj)
	case *ast.SelectorExpr:
		if id, ok := x.X.(*ast.Ident); ok && t.recv != nil && t.info.Uses[id] == t.recv {
			if !t.rflds[x.Sel.Name] {
				fail("receiver field %s is not one of the modelled integer fields", x.Sel.Name)
			}
			ityOf(t.info.TypeOf(e))
			return id.Name + "." + x.Sel.Name
		}
	}
	fail("assignment target %s", types.ExprString(e))
	return ""
}

func (t *tr) block(b *ast.BlockStmt, results *types.Tuple) string {
	var ss []string
	for _, s := range b.List {
		ss = append(ss, t.stmt(s, results))
	}
	return t.seq(ss)
}

func (t *tr) stmt(s ast.Stmt, results *types.Tuple) string {
	switch x := s.(type) {
	case *ast.BlockStmt:
		return t.block(x, results)
	case *ast.EmptyStmt:
		return t.c("SSkip")
	case *ast.DeclStmt:
		gd, ok := x.Decl.(*ast.GenDecl)
		if !ok || gd.Tok != token.VAR {
			fail("declaration")
		}
		var ss []string
		for _, sp := range gd.Specs {
			vs := sp.(*ast.ValueSpec)
			if len(vs.Values) != 0 && len(vs.Values) != len(vs.Names) {
				fail("var with a multi-value initialiser")
			}
			for i, n := range vs.Names {
				if t.L && n.Name != "_" && isSliceType(t.info.TypeOf(n)) {
					if len(vs.Values) == 0 {
						t.tyOK(t.info.TypeOf(n))
						ss = append(ss, "(LSAssign "+q(t.nameOf(t.ownSlice(n, "declaration of")))+" LNil)")
					} else {
						ss = append(ss, t.assignSlice(n, vs.Values[i]))
					}
					continue
				}
				name := t.lhs(n)
				if len(vs.Values) == 0 {
					ss = append(ss, "("+t.c("SAssign")+" "+q(name)+" ("+t.c("EConst")+" 0))")
				} else {
					ss = append(ss, "("+t.c("SAssign")+" "+q(name)+" "+t.expr(vs.Values[i])+")")
				}
			}
		}
		return t.seq(ss)
	case *ast.AssignStmt:
		if len(x.Rhs) == 1 && len(x.Lhs) > 1 {
			c, ok := x.Rhs[0].(*ast.CallExpr)
			if !ok || (x.Tok != token.DEFINE && x.Tok != token.ASSIGN) {
				fail("multi-value assignment")
			}
			f, targ, args := t.call(c)
			var names []string
			for _, l := range x.Lhs {
				names = append(names, q(t.lhs(l)))
			}
			return "(" + t.c("SCall") + " [" + strings.Join(names, "; ") + "] " + q(f) + " " + targ + " " + args + ")"
		}
		if len(x.Lhs) != 1 || len(x.Rhs) != 1 {
			fail("parallel assignment")
		}
		// evaluate the right-hand side before naming the target: in `x := x + 1` of an inner scope the
		// right-hand x is the outer one
		var rhs string
		if ix, ok := x.Lhs[0].(*ast.IndexExpr); ok && t.L {
			// x[i] = e, x[i] op= e: the index, then the right-hand side, then the bounds check of the store
			name, idx := t.indexParts(ix, true)
			ty := ityOf(t.info.TypeOf(x.Lhs[0]))
			if x.Tok == token.ASSIGN {
				return "(LSStore " + q(name) + " " + idx + " " + t.expr(x.Rhs[0]) + ")"
			}
			op, ok := map[token.Token]string{token.ADD_ASSIGN: "OAdd", token.SUB_ASSIGN: "OSub", token.MUL_ASSIGN: "OMul", token.QUO_ASSIGN: "OQuo",
				token.REM_ASSIGN: "ORem", token.SHL_ASSIGN: "OShl", token.SHR_ASSIGN: "OShr", token.AND_ASSIGN: "OAnd", token.OR_ASSIGN: "OOr", token.XOR_ASSIGN: "OXor"}[x.Tok]
			if !ok {
				fail("assignment operator %s", x.Tok)
			}
			return "(LSStore " + q(name) + " " + idx + " (LBin " + ty + " " + op + " (LIndex " + q(name) + " " + idx + ") " + t.expr(x.Rhs[0]) + "))"
		}
		if t.L && (isSliceType(t.info.TypeOf(x.Rhs[0])) || (t.isNil(x.Rhs[0]) && isSliceType(t.info.TypeOf(x.Lhs[0])))) {
			if x.Tok != token.DEFINE && x.Tok != token.ASSIGN {
				fail("assignment operator %s on a slice", x.Tok)
			}
			return t.assignSlice(x.Lhs[0], x.Rhs[0])
		}
		if x.Tok == token.DEFINE || x.Tok == token.ASSIGN {
			rhs = t.expr(x.Rhs[0])
			return "(" + t.c("SAssign") + " " + q(t.lhs(x.Lhs[0])) + " " + rhs + ")"
		}
		op, ok := map[token.Token]string{token.ADD_ASSIGN: "OAdd", token.SUB_ASSIGN: "OSub", token.MUL_ASSIGN: "OMul", token.QUO_ASSIGN: "OQuo",
			token.REM_ASSIGN: "ORem", token.SHL_ASSIGN: "OShl", token.SHR_ASSIGN: "OShr", token.AND_ASSIGN: "OAnd", token.OR_ASSIGN: "OOr", token.XOR_ASSIGN: "OXor"}[x.Tok]
		if !ok {
			fail("assignment operator %s", x.Tok)
		}
		ty := ityOf(t.info.TypeOf(x.Lhs[0]))
		return "(" + t.c("SAssign") + " " + q(t.lhs(x.Lhs[0])) + " (" + t.c("EBin") + " " + ty + " " + op + " " + t.expr(x.Lhs[0]) + " " + t.expr(x.Rhs[0]) + "))"
	case *ast.IncDecStmt:
		op := "OAdd"
		if x.Tok == token.DEC {
			op = "OSub"
		}
		ty := ityOf(t.info.TypeOf(x.X))
		if ix, ok := x.X.(*ast.IndexExpr); ok && t.L {
			name, idx := t.indexParts(ix, true)
			return "(LSStore " + q(name) + " " + idx + " (LBin " + ty + " " + op + " (LIndex " + q(name) + " " + idx + ") (LConst 1)))"
		}
		return "(" + t.c("SAssign") + " " + q(t.lhs(x.X)) + " (" + t.c("EBin") + " " + ty + " " + op + " " + t.expr(x.X) + " (" + t.c("EConst") + " 1)))"
	case *ast.IfStmt:
		var pre []string
		if x.Init != nil {
			pre = append(pre, t.stmt(x.Init, results))
		}
		els := t.c("SSkip")
		if x.Else != nil {
			els = t.stmt(x.Else, results)
		}
		return t.seq(append(pre, "("+t.c("SIf")+" "+t.expr(x.Cond)+"\n    "+t.block(x.Body, results)+"\n    "+els+")"))
	case *ast.ForStmt:
		noJumps(x.Body)
		var pre []string
		if x.Init != nil {
			pre = append(pre, t.stmt(x.Init, results))
		}
		cond := "(" + t.c("EConst") + " 1)"
		if x.Cond != nil {
			cond = t.expr(x.Cond)
		}
		body := t.block(x.Body, results)
		if x.Post != nil {
			body = t.seq([]string{body, t.stmt(x.Post, results)})
		}
		return t.seq(append(pre, "("+t.c("SFor")+" "+cond+"\n    "+body+")"))
	case *ast.ExprStmt:
		if c, ok := x.X.(*ast.CallExpr); ok && t.L && t.builtinName(c) != "" {
			fail("builtin %s as a statement", t.builtinName(c))
		}
	case *ast.RangeStmt:
		if !t.L {
			fail("statement %T", s)
		}
		xs, ok := t.sliceVar(x.X)
		if !ok {
			fail("range over %s: only a slice variable can be ranged over", types.ExprString(x.X))
		}
		if x.Tok != token.DEFINE && (x.Key != nil || x.Value != nil) {
			fail("range assigning to existing variables")
		}
		noJumps(x.Body)
		blank := func(e ast.Expr) bool {
			if e == nil {
				return true
			}
			id, ok := e.(*ast.Ident)
			return ok && id.Name == "_"
		}
		k, v := "_", "_"
		if !blank(x.Key) {
			k = t.lhs(x.Key)
		}
		if !blank(x.Value) {
			// the value variable reads the elements as they are when the iteration starts: a body that
			// changes the slice would see its own stores in Go but not in the by-value semantics
			if t.modifies(x.Body, xs) {
				fail("the ranged slice %s is modified inside the loop body", xs.Name())
			}
			v = t.lhs(x.Value)
		}
		return "(LSRange " + q(k) + " " + q(v) + " " + q(t.nameOf(xs)) + "\n    " + t.block(x.Body, results) + ")"
	case *ast.SwitchStmt:
		if x.Tag != nil {
			fail("switch with a tag")
		}
		var pre []string
		if x.Init != nil {
			pre = append(pre, t.stmt(x.Init, results))
		}
		noJumps(x.Body)
		// cases in source order, default last
		type cc struct{ cond, body string }
		var cases []cc
		def := t.c("SSkip")
		for _, c := range x.Body.List {
			cl := c.(*ast.CaseClause)
			var bs []string
			for _, s := range cl.Body {
				bs = append(bs, t.stmt(s, results))
			}
			if cl.List == nil {
				def = t.seq(bs)
				continue
			}
			cond := t.expr(cl.List[0])
			for _, e := range cl.List[1:] {
				cond = "(" + t.c("EOrElse") + " " + cond + " " + t.expr(e) + ")"
			}
			cases = append(cases, cc{cond, t.seq(bs)})
		}
		out := def
		for i := len(cases) - 1; i >= 0; i-- {
			out = "(" + t.c("SIf") + " " + cases[i].cond + "\n    " + cases[i].body + "\n    " + out + ")"
		}
		return t.seq(append(pre, out))
	case *ast.ReturnStmt:
		if len(x.Results) == 0 {
			var es []string
			for i := 0; i < results.Len(); i++ {
				if results.At(i).Name() == "" {
					fail("bare return with unnamed results")
				}
				if results.At(i).Name() == "_" {
					es = append(es, "("+t.c("EConst")+" 0)") // a blank result is never assigned: its zero value
					continue
				}
				es = append(es, "("+t.c("EVar")+" "+q(t.nameOf(results.At(i)))+")")
			}
			return "(" + t.c("SReturn") + " [" + strings.Join(es, "; ") + "])"
		}
		if len(x.Results) == 1 && results.Len() > 1 {
			// return f(args) forwarding all results of a call
			call, ok := x.Results[0].(*ast.CallExpr)
			if !ok {
				fail("return of a multi-value expression")
			}
			f, targ, args := t.call(call)
			if f == "fmt.Errorf" || f == "errors.New" {
				fail("return of a multi-value expression")
			}
			var tmps, evs []string
			for i := 0; i < results.Len(); i++ {
				t.tyOK(results.At(i).Type())
				tmps = append(tmps, q(fmt.Sprintf("ret#%d", i)))
				evs = append(evs, "("+t.c("EVar")+" "+q(fmt.Sprintf("ret#%d", i))+")")
			}
			return "(" + t.c("SSeq") + " (" + t.c("SCall") + " [" + strings.Join(tmps, "; ") + "] " + q(f) + " " + targ + " " + args + ")\n   (" + t.c("SReturn") + " [" + strings.Join(evs, "; ") + "]))"
		}
		if len(x.Results) != results.Len() {
			fail("return of a multi-value call")
		}
		var es []string
		for i, r := range x.Results {
			if t.L && isSliceType(results.At(i).Type()) {
				es = append(es, t.sliceValue(r, "result"))
				continue
			}
			ityOf(results.At(i).Type())
			es = append(es, t.expr(r))
		}
		return "(" + t.c("SReturn") + " [" + strings.Join(es, "; ") + "])"
	}
	fail("statement %T", s)
	return ""
}

func noJumps(b *ast.BlockStmt) {
	ast.Inspect(b, func(n ast.Node) bool {
		if br, ok := n.(*ast.BranchStmt); ok {
			fail("%s statement", br.Tok)
		}
		return true
	})
}

type emitted struct {
	key, ident, body, pos string
}

func translate(fset *token.FileSet, info *types.Info, pkg *types.Package, fd *ast.FuncDecl, relfile string, L bool) (out emitted, err error) {
	defer func() {
		if r := recover(); r != nil {
			if u, ok := r.(unsupported); ok {
				err = fmt.Errorf("%s", u.msg)
				return
			}
			panic(r)
		}
	}()
	fn := info.Defs[fd.Name].(*types.Func)
	sig := fn.Type().(*types.Signature)
	t := &tr{fset: fset, info: info, pkg: pkg, names: map[types.Object]string{}, used: map[string]int{}, L: L, sparams: map[types.Object]bool{}}
	var params, outs []string
	if r := sig.Recv(); r != nil && L {
		fail("method: a receiver is outside the slice fragment")
	}
	if r := sig.Recv(); r != nil {
		rt := r.Type()
		ptr := false
		if p, ok := rt.(*types.Pointer); ok {
			rt = p.Elem()
			ptr = true
		}
		switch st := rt.Underlying().(type) {
		case *types.Struct:
			// the receiver's INTEGER fields become in (and, for a pointer receiver, out) variables named
			// "recv.field"; a body that touches any other field is refused where it does so
			t.recv = r
			t.rflds = map[string]bool{}
			for i := 0; i < st.NumFields(); i++ {
				if !isIntLike(st.Field(i).Type()) || st.Field(i).Embedded() {
					continue
				}
				t.rflds[st.Field(i).Name()] = true
				params = append(params, q(r.Name()+"."+st.Field(i).Name()))
				if ptr {
					outs = append(outs, q(r.Name()+"."+st.Field(i).Name()))
				}
			}
		case *types.Basic:
			// a value receiver of a named integer type is an ordinary first parameter
			if ptr {
				fail("pointer receiver of a non-struct type")
			}
			ityOf(rt)
			params = append(params, q(t.nameOf(r)))
		default:
			fail("receiver type %s", rt.String())
		}
	}
	if sig.TypeParams() != nil && sig.TypeParams().Len() > 1 {
		fail("more than one type parameter")
	}
	if sig.Variadic() && !L {
		fail("variadic function")
	}
	for i := 0; i < sig.Params().Len(); i++ {
		p := sig.Params().At(i)
		t.tyOK(p.Type()) // (a variadic parameter ...T has the type []T)
		if isSliceType(p.Type()) {
			t.sparams[p] = true
		}
		params = append(params, q(t.nameOf(p)))
	}
	var init []string
	for i := 0; i < sig.Results().Len(); i++ {
		r := sig.Results().At(i)
		t.tyOK(r.Type())
		if r.Name() != "" && r.Name() != "_" {
			n := t.nameOf(r)
			if isSliceType(r.Type()) {
				// a named slice result starts as nil (a scalar one as 0, the default of an unset variable)
				init = append(init, "(LSAssign "+q(n)+" LNil)")
			}
		}
	}
	body := t.block(fd.Body, sig.Results())
	key := funcKey(fn)
	ident := "f_" + strings.NewReplacer(".", "_").Replace(key)
	p := fset.Position(fd.Pos())
	if L {
		body = t.seq(append(init, body))
		out = emitted{key: key, ident: "fl_" + strings.NewReplacer(".", "_").Replace(key), pos: fmt.Sprintf("%s:%d", relfile, p.Line),
			body: "{| lparams := [" + strings.Join(params, "; ") + "];\n   lbody :=\n   " + body + " |}"}
		return out, nil
	}
	out = emitted{key: key, ident: ident, pos: fmt.Sprintf("%s:%d", relfile, p.Line),
		body: "{| fparams := [" + strings.Join(params, "; ") + "];\n   fouts := [" + strings.Join(outs, "; ") + "];\n   fbody :=\n   " + body + " |}"}
	return out, nil
}

func main() {
	if len(os.Args) < 2 {
		fmt.Fprintln(os.Stderr, "usage (from the repository root): go2coq <out.v>")
		os.Exit(2)
	}
	var unsup []string
	// GO2COQ_SELECT="dir=Name1,Name2;dir2=T.Method" replaces the built-in selection (used by the self-test);
	// GO2COQ_SELECT_L likewise for the slice fragment ("-" = nothing)
	parseSel := func(env string) (out []struct {
		dir   string
		names []string
	}) {
		for _, part := range strings.Split(env, ";") {
			kv := strings.SplitN(part, "=", 2)
			if len(kv) == 2 {
				out = append(out, struct {
					dir   string
					names []string
				}{kv[0], strings.Split(kv[1], ",")})
			}
		}
		return out
	}
	if env := os.Getenv("GO2COQ_SELECT"); env != "" {
		selected = parseSel(env)
		if os.Getenv("GO2COQ_SELECT_L") == "" {
			selectedL = nil // a replaced selection names another module: the built-in slice table does not apply
		}
	}
	if env := os.Getenv("GO2COQ_SELECT_L"); env != "" {
		selectedL = parseSel(env)
	}
	ems := translateAll(selected, false, &unsup)
	emsL := translateAll(selectedL, true, &unsup)
	writeOut(ems, emsL, unsup)
}

func translateAll(selected []struct {
	dir   string
	names []string
}, L bool, unsupp *[]string) []emitted {
	var ems []emitted
	unsup := *unsupp
	defer func() { *unsupp = unsup }()
	for _, sel := range selected {
		fset := token.NewFileSet()
		pkgs, err := parser.ParseDir(fset, sel.dir, func(fi os.FileInfo) bool {
			return !strings.HasSuffix(fi.Name(), "_test.go") && !strings.HasSuffix(fi.Name(), "_verif.go")
		}, 0)
		if err != nil {
			fmt.Fprintln(os.Stderr, err)
			os.Exit(1)
		}
		for _, p := range pkgs {
			var files []*ast.File
			var fnames []string
			for fn := range p.Files {
				fnames = append(fnames, fn)
			}
			sort.Strings(fnames)
			for _, fn := range fnames {
				files = append(files, p.Files[fn])
			}
			info := &types.Info{Types: map[ast.Expr]types.TypeAndValue{}, Instances: map[*ast.Ident]types.Instance{},
				Uses: map[*ast.Ident]types.Object{}, Defs: map[*ast.Ident]types.Object{}}
			conf := types.Config{Importer: importer.ForCompiler(fset, "source", nil)}
			abs, _ := filepath.Abs(sel.dir)
			tpkg, err := conf.Check(abs, fset, files, info)
			if err != nil {
				fmt.Fprintln(os.Stderr, "type check:", err)
				os.Exit(1)
			}
			found := map[string]bool{}
			for i, f := range files {
				for _, d := range f.Decls {
					fd, ok := d.(*ast.FuncDecl)
					if !ok || fd.Body == nil {
						continue
					}
					name := fd.Name.Name
					if fd.Recv != nil && len(fd.Recv.List) == 1 {
						rt := fd.Recv.List[0].Type
						if s, ok := rt.(*ast.StarExpr); ok {
							rt = s.X
						}
						if id, ok := rt.(*ast.Ident); ok {
							name = id.Name + "." + name
						}
					}
					want := false
					for _, n := range sel.names {
						if n == name {
							want = true
						}
					}
					if !want {
						continue
					}
					found[name] = true
					em, err := translate(fset, info, tpkg, fd, filepath.ToSlash(fnames[i]), L)
					if err != nil {
						unsup = append(unsup, fmt.Sprintf("%s.%s: %v", tpkg.Name(), name, err))
						continue
					}
					ems = append(ems, em)
				}
			}
			for _, n := range sel.names {
				if !found[n] {
					unsup = append(unsup, fmt.Sprintf("%s.%s: not found in the source", p.Name, n))
				}
			}
		}
	}
	return ems
}

func writeOut(ems, emsL []emitted, unsup []string) {
	var sb strings.Builder
	sb.WriteString("(* GENERATED by go2coq from the Go source of go-square - do not edit.\n   Regenerated by bin/check on every run; the theorems of GenProofs/ are about these values. *)\n")
	sb.WriteString("From GS.Model Require Import GoLite.\nFrom GS.Model Require Import GoLiteL.\nOpen Scope string_scope.\nOpen Scope Z_scope.\n\n")
	for _, e := range ems {
		fmt.Fprintf(&sb, "(* %s  (%s) *)\nDefinition %s : fundef :=\n  %s.\n\n", e.key, e.pos, e.ident, e.body)
	}
	sb.WriteString("Definition gen_program : program :=\n  [")
	for i, e := range ems {
		if i > 0 {
			sb.WriteString(";\n   ")
		}
		fmt.Fprintf(&sb, "(%s, %s)", q(e.key), e.ident)
	}
	sb.WriteString("].\n\n")
	sb.WriteString("(* functions outside the supported fragment (their theorems will not compile): *)\nDefinition gen_unsupported : list string :=\n  [")
	for i, u := range unsup {
		if i > 0 {
			sb.WriteString(";\n   ")
		}
		sb.WriteString(q(strings.ReplaceAll(u, "\"", "'")))
	}
	sb.WriteString("].\n")
	// the slice fragment (GoLiteL)
	sb.WriteString("\n(* ---- functions with integer slices: values of the GoLiteL embedding (Model/GoLiteL.v) ---- *)\n\n")
	for _, e := range emsL {
		fmt.Fprintf(&sb, "(* %s  (%s) *)\nDefinition %s : lfundef :=\n  %s.\n\n", e.key, e.pos, e.ident, e.body)
	}
	sb.WriteString("Definition gen_program_l : lprogram :=\n  [")
	for i, e := range emsL {
		if i > 0 {
			sb.WriteString(";\n   ")
		}
		fmt.Fprintf(&sb, "(%s, %s)", q(e.key), e.ident)
	}
	sb.WriteString("].\n")
	if err := os.WriteFile(os.Args[1], []byte(sb.String()), 0o644); err != nil {
		fmt.Fprintln(os.Stderr, err)
		os.Exit(1)
	}
	for _, u := range unsup {
		fmt.Fprintln(os.Stderr, "unsupported:", u)
	}
	fmt.Printf("go2coq: %d functions translated, %d with slices, %d unsupported\n", len(ems), len(emsL), len(unsup))
}
